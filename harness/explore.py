#!/usr/bin/env python3
"""Development aid: run case families and summarise implementation / model / reference disagreements."""
import sys, os, random, collections, shutil
sys.path.insert(0, os.path.dirname(os.path.abspath(__file__)))
import check
from gens import isa, forms

def main():
    fam = sys.argv[1]
    n = int(sys.argv[2]) if len(sys.argv) > 2 else 2000
    seed = int(sys.argv[3]) if len(sys.argv) > 3 else 1
    rnd = random.Random(seed)
    ctx = isa.Ctx(rnd, tag=7)
    if fam == "mov": lines = forms.gen_mov(ctx, n)
    elif fam == "arith": lines = forms.gen_alu2(ctx, n, forms.ARITH2) + forms.gen_alu1(ctx, n, forms.ARITH1) + forms.gen_misc_arith(ctx, n)
    elif fam == "logic": lines = forms.gen_alu2(ctx, n, forms.LOGIC2) + forms.gen_alu1(ctx, n, forms.LOGIC1)
    elif fam == "bit": lines = forms.gen_bit(ctx, n)
    elif fam == "flow": lines = forms.gen_bcc(ctx, False, n) + forms.gen_calls(ctx, n)
    elif fam == "exc": lines = forms.gen_exc(ctx, n)
    elif fam == "stc": lines = forms.gen_stc(ctx, n)
    elif fam == "unimpl": lines = forms.gen_unimpl(ctx, n)
    elif fam == "first": lines = forms.gen_first_words(ctx, range(0, 65536, max(1, 65536 // n)))
    else: raise SystemExit("family?")
    ok, msg = check.build_runner(); assert ok, msg
    exe, err = check.build_repo("rel"); assert exe, err
    wd = os.path.join(check.CACHE, "explore"); shutil.rmtree(wd, ignore_errors=True); os.makedirs(wd)
    cf = os.path.join(wd, "x.cases"); open(cf, "w").write("\n".join(lines) + "\n")
    _, iout, mout, cons, status = check.run_shard((exe, cf, 600))
    print(status)
    I = {}; M = {}; R = {}; D = {}
    for l in open(iout):
        t = check.parse_tokens(l); I[t["id"]] = t
    for l in open(mout):
        t = check.parse_tokens(l[2:])
        {"M": M, "R": R, "D": D}[l[0]][t["id"]] = t
    cat = collections.Counter(); ex = {}
    for l in lines:
        t = check.parse_tokens(l); cid = t["id"]
        i, m, r, d = I.get(cid), M.get(cid), R.get(cid, {}), D.get(cid, {})
        code = t["mem"].split(";")[0].split(":")[1]
        dom = any(v == "1" for k, v in d.items() if k.startswith("C"))
        im = [k for k in m if k != "id" and i.get(k, "") != m[k]] if i else ["noimpl"]
        key = None
        if im:
            key = ("impl!=model", "dom" if dom else "nodom", code[:3], tuple(im))
        if dom and r.get("resclass"):
            mr = check.project_equal(m, r)
            if mr:
                key2 = ("model!=ref", code[:3], tuple(mr)); cat[key2] += 1; ex.setdefault(key2, (l, m, r))
            ir = check.project_equal(i, r) if i else ["noimpl"]
            if ir:
                key3 = ("impl!=ref", code[:3], tuple(ir)); cat[key3] += 1; ex.setdefault(key3, (l, i, r))
        if key:
            cat[key] += 1; ex.setdefault(key, (l, i, m))
    print(len(lines), "cases;", sum(1 for c in D.values() if any(v == "1" for k, v in c.items() if k.startswith("C"))), "in some domain")
    for k, c in sorted(cat.items(), key=lambda x: (x[0][0], -x[1]))[:int(os.environ.get("TOP", "40"))]:
        print(c, k)
        if os.environ.get("SHOW"):
            a, b, c2 = ex[k]
            print("   case:", a); print("   A:", b); print("   B:", c2)

main()
