"""C07: all 65 536 first words (x register files), every second word of the multi-word prefixes, every form of the
implemented set and the listed unimplemented instructions."""
from . import forms, common, isa
KEYS = common.STATE_KEYS
RULE = ("all 65536 first words x %d register files with random / zero following words; all 65536 second words for prefixes 0100, 0140, 01F0 "
        "and sampled 78rr/7Crr-7Frr x second words; all generator forms; distinct = distinct (opcode words, outcome, result state)")
nontrivial_key = common.step_key

def second_words(c, prefixes, words):
    r = c.rnd
    out = []
    for p in prefixes:
        for w in words:
            code = isa.w16(p) + isa.w16(w) + [r.randrange(256) if r.random() < 0.5 else 0 for _ in range(6)]
            if r.random() < 0.5:
                code[4] = 0x00
            pc = c.pick_pc(10)
            er = c.regs()
            for i in range(7):
                if r.random() < 0.6:
                    er[i] = c.upper() | c.data_addr(4, avoid=(pc, pc + 10))
            out.append(c.line("step", code, pc, er, r.randrange(256)))
    return out

def generate(tier, seed, info):
    c = common.ctx(seed, 7)
    r = c.rnd
    nreg = 2 if tier == "quick" else 4
    lines = forms.gen_first_words(c, range(65536), regfiles=nreg)
    step = 7 if tier == "quick" else 1
    lines += second_words(c, [0x0100, 0x0140, 0x01f0], range(0, 65536, step))
    pre = [0x7800 | (x << 4) for x in range(16)] + [0x7c00 | (x << 4) for x in range(16)] + [0x7d00 | (x << 4) for x in range(16)] + \
          [0x7e00 | r.randrange(256) for _ in range(4)] + [0x7f00 | r.randrange(256) for _ in range(4)] + [0x7e00, 0x7f1f]
    lines += second_words(c, pre, range(0, 65536, 61 if tier == "quick" else 5))
    n = 8000 if tier == "quick" else 100000
    lines += forms.gen_unimpl(c, n) + forms.gen_mov(c, n) + forms.gen_stc(c, n) + forms.gen_bit(c, n) + forms.gen_calls(c, n)
    # one valid instruction executed as another valid one may differ for a few flag values only: every condition x every CCR
    lines += forms.gen_bcc(c, True)
    info["cases"] = len(lines); info["exhaustive"] = True
    info["exhaustive_part"] = "all 65536 first instruction words" + ("; all second words of 0100/0140/01F0" if tier != "quick" else "")
    return common.shard(common.renumber(lines))
RULE = RULE % 2
