"""C11: elf::load on generated ELF32-BE files (zeroed memory); the whole memory image is compared with the point-wise
expected image of Spec/ElfSpec.v (segment bytes, zero elsewhere, GOT entries relocated once, nothing outside DRAM)."""
import random
from . import common, elfgen
KEYS = ["res", "mdimg"]
RULE = ("generated ELF32-BE executables: 1-4 PT_LOAD segments, interleaved non-load headers, arbitrary file offsets, shuffled sections, "
        ".got of 0-64 entries (also unaligned, values carrying into the top byte); distinct = distinct (layout signature, image)")
SHARD_TIMEOUT = 2400
SALT = 11


def nontrivial_key(case, model):
    return (case.get("elf", "")[:400], len(case.get("elf", "")), model.get("er"), hash(model.get("md")))


def generate(tier, seed, info, salt=None):
    rnd = random.Random(seed * 131 + (salt or SALT))
    n_cases = 800 if tier == "quick" else 6000
    lines = []
    stats = {"nload": {}, "paddr_mode": {}, "last_nonload": 0, "got": 0, "stack": 0, "symtab": 0, "bytes": 0}
    for cid in range(1, n_cases + 1):
        elf, meta = elfgen.build(rnd, big=(cid % (8 if tier == "quick" else 4) == 0))
        args = elfgen.gen_args(rnd)
        stats["nload"][meta["nload"]] = stats["nload"].get(meta["nload"], 0) + 1
        stats["paddr_mode"][meta["pmode"]] = stats["paddr_mode"].get(meta["pmode"], 0) + 1
        stats["last_nonload"] += 0 if meta["last_is_load"] else 1
        stats["got"] += 1 if meta["has_got"] else 0
        stats["stack"] += 1 if meta["has_stack"] else 0
        stats["symtab"] += 1 if meta["has_symtab"] else 0
        stats["bytes"] += meta["size"]
        er = [rnd.randrange(1 << 32) for _ in range(8)] if rnd.random() < 0.5 else [0] * 8
        lines.append("id=%x kind=load er=%s exit=%x elf=%s ops=load:@:%s" % (
            cid, ",".join("%x" % x for x in er), rnd.choice([0, 0x1234]), elf.hex(), args.hex()))
    info["cases"] = len(lines)
    info["distribution"] = stats
    return common.shard(lines)
