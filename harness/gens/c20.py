"""C20: every implemented form, code in RAM and DRAM, operands / stack / vectors in RAM, DRAM and the vector area,
random bus-controller settings (every area's per-cycle price differs across cases)."""
from . import forms, common
KEYS = ["st"]
RULE = "every generator form under random ABWCR/ASTCR/WCRH/WCRL/DRCRA settings; compared: the states returned by the step; distinct = distinct (opcode, settings, charge)"

def nontrivial_key(case, model):
    parts = case["mem"].split(";")
    code = [x for x in parts if not x.startswith("fee02")][0].split(":")[1]
    return (code[:4], tuple(x for x in parts if x.startswith("fee02")), model.get("res"))

def generate(tier, seed, info):
    c = common.ctx(seed, 20)
    n = 12000 if tier == "quick" else 300000
    bc = "default"
    lines = forms.gen_mov(c, 3 * n, bc=bc) + forms.gen_alu2(c, n, forms.ARITH2 + forms.LOGIC2, bc=bc)
    lines += forms.gen_alu1(c, n, forms.ARITH1 + forms.LOGIC1, bc=bc) + forms.gen_misc_arith(c, n, bc=bc) + forms.gen_bit(c, 2 * n, bc=bc)
    # @ERn+ loads / @-ERn stores whose data register is (part of) the address register: charge-only claim
    lines += forms.gen_mov(c, n // 2, modes=("inc",), bc=bc, allow_overlap=True)
    # control-flow / STC families take the settings through a wrapper
    extra = forms.gen_bcc(c, False, n) + forms.gen_calls(c, 2 * n) + forms.gen_exc(c, n) + forms.gen_stc(c, n)
    r = c.rnd
    fixed = []
    for l in extra:
        regs = "fee020:%02x%02x%02x%02x;fee026:%02x" % (r.randrange(256), r.randrange(256), r.randrange(256), r.randrange(256),
                                                        r.choice([0, 0x20, 0xe0, r.randrange(256)]))
        fixed.append(l.replace(" mem=", " mem=" + regs + ";", 1))
    lines += fixed
    info["cases"] = len(lines)
    return common.shard(common.renumber(lines))
