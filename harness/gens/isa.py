"""Instruction-case generator library: encoders for every implemented H8/300H form (DESIGN.md appendix A),
boundary-directed operand values, address pickers over on-chip RAM / DRAM / vector area, case-line builder.
All randomness comes from the random.Random instance passed in."""

RAM = (0xffbf20, 0xffff1f)
DRAM = (0x400000, 0x5fffff)
VEC = (0x000000, 0x0000ff)
SZ = {"b": 1, "w": 2, "l": 4}
BITS = {"b": 8, "w": 16, "l": 32}


def w16(x):
    return [(x >> 8) & 0xff, x & 0xff]


def w32(x):
    return [(x >> 24) & 0xff, (x >> 16) & 0xff, (x >> 8) & 0xff, x & 0xff]


def hexb(bs):
    return "".join("%02x" % b for b in bs)


# ------------------------------------------------------------------ value pools
def boundary_vals(n):
    s = {0, 1, 2, (1 << n) - 1, (1 << n) - 2, 1 << (n - 1), (1 << (n - 1)) - 1, (1 << (n - 1)) + 1,
         1 << (n - 2), (1 << (n - 2)) - 1, (1 << (n - 2)) + 1, 3 << (n - 2), 0x55555555 & ((1 << n) - 1), 0xaaaaaaaa & ((1 << n) - 1)}
    for k in (4, 8, 12, 16, 24, 28):
        if k < n:
            s |= {(1 << k) - 1, 1 << k, (1 << k) + 1}
    return sorted(s)


def rand_val(rnd, n):
    r = rnd.random()
    if r < 0.45:
        return rnd.choice(boundary_vals(n))
    if r < 0.55:
        return rnd.randrange(1 << min(n, 8))
    return rnd.randrange(1 << n)


def rand_pair(rnd, n):
    """(a, b) with a+b / a-b near the carry-chain thresholds with high probability."""
    r = rnd.random()
    mask = (1 << n) - 1
    if r < 0.5:
        T = rnd.choice([1 << 4, 1 << 8, 1 << 12, 1 << 16, 1 << 28, 1 << (n - 1), 1 << n, 1 << (n - 4)])
        a = rand_val(rnd, n)
        d = rnd.choice([-1, 0, 1])
        if rnd.random() < 0.5:
            b = (T - a + d) & mask      # a + b around T
        else:
            b = (a - T + d) & mask      # a - b around T
            if rnd.random() < 0.3:
                b = (a + d) & mask      # a - b around 0
        return a, b
    return rand_val(rnd, n), rand_val(rnd, n)


# ------------------------------------------------------------------ case context
class Ctx:
    def __init__(self, rnd, tag=None):
        self.rnd = rnd
        self.tag = tag
        self.n = 0

    def code_base(self):
        r = self.rnd
        k = r.random()
        if k < 0.45:
            return r.randrange(RAM[0], RAM[1] - 64) & ~1
        if k < 0.9:
            return r.randrange(DRAM[0], DRAM[1] - 64) & ~1
        # last bytes of a region (the instruction still fits; callers pass its length)
        return None

    def pick_pc(self, length):
        b = self.code_base()
        if b is None:
            lo, hi = self.rnd.choice([RAM, DRAM])
            b = (hi + 1 - length) & ~1
        return b

    def data_addr(self, size, avoid=None, regions=(RAM, DRAM, VEC), align=True):
        r = self.rnd
        for _ in range(100):
            lo, hi = r.choice(regions)
            k = r.random()
            if k < 0.15:
                a = lo
            elif k < 0.3:
                a = hi + 1 - size
            elif k < 0.4:
                a = r.choice([lo + size, hi + 1 - 2 * size, lo + 1 if not align else lo + 2])
            else:
                a = r.randrange(lo, hi + 2 - size)
            if align and size > 1:
                a &= ~1
            if a < lo or a + size - 1 > hi:
                continue
            if avoid and not (a + size <= avoid[0] or avoid[1] <= a):
                continue
            return a
        raise RuntimeError("no address")

    def line(self, kind, code, pc, er, ccr, mem=None, ops="step", extra=""):
        self.n += 1
        m = ["%x:%s" % (pc, hexb(code))]
        for a, bs in (mem or {}).items():
            m.append("%x:%s" % (a, hexb(bs)))
        t = ("tag=%x " % self.tag) if self.tag is not None else ""
        return "id=%x kind=%s %spc=%x ccr=%x er=%s mem=%s %sops=%s" % (
            self.n, kind, t, pc, ccr, ",".join("%x" % x for x in er), ";".join(m), extra, ops)

    def regs(self, fixed=None):
        r = self.rnd
        er = [rand_val(r, 32) for _ in range(8)]
        er[7] = (r.randrange(RAM[0] + 64, RAM[1] - 64) & ~3) | (r.choice([0, 0, 0xff, r.randrange(256)]) << 24)
        for i, v in (fixed or {}).items():
            er[i] = v & 0xffffffff
        return er

    def upper(self):
        return self.rnd.choice([0, 0, 0xff, 0x80, 0x01, self.rnd.randrange(256)]) << 24


# ------------------------------------------------------------------ register lanes
def set_lane(er, size, field, value):
    """Write value into the register field (byte: 0-7 RnH, 8-15 RnL; word: 0-7 Rn, 8-15 En; long 0-7)."""
    if size == "l":
        er[field & 7] = value & 0xffffffff
    elif size == "w":
        i = field & 7
        if field < 8:
            er[i] = (er[i] & 0xffff0000) | (value & 0xffff)
        else:
            er[i] = (er[i] & 0x0000ffff) | ((value & 0xffff) << 16)
    else:
        i = field & 7
        if field < 8:
            er[i] = (er[i] & 0xffff00ff) | ((value & 0xff) << 8)
        else:
            er[i] = (er[i] & 0xffffff00) | (value & 0xff)


def rfield(rnd, size):
    return rnd.randrange(8) if size == "l" else rnd.randrange(16)


# ------------------------------------------------------------------ encoders
ALU2_RR = {  # op -> (byte opcode, word opcode, long scheme)
    "add": (0x08, 0x09, ("0a", None)), "sub": (0x18, 0x19, ("1a", None)), "cmp": (0x1c, 0x1d, ("1f", None)),
    "and": (0x16, 0x66, ("01f0", 0x66)), "or": (0x14, 0x64, ("01f0", 0x64)), "xor": (0x15, 0x65, ("01f0", 0x65)),
    "addx": (0x0e, None, None),
}
ALU2_IMM_B = {"add": 0x8, "addx": 0x9, "cmp": 0xa, "or": 0xc, "xor": 0xd, "and": 0xe}
ALU2_IMM_WL = {"add": 1, "cmp": 2, "sub": 3, "or": 4, "xor": 5, "and": 6}


def enc_alu2_rr(op, size, rs, rd):
    b, wv, lg = ALU2_RR[op]
    if size == "b":
        return [b, (rs << 4) | rd]
    if size == "w":
        return [wv, (rs << 4) | rd]
    if lg[0] == "01f0":
        return [0x01, 0xf0, lg[1], (rs << 4) | rd]
    return [int(lg[0], 16), ((8 | rs) << 4) | rd]


def enc_alu2_imm(op, size, imm, rd):
    if size == "b":
        return [(ALU2_IMM_B[op] << 4) | rd, imm & 0xff]
    if size == "w":
        return [0x79, (ALU2_IMM_WL[op] << 4) | rd] + w16(imm)
    return [0x7a, (ALU2_IMM_WL[op] << 4) | rd] + w32(imm)


ALU1 = {  # name -> (first byte, {size: high nibble of second byte})
    "shll": (0x10, {"b": 0x0, "w": 0x1, "l": 0x3}), "shal": (0x10, {"b": 0x8, "w": 0x9, "l": 0xb}),
    "shlr": (0x11, {"b": 0x0, "w": 0x1, "l": 0x3}), "shar": (0x11, {"b": 0x8, "w": 0x9, "l": 0xb}),
    "rotxl": (0x12, {"b": 0x0, "w": 0x1, "l": 0x3}), "rotl": (0x12, {"b": 0x8, "w": 0x9, "l": 0xb}),
    "rotxr": (0x13, {"b": 0x0, "w": 0x1, "l": 0x3}), "rotr": (0x13, {"b": 0x8, "w": 0x9, "l": 0xb}),
    "not": (0x17, {"b": 0x0, "w": 0x1, "l": 0x3}), "extu": (0x17, {"w": 0x5, "l": 0x7}),
    "neg": (0x17, {"b": 0x8, "w": 0x9, "l": 0xb}),
    "inc1": (None, {"b": (0x0a, 0x0), "w": (0x0b, 0x5), "l": (0x0b, 0x7)}),
    "inc2": (None, {"w": (0x0b, 0xd), "l": (0x0b, 0xf)}),
    "dec1": (None, {"b": (0x1a, 0x0), "w": (0x1b, 0x5), "l": (0x1b, 0x7)}),
    "dec2": (None, {"w": (0x1b, 0xd), "l": (0x1b, 0xf)}),
}


def enc_alu1(op, size, rd):
    fb, tab = ALU1[op]
    if fb is None:
        fb, hn = tab[size]
    else:
        hn = tab[size]
    return [fb, (hn << 4) | rd]


def enc_adds(k, erd, sub=False):
    return [0x1b if sub else 0x0b, ({1: 0x0, 2: 0x8, 4: 0x9}[k] << 4) | erd]


def enc_mov_rr(size, rs, rd):
    if size == "b":
        return [0x0c, (rs << 4) | rd]
    if size == "w":
        return [0x0d, (rs << 4) | rd]
    return [0x0f, ((8 | rs) << 4) | rd]


def enc_mov_imm(size, imm, rd):
    if size == "b":
        return [0xf0 | rd, imm & 0xff]
    if size == "w":
        return [0x79, rd] + w16(imm)
    return [0x7a, rd] + w32(imm)


def enc_mov_mem(size, load, mode, areg, dreg, x=0):
    """mode: ind, d16, d24, inc (postinc load / predec store), a8, a16, a24. x = displacement or absolute."""
    pre = [0x01, 0x00] if size == "l" else []
    hi = 0 if load else 8
    if mode == "ind":
        return pre + [{"b": 0x68, "w": 0x69, "l": 0x69}[size], ((hi | areg) << 4) | dreg]
    if mode == "d16":
        return pre + [{"b": 0x6e, "w": 0x6f, "l": 0x6f}[size], ((hi | areg) << 4) | dreg] + w16(x)
    if mode == "inc":
        return pre + [{"b": 0x6c, "w": 0x6d, "l": 0x6d}[size], ((hi | areg) << 4) | dreg]
    if mode == "d24":
        d = x & 0xffffff
        if size == "l":
            return pre + [0x78, (hi | areg) << 4, 0x6b, ((0x2 if load else 0xa) << 4) | dreg] + w32(d)
        return [0x78, areg << 4, 0x6a if size == "b" else 0x6b, ((0x2 if load else 0xa) << 4) | dreg] + w32(d)
    if mode == "a8":
        return [((0x2 if load else 0x3) << 4) | dreg, x & 0xff]
    if mode == "a16":
        return pre + [0x6a if size == "b" else 0x6b, ((0x0 if load else 0x8) << 4) | dreg] + w16(x)
    if mode == "a24":
        return pre + [0x6a if size == "b" else 0x6b, ((0x2 if load else 0xa) << 4) | dreg] + w32(x & 0xffffff)
    raise ValueError(mode)


BIT_RO = {"btst": 0x3, "bor": 0x4, "bxor": 0x5, "band": 0x6, "bld": 0x7}      # 0x7x imm forms, 7c/7e prefix
BIT_INV = {"bior": "bor", "bixor": "bxor", "biand": "band", "bild": "bld", "bist": "bst"}
BIT_RMW = {"bset": 0x0, "bnot": 0x1, "bclr": 0x2}


def enc_bit_word(op, bitsrc, k_or_rn, low):
    """The 16-bit operation word: (6x|7x) (bit or rn) (low nibble: register or 0)."""
    inv = op in BIT_INV
    base = BIT_INV.get(op, op)
    if base == "bst":
        return [0x67, (((8 if inv else 0) | k_or_rn) << 4) | low]
    if base in BIT_RMW:
        hb = (0x70 if bitsrc == "imm" else 0x60) | BIT_RMW[base]
        return [hb, (k_or_rn << 4) | low]
    if base == "btst":
        return [0x73 if bitsrc == "imm" else 0x63, (k_or_rn << 4) | low]
    return [0x70 | BIT_RO[base], (((8 if inv else 0) | k_or_rn) << 4) | low]


def bit_is_rmw(op):
    return BIT_INV.get(op, op) in ("bset", "bnot", "bclr", "bst")


def enc_bit(op, bitsrc, k_or_rn, target, t):
    """target: 'reg' (t = rd), 'ern' (t = erd), 'abs' (t = aa)."""
    if target == "reg":
        return enc_bit_word(op, bitsrc, k_or_rn, t)
    rmw = bit_is_rmw(op)
    if target == "ern":
        return [0x7d if rmw else 0x7c, t << 4] + enc_bit_word(op, bitsrc, k_or_rn, 0)
    return [0x7f if rmw else 0x7e, t & 0xff] + enc_bit_word(op, bitsrc, k_or_rn, 0)


BIT_OPS = ["bset", "bnot", "bclr", "btst", "bst", "bist", "bld", "bild", "band", "biand", "bor", "bior", "bxor", "bixor"]
BIT_REGSRC = ["bset", "bnot", "bclr", "btst"]


def enc_bcc(cc, disp, wide):
    if wide:
        return [0x58, cc << 4] + w16(disp)
    return [0x40 | cc, disp & 0xff]


def enc_jmp(kind, x):
    if kind == "reg":
        return [0x59, x << 4]
    if kind == "abs":
        return [0x5a, (x >> 16) & 0xff] + w16(x & 0xffff)
    return [0x5b, x & 0xff]


def enc_jsr(kind, x):
    c = enc_jmp(kind, x)
    c[0] += 4
    return c


def enc_bsr(disp, wide):
    if wide:
        return [0x5c, 0x00] + w16(disp)
    return [0x55, disp & 0xff]


def enc_stc_w(mode, areg, x=0):
    if mode == "ind":
        return [0x01, 0x40, 0x69, (8 | areg) << 4]
    if mode == "d16":
        return [0x01, 0x40, 0x6f, (8 | areg) << 4] + w16(x)
    if mode == "d24":
        return [0x01, 0x40, 0x78, areg << 4, 0x6b, 0xa0] + w32(x & 0xffffff)
    if mode == "dec":
        return [0x01, 0x40, 0x6d, (8 | areg) << 4]
    if mode == "a16":
        return [0x01, 0x40, 0x6b, 0x80] + w16(x)
    return [0x01, 0x40, 0x6b, 0xa0] + w32(x & 0xffffff)


UNIMPL = [
    [0x00, 0x00], [0x01, 0x80], [0x07, 0x5a], [0x03, 0x05], [0x06, 0x7f], [0x04, 0x80], [0x05, 0x01],
    [0xb3, 0x12], [0x1e, 0x34], [0x0f, 0x03], [0x0f, 0x0b], [0x1f, 0x02], [0x1f, 0x0c], [0x17, 0xd3], [0x17, 0xf4],
    [0x01, 0xc0, 0x50, 0x12], [0x01, 0xc0, 0x52, 0x13], [0x01, 0xd0, 0x51, 0x12], [0x01, 0xd0, 0x53, 0x13],
    [0x7b, 0x5c, 0x59, 0x8f], [0x7b, 0xd4, 0x59, 0x8f], [0x6a, 0x43, 0x12, 0x34], [0x6a, 0xc3, 0x12, 0x34],
    [0x01, 0x40, 0x69, 0x10], [0x01, 0x40, 0x6f, 0x20, 0x00, 0x10], [0x01, 0x40, 0x6d, 0x30],
    [0x01, 0x40, 0x6b, 0x00, 0xff, 0x00], [0x01, 0x40, 0x6b, 0x20, 0x00, 0xff, 0xc0, 0x00],
    [0x01, 0x40, 0x78, 0x10, 0x6b, 0x20, 0x00, 0x00, 0x01, 0x00],
]


# ------------------------------------------------------------------ memory-operand placement
def place_mem(ctx, size, mode, pc, length, areg_forbid=(), wrap_bias=0.35, regions=(RAM, DRAM, VEC)):
    """Choose a target address T for a memory operand and derive (areg value, x) for the addressing mode.
    Returns (T, areg, areg_value, x)."""
    r = ctx.rnd
    n = SZ[size]
    T = ctx.data_addr(n, avoid=(pc, pc + length), regions=regions)
    areg = r.choice([i for i in range(8) if i not in areg_forbid])
    up = ctx.upper()
    if mode in ("ind",):
        return T, areg, up | T, 0
    if mode == "inc_load":
        return T, areg, up | T, 0
    if mode == "dec_store":
        return T, areg, (up | T) + n, 0          # may carry into the upper byte: full 32-bit arithmetic
    if mode == "d16":
        d = r.choice([0, 1, -1, 2, -2, 0x7fff, -0x8000, r.randrange(-0x8000, 0x8000), r.randrange(-64, 64)])
        base = (T - d) % (1 << 24)
        v = up | base
        if r.random() < wrap_bias:
            # make base + d wrap around 2^24 or 2^32 when possible
            v = (0xff000000 | base) if r.random() < 0.5 else base
        return T, areg, v, d & 0xffff
    if mode == "d24":
        d = r.choice([0, 1, -1, 0x7fffff, -0x800000, r.randrange(-0x800000, 0x800000), r.randrange(-64, 64), T, T - (1 << 24)])
        if not (-0x800000 <= d < 0x800000):
            d = r.randrange(-0x800000, 0x800000)
        base = (T - d) % (1 << 24)
        v = up | base
        if r.random() < wrap_bias:
            v = (0xff000000 | base) if r.random() < 0.5 else base
        return T, areg, v, d & 0xffffff
    raise ValueError(mode)
