"""C04: 14 bit instructions x {imm, Rn bit number} x {Rd, @ERd, @aa:8} x 256 values x 8 bits x both C."""
from . import forms, common
KEYS = common.STATE_KEYS
RULE = ("exhaustive 256 operand values x 8 bit numbers x both carries for every instruction x bit-number source, on register "
        "operands (quick) and on all three operand kinds (thorough); random over @ERd / @aa:8 placements; "
        "distinct = distinct (opcode words, result state)")
nontrivial_key = common.step_key

def generate(tier, seed, info):
    c = common.ctx(seed, 4)
    if tier == "quick":
        lines = forms.gen_bit_exhaustive(c, targets=("reg",))
        lines += forms.gen_bit_exhaustive(c, targets=("ern", "abs"), values=range(0, 256, 5))
        lines += forms.gen_bit(c, 30000)
    else:
        lines = forms.gen_bit_exhaustive(c)
        lines += forms.gen_bit(c, 400000)
    info["cases"] = len(lines); info["exhaustive"] = True
    info["exhaustive_part"] = "256 values x 8 bit numbers x 2 carries x 18 (instruction, bit source) on register operands"
    return common.shard(common.renumber(lines))
