"""C02: ADD SUB CMP ADDX NEG INC DEC ADDS SUBS MULXU DIVXU.  Every 8-bit operand pair (x carry-in for ADDX)
for the byte forms, every 8-bit value for the unary forms, boundary-directed pairs for W/L."""
from . import forms, common
KEYS = common.STATE_KEYS
RULE = ("exhaustive 8-bit pairs for ADD.B/SUB.B/CMP.B/ADDX (rr and imm forms; ADDX x both carries), exhaustive 8-bit (quick) / "
        "8+16-bit (thorough) values for NEG/INC/DEC, boundary-directed random for W/L, ADDS/SUBS/MULXU/DIVXU; "
        "distinct = distinct (opcode word, result state)")
nontrivial_key = common.step_key

def generate(tier, seed, info):
    c = common.ctx(seed, 2)
    lines = forms.gen_alu2_exhaustive_b(c, forms.ARITH2)
    lines += forms.gen_alu1_exhaustive(c, forms.ARITH1, sizes=("b",) if tier == "quick" else ("b", "w"))
    n = 60000 if tier == "quick" else 1200000
    lines += forms.gen_alu2(c, n, forms.ARITH2) + forms.gen_alu1(c, n // 2, forms.ARITH1) + forms.gen_misc_arith(c, n // 2)
    info["cases"] = len(lines); info["exhaustive"] = True
    info["exhaustive_part"] = "all 8-bit operand pairs of the byte forms (ADDX with both carries)"
    return common.shard(common.renumber(lines))
