"""C14: TRAPA #0 with ER0 = 104 (write: buffers in RAM / DRAM, lengths 0-4096, UTF-8 with NUL, newline, backslash,
multi-byte), ER0 = 113 (set_handler: vectors 0-255, then an injected interrupt of that vector), other call numbers."""
import random
from . import common, isa
KEYS = ["resclass", "pc", "ccr", "er", "md", "q", "msgs", "con"]
RULE = ("random write calls (buffer placement, length classes 0,1,2,..,4096, UTF-8 alphabets incl. NUL / newline / backslash / multi-byte), call sequences, "
        "set_handler for vectors 0-255 followed by a request + boundary + handler step (also a request raised while I = 1, kept pending and delivered after an RTE clears I), other call numbers; "
        "distinct = distinct (arguments, outcome, console bytes, messages)")
SHARD_TIMEOUT = 2400

def nontrivial_key(case, model):
    return (case.get("mem"), case.get("er"), model.get("res"), model.get("con"), model.get("msgs"))

ALPH = ["a", "Z", "0", " ", "\n", "\\", "\x00", "\t", "é", "ß", "日", "本", "😀", "\x7f", "n", ":", "\r"]

def text(rnd, nbytes):
    out = b""
    while len(out) < nbytes:
        ch = rnd.choice(ALPH).encode()
        if len(out) + len(ch) > nbytes:
            ch = b"x"
        out += ch
    return out

def generate(tier, seed, info):
    rnd = random.Random(seed * 57 + 14)
    tag = seed % 200 + 3
    lines = []
    n_cases = 2500 if tier == "quick" else 40000
    for cid in range(1, n_cases + 1):
        pc = rnd.choice([0xffc000, 0x410000, 0x4f0000]) + 2 * rnd.randrange(100)
        er = [isa.rand_val(rnd, 32) for _ in range(8)]
        er[7] = (0xffff00 - 4 * rnd.randrange(16)) | (rnd.choice([0, 0, 0x12, 0x80, 0xff, rnd.randrange(256)]) << 24)   # the upper byte of SP is not part of the address
        mem = {}
        ops = ["step"]
        masked = False
        k = rnd.random()
        arg = rnd.choice([0xffd000, 0x450000, 0xffbf20, 0x5fff00]) + 4 * rnd.randrange(8)
        code = [0x57, 0x00]
        if k < 0.6:
            er[0] = 104
            er[1] = arg
            ln = rnd.choice([0, 1, 2, 3, 5, 16, 17, 100, 255, 256, 1000, 4096, rnd.randrange(0, 300), rnd.randrange(0, 4097)])
            buf = rnd.choice([0xffe000 - ln, 0x460000, 0x5ffef0 - ln, 0xffc800, 0x600000 - ln, 0xffff20 - ln]) if ln < 3000 else rnd.choice([0x460000, 0x500000 - ln, 0x600000 - ln])   # also buffers ending on the last byte of DRAM / on-chip RAM
            if not (buf + ln <= arg or arg + 12 <= buf):
                buf = 0x470000
            data = text(rnd, ln)
            mem[arg] = isa.w32(rnd.randrange(0, 3)) + isa.w32(buf) + isa.w32(ln)
            if ln:
                mem[buf] = list(data)
            if rnd.random() < 0.3:
                # a second call right behind the first
                code += [0x57, 0x00]
                ops.append("step")
        elif k < 0.92:
            er[0] = 113
            er[1] = arg
            er[5] = isa.rand_val(rnd, 32)
            v = rnd.choice([0, 1, 36, 37, 39, 63, 64, 65, 255, rnd.randrange(256), rnd.randrange(1, 64)])
            handler = rnd.choice([0xffc400, 0x420000, 0x417000]) + 2 * rnd.randrange(50)
            mem[arg] = isa.w32(v) + isa.w32(handler)
            mem[handler] = [0x0a, 0x08, 0x56, 0x70]      # INC.B R0L ; RTE
            if 1 <= v <= 63:
                if rnd.random() < 0.35:
                    # the request arrives while the guest has I = 1: it must stay pending across boundaries and be
                    # delivered to the installed handler once an RTE restores a CCR with I = 0
                    masked = True
                    ret = pc + 0x40
                    mem[er[7] & 0xffffff] = [rnd.randrange(256) & 0x7f] + [(ret >> 16) & 0xff, (ret >> 8) & 0xff, ret & 0xff]
                    mem[ret] = [0x40, 0xfe]
                    code += [0x56, 0x70]
                    ops += ["irq:%x" % v, "bnd", "bnd", "step", "bnd", "step", "step"]
                else:
                    ops += ["irq:%x" % v, "bnd", "step", "step"]
        else:
            er[0] = rnd.choice([0, 1, 103, 105, 112, 114, 0x10068, 0x10071, 0xffffffff, rnd.randrange(1 << 32)])
            er[1] = arg
        mem[pc] = code + [0x40, 0xfe]
        ccr = (rnd.randrange(256) & 0x7f) | (0x80 if masked else 0)
        m = ";".join("%x:%s" % (a, isa.hexb(b)) for a, b in mem.items())
        lines.append("id=%x kind=mes tag=%x sock= pc=%x ccr=%x er=%s mem=%s ops=%s" % (
            cid, tag, pc, ccr, ",".join("%x" % x for x in er), m, ",".join(ops)))
    info["cases"] = len(lines)
    return common.shard(lines)
