"""C05: Bcc (16 conditions x 256 CCR x d:8/d:16, exhaustive), JMP/BSR/JSR/RTS in all forms."""
from . import forms, common
KEYS = common.STATE_KEYS
RULE = "16 conditions x 256 CCR x {d:8,d:16} exhaustively; random JMP/BSR/JSR/RTS forms over RAM/DRAM stacks with arbitrary upper byte; distinct = distinct (opcode, result state)"
nontrivial_key = common.step_key

def generate(tier, seed, info):
    c = common.ctx(seed, 5)
    lines = forms.gen_bcc(c, True)
    n = 40000 if tier == "quick" else 800000
    lines += forms.gen_bcc(c, False, n) + forms.gen_calls(c, n)
    info["cases"] = len(lines); info["exhaustive"] = True
    info["exhaustive_part"] = "16 conditions x 256 CCR values x both displacement widths"
    return common.shard(common.renumber(lines))
