"""C10: generated programs (main code + handlers ending in RTE) with requests for vectors 1-63 injected at arbitrary
instruction boundaries, including bursts while a handler runs; trace of boundaries / steps against the reference."""
import random
from . import common, isa
KEYS = ["resclass", "pc", "ccr", "er", "md", "q"]
RULE = ("random straight-line main programs (register ALU / MOV / bit instructions) and 1-3 instruction handlers ending in RTE for up to 6 "
        "vectors out of 1-63; request sequences injected between, before and after boundaries, bursts inside handlers; "
        "distinct = distinct (program, schedule, final state)")

def nontrivial_key(case, model):
    return (case.get("mem"), case.get("ops"), model.get("pc"), model.get("er"), model.get("q"))

def simple_insn(r, avoid_sp=True):
    k = r.random()
    reg8 = lambda: r.choice([0, 1, 2, 3, 4, 5, 6, 8, 9, 10, 11, 12, 13, 14])   # no R7H/R7L
    reg16 = lambda: r.choice([0, 1, 2, 3, 4, 5, 6, 8, 9, 10, 11, 12, 13, 14])
    reg32 = lambda: r.randrange(7)
    if k < 0.2:
        return isa.enc_alu2_rr(r.choice(["add", "sub", "cmp", "and", "or", "xor", "addx"]), "b", reg8(), reg8())
    if k < 0.35:
        return isa.enc_alu2_rr(r.choice(["add", "sub", "cmp", "and", "or", "xor"]), "w", reg16(), reg16())
    if k < 0.45:
        return isa.enc_alu2_rr(r.choice(["add", "sub", "cmp"]), "l", reg32(), reg32())
    if k < 0.6:
        return isa.enc_mov_imm("b", r.randrange(256), reg8())
    if k < 0.7:
        op = r.choice(["shll", "shlr", "shar", "rotl", "rotr", "rotxl", "rotxr", "not", "neg", "inc1", "dec1"])
        return isa.enc_alu1(op, "b", reg8())
    if k < 0.8:
        return isa.enc_mov_rr(r.choice(["b", "w"]), reg8(), reg8())
    if k < 0.9:
        return isa.enc_bit(r.choice(["bset", "bclr", "bnot", "btst", "bld", "bst"]), "imm", r.randrange(8), "reg", reg8())
    return isa.enc_adds(r.choice([1, 2, 4]), reg32(), sub=r.random() < 0.5)

def generate(tier, seed, info):
    rnd = random.Random(seed * 101 + 10)
    tag = seed % 200 + 3
    lines = []
    n_cases = 6000 if tier == "quick" else 150000
    for cid in range(1, n_cases + 1):
        main_base = rnd.choice([0xffc000, 0xffd000, 0x410000, 0x500000]) + 2 * rnd.randrange(64)
        nmain = rnd.randrange(8, 40)
        main = []
        for _ in range(nmain):
            main += simple_insn(rnd)
        main += [0x40, 0xfe]      # BRA self
        mem = {main_base: main}
        vectors = rnd.sample(range(1, 64), rnd.randrange(1, 7))
        hbase = rnd.choice([0xffe000, 0x420000])
        for i, v in enumerate(vectors):
            h = []
            for _ in range(rnd.randrange(0, 4)):
                h += simple_insn(rnd)
            h += [0x56, 0x70]
            haddr = hbase + 0x40 * i
            mem[haddr] = h
            mem[4 * v] = isa.w32((rnd.choice([0, 0x5a, 0xff]) << 24) | haddr)
        er = [isa.rand_val(rnd, 32) for _ in range(8)]
        er[7] = (rnd.choice([0, 0, 0x80, 0xff]) << 24) | (rnd.choice([0xffff00, 0xfff800, 0x5ffff0, 0x480000]) - 4 * rnd.randrange(0, 16))
        ops = []
        steps = 0
        maxsteps = nmain + 20
        while steps < maxsteps and len(ops) < 160:
            k = rnd.random()
            if k < 0.18:
                for _ in range(rnd.choice([1, 1, 1, 2, 3, 5])):
                    ops.append("irq:%x" % rnd.choice(vectors))
            elif k < 0.85:
                ops.append("bnd"); ops.append("step"); steps += 1
            elif k < 0.93:
                ops.append("step"); steps += 1
            else:
                ops.append("bnd")
        ccr = rnd.randrange(256) & 0x7f if rnd.random() < 0.85 else rnd.randrange(256)
        m = ";".join("%x:%s" % (a, isa.hexb(b)) for a, b in mem.items())
        lines.append("id=%x kind=irq tag=%x pc=%x ccr=%x er=%s mem=%s ops=%s" % (
            cid, tag, main_base, ccr, ",".join("%x" % x for x in er), m, ",".join(ops)))
    # requests raised by a peripheral itself: programs in which 8-bit timer 0 interrupts the main loop (through Cpu::run)
    from . import c13
    tl = c13.timer_irq_programs(rnd, 300 if tier == "quick" else 5000, tag, n_cases)
    lines += tl
    info["timer_interrupt_programs"] = len(tl)
    info["cases"] = len(lines)
    return common.shard(lines)
