"""C03: AND OR XOR NOT EXTU SHAL SHAR SHLL SHLR ROTL ROTR ROTXL ROTXR."""
from . import forms, common
KEYS = common.STATE_KEYS
RULE = ("exhaustive 8-bit (quick) / 8- and 16-bit (thorough) operands x both carries for the unary forms, exhaustive 8-bit pairs for "
        "AND/OR/XOR.B, boundary-directed random for W/L; distinct = distinct (opcode word, result state)")
nontrivial_key = common.step_key

def generate(tier, seed, info):
    c = common.ctx(seed, 3)
    lines = forms.gen_alu1_exhaustive(c, forms.LOGIC1, sizes=("b",) if tier == "quick" else ("b", "w"))
    if tier == "thorough":
        lines += forms.gen_alu2_exhaustive_b(c, forms.LOGIC2)
    n = 60000 if tier == "quick" else 1200000
    lines += forms.gen_alu2(c, n, forms.LOGIC2) + forms.gen_alu1(c, n, forms.LOGIC1)
    info["cases"] = len(lines); info["exhaustive"] = True
    info["exhaustive_part"] = "all 8-bit operands x both carries of every shift / rotate / NOT form"
    return common.shard(common.renumber(lines))
