"""Generator of structurally valid ELF32 big-endian executables for the loader properties (C11, C12).

Layout freedom exercised: 1-4 non-overlapping PT_LOAD segments (ascending p_vaddr, p_paddr = p_vaddr, filesz <= memsz,
gaps and .bss tails), non-load program headers with arbitrary fields interleaved at any position (also last),
every table / blob at an arbitrary file offset in arbitrary order with random padding, shuffled section headers,
.got of 0-64 entries anywhere inside a segment's file contents (also unaligned), .stack of 0-64 KiB (size in sh_addr,
as the MES linker script emits it), .symtab of 1-200 symbols with ___exit at any index, near-miss names."""
import struct

BASE = 0x416900
NONLOAD_TYPES = [0, 2, 3, 4, 5, 6, 7, 0x6474e550, 0x6474e551, 0x6474e552, 0x70000001]


def be32(v):
    return struct.pack(">I", v & 0xffffffff)


def be16(v):
    return struct.pack(">H", v & 0xffff)


def rand_bytes(rnd, n, zero_p=0.05):
    return bytes(0 if rnd.random() < zero_p else rnd.randrange(1, 256) for _ in range(n))


def gen_args(rnd):
    nwords = rnd.choice([0, 0, 1, 1, 2, 3, 5, 8, 32, rnd.randrange(0, 33)])
    out = b""
    if rnd.random() < 0.4:
        out += bytes(rnd.choice(b" \t") for _ in range(rnd.randrange(1, 4)))
    for i in range(nwords):
        ln = rnd.choice([1, 1, 2, 3, 7, 8, 31, 200, rnd.randrange(1, 201)])
        out += bytes(rnd.randrange(33, 127) for _ in range(ln))
        if i + 1 < nwords or rnd.random() < 0.3:
            out += bytes(rnd.choice(b" \t") for _ in range(rnd.choice([1, 1, 1, 2, 3, 9])))
    return out


def build(rnd, big=False):
    """returns (file bytes, info dict)"""
    info = {}
    # ---- segments
    nload = rnd.choice([1, 1, 2, 2, 3, 4])
    segs = []
    va = rnd.choice([0, 0, 0, 4, 0x100, rnd.randrange(0, 0x2000)])
    maxsz = 6000 if big else 700
    for i in range(nload):
        filesz = rnd.choice([0, 1, 3, 4, 16, 100, rnd.randrange(0, maxsz), rnd.randrange(0, maxsz)])
        memsz = filesz + rnd.choice([0, 0, 1, 4, 64, rnd.randrange(0, 3000)])
        segs.append(dict(type=1, vaddr=va, filesz=filesz, memsz=memsz, data=rand_bytes(rnd, filesz)))
        va += memsz + rnd.choice([0, 0, 1, 4, 16, rnd.randrange(0, 0x800), rnd.randrange(0, 0x20000) if rnd.random() < 0.1 else 0])
    # physical addresses: equal to the virtual ones (C12's quantifier), shifted upwards (the stack then starts higher), or
    # - in files without a .stack section - arbitrary (C11 places by p_vaddr whatever p_paddr says)
    pmode = rnd.choice([0, 0, 0, 0, 0, 0, 1, 1, 2])
    for s in segs:
        if pmode == 0:
            s["paddr"] = s["vaddr"]
        elif pmode == 1:
            s["paddr"] = s["vaddr"] + rnd.choice([0, 4, 0x10, rnd.randrange(0, 0x400)])
        else:
            s["paddr"] = rnd.choice([0, 0x10, s["vaddr"] // 2, rnd.randrange(0, 0x40000)])
    img_end = max(s["vaddr"] + s["memsz"] for s in segs)
    # ---- .got inside the file contents of one segment
    got = None
    cands = [s for s in segs if s["filesz"] >= 4]
    if cands and rnd.random() < 0.9:
        s = rnd.choice(cands)
        n = rnd.choice([0, 1, 1, 2, 5, 64, rnd.randrange(0, 65)])
        n = min(n, s["filesz"] // 4)
        room = s["filesz"] - 4 * n
        off = rnd.randrange(0, room + 1)
        if rnd.random() < 0.7:
            off -= off % 4
        vals = []
        for k in range(n):
            v = rnd.choice([0, 1, 0x100, 0x00be96ff, 0x00be9700, 0x00be9701, 0xffbe96ff, 0x7fbe9700,
                            rnd.randrange(0, img_end + 1), rnd.randrange(1 << 24), rnd.randrange(0xffbe9700)])
            vals.append(v)
        d = bytearray(s["data"])
        for k, v in enumerate(vals):
            d[off + 4 * k: off + 4 * k + 4] = be32(v)
        s["data"] = bytes(d)
        size = 4 * n + rnd.choice([0, 0, 0, 1, 2, 3]) if room - off >= 3 else 4 * n     # a ragged tail is not an entry
        got = dict(addr=s["vaddr"] + off, size=size, n=n)
    # ---- program header table with non-load entries interleaved
    phs = list(segs)
    for _ in range(rnd.choice([0, 0, 1, 1, 2, 3])):
        pos = rnd.randrange(0, len(phs) + 1)
        if rnd.random() < 0.35:
            pos = len(phs)
        phs.insert(pos, dict(type=rnd.choice(NONLOAD_TYPES), vaddr=rnd.randrange(0, 0x40000), paddr=rnd.randrange(0, 0x40000),
                             filesz=rnd.randrange(0, 0x1000), memsz=rnd.randrange(0, 0x40000), data=b"", off=rnd.randrange(0, 0x1000)))
    info["last_is_load"] = phs[-1]["type"] == 1
    info["nload"] = nload
    info["nph"] = len(phs)
    # ---- sections
    stack_size = rnd.choice([0, 4, 0x100, 0x1000, 0x10000, rnd.randrange(0, 0x10001), rnd.randrange(0, 0x10001)])
    nsym = rnd.choice([1, 2, 3, 10, 200, rnd.randrange(1, 201)]) if big else rnd.choice([1, 2, 3, 10, 40, rnd.randrange(1, 41)])
    exit_idx = rnd.randrange(0, nsym)
    near = ["___exit2", "__exit", "____exit", "_exit", "exit", "___exi", "___EXIT", "main", "_start", "___exit_"]
    strtab = bytearray(b"\0")
    syms = []
    exit_val = rnd.randrange(0, max(1, img_end)) if rnd.random() < 0.8 else rnd.randrange(1 << 24)
    for k in range(nsym):
        if k == exit_idx:
            name, val = "___exit", exit_val
        else:
            name = rnd.choice(near) if rnd.random() < 0.4 else "s%d_%s" % (k, "".join(chr(rnd.randrange(33, 127)) for _ in range(rnd.randrange(0, 6))))
            val = rnd.randrange(1 << 24)
            if k == 0 and rnd.random() < 0.5:
                name = ""
        if name == "":
            idx = 0
        else:
            idx = len(strtab)
            strtab += name.encode() + b"\0"
        syms.append(struct.pack(">IIIBBH", idx, val, rnd.randrange(0, 100), rnd.randrange(256), 0, rnd.randrange(0, 8)))
    symtab = b"".join(syms)
    has_got = got is not None
    has_stack = rnd.random() < 0.93 and pmode != 2
    has_symtab = rnd.random() < 0.93
    secs = []          # dict(name, addr, blob or None, size, link-name, entsize)
    secs.append(dict(name=".text", addr=segs[0]["vaddr"], blob=None, size=segs[0]["filesz"]))
    if rnd.random() < 0.6:
        secs.append(dict(name=".data", addr=rnd.randrange(0, img_end + 1), blob=None, size=rnd.randrange(0, 64)))
    if rnd.random() < 0.6:
        secs.append(dict(name=".bss", addr=rnd.randrange(0, img_end + 1), blob=None, size=rnd.randrange(0, 4096)))
    if rnd.random() < 0.3:
        secs.append(dict(name=rnd.choice([".got.plt", ".stack2", ".symtab2", ".go", "got", ".rodata"]), addr=rnd.randrange(0, img_end + 1), blob=None, size=rnd.randrange(0, 64)))
    if has_got:
        secs.append(dict(name=".got", addr=got["addr"], blob=None, size=got["size"]))
    if has_stack:
        secs.append(dict(name=".stack", addr=stack_size, blob=None, size=rnd.choice([0, stack_size])))
    # the symbol names live in the string table the symbol table LINKS to, whatever that section is called; sometimes a
    # decoy section named .strtab with different contents is present
    strname = ".strtab" if rnd.random() < 0.7 else rnd.choice([".symstr", ".dynstr", ".names"])
    if has_symtab:
        secs.append(dict(name=".symtab", addr=0, blob=symtab, size=len(symtab), link=strname, entsize=16))
    secs.append(dict(name=strname, addr=0, blob=bytes(strtab), size=len(strtab)))
    if strname != ".strtab":
        decoy = bytearray(strtab)
        for k in range(1, len(decoy)):
            if decoy[k] == ord("_"):
                decoy[k] = ord("x")
        secs.append(dict(name=".strtab", addr=0, blob=b"\0___exit\0" + bytes(decoy[1:]), size=len(decoy) + 8))
    secs.append(dict(name=".shstrtab", addr=0, blob=None, size=0))
    rnd.shuffle(secs)
    secs.insert(0, dict(name="", addr=0, blob=None, size=0))
    if rnd.random() < 0.15:            # also move the null section
        rnd.shuffle(secs)
    shstr = bytearray(b"\0") if rnd.random() < 0.8 else bytearray(b"x\0")
    null_at = shstr.index(0)
    for s in secs:
        if s["name"] == "":
            s["name_idx"] = null_at
        else:
            s["name_idx"] = len(shstr)
            shstr += s["name"].encode() + b"\0"
    for s in secs:
        if s["name"] == ".shstrtab":
            s["blob"] = bytes(shstr)
            s["size"] = len(shstr)
    # ---- file layout: header, then all pieces in arbitrary order with padding
    pieces = []
    for s in segs:
        pieces.append(("seg", s))
    for s in secs:
        if s["blob"] is not None:
            pieces.append(("sec", s))
    pieces.append(("pht", None))
    pieces.append(("sht", None))
    rnd.shuffle(pieces)
    body = bytearray()
    pos = 52
    phoff = shoff = 0
    pht_at = sht_at = None
    for kind, obj in pieces:
        pad = rnd.choice([0, 0, 1, 3, 4, rnd.randrange(0, 17)])
        body += rand_bytes(rnd, pad, 0.3)
        pos += pad
        if kind == "seg":
            obj["off"] = pos
            body += obj["data"]
            pos += len(obj["data"])
        elif kind == "sec":
            obj["off"] = pos
            body += obj["blob"]
            pos += len(obj["blob"])
        elif kind == "pht":
            phoff = pos
            pht_at = len(body)
            body += bytes(32 * len(phs))
            pos += 32 * len(phs)
        else:
            shoff = pos
            sht_at = len(body)
            body += bytes(40 * len(secs))
            pos += 40 * len(secs)
    body += rand_bytes(rnd, rnd.choice([0, 0, 5, 64]), 0.3)
    # fill the tables
    pht = b""
    for p in phs:
        if p["type"] == 1:
            pht += be32(1) + be32(p["off"]) + be32(p["vaddr"]) + be32(p["paddr"]) + be32(p["filesz"]) + be32(p["memsz"]) + be32(rnd.randrange(8)) + be32(rnd.choice([1, 4, 0x1000]))
        else:
            pht += be32(p["type"]) + be32(p["off"]) + be32(p["vaddr"]) + be32(p["paddr"]) + be32(p["filesz"]) + be32(p["memsz"]) + be32(rnd.randrange(8)) + be32(rnd.choice([0, 1, 4]))
    body[pht_at:pht_at + len(pht)] = pht
    names = [s["name"] for s in secs]
    sht = b""
    for s in secs:
        link = names.index(s["link"]) if "link" in s else rnd.choice([0, 0, rnd.randrange(len(secs))])
        off = s.get("off", rnd.randrange(52, 52 + len(body)))
        sht += (be32(s["name_idx"]) + be32(rnd.choice([0, 1, 2, 3, 8])) + be32(rnd.randrange(8)) + be32(s["addr"]) + be32(off) + be32(s["size"])
                + be32(link) + be32(rnd.randrange(4)) + be32(rnd.choice([0, 1, 4])) + be32(s.get("entsize", rnd.choice([0, 0, 4]))))
    body[sht_at:sht_at + len(sht)] = sht
    ident = b"\x7fELF" + bytes([1, 2, 1, rnd.choice([0, 0, 3, 255]), rnd.randrange(256)]) + rand_bytes(rnd, 7, 0.8)
    hdr = (ident + be16(2) + be16(46) + be32(1) + be32(BASE if rnd.random() < 0.5 else rnd.randrange(1 << 32)) + be32(phoff) + be32(shoff)
           + be32(rnd.randrange(1 << 32)) + be16(52) + be16(32) + be16(len(phs)) + be16(40) + be16(len(secs)) + be16(names.index(".shstrtab")))
    assert len(hdr) == 52
    info.update(pmode=pmode, has_got=has_got, has_stack=has_stack, has_symtab=has_symtab, got_n=(got or {}).get("n", 0), stack=stack_size,
                nsym=nsym, exit_idx=exit_idx, size=52 + len(body))
    return hdr + bytes(body), info


def simple(image, exit_off=None, stack=0x1000, bss=0):
    """A minimal well-formed executable: one PT_LOAD segment holding `image` at vaddr 0, .stack, optional ___exit."""
    image = bytes(image)
    shstr = b"\0.text\0.stack\0.symtab\0.strtab\0.shstrtab\0"
    strtab = b"\0___exit\0_start\0"
    syms = struct.pack(">IIIBBH", 0, 0, 0, 0, 0, 0) + struct.pack(">IIIBBH", 9, 0, 0, 0x12, 0, 1)
    if exit_off is not None:
        syms += struct.pack(">IIIBBH", 1, exit_off, 0, 0x12, 0, 1)
    off_img = 52 + 32
    off_sym = off_img + len(image)
    off_str = off_sym + len(syms)
    off_shstr = off_str + len(strtab)
    shoff = off_shstr + len(shstr)
    def sh(name, ty, addr, off, size, link=0, entsize=0):
        return be32(shstr.index(name)) + be32(ty) + be32(0) + be32(addr) + be32(off) + be32(size) + be32(link) + be32(0) + be32(1) + be32(entsize)
    sht = (bytes(40) + sh(b".text\0", 1, 0, off_img, len(image)) + sh(b".stack\0", 8, stack, 0, 0)
           + sh(b".symtab\0", 2, 0, off_sym, len(syms), link=4, entsize=16) + sh(b".strtab\0", 3, 0, off_str, len(strtab))
           + sh(b".shstrtab\0", 3, 0, off_shstr, len(shstr)))
    ph = be32(1) + be32(off_img) + be32(0) + be32(0) + be32(len(image)) + be32(len(image) + bss) + be32(7) + be32(4)
    hdr = (b"\x7fELF" + bytes([1, 2, 1, 0, 0]) + bytes(7) + be16(2) + be16(46) + be32(1) + be32(BASE) + be32(52) + be32(shoff)
           + be32(0) + be16(52) + be16(32) + be16(1) + be16(40) + be16(6) + be16(5))
    return hdr + ph + image + syms + strtab + shstr + sht
