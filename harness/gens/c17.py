"""C17: TCR values x start values x charge partitions of the same totals x interleaved register writes."""
import random
from . import common
KEYS = ["res", "md", "q", "resclass", "er", "pc", "ccr", "sum"]       # the last five: programs through Cpu::run
RULE = ("all 256 TCR values (CKS 4-7 select no internal clock: nothing counts) x random TCNT/TCORA/TCORB/TCSR start values respecting the side condition x charge sequences "
        "(1-255 each) around the divisor multiples, with interleaved CPU writes to TCR/TCNT/TCORx/TCSR and reads; the same totals are fed "
        "in several partitions; distinct = distinct (history, final registers, request queue)")
TCR, TCSR, TCORA, TCORB, TCNT = 0xffff80, 0xffff82, 0xffff84, 0xffff86, 0xffff88
DIV = {1: 8, 2: 64, 3: 8192}

def nontrivial_key(case, model):
    return (case.get("ops"), model.get("md"), model.get("q"))

def charges(rnd, total):
    out = []
    while total > 0:
        c = min(total, rnd.choice([1, 2, 3, 7, 8, 9, 63, 64, 65, 255, rnd.randrange(1, 256)]))
        out.append(c); total -= c
    return out

def start_regs(rnd, tcr):
    clr = (tcr >> 3) & 3
    tcnt = rnd.choice([0, 0xfe, 0xff, 0x7f, rnd.randrange(256)])
    while True:
        a = rnd.choice([0, 1, 0xff, (tcnt + rnd.randrange(1, 6)) & 0xff, rnd.randrange(256)])
        b = rnd.choice([0, 1, 0xff, (tcnt + rnd.randrange(1, 6)) & 0xff, rnd.randrange(256)])
        if clr in (1, 2) and (a == b or a == 0 or b == 0):
            continue
        return tcnt, a, b

def generate(tier, seed, info):
    rnd = random.Random(seed * 31 + 17)
    lines = []
    n = 0
    reps = 12 if tier == "quick" else 200
    for tcr in range(256):
        cks = tcr & 7
        for _ in range(reps):
            tcnt, a, b = start_regs(rnd, tcr)
            div = DIV.get(cks, 8)
            total = rnd.choice([div - 1, div, div + 1, 2 * div, 3 * div + rnd.randrange(div), rnd.randrange(1, 5 * div + 2),
                                div * rnd.randrange(1, 300) if div <= 64 else div + rnd.randrange(300)])
            total = max(1, min(total, 40000))
            setup = ["w8:%x:%x" % (TCORA, a), "w8:%x:%x" % (TCORB, b), "w8:%x:%x" % (TCNT, tcnt), "w8:%x:%x" % (TCSR, rnd.choice([0, 0, 0xe0, rnd.randrange(256) & 0xe0]))]
            rnd.shuffle(setup)
            pre = rnd.choice([[], ["tick:%x" % rnd.randrange(1, 256)], ["w8:%x:%x" % (TCR, rnd.choice([1, 2, 3])), "tick:%x" % rnd.randrange(1, 256)]])
            for part in range(2 if tier == "quick" else 3):
                ops = list(pre) + setup + ["w8:%x:%x" % (TCR, tcr)]
                for ch in charges(rnd, total):
                    ops.append("tick:%x" % ch)
                ops += ["r8:%x" % TCNT, "r8:%x" % TCSR]
                n += 1
                lines.append("id=%x kind=timer ops=%s" % (n, ",".join(ops)))
    # interleaved histories
    for _ in range(4000 if tier == "quick" else 80000):
        ops = []
        tcr = rnd.randrange(256) & 0xfb if rnd.random() < 0.7 else rnd.randrange(256)
        tcnt, a, b = start_regs(rnd, tcr)
        ops += ["w8:%x:%x" % (TCORA, a), "w8:%x:%x" % (TCORB, b), "w8:%x:%x" % (TCNT, tcnt), "w8:%x:%x" % (TCR, tcr)]
        for _ in range(rnd.randrange(3, 40)):
            k = rnd.random()
            if k < 0.7:
                ops.append("tick:%x" % rnd.choice([1, 7, 8, 9, 64, 255, rnd.randrange(1, 256)]))
            elif k < 0.8:
                ops.append("w8:%x:%x" % (TCSR, rnd.choice([0, rnd.randrange(256) & 0xe0])))
            elif k < 0.85:
                ops.append("w8:%x:%x" % (TCNT, rnd.randrange(256)))
            elif k < 0.93:
                keep = tcr & 0x18
                ops.append("w8:%x:%x" % (TCR, (rnd.randrange(256) & (0xe3 if rnd.random() < 0.7 else 0xe7)) | keep))
            else:
                ops.append(rnd.choice(["r8:%x" % TCNT, "r8:%x" % TCSR]))
        n += 1
        lines.append("id=%x kind=timer ops=%s" % (n, ",".join(ops)))
    # the timer as programs see it: through Cpu::run, with the handlers of its three vectors and TCNT / TCSR read back
    from . import c13
    tl = c13.timer_irq_programs(rnd, 300 if tier == "quick" else 5000, seed % 200 + 3, n)
    lines += tl
    info["timer_programs_through_run"] = len(tl)
    info["cases"] = len(lines)
    info["exhaustive_part"] = "all 256 TCR values"
    return common.shard(lines)
