"""C12: elf::load on generated ELF32-BE files and argument strings; ER0/ER1/ER2/ER5/ER7, the exit address and the argv
block in DRAM are compared with the process environment of Spec/ElfSpec.v."""
from . import c11
KEYS = ["res", "er", "exit", "md"]
RULE = ("generated ELF layouts as C11 with .stack sizes 0-64 KiB, symbol tables with ___exit at any index and near-miss names, "
        "argument strings over printable ASCII with runs of blanks/tabs, 0-32 words up to 200 bytes; distinct = distinct (layout, registers, image)")
SHARD_TIMEOUT = 2400
nontrivial_key = c11.nontrivial_key


def generate(tier, seed, info):
    return c11.generate(tier, seed, info, salt=12)
