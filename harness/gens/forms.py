"""Case generators per instruction family (used by the C01-C08, C07, C15, C20 generator modules)."""
from . import isa
from .isa import RAM, DRAM, VEC, SZ, BITS, set_lane, rand_val, rand_pair, rfield


def _ccr(ctx, i=None):
    r = ctx.rnd
    return r.randrange(256)


def bc_pokes(ctx, mode="default"):
    """Bus-controller register pokes (ABWCR ASTCR WCRH WCRL ; DRCRA)."""
    r = ctx.rnd
    if mode == "zero":
        return {}
    if mode == "run":      # what Cpu::init_registers programs
        return {0xfee020: [0xff, 0xfb, 0xff, 0xcf], 0xfee026: [0xe0]}
    return {0xfee020: [r.randrange(256), r.randrange(256), r.randrange(256), r.randrange(256)],
            0xfee026: [r.choice([0x00, 0x20, 0x3f, 0xe0, r.randrange(256)])]}


# ------------------------------------------------------------------ MOV
MOV_MODES = ["rr", "imm", "ind", "d16", "d24", "inc", "a8", "a16", "a24"]


def gen_mov(ctx, count, sizes=("b", "w", "l"), modes=MOV_MODES, bc="zero", allow_overlap=False, wrap_bias=0.35):
    r = ctx.rnd
    out = []
    for _ in range(count):
        size = r.choice(sizes)
        mode = r.choice(modes)
        if mode == "a8" and size != "b":
            continue
        load = r.random() < 0.5
        n = SZ[size]
        val = rand_val(r, BITS[size])
        dreg = rfield(r, size)
        mem = {}
        fixed = {}
        if mode == "rr":
            rs = rfield(r, size)
            code = isa.enc_mov_rr(size, rs, dreg)
            pc = ctx.pick_pc(len(code))
            er = ctx.regs()
            set_lane(er, size, rs, val)
        elif mode == "imm":
            code = isa.enc_mov_imm(size, val, dreg)
            pc = ctx.pick_pc(len(code))
            er = ctx.regs()
        else:
            length = {"ind": 2, "d16": 4, "d24": 8, "inc": 2, "a8": 2, "a16": 4, "a24": 6}[mode] + (2 if size == "l" and mode != "a8" else 0)
            if mode == "d24" and size == "l":
                length = 10
            pc = ctx.pick_pc(length)
            er = ctx.regs()
            if mode in ("a8", "a16", "a24"):
                if mode == "a8":
                    T = r.choice([0xffff00, 0xffff1f, r.randrange(0xffff00, 0xffff20)])
                    x = T & 0xff
                elif mode == "a16":
                    regions = [(0x0, 0xff), (0xffbf20, 0xffff1f)]
                    T = ctx.data_addr(n, avoid=(pc, pc + length), regions=regions)
                    x = T & 0xffff
                else:
                    T = ctx.data_addr(n, avoid=(pc, pc + length))
                    x = T
                areg = 0
                code = isa.enc_mov_mem(size, load, mode, 0, dreg, x)
            else:
                pm = {"ind": "ind", "d16": "d16", "d24": "d24", "inc": "inc_load" if load else "dec_store"}[mode]
                forbid = ()
                if mode == "inc" and not allow_overlap:
                    forbid = (dreg & 7,)
                T, areg, av, x = isa.place_mem(ctx, size, pm, pc, length, areg_forbid=forbid, wrap_bias=wrap_bias)
                er[areg] = av & 0xffffffff
                if mode == "inc" and allow_overlap and r.random() < 0.7:
                    dreg = areg if size == "l" else areg + r.choice([0, 8])
                code = isa.enc_mov_mem(size, load, mode, areg, dreg, x)
            if load:
                mem[T] = [(val >> (8 * (n - 1 - i))) & 0xff for i in range(n)]
            else:
                if not (mode in ("ind", "d16", "d24", "inc") and (dreg & 7) == areg and size != "x"):
                    set_lane(er, size, dreg, val)
        ccr = _ccr(ctx)
        mem.update(bc_pokes(ctx, bc))
        out.append(ctx.line("step", code, pc, er, ccr, mem))
    return out


# ------------------------------------------------------------------ ALU
ARITH2 = ["add", "sub", "cmp", "addx"]
LOGIC2 = ["and", "or", "xor"]
ARITH1 = ["neg", "inc1", "inc2", "dec1", "dec2"]
LOGIC1 = ["not", "extu", "shll", "shal", "shlr", "shar", "rotl", "rotr", "rotxl", "rotxr"]


def alu2_case(ctx, op, size, form, a, b, rs=None, rd=None, ccr=None, bc="zero"):
    r = ctx.rnd
    if rd is None:
        rd = rfield(r, size)
    if rs is None:
        rs = rfield(r, size)
    er = ctx.regs()
    if form == "rr":
        code = isa.enc_alu2_rr(op, size, rs, rd)
        set_lane(er, size, rs, b)
        if rs != rd:
            set_lane(er, size, rd, a)
    else:
        code = isa.enc_alu2_imm(op, size, b, rd)
        set_lane(er, size, rd, a)
    pc = ctx.pick_pc(len(code))
    return ctx.line("step", code, pc, er, _ccr(ctx) if ccr is None else ccr, bc_pokes(ctx, bc))


def alu2_forms(ops):
    fs = []
    for op in ops:
        for size in ("b", "w", "l"):
            for form in ("rr", "imm"):
                if op == "addx" and size != "b":
                    continue
                if op == "sub" and size == "b" and form == "imm":
                    continue
                fs.append((op, size, form))
    return fs


def gen_alu2(ctx, count, ops, bc="zero"):
    r = ctx.rnd
    fs = alu2_forms(ops)
    out = []
    for _ in range(count):
        op, size, form = r.choice(fs)
        a, b = rand_pair(r, BITS[size])
        out.append(alu2_case(ctx, op, size, form, a, b, bc=bc))
    return out


def gen_alu2_exhaustive_b(ctx, ops, carries=(0, 1)):
    """every 8-bit operand pair x carry-in for the byte forms"""
    r = ctx.rnd
    out = []
    for op in ops:
        for form in ("rr", "imm"):
            if op == "sub" and form == "imm":
                continue
            for a in range(256):
                for b in range(256):
                    for c in carries if op == "addx" else (r.randrange(2),):
                        ccr = (r.randrange(256) & 0xfe) | c
                        rd = rfield(r, "b")
                        rs = r.choice([x for x in range(16) if x != rd])
                        out.append(alu2_case(ctx, op, "b", form, a, b, rs=rs, rd=rd, ccr=ccr))
    return out


def alu1_sizes(op):
    return list(isa.ALU1[op][1].keys())


def alu1_case(ctx, op, size, v, rd=None, ccr=None, bc="zero"):
    r = ctx.rnd
    if rd is None:
        rd = rfield(r, size)
    er = ctx.regs()
    set_lane(er, size, rd, v)
    code = isa.enc_alu1(op, size, rd)
    pc = ctx.pick_pc(2)
    return ctx.line("step", code, pc, er, _ccr(ctx) if ccr is None else ccr, bc_pokes(ctx, bc))


def gen_alu1(ctx, count, ops, bc="zero"):
    r = ctx.rnd
    out = []
    for _ in range(count):
        op = r.choice(ops)
        size = r.choice(alu1_sizes(op))
        out.append(alu1_case(ctx, op, size, rand_val(r, BITS[size]), bc=bc))
    return out


def gen_alu1_exhaustive(ctx, ops, sizes=("b",), carries=(0, 1)):
    r = ctx.rnd
    out = []
    for op in ops:
        for size in sizes:
            if size not in alu1_sizes(op):
                continue
            for v in range(1 << BITS[size]):
                for c in carries:
                    ccr = (r.randrange(256) & 0xfe) | c
                    out.append(alu1_case(ctx, op, size, v, ccr=ccr))
    return out


def gen_misc_arith(ctx, count, bc="zero"):
    """ADDS/SUBS, MULXU, DIVXU"""
    r = ctx.rnd
    out = []
    for _ in range(count):
        k = r.random()
        er = ctx.regs()
        if k < 0.3:
            erd = r.randrange(8)
            er[erd] = rand_val(r, 32)
            code = isa.enc_adds(r.choice([1, 2, 4]), erd, sub=r.random() < 0.5)
        elif k < 0.6:
            if r.random() < 0.5:
                rs, rd = r.randrange(16), r.randrange(16)
                code = [0x50, (rs << 4) | rd]
                set_lane(er, "w", rd, rand_val(r, 16)); set_lane(er, "b", rs, rand_val(r, 8))
            else:
                rs, rd = r.randrange(16), r.randrange(8)
                code = [0x52, (rs << 4) | rd]
                er[rd] = rand_val(r, 32); set_lane(er, "w", rs, rand_val(r, 16))
        else:
            if r.random() < 0.5:
                rs, rd = r.randrange(16), r.randrange(16)
                code = [0x51, (rs << 4) | rd]
                d = r.choice([1, 2, 3, 0x7f, 0x80, 0xff, r.randrange(1, 256)])
                q = r.choice([0, 1, 0xff, r.randrange(256)])
                rem = r.randrange(d)
                set_lane(er, "w", rd, q * d + rem)
                if not ((rs < 8 and (rd & 7) == rs and rd < 8) or (rs >= 8 and (rd & 7) == rs - 8 and rd < 8)):
                    set_lane(er, "b", rs, d)
            else:
                rs, rd = r.randrange(16), r.randrange(8)
                code = [0x53, (rs << 4) | rd]
                d = r.choice([1, 2, 0x7fff, 0x8000, 0xffff, r.randrange(1, 65536)])
                q = r.choice([0, 1, 0xffff, r.randrange(65536)])
                rem = r.randrange(d)
                er[rd] = q * d + rem
                if (rs & 7) != rd:
                    set_lane(er, "w", rs, d)
        pc = ctx.pick_pc(2)
        out.append(ctx.line("step", code, pc, er, _ccr(ctx), bc_pokes(ctx, bc)))
    return out


# ------------------------------------------------------------------ bit manipulation
def bit_case(ctx, op, bitsrc, target, v, k, c, rnval=None, bc="zero", regions=(RAM, DRAM)):
    r = ctx.rnd
    er = ctx.regs()
    mem = {}
    ccr = (r.randrange(256) & 0xfe) | c
    length = 2 if target == "reg" else 4
    pc = ctx.pick_pc(length)
    if bitsrc == "reg":
        rn = r.randrange(16)
        knib = rn
    else:
        rn = None
        knib = k
    if target == "reg":
        rd = r.choice([x for x in range(16) if x != rn])
        code = isa.enc_bit(op, bitsrc, knib, "reg", rd)
        set_lane(er, "b", rd, v)
    elif target == "ern":
        forbid = (rn & 7,) if rn is not None else ()
        T, areg, av, _ = isa.place_mem(ctx, "b", "ind", pc, length, areg_forbid=forbid, regions=regions)
        er[areg] = av
        code = isa.enc_bit(op, bitsrc, knib, "ern", areg)
        mem[T] = [v]
    else:
        T = r.choice([0xffff00, 0xffff1f, r.randrange(0xffff00, 0xffff20), r.randrange(0xffff20, 0xffff80),
                      r.randrange(0xffff9a, 0xffffd0), r.randrange(0xffffdb, 0xffffea)])
        code = isa.enc_bit(op, bitsrc, knib, "abs", T & 0xff)
        mem[T] = [v]
    if rn is not None:
        set_lane(er, "b", rn, rnval if rnval is not None else ((r.randrange(32) << 3) | k))
    mem.update(bc_pokes(ctx, bc))
    return ctx.line("step", code, pc, er, ccr, mem)


def gen_bit(ctx, count, bc="zero"):
    r = ctx.rnd
    out = []
    for _ in range(count):
        op = r.choice(isa.BIT_OPS)
        bitsrc = r.choice(["imm", "reg"]) if op in isa.BIT_REGSRC else "imm"
        out.append(bit_case(ctx, op, bitsrc, r.choice(["reg", "ern", "abs"]), r.randrange(256), r.randrange(8), r.randrange(2), bc=bc))
    return out


def gen_bit_exhaustive(ctx, targets=("reg", "ern", "abs"), values=range(256)):
    out = []
    for op in isa.BIT_OPS:
        for bitsrc in (("imm", "reg") if op in isa.BIT_REGSRC else ("imm",)):
            for target in targets:
                for v in values:
                    for k in range(8):
                        for c in (0, 1):
                            out.append(bit_case(ctx, op, bitsrc, target, v, k, c))
    return out


# ------------------------------------------------------------------ control flow
def gen_bcc(ctx, exhaustive=True, count=0):
    r = ctx.rnd
    out = []
    combos = [(cc, ccr, wide) for cc in range(16) for ccr in range(256) for wide in (False, True)] if exhaustive else \
             [(r.randrange(16), r.randrange(256), r.random() < 0.5) for _ in range(count)]
    for cc, ccr, wide in combos:
        if wide:
            d = r.choice([0, 2, -2, 0x7ffe, -0x8000, r.randrange(-0x4000, 0x4000) * 2])
        else:
            d = r.choice([0, 2, -2, 126, -128, r.randrange(-64, 64) * 2])
        length = 4 if wide else 2
        pc = ctx.pick_pc(length)
        if not (0 <= pc + length + d < (1 << 24)):
            d = 2
        out.append(ctx.line("step", isa.enc_bcc(cc, d & 0xffff, wide), pc, ctx.regs(), ccr))
    return out


def _sp(ctx, room_below=4):
    r = ctx.rnd
    lo, hi = r.choice([RAM, DRAM])
    k = r.random()
    if k < 0.2:
        a = lo + room_below
    elif k < 0.4:
        a = hi + 1 - 4
    elif k < 0.55:
        # a push that borrows out of bit 15 / a pop that carries into bit 16: stack pointers at 64 KiB boundaries of DRAM
        a = r.choice([0x410000, 0x420000, 0x500000, 0x5f0000, 0x410002, 0x40fffe, 0x4ffffc, 0x500004])
    else:
        a = r.randrange(lo + room_below, hi - 3)
    a &= ~1
    if a - room_below < lo:
        a = (lo + room_below + 1) & ~1
    return a


def gen_calls(ctx, count):
    """JMP, BSR, JSR, RTS in all forms."""
    r = ctx.rnd
    out = []
    for _ in range(count):
        kind = r.choice(["jmp_reg", "jmp_abs", "jmp_ind", "bsr8", "bsr16", "jsr_reg", "jsr_abs", "jsr_ind", "rts"])
        er = ctx.regs()
        mem = {}
        target = (r.choice([RAM[0], DRAM[0], r.randrange(RAM[0], RAM[1]), r.randrange(DRAM[0], DRAM[1]), 0, 0xfffffe, r.randrange(1 << 24)]) & ~1)
        length = {"jmp_reg": 2, "jmp_abs": 4, "jmp_ind": 2, "bsr8": 2, "bsr16": 4, "jsr_reg": 2, "jsr_abs": 4, "jsr_ind": 2, "rts": 2}[kind]
        pc = ctx.pick_pc(length)
        sp = _sp(ctx)
        while pc - 8 <= sp <= pc + length + 8:
            sp = _sp(ctx)
        up = ctx.upper()
        er[7] = up | sp
        if kind.endswith("_reg"):
            reg = r.randrange(8)                 # ER7 too: JSR @ER7 jumps to the stack pointer after the push
            if reg != 7:
                er[reg] = ctx.upper() | target
            code = (isa.enc_jmp if kind.startswith("jmp") else isa.enc_jsr)("reg", reg)
        elif kind.endswith("_abs"):
            code = (isa.enc_jmp if kind.startswith("jmp") else isa.enc_jsr)("abs", target)
        elif kind.endswith("_ind"):
            aa = r.choice([0, 0xfc, r.randrange(0, 0xfd) & ~1])
            mem[aa] = isa.w32((r.choice([0, 0, 0xff, 0x5a]) << 24) | target)
            code = (isa.enc_jmp if kind.startswith("jmp") else isa.enc_jsr)("ind", aa)
        elif kind == "bsr8":
            d = r.choice([0, 2, -2, 126, -128, r.randrange(-64, 64) * 2])
            code = isa.enc_bsr(d, False)
        elif kind == "bsr16":
            d = r.choice([0, 2, -2, 0x7ffe, -0x8000, r.randrange(-0x4000, 0x4000) * 2])
            code = isa.enc_bsr(d & 0xffff, True)
        else:
            mem[sp] = isa.w32((r.choice([0, 0, 0xff, r.randrange(256)]) << 24) | target)
            code = [0x54, 0x70]
        out.append(ctx.line("step", code, pc, er, _ccr(ctx), mem))
    return out


def gen_exc(ctx, count, exhaustive_ccr=False):
    """TRAPA #1-3 and RTE"""
    r = ctx.rnd
    out = []
    combos = [(k, ccr) for k in (1, 2, 3, "rte") for ccr in range(256)] if exhaustive_ccr else \
             [(r.choice([1, 2, 3, "rte"]), r.randrange(256)) for _ in range(count)]
    for k, ccr in combos:
        er = ctx.regs()
        mem = {}
        pc = ctx.pick_pc(2)
        sp = _sp(ctx)
        while pc - 8 <= sp <= pc + 10:
            sp = _sp(ctx)
        er[7] = ctx.upper() | sp
        target = r.choice([RAM[0], DRAM[0], r.randrange(RAM[0], RAM[1]), r.randrange(DRAM[0], DRAM[1])]) & ~1
        if k == "rte":
            mem[sp] = isa.w32((r.randrange(256) << 24) | target)
            code = [0x56, 0x70]
        else:
            mem[4 * (8 + k)] = isa.w32((r.choice([0, 0x5a, 0xff, r.randrange(256)]) << 24) | target)
            code = [0x57, k << 4]
        out.append(ctx.line("step", code, pc, er, ccr, mem))
    return out


def gen_stc(ctx, count, wrap_bias=0.35):
    r = ctx.rnd
    out = []
    for _ in range(count):
        mode = r.choice(["b", "ind", "d16", "d24", "dec", "a16", "a24"])
        er = ctx.regs()
        if mode == "b":
            code = [0x02, r.randrange(16)]
            pc = ctx.pick_pc(2)
        else:
            length = {"ind": 4, "d16": 6, "d24": 10, "dec": 4, "a16": 6, "a24": 8}[mode]
            pc = ctx.pick_pc(length)
            if mode in ("a16", "a24"):
                regions = [(0x0, 0xff), (0xffbf20, 0xffff1f)] if mode == "a16" else (RAM, DRAM, VEC)
                T = ctx.data_addr(2, avoid=(pc, pc + length), regions=regions)
                code = isa.enc_stc_w(mode, 0, T & (0xffff if mode == "a16" else 0xffffff))
            else:
                pm = {"ind": "ind", "d16": "d16", "d24": "d24", "dec": "dec_store"}[mode]
                T, areg, av, x = isa.place_mem(ctx, "w", pm, pc, length, wrap_bias=wrap_bias)
                er[areg] = av & 0xffffffff
                code = isa.enc_stc_w(mode, areg, x)
        out.append(ctx.line("step", code, pc, er, _ccr(ctx)))
    return out


def gen_unimpl(ctx, count):
    r = ctx.rnd
    out = []
    for _ in range(count):
        code = list(r.choice(isa.UNIMPL))
        pc = ctx.pick_pc(len(code))
        out.append(ctx.line("step", code, pc, ctx.regs(), _ccr(ctx)))
    return out


def gen_first_words(ctx, words, regfiles=1):
    """every given first word followed by plausible second / third words"""
    r = ctx.rnd
    out = []
    for w in words:
        for _ in range(regfiles):
            code = isa.w16(w) + [r.randrange(256) for _ in range(8)]
            k = r.random()
            if k < 0.3:
                code[2:] = [0, 0, 0, 0, 0, 0, 0, 0]
            pc = ctx.pick_pc(10)
            er = ctx.regs()
            if r.random() < 0.5:
                for i in range(7):
                    er[i] = (ctx.upper() | ctx.data_addr(4, avoid=(pc, pc + 10)))
            out.append(ctx.line("step", code, pc, er, _ccr(ctx)))
    return out
