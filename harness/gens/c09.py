"""C09: address-space classification, write-then-read without aliasing, big-endian sized accesses,
interleaved histories.  Tagged memory makes the byte lane and the accessed location observable; the
memory diff reported by the driver covers all five backing stores, so any stray write is seen."""
import random

RULE = ("classification reads (thorough: all 2^24 addresses; quick: every region boundary +/-16 and a 1/256 lattice), "
        "write-then-read on plain storage, 16/32-bit accesses at region boundaries, random interleaved histories, the @aa:8 / @aa:16 access helpers (all 256 short addresses, boundary and random 16-bit ones, cross-checked through the 24-bit form); "
        "distinct = distinct (op list, results, memory diff)")
ASSUMPTIONS = ["the driver's own region table is used to poke / diff the backing stores"]

REGIONS = [(0x000000, 0x0000ff), (0x400000, 0x5fffff), (0xfee000, 0xfee0ff), (0xffbf20, 0xffff1f), (0xffff20, 0xffffe9)]
EDGES = sorted(set([0, 0x100, 0x400000, 0x600000, 0xfee000, 0xfee100, 0xffbf20, 0xffff20, 0xffffea, 0x1000000,
                    0x200000, 0x800000, 0xa00000, 0xc00000, 0xe00000, 0xfee00b, 0xffffd0, 0xffffdb, 0xffff80, 0xffff8a]))


def is_port(a):
    return 0xfee000 <= a <= 0xfee00a or 0xffffd0 <= a <= 0xffffda


def accessible(a):
    return any(lo <= a <= hi for lo, hi in REGIONS)


def nontrivial_key(case, model):
    return (case.get("ops"), model.get("res"), model.get("md"))


def generate(tier, seed, info):
    rnd = random.Random(seed)
    lines = []
    cid = [0]
    tag = "%x" % (seed % 251 + 1)

    def add(ops, tagged=True):
        cid[0] += 1
        lines.append("id=%x kind=bus %sops=%s" % (cid[0], ("tag=%s " % tag) if tagged else "", ",".join(ops)))

    # 1. classification by reading
    if tier == "thorough":
        step, chunk = 1, 8192
        addrs = range(0, 1 << 24)
    else:
        s = set()
        for e in EDGES:
            for d in range(-16, 17):
                if 0 <= e + d:
                    s.add(e + d)
        for a in range(0, 1 << 24, 256):
            s.add(a + rnd.randrange(256))
        addrs = sorted(s)
        chunk = 1
    if tier == "thorough":
        # reads stop at the first error, so group accessible runs; inaccessible ones singly but sampled densely
        for lo, hi in REGIONS:
            a = lo
            while a <= hi:
                b = min(hi, a + chunk - 1)
                add(["r8:%x" % x for x in range(a, b + 1)])
                a = b + 1
        # all inaccessible addresses: one case per 4096-block boundary + random inside (each r8 must fail)
        for blk in range(0, 1 << 24, 1024):
            for x in (blk, blk + 1023, blk + rnd.randrange(1024)):
                if not accessible(x):
                    add(["r8:%x" % x])
                    add(["w8:%x:%x" % (x, rnd.randrange(256))])
    for a in addrs if tier != "thorough" else []:
        add(["r8:%x" % a])
    for a in [1 << 24, (1 << 24) + 5, 0x7fffffff, 0xffffffff, 0x80000000, 0xff000000, 0x1400000]:
        add(["r8:%x" % a]); add(["w8:%x:5a" % a]); add(["r16:%x" % a]); add(["w32:%x:12345678" % a])

    # 2. write-then-read on every plain location class
    n_wr = 3000 if tier == "quick" else 60000
    for _ in range(n_wr):
        lo, hi = rnd.choice(REGIONS)
        a = rnd.choice([lo, hi, rnd.randrange(lo, hi + 1), rnd.randrange(lo, hi + 1)])
        if is_port(a):
            continue
        v = rnd.randrange(256)
        other = rnd.randrange(1 << 24)
        add(["w8:%x:%x" % (a, v), "r8:%x" % a, "r8:%x" % (a ^ 1) if accessible(a ^ 1) else "r8:%x" % a, "r8:%x" % other])
    for e in EDGES:
        for d in range(-8, 9):
            a = e + d
            if a >= 0 and not is_port(a):
                add(["w8:%x:%x" % (a, rnd.randrange(256)), "r8:%x" % a])
    if tier == "thorough":
        # every plain byte of the small regions, a dense lattice of DRAM
        for lo, hi in REGIONS:
            rng = range(lo, hi + 1) if hi - lo < 0x10000 else range(lo, hi + 1, 97)
            for a in rng:
                if not is_port(a):
                    add(["w8:%x:%x" % (a, (a * 7 + 3) & 0xff), "r8:%x" % a])

    # 3. sized accesses at and across region boundaries
    for e in EDGES:
        for d in range(-5, 3):
            a = e + d
            if a < 0:
                continue
            span = range(a, a + 4)
            if any(is_port(x) for x in span):
                continue
            add(["r16:%x" % a]); add(["r32:%x" % a])
            add(["w16:%x:%x" % (a, rnd.randrange(1 << 16)), "r16:%x" % a])
            add(["w32:%x:%x" % (a, rnd.randrange(1 << 32)), "r32:%x" % a, "r16:%x" % (a + 2), "r8:%x" % (a + 3)])

    # 4. random interleaved histories
    n_h = 1500 if tier == "quick" else 40000
    for _ in range(n_h):
        lo, hi = rnd.choice(REGIONS)
        base = rnd.choice([lo, max(lo, hi - 12), rnd.randrange(lo, hi + 1)])
        ops = []
        for _ in range(rnd.randrange(2, 14)):
            a = base + rnd.randrange(0, 12)
            k = rnd.random()
            sz = rnd.choice([1, 1, 2, 4])
            if any(is_port(x) for x in range(a, a + sz)):
                continue
            if k < 0.5:
                ops.append({1: "w8", 2: "w16", 4: "w32"}[sz] + ":%x:%x" % (a, rnd.randrange(1 << (8 * sz))))
            else:
                ops.append({1: "r8", 2: "r16", 4: "r32"}[sz] + ":%x" % a)
        if ops:
            add(ops, tagged=rnd.random() < 0.8)
    # 4a. decoding must not depend on what other plain registers hold: first arbitrary values into a good number of plain
    #     I/O register bytes (bus controller, module stop, DRAM controller, timer and serial registers ...), then write /
    #     read-back sweeps over register bytes and memory, then the first registers are read back
    io1 = [a for a in range(0xfee00b, 0xfee100)]
    io2 = [a for a in range(0xffff20, 0xffffea) if not is_port(a)]
    for _ in range(1500 if tier == "quick" else 20000):
        ops = []
        first = []
        for _k in range(rnd.randrange(4, 24)):
            a = rnd.choice(io1 if rnd.random() < 0.7 else io2)
            v = rnd.choice([0xff, 0xff, 1, 2, 4, 8, 0x10, 0x20, 0x40, 0x80, rnd.randrange(256)])
            ops.append("w8:%x:%x" % (a, v)); first.append(a)
        sweep = rnd.sample(io2, rnd.randrange(6, 30)) + rnd.sample(io1, rnd.randrange(2, 10)) + \
                [rnd.randrange(0xffbf20, 0xffff20), rnd.randrange(0x400000, 0x600000), rnd.randrange(0, 0x100)]
        rnd.shuffle(sweep)
        for a in sweep:
            ops.append("w8:%x:%x" % (a, rnd.randrange(256))); ops.append("r8:%x" % a)
        for a in first[:6]:
            ops.append("r8:%x" % a)
        add(ops, tagged=rnd.random() < 0.5)
    # 5. the absolute-address access helpers: @aa:8 reaches H'FFFF00+aa, @aa:16 the sign-extended 24-bit address
    #    (write through the short form, read back through the 24-bit form and vice versa; a far location must not change)
    def ea16(a):
        return a if a < 0x8000 else 0xff0000 | a
    a16s = sorted(set([0, 1, 2, 0xfe, 0xff, 0x100, 0x7ffe, 0x7fff, 0x8000, 0x8001, 0xbf1e, 0xbf1f, 0xbf20, 0xbf21, 0xc010, 0xe000, 0xe0ff, 0xe100,
                       0xfe10, 0xfeff, 0xff00, 0xff1e, 0xff1f, 0xff20, 0xff7f, 0xff8a, 0xffcf, 0xffdb, 0xffe9, 0xffea, 0xfffe, 0xffff]
                      + [rnd.randrange(0x10000) for _ in range(60 if tier == "quick" else 2000)]))
    for a in a16s:
        for sz in (1, 2, 4):
            ea = ea16(a)
            if any(is_port(x) or 0xffff80 <= x <= 0xffff99 for x in range(ea, ea + sz)):
                continue
            v = rnd.randrange(1 << (8 * sz))
            rd24 = {1: "r8", 2: "r16", 4: "r32"}[sz]
            wr24 = {1: "w8", 2: "w16", 4: "w32"}[sz]
            add(["ra:10:%x:%x" % (sz, a)])
            add(["wa:10:%x:%x:%x" % (sz, a, v), "%s:%x" % (rd24, ea), "ra:10:%x:%x" % (sz, a), "r8:%x" % ((ea ^ 0xff00) & 0xffffff)])
            add(["%s:%x:%x" % (wr24, ea, v), "ra:10:%x:%x" % (sz, a)])
    for a in range(256):
        for sz in (1, 2, 4):
            ea = 0xffff00 + a
            if any(is_port(x) or 0xffff80 <= x <= 0xffff99 for x in range(ea, ea + sz)):
                continue
            v = rnd.randrange(1 << (8 * sz))
            rd24 = {1: "r8", 2: "r16", 4: "r32"}[sz]
            add(["ra:8:%x:%x" % (sz, a)])
            add(["wa:8:%x:%x:%x" % (sz, a, v), "%s:%x" % (rd24, ea), "ra:8:%x:%x" % (sz, a)])
    info["exhaustive"] = (tier == "thorough")
    info["cases"] = len(lines)
    info["classification"] = "all 2^24 addresses" if tier == "thorough" else "boundaries +/-16 and one address per 256-byte block"
    n = 16
    for i in range(n):
        yield ("s%02d" % i, lines[i::n], "rel")
