"""C13: terminating guest programs (straight-line blocks, counted loops, calls, port writes, console output, failing
instructions) run by Cpu::run with a scripted (empty) control socket; totals on both sides of sync thresholds."""
import random
from . import common, isa
from .c10 import simple_insn
KEYS = ["resclass", "pc", "ccr", "er", "md", "sum", "q", "msgs", "con"]
RULE = ("random programs: blocks of register instructions, counted loops (DEC/BNE, nested), BSR/JSR subroutines, MOV.B stores to port DDR/DR, "
        "8-bit timer 0 started by the program in about 40% of the runs (TCNT / TCSR / pending requests at exit are compared), MES write calls, optional unimplemented opcode (run must fail); a few long loops crossing 1-3 sync thresholds; "
        "distinct = distinct (program, final state, message sequence)")
SHARD_TIMEOUT = 3000

def nontrivial_key(case, model):
    return (case.get("mem"), model.get("res"), model.get("sum"), model.get("msgs"))

def block(r, n):
    out = []
    for _ in range(n):
        out += simple_insn(r)
    return out

def prog(r, long_run):
    """returns code bytes; uses R6/E6 as loop counters (simple_insn avoids ER7; we avoid touching ER6 in blocks by post-fixing)."""
    code = []
    def safe_block(n):
        out = []
        while n > 0:
            i = simple_insn(r)
            # keep ER5/ER6 (loop counters) and ER0/ER1 (system-call arguments, set explicitly) out of random blocks
            lo = i[1] & 0x0f; hi = (i[1] >> 4) & 0x0f
            regs = {lo & 7, hi & 7} if i[0] not in (0xf0 | (i[0] & 0x0f),) else {i[0] & 7}
            if i[0] >= 0xf0:
                regs = {i[0] & 7}
            if regs & {0, 1, 5, 6, 7}:
                continue
            out += i; n -= 1
        return out
    code += safe_block(r.randrange(0, 6))
    if r.random() < (0.25 if long_run else 0.45):
        # start 8-bit timer 0: MOV.B #tcr,R6L ; MOV.B R6L,@H'FFFF80 (clock select 1-3, enables, clear source none / external)
        tcr = r.choice([1, 1, 2, 3]) | r.choice([0, 0, 0x18]) | r.choice([0, 0x20, 0x40, 0x80, 0xe0])
        if r.random() < 0.15:
            tcr = r.choice([0, 1, 2, 3]) | (r.randrange(256) & 0xf8)
        code += isa.enc_mov_imm("b", tcr, 14) + [0x3e, 0x80]
        code += safe_block(r.randrange(0, 3))
    if long_run:
        inner = r.choice([0x6000, 0xa000, 0xffff])
        outer = r.choice([1, 1, 2, 3])
        # MOV.W #outer,R5 ; L1: MOV.W #inner,R6 ; L2: body ; DEC.W #1,R6 ; BNE L2 ; DEC.W #1,R5 ; BNE L1
        body = safe_block(r.randrange(0, 3))
        code += isa.enc_mov_imm("w", outer, 5)
        l1 = len(code)
        code += isa.enc_mov_imm("w", inner, 6)
        l2 = len(code)
        code += body
        code += [0x1b, 0x56]
        d = l2 - (len(code) + 2)
        code += [0x46, d & 0xff]
        code += [0x1b, 0x55]
        d = l1 - (len(code) + 2)
        code += [0x46, d & 0xff] if -128 <= d else [0x58, 0x60] + isa.w16(d - 2)
    else:
        for _ in range(r.randrange(0, 4)):
            k = r.random()
            if k < 0.4:
                cnt = r.randrange(1, 40)
                code += isa.enc_mov_imm("b", cnt, 14)        # R6L
                l = len(code)
                code += safe_block(r.randrange(1, 4))
                code += [0x1a, 0x0e]                          # DEC.B R6L
                d = l - (len(code) + 2)
                code += [0x46, d & 0xff]
            elif k < 0.6:
                # port write: MOV.B #v,R6L ; MOV.B R6L,@DDR/DR
                v = r.randrange(256)
                p = r.randrange(11)
                code += isa.enc_mov_imm("b", v, 14)
                if r.random() < 0.5:
                    code += [0x3e, 0xd0 + p]                  # MOV.B R6L,@aa:8 -> H'FFFFD0+p
                else:
                    code += isa.enc_mov_mem("b", False, "a24", 0, 14, 0xfee000 + p)
            elif k < 0.8:
                # BSR to a subroutine placed after the main code: patched by the caller
                code += ["BSR"]
            else:
                code += safe_block(r.randrange(1, 6))
    return code

def timer_irq_programs(rnd, n, tag, first_id):
    """programs in which 8-bit timer 0 raises its own interrupts (CMIA 36, CMIB 37, OVI 39): the handlers count their entries;
    run through Cpu::run against the reference run loop with the tick-by-tick timer and the FIFO acceptance rule"""
    lines = []
    cid = first_id
    for _ in range(n):
        base = rnd.choice([0xffc000, 0x416900, 0x430000]) + 2 * rnd.randrange(16)
        hbase = rnd.choice([0xffd800, 0x4a0000])
        ta = rnd.choice([1, 2, 3, 5, 9, 0x10, 0x40, 0xfe, 0xff, rnd.randrange(1, 256)])
        tb = rnd.choice([1, 2, 4, 7, 0x11, 0x80, 0xff, rnd.randrange(1, 256)])
        if rnd.random() < 0.15:
            tb = ta                                        # both compare matches on the same count
        t0 = rnd.choice([0, 0, 0xf0, 0xfe, rnd.randrange(256)])
        cclr = rnd.choice([0, 0, 1, 2, 3])
        if cclr in (1, 2) and tb == ta:
            cclr = 0
        cks = rnd.choice([1, 1, 1, 2, 1, 1, 2, 4, 5, 7])     # 4-7: no internal clock, nothing may count
        # the counter period must be longer than the handlers it triggers, or the main loop never advances (the
        # implementation's run loop has no step limit): with counter clear on a compare match keep that match far enough
        lim = 0x20 if cks == 1 else 4
        if cclr == 1 and ta < lim:
            ta = lim + ta
        if cclr == 2 and tb < lim:
            tb = lim + tb
        tcr = cks | (cclr << 3) | rnd.choice([0x40, 0x80, 0x20, 0xc0, 0xe0, 0xa0, 0x60])
        code = []
        for reg, val in ((0x84, ta), (0x86, tb), (0x88, t0), (0x80, tcr)):
            code += isa.enc_mov_imm("b", val, 14) + [0x3e, reg]
        cnt = rnd.choice([3, 10, 40, 120, 255])
        code += isa.enc_mov_imm("b", cnt, 14)
        l = len(code)
        body = []
        for _b in range(rnd.randrange(1, 5)):
            i = simple_insn(rnd)
            lo = i[1] & 0x0f; hi = (i[1] >> 4) & 0x0f
            regs = {lo & 7, hi & 7}
            if i[0] >= 0xf0:
                regs = {i[0] & 7}
            if regs & {0, 1, 3, 4, 5, 6, 7}:
                continue
            body += i
        code += body + [0x1a, 0x0e]
        d = l - (len(code) + 2)
        code += [0x46, d & 0xff]
        # after the loop: sometimes another clock selection (stop, switch, external), a few short instructions, then
        # TCNT and TCSR are read back into R5L / R5H
        k = rnd.random()
        if k < 0.5:
            # (a faster clock only with the interrupts disabled: see the period condition above)
            v = rnd.choice([0, 0, tcr & 0xf8 | 5, tcr & 0xf8 | 4, tcr & 0xf8 | (2 if cks == 1 else cks), tcr & 0x18 | rnd.choice([1, 2, 3])])
            code += isa.enc_mov_imm("b", v, 14) + [0x3e, 0x80]
            for _f in range(rnd.randrange(0, 6)):
                code += [0x0a, 0x0a]                       # INC.B R2L
        if k < 0.85:
            code += [0x2d, 0x88, 0x25, 0x82]
        exit_off = len(code)
        code += [0x40, 0xfe]
        mem = {base: code}
        # handlers: INC.B R3H / R3L / R4H ; RTE
        mem[hbase] = [0x0a, 0x03, 0x56, 0x70]
        mem[hbase + 0x10] = [0x0a, 0x0b, 0x56, 0x70]
        mem[hbase + 0x20] = [0x0a, 0x04, 0x56, 0x70]
        mem[0x90] = isa.w32(hbase) + isa.w32(hbase + 0x10)
        mem[0x9c] = isa.w32(hbase + 0x20)
        er = [isa.rand_val(rnd, 32) for _ in range(8)]
        er[2] = base
        er[3] = 0
        er[4] = 0
        er[7] = 0xffff00 - 4 * rnd.randrange(8)
        ccr = rnd.randrange(256) & 0x7f
        cid += 1
        m = ";".join("%x:%s" % (a, isa.hexb(b)) for a, b in mem.items())
        lines.append("id=%x kind=run tag=%x sock= pc=0 ccr=%x exit=%x er=%s mem=%s ops=run:%x" % (
            cid, tag, ccr, base + exit_off, ",".join("%x" % x for x in er), m, 20000))
    return lines


def generate(tier, seed, info):
    rnd = random.Random(seed * 131 + 13)
    tag = seed % 200 + 3
    lines = []
    n_short = 4000 if tier == "quick" else 60000
    n_long = 24 if tier == "quick" else 200
    cid = 0
    for k in range(n_short + n_long):
        long_run = k >= n_short
        base = rnd.choice([0x416900, 0x420000, 0xffc000, 0x4ff000]) + 2 * rnd.randrange(32)
        if long_run:
            base = rnd.choice([0x416900, 0x430000])
        code = prog(rnd, long_run)
        # console output: MES write of a short text
        mem = {}
        if rnd.random() < 0.3 and not long_run:
            txt = rnd.choice([b"hello\n", b"a\\b\n", b"\x00x", "日本".encode(), b""])
            argb = 0xffd000
            buf = 0xffd100
            mem[argb] = isa.w32(1) + isa.w32(buf) + isa.w32(len(txt))
            if txt:
                mem[buf] = list(txt)
            code += isa.enc_mov_imm("l", 104, 0) + isa.enc_mov_imm("l", argb, 1) + [0x57, 0x00]
        fail = (rnd.random() < 0.1 and not long_run)
        if fail:
            code += rnd.choice([[0x00, 0x00], [0x01, 0x80], [0x0f, 0x03], [0x07, 0x80]])
        # resolve BSR placeholders: subroutine = small block + RTS placed after the exit point
        flat = []
        fix = []
        for b in code:
            if b == "BSR":
                fix.append(len(flat)); flat += [0x55, 0x00]
            else:
                flat.append(b)
        exit_off = len(flat)
        flat += [0x40, 0xfe]                       # never reached: BRA self at the exit address
        sub_off = len(flat)
        sub = []
        for _ in range(rnd.randrange(0, 3)):
            i = simple_insn(rnd)
            lo = i[1] & 7; hi = (i[1] >> 4) & 7
            if {lo, hi, i[0] & 7 if i[0] >= 0xf0 else lo} & {0, 1, 5, 6, 7}:
                continue
            sub += i
        flat += sub + [0x54, 0x70]
        ok = True
        for off in fix:
            d = sub_off - (off + 2)
            if d > 126:
                ok = False
            flat[off + 1] = d & 0xff
        if not ok:
            continue
        mem[base] = flat
        er = [isa.rand_val(rnd, 32) for _ in range(8)]
        er[2] = base
        er[7] = 0xffff00 - 4 * rnd.randrange(8)
        ccr = rnd.randrange(256) | 0x80
        cid += 1
        m = ";".join("%x:%s" % (a, isa.hexb(b)) for a, b in mem.items())
        # the count the run starts from: mostly 0; sometimes close below 2^31 / 2^32 / 2^33 (totals, sync totals and the stamps
        # of port announcements must carry on beyond them)
        start = ""
        if rnd.random() < 0.12:
            start = " sum=%x" % (rnd.choice([1 << 31, 1 << 32, 1 << 33, 3 << 32]) - rnd.choice([0, 6, 12, 30, 300, 3000]))
        lines.append("id=%x kind=run tag=%x sock=%s pc=0 ccr=%x exit=%x er=%s mem=%s ops=run:%x" % (
            cid, tag, start, ccr, base + exit_off, ",".join("%x" % x for x in er), m, 600000 if long_run else 20000))
    tl = timer_irq_programs(rnd, 300 if tier == "quick" else 5000, tag, cid)
    lines += tl
    cid += len(tl)
    info["timer_interrupt_programs"] = len(tl)
    # an instruction that cannot be fetched completely fails and run returns the error: programs whose last instruction is a
    # multi-word form lying across the end of DRAM (its extension words are unmapped)
    # (for JMP / JSR @aa:24 the exit address is where a zero low word would lead, so that going on instead of failing is seen)
    tails = [([0x5a, 0x41], 2, "jmp @aa:24"), ([0x79, 0x03], 2, "mov.w #imm"), ([0x58, 0x00], 2, "bra d:16"), ([0x7a, 0x03], 2, "mov.l #imm, no extension word"),
             ([0x7a, 0x03, 0x12, 0x34], 4, "mov.l #imm, low word missing"), ([0x6b, 0x02], 2, "mov.w @aa:16"), ([0x01, 0x00], 2, "prefix only"),
             ([0x01, 0x00, 0x6b, 0x22, 0x00, 0x41], 6, "mov.l @aa:24, low word missing"), ([0x5e, 0x41], 2, "jsr @aa:24")]
    for tail, tl_len, _what in tails:
        for pre in range(3):
            body = []
            for _b in range(pre):
                i = simple_insn(rnd)
                body += i
            code = body + tail
            base = 0x600000 - len(code)
            er = [isa.rand_val(rnd, 32) for _ in range(8)]
            er[2] = base
            er[7] = 0xffff00
            cid += 1
            lines.append("id=%x kind=run tag=%x sock= pc=0 ccr=%x exit=%x er=%s mem=%x:%s ops=run:%x" % (
                cid, tag, rnd.randrange(256) | 0x80, 0x410000 if tail[0] in (0x5a, 0x5e) else 0x416900, ",".join("%x" % x for x in er), base, isa.hexb(code), 1000))
    # crafted: the cumulative count reaches EXACTLY a multiple of 2,000,000 (only every third multiple is reachable, charges being
    # multiples of 3): code in on-chip RAM (2 states per fetch): MOV.L #n,ER6 (6) ; L: DEC.L #1,ER6 (2) ; BNE L (4) ; fillers (2 each)
    for variant in range(2):
        base = 0xffc000
        n = 333332
        code = [0x7a, 0x06] + isa.w32(n) + [0x1b, 0x76, 0x46, 0xfc]
        code += [0x0c, 0x00]                       # filler: total = 6 + 6n + 2 = 2,000,000 states -> 6,000,000 after x3
        if variant == 1:
            code += [0x0c, 0x11, 0x0c, 0x22]       # the multiple is passed in the middle of the run
        exit_off = len(code)
        code += [0x40, 0xfe]
        er = [0] * 8
        er[2] = base
        er[7] = 0xffff00
        cid += 1
        lines.append("id=%x kind=run tag=%x sock= pc=0 ccr=80 exit=%x er=%s mem=%x:%s ops=run:%x" % (
            cid, tag, base + exit_off, ",".join("%x" % x for x in er), base, isa.hexb(code), 0x100000))
    info["cases"] = len(lines)
    info["long_runs"] = n_long
    info["exact_multiple_runs"] = 2
    return common.shard(lines)


def extra_checks(tier, seed, exes, oc, gen_info, log):
    """the same programs run twice through the real Cpu::run (with its wall-clock pacing): once on an otherwise idle
    process group, once while every core is kept busy; the observations (registers, memory, state count, message
    sequence) must be identical - the property's 'independent of host speed / repeated runs under different host load'"""
    import os, subprocess, sys, shutil, time
    here = os.path.dirname(os.path.dirname(os.path.abspath(__file__)))
    sys.path.insert(0, here)
    import check
    wd = os.path.join(check.CACHE, "load-%d" % os.getpid())
    os.makedirs(wd, exist_ok=True)
    try:
        lines = []
        for name, part, prof in generate("quick", seed + 101, {}):
            lines += part
        short = [l for l in lines if "ops=run:4e20" in l][: (150 if tier == "quick" else 1500)]
        longr = [l for l in lines if "ops=run:4e20" not in l][: (3 if tier == "quick" else 12)]
        cf = os.path.join(wd, "load.cases")
        with open(cf, "w") as f:
            for l in short + longr:
                f.write(l + "\n")
        outs = []
        for mode in ("idle", "loaded"):
            burners = []
            if mode == "loaded":
                for _ in range(2 * (os.cpu_count() or 8)):
                    burners.append(subprocess.Popen([sys.executable, "-c", "while True: pass"]))
                time.sleep(0.2)
            try:
                iout = cf + "." + mode
                env = dict(os.environ, KOGE29_VERIF_DRIVER="1", KOGE29_VERIF_IN=cf, KOGE29_VERIF_OUT=iout)
                t0 = time.time()
                with open(cf + ".console." + mode, "wb") as cons:
                    p = subprocess.run([exes["rel"]], env=env, stdout=cons, stderr=subprocess.DEVNULL, timeout=1500)
                outs.append((mode, p.returncode, open(iout).read().split("\n") if os.path.exists(iout) else [], time.time() - t0,
                             open(cf + ".console." + mode, "rb").read()))
            finally:
                for b in burners:
                    b.kill()
                for b in burners:
                    b.wait()
        (m0, rc0, o0, t0s, c0), (m1, rc1, o1, t1s, c1) = outs
        diff = [i for i in range(max(len(o0), len(o1))) if (o0[i] if i < len(o0) else None) != (o1[i] if i < len(o1) else None)]
        gen_info["host_load"] = {"programs": len(short) + len(longr), "idle_s": round(t0s, 1), "loaded_s": round(t1s, 1),
                                 "differing_observations": len(diff), "console_equal": c0 == c1}
        log("[C13] host load: %d programs run idle (%.1fs) and with every core busy (%.1fs): %d observations differ, console %s" % (
            len(short) + len(longr), t0s, t1s, len(diff), "equal" if c0 == c1 else "DIFFERS"))
        oc.evaluations += len(short) + len(longr)
        oc.in_domain += len(short) + len(longr)
        if rc0 != 0 or rc1 != 0 or diff or c0 != c1:
            k = diff[0] if diff else 0
            oc.violations.append((short[k] if k < len(short) else "host-load run", {"idle": o0[k] if k < len(o0) else None, "rc": [rc0, rc1]},
                                  {"loaded": o1[k] if k < len(o1) else None}, {"rule": "same program, different host load: observations must be identical"}, ["host-load"]))
    finally:
        shutil.rmtree(wd, ignore_errors=True)
