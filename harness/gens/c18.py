"""C18: sequences of well-formed and malformed control lines under different polling schedules (all lines before one
poll, one line per poll, random cuts) delivered through the scripted control socket to Cpu::run."""
import random
from . import common, isa
KEYS = ["res", "md", "pin", "msgs", "sum", "pc"]
RULE = ("random line sequences (cmd:pause/start/stop, u8:<addr>:<value>, ioport:<port>:<value>, malformed variants: wrong field counts, "
        "non-hex, overflow, signs, empty fields, unknown verbs, non-ASCII) x 3 polling schedules; the guest runs BRA self; "
        "distinct = distinct (lines, schedule, final memory / pins / messages)")
SHARD_TIMEOUT = 2400

def nontrivial_key(case, model):
    return (case.get("sock"), model.get("md"), model.get("pin"), model.get("msgs"))

def hexl(s):
    return s.encode("utf-8", "surrogatepass").hex()

def good_line(r):
    k = r.random()
    if k < 0.35:
        a = r.choice([0xffc100 + r.randrange(64), 0x450000 + r.randrange(64), 0xffffd0 + r.randrange(11), 0xfee000 + r.randrange(11), 0x10 + r.randrange(16)])
        return "u8:%x:%x" % (a, r.randrange(256))
    if k < 0.7:
        return "ioport:%x:%x" % (r.randrange(1, 12), r.randrange(256))
    if k < 0.85:
        return "cmd:pause"
    return "cmd:start"

def bad_line(r):
    return r.choice([
        "cmd", "cmd:", "cmd:pause:now", "cmd:halt", "cmd:Start", "u8", "u8:ffc000", "u8:ffc000:1:2", "u8:zz:1", "u8:ffc000:100",
        "u8:ffc000:-1", "u8::1", "u8:ffc000:", "u8:100000000:1", "u8:0x10:1", "u8: ffc000:1", "u8:123456:5", "ioport", "ioport:1",
        "ioport:1:2:3", "ioport:0:ff", "ioport:c:ff", "ioport:100:ff", "ioport:1:1ff", "ioport:g:1", "ioport:+1:+7f", "u8:+ffc010:+5",
        "", ":", "::", "hello", "IOPORT:1:2", "u8 :ffc000:1", "ioport:1:ff\r", "sync:5", "stdout:x", "ioport:１:2", "u8:ffc000:é",
    ])

def schedules(r, lines):
    yield [lines]                                   # everything queued before the first poll
    yield [[l] for l in lines]                      # one line per poll
    cut = []
    cur = []
    for l in lines:
        cur.append(l)
        if r.random() < 0.4:
            cut.append(cur); cur = []
        if r.random() < 0.15:
            cut.append([])                          # an empty poll in between
    cut.append(cur)
    yield cut

def generate(tier, seed, info):
    rnd = random.Random(seed * 77 + 18)
    tag = seed % 200 + 3
    out = []
    n = 1500 if tier == "quick" else 30000
    cid = 0
    for _ in range(n):
        ls = []
        for _ in range(rnd.randrange(1, 14)):
            ls.append(good_line(rnd) if rnd.random() < 0.65 else bad_line(rnd))
        if rnd.random() < 0.15:
            ls.insert(rnd.randrange(len(ls) + 1), "cmd:stop")
        ls.append("cmd:start")
        ls.append("cmd:stop")
        base = 0x416900
        er = [0] * 8
        er[2] = base
        er[7] = 0xffff00
        for sched in schedules(rnd, ls):
            cid += 1
            sock = "/".join("|".join(hexl(l) for l in b) for b in sched)
            out.append("id=%x kind=sock tag=%x sock=%s pc=0 ccr=80 exit=0 er=%s mem=%x:40fe ops=run:%x" % (
                cid, tag, sock, ",".join("%x" % x for x in er), base, 4000))
    info["cases"] = len(out)
    return common.shard(out)


def extra_checks(tier, seed, exes, oc, gen_info, log):
    """the same property over the real TCP socket (reader thread, send worker, escaping): see harness/tcpcheck.py"""
    import os, sys
    here = os.path.dirname(os.path.dirname(os.path.abspath(__file__)))
    sys.path.insert(0, here)
    import tcpcheck, check
    wd = os.path.join(check.CACHE, "tcp-%d" % os.getpid())
    os.makedirs(wd, exist_ok=True)
    try:
        r = tcpcheck.run(exes["rel"], os.path.join(check.CACHE, "runner", "model_runner"), wd, tier, seed)
    finally:
        import shutil
        shutil.rmtree(wd, ignore_errors=True)
    gen_info["tcp"] = {k: v for k, v in r.items() if k != "violations"}
    gen_info["tcp"]["rule"] = ("scenarios over the real control socket: ELF with MES write calls of texts over {backslash, newline, literal \\\\n, UTF-8, ...} and DDR writes; "
                               "u8 pokes, port levels and malformed lines sent before cmd:start; received bytes = Run.escape of the model's messages")
    oc.evaluations += r["cases"]
    oc.in_domain += r["cases"]
    log("[C18] tcp: %d scenarios, %d lines compared (+%d sync lines), %d backslashes on the wire, %d differ" % (
        r["cases"], r["lines"], r["sync_lines"], r["escaped_bytes"], len(r["violations"])))
    for v in r["violations"]:
        oc.violations.append(("tcp-scenario %d" % v["case"], {"got": v.get("got"), "tail": v.get("tail"), "why": v["why"]},
                              {"res": v.get("model_res")}, {"want": v.get("want"), "sent": v.get("sent"), "elf": v.get("elf")}, ["wire"]))
