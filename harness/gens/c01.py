"""C01: every MOV.B/W/L form x register fields x boundary data x all CCR x operand addresses over RAM, DRAM,
vector area (region ends included), upper byte of the address register arbitrary, tagged memory."""
from . import forms, common
KEYS = common.STATE_KEYS
RULE = "random MOV forms (rr, imm, @ERn, @(d:16), @(d:24), @ERn+/@-ERn, @aa:8/16/24; load+store; B/W/L); distinct = distinct (opcode word, result state)"
nontrivial_key = common.step_key

def generate(tier, seed, info):
    n = 60000 if tier == "quick" else 1500000
    c = common.ctx(seed, 1)
    lines = forms.gen_mov(c, n)
    info["cases"] = len(lines); info["forms"] = "rr imm ind d16 d24 inc/dec a8 a16 a24 x b/w/l x load/store"
    return common.shard(common.renumber(lines))
