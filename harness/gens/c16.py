"""C16: histories of {write DDR, write DR, external input, read DR} on the 11 ports: bounded-exhaustive over a covering
value set, random longer ones, pairs of ports."""
import random, itertools
from . import common
KEYS = ["res", "md", "outs"]
RULE = ("bounded-exhaustive histories (depth 3 quick / 4 thorough) of {DDR write, DR write, input} x 8 covering values with a DR read "
        "after every event, rotated over the 11 ports; random histories of length 4-14 on one or two ports; "
        "histories in which the state count moves between the events, across 2^31 / 2^32 / 2^33 (stamps must not decrease); "
        "distinct = distinct (history, results, announcements)")
VALS = [0x00, 0xff, 0x0f, 0xf0, 0x55, 0xaa, 0x01, 0x80]

def nontrivial_key(case, model):
    return (case.get("ops"), model.get("res"), model.get("msgs"))

def ev(kind, port, v):
    if kind == 0:
        return "w8:%x:%x" % (0xfee000 + port - 1, v)
    if kind == 1:
        return "w8:%x:%x" % (0xffffd0 + port - 1, v)
    return "port:%x:%x" % (port, v)

def generate(tier, seed, info):
    rnd = random.Random(seed * 7 + 16)
    depth = 3 if tier == "quick" else 4
    lines = []
    evs = [(k, v) for k in range(3) for v in VALS]
    n = 0
    for hist in itertools.product(evs, repeat=depth):
        port = n % 11 + 1
        ops = []
        for k, v in hist:
            ops.append(ev(k, port, v)); ops.append("r8:%x" % (0xffffd0 + port - 1))
        n += 1
        lines.append("id=%x kind=port ops=%s" % (n, ",".join(ops)))
    for _ in range(20000 if tier == "quick" else 300000):
        ports = rnd.sample(range(1, 12), rnd.choice([1, 1, 2]))
        ops = []
        for _ in range(rnd.randrange(4, 15)):
            p = rnd.choice(ports)
            k = rnd.randrange(4)
            if k == 3:
                ops.append(rnd.choice(["r8:%x" % (0xffffd0 + p - 1), "r8:%x" % (0xfee000 + p - 1)]))
            else:
                ops.append(ev(k, p, rnd.choice(VALS + [rnd.randrange(256)])))
                if rnd.random() < 0.5:
                    ops.append("r8:%x" % (0xffffd0 + p - 1))
        n += 1
        lines.append("id=%x kind=port ops=%s" % (n, ",".join(ops)))
    # the time base of the stamps moves between the events (op ss: the state count so far), also across 2^31, 2^32 and 2^33:
    # the stamps of the announcements must not decrease
    for _ in range(3000 if tier == "quick" else 40000):
        p = rnd.randrange(1, 12)
        t = rnd.choice([0, 1000, 0x7ffffff0, 0xfffffff0, 0xffffff00, 0x1fffffff0, rnd.randrange(1 << 34)])
        ops = ["ss:%x" % t]
        for _ in range(rnd.randrange(3, 10)):
            ops.append(ev(rnd.randrange(3), p, rnd.choice(VALS + [rnd.randrange(256)])))
            if rnd.random() < 0.7:
                t += rnd.choice([1, 6, 0x10, 0x20, 0x1000, rnd.randrange(1, 1 << 20)])
                ops.append("ss:%x" % t)
        n += 1
        lines.append("id=%x kind=port ops=%s" % (n, ",".join(ops)))
    info["cases"] = len(lines); info["exhaustive"] = True
    info["exhaustive_part"] = "all histories of depth %d over 3 event kinds x 8 values" % depth
    return common.shard(lines)
