"""C06: TRAPA #1-#3 / RTE for all 256 CCR values, interrupt entry for vectors 1-63 x CCR, vector contents with a
non-zero top byte, stacks across RAM and DRAM with arbitrary upper byte, entry followed by RTE, also with further requests pending while RTE executes."""
from . import forms, common, isa
KEYS = common.STATE_KEYS
RULE = "TRAPA #1-3 and RTE x all 256 CCR values; interrupt entry for vectors 1-63 x all CCR (quick: 16 CCR values each + random); entry;RTE round trips (half of them with 1-3 further requests pending at the RTE); distinct = distinct (op, result state)"
nontrivial_key = common.step_key

def entry_cases(c, combos, with_rte=False):
    r = c.rnd
    out = []
    for v, ccr in combos:
        er = c.regs()
        pc = c.pick_pc(2)
        sp = forms._sp(c)
        er[7] = c.upper() | sp
        target = r.choice([isa.RAM[0], isa.DRAM[0], r.randrange(isa.RAM[0], isa.RAM[1] - 8), r.randrange(isa.DRAM[0], isa.DRAM[1] - 8)]) & ~1
        mem = {4 * v: isa.w32((r.choice([0, 0x5a, 0xff, r.randrange(256)]) << 24) | target)}
        code = [0x56, 0x70]
        if with_rte:
            mem[target] = [0x56, 0x70]
            ops = "int:%x,step" % v
            if r.random() < 0.5:
                # further requests arrive while the handler runs masked: RTE must still restore the frame and leave
                # them pending (they are accepted only at the next boundary)
                ws = [r.randrange(1, 64) for _ in range(r.choice([1, 1, 2, 3]))]
                for w in ws:
                    if w != v:
                        mem[4 * w] = isa.w32((r.choice([0, 0xff]) << 24) | ((target + 0x40) & ~1))
                ops = "int:%x,%s,step" % (v, ",".join("irq:%x" % w for w in ws))
        else:
            ops = "int:%x" % v
        out.append(c.line("entry", [0x00, 0x00], pc, er, ccr, mem, ops=ops))
    return out

def generate(tier, seed, info):
    c = common.ctx(seed, 6)
    r = c.rnd
    lines = forms.gen_exc(c, 0, exhaustive_ccr=True)
    if tier == "quick":
        combos = [(v, ccr) for v in range(1, 64) for ccr in [r.randrange(256) for _ in range(16)] + [0x00, 0x80, 0x7f, 0xff]]
    else:
        combos = [(v, ccr) for v in range(1, 64) for ccr in range(256)]
    lines += entry_cases(c, combos)
    lines += entry_cases(c, [(r.randrange(1, 64), r.randrange(256)) for _ in range(5000 if tier == "quick" else 100000)], with_rte=True)
    lines += forms.gen_exc(c, 20000 if tier == "quick" else 400000)
    info["cases"] = len(lines); info["exhaustive"] = True
    info["exhaustive_part"] = "TRAPA #1-3 and RTE x all 256 CCR values" + ("; vectors 1-63 x all CCR" if tier != "quick" else "")
    return common.shard(common.renumber(lines))
