"""Shared helpers of the step-case generator modules."""
import random
from . import isa, forms

STATE_KEYS = ["resclass", "pc", "ccr", "er", "md"]


def shard(lines, n=16, prof="rel"):
    for i in range(n):
        part = lines[i::n]
        if part:
            yield ("s%02d" % i, part, prof)


def ctx(seed, salt, tag=True):
    rnd = random.Random(seed * 1000003 + salt)
    return isa.Ctx(rnd, tag=(seed % 200 + 3) if tag else None)


def renumber(lines):
    out = []
    for k, l in enumerate(lines):
        toks = l.split(" ", 1)
        out.append("id=%x %s" % (k + 1, toks[1]))
    return out


def step_key(case, model):
    code = [x for x in case["mem"].split(";") if not x.startswith("fee02")][0].split(":")[1]
    return (code[:4], model.get("res"), model.get("ccr"), model.get("er"), model.get("md"))
