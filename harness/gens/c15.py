"""C15: every first instruction word x adversarial register files x CCR x bus-controller settings, executed from
mapped regions including their last bytes and from unmapped addresses; control-line fuzzing; run() on faulting
programs - in the optimized build and in the build with arithmetic-overflow checking.  Outcome class (ok / err,
never panic) compared with the model."""
import random
from . import common, isa, forms
from . import c18 as c18gen
KEYS = ["resclass"]
REF_FROM_MODEL = True
PROFILES = ["rel", "chk"]
SHARD_TIMEOUT = 2400
RULE = ("all 65536 first words x %d adversarial register files (0, 1, 0xFFFFFFFF, 0x7FFFFFFF, 0x80000000, region edges, odd values) x random CCR x "
        "random bus-controller settings, code placed at region ends and in unmapped space; TRAPA #0 with adversarial argument blocks; "
        "timer / port register histories with every TCR value (also unimplemented clock selections) and programs that program the timer and keep running; control-line fuzz through run(); both build profiles; distinct = distinct (opcode words, registers, outcome)")

ADV = [0, 1, 2, 3, 0xffffffff, 0xfffffffe, 0x7fffffff, 0x80000000, 0x00ffffff, 0x01000000, 0xff000000,
       0xffbf20, 0xffbf1f, 0xffff1f, 0xffff20, 0x400000, 0x3fffff, 0x5fffff, 0x600000, 0xff, 0x100, 0xfee000, 0xffffe9, 0xffffea,
       0xffffd0, 0xffff80, 0x416900, 0x7ffffffe, 0x80000001, 0xfffffffc, 4, 0xfffd10]

def nontrivial_key(case, model):
    return (case.get("mem"), case.get("er"), case.get("ops"), case.get("sock"), model.get("res"))

def adv_regs(r):
    return [r.choice(ADV) if r.random() < 0.8 else r.randrange(1 << 32) for _ in range(8)]

def place(r, length):
    k = r.random()
    if k < 0.3:
        lo, hi = r.choice([isa.RAM, isa.DRAM, isa.VEC, (0xffff20, 0xffffe9), (0xfee000, 0xfee0ff)])
        return (hi + 1 - r.choice([2, 4, 6, length])) & ~1            # the instruction runs off the end of the region
    if k < 0.4:
        return r.choice([0x600000, 0x200000, 0xffffea, 0xfffffffe, 0x1000000, 0xffbf1e, 0x100, 0xfe])
    if k < 0.45:
        return r.choice([0xffc001, 0x410001])                          # odd PC
    return r.choice([0xffc000, 0x410000, 0x20, 0xffbf20, 0x400000]) + 2 * r.randrange(16)

def generate(tier, seed, info):
    rnd = random.Random(seed * 151 + 15)
    tag = seed % 200 + 3
    lines = []
    nreg = 1 if tier == "quick" else 4
    cid = 0
    for w in range(65536):
        for _ in range(nreg):
            code = isa.w16(w) + [rnd.randrange(256) if rnd.random() < 0.6 else 0 for _ in range(8)]
            pc = place(rnd, 10)
            er = adv_regs(rnd)
            mem = {pc & 0xfffffffe: code}
            if rnd.random() < 0.5:
                mem[0xfee020] = [rnd.randrange(256) for _ in range(4)]
                mem[0xfee026] = [rnd.randrange(256)]
            cid += 1
            m = ";".join("%x:%s" % (a, isa.hexb(b)) for a, b in mem.items())
            lines.append("id=%x kind=step tag=%x pc=%x ccr=%x er=%s mem=%s ops=step" % (
                cid, tag, pc, rnd.randrange(256), ",".join("%x" % x for x in er), m))
    # second words of the prefix groups and of the memory forms with adversarial registers
    for _ in range(30000 if tier == "quick" else 400000):
        pre = rnd.choice([0x0100, 0x0140, 0x01f0, 0x7800 | (rnd.randrange(16) << 4), 0x7c00 | (rnd.randrange(16) << 4), 0x7d00 | (rnd.randrange(16) << 4),
                          0x7e00 | rnd.randrange(256), 0x7f00 | rnd.randrange(256), 0x5700, 0x5d00 | (rnd.randrange(16) << 4), 0x5e00, 0x5500, 0x5470, 0x5670,
                          0x6e00 | rnd.randrange(256), 0x6f00 | rnd.randrange(256), 0x6c00 | rnd.randrange(256), 0x6d00 | rnd.randrange(256)])
        code = isa.w16(pre) + [rnd.randrange(256) for _ in range(8)]
        pc = place(rnd, 10)
        er = adv_regs(rnd)
        mem = {pc & 0xfffffffe: code}
        if pre == 0x5700:
            er[0] = rnd.choice([104, 113, 104, 113, rnd.randrange(200)])
            er[1] = rnd.choice(ADV)
            if rnd.random() < 0.5:
                arg = rnd.choice([0xffd000, 0x5ffff4, 0xffff14, 0xf8])
                er[1] = arg
                mem[arg] = isa.w32(rnd.choice(ADV)) + isa.w32(rnd.choice(ADV)) + isa.w32(rnd.choice([0, 1, 5, 0x1000, 0x7fffffff, 0xffffffff]))
        cid += 1
        m = ";".join("%x:%s" % (a, isa.hexb(b)) for a, b in mem.items())
        lines.append("id=%x kind=step tag=%x pc=%x ccr=%x er=%s mem=%s ops=step" % (
            cid, tag, pc, rnd.randrange(256), ",".join("%x" % x for x in er), m))
    # systematic second words of the prefix groups: every high byte x every bit-number / register nibble, operands in mapped
    # memory with random contents, every CCR pattern class (a flag helper fed anything but 0/1 panics)
    for pre_kind in ("7c", "7d", "7e", "7f", "0100", "0140", "01f0"):
        for h in range(256):
            for k in range(16):
                if pre_kind in ("7c", "7d"):
                    r_ = rnd.randrange(8)
                    pre = int(pre_kind, 16) << 8 | (r_ << 4)
                    w2 = (h << 8) | (k << 4)
                elif pre_kind in ("7e", "7f"):
                    r_ = None
                    pre = int(pre_kind, 16) << 8 | rnd.choice([0x00, 0x10, 0x7f, 0xcf, 0xe9, 0xea, 0xff, rnd.randrange(256)])
                    w2 = (h << 8) | (k << 4)
                else:
                    r_ = None
                    pre = int(pre_kind, 16)
                    w2 = (h << 8) | (k << 4) | rnd.randrange(16)
                    if tier == "quick" and k % 4:
                        continue
                code = isa.w16(pre) + isa.w16(w2) + [rnd.randrange(256) for _ in range(6)]
                pc = rnd.choice([0xffc000, 0x410000]) + 2 * rnd.randrange(16)
                er = adv_regs(rnd)
                mem = {pc: code}
                if r_ is not None:
                    er[r_] = rnd.choice([0xffd000, 0x450000, 0x20, 0xffff1f, 0xffbf20]) | (rnd.choice([0, 0xff]) << 24)
                    mem[er[r_] & 0xffffff] = [rnd.choice([0xff, 0x00, 0xaa, 0x55, rnd.randrange(256)])]
                cid += 1
                m = ";".join("%x:%s" % (a, isa.hexb(b)) for a, b in mem.items())
                lines.append("id=%x kind=step tag=%x pc=%x ccr=%x er=%s mem=%s ops=step" % (
                    cid, tag, pc, rnd.choice([0xff, 0x80, 0x05, 0x01, 0x00, 0xfe, rnd.randrange(256)]), ",".join("%x" % x for x in er), m))
    # interrupt acceptance with adversarial stacks
    for _ in range(3000 if tier == "quick" else 40000):
        er = adv_regs(rnd)
        v = rnd.choice([1, 36, 37, 39, 63])
        cid += 1
        lines.append("id=%x kind=step tag=%x pc=%x ccr=%x er=%s ops=irq:%x,bnd" % (cid, tag, rnd.choice(ADV), rnd.randrange(128), ",".join("%x" % x for x in er), v))
    # control-line fuzz and faulting programs through run()
    socklines = []
    for name, ls, prof in c18gen.generate("quick", seed + 7, {}):
        socklines += ls[: (40 if tier == "quick" else 400)]
    for l in socklines:
        cid += 1
        lines.append("id=%x %s" % (cid, l.split(" ", 1)[1]))
    for _ in range(300 if tier == "quick" else 5000):
        start = place(rnd, 4)
        er = adv_regs(rnd)
        er[2] = start
        cid += 1
        code = [rnd.randrange(256) for _ in range(6)]
        lines.append("id=%x kind=sock tag=%x sock= pc=0 ccr=80 exit=%x er=%s mem=%x:%s ops=run:%x" % (
            cid, tag, rnd.choice(ADV), ",".join("%x" % x for x in er), start & 0xfffffffe, isa.hexb(code), 2000))
    # peripheral histories: every TCR value (also the unimplemented clock selections), arbitrary timer register contents,
    # elapsed states 1-255 after each write; port registers with arbitrary values
    for _ in range(4000 if tier == "quick" else 60000):
        ops = []
        for _k in range(rnd.randrange(2, 9)):
            q = rnd.random()
            if q < 0.35:
                ops.append("w8:ffff80:%x" % rnd.randrange(256))
            elif q < 0.5:
                ops.append("w8:%x:%x" % (rnd.choice([0xffff82, 0xffff84, 0xffff86, 0xffff88, 0xffff81, 0xffff83, 0xffff89]), rnd.choice([0, 1, 0xff, 0xfe, rnd.randrange(256)])))
            elif q < 0.9:
                ops.append("tick:%x" % rnd.choice([1, 2, 7, 8, 9, 63, 64, 255, rnd.randrange(1, 256)]))
            elif q < 0.95:
                ops.append("w8:%x:%x" % (rnd.choice([0xfee000 + rnd.randrange(11), 0xffffd0 + rnd.randrange(11)]), rnd.randrange(256)))
            else:
                ops.append("port:%x:%x" % (rnd.randrange(0, 14), rnd.randrange(256)))
        cid += 1
        lines.append("id=%x kind=timer tag=%x ops=%s" % (cid, tag, ",".join(ops)))
    # programs that program the timer with any TCR value and keep running (through run(), so update_modules follows)
    for _ in range(300 if tier == "quick" else 5000):
        base = rnd.choice([0xffc000, 0x410000])
        code = isa.enc_mov_imm("b", rnd.randrange(256), 14) + [0x3e, 0x80]
        for _k in range(rnd.randrange(1, 6)):
            code += rnd.choice([[0x0a, 0x0e], [0x0b, 0x56], [0x1a, 0x0e], [0x0c, 0xe6]])
        exit_off = len(code)
        code += [0x40, 0xfe]
        er = adv_regs(rnd)
        er[2] = base
        er[7] = 0xffff00
        cid += 1
        lines.append("id=%x kind=sock tag=%x sock= pc=0 ccr=80 exit=%x er=%s mem=%x:%s ops=run:%x" % (
            cid, tag, base + exit_off, ",".join("%x" % x for x in er), base, isa.hexb(code), 2000))
    info["cases"] = 2 * len(lines)
    info["exhaustive"] = True
    info["exhaustive_part"] = "all 65536 first instruction words, in both build profiles"
    out = []
    n = 8
    for prof in PROFILES:
        for i in range(n):
            part = lines[i::n]
            out.append(("%s%02d" % (prof, i), part, prof))
    return out
RULE = RULE % 1
