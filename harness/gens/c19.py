"""C19: the complete per-area bus-controller setting space x 6 kinds x counts 1-5 x both ends of
every area (+ on-chip RAM), other areas' bits filled at random."""
import random

RULE = ("exhaustive over width bit x state bit x wait pair x DRAS x area x {first,last,random address} x 6 kinds x counts 1-5; "
        "bits of the other areas random; distinct = distinct (settings of the area, kind, count, address class) with its price")
ASSUMPTIONS = ["register bytes are poked directly into the I/O register store; prices are observed through Cpu::calc_state_with_addr"]

AREA_SZ = 0x200000


def in_io(a):
    return 0xfee000 <= a <= 0xfee0ff or 0xffff20 <= a <= 0xffffe9


def nontrivial_key(case, model):
    return (case.get("mem"), case.get("ops"), model.get("res"))


def generate(tier, seed, info):
    rnd = random.Random(seed)
    variants = 2 if tier == "quick" else 8
    lines = []
    cid = 0
    for area in range(8):
        for w8 in (0, 1):
            for st3 in (0, 1):
                for wait in range(4):
                    for dras in range(8):
                        for _ in range(variants):
                            abw = rnd.randrange(256) & ~(1 << area) | (w8 << area)
                            ast = rnd.randrange(256) & ~(1 << area) | (st3 << area)
                            wh = rnd.randrange(256)
                            wl = rnd.randrange(256)
                            sh = 2 * (area % 4)
                            if area < 4:
                                wl = wl & ~(3 << sh) | (wait << sh)
                            else:
                                wh = wh & ~(3 << sh) | (wait << sh)
                            dr = (dras << 5) | rnd.randrange(32)
                            lo, hi = area * AREA_SZ, area * AREA_SZ + AREA_SZ - 1
                            addrs = [lo, hi, rnd.randrange(lo, hi + 1)]
                            if area == 7:
                                addrs += [0xffbf20, 0xffff1f, 0xffbf1f, 0xffff20, 0xffffea, rnd.randrange(0xffbf20, 0xffff20)]
                            for a in addrs:
                                ops = ",".join("price:%x:%x:%x" % (k, n, a) for k in range(6) for n in range(1, 6))
                                cid += 1
                                lines.append("id=%x kind=price mem=fee020:%02x%02x%02x%02x;fee026:%02x ops=%s" % (cid, abw, ast, wh, wl, dr, ops))
    # out-of-domain probes (never gate): counts 0 and 6-255, addresses >= 2^24
    for _ in range(200):
        cid += 1
        a = rnd.choice([0x1000000, 0xffffffff, rnd.randrange(0, 1 << 24)])
        lines.append("id=%x kind=price mem=fee020:%02x%02x%02x%02x;fee026:%02x ops=price:%x:%x:%x" % (
            cid, rnd.randrange(256), rnd.randrange(256), rnd.randrange(256), rnd.randrange(256), rnd.randrange(256),
            rnd.randrange(6), rnd.choice([0, 6, 20, 37, 255]), a))
    info["exhaustive"] = True
    info["space"] = "8 areas x 2 widths x 2 state modes x 4 waits x 8 DRAS x %d fillings of the other areas x >=3 addresses x 30 (kind,count)" % variants
    info["cases"] = len(lines)
    n = 16
    for i in range(n):
        yield ("s%02d" % i, lines[i::n], "rel")
