"""C08: every instruction with a memory operand; base registers with every upper byte, sums that wrap modulo
2^24 and 2^32, all displacement widths, tagged memory."""
from . import forms, common
KEYS = common.STATE_KEYS
RULE = "random memory-operand forms of MOV / bit ops / STC.W / JMP / JSR / RTS with wrap-biased bases; distinct = distinct (opcode, result state)"
nontrivial_key = common.step_key

def generate(tier, seed, info):
    c = common.ctx(seed, 8)
    n = 40000 if tier == "quick" else 800000
    lines = forms.gen_mov(c, n, modes=["ind", "d16", "d24", "inc", "a8", "a16", "a24"], wrap_bias=0.6)
    lines += forms.gen_stc(c, n // 4, wrap_bias=0.6) + forms.gen_bit(c, n // 4) + forms.gen_calls(c, n // 4)
    info["cases"] = len(lines)
    return common.shard(common.renumber(lines))
