#!/usr/bin/env python3
"""C18 over real TCP: the emulator binary (normal main, -s -w) is driven through its control socket.

For each scenario a small ELF is generated whose program prints texts with the MES write call and writes ports, then
idles.  Over the socket we send u8 pokes that patch the text buffers, port levels, malformed lines and cmd:start.
The bytes received from the socket are compared with the model: the message list of the model's run on the same ELF and
the same lines, each message passed through the Coq function Run.escape (sync lines, whose number depends on how long
the idle loop runs, are only checked for form and order).  This covers what the scripted-socket correspondence cannot:
the reader thread's line splitting, the send worker's escaping and the order of delivery."""
import os, random, socket, subprocess, sys, time, json
HERE = os.path.dirname(os.path.abspath(__file__))
sys.path.insert(0, HERE)
from gens import elfgen, isa

ALPH = ["a", "Z", "0", " ", "\n", "\\", "\\n", "\\\\", "\t", "é", "日", "😀", ":", "n", "\r", "%", "\x7f"]


def w32(v):
    return [(v >> 24) & 0xff, (v >> 16) & 0xff, (v >> 8) & 0xff, v & 0xff]


def scenario(rnd, k):
    """returns (elf bytes, lines to send before cmd:start, description)"""
    ntexts = rnd.choice([1, 2, 3, 5])
    texts = []
    for _ in range(ntexts):
        n = rnd.choice([0, 1, 2, 3, 8, 40, rnd.randrange(0, 120)])
        t = "".join(rnd.choice(ALPH) for _ in range(n))
        if k % 5 == 1 and "\n" in t:
            t = t.replace("\n", "")          # backslashes without any newline
        texts.append(t.encode())
    # image: code, then argument blocks and buffers
    code = []
    data_off = 0x200
    data = bytearray()
    blocks = []
    for t in texts:
        argb = data_off + len(data)
        data += bytes(12)
        buf = data_off + len(data)
        data += t + b"\0" * rnd.randrange(0, 3)
        blocks.append((argb, buf, len(t)))
    for i, (argb, buf, ln) in enumerate(blocks):
        base = elfgen.BASE
        data[argb - data_off: argb - data_off + 12] = bytes(w32(1) + w32(base + buf) + w32(ln))
        code += isa.enc_mov_imm("l", 104, 0) + isa.enc_mov_imm("l", base + argb, 1) + [0x57, 0x00]
        if rnd.random() < 0.5:
            p = rnd.randrange(11)
            v = rnd.randrange(256)
            code += isa.enc_mov_imm("b", v, 14) + isa.enc_mov_mem("b", False, "a24", 0, 14, 0xfee000 + p)   # DDR write -> ioport message
    code += [0x40, 0xfe]
    assert len(code) <= data_off
    image = bytes(code) + bytes(data_off - len(code)) + bytes(data)
    elf = elfgen.simple(image, exit_off=None)
    lines = []
    # patch some buffer bytes through the socket (ASCII only, so the texts stay valid UTF-8)
    for (argb, buf, ln) in blocks:
        for _ in range(rnd.randrange(0, 3)):
            if ln == 0:
                continue
            j = rnd.randrange(ln)
            # only patch single-byte characters
            tb = image[buf + j]
            if tb < 0x80:
                nv = rnd.choice([0x41, 0x5c, 0x0a, 0x6e, 0x20])
                lines.append("u8:%x:%x" % (elfgen.BASE + buf + j, nv))
    for _ in range(rnd.randrange(0, 3)):
        lines.append(rnd.choice(["", "cmd", "cmd:", "cmd:go", "cmd:start:1", "u8:zz:1", "u8:416900", "ioport:1", "ioport:c:100", "hello", "u8:416900:100", ":::"]))
    for _ in range(rnd.randrange(0, 3)):
        lines.append("ioport:%x:%x" % (rnd.randrange(1, 12), rnd.randrange(256)))
    rnd.shuffle(lines)
    return elf, lines


def model_expect(runner, wd, cases):
    cf = os.path.join(wd, "tcp.cases")
    with open(cf, "w") as f:
        for cid, (elf, lines) in enumerate(cases, 1):
            batch0 = "|".join(l.encode().hex() for l in lines + ["cmd:start"])
            # the model's run starts unpaused; processing the lines of batch 0 before the first instruction is what the
            # waiting emulator does.  After 3000 idle iterations the model is stopped.
            script = batch0 + "/" * 3000 + "cmd:stop".encode().hex()
            f.write("id=%x kind=tcp sock=%s elf=%s ops=load:@:,run:%x\n" % (cid, script, elf.hex(), 4000))
    out = cf + ".m"
    r = subprocess.run([runner, cf, out], capture_output=True, text=True)
    if r.returncode != 0:
        raise RuntimeError("model runner failed: " + r.stderr[-500:])
    res = {}
    mres = {}
    for l in open(out):
        t = dict(x.split("=", 1) for x in l[2:].split() if "=" in x)
        if l.startswith("R "):
            res[int(t["id"], 16)] = bytes.fromhex(t.get("wire", ""))
        elif l.startswith("M "):
            mres[int(t["id"], 16)] = t.get("res", "")
    return res, mres


def free_port():
    s = socket.socket()
    s.bind(("127.0.0.1", 0))
    p = s.getsockname()[1]
    s.close()
    return p


def real_run(exe, wd, elf, lines, want_lines, timeout=60.0):
    """returns (list of received raw lines (bytes, without the newline), note)"""
    path = os.path.join(wd, "tcp.elf")
    open(path, "wb").write(elf)
    port = free_port()
    env = dict(os.environ)
    env.pop("KOGE29_VERIF_DRIVER", None)
    proc = subprocess.Popen([exe, "--elf", path, "-s", "-w", "-p", str(port), "--log", "off"], stdout=subprocess.DEVNULL,
                            stderr=subprocess.DEVNULL, env=env)
    note = ""
    got = b""
    try:
        conn = None
        t0 = time.time()
        while time.time() - t0 < 30:
            try:
                conn = socket.create_connection(("127.0.0.1", port), timeout=1.0)
                break
            except OSError:
                if proc.poll() is not None:
                    return None, "emulator exited before accepting (rc=%s)" % proc.returncode
                time.sleep(0.02)
        if conn is None:
            return None, "could not connect"
        conn.settimeout(0.5)
        payload = "".join(l + "\n" for l in lines + ["cmd:start"]).encode()
        # wait for ready first
        t0 = time.time()
        while b"\n" not in got and time.time() - t0 < 30:
            try:
                d = conn.recv(65536)
                if not d:
                    break
                got += d
            except socket.timeout:
                pass
        conn.sendall(payload)
        t0 = time.time()
        def nonsync(buf):
            return [x for x in buf.split(b"\n")[:-1] if not x.startswith(b"sync:")]
        while time.time() - t0 < timeout and len(nonsync(got)) < want_lines:
            try:
                d = conn.recv(65536)
                if not d:
                    note = "connection closed early"
                    break
                got += d
            except socket.timeout:
                pass
        # a short grace period: nothing further may arrive except sync lines
        t1 = time.time()
        while time.time() - t1 < 0.15:
            try:
                d = conn.recv(65536)
                if not d:
                    break
                got += d
            except socket.timeout:
                break
        try:
            conn.sendall(b"cmd:stop\n")
        except OSError:
            pass
        try:
            proc.wait(timeout=5)
        except subprocess.TimeoutExpired:
            note = (note + " emulator did not stop on cmd:stop").strip()
        conn.close()
    finally:
        if proc.poll() is None:
            proc.kill()
            proc.wait()
    return got, note


def run(exe, runner, wd, tier, seed):
    """returns dict(cases, violations=[...], notes=[...])"""
    rnd = random.Random(seed * 977 + 18)
    n = 10 if tier == "quick" else 60
    cases = [scenario(rnd, k) for k in range(n)]
    expect, mres = model_expect(runner, wd, cases)
    out = {"cases": n, "violations": [], "lines": 0, "sync_lines": 0, "escaped_bytes": 0}
    for cid, (elf, lines) in enumerate(cases, 1):
        wire = expect.get(cid, b"")
        want = [b"ready"] + wire.split(b"\n")[:-1]
        # the exchange runs over a real socket against a real process on a possibly busy host: a scenario that does not come out
        # right is repeated (fresh process, fresh port) and only counts when it fails every time - a defect in the framing or in the
        # line handling is deterministic, a scheduling hiccup is not
        for attempt in range(3):
            got, note = real_run(exe, wd, elf, lines, len(want))
            if got is not None and not note:
                raw0 = got.split(b"\n")
                if [x for x in raw0[:-1] if not x.startswith(b"sync:")] == want and raw0[-1] == b"":
                    break
            out["retries"] = out.get("retries", 0) + 1
        if got is None:
            out["violations"].append({"case": cid, "why": note, "lines": lines, "elf": elf.hex()})
            continue
        if not got.endswith(b"\n") and got:
            # an unterminated tail
            pass
        raw = got.split(b"\n")
        tail = raw[-1]
        recv = raw[:-1]
        syncs = [x for x in recv if x.startswith(b"sync:")]
        rest = [x for x in recv if not x.startswith(b"sync:")]
        out["lines"] += len(rest)
        out["sync_lines"] += len(syncs)
        out["escaped_bytes"] += sum(x.count(b"\\") for x in rest)
        ok = (rest == want) and tail == b""
        # sync lines: sync:<multiple-independent total>, strictly increasing
        try:
            vals = [int(x[5:]) for x in syncs]
            ok = ok and vals == sorted(set(vals))
        except ValueError:
            ok = False
        if not ok or note:
            out["violations"].append({"case": cid, "why": note or "received lines differ from Run.escape of the model's messages",
                                      "sent": lines + ["cmd:start"], "want": [w.hex() for w in want], "got": [g.hex() for g in rest],
                                      "tail": tail.hex(), "model_res": mres.get(cid), "elf": elf.hex()})
    return out


if __name__ == "__main__":
    exe, runner, wd = sys.argv[1:4]
    os.makedirs(wd, exist_ok=True)
    r = run(exe, runner, wd, sys.argv[4] if len(sys.argv) > 4 else "quick", 1)
    print(json.dumps({k: v for k, v in r.items() if k != "violations"}))
    for v in r["violations"][:3]:
        print(json.dumps(v)[:2000])
