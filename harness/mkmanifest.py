#!/usr/bin/env python3
"""Writes /verif/MANIFEST.json from the table below (kept in one place so it stays valid)."""
import json, os
VERIF = os.path.dirname(os.path.dirname(os.path.abspath(__file__)))
BASELINE = json.load(open("/root/.vp/BASELINE.json"))["cmd"] if os.path.exists("/root/.vp/BASELINE.json") else "cargo test --workspace --no-fail-fast --offline"

CHECKS = {
 "C19": dict(text="Theorems price_table / linear_in_n / other_areas_irrelevant (Coq, all register bytes, all addresses of the domain, all kinds, counts 1-5) about the model of calc_state_with_addr; model tied to /repo by an exhaustive run of the per-area setting space on the real Cpu::calc_state_with_addr.",
             ref="6 C19", technique="Coq proof (lia over div/mod) + exhaustive correspondence",
             note="trusted: Coq kernel, the price list in Spec/Price.v, extraction, harness glue; on-chip I/O register addresses and areas 3-5 with DRAS>1 are outside the claim"),
}
CHECKS["C09"] = dict(text="Theorems accessible_iff_read/write, inaccessible_fails, beyond_24_bits_fails, read_after_write, history_spec (induction over any history of byte accesses: the bus refines the abstract partial map address->byte), word/long big-endian composition and straddling - all over unbounded Z addresses - about the model of Bus::read/Bus::write and the CPU access helpers; model tied to /repo by classification reads, write-read, sized accesses at every region boundary and random histories on tagged memory with a whole-image diff.",
             ref="6 C09", technique="Coq proof (case analysis of the range chain + lia; induction over histories) + correspondence",
             note="trusted: Coq kernel, the memory map in Spec/MemMap.v, extraction, harness glue; port DDR/DR registers are outside the plain-storage claims (C16)")
_TB = "trusted: Coq kernel (vm_compute in finite sweeps), the reference in coq/Spec (hand transcription of the manuals), extraction, harness glue; the model is tied to /repo by the correspondence run only"
CHECKS["C01"] = dict(text="Theorems (Coq): MOV Rs,Rd instruction-level refinement for B/W/L (value, N/Z/V rule, frame), MOV flag rule for every width, byte/word register-lane read/write = reference lane arithmetic, big-endian memory composition; memory-operand MOV forms are covered at EA level (C08) and by correspondence. Correspondence: every MOV form x register fields x boundary data x CCR x placements over RAM/DRAM/vector area on tagged memory, full-state comparison with the reference semantics.",
  ref="6 C01", technique="Coq proof (register forms instruction-level; lanes, flags, EA as lemmas) + correspondence vs executable reference", note=_TB + "; instruction-level theorems for memory-operand MOV forms are not proved (partial), they rest on the lemmas plus differential testing")
CHECKS["C02"] = dict(text="Theorems (Coq): every ADD/SUB/CMP/ADDX/NEG/INC/DEC/DIVXU kernel of the model (overflowing_add on the signed view, masked partial sums, ...) equals the manual-style reference for all operands of width 8/16/32 and all CCR values; instruction-level refinement of the Rs,Rd and unary register forms (full source field read, only the destination written, CCR frame, one fetch charged). Correspondence: all 8-bit operand pairs (x carry) for byte forms, boundary-directed W/L, all register fields.",
  ref="6 C02", technique="Coq proof (lia after mask/shift-to-arithmetic rewriting; finite sweeps for CCR bit access) + exhaustive/boundary correspondence", note=_TB + "; immediate forms, ADDS/SUBS, MULXU at instruction level rest on kernels + correspondence")
CHECKS["C03"] = dict(text="Theorems (Coq): AND/OR/XOR/NOT/EXTU and the eight one-bit shifts/rotates of the model equal the arithmetic reference for all n-bit operands and CCR values (SHAL: all outputs but V always, V outside the recorded known class; shal_v_refuted gives the witness); instruction-level refinement for the register forms. Correspondence: exhaustive 8-bit operands x carries, boundary W/L.",
  ref="6 C03", technique="Coq proof (bit-idiom lemmas: lor of disjoint = +, single-bit masks) + correspondence", note=_TB + "; known finding: SHAL V flag (pinned by the repository's own unit tests)")
CHECKS["C04"] = dict(text="Theorems (Coq): all 14 bit operations x 256 byte values x 8 bit numbers x 256 CCR values: model kernel = reference (exhaustive sweep lifted to a forall); the reference changes exactly the addressed bit / the named flag; instruction-level refinement for register operands with immediate and register bit numbers (all 256 register values). Correspondence: the same sweep end-to-end on the implementation for Rd, @ERd and @aa:8 operands.",
  ref="6 C04", technique="Coq proof by exhaustive vm_compute sweep (bounds in the statement) + instruction-level lemma + correspondence", note=_TB + "; memory-operand forms at instruction level rest on kernel + EA lemmas + correspondence")
CHECKS["C05"] = dict(text="Theorems (Coq): the 16 x 256 condition table of the model = reference; call_rts_inverse on the reference (push of the return address then RTS restores PC, SP, CCR, all registers and all memory outside the frame, any 32-bit SP). Correspondence: 16 x 256 x {d:8,d:16} exhaustively, all JMP/BSR/JSR/RTS forms with stacks in RAM/DRAM and arbitrary upper byte.",
  ref="6 C05", technique="Coq proof (finite sweep; read-after-write on plain memory) + correspondence", note=_TB + "; refinement of the branch handlers to the reference is by correspondence (partial)")
CHECKS["C06"] = dict(text="Theorem (Coq): entry_rte_inverse on the reference for every CCR, vector content, return address and 32-bit SP with the frame in plain memory: frame = CCR:8|return:24 at SP-4, I set, PC = low 24 bits of the vector, RTE restores PC, CCR, SP, registers, memory outside the frame. Correspondence: TRAPA #1-3 / RTE x all 256 CCR, interrupt entry for vectors 1-63, entry;RTE round trips, vs the reference.",
  ref="6 C06", technique="Coq proof on the reference + correspondence of the implementation against it", note=_TB + "; the UI bit is left open at entry (masked in the comparison)")
CHECKS["C07"] = dict(text="Theorems (Coq): for all 65536 first words the model's dispatch selects the handler family and operand fields the reference operation-code map assigns (or a failing handler for every listed unimplemented instruction: unimplemented_rejected), and likewise for every second word of the prefixes 0100, 0140, 01F0, 78r0, 7Cr0, 7Dr0, 7E/7F; all by exhaustive sweeps. Correspondence: all 65536 first words and the second words of every prefix on the implementation, Ok/Err, length and full state against decode_ref + sem_ref.",
  ref="6 C07", technique="Coq proof by exhaustive vm_compute sweeps over opcode words + correspondence", note=_TB + "; undefined encodings are not claimed; known findings: SHAL V, STC.W @-ERd")
CHECKS["C08"] = dict(text="Theorems (Coq): @ERn, @(d:16,ERn), @(d:24,ERn), @aa:8, @aa:16 helpers of the model = reference arithmetic modulo 2^24 for every 32-bit register value and displacement (wrapping included); upper_byte_irrelevant; post-increment / pre-decrement update the full 32-bit register. Correspondence: every memory-operand instruction with wrap-biased bases on tagged memory.",
  ref="6 C08", technique="Coq proof (lia over mod 2^24 / 2^32) + correspondence", note=_TB + "; known finding: STC.W CCR,@-ERd is executed as a post-increment store")
CHECKS["C20"] = dict(text="Theorems (Coq): every charge term of a handler is count x the C19 reference price at the stated address (fetch cycles at the instruction's address, data/stack/vector cycles at theirs); register ALU forms are charged one fetch independent of operand values. The per-form cycle table (cycles_ref) is compared with the implementation by correspondence: every form under random bus-controller settings.",
  ref="6 C20", technique="Coq proof of the price terms + correspondence of the per-instruction totals against the transcribed cycle table", note=_TB + "; the per-form totals are checked by differential testing, not proved (partial); TRAPA #0 and I/O-register operands excluded")
CHECKS["C16"] = dict(text="Theorems (Coq): port_refines (induction over any history of DDR writes, DR writes and external input changes: the bus's port registers refine the abstract port latch/ddr/pin; reading DR returns latch on output bits and the pin on input bits), ports_independent (all 11 ports), announced_is_current (invariant: last ioport announcement = current output, preserved by events on the same and on other ports). Correspondence: bounded-exhaustive histories over a covering value set on every port, random longer ones on pairs of ports, through Bus::write / Bus::read / Bus::write_port with captured messages; announcements judged by the property's rule (redundant messages allowed).",
  ref="6 C16", technique="Coq proof (invariant + abstraction function, byte-level boolean algebra by bit blasting, induction over histories) + correspondence", note=_TB + "; message time stamps are only checked to be non-decreasing")
CHECKS["C17"] = dict(text="Theorems (Coq): elapse_refines (feeding n states to update_timer8_0 at once = n single-state steps of the tick-by-tick reference: counter, flags, clears, requests, phase), partition_independent (any split of the same elapsed time, by induction over the list of charges, via update (a+b) = update b . update a), no_clock_no_count, count_refines (per-count flags / clear / requests under the side condition), flags_stay_set, clock_select_phase (0 <= p < divisor after every TCR write). Correspondence: all TCR values x start values x partitions of the same totals x interleaved register writes on the real update_modules / Bus::write, TCNT/TCSR and the pending queue compared.",
  ref="6 C17", technique="Coq proof (div/mod identities, induction over elapsed states and over charge lists) + correspondence", note=_TB + "; count claims for CKS 0-3 only; external clock / 16-bit cascade modes are outside the claim")
CHECKS["C10"] = dict(text="Theorems (Coq): instructions_keep_requests (no instruction of the whole implemented set touches the request queue - proved over every handler), accept_only_unmasked / pending_while_masked, fifo_exactly_once (induction over any interleaving of requests, boundaries and instructions: entered ++ pending = requested, in order), interrupt_refines (acceptance of vector v = the reference's exception entry through 4 x v), entry_return_transparent (entry + RTE restores PC, CCR, SP, registers, memory outside the frame). Correspondence: generated programs with handlers and request bursts injected at arbitrary boundaries; final state, memory and pending queue against the reference interrupt system.",
  ref="6 C10", technique="Coq proof (frame lemma over all handlers by a compositional tactic; induction over event interleavings) + correspondence", note=_TB + "; instruction atomicity is a modelling fact (one exec call per instruction in run()); handlers' own effects are part of the compared state")
CHECKS["C14"] = dict(text="Theorems (Coq): mes_refines (the TRAPA #0 emulation of the model = the reference calls: write appends exactly the buffer's bytes once to the console and one stdout message and changes nothing else; set_handler installs H'5A000000+address for vectors 1-63 and ignores others; other numbers fail), write_reads_the_buffer (induction on the length), installed_vector_targets_handler. Correspondence: write calls over RAM/DRAM buffers, lengths 0-4096, UTF-8 with NUL/newline/backslash/multi-byte, console bytes captured from the emulator's stdout and the stdout message from the (scripted) control socket; set_handler for vectors 0-255 followed by a request, boundary and the handler's instructions.",
  ref="6 C14", technique="Coq proof (refinement of the monadic emulation to the reference calls) + correspondence", note=_TB + "; UTF-8 validity of the buffer is a precondition (generator), invalid UTF-8 is outside the claim")
CHECKS["C13"] = dict(text="Theorems (Coq) about the model of run()'s loop body: accounting_and_sync (invariant: state_sum = 2,000,000 x #sync messages + residual, bus sees state_sum; every instruction advances the count by exactly its charge, the timer is fed the same amount, one sync message iff a multiple is passed), sync_once_per_multiple (count = floor(total/2,000,000)), run_stops_at_exit, run_propagates_error, charge_bounded (over all handlers), instructions_leave_time_base. Host-speed independence is partial: no clock appears in the model; the real scheduler / spin_sleep is exercised only by running. Correspondence: generated terminating programs (blocks, counted and nested loops, calls, port writes, console output, failing opcodes; long loops crossing 1-3 sync thresholds) through the real Cpu::run with a scripted socket, against the reference run loop: registers, memory, state count, console and the whole message sequence.",
  ref="6 C13", technique="Coq proof (loop invariant per iteration, frame lemma over all handlers) + correspondence; partial for host-speed independence", note=_TB + "; PARTIAL: independence from host load / pacing sleeps is outside any executable model")
CHECKS["C18"] = dict(text="Theorems (Coq) about the model of the line dispatch and of the send worker's escaping: batching_irrelevant (any partition of the received lines into polling batches = processing the whole sequence), stop_absorbs, unknown_lines_ignored, commands (pause/start/stop), unescape_escape and escape_one_line (induction on the byte list). The reader/writer threads, mpsc ordering and TCP delivery are runtime behaviour outside the model (partial). Correspondence: random sequences of well-formed and malformed lines under three polling schedules through the real run() with the scripted socket: memory, port inputs, announcements, stop/pause behaviour against the model of the fixed dispatch.",
  ref="6 C18", technique="Coq proof (fold over lines, induction on byte lists) + correspondence of the dispatch under polling schedules; partial for threads/TCP", note=_TB + "; PARTIAL: thread scheduling, channel ordering and TCP framing are exercised only through the scripted socket hook")
CHECKS["C15"] = dict(text="Theorems (Coq) over ALL model states: no_panic_step, no_panic_boundary, no_panic_iter (no instruction word sequence, register / memory content, PC, bus-controller setting or batch of control lines takes the panic outcome; proved compositionally over every handler), unmapped_fetch_is_error. PARTIAL: the model carries the release semantics of integer arithmetic; for the overflow-checked build the remaining unchecked sites are argued by enumeration in DESIGN.md and exercised by the correspondence run in that build profile; allocation failure, closed stdout and socket worker threads are outside the model. Correspondence in two build profiles (release; release + overflow-checks + debug-assertions) under catch_unwind: all 65536 first words x adversarial register files / CCR / bus settings from region ends and unmapped PCs, prefix groups, MES calls with adversarial argument blocks, interrupt acceptance on adversarial stacks, control-line fuzz and faulting programs through run(): the outcome class must be the model's (ok / err), never a panic.",
  ref="6 C15", technique="Coq proof (compositional no-panic over all handlers) + two-profile correspondence; partial for checked arithmetic and runtime aborts", note=_TB + "; PARTIAL as stated")
NOT_APPLICABLE = []

def main():
    props = [json.loads(l)["id"] for l in open(os.path.join(VERIF, "properties.jsonl"))]
    checks = []
    for pid in props:
        if pid not in CHECKS:
            continue
        c = CHECKS[pid]
        checks.append({
            "property_id": pid,
            "quick_cmd": "./check %s --tier quick" % pid,
            "thorough_cmd": "./check %s --tier thorough" % pid,
            "evidence_file": "/verif/evidence/%s.json" % pid,
            "replay_cmd_template": "./check %s --replay {path}" % pid,
            "engine": "coq-correspondence",
            "level_claimed": {"category": "proof", "text": c["text"], "design_ref": c["ref"]},
            "level_note": c["note"],
            "technique": c["technique"],
        })
    na = list(NOT_APPLICABLE)
    for pid in props:
        if pid not in CHECKS and not any(x["property_id"] == pid for x in na):
            na.append({"property_id": pid, "reason": "not yet claimed: model and theorems for this property are still being built (see DESIGN.md staging)"})
    m = {
        "version": 1,
        "setup_cmd": "./setup.sh",
        "hooks": {
            "guard": "koge29_verif",
            "enable": "RUSTFLAGS=\"--cfg koge29_verif\" KOGE29_VERIF_DIR=/verif cargo build --release --offline --target-dir /verif/.cache/target-rel   (run with KOGE29_VERIF_DRIVER=1)",
            "baseline_off_cmd": BASELINE,
            "source_commits": os.popen("git -C /repo log --format=%H --grep='^verif hooks'").read().split(),
            "add_only": True,
        },
        "engines": [{"name": "coq-correspondence", "path": "/verif/harness/check.py", "serves_properties": [c["property_id"] for c in checks],
                     "kind_free_text": "Coq 8.16 theorems about a hand-written Gallina model + differential correspondence check (extracted OCaml model and reference vs /repo built with --cfg koge29_verif)"}],
        "checks": checks,
        "not_applicable": na,
        "notes": "All checks: ./check <ID> [--tier quick|thorough] [--replay file]. Known findings: /verif/KNOWN_FINDINGS.txt.",
    }
    json.dump(m, open(os.path.join(VERIF, "MANIFEST.json"), "w"), indent=1)
    try:
        import jsonschema
        jsonschema.validate(m, json.load(open("/root/.vp/MANIFEST.schema.json")))
        print("MANIFEST.json valid,", len(checks), "checks,", len(na), "not_applicable")
    except ImportError:
        print("jsonschema not importable here; written without validation")

if __name__ == "__main__":
    main()
