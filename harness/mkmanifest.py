#!/usr/bin/env python3
"""Writes /verif/MANIFEST.json from the table below (kept in one place so it stays valid)."""
import json, os
VERIF = os.path.dirname(os.path.dirname(os.path.abspath(__file__)))
BASELINE = json.load(open("/root/.vp/BASELINE.json"))["cmd"] if os.path.exists("/root/.vp/BASELINE.json") else "cargo test --workspace --no-fail-fast --offline"

CHECKS = {
 "C19": dict(text="Theorems price_table / linear_in_n / other_areas_irrelevant (Coq, all register bytes, all addresses of the domain, all kinds, counts 1-5) about the model of calc_state_with_addr; model tied to /repo by an exhaustive run of the per-area setting space on the real Cpu::calc_state_with_addr.",
             ref="6 C19", technique="Coq proof (lia over div/mod) + exhaustive correspondence",
             note="trusted: Coq kernel, the price list in Spec/Price.v, extraction, harness glue; on-chip I/O register addresses and areas 3-5 with DRAS>1 are outside the claim"),
}
CHECKS["C09"] = dict(text="Theorems accessible_iff_read/write, inaccessible_fails, beyond_24_bits_fails, read_after_write, history_spec (induction over any history of byte accesses: the bus refines the abstract partial map address->byte), word/long big-endian composition and straddling - all over unbounded Z addresses - about the model of Bus::read/Bus::write and the CPU access helpers; model tied to /repo by classification reads, write-read, sized accesses at every region boundary and random histories on tagged memory with a whole-image diff.",
             ref="6 C09", technique="Coq proof (case analysis of the range chain + lia; induction over histories) + correspondence",
             note="trusted: Coq kernel, the memory map in Spec/MemMap.v, extraction, harness glue; port DDR/DR registers are outside the plain-storage claims (C16)")
NOT_APPLICABLE = []

def main():
    props = [json.loads(l)["id"] for l in open(os.path.join(VERIF, "properties.jsonl"))]
    checks = []
    for pid in props:
        if pid not in CHECKS:
            continue
        c = CHECKS[pid]
        checks.append({
            "property_id": pid,
            "quick_cmd": "./check %s --tier quick" % pid,
            "thorough_cmd": "./check %s --tier thorough" % pid,
            "evidence_file": "/verif/evidence/%s.json" % pid,
            "replay_cmd_template": "./check %s --replay {path}" % pid,
            "engine": "coq-correspondence",
            "level_claimed": {"category": "proof", "text": c["text"], "design_ref": c["ref"]},
            "level_note": c["note"],
            "technique": c["technique"],
        })
    na = list(NOT_APPLICABLE)
    for pid in props:
        if pid not in CHECKS and not any(x["property_id"] == pid for x in na):
            na.append({"property_id": pid, "reason": "not yet claimed: model and theorems for this property are still being built (see DESIGN.md staging)"})
    m = {
        "version": 1,
        "setup_cmd": "./setup.sh",
        "hooks": {
            "guard": "koge29_verif",
            "enable": "RUSTFLAGS=\"--cfg koge29_verif\" KOGE29_VERIF_DIR=/verif cargo build --release --offline --target-dir /verif/.cache/target-rel   (run with KOGE29_VERIF_DRIVER=1)",
            "baseline_off_cmd": BASELINE,
            "source_commits": os.popen("git -C /repo log --format=%H --grep='^verif hooks'").read().split(),
            "add_only": True,
        },
        "engines": [{"name": "coq-correspondence", "path": "/verif/harness/check.py", "serves_properties": [c["property_id"] for c in checks],
                     "kind_free_text": "Coq 8.16 theorems about a hand-written Gallina model + differential correspondence check (extracted OCaml model and reference vs /repo built with --cfg koge29_verif)"}],
        "checks": checks,
        "not_applicable": na,
        "notes": "All checks: ./check <ID> [--tier quick|thorough] [--replay file]. Known findings: /verif/KNOWN_FINDINGS.txt.",
    }
    json.dump(m, open(os.path.join(VERIF, "MANIFEST.json"), "w"), indent=1)
    try:
        import jsonschema
        jsonschema.validate(m, json.load(open("/root/.vp/MANIFEST.schema.json")))
        print("MANIFEST.json valid,", len(checks), "checks,", len(na), "not_applicable")
    except ImportError:
        print("jsonschema not importable here; written without validation")

if __name__ == "__main__":
    main()
