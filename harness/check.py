#!/usr/bin/env python3
"""Orchestrator of the Koge29 H8/3069F verification checks.

  ./check <ID> [--tier quick|thorough] [--replay <file>]

Per check: proof gate (Coq build of Properties/<ID>.v, audits, Print Assumptions),
rebuild /repo's working tree with the verification hooks, correspondence run
(implementation vs extracted model vs reference), evidence, exit code.
"""
import sys, os, subprocess, json, time, hashlib, re, fcntl, importlib, shutil, random
from multiprocessing import Pool

VERIF = os.path.dirname(os.path.dirname(os.path.abspath(__file__)))
REPO = os.environ.get("KOGE29_REPO", "/repo")
CACHE = os.path.join(VERIF, ".cache")
COQ = os.path.join(VERIF, "coq")
NPROC = int(os.environ.get("VERIF_NPROC", "16"))
AXIOM_ALLOW = set()  # no axiom is used; anything printed by Print Assumptions must be listed here

TRUSTED_BASE = [
    "Coq 8.16.1 kernel (coqc), vm_compute used in finite-sweep lemmas; no native_compute",
    "axioms: none (every Print Assumptions = 'Closed under the global context')",
    "reference definitions in coq/Spec (hand transcription of the H8/300H and H8/3069F manuals)",
    "hand-written model coq/Model tied to /repo only by this correspondence run (differential execution)",
    "extraction with ExtrOcamlBasic only (bool, option, unit, list, prod, sumbool, sumor, andb, orb); OCaml 4.13.1",
    "harness glue: harness/driver.rs, harness/runner.ml, harness/*.py; rustc/cargo build of /repo with --cfg koge29_verif",
]


def log(*a):
    print(*a, flush=True)


class Lock:
    def __init__(self, name):
        os.makedirs(CACHE, exist_ok=True)
        self.path = os.path.join(CACHE, name + ".lock")

    def __enter__(self):
        self.f = open(self.path, "w")
        fcntl.flock(self.f, fcntl.LOCK_EX)

    def __exit__(self, *a):
        fcntl.flock(self.f, fcntl.LOCK_UN)
        self.f.close()


def run(cmd, **kw):
    return subprocess.run(cmd, stdout=subprocess.PIPE, stderr=subprocess.STDOUT, text=True, **kw)


# ---------------------------------------------------------------- proof gate
def coq_sources():
    out = []
    for root, _, files in os.walk(COQ):
        for f in files:
            if f.endswith(".v"):
                out.append(os.path.join(root, f))
    return sorted(out)


def audit_sources():
    bad = []
    pat = re.compile(r"\b(Admitted|admit|Axiom|Axioms|Parameter|Parameters|Conjecture|Hypothesis|Variable|"
                     r"bypass_check|Unset Guard|Unset Positivity|Unset Universe|type-in-type|impredicative-set|Admit Obligations)\b")
    for p in coq_sources():
        txt = open(p).read()
        txt = re.sub(r"\(\*.*?\*\)", "", txt, flags=re.S)
        for i, line in enumerate(txt.split("\n")):
            if pat.search(line):
                bad.append("%s:%d: %s" % (os.path.relpath(p, VERIF), i + 1, line.strip()))
    cp = open(os.path.join(COQ, "_CoqProject")).read()
    if "type-in-type" in cp or "impredicative" in cp:
        bad.append("_CoqProject passes a forbidden flag")
    return bad


def proof_gate(pid):
    """Returns dict(ok, obligations, discharged, detail, theorems)."""
    with Lock("coq"):
        t0 = time.time()
        r = run("coq_makefile -f _CoqProject $(find . -name '*.v' | sort) -o Makefile >/dev/null && "
                "rm -f Properties/%s.vo && timeout 3000 make -j%d Properties/%s.vo" % (pid, NPROC, pid),
                shell=True, cwd=COQ)
        out = r.stdout
    src = open(os.path.join(COQ, "Properties", pid + ".v")).read()
    src_nc = re.sub(r"\(\*.*?\*\)", "", src, flags=re.S)
    theorems = re.findall(r"^\s*Theorem\s+(\w+)", src_nc, flags=re.M)
    prints = re.findall(r"^\s*Print Assumptions\s+(\w+)", src_nc, flags=re.M)
    res = {"ok": True, "obligations": len(theorems), "discharged": 0, "detail": [], "theorems": theorems,
           "coq_s": round(time.time() - t0, 1)}
    if r.returncode != 0:
        res["ok"] = False
        res["detail"].append("coq build failed: " + out[-1500:])
        return res
    missing = [t for t in theorems if t not in prints]
    if missing:
        res["ok"] = False
        res["detail"].append("theorems without Print Assumptions: %s" % missing)
    closed = out.count("Closed under the global context")
    axioms = re.findall(r"^Axioms:\n((?:.+\n)+)", out, flags=re.M)
    bad_ax = []
    for blk in axioms:
        for l in blk.split("\n"):
            m = re.match(r"^(\S+)\s*:", l)
            if m and m.group(1) not in AXIOM_ALLOW:
                bad_ax.append(m.group(1))
    if bad_ax:
        res["ok"] = False
        res["detail"].append("axioms not allow-listed: %s" % sorted(set(bad_ax)))
    res["discharged"] = closed + len(axioms) - (1 if bad_ax else 0) * len(axioms)
    if res["discharged"] < len(theorems):
        res["ok"] = False
        res["detail"].append("only %d of %d theorems reported closed" % (res["discharged"], len(theorems)))
    res["discharged"] = min(res["discharged"], len(theorems))
    bad = audit_sources()
    if bad:
        res["ok"] = False
        res["detail"].append("audit: " + "; ".join(bad[:10]))
    return res


# ---------------------------------------------------------------- builds
def build_runner():
    """Extract (done by the Coq build of Extract.vo) and compile model_runner when stale."""
    with Lock("coq"):
        r = run("coq_makefile -f _CoqProject $(find . -name '*.v' | sort) -o Makefile >/dev/null && "
                "timeout 3000 make -j%d Extract.vo" % NPROC, shell=True, cwd=COQ)
        if r.returncode != 0:
            return False, "extraction build failed: " + r.stdout[-1500:]
        rd = os.path.join(CACHE, "runner")
        os.makedirs(rd, exist_ok=True)
        h = hashlib.sha256()
        for f in [os.path.join(COQ, "model.ml"), os.path.join(COQ, "model.mli"), os.path.join(VERIF, "harness", "runner.ml")]:
            h.update(open(f, "rb").read())
        stamp = os.path.join(rd, "stamp")
        if os.path.exists(stamp) and open(stamp).read() == h.hexdigest() and os.path.exists(os.path.join(rd, "model_runner")):
            return True, "cached"
        for f in ["model.ml", "model.mli"]:
            shutil.copy(os.path.join(COQ, f), rd)
        shutil.copy(os.path.join(VERIF, "harness", "runner.ml"), rd)
        r = run("ocamlfind ocamlopt -O3 -w -a model.mli model.ml runner.ml -o model_runner", shell=True, cwd=rd)
        if r.returncode != 0:
            return False, "runner compile failed: " + r.stdout[-1500:]
        open(stamp, "w").write(h.hexdigest())
        return True, "built"


def build_repo(profile="rel"):
    """cargo build of /repo's working tree with the hook guard on. profile: rel | chk"""
    flags = "--cfg koge29_verif"
    if profile == "chk":
        flags += " -C overflow-checks=on -C debug-assertions=on"
    env = dict(os.environ, RUSTFLAGS=flags, KOGE29_VERIF_DIR=VERIF, CARGO_NET_OFFLINE="true")
    tdir = os.path.join(CACHE, "target-" + profile + os.environ.get("VERIF_TARGET_SUFFIX", ""))
    with Lock("cargo-" + profile + os.environ.get("VERIF_TARGET_SUFFIX", "")):
        r = run(["cargo", "build", "--release", "--offline", "--target-dir", tdir], cwd=REPO, env=env)
    exe = os.path.join(tdir, "release", "koge29_h8-3069f_emulator")
    if r.returncode != 0 or not os.path.exists(exe):
        return None, r.stdout[-3000:]
    return exe, ""


# ---------------------------------------------------------------- running shards
def parse_tokens(line):
    d = {}
    for t in line.split():
        if "=" in t:
            k, v = t.split("=", 1)
            d[k] = v
    return d


def run_shard(args):
    """Runs one case file on the model and on the implementation; returns paths.  The model runs first: a program that does
    not come to an end within the model's step budget (marked fuel=1) is not handed to the implementation, whose run() has none."""
    exe, casefile, timeout = args
    iout = casefile + ".impl"
    mout = casefile + ".model"
    cons = casefile + ".console"
    status = {"impl_rc": None, "model_rc": None}
    for limit in (timeout, 3 * timeout):
        try:
            p = subprocess.run("ulimit -s unlimited 2>/dev/null; exec %s %s %s" % (
                os.path.join(CACHE, "runner", "model_runner"), casefile, mout),
                shell=True, stdout=subprocess.PIPE, stderr=subprocess.STDOUT, text=True, timeout=limit)
            status["model_rc"] = p.returncode
            status["model_out"] = p.stdout[-500:]
            break
        except subprocess.TimeoutExpired:
            status["model_rc"] = "timeout"
    impl_in = casefile
    if status["model_rc"] == 0:
        endless = set()
        for l in open(mout):
            if l.startswith("M ") and l.rstrip().endswith(" fuel=1"):
                endless.add(l.split(" ", 2)[1])          # "id=<id>"
        if endless:
            impl_in = casefile + ".impl_in"
            with open(impl_in, "w") as f:
                for l in open(casefile):
                    if l.split(" ", 1)[0] not in endless:
                        f.write(l)
            status["endless"] = len(endless)
    # a shard that does not finish in time is run once more with three times the limit before it counts: on a busy host a slow
    # shard is not a hanging implementation.  A single case that does not finish within the driver's per-case limit stops the
    # driver (exit code 97, the case named in <out>.hang): it is recorded and the shard carries on behind it.
    hangs = []
    part = 0
    cur_in = impl_in
    open(iout, "w").close()
    open(cons, "wb").close()
    while True:
        part += 1
        pout, pcons = "%s.part%d" % (iout, part), "%s.part%d" % (cons, part)
        env = dict(os.environ, KOGE29_VERIF_DRIVER="1", KOGE29_VERIF_IN=cur_in, KOGE29_VERIF_OUT=pout)
        for attempt, limit in enumerate((timeout, 3 * timeout)):
            try:
                with open(pcons, "wb") as cf:
                    p = subprocess.run([exe], env=env, stdout=cf, stderr=subprocess.DEVNULL, timeout=limit)
                status["impl_rc"] = p.returncode
                break
            except subprocess.TimeoutExpired:
                status["impl_rc"] = "timeout"
                status["impl_timeouts"] = attempt + 1
        if os.path.exists(pout):
            with open(iout, "a") as f:
                f.write(open(pout).read())
            os.remove(pout)
        if os.path.exists(pcons):
            with open(cons, "ab") as f:
                f.write(open(pcons, "rb").read())
            os.remove(pcons)
        hang_file = pout + ".hang"
        if status["impl_rc"] == 97 and os.path.exists(hang_file) and len(hangs) < 3:
            hid = open(hang_file).read().strip()
            os.remove(hang_file)
            hangs.append(hid)
            lines = open(cur_in).read().split("\n")
            k = next((n for n, l in enumerate(lines) if l.split(" ", 1)[0] == hid), None)
            if k is None:
                break
            cur_in = "%s.rest%d" % (casefile, part)
            with open(cur_in, "w") as f:
                f.write("\n".join(lines[k + 1:]))
            status["impl_rc"] = 0
            continue
        break
    status["hangs"] = hangs
    return casefile, iout, mout, cons, status


def project_equal(impl, ref):
    """impl, ref: token dicts. Every key present in ref constrains impl. Returns list of differing keys."""
    bad = []
    ign = set(ref.get("ignmd", "").split(",")) if ref.get("ignmd") else set()
    for k, v in ref.items():
        if k in ("id", "ignmd", "ccrmask", "imglim"):
            continue
        iv = impl.get(k, "")
        if k == "md":
            f = lambda s: sorted(x for x in s.split(";") if x and x.split(":")[0] not in ign)
            if f(iv) != f(v):
                bad.append(k)
        elif k == "mdimg":
            # the memory image below the end of the loaded program plus everything outside DRAM (C11)
            lim = int(ref.get("imglim", "0"), 16)
            inimg = lambda x: (lambda a: a < lim or not (0x400000 <= a <= 0x5fffff))(int(x.split(":")[0], 16))
            g = lambda s: sorted(x for x in s.split(";") if x and inimg(x))
            if g(impl.get("md", "")) != g(v):
                bad.append(k)
        elif k == "ccr" and "ccrmask" in ref:
            m = int(ref["ccrmask"], 16)
            if (int(iv or "0", 16) & m) != (int(v, 16) & m):
                bad.append(k)
        elif k == "er":
            a, b = iv.split(","), v.split(",")
            if len(a) != len(b) or any(y != "*" and x != y for x, y in zip(a, b)):
                bad.append(k)
        elif k == "outs":
            # announcement rule (C16): per port, the announced values with consecutive repeats removed must be the
            # trajectory of the driven output with consecutive repeats removed (the initial value may go unannounced);
            # announcements for untouched ports are not allowed; time stamps must not decrease
            ann, stamps, okfmt = {}, [], True
            for hm in [x for x in impl.get("msgs", "").split("|") if x]:
                try:
                    txt = bytes.fromhex(hm).decode()
                except Exception:
                    okfmt = False; continue
                f = txt.split(":")
                if f[0] != "ioport":
                    continue
                if len(f) != 4:
                    okfmt = False; continue
                try:
                    ann.setdefault(int(f[1], 16), []).append(int(f[2], 16)); stamps.append(int(f[3]))
                except ValueError:
                    okfmt = False
            def dedup(l):
                o = []
                for x in l:
                    if not o or o[-1] != x:
                        o.append(x)
                return o
            want = {}
            for item in [x for x in v.split(";") if x]:
                pk, tr = item.split(":")
                want[int(pk, 16)] = dedup([int(x, 16) for x in tr.split(".")])
            good = okfmt and stamps == sorted(stamps) and all(pk in want for pk in ann)
            for pk, tr in want.items():
                a = dedup(ann.get(pk, []))
                if not (a == tr or a == tr[1:]):
                    good = False
            if not good:
                bad.append(k)
        elif k == "st":
            if impl.get("res", "") != v:
                bad.append(k)
        elif k == "resclass":
            cls = ",".join(x.split(":")[0] for x in impl.get("res", "").split(","))
            if cls != v:
                bad.append(k)
        else:
            if iv != v:
                bad.append(k)
    return bad


class Outcome:
    def __init__(self):
        self.evaluations = 0
        self.in_domain = 0
        self.distinct = set()
        self.violations = []      # (case line, impl, model, ref, keys)
        self.internal = []        # model != ref in domain
        self.fidelity_notes = 0   # impl != model outside the domain
        self.fidelity_samples = []
        self.known = {}           # class -> count reproduced
        self.known_gone = {}      # class -> count where impl now agrees with the reference
        self.samples = []
        self.dist = {}
        self.broken = []          # shards that could not be run
        self.endless = 0          # programs that do not end within the model's step budget (not run on the implementation)
        self.drift = []           # C15-style: outcome class differs from the model although nothing panicked (correspondence broken, no failing input)


def compare_shard(pid, casefile, iout, mout, status, oc, nontrivial_key=None, keys=None, ref_from_model=False):
    cases = [l.strip() for l in open(casefile) if l.strip() and not l.startswith("#")]
    if status["model_rc"] != 0:
        oc.internal.append(("model runner failed", casefile, str(status)))
        return
    mlines = open(mout).read().split("\n")
    M, R, D = {}, {}, {}
    for l in mlines:
        if l.startswith("M "):
            t = parse_tokens(l[2:]); M[t["id"]] = t
        elif l.startswith("R "):
            t = parse_tokens(l[2:]); R[t["id"]] = t
        elif l.startswith("D "):
            t = parse_tokens(l[2:]); D[t["id"]] = t
    I = {}
    if os.path.exists(iout):
        for l in open(iout):
            if not l.endswith("\n"):
                continue          # the driver was stopped in the middle of this line: not an observation
            t = parse_tokens(l)
            if "id" in t:
                I[t["id"]] = t
    cons = casefile + ".console"
    if os.path.exists(cons):
        data = open(cons, "rb").read()
        parts = data.split(b"\n@@case ")
        for part in parts[1:]:
            nl = part.find(b"\n")
            cid = part[:nl].decode(errors="replace")
            if cid in I:
                I[cid]["con"] = I[cid].get("con", "") + part[nl + 1:].hex()
    for t in I.values():
        t.setdefault("con", "")
    if status["impl_rc"] != 0 and len(I) < len(cases) - status.get("endless", 0):
        oc.broken.append((casefile, "implementation driver rc=%s produced %d of %d observations" % (status["impl_rc"], len(I), len(cases))))
    for line in cases:
        t = parse_tokens(line)
        cid = t["id"]
        oc.evaluations += 1
        d = D.get(cid, {})
        m = M.get(cid)
        r = R.get(cid, {})
        if keys is not None:
            r = {k: v for k, v in r.items() if k in keys or k in ("id", "ignmd", "ccrmask", "imglim")}
        i = I.get(cid)
        if m is None:
            oc.internal.append(("no model observation", line, ""))
            continue
        if m.get("fuel") == "1":
            oc.endless += 1        # did not end within the model's step budget: not run on the implementation, no claim
            continue
        if ("id=" + cid) in status.get("hangs", []):
            # the implementation did not finish this case (the model did): a hang is a failure on this input
            oc.violations.append((line, None, m, r, ["implementation did not finish the case within the per-case limit"]))
            continue
        indom = d.get(pid) == "1"
        kclass = d.get("known_" + pid)
        if ref_from_model:
            # the property quantifies over every input: the outcome class (ok / err, never panic) must be the model's
            indom, kclass = True, None
            r = {"id": cid, "resclass": ",".join(x.split(":")[0] for x in m.get("res", "").split(","))}
        if indom:
            oc.in_domain += 1
            sig = nontrivial_key(t, m) if nontrivial_key else (m.get("res", ""), m.get("ccr", ""), m.get("md", ""))
            oc.distinct.add(hash(sig))
        if i is None:
            if indom:
                oc.violations.append((line, None, m, r, ["no-observation"]))
            continue
        if len(oc.samples) < 3 and indom:
            oc.samples.append({"case": line, "impl": {k: i[k] for k in r if k in i}, "reference": {k: v for k, v in r.items() if k != "id"}})
        if indom and not r.get("resclass") and not r.get("res") and not r.get("st"):
            continue      # the reference makes no claim on this case
        if indom and not kclass:
            mb = project_equal(m, r)
            if mb:
                oc.internal.append(("model != reference in domain", line, "keys=%s model=%s ref=%s" % (mb, m, r)))
                continue
            ib = project_equal(i, r)
            if ib:
                if ref_from_model and "panic" not in i.get("res", ""):
                    # nothing panicked: the property (no panic) is not violated by this input, but the implementation no longer
                    # behaves like the model the theorems are about
                    oc.drift.append((line, i, m))
                else:
                    oc.violations.append((line, i, m, r, ib))
        elif indom and kclass:
            ib = project_equal(i, r)
            if not ib:
                oc.known_gone[kclass] = oc.known_gone.get(kclass, 0) + 1
            else:
                # must fail exactly as recorded: the implementation agrees with the model that mirrors the defect
                keys = [k for k in r if k not in ("id", "ignmd", "ccrmask")]
                mm = {k: m.get(k, "") for k in keys}
                if "resclass" in mm:
                    mm["resclass"] = ",".join(x.split(":")[0] for x in m.get("res", "").split(","))
                if "st" in mm:
                    mm["st"] = m.get("res", "")
                if "err" in m.get("res", "") or "panic" in m.get("res", ""):
                    # the recorded failure is an error outcome: only the outcome class is meaningful
                    mm = {"resclass": ",".join(x.split(":")[0] for x in m.get("res", "").split(","))}
                for k in ("ignmd", "ccrmask"):
                    if k in r:
                        mm[k] = r[k]
                if project_equal(i, mm):
                    oc.violations.append((line, i, m, r, ib))
                else:
                    oc.known[kclass] = oc.known.get(kclass, 0) + 1
        else:
            if "err" in m.get("res", "") or "panic" in m.get("res", ""):
                fb = [k for k in ("res",) if i.get(k, "") != m[k]]
            else:
                fb = [k for k in m if k != "id" and i.get(k, "") != m[k]]
            if fb:
                oc.fidelity_notes += 1
                if len(oc.fidelity_samples) < 5:
                    oc.fidelity_samples.append({"case": line, "keys": fb})


# ---------------------------------------------------------------- known findings
def load_known():
    known, fixed = {}, []
    p = os.path.join(VERIF, "KNOWN_FINDINGS.txt")
    if os.path.exists(p):
        for l in open(p):
            l = l.strip()
            if l.startswith("known:"):
                m = re.match(r"known:\s+property=(\S+)\s+class=(\S+)\s+witness=(\S+)\s+(.*)", l)
                if m:
                    known.setdefault(m.group(1), {})[m.group(2)] = (m.group(3), m.group(4))
            elif l.startswith("fixed:"):
                fixed.append(l)
    return known, fixed


# ---------------------------------------------------------------- main check
def write_evidence(pid, ev):
    edir = os.environ.get("VERIF_EVIDENCE_DIR", os.path.join(VERIF, "evidence"))
    os.makedirs(edir, exist_ok=True)
    p = os.path.join(edir, pid + ".json")
    json.dump(ev, open(p, "w"), indent=1)
    try:
        import jsonschema
        jsonschema.validate(ev, json.load(open("/root/.vp/EVIDENCE.schema.json")))
    except ImportError:
        pass


def write_replay(pid, payload):
    rdir = os.environ.get("VERIF_REPLAY_DIR", os.path.join(VERIF, "replays"))
    os.makedirs(rdir, exist_ok=True)
    h = hashlib.sha1(json.dumps(payload, sort_keys=True).encode()).hexdigest()[:12]
    p = os.path.join(rdir, "%s-%s.json" % (pid, h))
    json.dump(payload, open(p, "w"), indent=1)
    return p


def check(pid, tier, seed, replay=None):
    t0 = time.time()
    gen = importlib.import_module("gens." + pid.lower())
    profiles = getattr(gen, "PROFILES", ["rel"])
    violations = 0
    lines_out = []

    # 1. proof gate
    pg = proof_gate(pid)
    log("[%s] proof gate: %s (%d/%d theorems closed, %.1fs)" % (pid, "ok" if pg["ok"] else "FAILED", pg["discharged"], pg["obligations"], pg["coq_s"]))
    for d in pg["detail"]:
        log("   " + d)

    # 1a. thorough tier: the independent checker re-checks the property file and everything it depends on (started now, collected
    #     at the end; it runs beside the correspondence)
    chk = None
    if tier == "thorough" and pg["ok"] and not replay and os.environ.get("VERIF_COQCHK", "1") != "0":
        chk_log = os.path.join(CACHE, "coqchk-%s-%d.log" % (pid, os.getpid()))
        chk = (subprocess.Popen("exec coqchk -o -silent -Q . K K.Properties.%s > %s 2>&1" % (pid, chk_log), shell=True, cwd=COQ),
               chk_log, time.time())

    # 2. builds
    ok, msg = build_runner()
    if not ok:
        log("[%s] internal: %s" % (pid, msg))
        return 2
    exes = {}
    corr_broken = []
    for prof in profiles:
        exe, err = build_repo(prof)
        if exe is None:
            # /repo does not compile with the hooks: the correspondence cannot be established
            base = run(["cargo", "build", "--release", "--offline", "--target-dir", os.path.join(CACHE, "target-plain")], cwd=REPO,
                       env=dict(os.environ, CARGO_NET_OFFLINE="true"))
            if base.returncode != 0:
                log("[%s] /repo does not compile at all:\n%s" % (pid, base.stdout[-2000:]))
                return 2
            corr_broken.append("build with hooks (%s) failed: %s" % (prof, err[-800:]))
        else:
            exes[prof] = exe

    # 3. correspondence
    oc = Outcome()
    wd = os.path.join(CACHE, "cases", "%s-%d" % (pid, os.getpid()))
    shutil.rmtree(wd, ignore_errors=True)
    os.makedirs(wd)
    gen_info = {}
    if exes:
        if replay:
            rp = json.load(open(replay))
            shards = [("replay", [rp["case"]], rp.get("profile", "rel"))]
        else:
            shards = []
            # corpus first: witnesses of the recorded known findings and minimised earlier failures
            corpus = []
            known0, _ = load_known()
            for cls, (wit, _what) in known0.get(pid, {}).items():
                wp = os.path.join(VERIF, wit)
                if os.path.exists(wp):
                    try:
                        corpus.append(json.load(open(wp))["case"])
                    except Exception:
                        pass
            cdir = os.path.join(VERIF, "corpus", pid)
            if os.path.isdir(cdir):
                for f in sorted(os.listdir(cdir)):
                    corpus += [l.strip() for l in open(os.path.join(cdir, f)) if l.strip() and not l.startswith("#")]
            if corpus:
                corpus = ["id=c%x %s" % (k, l.split(" ", 1)[1]) for k, l in enumerate(corpus)]
                shards.append(("corpus", corpus, "rel"))
            for name, lines, prof in gen.generate(tier, seed, gen_info):
                shards.append((name, lines, prof))
        jobs = []
        for name, lines, prof in shards:
            if prof not in exes:
                continue
            cf = os.path.join(wd, name + ".cases")
            with open(cf, "w") as f:
                for l in lines:
                    f.write(l + "\n")
            jobs.append((exes[prof], cf, getattr(gen, "SHARD_TIMEOUT", 1800)))
        with Pool(min(NPROC, max(1, len(jobs)))) as pool:
            for casefile, iout, mout, cons, status in pool.imap_unordered(run_shard, jobs):
                compare_shard(pid, casefile, iout, mout, status, oc, getattr(gen, "nontrivial_key", None), getattr(gen, "KEYS", None), getattr(gen, "REF_FROM_MODEL", False))
                if replay:
                    for suffix, tagname in ((".impl", "implementation"), (".model", "model/reference")):
                        if os.path.exists(casefile + suffix):
                            log("--- %s\n%s" % (tagname, open(casefile + suffix).read().strip()))
    if hasattr(gen, "extra_checks") and exes and not replay:
        gen.extra_checks(tier, seed, exes, oc, gen_info, log)

    # 3a. collect the independent checker
    chk_res = None
    if chk:
        proc, chk_log, ct0 = chk
        budget = float(os.environ.get("VERIF_COQCHK_TIMEOUT", "10800"))
        try:
            crc = proc.wait(timeout=max(1.0, budget - (time.time() - ct0)))
            out = open(chk_log).read()
            m = re.search(r"\* Axioms:(.*?)\n\s*\n\* Constants", out, flags=re.S)
            ax = " ".join(m.group(1).split()) if m else "?"
            chk_res = {"rc": crc, "axioms": ax, "seconds": round(time.time() - ct0, 1),
                       "cmd": "cd /verif/coq && coqchk -o -silent -Q . K K.Properties.%s" % pid}
            if crc != 0 or ax != "<none>":
                pg["ok"] = False
                pg["detail"].append("coqchk: rc=%s axioms=%s %s" % (crc, ax, out[-600:] if crc != 0 else ""))
            log("[%s] coqchk: rc=%s, axioms: %s (%.0fs)" % (pid, crc, ax, time.time() - ct0))
        except subprocess.TimeoutExpired:
            proc.kill()
            chk_res = {"rc": "not finished within %ds (the finite sweeps are re-evaluated by the checker's slower reduction)" % budget,
                       "axioms": "?", "seconds": round(time.time() - ct0, 1)}
            log("[%s] coqchk: not finished within %ds - recorded, not counted against the proof" % (pid, budget))
        try:
            os.remove(chk_log)
        except OSError:
            pass

    # 4. decide
    known, fixed = load_known()
    kn = known.get(pid, {})
    rc = 0
    if oc.internal:
        for what, line, extra in oc.internal[:5]:
            log("[%s] INTERNAL ERROR (%s): %s %s" % (pid, what, line, extra))
        rc = 2
    for line, i, m, r, keys in oc.violations[:1]:
        path = write_replay(pid, {"property": pid, "case": line, "differs_on": keys, "implementation": i, "model": m, "reference": r,
                                  "explanation": "implementation differs from the reference on an input inside the property's domain"})
        lines_out.append("VIOLATION property=%s replay=%s" % (pid, path))
    violations = len(oc.violations)
    if not oc.violations:
        why = []
        if not pg["ok"]:
            why.append({"theorem_gate": pg["detail"], "theorems": pg["theorems"]})
        if corr_broken:
            why.append({"correspondence": "corr_%s" % pid, "detail": corr_broken})
        if oc.broken:
            why.append({"correspondence": "corr_%s" % pid, "detail": [b[1] for b in oc.broken[:3]]})
        if oc.drift:
            why.append({"correspondence": "corr_%s" % pid,
                        "detail": "%d cases end in a different outcome class (ok / err) than the model of the proved development, none of them in a panic" % len(oc.drift),
                        "examples": [{"case": d[0], "implementation": d[1].get("res"), "model": d[2].get("res")} for d in oc.drift[:3]]})
        if why:
            path = write_replay(pid, {"property": pid, "no_failing_input_found": True, "broken": why,
                                      "explanation": "a proof obligation or the correspondence no longer checks; the search over %d cases found no failing input" % oc.evaluations})
            lines_out.append("VIOLATION property=%s replay=%s no-failing-input-found" % (pid, path))
            violations += 1
    for cls, cnt in sorted(oc.known.items()):
        if cls in kn:
            log("KNOWN-FINDING: property=%s %s (class %s, reproduced on %d cases this run)" % (pid, kn[cls][1], cls, cnt))
        else:
            lines_out.append("VIOLATION property=%s replay=%s" % (pid, write_replay(pid, {"property": pid, "class": cls, "explanation": "failing class not listed in KNOWN_FINDINGS.txt"})))
            violations += 1
    for cls, cnt in sorted(oc.known_gone.items()):
        if cls not in oc.known:
            log("[%s] note: known class %s no longer reproduces (%d cases agree with the reference)" % (pid, cls, cnt))

    # 5. evidence
    ev = {
        "property_id": pid, "tier": tier, "seed": seed, "level": "proof",
        "coverage": {
            "obligations": max(1, pg["obligations"]), "discharged": pg["discharged"],
            "checker_cmd": "cd /verif/coq && make Properties/%s.vo  (coqc 8.16.1; Print Assumptions under every theorem; source audit for Admitted/Axiom/...)" % pid,
            "trusted_base": TRUSTED_BASE,
            "theorems": pg["theorems"],
            "independent_checker": chk_res if chk_res else "coqchk runs in the thorough tier only",
            "evaluations": oc.evaluations,
            "distinct_nontrivial": len(oc.distinct),
            "rule": getattr(gen, "RULE", "in-domain cases with distinct (result, flags, memory diff) signature"),
            "in_domain": oc.in_domain,
            "traces_validated_against_impl": oc.in_domain,
            "model_fidelity_notes_outside_domain": oc.fidelity_notes,
            "fidelity_samples": oc.fidelity_samples,
            "known_findings_reproduced": oc.known,
            "programs_without_end_skipped": oc.endless,
            "samples": oc.samples or [{"note": "no in-domain sample"}],
            "exhaustive": bool(gen_info.get("exhaustive", False)),
            "generator": gen_info,
        },
        "assumptions": getattr(gen, "ASSUMPTIONS", []),
        "wall_s": round(time.time() - t0, 1),
        "violations": violations,
    }
    write_evidence(pid, ev)
    shutil.rmtree(wd, ignore_errors=True)
    for l in lines_out:
        log(l)
    log("[%s] %s tier: %d cases (%d in domain, %d distinct), %d violations, %d fidelity notes, %.1fs" % (
        pid, tier, oc.evaluations, oc.in_domain, len(oc.distinct), violations, oc.fidelity_notes, time.time() - t0))
    if rc == 2:
        return 2
    return 1 if violations else 0


def main():
    a = sys.argv[1:]
    if not a:
        print(__doc__)
        return 2
    pid = a[0]
    tier = os.environ.get("VERIF_TIER", "quick")
    replay = None
    i = 1
    while i < len(a):
        if a[i] == "--tier":
            tier = a[i + 1]; i += 2
        elif a[i] == "--replay":
            replay = a[i + 1]; i += 2
        else:
            i += 1
    seed = int(os.environ.get("VERIF_SEED", "1"))
    sys.path.insert(0, os.path.join(VERIF, "harness"))
    return check(pid, tier, seed, replay)


if __name__ == "__main__":
    sys.exit(main())
