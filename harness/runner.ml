(* model_runner: executes the extracted Coq model / reference on case files.
   Glue only: parsing, printing, conversion int <-> Coq Z.  Every semantic decision
   is made by code extracted from /verif/coq (module Model). *)
open Model

let rec pos_of_int (n : int) : positive =
  if n = 1 then XH else if n land 1 = 0 then XO (pos_of_int (n lsr 1)) else XI (pos_of_int (n lsr 1))
let z_of_int (n : int) : z = if n = 0 then Z0 else if n > 0 then Zpos (pos_of_int n) else Zneg (pos_of_int (-n))
let rec int_of_pos (p : positive) : int =
  match p with XH -> 1 | XO q -> 2 * int_of_pos q | XI q -> 2 * int_of_pos q + 1
let int_of_z (x : z) : int = match x with Z0 -> 0 | Zpos p -> int_of_pos p | Zneg p -> - (int_of_pos p)

let hx s = try int_of_string ("0x" ^ s) with _ -> failwith ("bad hex [" ^ s ^ "]")
let zx s = z_of_int (hx s)
let split c s = String.split_on_char c s
let nonempty l = List.filter (fun x -> x <> "") l
let unhex s = List.init (String.length s / 2) (fun i -> int_of_string ("0x" ^ String.sub s (2 * i) 2))
let tohex_bytes l = String.concat "" (List.map (fun b -> Printf.sprintf "%02x" b) l)
let hex_of_string s = tohex_bytes (List.init (String.length s) (fun i -> Char.code s.[i]))

let split_kv t =
  match String.index_opt t '=' with
  | Some i -> (String.sub t 0 i, String.sub t (i + 1) (String.length t - i - 1))
  | None -> failwith ("bad token [" ^ t ^ "]")

(* ---- message formatting (the wire text of each structured message) ---- *)
let fmt_msg (m : msg) : string =
  match m with
  | MsgIoPort (p, v, st) -> Printf.sprintf "ioport:%x:%x:%d" (int_of_z p) (int_of_z v) (int_of_z st)
  | MsgSync t -> Printf.sprintf "sync:%d" (int_of_z t)
  | MsgStdout bs ->
    let b = Buffer.create 16 in
    Buffer.add_string b "stdout:";
    List.iter (fun c -> Buffer.add_char b (Char.chr (int_of_z c))) bs;
    Buffer.contents b
  | MsgReady -> "ready"

let fmt_res (r : res) : string =
  match r with
  | ROk -> "ok"
  | ROkV v -> Printf.sprintf "ok:%x" (int_of_z v)
  | RErr -> "err"
  | RPanic -> "panic"

let script_of (v : string) : z list list list =
  List.map (fun b -> List.map (fun l -> List.map z_of_int (unhex l)) (nonempty (split '|' b))) (split '/' v)

let cur_script : z list list list ref = ref []
let cur_elf : z list ref = ref []

let parse_op (s : string) : op =
  match split ':' s with
  | [ "run"; fuel ] -> ORun (zx fuel, !cur_script)
  | [ "load"; _; args ] -> OLoad (!cur_elf, List.map z_of_int (unhex args))
  | [ "load"; _ ] -> OLoad (!cur_elf, [])
  | [ "price"; k; n; a ] -> OPrice (zx k, zx n, zx a)
  | [ "pricepc"; k; n ] -> OPricePc (zx k, zx n)
  | [ "w8"; a; v ] -> OW8 (zx a, zx v)
  | [ "r8"; a ] -> OR8 (zx a)
  | [ "port"; p; v ] -> OPort (zx p, zx v)
  | [ "step" ] -> OStep
  | [ "stepn"; n ] -> OStepN (zx n)
  | [ "irq"; v ] -> OIrq (zx v)
  | [ "bnd" ] -> OBnd
  | [ "int"; v ] -> OInt (zx v)
  | [ "tick"; n ] -> OTick (zx n)
  | [ "ss"; v ] -> OSum (zx v)
  | [ "w16"; a; v ] -> OWr (z_of_int 2, zx a, zx v)
  | [ "w32"; a; v ] -> OWr (z_of_int 4, zx a, zx v)
  | [ "r16"; a ] -> ORd (z_of_int 2, zx a)
  | [ "r32"; a ] -> ORd (z_of_int 4, zx a)
  | [ "wa"; mode; sz; a; v ] -> OWrA (zx mode, zx sz, zx a, zx v)
  | [ "ra"; mode; sz; a ] -> ORdA (zx mode, zx sz, zx a)
  | _ -> failwith ("unknown op [" ^ s ^ "]")

type case = {
  id : string; kind : string; s0 : cpu; ops : op list; opstrs : string list; pokefail : bool;
}

let parse_case (line : string) : case =
  let toks = nonempty (split ' ' line) in
  let kvs = List.map split_kv toks in
  let find k = List.assoc_opt k kvs in
  let tag = match find "tag" with Some v -> Some (zx v) | None -> None in
  cur_script := (match find "sock" with Some v -> script_of v | None -> []);
  cur_elf := (match find "elf" with Some v -> List.map z_of_int (unhex v) | None -> []);
  let ovf = (find "ovf" = Some "1") in
  let sock = (find "sock" <> None) in
  let s = ref (init_cpu tag ovf sock) in
  let pokefail = ref false in
  let id = ref "" and kind = ref "" and ops = ref [] and opstrs = ref [] in
  List.iter (fun (k, v) ->
      match k with
      | "id" -> id := v
      | "kind" -> kind := v
      | "tag" | "ovf" -> ()
      | "pc" -> s := set_pc (zx v) !s
      | "ccr" -> s := set_ccr (zx v) !s
      | "opc" -> s := set_opc (zx v) !s
      | "sum" -> s := set_ssum (zx v) !s
      | "er" ->
        let r = ref (!s).er in
        List.iteri (fun i x -> r := set_er !r (z_of_int i) (zx x)) (split ',' v);
        s := set_regs !r !s
      | "mem" ->
        List.iter (fun item ->
            match split ':' item with
            | [ a; bytes ] ->
              let a = hx a in
              List.iteri (fun j b ->
                  match poke (!s).cbus (z_of_int ((a + j) land 0xffffffff)) (z_of_int b) with
                  | Some b' -> s := set_bus b' !s
                  | None -> pokefail := true)
                (unhex bytes)
            | _ -> failwith "bad mem")
          (nonempty (split ';' v))
      | "exit" -> s := { !s with exit_addr = zx v }
      | "pin" ->
        List.iter (fun item ->
            match split ':' item with
            | [ p; x ] ->
              let b = (!s).cbus in
              s := set_bus { b with b_pin = sset b.b_pin (z_of_int (hx p - 1)) (zx x) } !s
            | _ -> failwith "bad pin")
          (nonempty (split ';' v))
      | "sock" | "elf" -> ()
      | "ops" -> opstrs := split ',' v; ops := List.map parse_op !opstrs
      | _ -> failwith ("unknown key [" ^ k ^ "]"))
    kvs;
  { id = !id; kind = !kind; s0 = !s; ops = !ops; opstrs = !opstrs; pokefail = !pokefail }

let fmt_obs (c : case) (rs : res list) (s1 : cpu) : string =
  let ers = List.init 8 (fun i -> Printf.sprintf "%x" (int_of_z (get_er s1.er (z_of_int i)))) in
  let md = mem_diff c.s0.cbus s1.cbus in
  let md = List.sort compare (List.map (fun (a, v) -> (int_of_z a, int_of_z v)) md) in
  let md = List.map (fun (a, v) -> Printf.sprintf "%x:%02x" a v) md in
  let pins = List.init 11 (fun i -> Printf.sprintf "%x" (int_of_z (sget s1.cbus.b_pin (z_of_int i)))) in
  let t = s1.cbus.b_tmr in
  let msgs = List.map (fun m -> hex_of_string (fmt_msg m)) s1.cbus.b_msgs in
  Printf.sprintf "id=%s res=%s pc=%x ccr=%x er=%s opc=%x sum=%x exit=%x q=%s tm=%x,%x pin=%s md=%s msgs=%s con=%s%s"
    c.id
    (String.concat "," (List.map fmt_res rs))
    (int_of_z s1.pc) (int_of_z s1.ccr) (String.concat "," ers)
    (int_of_z s1.opc) (int_of_z s1.ssum) (int_of_z s1.exit_addr)
    (String.concat "," (List.map (fun v -> Printf.sprintf "%x" (int_of_z v)) s1.irq))
    (int_of_z t.t_state) (int_of_z t.t_presc)
    (String.concat "," pins) (String.concat ";" md) (String.concat "|" msgs)
    (tohex_bytes (List.map int_of_z s1.console))
    (if c.pokefail then " pokefail=1" else "")

(* ---- references per case kind ---- *)
let io1 (s : cpu) (off : int) : z = sget s.cbus.b_io1 (z_of_int off)

(* kind=price: every op is a price op; the reference is count x price_ref of the area's settings *)
let ref_price (c : case) : string * bool =
  let s = c.s0 in
  let abw = io1 s 0x20 and ast = io1 s 0x21 and wh = io1 s 0x22 and wl = io1 s 0x23 and dr = io1 s 0x26 in
  let dom = ref true in
  let rs = List.map (fun o ->
      match o with
      | OPrice (k, n, a) ->
        if not (dom_c19 dr k n a) then dom := false;
        let cfg = settings_of_area abw ast wh wl dr (area_of a) in
        fmt_res (ROkV (Z.mul n (price_ref (on_chip_ram a) cfg k)))
      | _ -> dom := false; "na")
      c.ops in
  ("res=" ^ String.concat "," rs, !dom)

(* kind=bus: histories of byte / word / long accesses against the abstract map address -> byte *)
let ref_bus (c : case) : string * bool =
  let m = ref (fun a -> bus_read c.s0.cbus a) in
  let m0 = !m in
  let dom = ref true and stop = ref false in
  let written = ref [] and ign = ref [] in
  let rs = ref [] in
  let bytes_of sz a = List.init sz (fun i -> a + i) in
  List.iter (fun o ->
      if not !stop then begin
        let r =
          match o with
          | OW8 (a, v) ->
            if accessible a && not (plain a) then dom := false;
            let (m', r) = astep !m (AWrite (a, v)) in
            m := m'; written := int_of_z a :: !written;
            (match r with Some _ -> "ok" | None -> "err")
          | OR8 a ->
            let (_, r) = astep !m (ARead a) in
            (match r with Some v -> fmt_res (ROkV v) | None -> "err")
          | OWr (sz, a, v) ->
            let n = int_of_z sz and ai = int_of_z a in
            List.iter (fun x -> if accessible (z_of_int x) && not (plain (z_of_int x)) then dom := false) (bytes_of n ai);
            let (m', ok) = awrite !m sz a v in
            m := m'; written := bytes_of n ai @ !written;
            if ok then "ok" else begin ign := bytes_of n ai @ !ign; "err" end
          | ORd (sz, a) ->
            (match aread !m sz a with Some v -> fmt_res (ROkV v) | None -> "err")
          | OWrA (mode, sz, a0, v) ->
            (* the reference forms the address as the manual defines @aa:8 / @aa:16 (ISA.abs8 / ISA.abs16) *)
            let a = (match int_of_z mode with 8 -> abs8 a0 | 16 -> abs16 a0 | _ -> a0) in
            let n = int_of_z sz and ai = int_of_z a in
            List.iter (fun x -> if accessible (z_of_int x) && not (plain (z_of_int x)) then dom := false) (bytes_of n ai);
            let (m', ok) = awrite !m sz a v in
            m := m'; written := bytes_of n ai @ !written;
            if ok then "ok" else begin ign := bytes_of n ai @ !ign; "err" end
          | ORdA (mode, sz, a0) ->
            let a = (match int_of_z mode with 8 -> abs8 a0 | 16 -> abs16 a0 | _ -> a0) in
            (match aread !m sz a with Some v -> fmt_res (ROkV v) | None -> "err")
          | _ -> dom := false; "na" in
        if r = "err" then stop := true;
        rs := r :: !rs
      end)
    c.ops;
  let addrs = List.sort_uniq compare !written in
  let md = List.filter_map (fun a ->
      let za = z_of_int a in
      match !m za, m0 za with
      | Some v, Some v0 -> if int_of_z v <> int_of_z v0 then Some (Printf.sprintf "%x:%02x" a (int_of_z v)) else None
      | _, _ -> None) addrs in
  let ign = List.sort_uniq compare !ign in
  let s = Printf.sprintf "res=%s md=%s%s" (String.concat "," (List.rev !rs)) (String.concat ";" md)
      (if ign = [] then "" else " ignmd=" ^ String.concat "," (List.map (Printf.sprintf "%x") ign)) in
  (s, !dom)

(* kind=step: one instruction; reference = decode_ref + sem_ref + charge_ref, domains of C01-C08, C20 *)
let fmt_state_tokens (c : case) (s1 : cpu) : string =
  let ers = List.init 8 (fun i -> Printf.sprintf "%x" (int_of_z (get_er s1.er (z_of_int i)))) in
  let md = mem_diff c.s0.cbus s1.cbus in
  let md = List.sort compare (List.map (fun (a, v) -> (int_of_z a, int_of_z v)) md) in
  let md = List.map (fun (a, v) -> Printf.sprintf "%x:%02x" a v) md in
  Printf.sprintf "pc=%x ccr=%x er=%s md=%s" (int_of_z s1.pc) (int_of_z s1.ccr) (String.concat "," ers) (String.concat ";" md)

let ref_step_case (c : case) : string * string =
  let s = c.s0 in
  match ref_decode s with
  | None -> ("", "")
  | Some (i, len) ->
    let b2i b = if b then 1 else 0 in
    let d1 = dom_c01 i len s and d2 = dom_c02 i len s and d3 = dom_c03 i len s and d4 = dom_c04 i len s
    and d5 = dom_c05 i len s and d6 = dom_c06 i len s and d7a = dom_c07a i len s and d7b = dom_c07b i len s
    and d8 = dom_c08 i len s and d20 = dom_c20 i len s in
    let anyd = d1 || d2 || d3 || d4 || d5 || d6 || d7a || d8 || d20 in
    let known = (if known_shal i s then " known_C03=shal known_C07=shal" else "")
                ^ (if known_stc_predec i then " known_C08=stc_predec known_C07=stc_predec known_C20=stc_predec" else "") in
    let dline = Printf.sprintf "C01=%d C02=%d C03=%d C04=%d C05=%d C06=%d C07=%d C08=%d C20=%d%s"
        (b2i d1) (b2i d2) (b2i d3) (b2i d4) (b2i d5) (b2i d6) (b2i (d7a || d7b)) (b2i d8) (b2i d20) known in
    if d7b then ("resclass=err", dline)
    else if anyd then
      match sem_ref i len s with
      | None -> ("", "")     (* the reference itself faults: no claim *)
      | Some s1 ->
        (* bytes left open by the property: top byte of a BSR/JSR frame; the two data bytes of STC.W *)
        let ign = match i with
          | IBsr _ | IJsr _ -> [ (int_of_z (reg32 s1 (z_of_int 7))) land 0xffffff ]
          | IStcW _ -> List.concat_map (fun (a, n) -> List.init (int_of_z n) (fun k -> int_of_z a + k)) (accesses i s)
          | _ -> [] in
        let ccrmask = match i with ITrapa _ -> " ccrmask=bf" | _ -> "" in
        let r = Printf.sprintf "resclass=ok %s st=ok:%x%s%s" (fmt_state_tokens c s1) (int_of_z (charge_ref i len s)) ccrmask
            (if ign = [] then "" else " ignmd=" ^ String.concat "," (List.map (Printf.sprintf "%x") ign)) in
        (r, dline)
    else if reg_overlap i && code_ok s len && List.for_all (fun (a, n) -> span_ok data_ok a n) (accesses i s)
            && aligned i s && disjoint_from_code i len s then
      (* @ERn+ / @-ERn with the data register overlapping the address register: the value result is outside the domains
         of C01 / C08, but the bus-cycle mix (code fetches, one internal state pair, the data access at the operand's
         effective address) does not depend on it: charge-only claim for C20 *)
      (Printf.sprintf "resclass=ok st=ok:%x" (int_of_z (charge_ref i len s)),
       "C01=0 C02=0 C03=0 C04=0 C05=0 C06=0 C07=0 C08=0 C20=1" ^ known)
    else ("", dline)

(* kind=port: histories of DDR / DR writes, external input changes and DR reads on the 11 ports, against the
   abstract ports (latch, ddr, pin).  Emits the expected results, the expected register bytes and, per port,
   the trajectory of the driven output value (for the announcement rule). *)
let ref_port (c : case) : string * bool =
  let ports = Array.make 12 port0 in
  let traj = Array.make 12 [] in
  let dom = ref true in
  let touched = ref [] in
  let note k = let o = int_of_z (p_out ports.(k)) in traj.(k) <- o :: traj.(k) in
  for k = 1 to 11 do note k done;
  let rs = List.map (fun o ->
      match o with
      | OW8 (a, v) ->
        let ai = int_of_z a in
        if ai >= 0xfee000 && ai <= 0xfee00a then begin
          let k = ai - 0xfee000 + 1 in ports.(k) <- pstep ports.(k) (PWriteDdr v); note k; touched := k :: !touched; "ok" end
        else if ai >= 0xffffd0 && ai <= 0xffffda then begin
          let k = ai - 0xffffd0 + 1 in ports.(k) <- pstep ports.(k) (PWriteDr v); note k; touched := k :: !touched; "ok" end
        else begin dom := false; "na" end
      | OPort (p, v) ->
        let k = int_of_z p in
        if k >= 1 && k <= 11 then begin ports.(k) <- pstep ports.(k) (PInput v); note k; touched := k :: !touched end;
        "ok"
      | OSum _ -> "ok"
      | OR8 a ->
        let ai = int_of_z a in
        if ai >= 0xffffd0 && ai <= 0xffffda then fmt_res (ROkV (p_read ports.(ai - 0xffffd0 + 1)))
        else if ai >= 0xfee000 && ai <= 0xfee00a then fmt_res (ROkV ports.(ai - 0xfee000 + 1).p_ddr)
        else begin dom := false; "na" end
      | _ -> dom := false; "na") c.ops in
  let md = List.concat_map (fun k ->
      let d = int_of_z ports.(k).p_ddr and r = int_of_z (p_read ports.(k)) in
      (if d <> 0 then [ (0xfee000 + k - 1, d) ] else []) @ (if r <> 0 then [ (0xffffd0 + k - 1, r) ] else []))
      (List.sort_uniq compare !touched) in
  let md = List.map (fun (a, v) -> Printf.sprintf "%x:%02x" a v) (List.sort compare md) in
  let outs = List.filter_map (fun k ->
      if List.mem k !touched then
        Some (Printf.sprintf "%x:%s" k (String.concat "." (List.map (Printf.sprintf "%x") (List.rev traj.(k)))))
      else None) (List.init 11 (fun i -> i + 1)) in
  (Printf.sprintf "res=%s md=%s outs=%s" (String.concat "," rs) (String.concat ";" md) (String.concat ";" outs), !dom)

(* kind=irq: a program with handlers; ops interleave irq:<v> (request), bnd (instruction boundary) and step.
   Reference: FIFO of requests + boundary_ref + decode_ref/sem_ref. *)
let ref_irq (c : case) : string * bool =
  let s = ref c.s0 and q = ref [] and ok = ref true in
  let err = ref false and stopped = ref false in
  let classes = ref [] in
  List.iter (fun o ->
      if !ok && not !stopped then begin
        (match o with
         | OIrq v -> q := !q @ [ v ]
         | OBnd -> (match boundary_ref !s !q with Some (s', q') -> s := s'; q := q' | None -> ok := false)
         | OStep ->
           if is_mes_call !s then begin
             if dom_mes !s then
               (match mes_ref !s with
                | Some s' -> s := s'
                | None -> err := true)
             else ok := false
           end else
           (match ref_decode !s with
            | Some (i, len) when exec_dom data_ok i len !s ->
              (match sem_ref i len !s with Some s' -> s := s' | None -> ok := false)
            | _ -> ok := false)
         | _ -> ok := false);
        if !ok && not !stopped then classes := (if !err then "err" else "ok") :: !classes;
        if !err then stopped := true
      end) c.ops;
  if not !ok then ("", false)
  else if !err then (Printf.sprintf "resclass=%s" (String.concat "," (List.rev !classes)), true)
  else
    (Printf.sprintf "resclass=%s %s q=%s ccrmask=bf msgs=%s con=%s" (String.concat "," (List.rev !classes)) (fmt_state_tokens c !s)
       (String.concat "," (List.map (fun v -> Printf.sprintf "%x" (int_of_z v)) !q))
       (String.concat "|" (List.map (fun m -> hex_of_string (fmt_msg m)) (!s).cbus.b_msgs))
       (tohex_bytes (List.map int_of_z (!s).console)), true)

(* kind=run: Cpu::run on a generated terminating program, against the reference run loop *)
let ref_run_case (c : case) : string * bool =
  match c.ops with
  | [ ORun (fuel, _) ] ->
    (match ref_run_init c.s0 with
     | None -> ("", false)
     | Some s0 ->
       (match ref_run_t (Z.to_nat fuel) s0 (z_of_int 0) tmr0 [] with
        | None -> ("", false)
        | Some RTError -> ("resclass=err", true)
        | Some (RTFinished (s1, _, q)) ->
          (Printf.sprintf "resclass=ok %s sum=%x q=%s msgs=%s con=%s" (fmt_state_tokens c s1) (int_of_z s1.ssum)
             (String.concat "," (List.map (fun v -> Printf.sprintf "%x" (int_of_z v)) q))
             (String.concat "|" (List.map (fun m -> hex_of_string (fmt_msg m)) s1.cbus.b_msgs))
             (tohex_bytes (List.map int_of_z s1.console)), true)))
  | _ -> ("", false)

(* kind=timer: histories of CPU writes to TCR/TCSR/TCORA/TCORB/TCNT of 8-bit timer channel 0, instruction
   charges (tick:n) and reads, against the tick-by-tick reference *)
let ref_timer (c : case) : string * bool =
  let z0 = z_of_int 0 in
  let t = ref { tcnt = z0; tcsr = z0; tcora = z0; tcorb = z0; cmieb = false; cmiea = false; ovie = false;
                cclr = z0; divisor = z0; phase = z0 } in
  let tcr = ref 0 in
  let dom = ref true in
  let q = ref [] in
  let rs = List.map (fun o ->
      match o with
      | OW8 (a, v) ->
        (match int_of_z a with
         | 0xffff80 -> tcr := int_of_z v; t := write_tcr_ref !t v
         | 0xffff82 -> t := { !t with tcsr = v }
         | 0xffff84 -> t := { !t with tcora = v }
         | 0xffff86 -> t := { !t with tcorb = v }
         | 0xffff88 -> t := { !t with tcnt = v }
         | _ -> dom := false);
        "ok"
      | OTick n ->
        let ni = int_of_z n in
        if ni < 1 || ni > 255 || not (side_ok !t) then dom := false;
        let (t', rq) = states_ref (Z.to_nat n) !t in
        t := t'; q := !q @ rq; "ok"
      | OR8 a ->
        (match int_of_z a with
         | 0xffff80 -> fmt_res (ROkV (z_of_int !tcr))
         | 0xffff82 -> fmt_res (ROkV !t.tcsr)
         | 0xffff84 -> fmt_res (ROkV !t.tcora)
         | 0xffff86 -> fmt_res (ROkV !t.tcorb)
         | 0xffff88 -> fmt_res (ROkV !t.tcnt)
         | _ -> dom := false; "na")
      | _ -> dom := false; "na") c.ops in
  let regs = [ (0xffff80, !tcr); (0xffff82, int_of_z !t.tcsr); (0xffff84, int_of_z !t.tcora);
               (0xffff86, int_of_z !t.tcorb); (0xffff88, int_of_z !t.tcnt) ] in
  let md = List.filter_map (fun (a, v) -> if v <> 0 then Some (Printf.sprintf "%x:%02x" a v) else None) regs in
  (Printf.sprintf "res=%s md=%s q=%s" (String.concat "," rs) (String.concat ";" md)
     (String.concat "," (List.map (fun v -> Printf.sprintf "%x" (int_of_z v)) !q)), !dom)

(* kind=entry: ops = int:<v> [,irq:<w>...] [,step]: interrupt entry through vector v, optionally followed by the handler's RTE *)
let ref_entry_case (c : case) : string * string =
  match c.ops with
  | OInt v :: rest ->
    let s = c.s0 in
    if not (dom_entry v s) then ("", "C06=0")
    else (match ref_entry v s with
        | None -> ("", "C06=0")
        | Some s1 ->
          (match rest with
           | [] -> (Printf.sprintf "resclass=ok %s ccrmask=bf" (fmt_state_tokens c s1), "C06=1")
           | _ when (match List.rev rest with
                     | OStep :: pre -> List.for_all (function OIrq _ -> true | _ -> false) pre
                     | _ -> false) ->
             (* requests raised while the handler runs masked stay pending: the handler's RTE is the reference's RTE *)
             (match ref_decode s1 with
              | Some (i, len) when dom_c06 i len s1 ->
                (match sem_ref i len s1 with
                 | Some s2 -> (Printf.sprintf "resclass=%s %s" (String.concat "," (List.map (fun _ -> "ok") c.ops))
                                 (fmt_state_tokens c s2), "C06=1")
                 | None -> ("", "C06=0"))
              | _ -> ("", "C06=0"))
           | _ -> ("", "C06=0")))
  | _ -> ("", "C06=0")

(* kind=load: elf::load on a generated file and argument string; the reference is the point-wise expected image and
   the process environment of Spec/ElfSpec.v (fields read at their ELF32 offsets) *)
let ref_load (c : case) : string * bool =
  match c.ops with
  | [ OLoad (f, args) ] ->
    let d = wf_elf f args in
    let x = expected_of f args c.s0.er c.s0.exit_addr in
    let cells = Hashtbl.create 1024 in
    List.iter (fun (lo, n) ->
        let lo = int_of_z lo and n = int_of_z n in
        for i = lo to lo + n - 1 do
          if i >= 0 && i < 0x200000 && not (Hashtbl.mem cells i) then begin
            let v = int_of_z (x.x_dram (z_of_int i)) in
            Hashtbl.replace cells i v
          end
        done)
      (if d then candidates f args else []);
    let md = Hashtbl.fold (fun i v acc -> if v <> 0 then (0x400000 + i, v) :: acc else acc) cells [] in
    let md = List.map (fun (a, v) -> Printf.sprintf "%x:%02x" a v) (List.sort compare md) in
    let ers = List.init 8 (fun i -> Printf.sprintf "%x" (int_of_z (get_er x.x_er (z_of_int i)))) in
    let lim = 0x416900 + int_of_z (img_end (ref_phdrs f)) in
    let mdimg = String.concat ";" md in
    (Printf.sprintf "res=ok er=%s exit=%x md=%s mdimg=%s imglim=%x" (String.concat "," ers) (int_of_z x.x_exit) (String.concat ";" md) mdimg lim, d)
  | _ -> ("res=?", false)

let () =
  let inp = Sys.argv.(1) and outp = Sys.argv.(2) in
  let ic = open_in inp and oc = open_out outp in
  (try
     while true do
       let line = String.trim (input_line ic) in
       if line <> "" && line.[0] <> '#' then begin
         let c = parse_case line in
         (* a program that does not come to an end within the step budget is marked (fuel=1): the implementation's run() has
            no budget, the harness does not hand such a case to it *)
         let fuel_out = ref false in
         let (rs, s1) =
           match c.ops with
           | [ ORun (fuel, script) ] ->
             (match run (Z.to_nat fuel) script c.s0 with
              | Some (Finished s') -> ([ ROk ], s')
              | Some (Failed s') -> ([ RErr ], s')
              | Some Crashed -> ([ RPanic ], c.s0)
              | Some (Continue r) -> ([ RErr ], r.r_ctl.c_cpu)
              | None -> fuel_out := true; ([ RPanic ], c.s0))
           | _ -> run_ops c.ops c.s0 in
         Printf.fprintf oc "M %s%s\n" (fmt_obs c rs s1) (if !fuel_out then " fuel=1" else "");
         (match c.kind with
          | "price" ->
            let (r, d) = ref_price c in
            Printf.fprintf oc "R id=%s %s\nD id=%s C19=%d\n" c.id r c.id (if d then 1 else 0)
          | "step" ->
            let (r, d) = ref_step_case c in
            Printf.fprintf oc "R id=%s %s\nD id=%s %s\n" c.id r c.id d
          | "run" ->
            let (r, d) = ref_run_case c in
            Printf.fprintf oc "R id=%s %s\nD id=%s C13=%d C10=%d C17=%d\n" c.id r c.id (if d then 1 else 0) (if d then 1 else 0) (if d then 1 else 0)
          | "sock" ->
            (* the reference for control lines is the model's line semantics (characterised by the C18 theorems) *)
            let ers = List.init 8 (fun i -> Printf.sprintf "%x" (int_of_z (get_er s1.er (z_of_int i)))) in
            ignore ers;
            let m = fmt_obs c rs s1 in
            let toks = List.filter (fun t -> let (k, _) = split_kv t in List.mem k [ "res"; "md"; "pin"; "msgs"; "sum"; "pc" ]) (nonempty (split ' ' m)) in
            Printf.fprintf oc "R id=%s %s\nD id=%s C18=1\n" c.id (String.concat " " toks) c.id
          | "irq" ->
            let (r, d) = ref_irq c in
            Printf.fprintf oc "R id=%s %s\nD id=%s C10=%d\n" c.id r c.id (if d then 1 else 0)
          | "mes" ->
            let (r, d) = ref_irq c in
            Printf.fprintf oc "R id=%s %s\nD id=%s C14=%d\n" c.id r c.id (if d then 1 else 0)
          | "timer" ->
            let (r, d) = ref_timer c in
            Printf.fprintf oc "R id=%s %s\nD id=%s C17=%d\n" c.id r c.id (if d then 1 else 0)
          | "port" ->
            let (r, d) = ref_port c in
            Printf.fprintf oc "R id=%s %s\nD id=%s C16=%d\n" c.id r c.id (if d then 1 else 0)
          | "entry" ->
            let (r, d) = ref_entry_case c in
            Printf.fprintf oc "R id=%s %s\nD id=%s %s\n" c.id r c.id d
          | "tcp" ->
            (* the bytes the send worker must put on the wire: every message escaped and newline-terminated (Run.escape) *)
            let wire = List.concat_map (fun m ->
                let txt = fmt_msg m in
                escape (List.init (String.length txt) (fun i -> z_of_int (Char.code txt.[i])))) s1.cbus.b_msgs in
            Printf.fprintf oc "R id=%s wire=%s\nD id=%s C18=1\n" c.id (tohex_bytes (List.map int_of_z wire)) c.id
          | "load" ->
            let (r, d) = ref_load c in
            Printf.fprintf oc "R id=%s %s\nD id=%s C11=%d C12=%d\n" c.id r c.id (if d then 1 else 0) (if d then 1 else 0)
          | "bus" ->
            let (r, d) = ref_bus c in
            Printf.fprintf oc "R id=%s %s\nD id=%s C09=%d\n" c.id r c.id (if d then 1 else 0)
          | _ -> Printf.fprintf oc "R id=%s\nD id=%s\n" c.id c.id)
       end
     done
   with End_of_file -> ());
  close_in ic; close_out oc
