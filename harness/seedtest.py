#!/usr/bin/env python3
"""Seeded-change bookkeeping.  For every seed directory (patch.diff, demo.patch, meta.json):
  verify  : in a scratch worktree - the patch applies, the 226 tests pass with it, the demo fails with it and passes without;
  detect  : in a second scratch worktree - apply the patch, run the given checks (quick tier) against it, record which report
            a VIOLATION.
Usage: seedtest.py <seed_dir> <out_dir> <check ids...>
"""
import sys, os, subprocess, json, shutil, time

def sh(cmd, cwd=None, env=None, timeout=3600):
    r = subprocess.run(cmd, shell=True, cwd=cwd, env=env, stdout=subprocess.PIPE, stderr=subprocess.STDOUT, text=True, timeout=timeout)
    return r.returncode, r.stdout

def main():
    seed, out = sys.argv[1], sys.argv[2]
    checks = sys.argv[3:]
    os.makedirs(out, exist_ok=True)
    meta = json.load(open(os.path.join(seed, "meta.json")))
    res = {"seed": seed, "property": meta.get("property"), "verify": {}, "detect": {}}
    wt = "/tmp/wt_seedverify_%d" % os.getpid()
    prev = os.path.join(out, "result.json")
    detect_only = os.environ.get("SEED_DETECT_ONLY") and os.path.exists(prev)
    if detect_only:
        old = json.load(open(prev))
        res["verify"] = old["verify"]
        res["detect_before"] = old.get("detect_before", old["detect"])
    else:
        sh("git -C /repo worktree remove --force %s" % wt)
        rc, o = sh("git -C /repo worktree add -q --detach %s HEAD" % wt)
    env = dict(os.environ, CARGO_NET_OFFLINE="true", CARGO_TARGET_DIR="/tmp/seed_target_verify" + os.environ.get("SEEDW", ""))
    try:
        patch = os.path.abspath(os.path.join(seed, "patch.diff"))
        demo = os.path.abspath(os.path.join(seed, "demo.patch"))
        rc = 1
        if not detect_only:
            rc, o = sh("git apply %s" % patch, cwd=wt); res["verify"]["patch_applies"] = (rc == 0)
        if rc == 0:
            rc, o = sh("cargo test --offline 2>&1 | tail -5", cwd=wt, env=env)
            res["verify"]["suite_with_patch"] = o.strip().split("\n")[-3:]
            res["verify"]["suite_passes_with_patch"] = ("226 passed" in o and "0 failed" in o)
            rc, o = sh("git apply %s" % demo, cwd=wt); res["verify"]["demo_applies"] = (rc == 0)
            rc, o = sh("cargo test --offline 2>&1 | grep -E 'test result|FAILED|failed' | tail -5", cwd=wt, env=env)
            res["verify"]["demo_fails_with_patch"] = ("FAILED" in o or "failed;" in o and " 0 failed" not in o)
            res["verify"]["with_patch_out"] = o.strip().split("\n")[-3:]
            sh("git apply -R %s" % patch, cwd=wt)
            rc, o = sh("cargo test --offline 2>&1 | grep -E 'test result' | tail -3", cwd=wt, env=env)
            res["verify"]["demo_passes_without_patch"] = (" 0 failed" in o and "passed" in o)
            res["verify"]["without_patch_out"] = o.strip().split("\n")[-2:]
    finally:
        if not detect_only:
            sh("git -C /repo worktree remove --force %s" % wt)
    # detection
    wt2 = "/tmp/wt_seeddetect_%d" % os.getpid()
    sh("git -C /repo worktree remove --force %s" % wt2)
    sh("git -C /repo worktree add -q --detach %s HEAD" % wt2)
    try:
        rc, o = sh("git apply %s" % os.path.abspath(os.path.join(seed, "patch.diff")), cwd=wt2)
        env2 = dict(os.environ, KOGE29_REPO=wt2, VERIF_TARGET_SUFFIX="-seed" + os.environ.get("SEEDW", ""), VERIF_EVIDENCE_DIR=os.path.join(out, "evidence"),
                    VERIF_REPLAY_DIR=os.path.join(out, "replays"))
        for c in checks:
            t0 = time.time()
            rc, o = sh("./check %s --tier quick" % c, cwd="/verif", env=env2)
            vl = [l for l in o.split("\n") if l.startswith("VIOLATION")]
            res["detect"][c] = {"rc": rc, "violation": bool(vl), "line": vl[:1], "tail": o.strip().split("\n")[-1], "s": round(time.time() - t0, 1)}
    finally:
        sh("git -C /repo worktree remove --force %s" % wt2)
    json.dump(res, open(os.path.join(out, "result.json"), "w"), indent=1)
    print(json.dumps(res, indent=1))

main()
