// Verification driver, included into /repo's binary crate as `mod verif_driver`
// when built with `--cfg koge29_verif` (see src/main.rs hook).  It reads case
// lines (protocol: /verif/harness/PROTOCOL.md) from the file named by
// KOGE29_VERIF_IN, runs them on a real `Cpu`, and writes one observation line
// per case to KOGE29_VERIF_OUT.  Guest console output goes to the process's
// stdout, separated by marker lines.

use crate::cpu::{Cpu, StateType};
use std::io::{BufRead, BufWriter, Write};
use std::panic::{catch_unwind, AssertUnwindSafe};

const REGIONS: [(u32, u32); 5] = [
    (0x000000, 0x0000ff), // vector area
    (0x400000, 0x5fffff), // DRAM
    (0xfee000, 0xfee0ff), // I/O registers 1
    (0xffbf20, 0xffff1f), // on-chip RAM
    (0xffff20, 0xffffe9), // I/O registers 2
];

fn store<'a>(cpu: &'a mut Cpu, idx: usize) -> &'a mut [u8] {
    match idx {
        0 => &mut cpu.bus.exception_handling_vector[..],
        1 => &mut cpu.bus.dram[..],
        2 => &mut cpu.bus.io_registrs1[..],
        3 => &mut cpu.bus.memory[..],
        _ => &mut cpu.bus.io_registrs2[..],
    }
}

fn locate(addr: u32) -> Option<(usize, usize)> {
    for (i, (lo, hi)) in REGIONS.iter().enumerate() {
        if addr >= *lo && addr <= *hi {
            return Some((i, (addr - lo) as usize));
        }
    }
    None
}

fn tag_byte(addr: u32, seed: u64) -> u8 {
    ((((addr as u64) * 2654435761u64) >> 7) + seed) as u8
}

fn hx(s: &str) -> u64 {
    u64::from_str_radix(s, 16).unwrap_or_else(|_| panic!("bad hex [{}]", s))
}

fn unhex(s: &str) -> Vec<u8> {
    (0..s.len() / 2).map(|i| u8::from_str_radix(&s[2 * i..2 * i + 2], 16).unwrap()).collect()
}

fn tohex(b: &[u8]) -> String {
    b.iter().map(|x| format!("{:02x}", x)).collect()
}

fn kind_of(k: u64) -> StateType {
    match k {
        0 => StateType::I,
        1 => StateType::J,
        2 => StateType::K,
        3 => StateType::L,
        4 => StateType::M,
        _ => StateType::N,
    }
}

struct Harness {
    cpu: Cpu,
    base: Vec<Vec<u8>>, // baseline image of the five stores
    tag: Option<u64>,
    msg_rx: std::sync::mpsc::Receiver<String>,
}

impl Harness {
    fn new() -> Self {
        let mut cpu = Cpu::new();
        let (tx, rx) = std::sync::mpsc::channel();
        cpu.bus.message_tx = Some(tx);
        let base = (0..5).map(|i| store(&mut cpu, i).to_vec()).collect();
        Harness { cpu, base, tag: None, msg_rx: rx }
    }

    fn set_tag(&mut self, tag: Option<u64>) {
        if self.tag == tag {
            return;
        }
        self.tag = tag;
        for i in 0..5 {
            let lo = REGIONS[i].0;
            let st = store(&mut self.cpu, i);
            for (k, b) in st.iter_mut().enumerate() {
                *b = match tag {
                    Some(seed) => tag_byte(lo + k as u32, seed),
                    None => 0,
                };
            }
            let n = self.base[i].len().min(st.len());
            self.base[i][..n].copy_from_slice(&st[..n]);
        }
    }

    fn fresh_cpu_parts(&mut self) {
        self.cpu.verif_set_pc(0);
        self.cpu.verif_set_ccr(0);
        self.cpu.verif_set_operating_pc(0);
        self.cpu.verif_set_state_sum(0);
        self.cpu.er = [0; 8];
        self.cpu.exit_addr = 0;
        self.cpu.bus.io_port_in = [0; crate::bus::IO_PORT_SIZE];
        self.cpu.bus.io_port_latch = [0; crate::bus::IO_PORT_SIZE];
        self.cpu.verif_clear_interrupts();
        self.cpu.verif_reset_timer8_0();
        while self.msg_rx.try_recv().is_ok() {}
    }

    fn run_case(&mut self, line: &str, out: &mut dyn Write) {
        let mut id = String::new();
        let mut ops: Vec<String> = vec![];
        let mut pokes: Vec<(usize, usize, u8)> = vec![]; // store, index, old base value
        let mut tag: Option<u64> = None;
        let mut script: Option<Vec<Vec<String>>> = None;
        let mut elf_bytes: Vec<u8> = vec![];
        let toks: Vec<&str> = line.split_whitespace().collect();
        for t in &toks {
            if let Some(v) = t.strip_prefix("tag=") {
                tag = Some(hx(v));
            }
        }
        self.set_tag(tag);
        self.fresh_cpu_parts();
        let mut pokefail = false;
        for t in &toks {
            let (k, v) = t.split_once('=').unwrap_or_else(|| panic!("bad token [{}]", t));
            match k {
                "id" => id = v.to_string(),
                "tag" | "kind" | "ovf" => {}
                "elf" => elf_bytes = unhex(v),
                "pc" => self.cpu.verif_set_pc(hx(v) as u32),
                "ccr" => self.cpu.verif_set_ccr(hx(v) as u8),
                "opc" => self.cpu.verif_set_operating_pc(hx(v) as u32),
                "sum" => self.cpu.verif_set_state_sum(hx(v) as usize),
                "exit" => self.cpu.exit_addr = hx(v) as u32,
                "er" => {
                    for (i, r) in v.split(',').enumerate() {
                        self.cpu.er[i] = hx(r) as u32;
                    }
                }
                "mem" => {
                    for item in v.split(';').filter(|x| !x.is_empty()) {
                        let (a, bytes) = item.split_once(':').unwrap();
                        let a = hx(a) as u32;
                        for (j, b) in unhex(bytes).into_iter().enumerate() {
                            match locate(a.wrapping_add(j as u32)) {
                                Some((si, ix)) => {
                                    let st = store(&mut self.cpu, si);
                                    if ix < st.len() {
                                        st[ix] = b;
                                        pokes.push((si, ix, self.base[si][ix]));
                                        self.base[si][ix] = b;
                                    } else {
                                        pokefail = true;
                                    }
                                }
                                None => pokefail = true,
                            }
                        }
                    }
                }
                "pin" => {
                    for item in v.split(';').filter(|x| !x.is_empty()) {
                        let (p, val) = item.split_once(':').unwrap();
                        let p = hx(p) as usize;
                        if p >= 1 && p <= self.cpu.bus.io_port_in.len() {
                            self.cpu.bus.io_port_in[p - 1] = hx(val) as u8;
                        }
                    }
                }
                "sock" => {
                    // batches separated by '/', lines by '|', each line hex-encoded
                    let sc = v
                        .split('/')
                        .map(|b| {
                            b.split('|')
                                .filter(|x| !x.is_empty())
                                .map(|l| String::from_utf8_lossy(&unhex(l)).into_owned())
                                .collect::<Vec<String>>()
                        })
                        .collect::<Vec<Vec<String>>>();
                    script = Some(sc);
                }
                "ops" => ops = v.split(',').map(|x| x.to_string()).collect(),
                _ => panic!("unknown key [{}]", k),
            }
        }

        // run the operations
        let mut results: Vec<String> = vec![];
        let mut script_rx: Option<std::sync::mpsc::Receiver<String>> = None;
        if let Some(sc) = script.take() {
            script_rx = Some(self.cpu.verif_attach_script_socket(sc));
        }
        let mut console_marked = false;
        for op in &ops {
            let f: Vec<&str> = op.split(':').collect();
            if (f[0] == "step" || f[0] == "stepn" || f[0] == "run") && !console_marked {
                // marker so that guest console output can be attributed to the case
                print!("\n@@case {}\n", id);
                console_marked = true;
            }
            let cpu = &mut self.cpu;
            let r = catch_unwind(AssertUnwindSafe(|| -> Result<String, String> {
                match f[0] {
                    "step" => cpu.verif_step().map(|s| format!("ok:{:x}", s)).map_err(|_| "err".to_string()),
                    "stepn" => {
                        let n = hx(f[1]);
                        let mut total: u64 = 0;
                        for _ in 0..n {
                            match cpu.verif_step() {
                                Ok(s) => total += s as u64,
                                Err(_) => return Err("err".to_string()),
                            }
                        }
                        Ok(format!("ok:{:x}", total))
                    }
                    "irq" => {
                        cpu.verif_request_interrupt(hx(f[1]) as u8);
                        Ok("ok".to_string())
                    }
                    "bnd" => cpu.verif_try_interrupt().map(|_| "ok".to_string()).map_err(|_| "err".to_string()),
                    "int" => cpu.verif_interrupt(hx(f[1]) as u8).map(|_| "ok".to_string()).map_err(|_| "err".to_string()),
                    "tick" => cpu.verif_update_modules(hx(f[1]) as u8).map(|_| "ok".to_string()).map_err(|_| "err".to_string()),
                    "ss" => {
                        // the state count so far (the time base of the ioport stamps), set from outside
                        cpu.verif_set_state_sum(hx(f[1]) as usize);
                        Ok("ok".to_string())
                    }
                    "w8" => cpu.bus.write(hx(f[1]) as u32, hx(f[2]) as u8).map(|_| "ok".to_string()).map_err(|_| "err".to_string()),
                    "r8" => cpu.bus.read(hx(f[1]) as u32).map(|v| format!("ok:{:x}", v)).map_err(|_| "err".to_string()),
                    "w16" => cpu.verif_mem_write(2, hx(f[1]) as u32, hx(f[2]) as u32).map(|_| "ok".to_string()).map_err(|_| "err".to_string()),
                    "w32" => cpu.verif_mem_write(4, hx(f[1]) as u32, hx(f[2]) as u32).map(|_| "ok".to_string()).map_err(|_| "err".to_string()),
                    "r16" => cpu.verif_mem_read(2, hx(f[1]) as u32).map(|v| format!("ok:{:x}", v)).map_err(|_| "err".to_string()),
                    "r32" => cpu.verif_mem_read(4, hx(f[1]) as u32).map(|v| format!("ok:{:x}", v)).map_err(|_| "err".to_string()),
                    "wa" => cpu
                        .verif_mem_write_abs(hx(f[1]) as u8, hx(f[2]) as u8, hx(f[3]) as u32, hx(f[4]) as u32)
                        .map(|_| "ok".to_string())
                        .map_err(|_| "err".to_string()),
                    "ra" => cpu
                        .verif_mem_read_abs(hx(f[1]) as u8, hx(f[2]) as u8, hx(f[3]) as u32)
                        .map(|v| format!("ok:{:x}", v))
                        .map_err(|_| "err".to_string()),
                    "port" => {
                        cpu.bus.write_port(hx(f[1]) as u8, hx(f[2]) as u8);
                        Ok("ok".to_string())
                    }
                    "price" => cpu
                        .calc_state_with_addr(kind_of(hx(f[1])), hx(f[2]) as u8, hx(f[3]) as u32)
                        .map(|v| format!("ok:{:x}", v))
                        .map_err(|_| "err".to_string()),
                    "pricepc" => cpu
                        .calc_state(kind_of(hx(f[1])), hx(f[2]) as u8)
                        .map(|v| format!("ok:{:x}", v))
                        .map_err(|_| "err".to_string()),
                    "run" => cpu.run().map(|_| "ok".to_string()).map_err(|_| "err".to_string()),
                    "load" => {
                        let args = String::from_utf8(unhex(f.get(2).copied().unwrap_or(""))).unwrap();
                        let path = if f[1] == "@" {
                            // the file travels in the case line (elf=<hex>): materialise it next to the output file
                            let p = format!("{}.elf", std::env::var("KOGE29_VERIF_OUT").unwrap());
                            std::fs::write(&p, &elf_bytes).unwrap();
                            p
                        } else {
                            f[1].to_string()
                        };
                        crate::elf::load(path, cpu, args);
                        Ok("ok".to_string())
                    }
                    _ => panic!("unknown op [{}]", op),
                }
            }));
            match r {
                Ok(Ok(s)) => results.push(s),
                Ok(Err(s)) => {
                    results.push(s);
                    break;
                }
                Err(_) => {
                    results.push("panic".to_string());
                    break;
                }
            }
        }
        std::io::stdout().flush().ok();

        // memory diff against the prepared image
        let mut md: Vec<String> = vec![];
        for si in 0..5 {
            let lo = REGIONS[si].0;
            let basev = std::mem::take(&mut self.base[si]);
            let cur = store(&mut self.cpu, si);
            let n = cur.len().min(basev.len());
            let mut off = 0usize;
            while off < n {
                let end = (off + 4096).min(n);
                if cur[off..end] != basev[off..end] {
                    for k in off..end {
                        if cur[k] != basev[k] {
                            md.push(format!("{:x}:{:02x}", lo + k as u32, cur[k]));
                            cur[k] = basev[k];
                        }
                    }
                }
                off = end;
            }
            self.base[si] = basev;
        }
        // collect messages
        let mut msgs: Vec<String> = vec![];
        while let Ok(m) = self.msg_rx.try_recv() {
            msgs.push(tohex(m.as_bytes()));
        }
        if let Some(rx) = &script_rx {
            while let Ok(m) = rx.try_recv() {
                msgs.push(tohex(m.as_bytes()));
            }
        }
        let (resid, presc) = self.cpu.verif_timer8_0();
        let er: Vec<String> = self.cpu.er.iter().map(|x| format!("{:x}", x)).collect();
        let q: Vec<String> = self.cpu.verif_pending_interrupts().iter().map(|x| format!("{:x}", x)).collect();
        let pin: Vec<String> = self.cpu.bus.io_port_in.iter().map(|x| format!("{:x}", x)).collect();
        writeln!(
            out,
            "id={} res={} pc={:x} ccr={:x} er={} opc={:x} sum={:x} exit={:x} q={} tm={:x},{:x} pin={} md={} msgs={}{}",
            id,
            results.join(","),
            self.cpu.verif_get_pc(),
            self.cpu.verif_get_ccr(),
            er.join(","),
            self.cpu.verif_get_operating_pc(),
            self.cpu.verif_get_state_sum(),
            self.cpu.exit_addr,
            q.join(","),
            resid,
            presc,
            pin.join(","),
            md.join(";"),
            msgs.join("|"),
            if pokefail { " pokefail=1" } else { "" }
        )
        .unwrap();

        // undo the pokes (both images were already made equal above)
        for (si, ix, old) in pokes.into_iter().rev() {
            self.base[si][ix] = old;
            store(&mut self.cpu, si)[ix] = old;
        }
        if script_rx.is_some() {
            if ops.iter().any(|o| o.starts_with("run") || o.starts_with("load")) {
                // run() / load() went through a scripted socket: start over with a clean Cpu
                let tag = self.tag;
                *self = Harness::new();
                self.set_tag(tag);
            } else {
                // single operations only: detaching the socket is enough (much cheaper than a new Cpu)
                let (tx, rx) = std::sync::mpsc::channel();
                self.cpu.verif_detach_socket(tx);
                self.msg_rx = rx;
            }
        }
    }
}

// ---- watchdog: a case that does not finish within the limit stops the process (exit code 97) after its id has been
// written to <out>.hang; the harness reports that case and carries on behind it ----
static CASE_STARTED_MS: std::sync::atomic::AtomicU64 = std::sync::atomic::AtomicU64::new(0);
static CASE_SEQ: std::sync::atomic::AtomicU64 = std::sync::atomic::AtomicU64::new(0);

fn now_ms() -> u64 {
    std::time::SystemTime::now().duration_since(std::time::UNIX_EPOCH).map(|d| d.as_millis() as u64).unwrap_or(0)
}

pub fn main() {
    *crate::setting::ENABLE_PRINT_OPCODE.write().unwrap() = false;
    *crate::setting::ENABLE_PRINT_MESSAGES.write().unwrap() = false;
    std::panic::set_hook(Box::new(|_| {}));
    let inp = std::env::var("KOGE29_VERIF_IN").expect("KOGE29_VERIF_IN");
    let outp = std::env::var("KOGE29_VERIF_OUT").expect("KOGE29_VERIF_OUT");
    let limit_ms: u64 = std::env::var("KOGE29_VERIF_CASE_LIMIT").ok().and_then(|v| v.parse::<u64>().ok()).unwrap_or(180) * 1000;
    let reader = std::io::BufReader::new(std::fs::File::open(inp).expect("open case file"));
    let mut out = BufWriter::new(std::fs::File::create(&outp).expect("create output"));
    let current: std::sync::Arc<std::sync::Mutex<String>> = std::sync::Arc::new(std::sync::Mutex::new(String::new()));
    {
        let current = current.clone();
        let hang_path = format!("{}.hang", outp);
        std::thread::spawn(move || loop {
            std::thread::sleep(std::time::Duration::from_millis(500));
            let started = CASE_STARTED_MS.load(std::sync::atomic::Ordering::SeqCst);
            let seq = CASE_SEQ.load(std::sync::atomic::Ordering::SeqCst);
            if started != 0 && now_ms().saturating_sub(started) > limit_ms && seq == CASE_SEQ.load(std::sync::atomic::Ordering::SeqCst) {
                let id = current.lock().map(|g| g.clone()).unwrap_or_default();
                let _ = std::fs::write(&hang_path, id);
                std::process::exit(97);
            }
        });
    }
    let mut h = Harness::new();
    for line in reader.lines() {
        let line = line.unwrap();
        let line = line.trim();
        if line.is_empty() || line.starts_with('#') {
            continue;
        }
        if let Ok(mut g) = current.lock() {
            *g = line.split(' ').next().unwrap_or("").to_string();
        }
        CASE_SEQ.fetch_add(1, std::sync::atomic::Ordering::SeqCst);
        CASE_STARTED_MS.store(now_ms(), std::sync::atomic::Ordering::SeqCst);
        h.run_case(line, &mut out);
        CASE_STARTED_MS.store(0, std::sync::atomic::Ordering::SeqCst);
        out.flush().unwrap();
    }
    out.flush().unwrap();
}
