import re,glob,sys
root=sys.argv[1] if len(sys.argv) > 1 else "/verif/coq"
files=['StepRefines2','StepRefines4','StepRefinesBit','StepRefinesCtl','StepRefinesL','StepRefinesMov4','StepRefinesMov6','StepRefinesMov78','StepRefinesMovL','StepRefinesMovL10','StepRefinesStc','StepRefinesStcExt']
out=[]
names=[]
for f in files:
    s=open('%s/Proofs/%s.v'%(root,f)).read()
    for m in re.finditer(r'Theorem (step_\w+)_proof ([^:]*?) :\n(.*?)\nProof\.', s, re.S):
        nm,args,stmt=m.groups()
        lines=stmt.rstrip().rstrip('.').split('\n')
        # join continuation lines: a hypothesis ends with '->'
        hyps=[]; cur=''
        for l in lines:
            cur=(cur+' '+l.strip()).strip()
            if cur.endswith('->'):
                hyps.append(cur); cur=''
        concl=cur
        sem=[h for h in hyps if h.startswith('sem_ref ')]
        chg=[h for h in hyps if '= Ok n (' in h]
        if len(sem)!=1 or len(chg)!=1 or not concl.startswith('step s = Ok n (') or '(set_opc' not in chg[0]:
            print("skip",nm, len(sem),len(chg),concl[:30], file=sys.stderr); continue
        mm=re.match(r'sem_ref (\(.*\)|\w+) (\d+) s = Some s\' ->',sem[0])
        I,L=mm.group(1),int(mm.group(2))
        P=re.search(r'\(set_opc (\(pc s(?: \+ \d+)?\)) s\'\)',concl).group(1)
        args2=' '.join(a for a in args.split() if a!='n')
        extra=''
        pre=''
        if nm in ('step_mov_postinc','step_mov_predec'):
            extra='z <> SL -> '
            pre='  match goal with Hz : ?z <> SL |- _ => destruct z; [| |contradiction] end.\n'
        hy=[]
        for h in hyps:
            if h is chg[0]: continue
            if h is sem[0]:
                hy.append('dom_c20 %s %d s = true -> bytes_ok (cbus s) ->'%(I,L))
            hy.append(h)
        body='\n  '.join(hy)
        thm='''Theorem %s_priced %s :
  %s%s
  step s = Ok (charge_ref %s %d s) (set_opc %s s').
Proof.
  intros.
%s  all: match goal with Hd : dom_c20 ?i ?len ?s0 = true, Hs : sem_ref ?i ?len ?s0 = Some ?s1, Hb : bytes_ok _ |- _ =>
    pose proof (charge_after_exec_proof i len s0 s1 _ eq_refl Hd eq_refl Hb Hs) as X end;
    (replace (pc s + %d - 2) with %s in X by lia);
    (eapply %s_proof; try eassumption; exact X).
Qed.
'''%(nm,args2,extra,body,I,L,P,pre,L,P,nm)
        out.append(thm); names.append(nm+'_priced')
hdr='''(* C20: every step theorem for a memory-operand, multi-word or control-transfer form, with its charge hypothesis discharged:
   inside the C20 domain the step charges exactly the reference's cycle table priced by the C19 price list.
   (generated from the statements of the step theorems by harness/genpriced.py; the proofs are checked like any other) *)
From Coq Require Import Bool ZArith Lia ZifyBool List.
From K Require Import Lib.Bits Lib.Types Model.Machine Model.Bus Model.Cost Model.Addressing Model.Alu Model.Exec Spec.Price Spec.ISA Spec.Domains
  Proofs.PriceProofs Proofs.RegProofs Proofs.MemProofs Proofs.StepProofs Proofs.CtlProofs Proofs.MovProofs Proofs.BitMemProofs Proofs.StcProofs Proofs.StcExtProofs
  Proofs.StepRefines Proofs.StepRefinesCtl Proofs.StepRefines2 Proofs.StepRefines4 Proofs.StepRefines6 Proofs.StepRefinesL Proofs.StepRefinesBit
  Proofs.StepRefinesStc Proofs.StepRefinesMov4 Proofs.StepRefinesMov6 Proofs.StepRefinesMovL Proofs.StepRefinesMov78 Proofs.StepRefinesMovL10
  Proofs.StepRefinesStcExt Proofs.ChargeProofs Proofs.ChargeTotals.
Import ListNotations.
Open Scope bool_scope. Open Scope Z_scope.
Ltac Zify.zify_post_hook ::= Z.div_mod_to_equations.

'''
open('%s/Proofs/StepPriced.v'%root,'w').write(hdr+'\n'.join(out))

print(len(out),"theorems")
