(* Extraction of the executable model, the reference and the domain predicates to OCaml.
   Only ExtrOcamlBasic is used: bool, option, unit, list, prod, sumbool, sumor and andb/orb are
   mapped to their OCaml counterparts; Z, positive, N, nat stay Coq datatypes. *)
From Coq Require Import ZArith List.
From K Require Import Lib.Types Model.Machine Model.Bus Model.Cost Model.Addressing Model.Exec Model.Periph Model.Ops Spec.Price Spec.MemMap Spec.ISA Spec.Domains Spec.PortSpec Spec.TimerSpec Model.Elf Model.Run Spec.ElfSpec Spec.RunRef.
Require Extraction.
Require Import ExtrOcamlBasic.
Extraction Language OCaml.
Extraction "model.ml"
  Machine.get_er Machine.set_er Machine.set_pc Machine.set_ccr Machine.set_opc
  Machine.set_regs Machine.set_bus Machine.set_ssum Machine.set_irq Machine.sget Machine.sset
  Ops.run_ops Ops.init_cpu Ops.poke Ops.mem_diff
  Bus.bus_read MemMap.astep MemMap.awrite MemMap.aread MemMap.accessible MemMap.plain MemMap.be_bytes
  Domains.ref_decode ISA.sem_ref Domains.charge_ref Domains.accesses
  Domains.dom_c01 Domains.dom_c02 Domains.dom_c03 Domains.dom_c04 Domains.dom_c05 Domains.dom_c06
  Domains.dom_c07a Domains.dom_c07b Domains.dom_c08 Domains.dom_c20 Domains.known_shal Domains.known_stc_predec
  Domains.is_exc ISA.reg32 Domains.dom_entry Domains.ref_entry Domains.ref_step Domains.ref_run Domains.ref_run_init Domains.boundary_ref Domains.mes_ref Domains.is_mes_call Domains.dom_mes Domains.exec_dom Domains.data_ok
  PortSpec.pstep PortSpec.p_read PortSpec.p_out PortSpec.port0
  TimerSpec.states_ref TimerSpec.write_tcr_ref TimerSpec.side_ok TimerSpec.mkTmr
  ISA.abs8 ISA.abs16 Run.escape RunRef.ref_run_t RunRef.tmr0
  ElfSpec.expected_of ElfSpec.candidates ElfSpec.wf_elf ElfSpec.img_end ElfSpec.ref_phdrs
  Price.price_ref Price.settings_of_area Price.on_chip_ram Price.area_of Price.dom_c19
  Z.of_nat Z.to_nat Z.add Z.mul Z.opp Z.div Z.modulo Z.eqb Z.ltb Z.leb Z.pow.
