(* Extraction of the executable model, the reference and the domain predicates to OCaml.
   Only ExtrOcamlBasic is used: bool, option, unit, list, prod, sumbool, sumor and andb/orb are
   mapped to their OCaml counterparts; Z, positive, N, nat stay Coq datatypes. *)
From Coq Require Import ZArith List.
From K Require Import Model.Machine Model.Bus Model.Cost Model.Addressing Model.Ops Spec.Price Spec.MemMap.
Require Extraction.
Require Import ExtrOcamlBasic.
Extraction Language OCaml.
Extraction "model.ml"
  Machine.get_er Machine.set_er Machine.set_pc Machine.set_ccr Machine.set_opc
  Machine.set_regs Machine.set_bus Machine.set_ssum Machine.set_irq Machine.sget Machine.sset
  Ops.run_ops Ops.init_cpu Ops.poke Ops.mem_diff
  Bus.bus_read MemMap.astep MemMap.awrite MemMap.aread MemMap.accessible MemMap.plain MemMap.be_bytes
  Price.price_ref Price.settings_of_area Price.on_chip_ram Price.area_of Price.dom_c19
  Z.of_nat Z.to_nat Z.add Z.mul Z.opp Z.div Z.modulo Z.eqb Z.ltb Z.leb Z.pow.
