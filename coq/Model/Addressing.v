(* Model of src/cpu/addressing_mode/*.rs : register lanes, absolute accesses, effective addresses. *)
From Coq Require Import Bool ZArith Lia List.
From K Require Import Model.Machine Model.Bus.
Open Scope bool_scope. Open Scope Z_scope.

Definition ADDRESS_MASK := 0xffffff.

(* ---- byte access through the bus ---- *)
Definition bread (a : Z) : M Z :=
  fun s => match bus_read (cbus s) a with Some v => Ok v s | None => Err end.
Definition bwrite (a v : Z) : M unit :=
  fun s => match bus_write (cbus s) a v with Some b => Ok tt (set_bus b s) | None => Err end.

(* ---- rn.rs ---- *)
Definition read_rn_b (r : Z) : M Z := fun s =>
  if (0 <=? r) && (r <=? 7) then Ok (Z.shiftr (get_er (er s) r) 8 mod 256) s
  else if (8 <=? r) && (r <=? 15) then Ok (get_er (er s) (r - 8) mod 256) s
  else Err.
Definition write_rn_b (r v : Z) : M unit := fun s =>
  if (0 <=? r) && (r <=? 7) then
    Ok tt (set_regs (set_er (er s) r (Z.lor (Z.land (get_er (er s) r) 0xffff00ff) (Z.shiftl v 8))) s)
  else if (8 <=? r) && (r <=? 15) then
    Ok tt (set_regs (set_er (er s) (r - 8) (Z.lor (Z.land (get_er (er s) (r - 8)) 0xffffff00) v)) s)
  else Err.
Definition read_rn_w (r : Z) : M Z := fun s =>
  if (0 <=? r) && (r <=? 7) then Ok (get_er (er s) r mod 65536) s
  else if (8 <=? r) && (r <=? 15) then Ok (Z.shiftr (get_er (er s) (r - 8)) 16 mod 65536) s
  else Err.
Definition write_rn_w (r v : Z) : M unit := fun s =>
  if (0 <=? r) && (r <=? 7) then
    Ok tt (set_regs (set_er (er s) r (Z.lor (Z.land (get_er (er s) r) 0xffff0000) v)) s)
  else if (8 <=? r) && (r <=? 15) then
    Ok tt (set_regs (set_er (er s) (r - 8) (Z.lor (Z.land (get_er (er s) (r - 8)) 0x0000ffff) (Z.shiftl v 16))) s)
  else Err.
Definition read_rn_l (r : Z) : M Z := fun s =>
  if (0 <=? r) && (r <=? 7) then Ok (get_er (er s) r) s else Err.
Definition write_rn_l (r v : Z) : M unit := fun s =>
  if (0 <=? r) && (r <=? 7) then Ok tt (set_regs (set_er (er s) r v) s) else Err.

(* ---- abs.rs ---- *)
Definition get_addr_abs8 (a : Z) : Z := Z.lor 0xffff00 a.
Definition get_addr_abs16 (a : Z) : Z := if Z.land a 0x8000 =? 0 then a else Z.lor 0xff0000 a.

Definition read_abs24_b (a : Z) : M Z := bread a.
Definition write_abs24_b (a v : Z) : M unit := bwrite a v.
Definition read_abs24_w (a : Z) : M Z :=
  hi <- bread a ;; lo <- bread (a + 1) ;; ret (Z.lor (Z.shiftl hi 8) lo).
Definition write_abs24_w (a v : Z) : M unit :=
  bwrite a (Z.shiftr v 8 mod 256) ;;; bwrite (a + 1) (v mod 256).
Definition read_abs24_l (a : Z) : M Z :=
  hi <- read_abs24_w a ;; lo <- read_abs24_w (a + 2) ;; ret (Z.lor (Z.shiftl hi 16) lo).
Definition write_abs24_l (a v : Z) : M unit :=
  write_abs24_w a (Z.shiftr v 16 mod 65536) ;;; write_abs24_w (a + 2) (v mod 65536).

Definition read_abs8_b (a : Z) : M Z := bread (get_addr_abs8 a).
Definition write_abs8_b (a v : Z) : M unit := bwrite (get_addr_abs8 a) v.
Definition read_abs8_l (a : Z) : M Z := read_abs24_l (get_addr_abs8 a).
Definition read_abs16_b (a : Z) : M Z := bread (get_addr_abs16 a).
Definition write_abs16_b (a v : Z) : M unit := bwrite (get_addr_abs16 a) v.
Definition read_abs16_w (a : Z) : M Z := read_abs24_w (get_addr_abs16 a).
Definition write_abs16_w (a v : Z) : M unit := write_abs24_w (get_addr_abs16 a) v.
Definition read_abs16_l (a : Z) : M Z := read_abs24_l (get_addr_abs16 a).
Definition write_abs16_l (a v : Z) : M unit := write_abs24_l (get_addr_abs16 a) v.

(* size-generic access: sz = 1, 2, 4 *)
Definition read_abs24 (sz a : Z) : M Z :=
  if sz =? 1 then read_abs24_b a else if sz =? 2 then read_abs24_w a else read_abs24_l a.
Definition write_abs24 (sz a v : Z) : M unit :=
  if sz =? 1 then write_abs24_b a v else if sz =? 2 then write_abs24_w a v else write_abs24_l a v.
Definition read_rn (sz r : Z) : M Z :=
  if sz =? 1 then read_rn_b r else if sz =? 2 then read_rn_w r else read_rn_l r.
Definition write_rn (sz r v : Z) : M unit :=
  if sz =? 1 then write_rn_b r v else if sz =? 2 then write_rn_w r v else write_rn_l r v.
