(* Model of src/bus.rs, src/ioport.rs and the TCR hook of src/modules.rs. *)
From Coq Require Import Bool ZArith Lia List.
From K Require Import Model.Machine.
Import ListNotations.
Open Scope bool_scope. Open Scope Z_scope.

Definition VEC_START := 0.          Definition VEC_END := 0xff.
Definition IO1_START := 0xfee000.   Definition IO1_END := 0xfee0ff.
Definition DRAM_START := 0x400000.  Definition DRAM_END := 0x5fffff.
Definition RAM_START := 0xffbf20.   Definition RAM_END := 0xffff1f.
Definition IO2_START := 0xffff20.   Definition IO2_END := 0xffffe9.

Definition ABWCR := 0xfee020. Definition ASTCR := 0xfee021.
Definition WCRH := 0xfee022.  Definition WCRL := 0xfee023.
Definition DRCRA := 0xfee026.

Definition TCR0 := 0xffff80.  Definition TCSR0 := 0xffff82.
Definition TCORA0 := 0xffff84. Definition TCORB0 := 0xffff86. Definition TCNT0 := 0xffff88.

Definition inr (lo hi a : Z) : bool := (lo <=? a) && (a <=? hi).

(* ---- Bus::read : the match arms in source order ---- *)
Definition bus_read (b : bus) (a : Z) : option Z :=
  if inr VEC_START VEC_END a then Some (sget (b_vec b) a)
  else if inr IO1_START IO1_END a then Some (sget (b_io1 b) (a - IO1_START))
  else if inr DRAM_START DRAM_END a then Some (sget (b_dram b) (a - DRAM_START))
  else if inr RAM_START RAM_END a then Some (sget (b_ram b) (a - RAM_START))
  else if inr IO2_START IO2_END a then Some (sget (b_io2 b) (a - IO2_START))
  else None.

(* ---- src/ioport.rs ---- *)
Definition DDR1 := 0xfee000.  Definition DR1 := 0xffffd0.
Definition read_ddr (b : bus) (port : Z) : Z := sget (b_io1 b) (DDR1 + port - 1 - IO1_START).
Definition read_dr (b : bus) (port : Z) : Z := sget (b_io2 b) (DR1 + port - 1 - IO2_START).
Definition write_dr (b : bus) (port v : Z) : bus := bset_io2 (sset (b_io2 b) (DR1 + port - 1 - IO2_START) v) b.
Definition lnot8 (x : Z) : Z := 255 - x.      (* `!x` on u8 *)

Definition send_io_port_value (b : bus) (port v : Z) : bus :=
  bset_msgs (b_msgs b ++ [MsgIoPort port v (b_sum b)]) b.

Definition write_port (b : bus) (port v : Z) : bus :=
  if (1 <=? port) && (port <=? 0xb) then
    let b1 := bset_pin (sset (b_pin b) (port - 1) v) b in
    let ddr := read_ddr b1 port in
    let dr := Z.lor (Z.land (read_dr b1 port) ddr) (Z.land (lnot8 ddr) v) in
    write_dr b1 port dr
  else b.

Definition on_write_ddr (b : bus) (a ddr : Z) : bus :=
  let port := a - DDR1 + 1 in
  let old_ddr := read_ddr b port in
  let latch := Z.lor (Z.land (read_dr b port) old_ddr) (Z.land (sget (b_latch b) (port - 1)) (lnot8 old_ddr)) in
  let b0 := bset_latch (sset (b_latch b) (port - 1) latch) b in
  let b1 := bset_io1 (sset (b_io1 b0) (a - IO1_START) ddr) b0 in
  let dr := Z.lor (Z.land latch ddr) (Z.land (lnot8 ddr) (sget (b_pin b1) (port - 1))) in
  let b2 := write_dr b1 port dr in
  send_io_port_value b2 port (Z.land (read_dr b2 port) ddr).

Definition on_write_dr (b : bus) (a dr : Z) : bus :=
  let port := a - DR1 + 1 in
  let ddr := read_ddr b port in
  let b0 := bset_latch (sset (b_latch b) (port - 1) dr) b in
  let real_dr := Z.lor (Z.land dr ddr) (Z.land (lnot8 ddr) (sget (b_pin b0) (port - 1))) in
  let b1 := write_dr b0 port real_dr in
  send_io_port_value b1 port (Z.land dr ddr).

(* ---- Timer8_0::update_tcr (src/modules/timer8.rs), reached via ModuleManager::write_registers ---- *)
Definition update_tcr (t : timer) (tcr : Z) : timer :=
  let cmib := negb (Z.land tcr 0x80 =? 0) in
  let cmia := negb (Z.land tcr 0x40 =? 0) in
  let ovi := negb (Z.land tcr 0x20 =? 0) in
  let clr := Z.land tcr 0x18 / 8 in
  let cks := Z.land tcr 7 in
  let presc := if cks =? 0 then 0 else if cks =? 1 then 8 else if cks =? 2 then 64
               else if cks =? 3 then 8192 else 0 in
  (* a newly selected clock starts a fresh prescaler period *)
  mkTimer (if presc =? t_presc t then t_state t else 0) presc cmib cmia ovi clr.

Definition write_registers (b : bus) (a v : Z) : bus :=
  if a =? TCR0 then bset_tmr (update_tcr (b_tmr b) v) b else b.

(* ---- Bus::write ---- *)
Definition bus_write (b : bus) (a v : Z) : option bus :=
  if inr VEC_START VEC_END a then Some (bset_vec (sset (b_vec b) a v) b)
  else if inr IO1_START IO1_END a then
    if (0xfee000 <=? a) && (a <=? 0xfee00a) then
      if v =? sget (b_io1 b) (a - IO1_START) then Some b else Some (on_write_ddr b a v)
    else Some (write_registers (bset_io1 (sset (b_io1 b) (a - IO1_START) v) b) a v)
  else if inr DRAM_START DRAM_END a then Some (bset_dram (sset (b_dram b) (a - DRAM_START) v) b)
  else if inr RAM_START RAM_END a then Some (bset_ram (sset (b_ram b) (a - RAM_START) v) b)
  else if inr IO2_START IO2_END a then
    if (0xffffd0 <=? a) && (a <=? 0xffffda) then Some (on_write_dr b a v)
    else Some (write_registers (bset_io2 (sset (b_io2 b) (a - IO2_START) v) b) a v)
  else None.

(* ---- Bus::get_area_index / check_dram_area ---- *)
Definition get_area_index (a : Z) : option Z :=
  if inr 0 0x1fffff a then Some 0 else if inr 0x200000 0x3fffff a then Some 1
  else if inr 0x400000 0x5fffff a then Some 2 else if inr 0x600000 0x7fffff a then Some 3
  else if inr 0x800000 0x9fffff a then Some 4 else if inr 0xa00000 0xbfffff a then Some 5
  else if inr 0xc00000 0xdfffff a then Some 6 else if inr 0xe00000 0xffffff a then Some 7
  else None.

Definition check_dram_area (b : bus) (area : Z) : option bool :=
  match bus_read b DRCRA with
  | None => None
  | Some d =>
    let reg := d / 32 in
    Some (if area =? 2 then 1 <=? reg else if area =? 3 then 2 <=? reg
          else if area =? 4 then 4 <=? reg else if area =? 5 then 5 <=? reg else false)
  end.
