(* Model of the ELF loader: src/elf.rs and the nom parsers src/elf/parse_*.rs, string_table.rs.
   The file is a list of bytes; the parsers are sequential big-endian readers over the remaining slice,
   exactly as the nom combinators consume their input.  `None` stands for an `unwrap()` on a parse error or an
   out-of-range slice index (the loader panics on malformed files; the properties are about valid ones). *)
From Coq Require Import Bool ZArith Lia List.
From K Require Import Lib.Types Model.Machine Model.Bus.
Import ListNotations.
Open Scope bool_scope. Open Scope Z_scope.

Definition PROGRAM_START_ADDR := 0x416900.
Definition SIZE_OF_TCB := 88.

(* ---- sequential readers ---- *)
Definition reader (A : Type) := list Z -> option (A * list Z).
Definition rret {A} (a : A) : reader A := fun l => Some (a, l).
Definition rbind {A B} (r : reader A) (f : A -> reader B) : reader B :=
  fun l => match r l with Some (a, l') => f a l' | None => None end.
Definition rd_u8 : reader Z := fun l => match l with b :: t => Some (b, t) | [] => None end.
Definition rd_be16 : reader Z := rbind rd_u8 (fun a => rbind rd_u8 (fun b => rret (a * 256 + b))).
Definition rd_be32 : reader Z := rbind rd_be16 (fun a => rbind rd_be16 (fun b => rret (a * 65536 + b))).
Fixpoint rd_count {A} (n : nat) (r : reader A) : reader (list A) :=
  match n with
  | O => rret []
  | S k => rbind r (fun a => rbind (rd_count k r) (fun t => rret (a :: t)))
  end.
Fixpoint bytes_eq (a b : list Z) : bool :=
  match a, b with [], [] => true | p :: x, q :: y => (p =? q) && bytes_eq x y | _, _ => false end.
(* nom's tag: the input must start with the given bytes *)
Definition rd_tag (bs : list Z) : reader unit :=
  fun l => if bytes_eq (firstn (length bs) l) bs then Some (tt, skipn (length bs) l) else None.

Declare Scope reader_scope.
Notation "x <~ r ;; f" := (rbind r (fun x => f)) (at level 61, r at next level, right associativity) : reader_scope.
Open Scope reader_scope.

Record ehdr := mkEhdr { e_phoff : Z; e_shoff : Z; e_phnum : Z; e_shnum : Z; e_shstrndx : Z }.
Record phdr := mkPhdr { p_type : Z; p_offset : Z; p_vaddr : Z; p_paddr : Z; p_filesz : Z; p_memsz : Z }.
Record shdr := mkShdr { sh_name : Z; sh_addr : Z; sh_offset : Z; sh_size : Z; sh_link : Z; sh_entsize : Z }.
Record sym := mkSym { st_name : Z; st_value : Z }.

(* parse_elf_header32: identification (magic, class, data, version, osabi, abiversion, 7 padding bytes), then the fields *)
Definition parse_elf_header32 : reader ehdr :=
  _m <~ rd_tag [0x7f; 69; 76; 70] ;;
  _class <~ rd_u8 ;; _data <~ rd_u8 ;; _ver <~ rd_u8 ;; _osabi <~ rd_u8 ;; _abiv <~ rd_u8 ;;
  _pad <~ rd_count 7 rd_u8 ;;
  _type <~ rd_be16 ;; _machine <~ rd_be16 ;; _version <~ rd_be32 ;; _entry <~ rd_be32 ;;
  phoff <~ rd_be32 ;; shoff <~ rd_be32 ;; _flags <~ rd_be32 ;; _ehsize <~ rd_be16 ;; _phentsize <~ rd_be16 ;;
  phnum <~ rd_be16 ;; _shentsize <~ rd_be16 ;; shnum <~ rd_be16 ;; shstrndx <~ rd_be16 ;;
  rret (mkEhdr phoff shoff phnum shnum shstrndx).

Definition parse_program_header32 : reader phdr :=
  ty <~ rd_be32 ;; offset <~ rd_be32 ;; vaddr <~ rd_be32 ;; paddr <~ rd_be32 ;;
  filesz <~ rd_be32 ;; memsz <~ rd_be32 ;; _flags <~ rd_be32 ;; _align <~ rd_be32 ;;
  rret (mkPhdr ty offset vaddr paddr filesz memsz).

Definition parse_section_header32 : reader shdr :=
  name <~ rd_be32 ;; _ty <~ rd_be32 ;; _flags <~ rd_be32 ;; addr <~ rd_be32 ;; offset <~ rd_be32 ;;
  size <~ rd_be32 ;; link <~ rd_be32 ;; _info <~ rd_be32 ;; _align <~ rd_be32 ;; entsize <~ rd_be32 ;;
  rret (mkShdr name addr offset size link entsize).

Definition parse_symbol32 : reader sym :=
  name <~ rd_be32 ;; value <~ rd_be32 ;; _size <~ rd_be32 ;; _info <~ rd_u8 ;; _other <~ rd_u8 ;; _shndx <~ rd_be16 ;;
  rret (mkSym name value).

(* parse_string_table_entry: ASCII graphic characters terminated by NUL *)
Definition is_graphic (c : Z) : bool := (0x21 <=? c) && (c <=? 0x7e).
Fixpoint parse_str (l : list Z) : option (list Z) :=
  match l with
  | [] => None
  | c :: t => if c =? 0 then Some []
              else if is_graphic c then match parse_str t with Some s => Some (c :: s) | None => None end
              else None
  end.

Definition slice_from (f : list Z) (off : Z) : option (list Z) :=
  if (0 <=? off) && (off <=? Z.of_nat (length f)) then Some (skipn (Z.to_nat off) f) else None.

(* ---- DRAM access as the loader does it (direct array indexing, index must be inside the array) ---- *)
Definition DRAM_SIZE := 0x200000.
Definition dram_put (b : bus) (i v : Z) : option bus :=
  if (0 <=? i) && (i <? DRAM_SIZE) then Some (bset_dram (sset (b_dram b) i v) b) else None.
Definition dram_get (b : bus) (i : Z) : option Z :=
  if (0 <=? i) && (i <? DRAM_SIZE) then Some (sget (b_dram b) i) else None.
Fixpoint dram_copy (b : bus) (i : Z) (bs : list Z) : option bus :=
  match bs with
  | [] => Some b
  | v :: t => match dram_put b i v with Some b' => dram_copy b' (i + 1) t | None => None end
  end.
Definition put_be32 (b : bus) (i v : Z) : option bus :=
  dram_copy b i [(v / 16777216) mod 256; (v / 65536) mod 256; (v / 256) mod 256; v mod 256].

Definition OFF := PROGRAM_START_ADDR - DRAM_START.       (* program_dram_offset *)

(* one PT_LOAD segment: copy_from_slice of [offset, offset + filesz) to dram[OFF + vaddr ..] *)
Definition load_segment (f : list Z) (b : bus) (ph : phdr) : option bus :=
  if p_type ph =? 1 then
    match slice_from f (p_offset ph) with
    | Some sl => if p_filesz ph <=? Z.of_nat (length sl) then dram_copy b (OFF + p_vaddr ph) (firstn (Z.to_nat (p_filesz ph)) sl) else None
    | None => None
    end
  else Some b.

Fixpoint load_segments (f : list Z) (b : bus) (phs : list phdr) : option bus :=
  match phs with
  | [] => Some b
  | ph :: t => match load_segment f b ph with Some b' => load_segments f b' t | None => None end
  end.

(* .got: add the load base to every 32-bit big-endian entry *)
Fixpoint relocate_got (b : bus) (i : Z) (n : nat) : option bus :=
  match n with
  | O => Some b
  | S k =>
    match dram_get b i, dram_get b (i + 1), dram_get b (i + 2), dram_get b (i + 3) with
    | Some b0, Some b1, Some b2, Some b3 =>
      let w := b0 * 16777216 + b1 * 65536 + b2 * 256 + b3 in
      match put_be32 b i ((w + PROGRAM_START_ADDR) mod 4294967296) with
      | Some b' => relocate_got b' (i + 4) k
      | None => None
      end
    | _, _, _, _ => None
    end
  end.

(* args.split_whitespace() on ASCII *)
Definition is_ws (c : Z) : bool := (c =? 32) || ((9 <=? c) && (c <=? 13)).
Fixpoint split_ws (l : list Z) (cur : list Z) : list (list Z) :=
  match l with
  | [] => match cur with [] => [] | _ => [rev cur] end
  | c :: t => if is_ws c then (match cur with [] => split_ws t [] | _ => rev cur :: split_ws t [] end)
              else split_ws t (c :: cur)
  end.

Definition prog_name : list Z := [112; 114; 111; 103; 46; 101; 108; 102].     (* "prog.elf" *)

(* the argv strings: pointer table entry then the NUL-terminated copy *)
Fixpoint put_args (b : bus) (argp a : Z) (ws : list (list Z)) : option bus :=
  match ws with
  | [] => Some b
  | w :: t =>
    match put_be32 b (argp - DRAM_START) a with
    | Some b1 =>
      match dram_copy b1 (a - DRAM_START) (w ++ [0]) with
      | Some b2 => put_args b2 (argp + 4) (a + Z.of_nat (length w) + 1) t
      | None => None
      end
    | None => None
    end
  end.

Definition align4 (a : Z) : Z := (a / 4) * 4.

(* image end: the highest PT_LOAD extent p_paddr + p_memsz *)
Definition image_end (phs : list phdr) : Z :=
  fold_left (fun acc ph => if p_type ph =? 1 then Z.max acc (p_memsz ph + p_paddr ph) else acc) phs 0.

Definition n_got := [46; 103; 111; 116].                          (* ".got" *)
Definition n_stack := [46; 115; 116; 97; 99; 107].                (* ".stack" *)
Definition n_symtab := [46; 115; 121; 109; 116; 97; 98].          (* ".symtab" *)
Definition n_exit := [95; 95; 95; 101; 120; 105; 116].            (* "___exit" *)

Record lstate := mkL { l_bus : bus; l_er : regs; l_exit : Z }.

(* one symbol of .symtab: ___exit sets the exit address *)
Definition sym_step (strs : list Z) (acc : option lstate) (sy : sym) : option lstate :=
  match acc with
  | None => None
  | Some st1 =>
    match slice_from strs (st_name sy) with
    | Some nm => match parse_str nm with          (* a name that does not parse reads "Error" *)
                 | Some s => if bytes_eq s n_exit then Some (mkL (l_bus st1) (l_er st1) ((st_value sy + PROGRAM_START_ADDR) mod 4294967296)) else Some st1
                 | None => Some st1
                 end
    | None => None        (* slice index out of range *)
    end
  end.

(* the per-section actions of load() *)
Definition do_section (f : list Z) (sht : list shdr) (phs : list phdr) (args : list Z) (name : list Z) (sh : shdr) (st : lstate)
  : option lstate :=
  if bytes_eq name n_got then
    match relocate_got (l_bus st) (OFF + sh_addr sh) (Z.to_nat (sh_size sh / 4)) with
    | Some b => Some (mkL b (set_er (l_er st) 5 ((sh_addr sh + PROGRAM_START_ADDR) mod 4294967296)) (l_exit st))
    | None => None
    end
  else if bytes_eq name n_stack then
    let a0 := align4 (PROGRAM_START_ADDR + image_end phs + sh_addr sh + 3) in
    let a1 := align4 (a0 + SIZE_OF_TCB + 3) in
    let ws := prog_name :: split_ws args [] in
    let n := Z.of_nat (length ws) in
    match put_args (l_bus st) a1 (a1 + 4 * (n + 1)) ws with
    | Some b =>
      Some (mkL b (set_er (set_er (set_er (l_er st) 7 ((a0 - 8) mod 4294967296)) 0 n) 1 (a1 mod 4294967296)) (l_exit st))
    | None => None
    end
  else if bytes_eq name n_symtab then
    if sh_entsize sh =? 0 then None          (* division by zero *)
    else
    match slice_from f (sh_offset sh), nth_error sht (Z.to_nat (sh_link sh)) with
    | Some sl, Some strh =>
      match rd_count (Z.to_nat (sh_size sh / sh_entsize sh)) parse_symbol32 sl, slice_from f (sh_offset strh) with
      | Some (syms, _), Some strs =>
        fold_left (sym_step strs) syms (Some st)
      | _, _ => None
      end
    | _, _ => None
    end
  else Some st.

Fixpoint do_sections (f : list Z) (sht : list shdr) (phs : list phdr) (args : list Z) (names : list (list Z)) (shs : list shdr) (st : lstate)
  : option lstate :=
  match names, shs with
  | nm :: nt, sh :: st' => match do_section f sht phs args nm sh st with Some s1 => do_sections f sht phs args nt st' s1 | None => None end
  | _, _ => Some st
  end.

Fixpoint section_names (strs : list Z) (shs : list shdr) : option (list (list Z)) :=
  match shs with
  | [] => Some []
  | sh :: t =>
    match slice_from strs (sh_name sh) with
    | Some l => match parse_str l, section_names strs t with Some nm, Some ns => Some (nm :: ns) | _, _ => None end
    | None => None
    end
  end.

(* elf::load(path, cpu, args) *)
Definition load (f : list Z) (args : list Z) (s : cpu) : option cpu :=
  match parse_elf_header32 f with
  | Some (hd, _) =>
    match slice_from f (e_shoff hd) with
    | Some shsl =>
      match rd_count (Z.to_nat (e_shnum hd)) parse_section_header32 shsl with
      | Some (sht, _) =>
        match nth_error sht (Z.to_nat (e_shstrndx hd)) with
        | Some strh =>
          match slice_from f (sh_offset strh) with
          | Some strs =>
            match section_names strs sht, slice_from f (e_phoff hd) with
            | Some names, Some phsl =>
              match rd_count (Z.to_nat (e_phnum hd)) parse_program_header32 phsl with
              | Some (phs, _) =>
                let er1 := set_er (er s) 2 PROGRAM_START_ADDR in
                match load_segments f (cbus s) phs with
                | Some b1 =>
                  match do_sections f sht phs args names sht (mkL b1 er1 (exit_addr s)) with
                  | Some st => Some (set_exit (l_exit st) (set_regs (l_er st) (set_bus (l_bus st) s)))
                  | None => None
                  end
                | None => None
                end
              | None => None
              end
            | _, _ => None
            end
          | None => None
          end
        | None => None
        end
      | None => None
      end
    | None => None
    end
  | None => None
  end.
