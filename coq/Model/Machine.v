(* Machine state of the model and the outcome monad.
   Mirrors `struct Cpu` / `struct Bus` of /repo (src/cpu.rs, src/bus.rs). *)
From Coq Require Import Bool ZArith Lia List FMapPositive.
Import ListNotations.
Open Scope bool_scope. Open Scope Z_scope.

(* ---------- byte stores: default content + overlay ---------- *)
Record store := mkStore { sdflt : Z -> Z; sov : PositiveMap.t Z }.

Definition skey (i : Z) : positive := Z.to_pos (i + 1).
Definition sget (m : store) (i : Z) : Z :=
  match PositiveMap.find (skey i) (sov m) with Some v => v | None => sdflt m i end.
Definition sset (m : store) (i v : Z) : store :=
  mkStore (sdflt m) (PositiveMap.add (skey i) v (sov m)).
Definition snew (d : Z -> Z) : store := mkStore d (PositiveMap.empty Z).

Lemma sget_sset m i j v : 0 <= i -> 0 <= j ->
  sget (sset m i v) j = if i =? j then v else sget m j.
Proof.
  intros Hi Hj. unfold sget, sset, skey; cbn [sov sdflt].
  destruct (Z.eqb_spec i j) as [->|Hne].
  - now rewrite PositiveMap.gss.
  - rewrite PositiveMap.gso; [reflexivity|]. intro H.
    apply (f_equal Z.pos) in H. rewrite !Z2Pos.id in H by lia. lia.
Qed.
Global Opaque sget sset.

(* ---------- general registers ER0-ER7 ---------- *)
Record regs := mkRegs { r0 : Z; r1 : Z; r2 : Z; r3 : Z; r4 : Z; r5 : Z; r6 : Z; r7 : Z }.

Definition get_er (r : regs) (i : Z) : Z :=
  if i =? 0 then r0 r else if i =? 1 then r1 r else if i =? 2 then r2 r else
  if i =? 3 then r3 r else if i =? 4 then r4 r else if i =? 5 then r5 r else
  if i =? 6 then r6 r else r7 r.

Definition set_er (r : regs) (i v : Z) : regs :=
  if i =? 0 then mkRegs v (r1 r) (r2 r) (r3 r) (r4 r) (r5 r) (r6 r) (r7 r) else
  if i =? 1 then mkRegs (r0 r) v (r2 r) (r3 r) (r4 r) (r5 r) (r6 r) (r7 r) else
  if i =? 2 then mkRegs (r0 r) (r1 r) v (r3 r) (r4 r) (r5 r) (r6 r) (r7 r) else
  if i =? 3 then mkRegs (r0 r) (r1 r) (r2 r) v (r4 r) (r5 r) (r6 r) (r7 r) else
  if i =? 4 then mkRegs (r0 r) (r1 r) (r2 r) (r3 r) v (r5 r) (r6 r) (r7 r) else
  if i =? 5 then mkRegs (r0 r) (r1 r) (r2 r) (r3 r) (r4 r) v (r6 r) (r7 r) else
  if i =? 6 then mkRegs (r0 r) (r1 r) (r2 r) (r3 r) (r4 r) (r5 r) v (r7 r) else
  mkRegs (r0 r) (r1 r) (r2 r) (r3 r) (r4 r) (r5 r) (r6 r) v.

Definition regs0 : regs := mkRegs 0 0 0 0 0 0 0 0.

(* ---------- messages sent on the control channel (formatted by the runner) ---------- *)
Inductive msg :=
| MsgIoPort (port value states : Z)      (* ioport:<port>:<value>:<states> *)
| MsgSync (total : Z)                     (* sync:<total> *)
| MsgStdout (bytes : list Z)              (* stdout:<text> *)
| MsgReady.

(* ---------- 8-bit timer channel 0 (src/modules/timer8.rs) ---------- *)
Record timer := mkTimer {
  t_state : Z;        (* residual states *)
  t_presc : Z;        (* 0 = stopped *)
  t_cmib : bool; t_cmia : bool; t_ovi : bool;
  t_clear : Z         (* 0 Forbidden, 1 CompareA, 2 CompareInputB, 3 InputB *)
}.
Definition timer0 : timer := mkTimer 0 0 false false false 0.

(* ---------- bus ---------- *)
Record bus := mkBus {
  b_vec : store;      (* exception_handling_vector  H'000000-H'0000FF *)
  b_dram : store;     (* dram                       H'400000-H'5FFFFF *)
  b_io1 : store;      (* io_registrs1               H'FEE000-H'FEE0FF *)
  b_ram : store;      (* memory                     H'FFBF20-H'FFFF1F *)
  b_io2 : store;      (* io_registrs2               H'FFFF20-H'FFFFE9 *)
  b_pin : store;      (* io_port_in[0..10] *)
  b_latch : store;    (* io_port_latch[0..10] *)
  b_sum : Z;          (* cpu_state_sum *)
  b_msgs : list msg;  (* everything sent so far, oldest first *)
  b_tmr : timer       (* the module manager's timer (reached through the bus on TCR writes) *)
}.

(* ---------- cpu ---------- *)
Record cpu := mkCpu {
  pc : Z; opc : Z; ccr : Z; er : regs;
  cbus : bus;
  irq : list Z;          (* pending interrupt requests, oldest first *)
  exit_addr : Z;
  ssum : Z;              (* state_sum *)
  ovf : bool;            (* build with arithmetic-overflow checks? *)
  sock : bool;           (* control socket attached (Cpu::send_message delivers) *)
  console : list Z;      (* bytes printed to the console *)
  fault : bool           (* fetch_fault: an instruction word could not be fetched *)
}.

(* record updates *)
Definition set_pc (v : Z) (s : cpu) : cpu :=
  mkCpu v (opc s) (ccr s) (er s) (cbus s) (irq s) (exit_addr s) (ssum s) (ovf s) (sock s) (console s) (fault s).
Definition set_opc (v : Z) (s : cpu) : cpu :=
  mkCpu (pc s) v (ccr s) (er s) (cbus s) (irq s) (exit_addr s) (ssum s) (ovf s) (sock s) (console s) (fault s).
Definition set_ccr (v : Z) (s : cpu) : cpu :=
  mkCpu (pc s) (opc s) v (er s) (cbus s) (irq s) (exit_addr s) (ssum s) (ovf s) (sock s) (console s) (fault s).
Definition set_regs (v : regs) (s : cpu) : cpu :=
  mkCpu (pc s) (opc s) (ccr s) v (cbus s) (irq s) (exit_addr s) (ssum s) (ovf s) (sock s) (console s) (fault s).
Definition set_bus (v : bus) (s : cpu) : cpu :=
  mkCpu (pc s) (opc s) (ccr s) (er s) v (irq s) (exit_addr s) (ssum s) (ovf s) (sock s) (console s) (fault s).
Definition set_irq (v : list Z) (s : cpu) : cpu :=
  mkCpu (pc s) (opc s) (ccr s) (er s) (cbus s) v (exit_addr s) (ssum s) (ovf s) (sock s) (console s) (fault s).
Definition set_ssum (v : Z) (s : cpu) : cpu :=
  mkCpu (pc s) (opc s) (ccr s) (er s) (cbus s) (irq s) (exit_addr s) v (ovf s) (sock s) (console s) (fault s).
Definition set_console (v : list Z) (s : cpu) : cpu :=
  mkCpu (pc s) (opc s) (ccr s) (er s) (cbus s) (irq s) (exit_addr s) (ssum s) (ovf s) (sock s) v (fault s).
Definition set_fault (v : bool) (s : cpu) : cpu :=
  mkCpu (pc s) (opc s) (ccr s) (er s) (cbus s) (irq s) (exit_addr s) (ssum s) (ovf s) (sock s) (console s) v.
Definition set_exit (v : Z) (s : cpu) : cpu :=
  mkCpu (pc s) (opc s) (ccr s) (er s) (cbus s) (irq s) v (ssum s) (ovf s) (sock s) (console s) (fault s).

Definition bset_vec v b := mkBus v (b_dram b) (b_io1 b) (b_ram b) (b_io2 b) (b_pin b) (b_latch b) (b_sum b) (b_msgs b) (b_tmr b).
Definition bset_dram v b := mkBus (b_vec b) v (b_io1 b) (b_ram b) (b_io2 b) (b_pin b) (b_latch b) (b_sum b) (b_msgs b) (b_tmr b).
Definition bset_io1 v b := mkBus (b_vec b) (b_dram b) v (b_ram b) (b_io2 b) (b_pin b) (b_latch b) (b_sum b) (b_msgs b) (b_tmr b).
Definition bset_ram v b := mkBus (b_vec b) (b_dram b) (b_io1 b) v (b_io2 b) (b_pin b) (b_latch b) (b_sum b) (b_msgs b) (b_tmr b).
Definition bset_io2 v b := mkBus (b_vec b) (b_dram b) (b_io1 b) (b_ram b) v (b_pin b) (b_latch b) (b_sum b) (b_msgs b) (b_tmr b).
Definition bset_pin v b := mkBus (b_vec b) (b_dram b) (b_io1 b) (b_ram b) (b_io2 b) v (b_latch b) (b_sum b) (b_msgs b) (b_tmr b).
Definition bset_latch v b := mkBus (b_vec b) (b_dram b) (b_io1 b) (b_ram b) (b_io2 b) (b_pin b) v (b_sum b) (b_msgs b) (b_tmr b).
Definition bset_sum v b := mkBus (b_vec b) (b_dram b) (b_io1 b) (b_ram b) (b_io2 b) (b_pin b) (b_latch b) v (b_msgs b) (b_tmr b).
Definition bset_msgs v b := mkBus (b_vec b) (b_dram b) (b_io1 b) (b_ram b) (b_io2 b) (b_pin b) (b_latch b) (b_sum b) v (b_tmr b).
Definition bset_tmr v b := mkBus (b_vec b) (b_dram b) (b_io1 b) (b_ram b) (b_io2 b) (b_pin b) (b_latch b) (b_sum b) (b_msgs b) v.

(* ---------- outcomes ---------- *)
Inductive outcome (A : Type) :=
| Ok (a : A) (s : cpu)
| Err                      (* an anyhow::Error returned through Result *)
| Panic.                   (* the emulator process would panic / abort *)
Arguments Ok {A}. Arguments Err {A}. Arguments Panic {A}.

Definition M (A : Type) := cpu -> outcome A.
Definition ret {A} (a : A) : M A := fun s => Ok a s.
Definition bind {A B} (m : M A) (f : A -> M B) : M B :=
  fun s => match m s with Ok a s' => f a s' | Err => Err | Panic => Panic end.
Definition fail {A} : M A := fun _ => Err.
Definition panic {A} : M A := fun _ => Panic.
Definition get : M cpu := fun s => Ok s s.
Definition put (s : cpu) : M unit := fun _ => Ok tt s.
Definition modify (f : cpu -> cpu) : M unit := fun s => Ok tt (f s).

Declare Scope monad_scope.
Notation "x <- m ;; f" := (bind m (fun x => f)) (at level 61, m at next level, right associativity) : monad_scope.
Notation "m ;;; f" := (bind m (fun _ => f)) (at level 61, right associativity) : monad_scope.
Open Scope monad_scope.

Lemma bind_ok {A B} (m : M A) (f : A -> M B) s a s' : m s = Ok a s' -> bind m f s = f a s'.
Proof. intros H. unfold bind. now rewrite H. Qed.
Lemma bind_ret {A B} (a : A) (f : A -> M B) s : bind (ret a) f s = f a s.
Proof. reflexivity. Qed.

(* Result<T> of a pure computation lifted into M *)
Definition lift {A} (o : option A) : M A := fun s => match o with Some a => Ok a s | None => Err end.

(* integer helpers: explicit wrap-around *)
Definition wrap (n x : Z) : Z := x mod 2^n.
Definition sgn (n x : Z) : Z := if x <? 2^(n-1) then x else x - 2^n.   (* `as iN` of an n-bit value *)
Definition b2z (b : bool) : Z := if b then 1 else 0.
