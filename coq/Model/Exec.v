(* Model of Cpu::fetch / Cpu::exec and of the instruction handlers
   (src/cpu.rs, src/cpu/instruction/*.rs, src/cpu/addressing_mode/{ern,disp,inc_ern,dec_ern,pc}.rs).

   `select1` / `select2` / `select3` mirror the pure part of the dispatch (the nested `match` on the
   opcode words, including the sub-dispatch inside mov_b / mov_w / mov_l / add_* / ...); `run_tag`
   mirrors the handler bodies.  Handlers that are literal copies of each other for the three operand
   sizes or for several operators are written once, parametrically. *)
From Coq Require Import Bool ZArith Lia List.
From K Require Import Lib.Types Lib.Utf8 Model.Machine Model.Bus Model.Cost Model.Addressing Model.Alu.
Import ListNotations.
Open Scope bool_scope. Open Scope Z_scope.

(* ------------------------------------------------------------------ tags *)
Inductive tag :=
| TUnimpl | TInvalid
| TMovRn (s : sz) | TMovImm (s : sz) | TMovErn (s : sz) | TMovDisp16 (s : sz) | TMovDisp24 (s : sz)
| TMovIncDec (s : sz) | TMovAbs8 | TMovAbs16 (s : sz) | TMovAbs24 (s : sz)
| TMovLPrefix | TStcPrefix | TLogicLPrefix | TMov78Prefix | TBitPrefix
| TAlu2Rn (o : alu2) (s : sz) | TAlu2Imm (o : alu2) (s : sz) | TLogicL (o : alu2)
| TAlu1 (o : alu1) (s : sz)
| TAdds (k : Z) | TSubs (k : Z) | TMulxu (s : sz) | TDivxu (s : sz)
| TBitRnImm (o : bop) | TBitRnRn (o : bop)
| TBitErnImm (o : bop) | TBitErnRn (o : bop) | TBitAbsImm (o : bop) | TBitAbsRn (o : bop)
| TBcc8 (cc : Z) | TBcc16 (cc : Z)
| TJmpErn | TJmpAbs | TJmpInd | TBsr8 | TBsr16 | TJsrErn | TJsrAbs | TJsrInd | TRts | TRte | TTrapa
| TStcB | TStcErn | TStcDisp16 | TStcDisp24 | TStcInc | TStcAbs16 | TStcAbs24.

(* ------------------------------------------------------------------ dispatch (pure) *)
Definition hi8 (op : Z) : Z := Z.shiftr op 8.          (* (opcode >> 8) as u8 *)
Definition lo8 (op : Z) : Z := Z.land op 0xff.         (* opcode as u8 *)
Definition nib (op k : Z) : Z := Z.land (Z.shiftr op (4 * (4 - k))) 0xf.   (* get_nibble_opcode *)
Definition between (lo hi x : Z) : bool := (lo <=? x) && (x <=? hi).

Definition sel_shift (l : Z) (ob ow ol : alu1) (ab aw al : alu1) (llong_hi : Z) : tag :=
  if between 0x00 0x0f l then TAlu1 ob SB else if between 0x10 0x1f l then TAlu1 ow SW
  else if between 0x30 llong_hi l then TAlu1 ol SL
  else if between 0x80 0x8f l then TAlu1 ab SB else if between 0x90 0x9f l then TAlu1 aw SW
  else if between 0xb0 0xb7 l then TAlu1 al SL else TUnimpl.

Definition select1 (op : Z) : tag :=
  let h := hi8 op in let l := lo8 op in
  if h =? 0x0c then TMovRn SB
  else if between 0xf0 0xff h then TMovImm SB
  else if h =? 0x68 then TMovErn SB
  else if h =? 0x6e then TMovDisp16 SB
  else if h =? 0x6c then TMovIncDec SB
  else if between 0x20 0x3f h then TMovAbs8
  else if h =? 0x6a then
    (let m := Z.land op 0xfff0 in
     if (m =? 0x6a00) || (m =? 0x6a80) then TMovAbs16 SB
     else if (m =? 0x6a20) || (m =? 0x6aa0) then TMovAbs24 SB else TInvalid)
  else if h =? 0x0d then TMovRn SW
  else if h =? 0x69 then TMovErn SW
  else if h =? 0x6f then TMovDisp16 SW
  else if h =? 0x6d then TMovIncDec SW
  else if h =? 0x6b then
    (let m := Z.land op 0xfff0 in
     if (m =? 0x6b00) || (m =? 0x6b80) then TMovAbs16 SW
     else if (m =? 0x6b20) || (m =? 0x6ba0) then TMovAbs24 SW else TInvalid)
  else if h =? 0x0f then (if Z.land op 0xff80 =? 0x0f80 then TMovRn SL else TUnimpl)
  else if h =? 0x01 then
    (if l =? 0x00 then TMovLPrefix else if l =? 0x40 then TStcPrefix
     else if l =? 0xf0 then TLogicLPrefix else TUnimpl)
  else if h =? 0x02 then TStcB
  else if h =? 0x50 then TMulxu SB else if h =? 0x52 then TMulxu SW
  else if h =? 0x51 then TDivxu SB else if h =? 0x53 then TDivxu SW
  else if h =? 0x55 then TBsr8 else if h =? 0x5c then TBsr16
  else if h =? 0x60 then TBitRnRn BSet else if h =? 0x61 then TBitRnRn BNot
  else if h =? 0x62 then TBitRnRn BClr else if h =? 0x63 then TBitRnRn BTst
  else if h =? 0x67 then (if Z.land op 0x80 =? 0 then TBitRnImm BSt else TBitRnImm BISt)
  else if h =? 0x70 then TBitRnImm BSet else if h =? 0x71 then TBitRnImm BNot
  else if h =? 0x72 then TBitRnImm BClr else if h =? 0x73 then TBitRnImm BTst
  else if h =? 0x74 then (if Z.land op 0x80 =? 0 then TBitRnImm BOr else TBitRnImm BIOr)
  else if h =? 0x75 then (if Z.land op 0x80 =? 0 then TBitRnImm BXor else TBitRnImm BIXor)
  else if h =? 0x76 then (if Z.land op 0x80 =? 0 then TBitRnImm BAnd else TBitRnImm BIAnd)
  else if h =? 0x77 then (if Z.land op 0x80 =? 0 then TBitRnImm BLd else TBitRnImm BILd)
  else if h =? 0x78 then TMov78Prefix
  else if h =? 0x79 then
    (let m := Z.land op 0xf0 in
     if m =? 0x00 then TMovImm SW else if m =? 0x10 then TAlu2Imm AAdd SW
     else if m =? 0x20 then TAlu2Imm ACmp SW else if m =? 0x30 then TAlu2Imm ASub SW
     else if m =? 0x40 then TAlu2Imm AOr SW else if m =? 0x50 then TAlu2Imm AXor SW
     else if m =? 0x60 then TAlu2Imm AAnd SW else TUnimpl)
  else if h =? 0x7a then
    (let m := Z.land op 0xf0 in
     if m =? 0x00 then (if Z.land op 0xfff8 =? 0x7a00 then TMovImm SL else TUnimpl)
     else if m =? 0x10 then TAlu2Imm AAdd SL
     else if m =? 0x20 then TAlu2Imm ACmp SL else if m =? 0x30 then TAlu2Imm ASub SL
     else if m =? 0x40 then TAlu2Imm AOr SL else if m =? 0x50 then TAlu2Imm AXor SL
     else if m =? 0x60 then TAlu2Imm AAnd SL else TUnimpl)
  else if between 0x7c 0x7f h then TBitPrefix
  else if h =? 0x0a then
    (if between 0x00 0x0f l then TAlu1 UInc1 SB else if between 0x80 0xf7 l then TAlu2Rn AAdd SL else TUnimpl)
  else if h =? 0x0b then
    (if between 0x50 0x5f l then TAlu1 UInc1 SW else if between 0xd0 0xdf l then TAlu1 UInc2 SW
     else if between 0x70 0x77 l then TAlu1 UInc1 SL else if between 0xf0 0xf7 l then TAlu1 UInc2 SL
     else if between 0x00 0x07 l then TAdds 1 else if between 0x80 0x87 l then TAdds 2
     else if between 0x90 0x97 l then TAdds 4 else TUnimpl)
  else if h =? 0x10 then sel_shift l UShll UShll UShll UShal UShal UShal 0x37
  else if h =? 0x11 then sel_shift l UShlr UShlr UShlr UShar UShar UShar 0x3f
  else if h =? 0x12 then sel_shift l URotxl URotxl URotxl URotl URotl URotl 0x37
  else if h =? 0x13 then sel_shift l URotxr URotxr URotxr URotr URotr URotr 0x37
  else if h =? 0x17 then
    (if between 0x00 0x0f l then TAlu1 UNot SB else if between 0x10 0x1f l then TAlu1 UNot SW
     else if between 0x30 0x37 l then TAlu1 UNot SL else if between 0x50 0x5f l then TAlu1 UExtu SW
     else if between 0x70 0x77 l then TAlu1 UExtu SL else if between 0x80 0x8f l then TAlu1 UNeg SB
     else if between 0x90 0x9f l then TAlu1 UNeg SW else if between 0xb0 0xb7 l then TAlu1 UNeg SL
     else TUnimpl)
  else if h =? 0x1a then
    (if between 0x00 0x0f l then TAlu1 UDec1 SB else if between 0x80 0xf7 l then TAlu2Rn ASub SL else TUnimpl)
  else if h =? 0x1b then
    (if between 0x50 0x5f l then TAlu1 UDec1 SW else if between 0xd0 0xdf l then TAlu1 UDec2 SW
     else if between 0x70 0x77 l then TAlu1 UDec1 SL else if between 0xf0 0xf7 l then TAlu1 UDec2 SL
     else if between 0x00 0x07 l then TSubs 1 else if between 0x80 0x87 l then TSubs 2
     else if between 0x90 0x97 l then TSubs 4 else TUnimpl)
  else if between 0x80 0x8f h then TAlu2Imm AAdd SB
  else if h =? 0x08 then TAlu2Rn AAdd SB
  else if h =? 0x09 then TAlu2Rn AAdd SW
  else if h =? 0x18 then TAlu2Rn ASub SB
  else if h =? 0x19 then TAlu2Rn ASub SW
  else if h =? 0x1c then TAlu2Rn ACmp SB
  else if between 0xa0 0xaf h then TAlu2Imm ACmp SB
  else if h =? 0x1d then TAlu2Rn ACmp SW
  else if h =? 0x1f then (if Z.land op 0x80 =? 0x80 then TAlu2Rn ACmp SL else TUnimpl)
  else if between 0xc0 0xcf h then TAlu2Imm AOr SB
  else if h =? 0x14 then TAlu2Rn AOr SB else if h =? 0x64 then TAlu2Rn AOr SW
  else if between 0xd0 0xdf h then TAlu2Imm AXor SB
  else if h =? 0x15 then TAlu2Rn AXor SB else if h =? 0x65 then TAlu2Rn AXor SW
  else if between 0xe0 0xef h then TAlu2Imm AAnd SB
  else if h =? 0x16 then TAlu2Rn AAnd SB else if h =? 0x66 then TAlu2Rn AAnd SW
  else if between 0x90 0x9f h then TAlu2Imm AAddx SB
  else if h =? 0x0e then TAlu2Rn AAddx SB
  else if h =? 0x59 then TJmpErn else if h =? 0x5a then TJmpAbs else if h =? 0x5b then TJmpInd
  else if h =? 0x5d then TJsrErn else if h =? 0x5e then TJsrAbs else if h =? 0x5f then TJsrInd
  else if between 0x40 0x4f h then TBcc8 (h - 0x40)
  else if h =? 0x58 then (if Z.land l 0x0f =? 0 then TBcc16 (Z.shiftr l 4) else TInvalid)
  else if h =? 0x54 then TRts else if h =? 0x56 then TRte else if h =? 0x57 then TTrapa
  else TUnimpl.

(* second word, after a prefix *)
Definition select_movl (op2 : Z) : tag :=
  let h := hi8 op2 in
  if h =? 0x69 then TMovErn SL else if h =? 0x6f then TMovDisp16 SL
  else if h =? 0x78 then TMovDisp24 SL else if h =? 0x6d then TMovIncDec SL
  else if h =? 0x6b then
    (let m := Z.land op2 0xfff0 in
     if (m =? 0x6b00) || (m =? 0x6b80) then TMovAbs16 SL
     else if (m =? 0x6b20) || (m =? 0x6ba0) then TMovAbs24 SL else TInvalid)
  else TInvalid.

(* 0x0140: STC.W forms; the load direction (LDC) is rejected *)
Definition select_stc (op2 : Z) : tag :=
  let h := hi8 op2 in
  let store := Z.land op2 0x80 =? 0x80 in
  if h =? 0x69 then (if store then TStcErn else TUnimpl)
  else if h =? 0x6f then (if store then TStcDisp16 else TUnimpl)
  else if h =? 0x78 then TStcDisp24
  else if h =? 0x6d then (if store then TStcInc else TUnimpl)
  else if h =? 0x6b then (if lo8 op2 =? 0x80 then TStcAbs16 else if lo8 op2 =? 0xa0 then TStcAbs24 else TUnimpl)
  else TUnimpl.

Definition select_logicl (op2 : Z) : tag :=
  let h := hi8 op2 in
  if h =? 0x64 then TLogicL AOr else if h =? 0x65 then TLogicL AXor
  else if h =? 0x66 then TLogicL AAnd else TUnimpl.

Definition select_78 (op2 : Z) : tag :=
  let h := hi8 op2 in
  if h =? 0x6a then TMovDisp24 SB else if h =? 0x6b then TMovDisp24 SW else TUnimpl.

(* 0x7c-0x7f: bit instructions on @ERd / @aa:8; keyed on opcode2 & 0xff80, then on opcode2 & 0xff0f
   inside bset/bnot/bclr *)
Definition select_bit (op op2 : Z) : tag :=
  let h := hi8 op in
  let m := Z.land op2 0xff80 in
  let ern := (h =? 0x7c) || (h =? 0x7d) in
  let imm o := if ern then TBitErnImm o else TBitAbsImm o in
  let rn o := if ern then TBitErnRn o else TBitAbsRn o in
  let rmw (o : bop) (ci cr : Z) :=
    let f := Z.land op2 0xff0f in
    if f =? ci then imm o else if f =? cr then rn o else TInvalid in
  if (h =? 0x7c) || (h =? 0x7e) then
    if (m =? 0x6300) || (m =? 0x6380) then rn BTst
    else if m =? 0x7300 then imm BTst
    else if m =? 0x7400 then imm BOr else if m =? 0x7480 then imm BIOr
    else if m =? 0x7500 then imm BXor else if m =? 0x7580 then imm BIXor
    else if m =? 0x7600 then imm BAnd else if m =? 0x7680 then imm BIAnd
    else if m =? 0x7700 then imm BLd else if m =? 0x7780 then imm BILd
    else TUnimpl
  else
    if (m =? 0x6000) || (m =? 0x6080) || (m =? 0x7000) then rmw BSet 0x7000 0x6000
    else if (m =? 0x6100) || (m =? 0x6180) || (m =? 0x7100) then rmw BNot 0x7100 0x6100
    else if (m =? 0x6200) || (m =? 0x6280) || (m =? 0x7200) then rmw BClr 0x7200 0x6200
    else if m =? 0x6700 then imm BSt else if m =? 0x6780 then imm BISt
    else TUnimpl.

(* ------------------------------------------------------------------ primitives *)
Definition u8add (a b : Z) : Z := (a + b) mod 256.

(* Cpu::fetch : an unmapped PC yields opcode 0 and sets the fetch-fault flag *)
Definition fetch : M Z := fun s =>
  let p := Z.land (pc s) 0xfffffffe in
  match bus_read (cbus s) p, bus_read (cbus s) (wrap 32 (p + 1)) with
  | Some h, Some l => Ok (Z.lor (Z.shiftl h 8) l) (set_pc (wrap 32 (pc s + 2)) (set_opc p s))
  | _, _ => Ok 0 (set_fault true (set_pc (wrap 32 (pc s + 2)) (set_opc p s)))    (* fetch_fault: reported by run() *)
  end.
Definition fetch32 : M Z := h <- fetch ;; l <- fetch ;; ret (Z.lor (Z.shiftl h 16) l).

Definition cs (kind n : Z) : M Z := fun s => lift (calc_state (cbus s) (opc s) kind n) s.
Definition csa (kind n addr : Z) : M Z := fun s => lift (calc_state_with_addr (cbus s) kind n addr) s.
Definition get_ccr : M Z := fun s => Ok (ccr s) s.
Definition put_ccr (v : Z) : M unit := modify (set_ccr v).
Definition get_pc : M Z := fun s => Ok (pc s) s.
Definition put_pc (v : Z) : M unit := modify (set_pc v).
Definition guard (b : bool) : M unit := if b then ret tt else fail.

(* effective addresses *)
Definition sext (n x : Z) : Z := sgn n x.
Definition get_addr_ern (r : Z) : M Z := a <- read_rn_l r ;; ret (Z.land a ADDRESS_MASK).
Definition get_addr_disp16 (r d : Z) : M Z :=
  a <- read_rn_l r ;; ret (Z.land (wrap 32 (a + sext 16 d)) ADDRESS_MASK).
Definition get_addr_disp24 (r d : Z) : M Z :=
  a <- read_rn_l r ;;
  if Z.land d 0x800000 =? 0 then ret (Z.land (wrap 32 (a + d)) ADDRESS_MASK)
  else ret (Z.land (wrap 32 (a + wrap 32 (0xff000000 + d))) ADDRESS_MASK).

(* @ERn+ / @-ERn: the full 32-bit register is updated, the access uses the low 24 bits *)
Definition read_inc_ern (s : sz) (r : Z) : M Z :=
  a <- read_rn_l r ;; v <- read_abs24 (bytes_of s) (Z.land a ADDRESS_MASK) ;;
  write_rn_l r (wrap 32 (a + bytes_of s)) ;;; ret v.
Definition write_inc_ern (s : sz) (r v : Z) : M unit :=
  a <- read_rn_l r ;; write_abs24 (bytes_of s) (Z.land a ADDRESS_MASK) v ;;;
  write_rn_l r (wrap 32 (a + bytes_of s)).
Definition write_dec_ern (s : sz) (r v : Z) : M unit :=
  a <- read_rn_l r ;;
  write_abs24 (bytes_of s) (Z.land (wrap 32 (a - bytes_of s)) ADDRESS_MASK) v ;;;
  write_rn_l r (wrap 32 (a - bytes_of s)).

(* pc_disp8 / pc_disp16 : checked_add_signed, then the parity test *)
Definition pc_disp (n d : Z) : M unit :=
  p <- get_pc ;;
  let t := p + sext n d in
  if (t <? 0) || (2^32 <=? t) then fail
  else put_pc t ;;; guard (t mod 2 =? 0).

(* ------------------------------------------------------------------ ALU dispatch *)
Definition alu2_fun (o : alu2) (n a b c : Z) : Z * Z :=
  match o with
  | AAdd => add_proc n a b c | ASub | ACmp => sub_calc n a b c
  | AAnd => and_proc n a b c | AOr => or_proc n a b c | AXor => xor_proc n a b c
  | AAddx => addx_proc a b c
  end.
Definition alu2_writes (o : alu2) : bool := match o with ACmp => false | _ => true end.

Definition alu1_fun (o : alu1) (n v c : Z) : Z * Z :=
  match o with
  | UNeg => neg_proc n v c | UNot => not_proc n v c | UExtu => extu_proc n v c
  | UInc1 => inc_proc n 1 v c | UInc2 => inc_proc n 2 v c
  | UDec1 => dec_proc n 1 v c | UDec2 => dec_proc n 2 v c
  | UShal => shal_proc n v c | UShar => shar_proc n v c | UShll => shll_proc n v c | UShlr => shlr_proc n v c
  | URotl => rotl_proc n v c | URotr => rotr_proc n v c | URotxl => rotxl_proc n v c | URotxr => rotxr_proc n v c
  end.

(* bit operations: given operand byte v, bit number k (0-7), ccr: new byte (if written) and new ccr *)
Definition bop_writes (o : bop) : bool :=
  match o with BSet | BNot | BClr | BSt | BISt => true | _ => false end.
Definition bop_fun (o : bop) (v k c : Z) : Z * Z :=
  let b := bit_of v k in let cy := ccr_get FC c in
  match o with
  | BSet => (bset_v v k, c) | BNot => (bnot_v v k, c) | BClr => (bclr_v v k, c)
  | BSt => (bst_v v k cy, c) | BISt => (bst_v v k (1 - cy), c)
  | BTst => (v, ccr_put FZ (b =? 0) c)
  | BLd => (v, ccr_put FC (b =? 1) c) | BILd => (v, ccr_put FC (b =? 0) c)
  | BAnd => (v, ccr_put FC ((b =? 1) && (cy =? 1)) c) | BIAnd => (v, ccr_put FC ((b =? 0) && (cy =? 1)) c)
  | BOr => (v, ccr_put FC ((b =? 1) || (cy =? 1)) c) | BIOr => (v, ccr_put FC ((b =? 0) || (cy =? 1)) c)
  | BXor => (v, ccr_put FC (negb (Bool.eqb (b =? 1) (cy =? 1))) c)
  | BIXor => (v, ccr_put FC (negb (Bool.eqb (b =? 0) (cy =? 1))) c)
  end.

(* Bcc condition table (bcc.rs) *)
Definition cond (cc c : Z) : bool :=
  let C := ccr_get FC c in let Zf := ccr_get FZ c in let N := ccr_get FN c in let V := ccr_get FV c in
  if cc =? 0 then true else if cc =? 1 then false
  else if cc =? 2 then Z.lor C Zf =? 0 else if cc =? 3 then Z.lor C Zf =? 1
  else if cc =? 4 then C =? 0 else if cc =? 5 then C =? 1
  else if cc =? 6 then Zf =? 0 else if cc =? 7 then Zf =? 1
  else if cc =? 8 then V =? 0 else if cc =? 9 then V =? 1
  else if cc =? 10 then N =? 0 else if cc =? 11 then N =? 1
  else if cc =? 12 then Z.lxor N V =? 0 else if cc =? 13 then Z.lxor N V =? 1
  else if cc =? 14 then Z.lor Zf (Z.lxor N V) =? 0 else Z.lor Zf (Z.lxor N V) =? 1.

(* ------------------------------------------------------------------ handlers *)
Definition data_kind (s : sz) : Z := match s with SB => KL | _ => KM end.
Definition data_cnt (s : sz) : Z := match s with SL => 2 | _ => 1 end.

Definition set_mov_flags (s : sz) (v : Z) : M unit := c <- get_ccr ;; put_ccr (mov_flags (bits_of s) v c).

(* MOV with a memory operand at a computed address: [load] selects the direction *)
Definition mov_mem (s : sz) (load : bool) (addr reg icnt : Z) (extra_n : Z) : M Z :=
  (if load then
     v <- read_abs24 (bytes_of s) addr ;; write_rn (bytes_of s) reg v ;;; set_mov_flags s v
   else
     v <- read_rn (bytes_of s) reg ;; write_abs24 (bytes_of s) addr v ;;; set_mov_flags s v) ;;;
  i <- cs KI icnt ;; d <- csa (data_kind s) (data_cnt s) addr ;;
  if extra_n =? 0 then ret (u8add i d) else (n <- cs KN extra_n ;; ret (u8add (u8add i d) n)).

(* MES system-call emulation of TRAPA #0 (trapa_emulate_mes2) *)
Fixpoint read_bytes (n : nat) (a : Z) : M (list Z) :=
  match n with
  | O => ret []
  | S k => b <- read_abs24_b a ;; t <- read_bytes k (wrap 32 (a + 1)) ;; ret (b :: t)
  end.
Definition send_cpu_message (m : msg) : M unit := fun s =>
  if sock s then Ok tt (set_bus (bset_msgs (b_msgs (cbus s) ++ [m]) (cbus s)) s) else Ok tt s.
Definition mes : M unit :=
  id <- read_rn_l 0 ;;
  if id =? 113 then
    arg <- read_rn_l 1 ;;
    a0 <- read_abs24_l arg ;; a1 <- read_abs24_l (wrap 32 (arg + 4)) ;;
    if (a0 <? 1) || (64 <=? a0) then ret tt
    else
      write_abs24_l (a0 * 4) (wrap 32 (a1 + 0x5a000000)) ;;;
      er5 <- read_rn_l 5 ;; write_abs24_l (0xfffd10 + a0 * 4) er5
  else if id =? 104 then
    arg <- read_rn_l 1 ;;
    _a0 <- read_abs24_l arg ;; a1 <- read_abs24_l (wrap 32 (arg + 4)) ;; a2 <- read_abs24_l (wrap 32 (arg + 8)) ;;
    (* the loop `for i in 0..length` fails at the first unmapped byte; no mapped region is longer than 2 MiB,
       so H'200001 consecutive reads always fail: the bound only keeps the model's recursion finite *)
    bs <- read_bytes (Z.to_nat (Z.min a2 0x200001)) a1 ;;
    guard (utf8_valid bs) ;;;                  (* String::from_utf8(chars)? *)
    modify (fun s => set_console (console s ++ bs) s) ;;;
    send_cpu_message (MsgStdout bs)
  else fail.

Definition push_l (v : Z) : M unit := write_dec_ern SL 7 v.
Definition sp_minus4 : M Z := a <- read_rn_l 7 ;; ret (Z.land (wrap 32 (a - 4)) ADDRESS_MASK).

(* handlers reached after a second (third) word has been fetched take the words as arguments *)
Definition run_tag (t : tag) (op op2 op3 : Z) : M Z :=
  match t with
  | TUnimpl | TInvalid => fail
  | TMovLPrefix | TStcPrefix | TLogicLPrefix | TMov78Prefix | TBitPrefix => fail   (* resolved by exec *)

  (* ---- MOV ---- *)
  | TMovRn s =>
    let rs := match s with SL => Z.land (nib op 3) 7 | _ => nib op 3 end in
    v <- read_rn (bytes_of s) rs ;; write_rn (bytes_of s) (nib op 4) v ;;; set_mov_flags s v ;;; cs KI 1
  | TMovImm SB => write_rn_b (nib op 2) (lo8 op) ;;; set_mov_flags SB (lo8 op) ;;; cs KI 1
  | TMovImm SW => imm <- fetch ;; write_rn_w (nib op 4) imm ;;; set_mov_flags SW imm ;;; cs KI 2
  | TMovImm SL => imm <- fetch32 ;; write_rn_l (Z.land op 0xf) imm ;;; set_mov_flags SL imm ;;; cs KI 3
  | TMovErn s =>
    let w := match s with SL => op2 | _ => op end in
    let load := Z.land w 0x80 =? 0 in
    let r := if load then nib w 3 else Z.land (nib w 3) 7 in
    a <- get_addr_ern r ;; mov_mem s load a (nib w 4) (match s with SL => 2 | _ => 1 end) 0
  | TMovDisp16 s =>
    let w := match s with SL => op2 | _ => op end in
    d <- fetch ;;
    let load := Z.land w 0x80 =? 0 in
    let r := if load then nib w 3 else Z.land (nib w 3) 7 in
    a <- get_addr_disp16 r d ;; mov_mem s load a (nib w 4) (match s with SL => 3 | _ => 2 end) 0
  | TMovDisp24 SL =>
    w3 <- fetch ;; d <- fetch32 ;;
    let load := Z.land op2 0x80 =? 0 in
    let r := if load then nib op2 3 else Z.land (nib op2 3) 7 in
    a <- get_addr_disp24 r d ;; mov_mem SL load a (nib w3 4) 5 0
  | TMovDisp24 s =>
    d <- fetch32 ;;
    let load := Z.land op2 0xfff0 =? (match s with SB => 0x6a20 | _ => 0x6b20 end) in
    let r := if load then nib op 3 else Z.land (nib op 3) 7 in
    a <- get_addr_disp24 r d ;; mov_mem s load a (nib op2 4) 4 0
  | TMovIncDec s =>
    let w := match s with SL => op2 | _ => op end in
    let icnt := match s with SL => 2 | _ => 1 end in
    if Z.land w 0x80 =? 0 then
      let r := nib w 3 in
      a0 <- read_rn_l r ;; let a := Z.land a0 ADDRESS_MASK in
      v <- read_inc_ern s r ;; write_rn (bytes_of s) (nib w 4) v ;;; set_mov_flags s v ;;;
      i <- cs KI icnt ;; d <- csa (data_kind s) (data_cnt s) a ;; n <- cs KN 2 ;; ret (u8add (u8add i d) n)
    else
      let r := Z.land (nib w 3) 7 in
      a0 <- read_rn_l r ;; let a := Z.land (wrap 32 (a0 - bytes_of s)) ADDRESS_MASK in
      v <- read_rn (bytes_of s) (nib w 4) ;; write_dec_ern s r v ;;; set_mov_flags s v ;;;
      i <- cs KI icnt ;; d <- csa (data_kind s) (data_cnt s) a ;; n <- cs KN 2 ;; ret (u8add (u8add i d) n)
  | TMovAbs8 => mov_mem SB (Z.land op 0xf000 =? 0x2000) (get_addr_abs8 (lo8 op)) (nib op 2) 1 0
  | TMovAbs16 s =>
    let w := match s with SL => op2 | _ => op end in
    a <- fetch ;;
    let load := Z.land w 0xfff0 =? (match s with SB => 0x6a00 | _ => 0x6b00 end) in
    mov_mem s load (get_addr_abs16 a) (nib w 4) (match s with SL => 3 | _ => 2 end) 0
  | TMovAbs24 s =>
    let w := match s with SL => op2 | _ => op end in
    a <- fetch32 ;;
    let load := Z.land w 0xfff0 =? (match s with SB => 0x6a20 | _ => 0x6b20 end) in
    mov_mem s load a (nib w 4) (match s with SL => 4 | _ => 3 end) 0

  (* ---- two-operand ALU ---- *)
  | TAlu2Rn o s =>
    let rs := match s with SL => Z.land (nib op 3) 7 | _ => nib op 3 end in
    let rd := nib op 4 in
    a <- read_rn (bytes_of s) rd ;; b <- read_rn (bytes_of s) rs ;; c <- get_ccr ;;
    let '(r, c') := alu2_fun o (bits_of s) a b c in
    put_ccr c' ;;; (if alu2_writes o then write_rn (bytes_of s) rd r else ret tt) ;;; cs KI 1
  | TLogicL o =>
    a <- read_rn_l (nib op2 4) ;; b <- read_rn_l (nib op2 3) ;; c <- get_ccr ;;
    let '(r, c') := alu2_fun o 32 a b c in
    write_rn_l (nib op2 4) r ;;; put_ccr c' ;;; cs KI 2
  | TAlu2Imm o SB =>
    a <- read_rn_b (nib op 2) ;; c <- get_ccr ;;
    let '(r, c') := alu2_fun o 8 a (lo8 op) c in
    put_ccr c' ;;; (if alu2_writes o then write_rn_b (nib op 2) r else ret tt) ;;; cs KI 1
  | TAlu2Imm o SW =>
    imm <- fetch ;; a <- read_rn_w (nib op 4) ;; c <- get_ccr ;;
    let '(r, c') := alu2_fun o 16 a imm c in
    put_ccr c' ;;; (if alu2_writes o then write_rn_w (nib op 4) r else ret tt) ;;; cs KI 2
  | TAlu2Imm o SL =>
    imm <- fetch32 ;; a <- read_rn_l (nib op 4) ;; c <- get_ccr ;;
    let '(r, c') := alu2_fun o 32 a imm c in
    put_ccr c' ;;; (if alu2_writes o then write_rn_l (nib op 4) r else ret tt) ;;; cs KI 3

  (* ---- one-operand ALU, ADDS/SUBS, MULXU, DIVXU ---- *)
  | TAlu1 o s =>
    v <- read_rn (bytes_of s) (nib op 4) ;; c <- get_ccr ;;
    let '(r, c') := alu1_fun o (bits_of s) v c in
    write_rn (bytes_of s) (nib op 4) r ;;; put_ccr c' ;;; cs KI 1
  | TAdds k => v <- read_rn_l (nib op 4) ;; write_rn_l (nib op 4) (wrap 32 (v + k)) ;;; cs KI 1
  | TSubs k => v <- read_rn_l (nib op 4) ;; write_rn_l (nib op 4) (wrap 32 (v - k)) ;;; cs KI 1
  | TMulxu SB =>
    rs <- read_rn_b (nib op 3) ;; rd <- read_rn_w (nib op 4) ;;
    write_rn_w (nib op 4) (Z.land rd 0xff * rs) ;;; i <- cs KI 1 ;; n <- cs KN 12 ;; ret (u8add i n)
  | TMulxu _ =>
    rs <- read_rn_w (nib op 3) ;; rd <- read_rn_l (nib op 4) ;;
    write_rn_l (nib op 4) (Z.land rd 0xffff * rs) ;;; i <- cs KI 1 ;; n <- cs KN 20 ;; ret (u8add i n)
  | TDivxu SB =>
    rd <- read_rn_w (nib op 4) ;; rs <- read_rn_b (nib op 3) ;; c <- get_ccr ;;
    let '(r, c') := divxu_proc 8 rd rs c in
    put_ccr c' ;;; write_rn_w (nib op 4) r ;;; i <- cs KI 1 ;; n <- cs KN 12 ;; ret (u8add i n)
  | TDivxu _ =>
    let rdi := Z.land (nib op 4) 7 in
    rd <- read_rn_l rdi ;; rs <- read_rn_w (nib op 3) ;; c <- get_ccr ;;
    let '(r, c') := divxu_proc 16 rd rs c in
    put_ccr c' ;;; write_rn_l rdi r ;;; i <- cs KI 1 ;; n <- cs KN 20 ;; ret (u8add i n)

  (* ---- bit manipulation ---- *)
  | TBitRnImm o =>
    v <- read_rn_b (nib op 4) ;; c <- get_ccr ;;
    let '(v', c') := bop_fun o v (Z.land (nib op 3) 7) c in
    (if bop_writes o then write_rn_b (nib op 4) v' else ret tt) ;;; put_ccr c' ;;; cs KI 1
  | TBitRnRn o =>
    k <- read_rn_b (nib op 3) ;; v <- read_rn_b (nib op 4) ;; c <- get_ccr ;;
    let '(v', c') := bop_fun o v (Z.land k 7) c in
    (if bop_writes o then write_rn_b (nib op 4) v' else ret tt) ;;; put_ccr c' ;;; cs KI 1
  | TBitErnImm o | TBitErnRn o | TBitAbsImm o | TBitAbsRn o =>
    a <- (match t with TBitErnImm _ | TBitErnRn _ => get_addr_ern (nib op 3) | _ => ret (get_addr_abs8 (lo8 op)) end) ;;
    k <- (match t with TBitErnRn _ | TBitAbsRn _ => read_rn_b (nib op2 3) | _ => ret (nib op2 3) end) ;;
    v <- read_abs24_b a ;; c <- get_ccr ;;
    let '(v', c') := bop_fun o v (Z.land k 7) c in
    (if bop_writes o then write_abs24_b a v' else ret tt) ;;; put_ccr c' ;;;
    i <- cs KI 2 ;; d <- csa KL (if bop_writes o then 2 else 1) a ;; ret (u8add i d)

  (* ---- branches, calls, returns ---- *)
  | TBcc8 cc =>
    c <- get_ccr ;; (if cond cc c then pc_disp 8 (lo8 op) else ret tt) ;;; cs KI 2
  | TBcc16 cc =>
    d <- fetch ;; c <- get_ccr ;; (if cond cc c then pc_disp 16 d else ret tt) ;;;
    i <- cs KI 2 ;; n <- cs KN 2 ;; ret (u8add i n)
  | TJmpErn => a <- read_rn_l (nib op 3) ;; put_pc (Z.land a ADDRESS_MASK) ;;; cs KI 2
  | TJmpAbs =>
    w <- fetch ;; put_pc (Z.lor (Z.shiftl (lo8 op) 16) w) ;;; i <- cs KI 2 ;; n <- cs KN 2 ;; ret (u8add i n)
  | TJmpInd =>
    a <- read_abs24_l (lo8 op) ;; put_pc (Z.land a ADDRESS_MASK) ;;;
    i <- cs KI 2 ;; j <- csa KJ 2 (lo8 op) ;; n <- cs KN 2 ;; ret (u8add (u8add i j) n)
  | TBsr8 =>
    sa <- sp_minus4 ;; p <- get_pc ;; push_l p ;;;
    put_pc (wrap 32 (p + sext 8 (lo8 op))) ;;;
    i <- cs KI 2 ;; k <- csa KK 2 sa ;; ret (u8add i k)
  | TBsr16 =>
    sa <- sp_minus4 ;; d <- fetch ;; p <- get_pc ;; push_l p ;;;
    put_pc (wrap 32 (p + sext 16 d)) ;;;
    i <- cs KI 2 ;; k <- csa KK 2 sa ;; n <- cs KN 2 ;; ret (u8add (u8add i k) n)
  | TJsrErn =>
    sa <- sp_minus4 ;; p <- get_pc ;; push_l p ;;;
    a <- read_rn_l (nib op 3) ;; put_pc (Z.land a ADDRESS_MASK) ;;;
    i <- cs KI 2 ;; k <- csa KK 2 sa ;; ret (u8add i k)
  | TJsrAbs =>
    sa <- sp_minus4 ;; w <- fetch ;; p <- get_pc ;; push_l p ;;;
    put_pc (Z.lor (Z.shiftl (lo8 op) 16) w) ;;;
    i <- cs KI 2 ;; k <- csa KK 2 sa ;; n <- cs KN 2 ;; ret (u8add (u8add i k) n)
  | TJsrInd =>
    sa <- sp_minus4 ;; p <- get_pc ;; push_l p ;;;
    a <- read_abs24_l (lo8 op) ;; put_pc (Z.land a ADDRESS_MASK) ;;;
    i <- cs KI 2 ;; j <- csa KJ 2 (lo8 op) ;; k <- csa KK 2 sa ;; ret (u8add (u8add i j) k)
  | TRts =>
    a0 <- read_rn_l 7 ;; v <- read_inc_ern SL 7 ;; put_pc (Z.land v ADDRESS_MASK) ;;;
    i <- cs KI 2 ;; k <- csa KK 2 (Z.land a0 ADDRESS_MASK) ;; n <- cs KN 2 ;; ret (u8add (u8add i k) n)
  | TRte =>
    a0 <- read_rn_l 7 ;; v <- read_inc_ern SL 7 ;;
    put_ccr (Z.shiftr v 24) ;;; put_pc (Z.land v ADDRESS_MASK) ;;;
    i <- cs KI 2 ;; k <- csa KK 2 (Z.land a0 ADDRESS_MASK) ;; n <- cs KN 2 ;; ret (u8add (u8add i k) n)
  | TTrapa =>
    a0 <- read_rn_l 7 ;;
    let imm := nib op 3 in
    if imm =? 0 then
      mes ;;;
      i <- cs KI 2 ;; k <- csa KK 2 (Z.land a0 ADDRESS_MASK) ;; n <- cs KN 4 ;; ret (u8add (u8add i k) n)
    else
      let sa := Z.land (wrap 32 (a0 - 4)) ADDRESS_MASK in
      c <- get_ccr ;; p <- get_pc ;; push_l (Z.lor (Z.shiftl c 24) p) ;;;
      d <- read_abs24_l (0x20 + 4 * imm) ;; put_pc (Z.land d ADDRESS_MASK) ;;;
      c2 <- get_ccr ;; put_ccr (ccr_put FI true c2) ;;;
      i <- cs KI 2 ;; j <- csa KJ 2 (0x20 + 4 * imm) ;; k <- csa KK 2 sa ;; n <- cs KN 4 ;;
      ret (u8add (u8add (u8add i j) k) n)

  (* ---- STC ---- *)
  | TStcB => c <- get_ccr ;; write_rn_b (nib op 4) c ;;; cs KI 1
  | TStcErn =>
    let r := Z.land (nib op2 3) 7 in
    a <- get_addr_ern r ;; c <- get_ccr ;; write_abs24_w a c ;;;
    i <- cs KI 2 ;; d <- csa KM 1 a ;; ret (u8add i d)
  | TStcDisp16 =>
    let r := Z.land (nib op2 3) 7 in
    dd <- fetch ;; a <- get_addr_disp16 r dd ;; c <- get_ccr ;; write_abs24_w a c ;;;
    i <- cs KI 3 ;; d <- csa KM 1 a ;; ret (u8add i d)
  | TStcDisp24 =>
    w3 <- fetch ;; guard (w3 =? 0x6ba0) ;;; dd <- fetch32 ;;
    a <- get_addr_disp24 (nib op2 3) dd ;; c <- get_ccr ;; write_abs24_w a c ;;;
    i <- cs KI 5 ;; d <- csa KM 1 a ;; ret (u8add i d)
  | TStcInc =>
    (* as coded: post-increment (pinned by test_stc_w_inc_ern; known finding C08) *)
    let r := Z.land (nib op2 3) 7 in
    a0 <- read_rn_l r ;; c <- get_ccr ;; write_inc_ern SW r c ;;;
    i <- cs KI 2 ;; d <- csa KM 1 (Z.land a0 ADDRESS_MASK) ;; n <- cs KN 2 ;; ret (u8add (u8add i d) n)
  | TStcAbs16 =>
    w <- fetch ;; c <- get_ccr ;; write_abs24_w (get_addr_abs16 w) c ;;;
    i <- cs KI 3 ;; d <- csa KM 1 (get_addr_abs16 w) ;; ret (u8add i d)
  | TStcAbs24 =>
    a <- fetch32 ;; c <- get_ccr ;; write_abs24_w a c ;;;
    i <- cs KI 4 ;; d <- csa KM 1 a ;; ret (u8add i d)
  end.

(* Cpu::exec *)
Definition exec (op : Z) : M Z :=
  match select1 op with
  | TMovLPrefix => op2 <- fetch ;; run_tag (select_movl op2) op op2 0
  | TStcPrefix => op2 <- fetch ;; run_tag (select_stc op2) op op2 0
  | TLogicLPrefix => op2 <- fetch ;; run_tag (select_logicl op2) op op2 0
  | TMov78Prefix => op2 <- fetch ;; run_tag (select_78 op2) op op2 0
  | TBitPrefix => op2 <- fetch ;; run_tag (select_bit op op2) op op2 0
  | t => run_tag t op 0 0
  end.

(* fetch + exec as run() (and the verification hook) perform them: a fetch fault turns the step into an error *)
Definition step : M Z := fun s =>
  match fetch s with
  | Ok op s1 =>
    match exec op s1 with
    | Ok n s2 => if fault s2 then Err else Ok n s2
    | Err => Err
    | Panic => Panic
    end
  | Err => Err
  | Panic => Panic
  end.
