(* Model of Cpu::get_wait_state / calc_state / calc_state_with_addr (src/cpu.rs:564-652).
   Results are u8: products wrap modulo 256 in a release build. *)
From Coq Require Import Bool ZArith Lia List.
From K Require Import Model.Machine Model.Bus.
Open Scope bool_scope. Open Scope Z_scope.

(* StateType *)
Definition KI := 0. Definition KJ := 1. Definition KK := 2.
Definition KL := 3. Definition KM := 4. Definition KN := 5.

Definition get_wait_state (b : bus) (area : Z) : option Z :=
  if (0 <=? area) && (area <=? 3) then
    match bus_read b WCRL with Some w => Some (Z.land (Z.shiftr w (area * 2)) 3) | None => None end
  else if (4 <=? area) && (area <=? 7) then
    match bus_read b WCRH with Some w => Some (Z.land (Z.shiftr w ((area - 4) * 2)) 3) | None => None end
  else None.

Definition u8mul (a b : Z) : Z := (a * b) mod 256.

Definition obind {A B} (o : option A) (f : A -> option B) : option B :=
  match o with Some a => f a | None => None end.

Definition is_word_kind (k : Z) : bool := (k =? KI) || (k =? KJ) || (k =? KK) || (k =? KM).

Definition calc_state_with_addr (b : bus) (kind n addr : Z) : option Z :=
  if kind =? KN then Some (u8mul n 1)
  else if inr RAM_START RAM_END addr then Some (u8mul n 2)
  else if inr 0 0xffffff addr then
    obind (get_area_index addr) (fun area =>
    obind (bus_read b ABWCR) (fun abw =>
    if Z.land (Z.shiftr abw area) 1 =? 1 then
      (* 8-bit bus *)
      obind (check_dram_area b area) (fun dram =>
      if dram then
        obind (get_wait_state b area) (fun w =>
        if is_word_kind kind then Some (u8mul n (8 + 2 * w)) else Some (u8mul n (4 + w)))
      else
        obind (bus_read b ASTCR) (fun ast =>
        if Z.land (Z.shiftr ast area) 1 =? 0 then
          if is_word_kind kind then Some (u8mul n 4) else Some (u8mul n 2)
        else
          obind (get_wait_state b area) (fun w =>
          if is_word_kind kind then Some (u8mul n (6 + 2 * w)) else Some (u8mul n (3 + w)))))
    else
      (* 16-bit bus *)
      obind (check_dram_area b area) (fun dram =>
      if dram then obind (get_wait_state b area) (fun w => Some (u8mul n (4 + w)))
      else
        obind (bus_read b ASTCR) (fun ast =>
        if Z.land (Z.shiftr ast area) 1 =? 0 then Some (u8mul n 2)
        else obind (get_wait_state b area) (fun w => Some (u8mul n (3 + w)))))))
  else None.

Definition calc_state (b : bus) (opc kind n : Z) : option Z :=
  if (kind =? KL) || (kind =? KM) then None else calc_state_with_addr b kind n opc.
