(* Model of Cpu::run (src/cpu.rs:104-225), the control-line dispatch (src/cpu/messages.rs) and the
   escaping of outgoing messages (src/socket.rs).  Lines and messages are byte lists. *)
From Coq Require Import Bool ZArith Lia List.
From K Require Import Lib.Types Model.Machine Model.Bus Model.Cost Model.Addressing Model.Alu Model.Exec Model.Periph.
Import ListNotations.
Open Scope bool_scope. Open Scope Z_scope.

Definition SYNC_INTERVAL := 2000000.      (* CPU_CLOCK / 10 *)

(* ------------------------------------------------------------------ control lines *)
Fixpoint split_on (sep : Z) (l : list Z) (cur : list Z) : list (list Z) :=
  match l with
  | [] => [rev cur]
  | c :: t => if c =? sep then rev cur :: split_on sep t [] else split_on sep t (c :: cur)
  end.
Definition split_colon (l : list Z) : list (list Z) := split_on 58 l [].

Fixpoint bytes_eqb (a b : list Z) : bool :=
  match a, b with
  | [], [] => true
  | x :: a', y :: b' => (x =? y) && bytes_eqb a' b'
  | _, _ => false
  end.

(* from_str_radix(_, 16) on an unsigned type with maximum [max] *)
Definition hexval (c : Z) : option Z :=
  if (48 <=? c) && (c <=? 57) then Some (c - 48)
  else if (97 <=? c) && (c <=? 102) then Some (c - 87)
  else if (65 <=? c) && (c <=? 70) then Some (c - 55)
  else None.
Fixpoint parse_digits (acc : Z) (l : list Z) (max : Z) : option Z :=
  match l with
  | [] => Some acc
  | c :: t => match hexval c with
              | Some d => let a := acc * 16 + d in if max <? a then None else parse_digits a t max
              | None => None
              end
  end.
Definition parse_hex (l : list Z) (max : Z) : option Z :=
  match l with
  | [] => None
  | 43 :: t => match t with [] => None | _ => parse_digits 0 t max end    (* a single leading '+' *)
  | _ => parse_digits 0 l max
  end.

Definition w_cmd := [99; 109; 100].            Definition w_pause := [112; 97; 117; 115; 101].
Definition w_start := [115; 116; 97; 114; 116]. Definition w_stop := [115; 116; 111; 112].
Definition w_u8 := [117; 56].                  Definition w_ioport := [105; 111; 112; 111; 114; 116].

Record ctl := mkCtl { c_cpu : cpu; c_paused : bool; c_stopped : bool }.

(* one received line *)
Definition apply_line (line : list Z) (c : ctl) : ctl :=
  if c_stopped c then c      (* run() has returned: later lines are moot *)
  else
    let fs := split_colon line in
    match fs with
    | f0 :: rest =>
      if bytes_eqb f0 w_cmd then
        match rest with
        | [a] => if bytes_eqb a w_pause then mkCtl (c_cpu c) true false
                 else if bytes_eqb a w_start then mkCtl (c_cpu c) false false
                 else if bytes_eqb a w_stop then mkCtl (c_cpu c) (c_paused c) true
                 else c
        | _ => c
        end
      else if bytes_eqb f0 w_u8 then
        match rest with
        | [a; v] => match parse_hex a 4294967295, parse_hex v 255 with
                    | Some addr, Some val =>
                      match bus_write (cbus (c_cpu c)) addr val with
                      | Some b => mkCtl (set_bus b (c_cpu c)) (c_paused c) false
                      | None => c
                      end
                    | _, _ => c
                    end
        | _ => c
        end
      else if bytes_eqb f0 w_ioport then
        match rest with
        | [p; v] => match parse_hex p 255, parse_hex v 255 with
                    | Some port, Some val => mkCtl (set_bus (write_port (cbus (c_cpu c)) port val) (c_cpu c)) (c_paused c) false
                    | _, _ => c
                    end
        | _ => c
        end
      else c
    | [] => c
    end.

Definition process_batch (lines : list (list Z)) (c : ctl) : ctl := fold_left (fun st l => apply_line l st) lines c.

(* ------------------------------------------------------------------ outgoing messages *)
(* message.replace('\\', "\\\\").replace('\n', "\\n") + "\n" *)
Fixpoint replace_byte (x : Z) (by_ : list Z) (l : list Z) : list Z :=
  match l with [] => [] | c :: t => (if c =? x then by_ else [c]) ++ replace_byte x by_ t end.
Definition escape (m : list Z) : list Z := replace_byte 10 [92; 110] (replace_byte 92 [92; 92] m) ++ [10].

(* number of sync messages sent so far *)
Fixpoint sync_count (ms : list msg) : Z :=
  match ms with [] => 0 | MsgSync _ :: t => 1 + sync_count t | _ :: t => sync_count t end.

(* ------------------------------------------------------------------ the loop *)
Definition init_registers : M unit :=
  bwrite ABWCR 0xff ;;; bwrite ASTCR 0xfb ;;; bwrite WCRH 0xff ;;; bwrite WCRL 0xcf ;;; bwrite DRCRA 0xe0.

Definition run_init : M unit :=
  modify (fun s => set_pc (get_er (er s) 2) s) ;;; init_registers.

Record rstate := mkR { r_ctl : ctl; r_sync : Z }.

Inductive iter_result :=
| Continue (r : rstate)
| Finished (s : cpu)          (* run() returned Ok *)
| Failed (s : cpu)            (* run() returned Err *)
| Crashed.                    (* panic *)

(* the instruction part of one iteration *)
Definition iter_insn (s : cpu) (sync : Z) (paused : bool) : iter_result :=
  match try_interrupt s with
  | Panic => Crashed
  | Err => Failed s
  | Ok _ s1 =>
    match step s1 with
    | Panic => Crashed
    | Err => Failed s1
    | Ok st s2 =>
      let state := st * 3 in
      let total := ssum s2 + state in
      let s3 := set_bus (bset_sum total (cbus s2)) (set_ssum total s2) in
      let sync1 := sync + state in
      let '(s4, sync2) :=
        if SYNC_INTERVAL <=? sync1 then
          ((if sock s3 then set_bus (bset_msgs (b_msgs (cbus s3) ++ [MsgSync total]) (cbus s3)) s3 else s3), sync1 - SYNC_INTERVAL)
        else (s3, sync1) in
      let s5 := update_timer state s4 in
      if pc s5 =? exit_addr s5 then Finished s5
      else Continue (mkR (mkCtl s5 paused false) sync2)
    end
  end.

(* one iteration: the batch of lines received since the last poll, then (unless paused) one instruction *)
Definition iter (batch : list (list Z)) (r : rstate) : iter_result :=
  let c := process_batch batch (r_ctl r) in
  if c_stopped c then Finished (c_cpu c)
  else if c_paused c then Continue (mkR c (r_sync r))
  else iter_insn (c_cpu c) (r_sync r) false.

(* run with one batch per iteration (missing batches are empty), bounded by fuel *)
Fixpoint run_iters (fuel : nat) (script : list (list (list Z))) (r : rstate) : option iter_result :=
  match fuel with
  | O => None
  | S k =>
    let batch := match script with b :: _ => b | [] => [] end in
    let rest := match script with _ :: t => t | [] => [] end in
    match iter batch r with
    | Continue r' => run_iters k rest r'
    | res => Some res
    end
  end.

Definition run (fuel : nat) (script : list (list (list Z))) (s : cpu) : option iter_result :=
  match run_init s with
  | Ok _ s1 => run_iters fuel script (mkR (mkCtl s1 false false) 0)
  | Err => Some (Failed s)
  | Panic => Some Crashed
  end.
