(* Model of src/cpu/interrupt_controller.rs and Timer8_0::update_timer8_0 (src/modules/timer8.rs). *)
From Coq Require Import Bool ZArith Lia List.
From K Require Import Model.Machine Model.Bus Model.Cost Model.Addressing Model.Alu Model.Exec.
Import ListNotations.
Open Scope bool_scope. Open Scope Z_scope.

(* ---- interrupt controller ---- *)
Definition request_interrupt (v : Z) (s : cpu) : cpu := set_irq (irq s ++ [v]) s.

Definition interrupt (v : Z) : M unit :=
  c <- get_ccr ;; p <- get_pc ;; push_l (Z.lor (Z.shiftl c 24) p) ;;;
  d <- read_abs24_l ((4 * v) mod 256) ;; put_pc (Z.land d ADDRESS_MASK) ;;;
  c2 <- get_ccr ;; put_ccr (ccr_put FI true c2).

(* accepted only while CCR.I is clear; otherwise the request stays queued *)
Definition try_interrupt : M unit := fun s =>
  if ccr_get FI (ccr s) =? 0 then
    match irq s with
    | [] => Ok tt s
    | v :: rest => interrupt v (set_irq rest s)
    end
  else Ok tt s.

(* ---- 8-bit timer channel 0 ---- *)
Definition io2_get (b : bus) (a : Z) : Z := sget (b_io2 b) (a - IO2_START).
Definition io2_set (b : bus) (a v : Z) : bus := bset_io2 (sset (b_io2 b) (a - IO2_START) v) b.

(* one count of TCNT: returns the bus and the interrupt requests raised, in order *)
Definition timer_tick (t : timer) (b : bus) : bus * list Z :=
  let tcnt0 := io2_get b TCNT0 in
  let overflowed := tcnt0 =? 255 in
  let tcnt1 := (tcnt0 + 1) mod 256 in
  let tcora := io2_get b TCORA0 in
  let tcorb := io2_get b TCORB0 in
  let tcsr0 := io2_get b TCSR0 in
  let ma := tcnt1 =? tcora in
  let tcsr1 := if ma then Z.lor tcsr0 0x40 else tcsr0 in
  let tcnt2 := if ma && (t_clear t =? 1) then 0 else tcnt1 in
  let rq1 := if ma && t_cmia t then [36] else [] in
  let mb := tcnt2 =? tcorb in
  let tcsr2 := if mb then Z.lor tcsr1 0x80 else tcsr1 in
  let tcnt3 := if mb && (t_clear t =? 2) then 0 else tcnt2 in
  let rq2 := if mb && t_cmib t then [37] else [] in
  let tcsr3 := if overflowed then Z.lor tcsr2 0x20 else tcsr2 in
  let rq3 := if overflowed && t_ovi t then [39] else [] in
  (io2_set (io2_set b TCNT0 tcnt3) TCSR0 tcsr3, rq1 ++ rq2 ++ rq3).

Fixpoint timer_ticks (n : nat) (t : timer) (b : bus) : bus * list Z :=
  match n with
  | O => (b, [])
  | S k => let '(b1, r1) := timer_tick t b in let '(b2, r2) := timer_ticks k t b1 in (b2, r1 ++ r2)
  end.

(* update_timer8_0(bus, state, interrupt_controller): the timer record lives in the module manager, the counter
   registers in the bus; the counts only read the configuration part of the record *)
Definition update_timer (state : Z) (s : cpu) : cpu :=
  let b := cbus s in let t := b_tmr b in
  if t_presc t =? 0 then s
  else
    let st := t_state t + state in
    let count := st / t_presc t in
    let t' := mkTimer (st - t_presc t * count) (t_presc t) (t_cmib t) (t_cmia t) (t_ovi t) (t_clear t) in
    let '(b1, rq) := timer_ticks (Z.to_nat count) t b in
    set_irq (irq s ++ rq) (set_bus (bset_tmr t' b1) s).
