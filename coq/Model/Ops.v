(* Case operations of the correspondence protocol (harness/PROTOCOL.md), interpreted on the
   model.  Everything the OCaml runner executes goes through [run_op]. *)
From Coq Require Import Bool ZArith Lia List FMapPositive.
From K Require Import Model.Machine Model.Bus Model.Cost Model.Addressing Model.Alu Model.Exec Model.Periph Model.Run Model.Elf.
Import ListNotations.
Open Scope bool_scope. Open Scope Z_scope.

Inductive op :=
| OPrice (kind n addr : Z)        (* calc_state_with_addr *)
| OPricePc (kind n : Z)           (* calc_state *)
| OW8 (addr v : Z) | OR8 (addr : Z)
| OPort (p v : Z)
| OStep | OStepN (n : Z) | OIrq (v : Z) | OBnd | OInt (v : Z) | OTick (n : Z)
| ORun (fuel : Z) (script : list (list (list Z)))   (* Cpu::run with a scripted control socket *)
| OLoad (file args : list Z)                      (* elf::load *)
| OWr (sz addr v : Z) | ORd (sz addr : Z)
| OWrA (mode sz addr v : Z) | ORdA (mode sz addr : Z)
| OSum (v : Z).                  (* the state count so far (time base of the ioport stamps), set from outside *)   (* through the @aa:8 / @aa:16 / @aa:24 helpers (mode 8 / 16 / 24) *)   (* 16/32-bit big-endian access through the CPU helpers *)

Inductive res := ROk | ROkV (v : Z) | RErr | RPanic.

Definition of_opt (o : option Z) : res := match o with Some v => ROkV v | None => RErr end.

Definition of_m {A} (m : M A) (f : A -> res) (s : cpu) : res * cpu :=
  match m s with Ok a s' => (f a, s') | Err => (RErr, s) | Panic => (RPanic, s) end.

Fixpoint stepn (n : nat) (acc : Z) : M Z :=
  match n with O => ret acc | S k => st <- step ;; stepn k (acc + st) end.

Definition run_op (o : op) (s : cpu) : res * cpu :=
  match o with
  | OStep => of_m step ROkV s
  | OStepN n => of_m (stepn (Z.to_nat n) 0) ROkV s
  | OIrq v => (ROk, request_interrupt v s)
  | OBnd => of_m try_interrupt (fun _ => ROk) s
  | OInt v => of_m (interrupt v) (fun _ => ROk) s
  | OTick n => (ROk, update_timer n s)
  | OSum v => (ROk, set_bus (bset_sum v (cbus s)) (set_ssum v s))
  | ORun fuel script =>
    match run (Z.to_nat fuel) script s with
    | Some (Finished s') => (ROk, s')
    | Some (Failed s') => (RErr, s')
    | Some Crashed => (RPanic, s)
    | Some (Continue r) => (RErr, c_cpu (r_ctl r))
    | None => (RPanic, s)       (* out of fuel: reported like a crash, never expected *)
    end
  | OPrice k n a => (of_opt (calc_state_with_addr (cbus s) k n a), s)
  | OPricePc k n => (of_opt (calc_state (cbus s) (opc s) k n), s)
  | OW8 a v => match bus_write (cbus s) a v with Some b => (ROk, set_bus b s) | None => (RErr, s) end
  | OR8 a => (of_opt (bus_read (cbus s) a), s)
  | OPort p v => (ROk, set_bus (write_port (cbus s) p v) s)
  | OLoad f args => match load f args s with Some s' => (ROk, s') | None => (RPanic, s) end
  | OWr sz a v => match write_abs24 sz a v s with Ok _ s' => (ROk, s') | Err => (RErr, s) | Panic => (RPanic, s) end
  | ORd sz a => match read_abs24 sz a s with Ok v s' => (ROkV v, s') | Err => (RErr, s) | Panic => (RPanic, s) end
  | OWrA mode sz a v =>
    let ea := if mode =? 8 then get_addr_abs8 a else if mode =? 16 then get_addr_abs16 a else a in
    match write_abs24 sz ea v s with Ok _ s' => (ROk, s') | Err => (RErr, s) | Panic => (RPanic, s) end
  | ORdA mode sz a =>
    let ea := if mode =? 8 then get_addr_abs8 a else if mode =? 16 then get_addr_abs16 a else a in
    match read_abs24 sz ea s with Ok v s' => (ROkV v, s') | Err => (RErr, s) | Panic => (RPanic, s) end
  end.

Definition is_stop (r : res) : bool := match r with RErr | RPanic => true | _ => false end.

Fixpoint run_ops (os : list op) (s : cpu) : list res * cpu :=
  match os with
  | [] => ([], s)
  | o :: rest =>
    let '(r, s1) := run_op o s in
    if is_stop r then ([r], s1) else let '(rs, s2) := run_ops rest s1 in (r :: rs, s2)
  end.

(* ---- prepared images ---- *)
Definition tag_byte (seed a : Z) : Z := ((a * 2654435761) / 128 + seed) mod 256.

Definition mk_store (tag : option Z) (lo : Z) : store :=
  snew (match tag with Some seed => fun i => tag_byte seed (lo + i) | None => fun _ => 0 end).

Definition init_bus (tag : option Z) : bus :=
  mkBus (mk_store tag VEC_START) (mk_store tag DRAM_START) (mk_store tag IO1_START)
        (mk_store tag RAM_START) (mk_store tag IO2_START) (snew (fun _ => 0)) (snew (fun _ => 0)) 0 [] timer0.

Definition init_cpu (tag : option Z) (ovf_ sock_ : bool) : cpu :=
  mkCpu 0 0 0 regs0 (init_bus tag) [] 0 0 ovf_ sock_ [] false.

(* direct poke of one byte into the backing store (no side effects); None if unmapped *)
Definition poke (b : bus) (a v : Z) : option bus :=
  if inr VEC_START VEC_END a then Some (bset_vec (sset (b_vec b) a v) b)
  else if inr IO1_START IO1_END a then Some (bset_io1 (sset (b_io1 b) (a - IO1_START) v) b)
  else if inr DRAM_START DRAM_END a then Some (bset_dram (sset (b_dram b) (a - DRAM_START) v) b)
  else if inr RAM_START RAM_END a then Some (bset_ram (sset (b_ram b) (a - RAM_START) v) b)
  else if inr IO2_START IO2_END a then Some (bset_io2 (sset (b_io2 b) (a - IO2_START) v) b)
  else None.

(* bytes of [m1] that differ from [m0], as (index, new value); only overlay keys can differ *)
Definition store_diff (m0 m1 : store) : list (Z * Z) :=
  fold_right (fun kv acc =>
      let i := Z.pos (fst kv) - 1 in
      if sget m1 i =? sget m0 i then acc else (i, sget m1 i) :: acc)
    [] (PositiveMap.elements (sov m1)).

Definition mem_diff (b0 b1 : bus) : list (Z * Z) :=
  map (fun p => (VEC_START + fst p, snd p)) (store_diff (b_vec b0) (b_vec b1)) ++
  map (fun p => (DRAM_START + fst p, snd p)) (store_diff (b_dram b0) (b_dram b1)) ++
  map (fun p => (IO1_START + fst p, snd p)) (store_diff (b_io1 b0) (b_io1 b1)) ++
  map (fun p => (RAM_START + fst p, snd p)) (store_diff (b_ram b0) (b_ram b1)) ++
  map (fun p => (IO2_START + fst p, snd p)) (store_diff (b_io2 b0) (b_io2 b1)).
