(* Code-style ALU and flag computations of src/cpu/instruction/*.rs.
   Width n is 8, 16 or 32; operands are unsigned n-bit values; `ccr` is the 8-bit CCR.
   Each function returns (result, new ccr).  The formulas follow the Rust source
   (`overflowing_add` on the signed view, masked partial sums, shifts and masks), the copies for
   the three widths being literal copies of each other. *)
From Coq Require Import Bool ZArith Lia List.
From K Require Import Model.Machine.
Open Scope bool_scope. Open Scope Z_scope.

(* CCR bit numbers *)
Definition FC := 0. Definition FV := 1. Definition FZ := 2. Definition FN := 3.
Definition FU := 4. Definition FH := 5. Definition FUI := 6. Definition FI := 7.

(* write_ccr / change_ccr : `ccr |= 1 << t` or `ccr &= !(1 << t)` *)
Definition ccr_put (t : Z) (b : bool) (ccr : Z) : Z :=
  if b then Z.lor ccr (Z.shiftl 1 t) else Z.land ccr (255 - Z.shiftl 1 t).
(* read_ccr : `(ccr >> t) & 1` *)
Definition ccr_get (t : Z) (ccr : Z) : Z := Z.land (Z.shiftr ccr t) 1.

Definition in_signed (n x : Z) : bool := (- 2^(n-1) <=? x) && (x <? 2^(n-1)).

(* ---- ADD (add_{b,w,l}_proc) ---- *)
Definition add_proc (n a b ccr : Z) : Z * Z :=
  let sv := sgn n a + sgn n b in
  let value := wrap n (a + b) in
  let overflowed := negb (in_signed n sv) in
  let m := 2^(n-4) - 1 in
  let c1 := ccr_put FH (m <? Z.land a m + Z.land b m) ccr in
  let c2 := ccr_put FN (sgn n value <? 0) c1 in
  let c3 := ccr_put FZ (value =? 0) c2 in
  let c4 := ccr_put FV overflowed c3 in
  let c5 := ccr_put FC (2^n - 1 <? a + b) c4 in
  (value, c5).

(* ---- SUB / CMP (sub_{b,w,l}_calc) ---- *)
Definition sub_calc (n a b ccr : Z) : Z * Z :=
  let sv := sgn n a - sgn n b in
  let value := wrap n (a - b) in
  let overflowed := negb (in_signed n sv) in
  let m := 2^(n-4) - 1 in
  let c1 := ccr_put FH (Z.land a m <? Z.land b m) ccr in
  let c2 := ccr_put FN (sgn n value <? 0) c1 in
  let c3 := ccr_put FZ (value =? 0) c2 in
  let c4 := ccr_put FV overflowed c3 in
  let c5 := ccr_put FC (a <? b) c4 in
  (value, c5).

(* ---- ADDX (addx_proc, 8 bit) ---- *)
Definition addx_proc (a b ccr : Z) : Z * Z :=
  let c := ccr_get FC ccr in
  let sum := a + b + c in
  let value := wrap 8 sum in
  let c1 := ccr_put FH (0x0f <? Z.land a 0x0f + Z.land b 0x0f + c) ccr in
  let c2 := ccr_put FN (sgn 8 value <? 0) c1 in
  let c3 := if value =? 0 then c2 else ccr_put FZ false c2 in
  let c4 := ccr_put FV (negb (Z.land (Z.land (Z.lxor a value) (Z.lxor b value)) 0x80 =? 0)) c3 in
  let c5 := ccr_put FC (0xff <? sum) c4 in
  (value, c5).

(* ---- NEG (neg_{b,w,l}_proc) ---- *)
Definition neg_proc (n v ccr : Z) : Z * Z :=
  let result := wrap n (0 - v) in
  let m := 2^(n-4) - 1 in
  let c1 := ccr_put FH (0 <? Z.land v m) ccr in
  let c2 := ccr_put FN (sgn n result <? 0) c1 in
  let c3 := ccr_put FZ (result =? 0) c2 in
  let c4 := ccr_put FV (v =? 2^(n-1)) c3 in
  let c5 := ccr_put FC (0 <? v) c4 in
  (result, c5).

(* ---- INC #1/#2 (inc.rs): wrapping add, V by comparing the result ---- *)
Definition inc_proc (n k v ccr : Z) : Z * Z :=
  let result := wrap n (v + k) in
  let c1 := ccr_put FN (sgn n result <? 0) ccr in
  let c2 := ccr_put FZ (result =? 0) c1 in
  let c3 := ccr_put FV (if k =? 1 then result =? 2^(n-1)
                        else (result =? 2^(n-1)) || (result =? 2^(n-1) + 1)) c2 in
  (result, c3).

(* ---- DEC #1/#2 (dec.rs): overflowing_sub on the signed view ---- *)
Definition dec_proc (n k v ccr : Z) : Z * Z :=
  let sv := sgn n v - k in
  let result := wrap n (v - k) in
  let c1 := ccr_put FN (sgn n result <? 0) ccr in
  let c2 := ccr_put FZ (result =? 0) c1 in
  let c3 := ccr_put FV (negb (in_signed n sv)) c2 in
  (result, c3).

(* ---- AND / OR / XOR / NOT / EXTU: N, Z from result, V = 0 ---- *)
Definition logic_flags (n result ccr : Z) : Z :=
  ccr_put FV false (ccr_put FZ (result =? 0) (ccr_put FN (sgn n result <? 0) ccr)).
Definition and_proc (n a b ccr : Z) : Z * Z := let r := Z.land a b in (r, logic_flags n r ccr).
Definition or_proc (n a b ccr : Z) : Z * Z := let r := Z.lor a b in (r, logic_flags n r ccr).
Definition xor_proc (n a b ccr : Z) : Z * Z := let r := Z.lxor a b in (r, logic_flags n r ccr).
Definition not_proc (n a ccr : Z) : Z * Z := let r := 2^n - 1 - a in (r, logic_flags n r ccr).
(* extu: result = v & (2^(n/2) - 1); N := 0 *)
Definition extu_proc (n v ccr : Z) : Z * Z :=
  let r := Z.land v (2^(n/2) - 1) in
  (r, ccr_put FV false (ccr_put FZ (r =? 0) (ccr_put FN false ccr))).

(* ---- shifts and rotates (one bit) ---- *)
Definition msb (n : Z) : Z := 2^(n-1).
(* SHLL: N from bit n-2 of the source, Z from (src << 1), V = 0, C = src >> (n-1) *)
Definition shll_proc (n v ccr : Z) : Z * Z :=
  let r := wrap n (Z.shiftl v 1) in
  let c1 := ccr_put FN (Z.land v (2^(n-2)) =? 2^(n-2)) ccr in
  let c2 := ccr_put FZ (r =? 0) c1 in
  let c3 := ccr_put FV false c2 in
  let c4 := ccr_put FC (Z.shiftr v (n-1) =? 1) c3 in
  (r, c4).
(* SHAL as coded: V = old most significant bit (pinned by test_shal_*; known finding C03) *)
Definition shal_proc (n v ccr : Z) : Z * Z :=
  let r := wrap n (Z.shiftl v 1) in
  let c1 := ccr_put FN (Z.land v (2^(n-2)) =? 2^(n-2)) ccr in
  let c2 := ccr_put FZ (r =? 0) c1 in
  let c3 := ccr_put FV (Z.land v (msb n) =? msb n) c2 in
  let c4 := ccr_put FC (Z.shiftr v (n-1) =? 1) c3 in
  (r, c4).
Definition shift_right_flags (n src r ccr : Z) (nflag : bool) : Z :=
  let c1 := ccr_put FN nflag ccr in
  let c2 := ccr_put FZ (r =? 0) c1 in
  let c3 := ccr_put FV false c2 in
  ccr_put FC (Z.land src 1 =? 1) c3.
Definition shlr_proc (n v ccr : Z) : Z * Z :=
  let r := Z.shiftr v 1 in (r, shift_right_flags n v r ccr false).
Definition shar_proc (n v ccr : Z) : Z * Z :=
  let r := Z.lor (Z.shiftr v 1) (Z.land v (msb n)) in
  (r, shift_right_flags n v r ccr (Z.land r (msb n) =? msb n)).
Definition rotl_proc (n v ccr : Z) : Z * Z :=
  let r := Z.lor (wrap n (Z.shiftl v 1)) (Z.shiftr v (n-1)) in
  let c1 := ccr_put FN (Z.land r (msb n) =? msb n) ccr in
  let c2 := ccr_put FZ (r =? 0) c1 in
  let c3 := ccr_put FV false c2 in
  (r, ccr_put FC (Z.land r 1 =? 1) c3).
Definition rotr_proc (n v ccr : Z) : Z * Z :=
  let r := Z.lor (Z.shiftr v 1) (wrap n (Z.shiftl v (n-1))) in
  (r, shift_right_flags n v r ccr (Z.land r (msb n) =? msb n)).
Definition rotxl_proc (n v ccr : Z) : Z * Z :=
  let r := Z.lor (wrap n (Z.shiftl v 1)) (Z.land ccr 1) in
  let c1 := ccr_put FN (Z.land r (msb n) =? msb n) ccr in
  let c2 := ccr_put FZ (r =? 0) c1 in
  let c3 := ccr_put FV false c2 in
  (r, ccr_put FC (Z.land (Z.shiftr v (n-1)) 1 =? 1) c3).
Definition rotxr_proc (n v ccr : Z) : Z * Z :=
  let r := Z.lor (Z.shiftr v 1) (Z.shiftl (Z.land ccr 1) (n-1)) in
  (r, shift_right_flags n v r ccr (Z.land r (msb n) =? msb n)).

(* ---- MOV flags (mov_*_proc_pcc) ---- *)
Definition mov_flags (n v ccr : Z) : Z := logic_flags n v ccr.

(* ---- MULXU / DIVXU ---- *)
(* mulxu: rd(low half) * rs ; divxu: quotient low / remainder high, N Z from the divisor *)
Definition divxu_proc (n rd rs ccr : Z) : Z * Z :=
  let c1 := ccr_put FN (sgn n rs <? 0) ccr in
  let c2 := ccr_put FZ (rs =? 0) c1 in
  let q := if rs =? 0 then 0 else rd / rs in
  let r := if rs =? 0 then 0 else rd mod rs in
  (Z.lor (wrap (2*n) (Z.shiftl r n)) (Z.land q (2^n - 1)), c2).

(* ---- bit manipulation on a byte ---- *)
Definition bit_of (v k : Z) : Z := Z.land (Z.shiftr v k) 1.
Definition bset_v (v k : Z) : Z := Z.lor v (Z.shiftl 1 k).
Definition bclr_v (v k : Z) : Z := Z.land v (255 - Z.shiftl 1 k).
Definition bnot_v (v k : Z) : Z := Z.lxor v (Z.shiftl 1 k).
Definition bst_v (v k c : Z) : Z := if c =? 1 then bset_v v k else bclr_v v k.
