(* C20: every step theorem for a memory-operand, multi-word or control-transfer form, with its charge hypothesis discharged:
   inside the C20 domain the step charges exactly the reference's cycle table priced by the C19 price list.
   (generated from the statements of the step theorems by harness/genpriced.py; the proofs are checked like any other) *)
From Coq Require Import Bool ZArith Lia ZifyBool List.
From K Require Import Lib.Bits Lib.Types Model.Machine Model.Bus Model.Cost Model.Addressing Model.Alu Model.Exec Spec.Price Spec.ISA Spec.Domains
  Proofs.PriceProofs Proofs.RegProofs Proofs.MemProofs Proofs.StepProofs Proofs.CtlProofs Proofs.MovProofs Proofs.BitMemProofs Proofs.StcProofs Proofs.StcExtProofs
  Proofs.StepRefines Proofs.StepRefinesCtl Proofs.StepRefines2 Proofs.StepRefines4 Proofs.StepRefines6 Proofs.StepRefinesL Proofs.StepRefinesBit
  Proofs.StepRefinesStc Proofs.StepRefinesMov4 Proofs.StepRefinesMov6 Proofs.StepRefinesMovL Proofs.StepRefinesMov78 Proofs.StepRefinesMovL10
  Proofs.StepRefinesStcExt Proofs.ChargeProofs Proofs.ChargeTotals.
Import ListNotations.
Open Scope bool_scope. Open Scope Z_scope.
Ltac Zify.zify_post_hook ::= Z.div_mod_to_equations.

Theorem step_mov_load_ern_priced s w w1 w2 w3 w4 z r rd s' :
  cpu_ok s -> bus_bytes_ok s -> fault s = false -> pc s mod 2 = 0 -> 0 <= pc s -> pc s + 2 < 4294967296 ->
  mem_read SW s (pc s) = Some w ->
  decode_ref w w1 w2 w3 w4 = Some (IMovLoad z (EInd r) rd, 2) ->
  dom_c20 (IMovLoad z (EInd r) rd) 2 s = true -> bytes_ok (cbus s) ->
  sem_ref (IMovLoad z (EInd r) rd) 2 s = Some s' ->
  step s = Ok (charge_ref (IMovLoad z (EInd r) rd) 2 s) (set_opc (pc s) s').
Proof.
  intros.
  all: match goal with Hd : dom_c20 ?i ?len ?s0 = true, Hs : sem_ref ?i ?len ?s0 = Some ?s1, Hb : bytes_ok _ |- _ =>
    pose proof (charge_after_exec_proof i len s0 s1 _ eq_refl Hd eq_refl Hb Hs) as X end;
    (replace (pc s + 2 - 2) with (pc s) in X by lia);
    (eapply step_mov_load_ern_proof; try eassumption; exact X).
Qed.

Theorem step_mov_store_ern_priced s w w1 w2 w3 w4 z rs r s' :
  cpu_ok s -> bus_bytes_ok s -> fault s = false -> pc s mod 2 = 0 -> 0 <= pc s -> pc s + 2 < 4294967296 ->
  mem_read SW s (pc s) = Some w ->
  decode_ref w w1 w2 w3 w4 = Some (IMovStore z rs (EInd r), 2) ->
  dom_c20 (IMovStore z rs (EInd r)) 2 s = true -> bytes_ok (cbus s) ->
  sem_ref (IMovStore z rs (EInd r)) 2 s = Some s' ->
  step s = Ok (charge_ref (IMovStore z rs (EInd r)) 2 s) (set_opc (pc s) s').
Proof.
  intros.
  all: match goal with Hd : dom_c20 ?i ?len ?s0 = true, Hs : sem_ref ?i ?len ?s0 = Some ?s1, Hb : bytes_ok _ |- _ =>
    pose proof (charge_after_exec_proof i len s0 s1 _ eq_refl Hd eq_refl Hb Hs) as X end;
    (replace (pc s + 2 - 2) with (pc s) in X by lia);
    (eapply step_mov_store_ern_proof; try eassumption; exact X).
Qed.

Theorem step_mov_load_abs8_priced s w w1 w2 w3 w4 a rd s' :
  cpu_ok s -> bus_bytes_ok s -> fault s = false -> pc s mod 2 = 0 -> 0 <= pc s -> pc s + 2 < 4294967296 ->
  mem_read SW s (pc s) = Some w ->
  decode_ref w w1 w2 w3 w4 = Some (IMovLoad SB (EAbs a) rd, 2) ->
  dom_c20 (IMovLoad SB (EAbs a) rd) 2 s = true -> bytes_ok (cbus s) ->
  sem_ref (IMovLoad SB (EAbs a) rd) 2 s = Some s' ->
  step s = Ok (charge_ref (IMovLoad SB (EAbs a) rd) 2 s) (set_opc (pc s) s').
Proof.
  intros.
  all: match goal with Hd : dom_c20 ?i ?len ?s0 = true, Hs : sem_ref ?i ?len ?s0 = Some ?s1, Hb : bytes_ok _ |- _ =>
    pose proof (charge_after_exec_proof i len s0 s1 _ eq_refl Hd eq_refl Hb Hs) as X end;
    (replace (pc s + 2 - 2) with (pc s) in X by lia);
    (eapply step_mov_load_abs8_proof; try eassumption; exact X).
Qed.

Theorem step_mov_store_abs8_priced s w w1 w2 w3 w4 a rs s' :
  cpu_ok s -> bus_bytes_ok s -> fault s = false -> pc s mod 2 = 0 -> 0 <= pc s -> pc s + 2 < 4294967296 ->
  mem_read SW s (pc s) = Some w ->
  decode_ref w w1 w2 w3 w4 = Some (IMovStore SB rs (EAbs a), 2) ->
  dom_c20 (IMovStore SB rs (EAbs a)) 2 s = true -> bytes_ok (cbus s) ->
  sem_ref (IMovStore SB rs (EAbs a)) 2 s = Some s' ->
  step s = Ok (charge_ref (IMovStore SB rs (EAbs a)) 2 s) (set_opc (pc s) s').
Proof.
  intros.
  all: match goal with Hd : dom_c20 ?i ?len ?s0 = true, Hs : sem_ref ?i ?len ?s0 = Some ?s1, Hb : bytes_ok _ |- _ =>
    pose proof (charge_after_exec_proof i len s0 s1 _ eq_refl Hd eq_refl Hb Hs) as X end;
    (replace (pc s + 2 - 2) with (pc s) in X by lia);
    (eapply step_mov_store_abs8_proof; try eassumption; exact X).
Qed.

Theorem step_mov_postinc_priced s w w1 w2 w3 w4 z r rd s' :
  z <> SL -> cpu_ok s -> bus_bytes_ok s -> fault s = false -> pc s mod 2 = 0 -> 0 <= pc s -> pc s + 2 < 4294967296 ->
  mem_read SW s (pc s) = Some w ->
  decode_ref w w1 w2 w3 w4 = Some (IMovLoad z (EPostInc r) rd, 2) ->
  dom_c20 (IMovLoad z (EPostInc r) rd) 2 s = true -> bytes_ok (cbus s) ->
  sem_ref (IMovLoad z (EPostInc r) rd) 2 s = Some s' ->
  step s = Ok (charge_ref (IMovLoad z (EPostInc r) rd) 2 s) (set_opc (pc s) s').
Proof.
  intros.
  match goal with Hz : ?z <> SL |- _ => destruct z; [| |contradiction] end.
  all: match goal with Hd : dom_c20 ?i ?len ?s0 = true, Hs : sem_ref ?i ?len ?s0 = Some ?s1, Hb : bytes_ok _ |- _ =>
    pose proof (charge_after_exec_proof i len s0 s1 _ eq_refl Hd eq_refl Hb Hs) as X end;
    (replace (pc s + 2 - 2) with (pc s) in X by lia);
    (eapply step_mov_postinc_proof; try eassumption; exact X).
Qed.

Theorem step_mov_predec_priced s w w1 w2 w3 w4 z rs r s' :
  z <> SL -> cpu_ok s -> bus_bytes_ok s -> fault s = false -> pc s mod 2 = 0 -> 0 <= pc s -> pc s + 2 < 4294967296 ->
  mem_read SW s (pc s) = Some w ->
  decode_ref w w1 w2 w3 w4 = Some (IMovStore z rs (EPreDec r), 2) ->
  dom_c20 (IMovStore z rs (EPreDec r)) 2 s = true -> bytes_ok (cbus s) ->
  sem_ref (IMovStore z rs (EPreDec r)) 2 s = Some s' ->
  step s = Ok (charge_ref (IMovStore z rs (EPreDec r)) 2 s) (set_opc (pc s) s').
Proof.
  intros.
  match goal with Hz : ?z <> SL |- _ => destruct z; [| |contradiction] end.
  all: match goal with Hd : dom_c20 ?i ?len ?s0 = true, Hs : sem_ref ?i ?len ?s0 = Some ?s1, Hb : bytes_ok _ |- _ =>
    pose proof (charge_after_exec_proof i len s0 s1 _ eq_refl Hd eq_refl Hb Hs) as X end;
    (replace (pc s + 2 - 2) with (pc s) in X by lia);
    (eapply step_mov_predec_proof; try eassumption; exact X).
Qed.

Theorem step_jsr_ind_priced s w w1 w2 w3 w4 aa s' :
  cpu_ok s -> bus_bytes_ok s -> fault s = false -> pc s mod 2 = 0 -> 0 <= pc s -> pc s + 2 < 4294967296 ->
  mem_read SW s (pc s) = Some w ->
  decode_ref w w1 w2 w3 w4 = Some (IJsr (JInd aa), 2) ->
  (forall s1, push32 s (pc s + 2) = Some s1 -> bus_bytes_ok s1 /\ mem_read SL s1 aa = mem_read SL s aa) ->
  dom_c20 (IJsr (JInd aa)) 2 s = true -> bytes_ok (cbus s) ->
  sem_ref (IJsr (JInd aa)) 2 s = Some s' ->
  step s = Ok (charge_ref (IJsr (JInd aa)) 2 s) (set_opc (pc s) s').
Proof.
  intros.
  all: match goal with Hd : dom_c20 ?i ?len ?s0 = true, Hs : sem_ref ?i ?len ?s0 = Some ?s1, Hb : bytes_ok _ |- _ =>
    pose proof (charge_after_exec_proof i len s0 s1 _ eq_refl Hd eq_refl Hb Hs) as X end;
    (replace (pc s + 2 - 2) with (pc s) in X by lia);
    (eapply step_jsr_ind_proof; try eassumption; exact X).
Qed.

Theorem step_bcc16_priced s w d w2 w3 w4 cc disp s' :
  cpu_ok s -> bus_bytes_ok s -> fault s = false -> pc s mod 2 = 0 -> 0 <= pc s -> pc s + 4 < 4294967296 ->
  mem_read SW s (pc s) = Some w -> mem_read SW s (pc s + 2) = Some d ->
  decode_ref w d w2 w3 w4 = Some (IBcc cc disp, 4) ->
  (cond_ref cc (ccr s) = true -> 0 <= pc s + 4 + disp < 4294967296 /\ (pc s + 4 + disp) mod 2 = 0) ->
  dom_c20 (IBcc cc disp) 4 s = true -> bytes_ok (cbus s) ->
  sem_ref (IBcc cc disp) 4 s = Some s' ->
  step s = Ok (charge_ref (IBcc cc disp) 4 s) (set_opc (pc s + 2) s').
Proof.
  intros.
  all: match goal with Hd : dom_c20 ?i ?len ?s0 = true, Hs : sem_ref ?i ?len ?s0 = Some ?s1, Hb : bytes_ok _ |- _ =>
    pose proof (charge_after_exec_proof i len s0 s1 _ eq_refl Hd eq_refl Hb Hs) as X end;
    (replace (pc s + 4 - 2) with (pc s + 2) in X by lia);
    (eapply step_bcc16_proof; try eassumption; exact X).
Qed.

Theorem step_jmp_abs_priced s w d w2 w3 w4 a s' :
  bus_bytes_ok s -> fault s = false -> pc s mod 2 = 0 -> 0 <= pc s -> pc s + 4 < 4294967296 ->
  mem_read SW s (pc s) = Some w -> mem_read SW s (pc s + 2) = Some d ->
  decode_ref w d w2 w3 w4 = Some (IJmp (JAbs a), 4) ->
  dom_c20 (IJmp (JAbs a)) 4 s = true -> bytes_ok (cbus s) ->
  sem_ref (IJmp (JAbs a)) 4 s = Some s' ->
  step s = Ok (charge_ref (IJmp (JAbs a)) 4 s) (set_opc (pc s + 2) s').
Proof.
  intros.
  all: match goal with Hd : dom_c20 ?i ?len ?s0 = true, Hs : sem_ref ?i ?len ?s0 = Some ?s1, Hb : bytes_ok _ |- _ =>
    pose proof (charge_after_exec_proof i len s0 s1 _ eq_refl Hd eq_refl Hb Hs) as X end;
    (replace (pc s + 4 - 2) with (pc s + 2) in X by lia);
    (eapply step_jmp_abs_proof; try eassumption; exact X).
Qed.

Theorem step_bsr16_priced s w d w2 w3 w4 disp s' :
  cpu_ok s -> bus_bytes_ok s -> fault s = false -> pc s mod 2 = 0 -> 0 <= pc s -> pc s + 4 < 4294967296 ->
  mem_read SW s (pc s) = Some w -> mem_read SW s (pc s + 2) = Some d ->
  decode_ref w d w2 w3 w4 = Some (IBsr disp, 4) ->
  0 <= pc s + 4 + disp < 4294967296 ->
  dom_c20 (IBsr disp) 4 s = true -> bytes_ok (cbus s) ->
  sem_ref (IBsr disp) 4 s = Some s' ->
  step s = Ok (charge_ref (IBsr disp) 4 s) (set_opc (pc s + 2) s').
Proof.
  intros.
  all: match goal with Hd : dom_c20 ?i ?len ?s0 = true, Hs : sem_ref ?i ?len ?s0 = Some ?s1, Hb : bytes_ok _ |- _ =>
    pose proof (charge_after_exec_proof i len s0 s1 _ eq_refl Hd eq_refl Hb Hs) as X end;
    (replace (pc s + 4 - 2) with (pc s + 2) in X by lia);
    (eapply step_bsr16_proof; try eassumption; exact X).
Qed.

Theorem step_jsr_abs_priced s w d w2 w3 w4 a s' :
  cpu_ok s -> bus_bytes_ok s -> fault s = false -> pc s mod 2 = 0 -> 0 <= pc s -> pc s + 4 < 4294967296 ->
  mem_read SW s (pc s) = Some w -> mem_read SW s (pc s + 2) = Some d ->
  decode_ref w d w2 w3 w4 = Some (IJsr (JAbs a), 4) ->
  dom_c20 (IJsr (JAbs a)) 4 s = true -> bytes_ok (cbus s) ->
  sem_ref (IJsr (JAbs a)) 4 s = Some s' ->
  step s = Ok (charge_ref (IJsr (JAbs a)) 4 s) (set_opc (pc s + 2) s').
Proof.
  intros.
  all: match goal with Hd : dom_c20 ?i ?len ?s0 = true, Hs : sem_ref ?i ?len ?s0 = Some ?s1, Hb : bytes_ok _ |- _ =>
    pose proof (charge_after_exec_proof i len s0 s1 _ eq_refl Hd eq_refl Hb Hs) as X end;
    (replace (pc s + 4 - 2) with (pc s + 2) in X by lia);
    (eapply step_jsr_abs_proof; try eassumption; exact X).
Qed.

Theorem step_bit_ern_priced s w0 w1 w2 w3 w4 o b r s' :
  cpu_ok s -> bus_bytes_ok s -> fault s = false -> pc s mod 2 = 0 -> 0 <= pc s -> pc s + 4 < 4294967296 ->
  mem_read SW s (pc s) = Some w0 -> mem_read SW s (pc s + 2) = Some w1 ->
  decode_ref w0 w1 w2 w3 w4 = Some (IBit o b (BTMem (EInd r)), 4) ->
  dom_c20 (IBit o b (BTMem (EInd r))) 4 s = true -> bytes_ok (cbus s) ->
  sem_ref (IBit o b (BTMem (EInd r))) 4 s = Some s' ->
  step s = Ok (charge_ref (IBit o b (BTMem (EInd r))) 4 s) (set_opc (pc s + 2) s').
Proof.
  intros.
  all: match goal with Hd : dom_c20 ?i ?len ?s0 = true, Hs : sem_ref ?i ?len ?s0 = Some ?s1, Hb : bytes_ok _ |- _ =>
    pose proof (charge_after_exec_proof i len s0 s1 _ eq_refl Hd eq_refl Hb Hs) as X end;
    (replace (pc s + 4 - 2) with (pc s + 2) in X by lia);
    (eapply step_bit_ern_proof; try eassumption; exact X).
Qed.

Theorem step_bit_abs_priced s w0 w1 w2 w3 w4 o b a s' :
  cpu_ok s -> bus_bytes_ok s -> fault s = false -> pc s mod 2 = 0 -> 0 <= pc s -> pc s + 4 < 4294967296 ->
  mem_read SW s (pc s) = Some w0 -> mem_read SW s (pc s + 2) = Some w1 ->
  decode_ref w0 w1 w2 w3 w4 = Some (IBit o b (BTMem (EAbs a)), 4) ->
  dom_c20 (IBit o b (BTMem (EAbs a))) 4 s = true -> bytes_ok (cbus s) ->
  sem_ref (IBit o b (BTMem (EAbs a))) 4 s = Some s' ->
  step s = Ok (charge_ref (IBit o b (BTMem (EAbs a))) 4 s) (set_opc (pc s + 2) s').
Proof.
  intros.
  all: match goal with Hd : dom_c20 ?i ?len ?s0 = true, Hs : sem_ref ?i ?len ?s0 = Some ?s1, Hb : bytes_ok _ |- _ =>
    pose proof (charge_after_exec_proof i len s0 s1 _ eq_refl Hd eq_refl Hb Hs) as X end;
    (replace (pc s + 4 - 2) with (pc s + 2) in X by lia);
    (eapply step_bit_abs_proof; try eassumption; exact X).
Qed.

Theorem step_bcc8_priced s w w1 w2 w3 w4 cc d s' :
  cpu_ok s -> bus_bytes_ok s -> fault s = false -> pc s mod 2 = 0 -> 0 <= pc s -> pc s + 2 < 4294967296 ->
  mem_read SW s (pc s) = Some w ->
  decode_ref w w1 w2 w3 w4 = Some (IBcc cc d, 2) ->
  (cond_ref cc (ccr s) = true -> 0 <= pc s + 2 + d < 4294967296 /\ (pc s + 2 + d) mod 2 = 0) ->
  dom_c20 (IBcc cc d) 2 s = true -> bytes_ok (cbus s) ->
  sem_ref (IBcc cc d) 2 s = Some s' ->
  step s = Ok (charge_ref (IBcc cc d) 2 s) (set_opc (pc s) s').
Proof.
  intros.
  all: match goal with Hd : dom_c20 ?i ?len ?s0 = true, Hs : sem_ref ?i ?len ?s0 = Some ?s1, Hb : bytes_ok _ |- _ =>
    pose proof (charge_after_exec_proof i len s0 s1 _ eq_refl Hd eq_refl Hb Hs) as X end;
    (replace (pc s + 2 - 2) with (pc s) in X by lia);
    (eapply step_bcc8_proof; try eassumption; exact X).
Qed.

Theorem step_jmp_ern_priced s w w1 w2 w3 w4 r s' :
  bus_bytes_ok s -> fault s = false -> pc s mod 2 = 0 -> 0 <= pc s -> pc s + 2 < 4294967296 ->
  mem_read SW s (pc s) = Some w ->
  decode_ref w w1 w2 w3 w4 = Some (IJmp (JReg r), 2) ->
  dom_c20 (IJmp (JReg r)) 2 s = true -> bytes_ok (cbus s) ->
  sem_ref (IJmp (JReg r)) 2 s = Some s' ->
  step s = Ok (charge_ref (IJmp (JReg r)) 2 s) (set_opc (pc s) s').
Proof.
  intros.
  all: match goal with Hd : dom_c20 ?i ?len ?s0 = true, Hs : sem_ref ?i ?len ?s0 = Some ?s1, Hb : bytes_ok _ |- _ =>
    pose proof (charge_after_exec_proof i len s0 s1 _ eq_refl Hd eq_refl Hb Hs) as X end;
    (replace (pc s + 2 - 2) with (pc s) in X by lia);
    (eapply step_jmp_ern_proof; try eassumption; exact X).
Qed.

Theorem step_bsr8_priced s w w1 w2 w3 w4 d s' :
  cpu_ok s -> bus_bytes_ok s -> fault s = false -> pc s mod 2 = 0 -> 0 <= pc s -> pc s + 2 < 4294967296 ->
  mem_read SW s (pc s) = Some w ->
  decode_ref w w1 w2 w3 w4 = Some (IBsr d, 2) ->
  0 <= pc s + 2 + d < 4294967296 ->
  dom_c20 (IBsr d) 2 s = true -> bytes_ok (cbus s) ->
  sem_ref (IBsr d) 2 s = Some s' ->
  step s = Ok (charge_ref (IBsr d) 2 s) (set_opc (pc s) s').
Proof.
  intros.
  all: match goal with Hd : dom_c20 ?i ?len ?s0 = true, Hs : sem_ref ?i ?len ?s0 = Some ?s1, Hb : bytes_ok _ |- _ =>
    pose proof (charge_after_exec_proof i len s0 s1 _ eq_refl Hd eq_refl Hb Hs) as X end;
    (replace (pc s + 2 - 2) with (pc s) in X by lia);
    (eapply step_bsr8_proof; try eassumption; exact X).
Qed.

Theorem step_jsr_ern_priced s w w1 w2 w3 w4 r s' :
  cpu_ok s -> bus_bytes_ok s -> fault s = false -> pc s mod 2 = 0 -> 0 <= pc s -> pc s + 2 < 4294967296 ->
  mem_read SW s (pc s) = Some w ->
  decode_ref w w1 w2 w3 w4 = Some (IJsr (JReg r), 2) ->
  dom_c20 (IJsr (JReg r)) 2 s = true -> bytes_ok (cbus s) ->
  sem_ref (IJsr (JReg r)) 2 s = Some s' ->
  step s = Ok (charge_ref (IJsr (JReg r)) 2 s) (set_opc (pc s) s').
Proof.
  intros.
  all: match goal with Hd : dom_c20 ?i ?len ?s0 = true, Hs : sem_ref ?i ?len ?s0 = Some ?s1, Hb : bytes_ok _ |- _ =>
    pose proof (charge_after_exec_proof i len s0 s1 _ eq_refl Hd eq_refl Hb Hs) as X end;
    (replace (pc s + 2 - 2) with (pc s) in X by lia);
    (eapply step_jsr_ern_proof; try eassumption; exact X).
Qed.

Theorem step_jmp_ind_priced s w w1 w2 w3 w4 aa s' :
  bus_bytes_ok s -> fault s = false -> pc s mod 2 = 0 -> 0 <= pc s -> pc s + 2 < 4294967296 ->
  mem_read SW s (pc s) = Some w ->
  decode_ref w w1 w2 w3 w4 = Some (IJmp (JInd aa), 2) ->
  dom_c20 (IJmp (JInd aa)) 2 s = true -> bytes_ok (cbus s) ->
  sem_ref (IJmp (JInd aa)) 2 s = Some s' ->
  step s = Ok (charge_ref (IJmp (JInd aa)) 2 s) (set_opc (pc s) s').
Proof.
  intros.
  all: match goal with Hd : dom_c20 ?i ?len ?s0 = true, Hs : sem_ref ?i ?len ?s0 = Some ?s1, Hb : bytes_ok _ |- _ =>
    pose proof (charge_after_exec_proof i len s0 s1 _ eq_refl Hd eq_refl Hb Hs) as X end;
    (replace (pc s + 2 - 2) with (pc s) in X by lia);
    (eapply step_jmp_ind_proof; try eassumption; exact X).
Qed.

Theorem step_rts_priced s w w1 w2 w3 w4 s' :
  bus_bytes_ok s -> fault s = false -> pc s mod 2 = 0 -> 0 <= pc s -> pc s + 2 < 4294967296 ->
  mem_read SW s (pc s) = Some w ->
  decode_ref w w1 w2 w3 w4 = Some (IRts, 2) ->
  dom_c20 IRts 2 s = true -> bytes_ok (cbus s) ->
  sem_ref IRts 2 s = Some s' ->
  step s = Ok (charge_ref IRts 2 s) (set_opc (pc s) s').
Proof.
  intros.
  all: match goal with Hd : dom_c20 ?i ?len ?s0 = true, Hs : sem_ref ?i ?len ?s0 = Some ?s1, Hb : bytes_ok _ |- _ =>
    pose proof (charge_after_exec_proof i len s0 s1 _ eq_refl Hd eq_refl Hb Hs) as X end;
    (replace (pc s + 2 - 2) with (pc s) in X by lia);
    (eapply step_rts_proof; try eassumption; exact X).
Qed.

Theorem step_rte_priced s w w1 w2 w3 w4 s' :
  bus_bytes_ok s -> fault s = false -> pc s mod 2 = 0 -> 0 <= pc s -> pc s + 2 < 4294967296 ->
  mem_read SW s (pc s) = Some w ->
  decode_ref w w1 w2 w3 w4 = Some (IRte, 2) ->
  dom_c20 IRte 2 s = true -> bytes_ok (cbus s) ->
  sem_ref IRte 2 s = Some s' ->
  step s = Ok (charge_ref IRte 2 s) (set_opc (pc s) s').
Proof.
  intros.
  all: match goal with Hd : dom_c20 ?i ?len ?s0 = true, Hs : sem_ref ?i ?len ?s0 = Some ?s1, Hb : bytes_ok _ |- _ =>
    pose proof (charge_after_exec_proof i len s0 s1 _ eq_refl Hd eq_refl Hb Hs) as X end;
    (replace (pc s + 2 - 2) with (pc s) in X by lia);
    (eapply step_rte_proof; try eassumption; exact X).
Qed.

Theorem step_trapa_priced s w w1 w2 w3 w4 k s' :
  cpu_ok s -> fault s = false -> bus_bytes_ok s -> pc s mod 2 = 0 -> 0 <= pc s -> pc s + 2 < 16777216 ->
  mem_read SW s (pc s) = Some w ->
  decode_ref w w1 w2 w3 w4 = Some (ITrapa k, 2) ->
  (forall s1, push32 (post_fetch s) (ccr s * A24 + (pc s + 2)) = Some s1 -> bus_bytes_ok s1) ->
  dom_c20 (ITrapa k) 2 s = true -> bytes_ok (cbus s) ->
  sem_ref (ITrapa k) 2 s = Some s' ->
  step s = Ok (charge_ref (ITrapa k) 2 s) (set_opc (pc s) s').
Proof.
  intros.
  all: match goal with Hd : dom_c20 ?i ?len ?s0 = true, Hs : sem_ref ?i ?len ?s0 = Some ?s1, Hb : bytes_ok _ |- _ =>
    pose proof (charge_after_exec_proof i len s0 s1 _ eq_refl Hd eq_refl Hb Hs) as X end;
    (replace (pc s + 2 - 2) with (pc s) in X by lia);
    (eapply step_trapa_proof; try eassumption; exact X).
Qed.

Theorem step_movl_load_ern_priced s w1 w2 w3 w4 r rd s' :
  cpu_ok s -> bus_bytes_ok s -> fault s = false -> pc s mod 2 = 0 -> 0 <= pc s -> pc s + 4 < 4294967296 ->
  mem_read SW s (pc s) = Some 0x0100 -> mem_read SW s (pc s + 2) = Some w1 ->
  decode_ref 0x0100 w1 w2 w3 w4 = Some (IMovLoad SL (EInd r) rd, 4) ->
  dom_c20 (IMovLoad SL (EInd r) rd) 4 s = true -> bytes_ok (cbus s) ->
  sem_ref (IMovLoad SL (EInd r) rd) 4 s = Some s' ->
  step s = Ok (charge_ref (IMovLoad SL (EInd r) rd) 4 s) (set_opc (pc s + 2) s').
Proof.
  intros.
  all: match goal with Hd : dom_c20 ?i ?len ?s0 = true, Hs : sem_ref ?i ?len ?s0 = Some ?s1, Hb : bytes_ok _ |- _ =>
    pose proof (charge_after_exec_proof i len s0 s1 _ eq_refl Hd eq_refl Hb Hs) as X end;
    (replace (pc s + 4 - 2) with (pc s + 2) in X by lia);
    (eapply step_movl_load_ern_proof; try eassumption; exact X).
Qed.

Theorem step_movl_store_ern_priced s w1 w2 w3 w4 rs r s' :
  cpu_ok s -> bus_bytes_ok s -> fault s = false -> pc s mod 2 = 0 -> 0 <= pc s -> pc s + 4 < 4294967296 ->
  mem_read SW s (pc s) = Some 0x0100 -> mem_read SW s (pc s + 2) = Some w1 ->
  decode_ref 0x0100 w1 w2 w3 w4 = Some (IMovStore SL rs (EInd r), 4) ->
  dom_c20 (IMovStore SL rs (EInd r)) 4 s = true -> bytes_ok (cbus s) ->
  sem_ref (IMovStore SL rs (EInd r)) 4 s = Some s' ->
  step s = Ok (charge_ref (IMovStore SL rs (EInd r)) 4 s) (set_opc (pc s + 2) s').
Proof.
  intros.
  all: match goal with Hd : dom_c20 ?i ?len ?s0 = true, Hs : sem_ref ?i ?len ?s0 = Some ?s1, Hb : bytes_ok _ |- _ =>
    pose proof (charge_after_exec_proof i len s0 s1 _ eq_refl Hd eq_refl Hb Hs) as X end;
    (replace (pc s + 4 - 2) with (pc s + 2) in X by lia);
    (eapply step_movl_store_ern_proof; try eassumption; exact X).
Qed.

Theorem step_pop_l_priced s w1 w2 w3 w4 r rd s' :
  cpu_ok s -> bus_bytes_ok s -> fault s = false -> pc s mod 2 = 0 -> 0 <= pc s -> pc s + 4 < 4294967296 ->
  mem_read SW s (pc s) = Some 0x0100 -> mem_read SW s (pc s + 2) = Some w1 ->
  decode_ref 0x0100 w1 w2 w3 w4 = Some (IMovLoad SL (EPostInc r) rd, 4) ->
  dom_c20 (IMovLoad SL (EPostInc r) rd) 4 s = true -> bytes_ok (cbus s) ->
  sem_ref (IMovLoad SL (EPostInc r) rd) 4 s = Some s' ->
  step s = Ok (charge_ref (IMovLoad SL (EPostInc r) rd) 4 s) (set_opc (pc s + 2) s').
Proof.
  intros.
  all: match goal with Hd : dom_c20 ?i ?len ?s0 = true, Hs : sem_ref ?i ?len ?s0 = Some ?s1, Hb : bytes_ok _ |- _ =>
    pose proof (charge_after_exec_proof i len s0 s1 _ eq_refl Hd eq_refl Hb Hs) as X end;
    (replace (pc s + 4 - 2) with (pc s + 2) in X by lia);
    (eapply step_pop_l_proof; try eassumption; exact X).
Qed.

Theorem step_push_l_priced s w1 w2 w3 w4 rs r s' :
  cpu_ok s -> bus_bytes_ok s -> fault s = false -> pc s mod 2 = 0 -> 0 <= pc s -> pc s + 4 < 4294967296 ->
  mem_read SW s (pc s) = Some 0x0100 -> mem_read SW s (pc s + 2) = Some w1 ->
  decode_ref 0x0100 w1 w2 w3 w4 = Some (IMovStore SL rs (EPreDec r), 4) ->
  dom_c20 (IMovStore SL rs (EPreDec r)) 4 s = true -> bytes_ok (cbus s) ->
  sem_ref (IMovStore SL rs (EPreDec r)) 4 s = Some s' ->
  step s = Ok (charge_ref (IMovStore SL rs (EPreDec r)) 4 s) (set_opc (pc s + 2) s').
Proof.
  intros.
  all: match goal with Hd : dom_c20 ?i ?len ?s0 = true, Hs : sem_ref ?i ?len ?s0 = Some ?s1, Hb : bytes_ok _ |- _ =>
    pose proof (charge_after_exec_proof i len s0 s1 _ eq_refl Hd eq_refl Hb Hs) as X end;
    (replace (pc s + 4 - 2) with (pc s + 2) in X by lia);
    (eapply step_push_l_proof; try eassumption; exact X).
Qed.

Theorem step_mov_load_disp16_priced s w d w2 w3 w4 z r disp rd s' :
  cpu_ok s -> bus_bytes_ok s -> fault s = false -> pc s mod 2 = 0 -> 0 <= pc s -> pc s + 4 < 4294967296 ->
  mem_read SW s (pc s) = Some w -> mem_read SW s (pc s + 2) = Some d ->
  decode_ref w d w2 w3 w4 = Some (IMovLoad z (EDisp r disp) rd, 4) ->
  dom_c20 (IMovLoad z (EDisp r disp) rd) 4 s = true -> bytes_ok (cbus s) ->
  sem_ref (IMovLoad z (EDisp r disp) rd) 4 s = Some s' ->
  step s = Ok (charge_ref (IMovLoad z (EDisp r disp) rd) 4 s) (set_opc (pc s + 2) s').
Proof.
  intros.
  all: match goal with Hd : dom_c20 ?i ?len ?s0 = true, Hs : sem_ref ?i ?len ?s0 = Some ?s1, Hb : bytes_ok _ |- _ =>
    pose proof (charge_after_exec_proof i len s0 s1 _ eq_refl Hd eq_refl Hb Hs) as X end;
    (replace (pc s + 4 - 2) with (pc s + 2) in X by lia);
    (eapply step_mov_load_disp16_proof; try eassumption; exact X).
Qed.

Theorem step_mov_store_disp16_priced s w d w2 w3 w4 z rs r disp s' :
  cpu_ok s -> bus_bytes_ok s -> fault s = false -> pc s mod 2 = 0 -> 0 <= pc s -> pc s + 4 < 4294967296 ->
  mem_read SW s (pc s) = Some w -> mem_read SW s (pc s + 2) = Some d ->
  decode_ref w d w2 w3 w4 = Some (IMovStore z rs (EDisp r disp), 4) ->
  dom_c20 (IMovStore z rs (EDisp r disp)) 4 s = true -> bytes_ok (cbus s) ->
  sem_ref (IMovStore z rs (EDisp r disp)) 4 s = Some s' ->
  step s = Ok (charge_ref (IMovStore z rs (EDisp r disp)) 4 s) (set_opc (pc s + 2) s').
Proof.
  intros.
  all: match goal with Hd : dom_c20 ?i ?len ?s0 = true, Hs : sem_ref ?i ?len ?s0 = Some ?s1, Hb : bytes_ok _ |- _ =>
    pose proof (charge_after_exec_proof i len s0 s1 _ eq_refl Hd eq_refl Hb Hs) as X end;
    (replace (pc s + 4 - 2) with (pc s + 2) in X by lia);
    (eapply step_mov_store_disp16_proof; try eassumption; exact X).
Qed.

Theorem step_mov_load_abs16_priced s w d w2 w3 w4 z a rd s' :
  cpu_ok s -> bus_bytes_ok s -> fault s = false -> pc s mod 2 = 0 -> 0 <= pc s -> pc s + 4 < 4294967296 ->
  mem_read SW s (pc s) = Some w -> mem_read SW s (pc s + 2) = Some d ->
  decode_ref w d w2 w3 w4 = Some (IMovLoad z (EAbs a) rd, 4) ->
  dom_c20 (IMovLoad z (EAbs a) rd) 4 s = true -> bytes_ok (cbus s) ->
  sem_ref (IMovLoad z (EAbs a) rd) 4 s = Some s' ->
  step s = Ok (charge_ref (IMovLoad z (EAbs a) rd) 4 s) (set_opc (pc s + 2) s').
Proof.
  intros.
  all: match goal with Hd : dom_c20 ?i ?len ?s0 = true, Hs : sem_ref ?i ?len ?s0 = Some ?s1, Hb : bytes_ok _ |- _ =>
    pose proof (charge_after_exec_proof i len s0 s1 _ eq_refl Hd eq_refl Hb Hs) as X end;
    (replace (pc s + 4 - 2) with (pc s + 2) in X by lia);
    (eapply step_mov_load_abs16_proof; try eassumption; exact X).
Qed.

Theorem step_mov_store_abs16_priced s w d w2 w3 w4 z rs a s' :
  cpu_ok s -> bus_bytes_ok s -> fault s = false -> pc s mod 2 = 0 -> 0 <= pc s -> pc s + 4 < 4294967296 ->
  mem_read SW s (pc s) = Some w -> mem_read SW s (pc s + 2) = Some d ->
  decode_ref w d w2 w3 w4 = Some (IMovStore z rs (EAbs a), 4) ->
  dom_c20 (IMovStore z rs (EAbs a)) 4 s = true -> bytes_ok (cbus s) ->
  sem_ref (IMovStore z rs (EAbs a)) 4 s = Some s' ->
  step s = Ok (charge_ref (IMovStore z rs (EAbs a)) 4 s) (set_opc (pc s + 2) s').
Proof.
  intros.
  all: match goal with Hd : dom_c20 ?i ?len ?s0 = true, Hs : sem_ref ?i ?len ?s0 = Some ?s1, Hb : bytes_ok _ |- _ =>
    pose proof (charge_after_exec_proof i len s0 s1 _ eq_refl Hd eq_refl Hb Hs) as X end;
    (replace (pc s + 4 - 2) with (pc s + 2) in X by lia);
    (eapply step_mov_store_abs16_proof; try eassumption; exact X).
Qed.

Theorem step_mov_load_abs24_priced s w h l w3 w4 z a rd s' :
  z <> SL ->
  cpu_ok s -> bus_bytes_ok s -> fault s = false -> pc s mod 2 = 0 -> 0 <= pc s -> pc s + 6 < 4294967296 ->
  mem_read SW s (pc s) = Some w -> mem_read SW s (pc s + 2) = Some h -> mem_read SW s (pc s + 4) = Some l ->
  decode_ref w h l w3 w4 = Some (IMovLoad z (EAbs a) rd, 6) ->
  dom_c20 (IMovLoad z (EAbs a) rd) 6 s = true -> bytes_ok (cbus s) ->
  sem_ref (IMovLoad z (EAbs a) rd) 6 s = Some s' ->
  step s = Ok (charge_ref (IMovLoad z (EAbs a) rd) 6 s) (set_opc (pc s + 4) s').
Proof.
  intros.
  all: match goal with Hd : dom_c20 ?i ?len ?s0 = true, Hs : sem_ref ?i ?len ?s0 = Some ?s1, Hb : bytes_ok _ |- _ =>
    pose proof (charge_after_exec_proof i len s0 s1 _ eq_refl Hd eq_refl Hb Hs) as X end;
    (replace (pc s + 6 - 2) with (pc s + 4) in X by lia);
    (eapply step_mov_load_abs24_proof; try eassumption; exact X).
Qed.

Theorem step_mov_store_abs24_priced s w h l w3 w4 z rs a s' :
  z <> SL ->
  cpu_ok s -> bus_bytes_ok s -> fault s = false -> pc s mod 2 = 0 -> 0 <= pc s -> pc s + 6 < 4294967296 ->
  mem_read SW s (pc s) = Some w -> mem_read SW s (pc s + 2) = Some h -> mem_read SW s (pc s + 4) = Some l ->
  decode_ref w h l w3 w4 = Some (IMovStore z rs (EAbs a), 6) ->
  dom_c20 (IMovStore z rs (EAbs a)) 6 s = true -> bytes_ok (cbus s) ->
  sem_ref (IMovStore z rs (EAbs a)) 6 s = Some s' ->
  step s = Ok (charge_ref (IMovStore z rs (EAbs a)) 6 s) (set_opc (pc s + 4) s').
Proof.
  intros.
  all: match goal with Hd : dom_c20 ?i ?len ?s0 = true, Hs : sem_ref ?i ?len ?s0 = Some ?s1, Hb : bytes_ok _ |- _ =>
    pose proof (charge_after_exec_proof i len s0 s1 _ eq_refl Hd eq_refl Hb Hs) as X end;
    (replace (pc s + 6 - 2) with (pc s + 4) in X by lia);
    (eapply step_mov_store_abs24_proof; try eassumption; exact X).
Qed.

Theorem step_mov_load_disp24_priced s w0 w1 h l w4 z r disp rd s' :
  z <> SL ->
  cpu_ok s -> bus_bytes_ok s -> fault s = false -> pc s mod 2 = 0 -> 0 <= pc s -> pc s + 8 < 4294967296 ->
  mem_read SW s (pc s) = Some w0 -> mem_read SW s (pc s + 2) = Some w1 ->
  mem_read SW s (pc s + 4) = Some h -> mem_read SW s (pc s + 6) = Some l ->
  decode_ref w0 w1 h l w4 = Some (IMovLoad z (EDisp r disp) rd, 8) ->
  dom_c20 (IMovLoad z (EDisp r disp) rd) 8 s = true -> bytes_ok (cbus s) ->
  sem_ref (IMovLoad z (EDisp r disp) rd) 8 s = Some s' ->
  step s = Ok (charge_ref (IMovLoad z (EDisp r disp) rd) 8 s) (set_opc (pc s + 6) s').
Proof.
  intros.
  all: match goal with Hd : dom_c20 ?i ?len ?s0 = true, Hs : sem_ref ?i ?len ?s0 = Some ?s1, Hb : bytes_ok _ |- _ =>
    pose proof (charge_after_exec_proof i len s0 s1 _ eq_refl Hd eq_refl Hb Hs) as X end;
    (replace (pc s + 8 - 2) with (pc s + 6) in X by lia);
    (eapply step_mov_load_disp24_proof; try eassumption; exact X).
Qed.

Theorem step_mov_store_disp24_priced s w0 w1 h l w4 z rs r disp s' :
  z <> SL ->
  cpu_ok s -> bus_bytes_ok s -> fault s = false -> pc s mod 2 = 0 -> 0 <= pc s -> pc s + 8 < 4294967296 ->
  mem_read SW s (pc s) = Some w0 -> mem_read SW s (pc s + 2) = Some w1 ->
  mem_read SW s (pc s + 4) = Some h -> mem_read SW s (pc s + 6) = Some l ->
  decode_ref w0 w1 h l w4 = Some (IMovStore z rs (EDisp r disp), 8) ->
  dom_c20 (IMovStore z rs (EDisp r disp)) 8 s = true -> bytes_ok (cbus s) ->
  sem_ref (IMovStore z rs (EDisp r disp)) 8 s = Some s' ->
  step s = Ok (charge_ref (IMovStore z rs (EDisp r disp)) 8 s) (set_opc (pc s + 6) s').
Proof.
  intros.
  all: match goal with Hd : dom_c20 ?i ?len ?s0 = true, Hs : sem_ref ?i ?len ?s0 = Some ?s1, Hb : bytes_ok _ |- _ =>
    pose proof (charge_after_exec_proof i len s0 s1 _ eq_refl Hd eq_refl Hb Hs) as X end;
    (replace (pc s + 8 - 2) with (pc s + 6) in X by lia);
    (eapply step_mov_store_disp24_proof; try eassumption; exact X).
Qed.

Theorem step_movl_load_disp16_priced s w1 d w3 w4 r disp rd s' :
  cpu_ok s -> bus_bytes_ok s -> fault s = false -> pc s mod 2 = 0 -> 0 <= pc s -> pc s + 6 < 4294967296 ->
  mem_read SW s (pc s) = Some 0x0100 -> mem_read SW s (pc s + 2) = Some w1 -> mem_read SW s (pc s + 4) = Some d ->
  decode_ref 0x0100 w1 d w3 w4 = Some (IMovLoad SL (EDisp r disp) rd, 6) ->
  dom_c20 (IMovLoad SL (EDisp r disp) rd) 6 s = true -> bytes_ok (cbus s) ->
  sem_ref (IMovLoad SL (EDisp r disp) rd) 6 s = Some s' ->
  step s = Ok (charge_ref (IMovLoad SL (EDisp r disp) rd) 6 s) (set_opc (pc s + 4) s').
Proof.
  intros.
  all: match goal with Hd : dom_c20 ?i ?len ?s0 = true, Hs : sem_ref ?i ?len ?s0 = Some ?s1, Hb : bytes_ok _ |- _ =>
    pose proof (charge_after_exec_proof i len s0 s1 _ eq_refl Hd eq_refl Hb Hs) as X end;
    (replace (pc s + 6 - 2) with (pc s + 4) in X by lia);
    (eapply step_movl_load_disp16_proof; try eassumption; exact X).
Qed.

Theorem step_movl_store_disp16_priced s w1 d w3 w4 rs r disp s' :
  cpu_ok s -> bus_bytes_ok s -> fault s = false -> pc s mod 2 = 0 -> 0 <= pc s -> pc s + 6 < 4294967296 ->
  mem_read SW s (pc s) = Some 0x0100 -> mem_read SW s (pc s + 2) = Some w1 -> mem_read SW s (pc s + 4) = Some d ->
  decode_ref 0x0100 w1 d w3 w4 = Some (IMovStore SL rs (EDisp r disp), 6) ->
  dom_c20 (IMovStore SL rs (EDisp r disp)) 6 s = true -> bytes_ok (cbus s) ->
  sem_ref (IMovStore SL rs (EDisp r disp)) 6 s = Some s' ->
  step s = Ok (charge_ref (IMovStore SL rs (EDisp r disp)) 6 s) (set_opc (pc s + 4) s').
Proof.
  intros.
  all: match goal with Hd : dom_c20 ?i ?len ?s0 = true, Hs : sem_ref ?i ?len ?s0 = Some ?s1, Hb : bytes_ok _ |- _ =>
    pose proof (charge_after_exec_proof i len s0 s1 _ eq_refl Hd eq_refl Hb Hs) as X end;
    (replace (pc s + 6 - 2) with (pc s + 4) in X by lia);
    (eapply step_movl_store_disp16_proof; try eassumption; exact X).
Qed.

Theorem step_movl_load_abs16_priced s w1 d w3 w4 a rd s' :
  cpu_ok s -> bus_bytes_ok s -> fault s = false -> pc s mod 2 = 0 -> 0 <= pc s -> pc s + 6 < 4294967296 ->
  mem_read SW s (pc s) = Some 0x0100 -> mem_read SW s (pc s + 2) = Some w1 -> mem_read SW s (pc s + 4) = Some d ->
  decode_ref 0x0100 w1 d w3 w4 = Some (IMovLoad SL (EAbs a) rd, 6) ->
  dom_c20 (IMovLoad SL (EAbs a) rd) 6 s = true -> bytes_ok (cbus s) ->
  sem_ref (IMovLoad SL (EAbs a) rd) 6 s = Some s' ->
  step s = Ok (charge_ref (IMovLoad SL (EAbs a) rd) 6 s) (set_opc (pc s + 4) s').
Proof.
  intros.
  all: match goal with Hd : dom_c20 ?i ?len ?s0 = true, Hs : sem_ref ?i ?len ?s0 = Some ?s1, Hb : bytes_ok _ |- _ =>
    pose proof (charge_after_exec_proof i len s0 s1 _ eq_refl Hd eq_refl Hb Hs) as X end;
    (replace (pc s + 6 - 2) with (pc s + 4) in X by lia);
    (eapply step_movl_load_abs16_proof; try eassumption; exact X).
Qed.

Theorem step_movl_store_abs16_priced s w1 d w3 w4 rs a s' :
  cpu_ok s -> bus_bytes_ok s -> fault s = false -> pc s mod 2 = 0 -> 0 <= pc s -> pc s + 6 < 4294967296 ->
  mem_read SW s (pc s) = Some 0x0100 -> mem_read SW s (pc s + 2) = Some w1 -> mem_read SW s (pc s + 4) = Some d ->
  decode_ref 0x0100 w1 d w3 w4 = Some (IMovStore SL rs (EAbs a), 6) ->
  dom_c20 (IMovStore SL rs (EAbs a)) 6 s = true -> bytes_ok (cbus s) ->
  sem_ref (IMovStore SL rs (EAbs a)) 6 s = Some s' ->
  step s = Ok (charge_ref (IMovStore SL rs (EAbs a)) 6 s) (set_opc (pc s + 4) s').
Proof.
  intros.
  all: match goal with Hd : dom_c20 ?i ?len ?s0 = true, Hs : sem_ref ?i ?len ?s0 = Some ?s1, Hb : bytes_ok _ |- _ =>
    pose proof (charge_after_exec_proof i len s0 s1 _ eq_refl Hd eq_refl Hb Hs) as X end;
    (replace (pc s + 6 - 2) with (pc s + 4) in X by lia);
    (eapply step_movl_store_abs16_proof; try eassumption; exact X).
Qed.

Theorem step_movl_load_abs24_priced s w1 h l w4 a rd s' :
  cpu_ok s -> bus_bytes_ok s -> fault s = false -> pc s mod 2 = 0 -> 0 <= pc s -> pc s + 8 < 4294967296 ->
  mem_read SW s (pc s) = Some 0x0100 -> mem_read SW s (pc s + 2) = Some w1 ->
  mem_read SW s (pc s + 4) = Some h -> mem_read SW s (pc s + 6) = Some l ->
  decode_ref 0x0100 w1 h l w4 = Some (IMovLoad SL (EAbs a) rd, 8) ->
  dom_c20 (IMovLoad SL (EAbs a) rd) 8 s = true -> bytes_ok (cbus s) ->
  sem_ref (IMovLoad SL (EAbs a) rd) 8 s = Some s' ->
  step s = Ok (charge_ref (IMovLoad SL (EAbs a) rd) 8 s) (set_opc (pc s + 6) s').
Proof.
  intros.
  all: match goal with Hd : dom_c20 ?i ?len ?s0 = true, Hs : sem_ref ?i ?len ?s0 = Some ?s1, Hb : bytes_ok _ |- _ =>
    pose proof (charge_after_exec_proof i len s0 s1 _ eq_refl Hd eq_refl Hb Hs) as X end;
    (replace (pc s + 8 - 2) with (pc s + 6) in X by lia);
    (eapply step_movl_load_abs24_proof; try eassumption; exact X).
Qed.

Theorem step_movl_store_abs24_priced s w1 h l w4 rs a s' :
  cpu_ok s -> bus_bytes_ok s -> fault s = false -> pc s mod 2 = 0 -> 0 <= pc s -> pc s + 8 < 4294967296 ->
  mem_read SW s (pc s) = Some 0x0100 -> mem_read SW s (pc s + 2) = Some w1 ->
  mem_read SW s (pc s + 4) = Some h -> mem_read SW s (pc s + 6) = Some l ->
  decode_ref 0x0100 w1 h l w4 = Some (IMovStore SL rs (EAbs a), 8) ->
  dom_c20 (IMovStore SL rs (EAbs a)) 8 s = true -> bytes_ok (cbus s) ->
  sem_ref (IMovStore SL rs (EAbs a)) 8 s = Some s' ->
  step s = Ok (charge_ref (IMovStore SL rs (EAbs a)) 8 s) (set_opc (pc s + 6) s').
Proof.
  intros.
  all: match goal with Hd : dom_c20 ?i ?len ?s0 = true, Hs : sem_ref ?i ?len ?s0 = Some ?s1, Hb : bytes_ok _ |- _ =>
    pose proof (charge_after_exec_proof i len s0 s1 _ eq_refl Hd eq_refl Hb Hs) as X end;
    (replace (pc s + 8 - 2) with (pc s + 6) in X by lia);
    (eapply step_movl_store_abs24_proof; try eassumption; exact X).
Qed.

Theorem step_movl_load_disp24_priced s w1 w2 h l r disp rd s' :
  cpu_ok s -> bus_bytes_ok s -> fault s = false -> pc s mod 2 = 0 -> 0 <= pc s -> pc s + 10 < 4294967296 ->
  mem_read SW s (pc s) = Some 0x0100 -> mem_read SW s (pc s + 2) = Some w1 -> mem_read SW s (pc s + 4) = Some w2 ->
  mem_read SW s (pc s + 6) = Some h -> mem_read SW s (pc s + 8) = Some l ->
  decode_ref 0x0100 w1 w2 h l = Some (IMovLoad SL (EDisp r disp) rd, 10) ->
  dom_c20 (IMovLoad SL (EDisp r disp) rd) 10 s = true -> bytes_ok (cbus s) ->
  sem_ref (IMovLoad SL (EDisp r disp) rd) 10 s = Some s' ->
  step s = Ok (charge_ref (IMovLoad SL (EDisp r disp) rd) 10 s) (set_opc (pc s + 8) s').
Proof.
  intros.
  all: match goal with Hd : dom_c20 ?i ?len ?s0 = true, Hs : sem_ref ?i ?len ?s0 = Some ?s1, Hb : bytes_ok _ |- _ =>
    pose proof (charge_after_exec_proof i len s0 s1 _ eq_refl Hd eq_refl Hb Hs) as X end;
    (replace (pc s + 10 - 2) with (pc s + 8) in X by lia);
    (eapply step_movl_load_disp24_proof; try eassumption; exact X).
Qed.

Theorem step_movl_store_disp24_priced s w1 w2 h l rs r disp s' :
  cpu_ok s -> bus_bytes_ok s -> fault s = false -> pc s mod 2 = 0 -> 0 <= pc s -> pc s + 10 < 4294967296 ->
  mem_read SW s (pc s) = Some 0x0100 -> mem_read SW s (pc s + 2) = Some w1 -> mem_read SW s (pc s + 4) = Some w2 ->
  mem_read SW s (pc s + 6) = Some h -> mem_read SW s (pc s + 8) = Some l ->
  decode_ref 0x0100 w1 w2 h l = Some (IMovStore SL rs (EDisp r disp), 10) ->
  dom_c20 (IMovStore SL rs (EDisp r disp)) 10 s = true -> bytes_ok (cbus s) ->
  sem_ref (IMovStore SL rs (EDisp r disp)) 10 s = Some s' ->
  step s = Ok (charge_ref (IMovStore SL rs (EDisp r disp)) 10 s) (set_opc (pc s + 8) s').
Proof.
  intros.
  all: match goal with Hd : dom_c20 ?i ?len ?s0 = true, Hs : sem_ref ?i ?len ?s0 = Some ?s1, Hb : bytes_ok _ |- _ =>
    pose proof (charge_after_exec_proof i len s0 s1 _ eq_refl Hd eq_refl Hb Hs) as X end;
    (replace (pc s + 10 - 2) with (pc s + 8) in X by lia);
    (eapply step_movl_store_disp24_proof; try eassumption; exact X).
Qed.

Theorem step_stc_ern_priced s w1 w2 w3 w4 r s' :
  cpu_ok s -> bus_bytes_ok s -> fault s = false -> pc s mod 2 = 0 -> 0 <= pc s -> pc s + 4 < 4294967296 ->
  mem_read SW s (pc s) = Some 0x0140 -> mem_read SW s (pc s + 2) = Some w1 ->
  decode_ref 0x0140 w1 w2 w3 w4 = Some (IStcW (EInd r), 4) ->
  dom_c20 (IStcW (EInd r)) 4 s = true -> bytes_ok (cbus s) ->
  sem_ref (IStcW (EInd r)) 4 s = Some s' ->
  step s = Ok (charge_ref (IStcW (EInd r)) 4 s) (set_opc (pc s + 2) s').
Proof.
  intros.
  all: match goal with Hd : dom_c20 ?i ?len ?s0 = true, Hs : sem_ref ?i ?len ?s0 = Some ?s1, Hb : bytes_ok _ |- _ =>
    pose proof (charge_after_exec_proof i len s0 s1 _ eq_refl Hd eq_refl Hb Hs) as X end;
    (replace (pc s + 4 - 2) with (pc s + 2) in X by lia);
    (eapply step_stc_ern_proof; try eassumption; exact X).
Qed.

Theorem step_stc_disp16_priced s w1 d w3 w4 r disp s' :
  cpu_ok s -> bus_bytes_ok s -> fault s = false -> pc s mod 2 = 0 -> 0 <= pc s -> pc s + 6 < 4294967296 ->
  mem_read SW s (pc s) = Some 0x0140 -> mem_read SW s (pc s + 2) = Some w1 -> mem_read SW s (pc s + 4) = Some d ->
  decode_ref 0x0140 w1 d w3 w4 = Some (IStcW (EDisp r disp), 6) ->
  dom_c20 (IStcW (EDisp r disp)) 6 s = true -> bytes_ok (cbus s) ->
  sem_ref (IStcW (EDisp r disp)) 6 s = Some s' ->
  step s = Ok (charge_ref (IStcW (EDisp r disp)) 6 s) (set_opc (pc s + 4) s').
Proof.
  intros.
  all: match goal with Hd : dom_c20 ?i ?len ?s0 = true, Hs : sem_ref ?i ?len ?s0 = Some ?s1, Hb : bytes_ok _ |- _ =>
    pose proof (charge_after_exec_proof i len s0 s1 _ eq_refl Hd eq_refl Hb Hs) as X end;
    (replace (pc s + 6 - 2) with (pc s + 4) in X by lia);
    (eapply step_stc_disp16_proof; try eassumption; exact X).
Qed.

Theorem step_stc_abs16_priced s w1 d w3 w4 a s' :
  cpu_ok s -> bus_bytes_ok s -> fault s = false -> pc s mod 2 = 0 -> 0 <= pc s -> pc s + 6 < 4294967296 ->
  mem_read SW s (pc s) = Some 0x0140 -> mem_read SW s (pc s + 2) = Some w1 -> mem_read SW s (pc s + 4) = Some d ->
  decode_ref 0x0140 w1 d w3 w4 = Some (IStcW (EAbs a), 6) ->
  dom_c20 (IStcW (EAbs a)) 6 s = true -> bytes_ok (cbus s) ->
  sem_ref (IStcW (EAbs a)) 6 s = Some s' ->
  step s = Ok (charge_ref (IStcW (EAbs a)) 6 s) (set_opc (pc s + 4) s').
Proof.
  intros.
  all: match goal with Hd : dom_c20 ?i ?len ?s0 = true, Hs : sem_ref ?i ?len ?s0 = Some ?s1, Hb : bytes_ok _ |- _ =>
    pose proof (charge_after_exec_proof i len s0 s1 _ eq_refl Hd eq_refl Hb Hs) as X end;
    (replace (pc s + 6 - 2) with (pc s + 4) in X by lia);
    (eapply step_stc_abs16_proof; try eassumption; exact X).
Qed.

Theorem step_stc_abs24_priced s w1 h l w4 a s' :
  cpu_ok s -> bus_bytes_ok s -> fault s = false -> pc s mod 2 = 0 -> 0 <= pc s -> pc s + 8 < 4294967296 ->
  mem_read SW s (pc s) = Some 0x0140 -> mem_read SW s (pc s + 2) = Some w1 ->
  mem_read SW s (pc s + 4) = Some h -> mem_read SW s (pc s + 6) = Some l ->
  decode_ref 0x0140 w1 h l w4 = Some (IStcW (EAbs a), 8) ->
  dom_c20 (IStcW (EAbs a)) 8 s = true -> bytes_ok (cbus s) ->
  sem_ref (IStcW (EAbs a)) 8 s = Some s' ->
  step s = Ok (charge_ref (IStcW (EAbs a)) 8 s) (set_opc (pc s + 6) s').
Proof.
  intros.
  all: match goal with Hd : dom_c20 ?i ?len ?s0 = true, Hs : sem_ref ?i ?len ?s0 = Some ?s1, Hb : bytes_ok _ |- _ =>
    pose proof (charge_after_exec_proof i len s0 s1 _ eq_refl Hd eq_refl Hb Hs) as X end;
    (replace (pc s + 8 - 2) with (pc s + 6) in X by lia);
    (eapply step_stc_abs24_proof; try eassumption; exact X).
Qed.

Theorem step_stc_disp24_priced s w1 w2 h l r disp s' :
  cpu_ok s -> bus_bytes_ok s -> fault s = false -> pc s mod 2 = 0 -> 0 <= pc s -> pc s + 10 < 4294967296 ->
  mem_read SW s (pc s) = Some 0x0140 -> mem_read SW s (pc s + 2) = Some w1 -> mem_read SW s (pc s + 4) = Some w2 ->
  mem_read SW s (pc s + 6) = Some h -> mem_read SW s (pc s + 8) = Some l ->
  decode_ref 0x0140 w1 w2 h l = Some (IStcW (EDisp r disp), 10) ->
  dom_c20 (IStcW (EDisp r disp)) 10 s = true -> bytes_ok (cbus s) ->
  sem_ref (IStcW (EDisp r disp)) 10 s = Some s' ->
  step s = Ok (charge_ref (IStcW (EDisp r disp)) 10 s) (set_opc (pc s + 8) s').
Proof.
  intros.
  all: match goal with Hd : dom_c20 ?i ?len ?s0 = true, Hs : sem_ref ?i ?len ?s0 = Some ?s1, Hb : bytes_ok _ |- _ =>
    pose proof (charge_after_exec_proof i len s0 s1 _ eq_refl Hd eq_refl Hb Hs) as X end;
    (replace (pc s + 10 - 2) with (pc s + 8) in X by lia);
    (eapply step_stc_disp24_proof; try eassumption; exact X).
Qed.
