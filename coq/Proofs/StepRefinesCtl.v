(* From the instruction word in memory to the reference semantics (C05, C06): the two-byte branches, jumps, calls,
   returns and exception instructions. *)
From Coq Require Import Bool ZArith Lia ZifyBool List.
From K Require Import Lib.Bits Lib.Types Model.Machine Model.Bus Model.Cost Model.Addressing Model.Alu Model.Exec Spec.ISA
  Proofs.RegProofs Proofs.MemProofs Proofs.FlagProofs Proofs.EaProofs Proofs.StepProofs Proofs.IrqProofs Proofs.DecodeProofs
  Proofs.CtlProofs Proofs.TwoByte Proofs.StepRefines.
Import ListNotations.
Open Scope bool_scope. Open Scope Z_scope.
Ltac Zify.zify_post_hook ::= Z.div_mod_to_equations.

(* the outcome of a step whose handler produced final state s2 under charge suffix m *)
Definition finish (r : outcome Z) : outcome Z :=
  match r with Ok n s2 => if fault s2 then Err else Ok n s2 | Err => Err | Panic => Panic end.

Lemma step_via_handler s w :
  bus_bytes_ok s -> pc s mod 2 = 0 -> 0 <= pc s -> pc s + 2 < 4294967296 -> mem_read SW s (pc s) = Some w ->
  is_prefix (select1 w) = false ->
  step s = finish (run_tag (select1 w) w 0 0 (post_fetch s)).
Proof.
  intros Hb Hev H0 H1 Hw Hp. unfold step. rewrite (fetch_word s w) by assumption. fold (post_fetch s).
  rewrite exec_plain by assumption. reflexivity.
Qed.

(* memory does not depend on PC / operating PC *)
Lemma put8_pf a b s x v : put8 (set_pc a (set_opc b s)) x v = option_map (fun s' => set_pc a (set_opc b s')) (put8 s x v).
Proof. unfold put8. cbn [cbus set_pc set_opc]. destruct (bus_write (cbus s) x v); reflexivity. Qed.
Lemma mem_write_l_pf a b s x v :
  mem_write SL (set_pc a (set_opc b s)) x v = option_map (fun s' => set_pc a (set_opc b s')) (mem_write SL s x v).
Proof.
  cbn [mem_write]. unfold ISA.obind. rewrite put8_pf.
  destruct (put8 s x _) as [s1|]; [|reflexivity]. cbn [option_map]. rewrite put8_pf.
  destruct (put8 s1 (x + 1) _) as [s2|]; [|reflexivity]. cbn [option_map]. rewrite put8_pf.
  destruct (put8 s2 (x + 2) _) as [s3|]; [|reflexivity]. cbn [option_map]. apply put8_pf.
Qed.
Lemma push32_pf a b s v : push32 (set_pc a (set_opc b s)) v = option_map (fun s' => set_pc a (set_opc b s')) (push32 s v).
Proof.
  unfold push32, ea_update, set_reg32, reg32. cbn [er set_pc set_opc set_regs].
  change (set_regs (set_er (er s) 7 ((get_er (er s) 7 - bytes_of SL) mod 4294967296)) (set_pc a (set_opc b s)))
    with (set_pc a (set_opc b (set_regs (set_er (er s) 7 ((get_er (er s) 7 - bytes_of SL) mod 4294967296)) s))).
  rewrite mem_write_l_pf. reflexivity.
Qed.
Lemma pop32_pf a b s : pop32 (set_pc a (set_opc b s)) = option_map (fun '(v, s') => (v, set_pc a (set_opc b s'))) (pop32 s).
Proof.
  unfold pop32. change (mem_read SL (set_pc a (set_opc b s)) (reg32 (set_pc a (set_opc b s)) 7 mod A24)) with (mem_read SL s (reg32 s 7 mod A24)).
  destruct (mem_read SL s (reg32 s 7 mod A24)); reflexivity.
Qed.

Lemma put8_fault s a v s' : put8 s a v = Some s' -> fault s' = fault s.
Proof. unfold put8. destruct (bus_write (cbus s) a v); [|discriminate]. intros H. injection H as <-. reflexivity. Qed.
Lemma mem_write_l_fault s a v s' : mem_write SL s a v = Some s' -> fault s' = fault s.
Proof.
  cbn [mem_write]. unfold ISA.obind.
  destruct (put8 s a _) as [s1|] eqn:E1; [|discriminate].
  destruct (put8 s1 (a + 1) _) as [s2|] eqn:E2; [|discriminate].
  destruct (put8 s2 (a + 2) _) as [s3|] eqn:E3; [|discriminate]. intros E4.
  rewrite (put8_fault _ _ _ _ E4), (put8_fault _ _ _ _ E3), (put8_fault _ _ _ _ E2), (put8_fault _ _ _ _ E1). reflexivity.
Qed.
Lemma push32_fault s v s' : push32 s v = Some s' -> fault s' = fault s.
Proof. unfold push32. intros H. rewrite (mem_write_l_fault _ _ _ _ H). reflexivity. Qed.
Lemma pop32_fault s v s' : pop32 s = Some (v, s') -> fault s' = fault s.
Proof. unfold pop32. destruct (mem_read SL s (reg32 s 7 mod A24)); cbn [ISA.obind]; [|discriminate]. intros H. injection H as _ <-. reflexivity. Qed.

Lemma with_pc_pf x a b s : with_pc x (set_pc a (set_opc b s)) = set_opc b (with_pc x s).
Proof. reflexivity. Qed.

(* ---- Bcc d:8 ---- *)
Theorem step_bcc8_proof s w w1 w2 w3 w4 cc d n s' :
  cpu_ok s -> bus_bytes_ok s -> fault s = false -> pc s mod 2 = 0 -> 0 <= pc s -> pc s + 2 < 4294967296 ->
  mem_read SW s (pc s) = Some w ->
  decode_ref w w1 w2 w3 w4 = Some (IBcc cc d, 2) ->
  (cond_ref cc (ccr s) = true -> 0 <= pc s + 2 + d < 4294967296 /\ (pc s + 2 + d) mod 2 = 0) ->
  sem_ref (IBcc cc d) 2 s = Some s' ->
  cs KI 2 (set_opc (pc s) s') = Ok n (set_opc (pc s) s') ->
  step s = Ok n (set_opc (pc s) s').
Proof.
  intros [Hr Hc] Hb Hf Hev H0 H1 Hw Hd Ht Hsem Hcs.
  pose proof (word_range s _ _ Hb Hw) as Rw.
  destruct (two_byte_dispatch w w1 w2 w3 w4 _ Rw Hd) as (Hp & Hs & Hag & Hx & _).
  rewrite (step_via_handler s w) by assumption.
  destruct (select1 w) eqn:Es; cbn [is_second] in Hs; try discriminate Hs; try (simpl in Hag; discriminate Hag).
  cbn [agree] in Hag. apply andb_true_iff in Hag. destruct Hag as [Hcc Hdd].
  assert (cc0 = cc) by lia. subst cc0. assert (Ed : d = sx 8 (lo8 w)) by (unfold sext in Hdd; change (sgn 8 (lo8 w)) with (sx 8 (lo8 w)) in Hdd; lia).
  rewrite bcc8_refines_proof; [|exact Hx|exact Hc|].
  2:{ unfold post_fetch. cbn [ccr pc set_pc set_opc]. rewrite <- Ed. exact Ht. }
  cbn [sem_ref] in Hsem. injection Hsem as <-.
  unfold post_fetch. cbn [ccr pc set_pc set_opc]. rewrite <- Ed. rewrite with_pc_pf.
  replace (pc s + 2 + d) with (pc s + 2 + d) by reflexivity.
  assert (Efin : set_opc (pc s) (with_pc (if cond_ref cc (ccr s) then pc s + 2 + d else pc s + 2) s) =
                 set_opc (pc s) (with_pc (if cond_ref cc (ccr s) then pc s + 2 + d else pc s + 2) s)) by reflexivity.
  rewrite Hcs. unfold finish. cbn [fault set_opc with_pc set_pc]. rewrite Hf. reflexivity.
Qed.

(* ---- JMP @ERn ---- *)
Theorem step_jmp_ern_proof s w w1 w2 w3 w4 r n s' :
  bus_bytes_ok s -> fault s = false -> pc s mod 2 = 0 -> 0 <= pc s -> pc s + 2 < 4294967296 ->
  mem_read SW s (pc s) = Some w ->
  decode_ref w w1 w2 w3 w4 = Some (IJmp (JReg r), 2) ->
  sem_ref (IJmp (JReg r)) 2 s = Some s' ->
  cs KI 2 (set_opc (pc s) s') = Ok n (set_opc (pc s) s') ->
  step s = Ok n (set_opc (pc s) s').
Proof.
  intros Hb Hf Hev H0 H1 Hw Hd Hsem Hcs.
  pose proof (word_range s _ _ Hb Hw) as Rw.
  destruct (two_byte_dispatch w w1 w2 w3 w4 _ Rw Hd) as (Hp & Hs & Hag & Hx & _).
  rewrite (step_via_handler s w) by assumption.
  destruct (select1 w) eqn:Es; cbn [is_second] in Hs; try discriminate Hs; try (simpl in Hag; discriminate Hag).
  cbn [agree] in Hag. apply andb_true_iff in Hag. destruct Hag as [Hr1 Hr2].
  assert (Er : r = nib w 3) by lia. pose proof (nib_range w 3) as R3.
  rewrite jmp_ern_refines_proof by lia.
  cbn [sem_ref jump_target ISA.obind] in Hsem. injection Hsem as <-.
  unfold post_fetch. rewrite <- Er. change (reg32 (set_pc (pc s + 2) (set_opc (pc s) s)) r) with (reg32 s r).
  rewrite with_pc_pf. rewrite Hcs. unfold finish. cbn [fault set_opc with_pc set_pc]. rewrite Hf. reflexivity.
Qed.

(* ---- BSR d:8 ---- *)
Theorem step_bsr8_proof s w w1 w2 w3 w4 d n s' :
  cpu_ok s -> bus_bytes_ok s -> fault s = false -> pc s mod 2 = 0 -> 0 <= pc s -> pc s + 2 < 4294967296 ->
  mem_read SW s (pc s) = Some w ->
  decode_ref w w1 w2 w3 w4 = Some (IBsr d, 2) ->
  0 <= pc s + 2 + d < 4294967296 ->
  sem_ref (IBsr d) 2 s = Some s' ->
  (i <- cs KI 2 ;; k <- csa KK 2 ((reg32 s 7 - 4) mod A24) ;; ret (u8add i k)) (set_opc (pc s) s') = Ok n (set_opc (pc s) s') ->
  step s = Ok n (set_opc (pc s) s').
Proof.
  intros [Hr Hc] Hb Hf Hev H0 H1 Hw Hd Ht Hsem Hcs.
  pose proof (word_range s _ _ Hb Hw) as Rw.
  destruct (two_byte_dispatch w w1 w2 w3 w4 _ Rw Hd) as (Hp & Hs & Hag & Hx & _).
  rewrite (step_via_handler s w) by assumption.
  destruct (select1 w) eqn:Es; cbn [is_second] in Hs; try discriminate Hs; try (simpl in Hag; discriminate Hag).
  cbn [agree] in Hag.
  assert (Ed : d = sx 8 (lo8 w)) by (unfold sext in Hag; change (sgn 8 (lo8 w)) with (sx 8 (lo8 w)) in Hag; lia).
  rewrite bsr8_refines_proof; [|exact Hr|unfold post_fetch; cbn [pc set_pc]; lia].
  cbn [sem_ref] in Hsem.
  unfold post_fetch. cbn [pc set_pc set_opc]. rewrite push32_pf.
  change (reg32 (set_pc (pc s + 2) (set_opc (pc s) s)) 7) with (reg32 s 7).
  destruct (push32 s (pc s + 2)) as [s1|] eqn:E; cbn [ISA.obind] in Hsem; [|discriminate Hsem].
  injection Hsem as <-. cbn [option_map then_charge]. rewrite <- Ed. rewrite (Z.mod_small (pc s + 2 + d) 4294967296) by lia.
  rewrite with_pc_pf. rewrite Hcs. unfold finish.
  pose proof (push32_fault _ _ _ E) as Hf1.
  cbn [fault set_opc with_pc set_pc]. rewrite Hf1, Hf. reflexivity.
Qed.

(* ---- JSR @ERn (every n: the target register is read after the push, in the reference as in the code) ---- *)
Theorem step_jsr_ern_proof s w w1 w2 w3 w4 r n s' :
  cpu_ok s -> bus_bytes_ok s -> fault s = false -> pc s mod 2 = 0 -> 0 <= pc s -> pc s + 2 < 4294967296 ->
  mem_read SW s (pc s) = Some w ->
  decode_ref w w1 w2 w3 w4 = Some (IJsr (JReg r), 2) ->
  sem_ref (IJsr (JReg r)) 2 s = Some s' ->
  (i <- cs KI 2 ;; k <- csa KK 2 ((reg32 s 7 - 4) mod A24) ;; ret (u8add i k)) (set_opc (pc s) s') = Ok n (set_opc (pc s) s') ->
  step s = Ok n (set_opc (pc s) s').
Proof.
  intros [Hr Hc] Hb Hf Hev H0 H1 Hw Hd Hsem Hcs.
  pose proof (word_range s _ _ Hb Hw) as Rw.
  destruct (two_byte_dispatch w w1 w2 w3 w4 _ Rw Hd) as (Hp & Hs & Hag & Hx & _).
  rewrite (step_via_handler s w) by assumption.
  destruct (select1 w) eqn:Es; cbn [is_second] in Hs; try discriminate Hs; try (simpl in Hag; discriminate Hag).
  cbn [agree] in Hag. apply andb_true_iff in Hag. destruct Hag as [Hr1 Hr2].
  assert (Er : r = nib w 3) by lia. pose proof (nib_range w 3) as R3.
  rewrite jsr_ern_refines_proof; [|exact Hr|unfold post_fetch; cbn [pc set_pc]; lia|lia].
  cbn [sem_ref jump_target ISA.obind] in Hsem.
  unfold post_fetch. cbn [pc set_pc set_opc]. rewrite push32_pf.
  change (reg32 (set_pc (pc s + 2) (set_opc (pc s) s)) 7) with (reg32 s 7).
  destruct (push32 s (pc s + 2)) as [s1|] eqn:E; cbn [ISA.obind] in Hsem; [|discriminate Hsem].
  injection Hsem as <-. cbn [option_map then_charge]. rewrite <- Er.
  change (reg32 (set_pc (pc s + 2) (set_opc (pc s) s1)) r) with (reg32 s1 r).
  rewrite with_pc_pf. rewrite Hcs. unfold finish.
  pose proof (push32_fault _ _ _ E) as Hf1.
  cbn [fault set_opc with_pc set_pc]. rewrite Hf1, Hf. reflexivity.
Qed.

(* ---- JMP @@aa:8 ---- *)
Theorem step_jmp_ind_proof s w w1 w2 w3 w4 aa n s' :
  bus_bytes_ok s -> fault s = false -> pc s mod 2 = 0 -> 0 <= pc s -> pc s + 2 < 4294967296 ->
  mem_read SW s (pc s) = Some w ->
  decode_ref w w1 w2 w3 w4 = Some (IJmp (JInd aa), 2) ->
  sem_ref (IJmp (JInd aa)) 2 s = Some s' ->
  (i <- cs KI 2 ;; j <- csa KJ 2 aa ;; n <- cs KN 2 ;; ret (u8add (u8add i j) n)) (set_opc (pc s) s') = Ok n (set_opc (pc s) s') ->
  step s = Ok n (set_opc (pc s) s').
Proof.
  intros Hb Hf Hev H0 H1 Hw Hd Hsem Hcs.
  pose proof (word_range s _ _ Hb Hw) as Rw.
  destruct (two_byte_dispatch w w1 w2 w3 w4 _ Rw Hd) as (Hp & Hs & Hag & Hx & _).
  rewrite (step_via_handler s w) by assumption.
  destruct (select1 w) eqn:Es; cbn [is_second] in Hs; try discriminate Hs; try (simpl in Hag; discriminate Hag).
  cbn [agree] in Hag. assert (Ea : aa = lo8 w) by lia.
  rewrite jmp_ind_refines_proof by exact Hb.
  cbn [sem_ref jump_target] in Hsem. rewrite <- Ea.
  change (mem_read SL (post_fetch s) aa) with (mem_read SL s aa).
  destruct (mem_read SL s aa) as [v|]; cbn [ISA.obind] in Hsem; [|discriminate Hsem].
  injection Hsem as <-. cbn [option_map then_charge]. unfold post_fetch. rewrite with_pc_pf. rewrite Hcs. unfold finish.
  cbn [fault set_opc with_pc set_pc]. rewrite Hf. reflexivity.
Qed.

(* ---- RTS ---- *)
Theorem step_rts_proof s w w1 w2 w3 w4 n s' :
  bus_bytes_ok s -> fault s = false -> pc s mod 2 = 0 -> 0 <= pc s -> pc s + 2 < 4294967296 ->
  mem_read SW s (pc s) = Some w ->
  decode_ref w w1 w2 w3 w4 = Some (IRts, 2) ->
  sem_ref IRts 2 s = Some s' ->
  (i <- cs KI 2 ;; k <- csa KK 2 (reg32 s 7 mod A24) ;; n <- cs KN 2 ;; ret (u8add (u8add i k) n)) (set_opc (pc s) s') = Ok n (set_opc (pc s) s') ->
  step s = Ok n (set_opc (pc s) s').
Proof.
  intros Hb Hf Hev H0 H1 Hw Hd Hsem Hcs.
  pose proof (word_range s _ _ Hb Hw) as Rw.
  destruct (two_byte_dispatch w w1 w2 w3 w4 _ Rw Hd) as (Hp & Hs & Hag & Hx & _).
  rewrite (step_via_handler s w) by assumption.
  destruct (select1 w) eqn:Es; cbn [is_second] in Hs; try discriminate Hs; try (simpl in Hag; discriminate Hag).
  rewrite rts_refines_proof by exact Hb.
  cbn [sem_ref] in Hsem. unfold post_fetch. rewrite pop32_pf.
  change (reg32 (set_pc (pc s + 2) (set_opc (pc s) s)) 7) with (reg32 s 7).
  destruct (pop32 s) as [[v s1]|] eqn:E; cbn [ISA.obind] in Hsem; [|discriminate Hsem].
  injection Hsem as <-. cbn [option_map then_charge]. rewrite with_pc_pf. rewrite Hcs. unfold finish.
  pose proof (pop32_fault _ _ _ E) as Hf1.
  cbn [fault set_opc with_pc set_pc]. rewrite Hf1, Hf. reflexivity.
Qed.

(* ---- RTE ---- *)
Theorem step_rte_proof s w w1 w2 w3 w4 n s' :
  bus_bytes_ok s -> fault s = false -> pc s mod 2 = 0 -> 0 <= pc s -> pc s + 2 < 4294967296 ->
  mem_read SW s (pc s) = Some w ->
  decode_ref w w1 w2 w3 w4 = Some (IRte, 2) ->
  sem_ref IRte 2 s = Some s' ->
  (i <- cs KI 2 ;; k <- csa KK 2 (reg32 s 7 mod A24) ;; n <- cs KN 2 ;; ret (u8add (u8add i k) n)) (set_opc (pc s) s') = Ok n (set_opc (pc s) s') ->
  step s = Ok n (set_opc (pc s) s').
Proof.
  intros Hb Hf Hev H0 H1 Hw Hd Hsem Hcs.
  pose proof (word_range s _ _ Hb Hw) as Rw.
  destruct (two_byte_dispatch w w1 w2 w3 w4 _ Rw Hd) as (Hp & Hs & Hag & Hx & _).
  rewrite (step_via_handler s w) by assumption.
  destruct (select1 w) eqn:Es; cbn [is_second] in Hs; try discriminate Hs; try (simpl in Hag; discriminate Hag).
  rewrite rte_refines_proof by exact Hb.
  cbn [sem_ref] in Hsem. unfold post_fetch. rewrite pop32_pf.
  change (reg32 (set_pc (pc s + 2) (set_opc (pc s) s)) 7) with (reg32 s 7).
  destruct (pop32 s) as [[v s1]|] eqn:E; cbn [ISA.obind] in Hsem; [|discriminate Hsem].
  injection Hsem as <-. cbn [option_map then_charge].
  change (with_pc (v mod A24) (with_ccr (v / A24) (set_pc (pc s + 2) (set_opc (pc s) s1)))) with (set_opc (pc s) (with_pc (v mod A24) (with_ccr (v / A24) s1))).
  rewrite Hcs. unfold finish.
  pose proof (pop32_fault _ _ _ E) as Hf1.
  cbn [fault set_opc with_pc set_pc with_ccr set_ccr]. rewrite Hf1, Hf. reflexivity.
Qed.

(* ---- TRAPA #1-3 ---- *)
Lemma put8_opc b s x v : put8 (set_opc b s) x v = option_map (set_opc b) (put8 s x v).
Proof. unfold put8. cbn [cbus set_opc]. destruct (bus_write (cbus s) x v); reflexivity. Qed.
Lemma mem_write_l_opc b s x v : mem_write SL (set_opc b s) x v = option_map (set_opc b) (mem_write SL s x v).
Proof.
  cbn [mem_write]. unfold ISA.obind. rewrite put8_opc.
  destruct (put8 s x _) as [s1|]; [|reflexivity]. cbn [option_map]. rewrite put8_opc.
  destruct (put8 s1 (x + 1) _) as [s2|]; [|reflexivity]. cbn [option_map]. rewrite put8_opc.
  destruct (put8 s2 (x + 2) _) as [s3|]; [|reflexivity]. cbn [option_map]. apply put8_opc.
Qed.
Lemma push32_opc b s v : push32 (set_opc b s) v = option_map (set_opc b) (push32 s v).
Proof.
  unfold push32, ea_update, set_reg32, reg32. cbn [er set_opc set_regs].
  change (set_regs (set_er (er s) 7 ((get_er (er s) 7 - bytes_of SL) mod 4294967296)) (set_opc b s))
    with (set_opc b (set_regs (set_er (er s) 7 ((get_er (er s) 7 - bytes_of SL) mod 4294967296)) s)).
  rewrite mem_write_l_opc. reflexivity.
Qed.
Lemma enter_ref_opc b s v r : enter_ref (set_opc b s) v r = option_map (set_opc b) (enter_ref s v r).
Proof.
  unfold enter_ref. cbn [ccr set_opc]. rewrite push32_opc.
  destruct (push32 s (ccr s * A24 + r)) as [s1|]; cbn [option_map ISA.obind]; [|reflexivity].
  change (mem_read SL (set_opc b s1) (4 * v)) with (mem_read SL s1 (4 * v)).
  destruct (mem_read SL s1 (4 * v)); reflexivity.
Qed.
Lemma enter_ref_fault s v r s' : enter_ref s v r = Some s' -> fault s' = fault s.
Proof.
  unfold enter_ref. destruct (push32 s (ccr s * A24 + r)) as [s1|] eqn:E; cbn [ISA.obind]; [|discriminate].
  destruct (mem_read SL s1 (4 * v)); cbn [ISA.obind]; [|discriminate]. intros H. injection H as <-.
  cbn [fault with_pc with_ccr set_pc set_ccr]. apply (push32_fault _ _ _ E).
Qed.

Theorem step_trapa_proof s w w1 w2 w3 w4 k n s' :
  cpu_ok s -> fault s = false -> bus_bytes_ok s -> pc s mod 2 = 0 -> 0 <= pc s -> pc s + 2 < 16777216 ->
  mem_read SW s (pc s) = Some w ->
  decode_ref w w1 w2 w3 w4 = Some (ITrapa k, 2) ->
  (forall s1, push32 (post_fetch s) (ccr s * A24 + (pc s + 2)) = Some s1 -> bus_bytes_ok s1) ->
  sem_ref (ITrapa k) 2 s = Some s' ->
  (i <- cs KI 2 ;; j <- csa KJ 2 (0x20 + 4 * k) ;; kk <- csa KK 2 ((reg32 s 7 - 4) mod A24) ;; n <- cs KN 4 ;;
   ret (u8add (u8add (u8add i j) kk) n)) (set_opc (pc s) s') = Ok n (set_opc (pc s) s') ->
  step s = Ok n (set_opc (pc s) s').
Proof.
  intros [Hr Hc] Hf Hb Hev H0 H1 Hw Hd Hbytes Hsem Hcs.
  pose proof (word_range s _ _ Hb Hw) as Rw.
  destruct (two_byte_dispatch w w1 w2 w3 w4 _ Rw Hd) as (Hp & Hs & Hag & Hx & Hk).
  rewrite (step_via_handler s w) by (try assumption; lia).
  destruct (select1 w) eqn:Es; cbn [is_second] in Hs; try discriminate Hs; try (simpl in Hag; discriminate Hag).
  cbn [agree] in Hag. apply andb_true_iff in Hag. destruct Hag as [Hk1 Hk2]. assert (Ek : k = nib w 3) by lia.
  rewrite trapa_refines_proof; [|exact Hr|exact Hc|unfold post_fetch; cbn [pc set_pc]; lia|lia|exact Hbytes].
  cbn [sem_ref] in Hsem. rewrite <- Ek.
  change (reg32 (post_fetch s) 7) with (reg32 s 7).
  change (pc (post_fetch s)) with (pc s + 2).
  change (post_fetch s) with (set_opc (pc s) (with_pc (pc s + 2) s)).
  rewrite enter_ref_opc. rewrite Hsem. cbn [option_map then_charge]. rewrite Hcs. unfold finish.
  pose proof (enter_ref_fault _ _ _ _ Hsem) as Hf1.
  cbn [fault set_opc]. rewrite Hf1. cbn [fault with_pc set_pc]. rewrite Hf. reflexivity.
Qed.
