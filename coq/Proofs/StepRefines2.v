(* From the instruction word in memory to the reference semantics: the remaining two-byte register forms
   (byte immediates, ADDS/SUBS, MULXU, STC.B). *)
From Coq Require Import Bool ZArith Lia ZifyBool List.
From K Require Import Lib.Bits Lib.Types Model.Machine Model.Bus Model.Cost Model.Addressing Model.Alu Model.Exec Spec.ISA
  Proofs.RegProofs Proofs.MemProofs Proofs.FlagProofs Proofs.AluProofs Proofs.EaProofs Proofs.StepProofs Proofs.DecodeProofs
  Proofs.CtlProofs Proofs.MovProofs Proofs.TwoByte Proofs.StepRefines Proofs.StepRefinesCtl.
Import ListNotations.
Open Scope bool_scope. Open Scope Z_scope.
Ltac Zify.zify_post_hook ::= Z.div_mod_to_equations.

Lemma lo8_range op : 0 <= lo8 op < 256.
Proof. unfold lo8. change 0xff with (2^8 - 1). rewrite land_ones_mod by lia. change (2^8) with 256. lia. Qed.

Lemma fault_set_reg z s f v : fault (set_reg z s f v) = fault s.
Proof. unfold set_reg; destruct z; unfold set_reg8, set_reg16, set_reg32; repeat match goal with |- context [if ?c then _ else _] => destruct c end; reflexivity. Qed.

(* ---- handler level ---- *)
Lemma alu2_imm_b_refines o op s n :
  cpu_ok s -> cs KI 1 s = Ok n s ->
  run_tag (TAlu2Imm o SB) op 0 0 s =
  Ok n (let '(r, c) := alu2_ref o 8 (reg8 s (nib op 2)) (lo8 op) (ccr s) in
        with_ccr c (match o with ACmp => s | _ => set_reg8 s (nib op 2) r end)).
Proof.
  intros [Hregs Hccr] Hcs. cbn [run_tag]. pose proof (nib_range op 2) as R2. pose proof (lo8_range op) as Rl.
  unfold bind at 1. rewrite read_rn_b_spec by lia. unfold bind at 1. unfold get_ccr.
  pose proof (reg8_range s (nib op 2)) as Ra.
  rewrite alu2_fun_spec; try assumption; try (right; left; reflexivity); try (left; reflexivity); try (intros _; reflexivity).
  pose proof (alu2_ref_range o 8 (reg8 s (nib op 2)) (lo8 op) (ccr s) ltac:(left; reflexivity) Ra Rl) as Rr.
  destruct (alu2_ref o 8 (reg8 s (nib op 2)) (lo8 op) (ccr s)) as [r c]. cbn [fst] in Rr.
  unfold bind, put_ccr, modify.
  destruct o; cbn [alu2_writes]; try (rewrite write_rn_b_spec by (try assumption; try lia; exact Hregs)); unfold with_ccr; cbn [ret];
    try (unfold set_reg8, set_reg32, reg32; cbn [er set_ccr]; destruct (nib op 2 <? 8); apply cs_frame; exact Hcs);
    try (apply cs_frame_ccr; exact Hcs).
Qed.

Lemma mov_imm_b_refines op s n :
  cpu_ok s -> cs KI 1 s = Ok n s ->
  run_tag (TMovImm SB) op 0 0 s = Ok n (with_ccr (mov_ccr SB (lo8 op) (ccr s)) (set_reg8 s (nib op 2) (lo8 op))).
Proof.
  intros [Hregs Hccr] Hcs. cbn [run_tag]. pose proof (nib_range op 2) as R2. pose proof (lo8_range op) as Rl.
  unfold bind at 1. rewrite write_rn_b_spec by (try assumption; lia).
  unfold bind at 1. rewrite (set_mov_flags_spec SB) by (try assumption; change (set_reg8 s (nib op 2) (lo8 op)) with (set_reg SB s (nib op 2) (lo8 op)); rewrite ?ccr_set_reg; assumption).
  change (set_reg8 s (nib op 2) (lo8 op)) with (set_reg SB s (nib op 2) (lo8 op)). rewrite ccr_set_reg.
  unfold with_ccr, set_reg, set_reg8, set_reg32, reg32. cbn [er]. destruct (nib op 2 <? 8); apply cs_frame; exact Hcs.
Qed.

Lemma cs_frame_regs kind n s rg v : cs kind n s = Ok v s -> cs kind n (set_regs rg s) = Ok v (set_regs rg s).
Proof.
  unfold cs, lift. cbn [cbus opc set_regs]. destruct (calc_state (cbus s) (opc s) kind n); intros H; inversion H; reflexivity.
Qed.

Lemma adds_refines k op s n : 0 <= nib op 4 < 8 -> cs KI 1 s = Ok n s ->
  run_tag (TAdds k) op 0 0 s = Ok n (set_reg32 s (nib op 4) ((reg32 s (nib op 4) + k) mod 4294967296)).
Proof.
  intros Hr Hcs. cbn [run_tag]. unfold bind at 1. rewrite read_rn_l_spec by assumption.
  unfold bind. rewrite write_rn_l_spec by assumption. unfold wrap. change (2^32) with 4294967296.
  unfold set_reg32. apply cs_frame_regs. exact Hcs.
Qed.
Lemma subs_refines k op s n : 0 <= nib op 4 < 8 -> cs KI 1 s = Ok n s ->
  run_tag (TSubs k) op 0 0 s = Ok n (set_reg32 s (nib op 4) ((reg32 s (nib op 4) - k) mod 4294967296)).
Proof.
  intros Hr Hcs. cbn [run_tag]. unfold bind at 1. rewrite read_rn_l_spec by assumption.
  unfold bind. rewrite write_rn_l_spec by assumption. unfold wrap. change (2^32) with 4294967296.
  unfold set_reg32. apply cs_frame_regs. exact Hcs.
Qed.

Lemma stc_b_refines op s n : cpu_ok s -> cs KI 1 s = Ok n s ->
  run_tag TStcB op 0 0 s = Ok n (set_reg8 s (nib op 4) (ccr s)).
Proof.
  intros [Hregs Hccr] Hcs. cbn [run_tag]. pose proof (nib_range op 4) as R4.
  unfold bind at 1. unfold get_ccr. unfold bind. rewrite write_rn_b_spec by (try assumption; lia).
  unfold set_reg8, set_reg32. destruct (nib op 4 <? 8); apply cs_frame_regs; exact Hcs.
Qed.

(* ---- end to end ---- *)
Ltac start_step Hb Hw Hd :=
  let Rw := fresh "Rw" in
  pose proof (word_range _ _ _ Hb Hw) as Rw;
  let Hp := fresh "Hp" in let Hs := fresh "Hs" in let Hag := fresh "Hag" in let Hx := fresh "Hx" in
  destruct (two_byte_dispatch _ _ _ _ _ _ Rw Hd) as (Hp & Hs & Hag & Hx & _);
  match type of Hw with mem_read SW ?s0 _ = Some ?w0 => rewrite (step_via_handler s0 w0) by assumption end;
  destruct (select1 _) eqn:?Es; cbn [is_second] in Hs; try discriminate Hs; try (simpl in Hag; discriminate Hag).

Theorem step_alu2_imm_b_proof s w w1 w2 w3 w4 o imm rd n :
  cpu_ok s -> bus_bytes_ok s -> fault s = false -> pc s mod 2 = 0 -> 0 <= pc s -> pc s + 2 < 4294967296 ->
  mem_read SW s (pc s) = Some w ->
  decode_ref w w1 w2 w3 w4 = Some (IAlu2I o SB imm rd, 2) ->
  cs KI 1 (post_fetch s) = Ok n (post_fetch s) ->
  exists s', sem_ref (IAlu2I o SB imm rd) 2 s = Some s' /\ step s = Ok n (set_opc (pc s) s').
Proof.
  intros Hok Hb Hf Hev H0 H1 Hw Hd Hcs.
  start_step Hb Hw Hd; try (destruct s0; simpl in Hag; discriminate Hag).
  destruct s0; try (simpl in Hag; discriminate Hag).
  cbn [agree] in Hag. repeat (apply andb_true_iff in Hag; destruct Hag as [Hag ?]).
  apply alu2_eqb_eq in Hag. subst o0. assert (Ei : imm = lo8 w) by lia. assert (Er : rd = nib w 2) by lia.
  rewrite (alu2_imm_b_refines o w (post_fetch s) n Hok Hcs).
  cbn [sem_ref bits_of reg set_reg]. rewrite <- Ei, <- Er. unfold post_fetch.
  change (reg8 (set_pc (pc s + 2) (set_opc (pc s) s)) rd) with (reg8 s rd). cbn [ccr set_pc set_opc].
  destruct (alu2_ref o 8 (reg8 s rd) imm (ccr s)) as [r c].
  eexists. split; [reflexivity|]. unfold finish.
  destruct o; try (change (set_reg8 (set_pc (pc s + 2) (set_opc (pc s) s)) rd r) with (set_reg SB (set_pc (pc s + 2) (set_opc (pc s) s)) rd r);
                   rewrite set_reg_set_pc_opc);
    unfold with_ccr, with_pc; cbn [fault set_ccr set_pc set_opc]; rewrite ?fault_set_reg, Hf; reflexivity.
Qed.

Theorem step_mov_imm_b_proof s w w1 w2 w3 w4 imm rd n :
  cpu_ok s -> bus_bytes_ok s -> fault s = false -> pc s mod 2 = 0 -> 0 <= pc s -> pc s + 2 < 4294967296 ->
  mem_read SW s (pc s) = Some w ->
  decode_ref w w1 w2 w3 w4 = Some (IMovImm SB imm rd, 2) ->
  cs KI 1 (post_fetch s) = Ok n (post_fetch s) ->
  exists s', sem_ref (IMovImm SB imm rd) 2 s = Some s' /\ step s = Ok n (set_opc (pc s) s').
Proof.
  intros Hok Hb Hf Hev H0 H1 Hw Hd Hcs.
  start_step Hb Hw Hd; try (destruct s0; simpl in Hag; discriminate Hag).
  destruct s0; try (simpl in Hag; discriminate Hag).
  cbn [agree] in Hag. apply andb_true_iff in Hag. destruct Hag as [Hi Hr].
  assert (Ei : imm = lo8 w) by lia. assert (Er : rd = nib w 2) by lia.
  rewrite (mov_imm_b_refines w (post_fetch s) n Hok Hcs).
  cbn [sem_ref bits_of set_reg]. rewrite <- Ei, <- Er. unfold post_fetch. cbn [ccr set_pc set_opc].
  eexists. split; [reflexivity|]. unfold finish, mov_ccr. cbn [bits_of].
  change (set_reg8 (set_pc (pc s + 2) (set_opc (pc s) s)) rd imm) with (set_reg SB (set_pc (pc s + 2) (set_opc (pc s) s)) rd imm).
  rewrite set_reg_set_pc_opc. unfold with_ccr, with_pc. cbn [fault set_ccr set_pc set_opc]. rewrite fault_set_reg, Hf. reflexivity.
Qed.

Theorem step_adds_subs_proof s w w1 w2 w3 w4 (sub : bool) k rd n :
  bus_bytes_ok s -> fault s = false -> pc s mod 2 = 0 -> 0 <= pc s -> pc s + 2 < 4294967296 ->
  mem_read SW s (pc s) = Some w ->
  decode_ref w w1 w2 w3 w4 = Some ((if sub then ISubs k rd else IAdds k rd), 2) ->
  cs KI 1 (post_fetch s) = Ok n (post_fetch s) ->
  exists s', sem_ref (if sub then ISubs k rd else IAdds k rd) 2 s = Some s' /\ step s = Ok n (set_opc (pc s) s').
Proof.
  intros Hb Hf Hev H0 H1 Hw Hd Hcs. pose proof (nib_range w 4) as R4.
  destruct sub.
  - start_step Hb Hw Hd.
    cbn [agree] in Hag. repeat (apply andb_true_iff in Hag; destruct Hag as [Hag ?]).
    assert (k0 = k) by lia. subst k0. assert (Er : rd = nib w 4) by lia.
    rewrite (subs_refines k w (post_fetch s) n) by (try assumption; lia).
    cbn [sem_ref]. rewrite <- Er. unfold post_fetch. change (reg32 (set_pc (pc s + 2) (set_opc (pc s) s)) rd) with (reg32 s rd).
    eexists. split; [reflexivity|]. unfold finish, set_reg32, with_pc. cbn [fault set_regs set_pc set_opc er]. rewrite Hf. reflexivity.
  - start_step Hb Hw Hd.
    cbn [agree] in Hag. repeat (apply andb_true_iff in Hag; destruct Hag as [Hag ?]).
    assert (k0 = k) by lia. subst k0. assert (Er : rd = nib w 4) by lia.
    rewrite (adds_refines k w (post_fetch s) n) by (try assumption; lia).
    cbn [sem_ref]. rewrite <- Er. unfold post_fetch. change (reg32 (set_pc (pc s + 2) (set_opc (pc s) s)) rd) with (reg32 s rd).
    eexists. split; [reflexivity|]. unfold finish, set_reg32, with_pc. cbn [fault set_regs set_pc set_opc er]. rewrite Hf. reflexivity.
Qed.

Theorem step_stc_b_proof s w w1 w2 w3 w4 rd n :
  cpu_ok s -> bus_bytes_ok s -> fault s = false -> pc s mod 2 = 0 -> 0 <= pc s -> pc s + 2 < 4294967296 ->
  mem_read SW s (pc s) = Some w ->
  decode_ref w w1 w2 w3 w4 = Some (IStcB rd, 2) ->
  cs KI 1 (post_fetch s) = Ok n (post_fetch s) ->
  exists s', sem_ref (IStcB rd) 2 s = Some s' /\ step s = Ok n (set_opc (pc s) s').
Proof.
  intros Hok Hb Hf Hev H0 H1 Hw Hd Hcs.
  start_step Hb Hw Hd.
  cbn [agree] in Hag. assert (Er : rd = nib w 4) by lia.
  rewrite (stc_b_refines w (post_fetch s) n Hok Hcs).
  cbn [sem_ref]. rewrite <- Er. unfold post_fetch. cbn [ccr set_pc set_opc].
  eexists. split; [reflexivity|]. unfold finish.
  change (set_reg8 (set_pc (pc s + 2) (set_opc (pc s) s)) rd (ccr s)) with (set_reg SB (set_pc (pc s + 2) (set_opc (pc s) s)) rd (ccr s)).
  rewrite set_reg_set_pc_opc. unfold with_pc. cbn [fault set_pc set_opc]. rewrite fault_set_reg, Hf. reflexivity.
Qed.

(* ---- MULXU.B / MULXU.W ---- *)
Definition mul_suffix (z : sz) : M Z := i <- cs KI 1 ;; n <- cs KN (match z with SB => 12 | _ => 20 end) ;; ret (u8add i n).

Lemma cs_same k n s a s' : cs k n s = Ok a s' -> s' = s.
Proof. unfold cs, lift. destruct (calc_state (cbus s) (opc s) k n); intros H; inversion H; reflexivity. Qed.

Lemma mul_suffix_regs z s rg n : mul_suffix z s = Ok n s -> mul_suffix z (set_regs rg s) = Ok n (set_regs rg s).
Proof.
  unfold mul_suffix, bind. intros H.
  destruct (cs KI 1 s) as [a s1| |] eqn:E1; try discriminate H. pose proof (cs_same _ _ _ _ _ E1); subst s1.
  rewrite (cs_frame_regs _ _ _ rg _ E1).
  destruct (cs KN _ s) as [b s2| |] eqn:E2; try discriminate H. pose proof (cs_same _ _ _ _ _ E2); subst s2.
  rewrite (cs_frame_regs _ _ _ rg _ E2). unfold ret in *. inversion H. reflexivity.
Qed.

Lemma mulxu_b_refines op s n : cpu_ok s -> mul_suffix SB s = Ok n s ->
  run_tag (TMulxu SB) op 0 0 s = Ok n (set_reg16 s (nib op 4) ((reg16 s (nib op 4) mod 256) * reg8 s (nib op 3))).
Proof.
  intros [Hregs Hccr] Hcs. cbn [run_tag]. pose proof (nib_range op 3) as R3. pose proof (nib_range op 4) as R4.
  unfold bind at 1. rewrite read_rn_b_spec by lia. unfold bind at 1. rewrite read_rn_w_spec by lia.
  pose proof (reg8_range s (nib op 3)) as Ra. pose proof (reg16_range s (nib op 4)) as Rb.
  change 0xff with (2^8 - 1). rewrite land_ones_mod by lia. change (2^8) with 256.
  unfold bind at 1. rewrite write_rn_w_spec by (try assumption; nia).
  fold (mul_suffix SB). unfold set_reg16, set_reg32. destruct (nib op 4 <? 8); apply mul_suffix_regs; exact Hcs.
Qed.

Lemma mulxu_w_refines op s n : cpu_ok s -> 0 <= nib op 4 < 8 -> mul_suffix SW s = Ok n s ->
  run_tag (TMulxu SW) op 0 0 s = Ok n (set_reg32 s (nib op 4) ((reg32 s (nib op 4) mod 65536) * reg16 s (nib op 3))).
Proof.
  intros [Hregs Hccr] Hr Hcs. cbn [run_tag]. pose proof (nib_range op 3) as R3.
  unfold bind at 1. rewrite read_rn_w_spec by lia. unfold bind at 1. rewrite read_rn_l_spec by lia.
  change 0xffff with (2^16 - 1). rewrite land_ones_mod by lia. change (2^16) with 65536.
  unfold bind at 1. rewrite write_rn_l_spec by lia.
  fold (mul_suffix SW). unfold set_reg32. apply mul_suffix_regs. exact Hcs.
Qed.

Theorem step_mulxu_proof s w w1 w2 w3 w4 z rs rd n :
  cpu_ok s -> bus_bytes_ok s -> fault s = false -> pc s mod 2 = 0 -> 0 <= pc s -> pc s + 2 < 4294967296 ->
  mem_read SW s (pc s) = Some w ->
  decode_ref w w1 w2 w3 w4 = Some (IMulxu z rs rd, 2) -> z <> SL ->
  mul_suffix z (post_fetch s) = Ok n (post_fetch s) ->
  exists s', sem_ref (IMulxu z rs rd) 2 s = Some s' /\ step s = Ok n (set_opc (pc s) s').
Proof.
  intros Hok Hb Hf Hev H0 H1 Hw Hd Hz Hcs.
  start_step Hb Hw Hd; try (destruct z; simpl in Hag; discriminate Hag).
  destruct z; [| |contradiction]; destruct s0; try (simpl in Hag; discriminate Hag).
  - cbn [agree] in Hag. apply andb_true_iff in Hag. destruct Hag as [Ha1 Ha2].
    assert (Es1 : rs = nib w 3) by lia. assert (Ed : rd = nib w 4) by lia.
    rewrite (mulxu_b_refines w (post_fetch s) n Hok Hcs).
    cbn [sem_ref]. rewrite <- Es1, <- Ed. unfold post_fetch.
    change (reg16 (set_pc (pc s + 2) (set_opc (pc s) s)) rd) with (reg16 s rd).
    change (reg8 (set_pc (pc s + 2) (set_opc (pc s) s)) rs) with (reg8 s rs).
    eexists. split; [reflexivity|]. unfold finish.
    change (set_reg16 (set_pc (pc s + 2) (set_opc (pc s) s)) rd (reg16 s rd mod 256 * reg8 s rs))
      with (set_reg SW (set_pc (pc s + 2) (set_opc (pc s) s)) rd (reg16 s rd mod 256 * reg8 s rs)).
    rewrite set_reg_set_pc_opc. unfold with_pc. cbn [fault set_pc set_opc]. rewrite fault_set_reg, Hf. reflexivity.
  - cbn [agree] in Hag. repeat (apply andb_true_iff in Hag; destruct Hag as [Hag ?]).
    assert (Es1 : rs = nib w 3) by lia. assert (Ed : rd = nib w 4) by lia. pose proof (nib_range w 4) as R4.
    rewrite (mulxu_w_refines w (post_fetch s) n Hok) by (try assumption; lia).
    cbn [sem_ref]. rewrite <- Es1, <- Ed. unfold post_fetch.
    change (reg32 (set_pc (pc s + 2) (set_opc (pc s) s)) rd) with (reg32 s rd).
    change (reg16 (set_pc (pc s + 2) (set_opc (pc s) s)) rs) with (reg16 s rs).
    eexists. split; [reflexivity|]. unfold finish, set_reg32, with_pc. cbn [fault set_regs set_pc set_opc er]. rewrite Hf. reflexivity.
Qed.

(* ---- MOV with a memory operand, the two-byte forms: @ERn, @aa:8, @ERn+ (POP), @-ERn (PUSH), byte and word ---- *)
Lemma mem_write_pf z a b s x v :
  mem_write z (set_pc a (set_opc b s)) x v = option_map (fun s' => set_pc a (set_opc b s')) (mem_write z s x v).
Proof.
  destruct z; cbn [mem_write]; unfold ISA.obind.
  - apply put8_pf.
  - rewrite put8_pf. destruct (put8 s x _) as [s1|]; [|reflexivity]. cbn [option_map]. apply put8_pf.
  - apply mem_write_l_pf.
Qed.
Lemma mem_write_fault z s a v s' : mem_write z s a v = Some s' -> fault s' = fault s.
Proof.
  destruct z; cbn [mem_write]; unfold ISA.obind.
  - apply put8_fault.
  - destruct (put8 s a _) as [s1|] eqn:E1; [|discriminate]. intros E2.
    rewrite (put8_fault _ _ _ _ E2), (put8_fault _ _ _ _ E1). reflexivity.
  - apply mem_write_l_fault.
Qed.

Theorem step_mov_load_ern_proof s w w1 w2 w3 w4 z r rd n s' :
  cpu_ok s -> bus_bytes_ok s -> fault s = false -> pc s mod 2 = 0 -> 0 <= pc s -> pc s + 2 < 4294967296 ->
  mem_read SW s (pc s) = Some w ->
  decode_ref w w1 w2 w3 w4 = Some (IMovLoad z (EInd r) rd, 2) ->
  sem_ref (IMovLoad z (EInd r) rd) 2 s = Some s' ->
  mov_charge z (ea_addr z s (EInd r)) 1 0 (set_opc (pc s) s') = Ok n (set_opc (pc s) s') ->
  step s = Ok n (set_opc (pc s) s').
Proof.
  intros Hok Hb Hf Hev H0 H1 Hw Hd Hsem Hcs.
  start_step Hb Hw Hd; try (destruct z; simpl in Hag; discriminate Hag).
  assert (Hz : s0 = z /\ z <> SL).
  { destruct z, s0; simpl in Hag; try discriminate Hag; try discriminate Hs; split; try reflexivity; discriminate. }
  destruct Hz as [-> Hz].
  assert (Hfacts : Z.land w 0x80 = 0 /\ r = nib w 3 /\ rd = nib w 4 /\ r < 8).
  { destruct z; [| |contradiction]; cbn [agree] in Hag; repeat (apply andb_true_iff in Hag; destruct Hag as [Hag ?]); repeat split; lia. }
  destruct Hfacts as (Hl & Er & Ed & Hr8). pose proof (nib_range w 3) as R3. pose proof (nib_range w 4) as R4.
  pose proof (mov_ern_load_proof z w 0 (post_fetch s)) as Hh. cbv zeta in Hh.
  replace (opw z w 0) with w in Hh by (destruct z; [reflexivity|reflexivity|contradiction]).
  replace (icnt1 z) with 1 in Hh by (destruct z; [reflexivity|reflexivity|contradiction]).
  rewrite Hh; [|exact Hok|exact Hb|exact Hl|lia|destruct z; cbn [field_ok]; lia]. clear Hh.
  cbn [sem_ref] in Hsem. rewrite <- Er, <- Ed.
  change (mem_read z (post_fetch s) (ea_addr z (post_fetch s) (EInd r))) with (mem_read z s (ea_addr z s (EInd r))).
  change (ea_addr z (post_fetch s) (EInd r)) with (ea_addr z s (EInd r)).
  destruct (mem_read z s (ea_addr z s (EInd r))) as [v|]; cbn [ISA.obind] in Hsem; [|discriminate Hsem].
  injection Hsem as <-. cbn [option_map then_charge ea_update]. unfold post_fetch. cbn [ccr set_pc set_opc].
  rewrite set_reg_set_pc_opc. unfold mov_ccr.
  change (with_ccr (set_flag fV false (set_nz (bits_of z) v (ccr s))) (set_pc (pc s + 2) (set_opc (pc s) (set_reg z s rd v))))
    with (set_opc (pc s) (with_pc (pc s + 2) (with_ccr (set_flag fV false (set_nz (bits_of z) v (ccr s))) (set_reg z s rd v)))).
  rewrite Hcs. unfold finish. unfold with_pc, with_ccr. cbn [fault set_opc set_pc set_ccr]. rewrite fault_set_reg, Hf. reflexivity.
Qed.

Theorem step_mov_store_ern_proof s w w1 w2 w3 w4 z rs r n s' :
  cpu_ok s -> bus_bytes_ok s -> fault s = false -> pc s mod 2 = 0 -> 0 <= pc s -> pc s + 2 < 4294967296 ->
  mem_read SW s (pc s) = Some w ->
  decode_ref w w1 w2 w3 w4 = Some (IMovStore z rs (EInd r), 2) ->
  sem_ref (IMovStore z rs (EInd r)) 2 s = Some s' ->
  mov_charge z (ea_addr z s (EInd r)) 1 0 (set_opc (pc s) s') = Ok n (set_opc (pc s) s') ->
  step s = Ok n (set_opc (pc s) s').
Proof.
  intros Hok Hb Hf Hev H0 H1 Hw Hd Hsem Hcs.
  start_step Hb Hw Hd; try (destruct z; simpl in Hag; discriminate Hag).
  assert (Hz : s0 = z /\ z <> SL).
  { destruct z, s0; simpl in Hag; try discriminate Hag; try discriminate Hs; split; try reflexivity; discriminate. }
  destruct Hz as [-> Hz].
  assert (Hfacts : Z.land w 0x80 <> 0 /\ r = Z.land (nib w 3) 7 /\ rs = nib w 4).
  { destruct z; [| |contradiction]; cbn [agree] in Hag; repeat (apply andb_true_iff in Hag; destruct Hag as [Hag ?]); repeat split; lia. }
  destruct Hfacts as (Hl & Er & Ed). pose proof (nib_range w 4) as R4.
  pose proof (mov_ern_store_proof z w 0 (post_fetch s)) as Hh. cbv zeta in Hh.
  replace (opw z w 0) with w in Hh by (destruct z; [reflexivity|reflexivity|contradiction]).
  replace (icnt1 z) with 1 in Hh by (destruct z; [reflexivity|reflexivity|contradiction]).
  rewrite Hh; [|exact Hok|exact Hl|destruct z; cbn [field_ok]; lia]. clear Hh.
  cbn [sem_ref ea_update] in Hsem. rewrite <- Er, <- Ed.
  change (reg z (post_fetch s) rs) with (reg z s rs).
  change (ea_addr z (post_fetch s) (EInd r)) with (ea_addr z s (EInd r)).
  unfold post_fetch. rewrite mem_write_pf.
  destruct (mem_write z s (ea_addr z s (EInd r)) (reg z s rs)) as [s2|] eqn:E; cbn [ISA.obind] in Hsem; [|discriminate Hsem].
  injection Hsem as <-. cbn [option_map then_charge]. cbn [ccr set_pc set_opc]. unfold mov_ccr.
  change (with_ccr (set_flag fV false (set_nz (bits_of z) (reg z s rs) (ccr s))) (set_pc (pc s + 2) (set_opc (pc s) s2)))
    with (set_opc (pc s) (with_pc (pc s + 2) (with_ccr (set_flag fV false (set_nz (bits_of z) (reg z s rs) (ccr s))) s2))).
  rewrite Hcs. unfold finish. unfold with_pc, with_ccr. cbn [fault set_opc set_pc set_ccr].
  rewrite (mem_write_fault _ _ _ _ _ E), Hf. reflexivity.
Qed.

Theorem step_mov_load_abs8_proof s w w1 w2 w3 w4 a rd n s' :
  cpu_ok s -> bus_bytes_ok s -> fault s = false -> pc s mod 2 = 0 -> 0 <= pc s -> pc s + 2 < 4294967296 ->
  mem_read SW s (pc s) = Some w ->
  decode_ref w w1 w2 w3 w4 = Some (IMovLoad SB (EAbs a) rd, 2) ->
  sem_ref (IMovLoad SB (EAbs a) rd) 2 s = Some s' ->
  mov_charge SB a 1 0 (set_opc (pc s) s') = Ok n (set_opc (pc s) s') ->
  step s = Ok n (set_opc (pc s) s').
Proof.
  intros Hok Hb Hf Hev H0 H1 Hw Hd Hsem Hcs.
  start_step Hb Hw Hd; try (destruct s0; simpl in Hag; discriminate Hag).
  cbn [agree] in Hag. repeat (apply andb_true_iff in Hag; destruct Hag as [Hag ?]).
  pose proof (lo8_range w) as Rl. pose proof (nib_range w 2) as R2.
  assert (Ea : a = abs8 (lo8 w)) by (rewrite <- ea_abs8 by lia; lia). assert (Ed : rd = nib w 2) by lia.
  rewrite mov_abs8_load_proof; [|exact Hok|exact Hb|lia|lia|lia].
  cbn [sem_ref ea_addr ea_update] in Hsem. rewrite <- Ea, <- Ed.
  change (mem_read SB (post_fetch s) a) with (mem_read SB s a).
  destruct (mem_read SB s a) as [v|]; cbn [ISA.obind] in Hsem; [|discriminate Hsem].
  injection Hsem as <-. cbn [option_map then_charge]. unfold post_fetch. cbn [ccr set_pc set_opc].
  rewrite set_reg_set_pc_opc. unfold mov_ccr.
  change (with_ccr (set_flag fV false (set_nz (bits_of SB) v (ccr s))) (set_pc (pc s + 2) (set_opc (pc s) (set_reg SB s rd v))))
    with (set_opc (pc s) (with_pc (pc s + 2) (with_ccr (set_flag fV false (set_nz (bits_of SB) v (ccr s))) (set_reg SB s rd v)))).
  cbn [bits_of set_reg] in *. rewrite Hcs. unfold finish. unfold with_pc, with_ccr. cbn [fault set_opc set_pc set_ccr]. change (set_reg8 s rd v) with (set_reg SB s rd v). rewrite fault_set_reg, Hf. reflexivity.
Qed.

Theorem step_mov_store_abs8_proof s w w1 w2 w3 w4 a rs n s' :
  cpu_ok s -> bus_bytes_ok s -> fault s = false -> pc s mod 2 = 0 -> 0 <= pc s -> pc s + 2 < 4294967296 ->
  mem_read SW s (pc s) = Some w ->
  decode_ref w w1 w2 w3 w4 = Some (IMovStore SB rs (EAbs a), 2) ->
  sem_ref (IMovStore SB rs (EAbs a)) 2 s = Some s' ->
  mov_charge SB a 1 0 (set_opc (pc s) s') = Ok n (set_opc (pc s) s') ->
  step s = Ok n (set_opc (pc s) s').
Proof.
  intros Hok Hb Hf Hev H0 H1 Hw Hd Hsem Hcs.
  start_step Hb Hw Hd; try (destruct s0; simpl in Hag; discriminate Hag).
  cbn [agree] in Hag. repeat (apply andb_true_iff in Hag; destruct Hag as [Hag ?]).
  pose proof (lo8_range w) as Rl. pose proof (nib_range w 2) as R2.
  assert (Ea : a = abs8 (lo8 w)) by (rewrite <- ea_abs8 by lia; lia). assert (Ed : rs = nib w 2) by lia.
  rewrite mov_abs8_store_proof; [|exact Hok|lia|lia|lia].
  cbn [sem_ref ea_addr ea_update] in Hsem. rewrite <- Ea, <- Ed.
  change (reg SB (post_fetch s) rs) with (reg SB s rs). unfold post_fetch. rewrite mem_write_pf.
  destruct (mem_write SB s a (reg SB s rs)) as [s2|] eqn:E; cbn [ISA.obind] in Hsem; [|discriminate Hsem].
  injection Hsem as <-. cbn [option_map then_charge]. cbn [ccr set_pc set_opc]. unfold mov_ccr.
  change (with_ccr (set_flag fV false (set_nz (bits_of SB) (reg SB s rs) (ccr s))) (set_pc (pc s + 2) (set_opc (pc s) s2)))
    with (set_opc (pc s) (with_pc (pc s + 2) (with_ccr (set_flag fV false (set_nz (bits_of SB) (reg SB s rs) (ccr s))) s2))).
  cbn [bits_of set_reg reg] in *. rewrite Hcs. unfold finish. unfold with_pc, with_ccr. cbn [fault set_opc set_pc set_ccr].
  rewrite (mem_write_fault _ _ _ _ _ E), Hf. reflexivity.
Qed.

(* POP: MOV @ERs+,Rd *)
Theorem step_mov_postinc_proof s w w1 w2 w3 w4 z r rd n s' :
  cpu_ok s -> bus_bytes_ok s -> fault s = false -> pc s mod 2 = 0 -> 0 <= pc s -> pc s + 2 < 4294967296 ->
  mem_read SW s (pc s) = Some w ->
  decode_ref w w1 w2 w3 w4 = Some (IMovLoad z (EPostInc r) rd, 2) ->
  sem_ref (IMovLoad z (EPostInc r) rd) 2 s = Some s' ->
  incdec_charge z (ea_addr z s (EPostInc r)) (set_opc (pc s) s') = Ok n (set_opc (pc s) s') ->
  step s = Ok n (set_opc (pc s) s').
Proof.
  intros Hok Hb Hf Hev H0 H1 Hw Hd Hsem Hcs.
  start_step Hb Hw Hd; try (destruct z; simpl in Hag; discriminate Hag).
  assert (Hz : s0 = z /\ z <> SL).
  { destruct z, s0; simpl in Hag; try discriminate Hag; try discriminate Hs; split; try reflexivity; discriminate. }
  destruct Hz as [-> Hz].
  assert (Hfacts : Z.land w 0x80 = 0 /\ r = nib w 3 /\ rd = nib w 4 /\ r < 8).
  { destruct z; [| |contradiction]; cbn [agree] in Hag; repeat (apply andb_true_iff in Hag; destruct Hag as [Hag ?]); repeat split; lia. }
  destruct Hfacts as (Hl & Er & Ed & Hr8). pose proof (nib_range w 3) as R3. pose proof (nib_range w 4) as R4.
  pose proof (mov_postinc_proof z w 0 (post_fetch s)) as Hh. cbv zeta in Hh.
  replace (opw z w 0) with w in Hh by (destruct z; [reflexivity|reflexivity|contradiction]).
  rewrite Hh; [|exact Hok|exact Hb|exact Hl|lia|destruct z; cbn [field_ok]; lia]. clear Hh.
  cbn [sem_ref] in Hsem. rewrite <- Er, <- Ed.
  change (mem_read z (post_fetch s) (ea_addr z (post_fetch s) (EPostInc r))) with (mem_read z s (ea_addr z s (EPostInc r))).
  change (ea_addr z (post_fetch s) (EPostInc r)) with (ea_addr z s (EPostInc r)).
  destruct (mem_read z s (ea_addr z s (EPostInc r))) as [v|]; cbn [ISA.obind] in Hsem; [|discriminate Hsem].
  (apply (f_equal (fun o => match o with Some x => x | None => s' end)) in Hsem; cbv beta iota in Hsem; subst s'). cbn [option_map then_charge]. unfold post_fetch. cbn [ccr set_pc set_opc].
  change (ea_update z (set_pc (pc s + 2) (set_opc (pc s) s)) (EPostInc r)) with (set_pc (pc s + 2) (set_opc (pc s) (ea_update z s (EPostInc r)))).
  rewrite set_reg_set_pc_opc. unfold mov_ccr.
  change (with_ccr (set_flag fV false (set_nz (bits_of z) v (ccr s))) (set_pc (pc s + 2) (set_opc (pc s) (set_reg z (ea_update z s (EPostInc r)) rd v))))
    with (set_opc (pc s) (with_pc (pc s + 2) (with_ccr (set_flag fV false (set_nz (bits_of z) v (ccr s))) (set_reg z (ea_update z s (EPostInc r)) rd v)))).
  rewrite Hcs. unfold finish. unfold with_pc, with_ccr. cbn [fault set_opc set_pc set_ccr]. rewrite fault_set_reg.
  unfold ea_update, set_reg32. cbn [fault set_regs]. rewrite Hf. reflexivity.
Qed.

(* PUSH: MOV Rs,@-ERd *)
Theorem step_mov_predec_proof s w w1 w2 w3 w4 z rs r n s' :
  cpu_ok s -> bus_bytes_ok s -> fault s = false -> pc s mod 2 = 0 -> 0 <= pc s -> pc s + 2 < 4294967296 ->
  mem_read SW s (pc s) = Some w ->
  decode_ref w w1 w2 w3 w4 = Some (IMovStore z rs (EPreDec r), 2) ->
  sem_ref (IMovStore z rs (EPreDec r)) 2 s = Some s' ->
  incdec_charge z (ea_addr z s (EPreDec r)) (set_opc (pc s) s') = Ok n (set_opc (pc s) s') ->
  step s = Ok n (set_opc (pc s) s').
Proof.
  intros Hok Hb Hf Hev H0 H1 Hw Hd Hsem Hcs.
  start_step Hb Hw Hd; try (destruct z; simpl in Hag; discriminate Hag).
  assert (Hz : s0 = z /\ z <> SL).
  { destruct z, s0; simpl in Hag; try discriminate Hag; try discriminate Hs; split; try reflexivity; discriminate. }
  destruct Hz as [-> Hz].
  assert (Hfacts : Z.land w 0x80 <> 0 /\ r = Z.land (nib w 3) 7 /\ rs = nib w 4).
  { destruct z; [| |contradiction]; cbn [agree] in Hag; repeat (apply andb_true_iff in Hag; destruct Hag as [Hag ?]); repeat split; lia. }
  destruct Hfacts as (Hl & Er & Ed). pose proof (nib_range w 4) as R4.
  pose proof (mov_predec_proof z w 0 (post_fetch s)) as Hh. cbv zeta in Hh.
  replace (opw z w 0) with w in Hh by (destruct z; [reflexivity|reflexivity|contradiction]).
  rewrite Hh; [|exact Hok|exact Hl|destruct z; cbn [field_ok]; lia]. clear Hh.
  cbn [sem_ref] in Hsem. rewrite <- Er, <- Ed.
  change (reg z (post_fetch s) rs) with (reg z s rs).
  change (ea_addr z (post_fetch s) (EPreDec r)) with (ea_addr z s (EPreDec r)).
  unfold post_fetch.
  change (ea_update z (set_pc (pc s + 2) (set_opc (pc s) s)) (EPreDec r)) with (set_pc (pc s + 2) (set_opc (pc s) (ea_update z s (EPreDec r)))).
  rewrite mem_write_pf.
  destruct (mem_write z (ea_update z s (EPreDec r)) (ea_addr z s (EPreDec r)) (reg z s rs)) as [s2|] eqn:E; cbn [ISA.obind] in Hsem; [|discriminate Hsem].
  (apply (f_equal (fun o => match o with Some x => x | None => s' end)) in Hsem; cbv beta iota in Hsem; subst s'). cbn [option_map then_charge]. cbn [ccr set_pc set_opc]. unfold mov_ccr.
  change (with_ccr (set_flag fV false (set_nz (bits_of z) (reg z s rs) (ccr s))) (set_pc (pc s + 2) (set_opc (pc s) s2)))
    with (set_opc (pc s) (with_pc (pc s + 2) (with_ccr (set_flag fV false (set_nz (bits_of z) (reg z s rs) (ccr s))) s2))).
  rewrite Hcs. unfold finish. unfold with_pc, with_ccr. cbn [fault set_opc set_pc set_ccr].
  rewrite (mem_write_fault _ _ _ _ _ E). unfold ea_update, set_reg32. cbn [fault set_regs]. rewrite Hf. reflexivity.
Qed.

(* ---- DIVXU.B / DIVXU.W (divisor non-zero, quotient fits: the reference is defined) ---- *)
Lemma mul_suffix_ccr z s c n : mul_suffix z s = Ok n s -> mul_suffix z (set_ccr c s) = Ok n (set_ccr c s).
Proof.
  unfold mul_suffix, bind. intros H.
  destruct (cs KI 1 s) as [a s1| |] eqn:E1; try discriminate H. pose proof (cs_same _ _ _ _ _ E1); subst s1.
  rewrite (cs_frame_ccr _ _ _ c _ E1).
  destruct (cs KN _ s) as [b s2| |] eqn:E2; try discriminate H. pose proof (cs_same _ _ _ _ _ E2); subst s2.
  rewrite (cs_frame_ccr _ _ _ c _ E2). unfold ret in *. inversion H. reflexivity.
Qed.

Theorem step_divxu_b_proof s w w1 w2 w3 w4 rs rd n s' :
  cpu_ok s -> bus_bytes_ok s -> fault s = false -> pc s mod 2 = 0 -> 0 <= pc s -> pc s + 2 < 4294967296 ->
  mem_read SW s (pc s) = Some w ->
  decode_ref w w1 w2 w3 w4 = Some (IDivxu SB rs rd, 2) ->
  sem_ref (IDivxu SB rs rd) 2 s = Some s' ->
  mul_suffix SB (post_fetch s) = Ok n (post_fetch s) ->
  step s = Ok n (set_opc (pc s) s').
Proof.
  intros Hok Hb Hf Hev H0 H1 Hw Hd Hsem Hcs. destruct Hok as [Hregs Hccr].
  start_step Hb Hw Hd; try (destruct s0; simpl in Hag; discriminate Hag).
  destruct s0; try (simpl in Hag; discriminate Hag).
  cbn [agree] in Hag. apply andb_true_iff in Hag. destruct Hag as [Ha1 Ha2].
  assert (Es1 : rs = nib w 3) by lia. assert (Ed : rd = nib w 4) by lia.
  pose proof (nib_range w 3) as R3. pose proof (nib_range w 4) as R4.
  cbn [sem_ref] in Hsem. cbv zeta in Hsem.
  destruct ((reg8 s rs =? 0) || (256 <=? reg16 s rd / reg8 s rs)) eqn:Edom; [discriminate Hsem|].
  apply orb_false_iff in Edom. destruct Edom as [Ez Eq].
  pose proof (reg8_range s rs) as Ra. pose proof (reg16_range s rd) as Rb.
  cbn [run_tag]. rewrite <- Es1, <- Ed.
  unfold bind at 1. rewrite read_rn_w_spec by lia. unfold bind at 1. rewrite read_rn_b_spec by lia. unfold bind at 1. unfold get_ccr.
  change (reg16 (post_fetch s) rd) with (reg16 s rd). change (reg8 (post_fetch s) rs) with (reg8 s rs). change (ccr (post_fetch s)) with (ccr s).
  rewrite (divxu_spec 8) by (try (left; reflexivity); try (change (2^(2*8)) with 65536); try (change (2^8) with 256); try assumption; lia).
  unfold bind at 1. unfold put_ccr, modify. unfold bind at 1.
  assert (Rq : 0 <= (reg16 s rd mod reg8 s rs) * 2 ^ 8 + reg16 s rd / reg8 s rs < 65536).
  { change (2^8) with 256. assert (reg16 s rd mod reg8 s rs < reg8 s rs) by (apply Z.mod_pos_bound; lia).
    assert (0 <= reg16 s rd mod reg8 s rs) by (apply Z.mod_pos_bound; lia). assert (0 <= reg16 s rd / reg8 s rs) by (apply Z.div_pos; lia). nia. }
  rewrite write_rn_w_spec by (try assumption; lia).
  fold (mul_suffix SB).
  (apply (f_equal (fun o => match o with Some x => x | None => s' end)) in Hsem; cbv beta iota in Hsem; subst s').
  change (2^8) with 256.
  assert (Hfin : set_reg16 (set_ccr (set_flag fZ false (set_flag fN (neg_bit 8 (reg8 s rs)) (ccr s))) (post_fetch s)) rd
                   (reg16 s rd mod reg8 s rs * 256 + reg16 s rd / reg8 s rs) =
                 set_opc (pc s) (with_pc (pc s + 2) (with_ccr (set_flag fZ false (set_flag fN (neg_bit 8 (reg8 s rs)) (ccr s)))
                   (set_reg16 s rd (reg16 s rd mod reg8 s rs * 256 + reg16 s rd / reg8 s rs))))).
  { unfold post_fetch, set_reg16, set_reg32, reg32, with_pc, with_ccr. cbn [er set_ccr set_pc set_opc]. destruct (rd <? 8); reflexivity. }
  rewrite Hfin.
  set (fin := set_opc (pc s) (with_pc (pc s + 2) (with_ccr (set_flag fZ false (set_flag fN (neg_bit 8 (reg8 s rs)) (ccr s)))
                   (set_reg16 s rd (reg16 s rd mod reg8 s rs * 256 + reg16 s rd / reg8 s rs))))) in *.
  assert (Hcs' : mul_suffix SB fin = Ok n fin).
  { rewrite <- Hfin. unfold set_reg16, set_reg32. destruct (rd <? 8); apply mul_suffix_regs; apply mul_suffix_ccr; exact Hcs. }
  rewrite Hcs'. unfold finish. subst fin. unfold with_pc, with_ccr. cbn [fault set_opc set_pc set_ccr].
  change (set_reg16 s rd (reg16 s rd mod reg8 s rs * 256 + reg16 s rd / reg8 s rs)) with (set_reg SW s rd (reg16 s rd mod reg8 s rs * 256 + reg16 s rd / reg8 s rs)).
  rewrite fault_set_reg, Hf. reflexivity.
Qed.

(* ---- JSR @@aa:8 (the vector is not overwritten by the pushed frame) ---- *)
Theorem step_jsr_ind_proof s w w1 w2 w3 w4 aa n s' :
  cpu_ok s -> bus_bytes_ok s -> fault s = false -> pc s mod 2 = 0 -> 0 <= pc s -> pc s + 2 < 4294967296 ->
  mem_read SW s (pc s) = Some w ->
  decode_ref w w1 w2 w3 w4 = Some (IJsr (JInd aa), 2) ->
  (forall s1, push32 s (pc s + 2) = Some s1 -> bus_bytes_ok s1 /\ mem_read SL s1 aa = mem_read SL s aa) ->
  sem_ref (IJsr (JInd aa)) 2 s = Some s' ->
  (i <- cs KI 2 ;; j <- csa KJ 2 aa ;; k <- csa KK 2 ((reg32 s 7 - 4) mod A24) ;; ret (u8add (u8add i j) k)) (set_opc (pc s) s') = Ok n (set_opc (pc s) s') ->
  step s = Ok n (set_opc (pc s) s').
Proof.
  intros [Hr Hc] Hb Hf Hev H0 H1 Hw Hd Hvec Hsem Hcs.
  start_step Hb Hw Hd.
  cbn [agree] in Hag. assert (Ea : aa = lo8 w) by lia.
  rewrite jsr_ind_refines_proof; [|exact Hr|unfold post_fetch; cbn [pc set_pc]; lia|].
  2:{ intros s1. unfold post_fetch. cbn [pc set_pc set_opc]. rewrite push32_pf.
      destruct (push32 s (pc s + 2)) as [s2|] eqn:E; cbn [option_map]; [|discriminate].
      intros Heq. injection Heq as <-. exact (proj1 (Hvec s2 eq_refl)). }
  cbn [sem_ref jump_target] in Hsem. rewrite <- Ea.
  unfold post_fetch. cbn [pc set_pc set_opc]. rewrite push32_pf.
  change (reg32 (set_pc (pc s + 2) (set_opc (pc s) s)) 7) with (reg32 s 7).
  destruct (mem_read SL s aa) as [v|] eqn:Ev; cbn [ISA.obind] in Hsem; [|discriminate Hsem].
  destruct (push32 s (pc s + 2)) as [s1|] eqn:E; cbn [ISA.obind] in Hsem; [|discriminate Hsem].
  (apply (f_equal (fun o => match o with Some x => x | None => s' end)) in Hsem; cbv beta iota in Hsem; subst s').
  cbn [option_map ISA.obind].
  change (mem_read SL (set_pc (pc s + 2) (set_opc (pc s) s1)) aa) with (mem_read SL s1 aa).
  rewrite (proj2 (Hvec s1 eq_refl)). cbn [option_map then_charge].
  rewrite with_pc_pf. rewrite Hcs. unfold finish.
  pose proof (push32_fault _ _ _ E) as Hf1. cbn [fault set_opc with_pc set_pc]. rewrite Hf1, Hf. reflexivity.
Qed.

(* ---- every two-byte encoding of a listed unimplemented instruction is rejected: the step returns an error ---- *)
Theorem step_unimplemented_proof s w w1 w2 w3 w4 :
  bus_bytes_ok s -> pc s mod 2 = 0 -> 0 <= pc s -> pc s + 2 < 4294967296 ->
  mem_read SW s (pc s) = Some w ->
  decode_ref w w1 w2 w3 w4 = Some (IUnimplemented, 2) ->
  step s = Err.
Proof.
  intros Hb Hev H0 H1 Hw Hd.
  start_step Hb Hw Hd; reflexivity.
Qed.

(* ---- DIVXU.W (divisor non-zero, quotient fits) ---- *)
Theorem step_divxu_w_proof s w w1 w2 w3 w4 rs rd n s' :
  cpu_ok s -> bus_bytes_ok s -> fault s = false -> pc s mod 2 = 0 -> 0 <= pc s -> pc s + 2 < 4294967296 ->
  mem_read SW s (pc s) = Some w ->
  decode_ref w w1 w2 w3 w4 = Some (IDivxu SW rs rd, 2) ->
  sem_ref (IDivxu SW rs rd) 2 s = Some s' ->
  mul_suffix SW (post_fetch s) = Ok n (post_fetch s) ->
  step s = Ok n (set_opc (pc s) s').
Proof.
  intros Hok Hb Hf Hev H0 H1 Hw Hd Hsem Hcs. destruct Hok as [Hregs Hccr].
  start_step Hb Hw Hd; try (destruct s0; simpl in Hag; discriminate Hag).
  destruct s0; try (simpl in Hag; discriminate Hag).
  cbn [agree] in Hag. repeat (apply andb_true_iff in Hag; destruct Hag as [Hag ?]).
  pose proof (nib_range w 3) as R3. pose proof (nib_range w 4) as R4.
  assert (Es1 : rs = nib w 3) by lia. assert (Ed : rd = nib w 4) by lia.
  assert (Ed7 : Z.land (nib w 4) 7 = rd) by lia.
  assert (Rrd : 0 <= rd < 8).
  { rewrite <- Ed7. change 7 with (2^3 - 1). rewrite land_ones_mod by lia. change (2^3) with 8. lia. }
  cbn [sem_ref] in Hsem. cbv zeta in Hsem.
  destruct ((reg16 s rs =? 0) || (65536 <=? reg32 s rd / reg16 s rs)) eqn:Edom; [discriminate Hsem|].
  apply orb_false_iff in Edom. destruct Edom as [Ez Eq].
  pose proof (reg16_range s rs) as Ra. pose proof (Hregs rd) as Rb. unfold word32 in Rb. fold (reg32 s rd) in Rb.
  cbn [run_tag]. rewrite Ed7. rewrite <- Es1.
  unfold bind at 1. rewrite read_rn_l_spec by lia. unfold bind at 1. rewrite read_rn_w_spec by lia. unfold bind at 1. unfold get_ccr.
  change (reg32 (post_fetch s) rd) with (reg32 s rd). change (reg16 (post_fetch s) rs) with (reg16 s rs). change (ccr (post_fetch s)) with (ccr s).
  rewrite (divxu_spec 16) by (try (right; reflexivity); try (change (2^(2*16)) with 4294967296); try (change (2^16) with 65536); try assumption; lia).
  unfold bind at 1. unfold put_ccr, modify. unfold bind at 1.
  rewrite write_rn_l_spec by lia.
  fold (mul_suffix SW).
  (apply (f_equal (fun o => match o with Some x => x | None => s' end)) in Hsem; cbv beta iota in Hsem; subst s').
  change (2^16) with 65536.
  assert (Hfin : set_reg32 (set_ccr (set_flag fZ false (set_flag fN (neg_bit 16 (reg16 s rs)) (ccr s))) (post_fetch s)) rd
                   (reg32 s rd mod reg16 s rs * 65536 + reg32 s rd / reg16 s rs) =
                 set_opc (pc s) (with_pc (pc s + 2) (with_ccr (set_flag fZ false (set_flag fN (neg_bit 16 (reg16 s rs)) (ccr s)))
                   (set_reg32 s rd (reg32 s rd mod reg16 s rs * 65536 + reg32 s rd / reg16 s rs))))) by reflexivity.
  rewrite Hfin.
  set (fin := set_opc (pc s) (with_pc (pc s + 2) (with_ccr (set_flag fZ false (set_flag fN (neg_bit 16 (reg16 s rs)) (ccr s)))
                   (set_reg32 s rd (reg32 s rd mod reg16 s rs * 65536 + reg32 s rd / reg16 s rs))))) in *.
  assert (Hcs' : mul_suffix SW fin = Ok n fin).
  { rewrite <- Hfin. unfold set_reg32. apply mul_suffix_regs. apply mul_suffix_ccr. exact Hcs. }
  rewrite Hcs'. unfold finish. subst fin. unfold with_pc, with_ccr, set_reg32. cbn [fault set_opc set_pc set_ccr set_regs]. rewrite Hf. reflexivity.
Qed.
