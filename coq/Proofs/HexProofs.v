(* The hexadecimal fields of control lines (C18): the digit loop with its running overflow test accepts exactly the
   non-empty hexadecimal numerals (either case, an optional single leading '+') whose value does not exceed the type's
   maximum, and yields that value. *)
From Coq Require Import Bool ZArith Lia List.
From K Require Import Lib.Types Model.Run.
Import ListNotations.
Open Scope bool_scope. Open Scope Z_scope.

(* the digits of a numeral, None if some character is not a hexadecimal digit *)
Fixpoint digits_of (l : list Z) : option (list Z) :=
  match l with
  | [] => Some []
  | c :: t => match hexval c, digits_of t with Some d, Some ds => Some (d :: ds) | _, _ => None end
  end.
(* positional value, most significant digit first *)
Definition num (ds : list Z) (acc : Z) : Z := fold_left (fun a d => a * 16 + d) ds acc.

Lemma hexval_range c d : hexval c = Some d -> 0 <= d < 16.
Proof.
  unfold hexval. destruct ((48 <=? c) && (c <=? 57)) eqn:E1; [intros H; injection H as <-; lia|].
  destruct ((97 <=? c) && (c <=? 102)) eqn:E2; [intros H; injection H as <-; lia|].
  destruct ((65 <=? c) && (c <=? 70)) eqn:E3; [intros H; injection H as <-; lia|discriminate].
Qed.

Lemma digits_range : forall l ds, digits_of l = Some ds -> Forall (fun d => 0 <= d < 16) ds.
Proof.
  induction l as [|c t IH]; intros ds H; cbn [digits_of] in H; [injection H as <-; constructor|].
  destruct (hexval c) as [d|] eqn:E; [|discriminate]. destruct (digits_of t) as [ds'|]; [|discriminate].
  injection H as <-. constructor; [apply (hexval_range c d E)|apply IH; reflexivity].
Qed.

Lemma num_ge : forall ds acc, Forall (fun d => 0 <= d < 16) ds -> 0 <= acc -> acc <= num ds acc.
Proof.
  induction ds as [|d ds IH]; intros acc Hall Ha; cbn [num fold_left]; [lia|].
  inversion Hall as [|? ? Hd Ht]; subst. fold (num ds (acc * 16 + d)). specialize (IH (acc * 16 + d) Ht ltac:(lia)). lia.
Qed.

Theorem parse_digits_spec : forall l acc max, 0 <= acc <= max ->
  parse_digits acc l max =
  match digits_of l with
  | Some ds => if num ds acc <=? max then Some (num ds acc) else None
  | None => None
  end.
Proof.
  induction l as [|c t IH]; intros acc max Ha; cbn [parse_digits digits_of].
  - cbn [num fold_left]. replace (acc <=? max) with true by lia. reflexivity.
  - destruct (hexval c) as [d|] eqn:E; [|reflexivity].
    pose proof (hexval_range c d E) as Rd.
    destruct (max <? acc * 16 + d) eqn:Eo.
    + destruct (digits_of t) as [ds|] eqn:Et; [|reflexivity].
      cbn [num fold_left]. fold (num ds (acc * 16 + d)).
      pose proof (num_ge ds (acc * 16 + d) (digits_range t ds Et) ltac:(lia)).
      replace (num ds (acc * 16 + d) <=? max) with false by lia. reflexivity.
    + rewrite IH by lia. destruct (digits_of t) as [ds|]; reflexivity.
Qed.

(* a whole field: optional single '+', at least one digit *)
Theorem parse_hex_spec l max : 0 <= max ->
  parse_hex l max =
  let body := match l with 43 :: t => t | _ => l end in
  match body with
  | [] => None
  | _ => match digits_of body with
         | Some ds => if num ds 0 <=? max then Some (num ds 0) else None
         | None => None
         end
  end.
Proof.
  intros Hm. unfold parse_hex. destruct l as [|c t]; [reflexivity|].
  destruct (Z.eq_dec c 43) as [->|Hc].
  - destruct t as [|c' t']; [reflexivity|]. apply parse_digits_spec. lia.
  - assert (E : match c with 43 => match t with [] => None | _ :: _ => parse_digits 0 t max end | _ => parse_digits 0 (c :: t) max end = parse_digits 0 (c :: t) max).
    { destruct c as [|p|p]; try reflexivity. repeat (destruct p as [p|p|]; try reflexivity). contradiction. }
    rewrite E. cbv zeta.
    assert (E2 : match c :: t with 43 :: t0 => t0 | _ => c :: t end = c :: t).
    { destruct c as [|p|p]; try reflexivity. repeat (destruct p as [p|p|]; try reflexivity). contradiction. }
    rewrite E2. apply parse_digits_spec. lia.
Qed.

Example hex_examples :
  parse_hex [102; 70] 255 = Some 255 /\ parse_hex [49; 48; 48] 255 = None /\ parse_hex [43; 65] 255 = Some 10 /\
  parse_hex [43] 255 = None /\ parse_hex [] 255 = None /\ parse_hex [45; 49] 255 = None /\ parse_hex [48; 120; 49] 255 = None.
Proof. repeat split; reflexivity. Qed.
