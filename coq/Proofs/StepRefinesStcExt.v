(* From the instruction words in memory to the reference semantics: STC.W CCR,<ea> behind the 0140 prefix with a 16-bit
   displacement or absolute address (six bytes), a 24-bit absolute address (eight bytes) or a 24-bit displacement (ten bytes). *)
From Coq Require Import Bool ZArith Lia ZifyBool List.
From K Require Import Lib.Bits Lib.Types Model.Machine Model.Bus Model.Cost Model.Addressing Model.Alu Model.Exec Spec.ISA
  Proofs.RegProofs Proofs.MemProofs Proofs.FlagProofs Proofs.AluProofs Proofs.EaProofs Proofs.StepProofs Proofs.DecodeProofs
  Proofs.CtlProofs Proofs.MovProofs Proofs.MovExtProofs Proofs.StcProofs Proofs.StcExtProofs Proofs.TwoByte Proofs.StepRefines Proofs.StepRefinesCtl
  Proofs.StepRefines2 Proofs.StepRefines4 Proofs.StepRefines6 Proofs.StepRefinesL Proofs.StepRefinesStc
  Proofs.StepRefinesMov4 Proofs.StepRefinesMov6 Proofs.StepRefinesMovL Proofs.StepRefinesMovL10.
Import ListNotations.
Open Scope bool_scope. Open Scope Z_scope.
Ltac Zify.zify_post_hook ::= Z.div_mod_to_equations.

(* stated for a generic first word with hib = 01, lob = 40 (rewriting keeps the terms small) *)
Ltac unfold_decode_0140 Hh Hl :=
  unfold decode_ref, dec_mov_mem, dec_unary, dec_imm_group, dec_bit_mem, req, ok; cbv zeta; rewrite Hh, Hl.

Lemma stc6_shape_gen w0 w1 w2 w3 w4 e :
  hib w0 = 1 -> lob w0 = 0x40 ->
  decode_ref w0 w1 w2 w3 w4 = Some (IStcW e, 6) ->
  match e with
  | EDisp r d => decode_ref w0 w1 0 0 0 = Some (IStcW (EDisp r (sx 16 0)), 6) /\ d = sx 16 w2
  | EAbs a => decode_ref w0 w1 0 0 0 = Some (IStcW (EAbs (abs16 0)), 6) /\ a = abs16 w2
  | _ => False
  end.
Proof.
  intros Hh Hl. unfold_decode_0140 Hh Hl.
  split_ifs; intros H; try discriminate H; try (exfalso; clear -H; inversion H; fail).
  all: inversion H; subst; clear H; split; reflexivity.
Qed.

Lemma stc8_shape_gen w0 w1 w2 w3 w4 e :
  hib w0 = 1 -> lob w0 = 0x40 ->
  0 <= w2 < 65536 ->
  decode_ref w0 w1 w2 w3 w4 = Some (IStcW e, 8) ->
  match e with
  | EAbs a => decode_ref w0 w1 0 0 0 = Some (IStcW (EAbs (lob 0 * 65536 + 0)), 8) /\ a = w2 * 65536 + w3 /\ 0 <= w2 < 256
  | _ => False
  end.
Proof.
  intros Hh Hl Hw2. unfold_decode_0140 Hh Hl.
  split_ifs; intros H; try discriminate H; try (exfalso; clear -H; inversion H; fail).
  all: inversion H; subst; clear H.
  all: try (exfalso; unfold hib, lob, n3, n4 in *; lia).
  all: split; [reflexivity|]; unfold hib, lob, n3, n4 in *; (assert (Hm : w2 mod 256 = w2) by lia); rewrite Hm; split; [reflexivity|lia].
Qed.

Lemma stc10_shape_gen w0 w1 w2 w3 w4 e :
  hib w0 = 1 -> lob w0 = 0x40 ->
  0 <= w3 < 65536 ->
  decode_ref w0 w1 w2 w3 w4 = Some (IStcW e, 10) ->
  match e with
  | EDisp r d => decode_ref w0 w1 0x6ba0 0 0 = Some (IStcW (EDisp r (sx 24 (lob 0 * 65536 + 0))), 10) /\
                 d = sx 24 (w3 * 65536 + w4) /\ 0 <= w3 < 256 /\ w2 = 0x6ba0
  | _ => False
  end.
Proof.
  intros Hh Hl Hw3. unfold_decode_0140 Hh Hl.
  split_ifs; intros H; try discriminate H; try (exfalso; clear -H; inversion H; fail).
  all: inversion H; subst; clear H.
  all: try (exfalso; unfold hib, lob, n3, n4 in *; lia).
  all: split; [reflexivity|]; unfold hib, lob, n3, n4 in *; (assert (Hm : w3 mod 256 = w3) by lia); rewrite Hm; split; [reflexivity|lia].
Qed.

Lemma stc6_shape w1 w2 w3 w4 e :
  decode_ref 0x0140 w1 w2 w3 w4 = Some (IStcW e, 6) ->
  match e with
  | EDisp r d => decode_ref 0x0140 w1 0 0 0 = Some (IStcW (EDisp r (sx 16 0)), 6) /\ d = sx 16 w2
  | EAbs a => decode_ref 0x0140 w1 0 0 0 = Some (IStcW (EAbs (abs16 0)), 6) /\ a = abs16 w2
  | _ => False
  end.
Proof. apply stc6_shape_gen; reflexivity. Qed.
Lemma stc8_shape w1 w2 w3 w4 e :
  0 <= w2 < 65536 ->
  decode_ref 0x0140 w1 w2 w3 w4 = Some (IStcW e, 8) ->
  match e with
  | EAbs a => decode_ref 0x0140 w1 0 0 0 = Some (IStcW (EAbs (lob 0 * 65536 + 0)), 8) /\ a = w2 * 65536 + w3 /\ 0 <= w2 < 256
  | _ => False
  end.
Proof. apply stc8_shape_gen; reflexivity. Qed.
Lemma stc10_shape w1 w2 w3 w4 e :
  0 <= w3 < 65536 ->
  decode_ref 0x0140 w1 w2 w3 w4 = Some (IStcW e, 10) ->
  match e with
  | EDisp r d => decode_ref 0x0140 w1 0x6ba0 0 0 = Some (IStcW (EDisp r (sx 24 (lob 0 * 65536 + 0))), 10) /\
                 d = sx 24 (w3 * 65536 + w4) /\ 0 <= w3 < 256 /\ w2 = 0x6ba0
  | _ => False
  end.
Proof. apply stc10_shape_gen; reflexivity. Qed.

(* the length and operand kind of the form determine the handler family *)
Definition tag_is (t u : tag) : bool :=
  match t, u with
  | TStcDisp16, TStcDisp16 | TStcAbs16, TStcAbs16 | TStcAbs24, TStcAbs24 | TStcDisp24, TStcDisp24 => true
  | _, _ => false
  end.
Definition stc_len_tag_ok (w1 : Z) : bool :=
  match decode_ref 0x0140 w1 0 0 0 with
  | Some (IStcW (EDisp _ _), 6) => tag_is (select_stc w1) TStcDisp16
  | Some (IStcW (EAbs _), 6) => tag_is (select_stc w1) TStcAbs16
  | Some (IStcW (EAbs _), 8) => tag_is (select_stc w1) TStcAbs24
  | _ => true
  end
  && match decode_ref 0x0140 w1 0x6ba0 0 0 with
     | Some (IStcW (EDisp _ _), 10) => tag_is (select_stc w1) TStcDisp24
     | _ => true
     end.
Lemma stc_len_tag_sweep : forallb stc_len_tag_ok (zrange 65536) = true.
Proof. vm_compute. reflexivity. Qed.

Lemma tag_is_eq t u : tag_is t u = true -> t = u.
Proof. destruct t, u; cbn; try discriminate; reflexivity. Qed.

Lemma stc_agree_6ba0 w1 i len : 0 <= w1 < 65536 -> decode_ref 0x0140 w1 0x6ba0 0 0 = Some (i, len) -> agree (select_stc w1) 0x0140 w1 i = true.
Proof.
  intros Hw Hd. destruct stc_sweep as (H & _). pose proof (forallb_zrange _ 65536 H w1 Hw) as H1.
  unfold agree2 in H1. rewrite Hd in H1. exact H1.
Qed.

Definition post_fetch5 := StepRefinesMovL10.post_fetch5.

(* ---- STC.W CCR,@(d:16,ERd) ---- *)
Theorem step_stc_disp16_proof s w1 d w3 w4 r disp n s' :
  cpu_ok s -> bus_bytes_ok s -> fault s = false -> pc s mod 2 = 0 -> 0 <= pc s -> pc s + 6 < 4294967296 ->
  mem_read SW s (pc s) = Some 0x0140 -> mem_read SW s (pc s + 2) = Some w1 -> mem_read SW s (pc s + 4) = Some d ->
  decode_ref 0x0140 w1 d w3 w4 = Some (IStcW (EDisp r disp), 6) ->
  sem_ref (IStcW (EDisp r disp)) 6 s = Some s' ->
  stc_charge 3 (ea_addr SW s (EDisp r disp)) (set_opc (pc s + 4) s') = Ok n (set_opc (pc s + 4) s') ->
  step s = Ok n (set_opc (pc s + 4) s').
Proof.
  intros [Hr Hc] Hb Hf Hev H0 H1 Hw Hw1 Hd2 Hdec Hsem Hcs.
  pose proof (word_range s _ _ Hb Hw1) as Rw1.
  destruct (stc6_shape _ _ _ _ _ Hdec) as [Hd0 Ei].
  pose proof (stc_agree w1 _ _ Rw1 Hd0) as Hag.
  pose proof (forallb_zrange _ 65536 stc_len_tag_sweep w1 Rw1) as Ht. unfold stc_len_tag_ok in Ht. rewrite Hd0 in Ht.
  apply andb_true_iff in Ht. destruct Ht as [Ht _]. apply tag_is_eq in Ht.
  rewrite (step_prefix_stc s w1) by (try assumption; lia). rewrite Ht in *.
  cbn [agree] in Hag. assert (Er : r = Z.land (nib w1 3) 7) by lia.
  pose proof (stc_disp16_refines_proof 0x0140 w1 d (post_fetch2 s)) as Hh. cbv zeta in Hh. rewrite <- Er in Hh.
  rewrite Hh; [|exact Hc|exact Hb| | | |exact Hd2]; [|unfold post_fetch2; cbn [pc set_pc]; lia..]. clear Hh.
  rewrite post_fetch_pf2.
  cbn [sem_ref ea_update] in Hsem. rewrite <- Ei.
  change (ea_addr SW (post_fetch2 s) (EDisp r disp)) with (ea_addr SW s (EDisp r disp)). change (ccr (post_fetch2 s)) with (ccr s).
  unfold post_fetch3. rewrite mem_write_pf.
  destruct (mem_write SW s (ea_addr SW s (EDisp r disp)) (ccr s)) as [s2|] eqn:E; cbn [ISA.obind] in Hsem; [|discriminate Hsem].
  (apply (f_equal (fun o => match o with Some x => x | None => s' end)) in Hsem; cbv beta iota in Hsem; subst s').
  cbn [option_map then_charge].
  change (set_pc (pc s + 6) (set_opc (pc s + 4) s2)) with (set_opc (pc s + 4) (with_pc (pc s + 6) s2)).
  rewrite Hcs. unfold finish, with_pc. cbn [fault set_opc set_pc]. rewrite (mem_write_fault _ _ _ _ _ E), Hf. reflexivity.
Qed.

(* ---- STC.W CCR,@aa:16 ---- *)
Theorem step_stc_abs16_proof s w1 d w3 w4 a n s' :
  cpu_ok s -> bus_bytes_ok s -> fault s = false -> pc s mod 2 = 0 -> 0 <= pc s -> pc s + 6 < 4294967296 ->
  mem_read SW s (pc s) = Some 0x0140 -> mem_read SW s (pc s + 2) = Some w1 -> mem_read SW s (pc s + 4) = Some d ->
  decode_ref 0x0140 w1 d w3 w4 = Some (IStcW (EAbs a), 6) ->
  sem_ref (IStcW (EAbs a)) 6 s = Some s' ->
  stc_charge 3 a (set_opc (pc s + 4) s') = Ok n (set_opc (pc s + 4) s') ->
  step s = Ok n (set_opc (pc s + 4) s').
Proof.
  intros [Hr Hc] Hb Hf Hev H0 H1 Hw Hw1 Hd2 Hdec Hsem Hcs.
  pose proof (word_range s _ _ Hb Hw1) as Rw1.
  destruct (stc6_shape _ _ _ _ _ Hdec) as [Hd0 Ei].
  pose proof (forallb_zrange _ 65536 stc_len_tag_sweep w1 Rw1) as Ht. unfold stc_len_tag_ok in Ht. rewrite Hd0 in Ht.
  apply andb_true_iff in Ht. destruct Ht as [Ht _]. apply tag_is_eq in Ht.
  rewrite (step_prefix_stc s w1) by (try assumption; lia). rewrite Ht.
  pose proof (stc_abs16_refines_proof 0x0140 w1 d (post_fetch2 s)) as Hh.
  rewrite Hh; [|exact Hc|exact Hb| | | |exact Hd2]; [|unfold post_fetch2; cbn [pc set_pc]; lia..]. clear Hh.
  rewrite post_fetch_pf2.
  cbn [sem_ref ea_addr ea_update] in Hsem. rewrite <- Ei. change (ccr (post_fetch2 s)) with (ccr s).
  unfold post_fetch3. rewrite mem_write_pf.
  destruct (mem_write SW s a (ccr s)) as [s2|] eqn:E; cbn [ISA.obind] in Hsem; [|discriminate Hsem].
  (apply (f_equal (fun o => match o with Some x => x | None => s' end)) in Hsem; cbv beta iota in Hsem; subst s').
  cbn [option_map then_charge].
  change (set_pc (pc s + 6) (set_opc (pc s + 4) s2)) with (set_opc (pc s + 4) (with_pc (pc s + 6) s2)).
  rewrite Hcs. unfold finish, with_pc. cbn [fault set_opc set_pc]. rewrite (mem_write_fault _ _ _ _ _ E), Hf. reflexivity.
Qed.

(* ---- STC.W CCR,@aa:24 ---- *)
Theorem step_stc_abs24_proof s w1 h l w4 a n s' :
  cpu_ok s -> bus_bytes_ok s -> fault s = false -> pc s mod 2 = 0 -> 0 <= pc s -> pc s + 8 < 4294967296 ->
  mem_read SW s (pc s) = Some 0x0140 -> mem_read SW s (pc s + 2) = Some w1 ->
  mem_read SW s (pc s + 4) = Some h -> mem_read SW s (pc s + 6) = Some l ->
  decode_ref 0x0140 w1 h l w4 = Some (IStcW (EAbs a), 8) ->
  sem_ref (IStcW (EAbs a)) 8 s = Some s' ->
  stc_charge 4 a (set_opc (pc s + 6) s') = Ok n (set_opc (pc s + 6) s') ->
  step s = Ok n (set_opc (pc s + 6) s').
Proof.
  intros [Hr Hc] Hb Hf Hev H0 H1 Hw Hw1 Hh Hl Hdec Hsem Hcs.
  pose proof (word_range s _ _ Hb Hw1) as Rw1. pose proof (word_range s _ _ Hb Hh) as Rh.
  destruct (stc8_shape _ _ _ _ _ Rh Hdec) as (Hd0 & Ea & Rh8).
  pose proof (forallb_zrange _ 65536 stc_len_tag_sweep w1 Rw1) as Ht. unfold stc_len_tag_ok in Ht. rewrite Hd0 in Ht.
  apply andb_true_iff in Ht. destruct Ht as [Ht _]. apply tag_is_eq in Ht.
  rewrite (step_prefix_stc s w1) by (try assumption; lia). rewrite Ht.
  pose proof (stc_abs24_refines_proof 0x0140 w1 h l (post_fetch2 s)) as Hx. cbv zeta in Hx.
  rewrite Hx; [|exact Hc|exact Hb| | | |exact Hh|]; [|unfold post_fetch2; cbn [pc set_pc]; try lia..].
  2:{ replace (pc s + 4 + 2) with (pc s + 6) by lia. exact Hl. }
  clear Hx. rewrite post_fetch_2w_pf2.
  cbn [sem_ref ea_addr ea_update] in Hsem. rewrite <- Ea. change (ccr (post_fetch2 s)) with (ccr s).
  unfold post_fetch4. rewrite mem_write_pf.
  destruct (mem_write SW s a (ccr s)) as [s2|] eqn:E; cbn [ISA.obind] in Hsem; [|discriminate Hsem].
  (apply (f_equal (fun o => match o with Some x => x | None => s' end)) in Hsem; cbv beta iota in Hsem; subst s').
  cbn [option_map then_charge].
  change (set_pc (pc s + 8) (set_opc (pc s + 6) s2)) with (set_opc (pc s + 6) (with_pc (pc s + 8) s2)).
  rewrite Hcs. unfold finish, with_pc. cbn [fault set_opc set_pc]. rewrite (mem_write_fault _ _ _ _ _ E), Hf. reflexivity.
Qed.

(* ---- STC.W CCR,@(d:24,ERd) ---- *)
Theorem step_stc_disp24_proof s w1 w2 h l r disp n s' :
  cpu_ok s -> bus_bytes_ok s -> fault s = false -> pc s mod 2 = 0 -> 0 <= pc s -> pc s + 10 < 4294967296 ->
  mem_read SW s (pc s) = Some 0x0140 -> mem_read SW s (pc s + 2) = Some w1 -> mem_read SW s (pc s + 4) = Some w2 ->
  mem_read SW s (pc s + 6) = Some h -> mem_read SW s (pc s + 8) = Some l ->
  decode_ref 0x0140 w1 w2 h l = Some (IStcW (EDisp r disp), 10) ->
  sem_ref (IStcW (EDisp r disp)) 10 s = Some s' ->
  stc_charge 5 (ea_addr SW s (EDisp r disp)) (set_opc (pc s + 8) s') = Ok n (set_opc (pc s + 8) s') ->
  step s = Ok n (set_opc (pc s + 8) s').
Proof.
  intros [Hr Hc] Hb Hf Hev H0 H1 Hw Hw1 Hw2 Hh Hl Hdec Hsem Hcs.
  pose proof (word_range s _ _ Hb Hw1) as Rw1. pose proof (word_range s _ _ Hb Hh) as Rh.
  destruct (stc10_shape _ _ _ _ _ Rh Hdec) as (Hd0 & Ei & Rh8 & E2). subst w2.
  pose proof (stc_agree_6ba0 w1 _ _ Rw1 Hd0) as Hag.
  pose proof (forallb_zrange _ 65536 stc_len_tag_sweep w1 Rw1) as Ht. unfold stc_len_tag_ok in Ht. rewrite Hd0 in Ht.
  apply andb_true_iff in Ht. destruct Ht as [_ Ht]. apply tag_is_eq in Ht.
  rewrite (step_prefix_stc s w1) by (try assumption; lia). rewrite Ht in *.
  cbn [agree] in Hag. apply andb_true_iff in Hag. destruct Hag as [Ha1 Ha2].
  assert (Er : r = nib w1 3) by lia. pose proof (nib_range w1 3) as R3.
  pose proof (stc_disp24_refines_proof 0x0140 w1 h l (post_fetch2 s)) as Hx. cbv zeta in Hx. rewrite <- Er in Hx.
  rewrite Hx; [|exact Hc|exact Hb| | | |exact Hw2| | |exact Rh8|lia]; [|unfold post_fetch2; cbn [pc set_pc]; try lia..].
  2:{ replace (pc s + 4 + 2) with (pc s + 6) by lia. exact Hh. }
  2:{ replace (pc s + 4 + 4) with (pc s + 8) by lia. exact Hl. }
  clear Hx. rewrite post_fetch3_pf2.
  cbn [sem_ref ea_update] in Hsem. rewrite <- Ei.
  change (ea_addr SW (post_fetch2 s) (EDisp r disp)) with (ea_addr SW s (EDisp r disp)). change (ccr (post_fetch2 s)) with (ccr s).
  unfold StepRefinesMovL10.post_fetch5. rewrite mem_write_pf.
  destruct (mem_write SW s (ea_addr SW s (EDisp r disp)) (ccr s)) as [s2|] eqn:E; cbn [ISA.obind] in Hsem; [|discriminate Hsem].
  (apply (f_equal (fun o => match o with Some x => x | None => s' end)) in Hsem; cbv beta iota in Hsem; subst s').
  cbn [option_map then_charge].
  change (set_pc (pc s + 10) (set_opc (pc s + 8) s2)) with (set_opc (pc s + 8) (with_pc (pc s + 10) s2)).
  rewrite Hcs. unfold finish, with_pc. cbn [fault set_opc set_pc]. rewrite (mem_write_fault _ _ _ _ _ E), Hf. reflexivity.
Qed.
