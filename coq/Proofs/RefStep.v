(* The model's step IS the reference step on the domain the correspondence check claims: for every machine state of the
   domain, if the operation-code map decodes the words at PC as instruction i of length len and the reference semantics
   is defined, then [step] ends in exactly that state, charging exactly the reference's priced cycle table. *)
From Coq Require Import Bool ZArith Lia ZifyBool List.
From K Require Import Lib.Bits Lib.Types Model.Machine Model.Bus Model.Cost Model.Addressing Model.Alu Model.Exec Spec.MemMap Spec.Price Spec.ISA Spec.Domains
  Proofs.PriceProofs Proofs.RegProofs Proofs.MemProofs Proofs.StepProofs Proofs.CtlProofs Proofs.MovProofs Proofs.BitMemProofs Proofs.StcProofs Proofs.StcExtProofs
  Proofs.TwoByte Proofs.StepRefines Proofs.StepRefinesCtl Proofs.StepRefines2 Proofs.StepRefines4 Proofs.StepRefines6 Proofs.StepRefinesL Proofs.StepRefinesBit
  Proofs.StepRefinesStc Proofs.StepRefinesMov4 Proofs.StepRefinesMov6 Proofs.StepRefinesMovL Proofs.StepRefinesMov78 Proofs.StepRefinesMovL10
  Proofs.StepRefinesStcExt Proofs.ChargeProofs Proofs.ChargeTotals Proofs.StepPriced Proofs.AluProofs.
Import ListNotations.
Open Scope bool_scope. Open Scope Z_scope.
Ltac Zify.zify_post_hook ::= Z.div_mod_to_equations.

(* well-formed machine state: 32-bit registers, byte-sized CCR, byte-sized memory cells, no pending fetch fault *)
Definition state_ok (s : cpu) : Prop := cpu_ok s /\ bus_bytes_ok s /\ bytes_ok (cbus s) /\ fault s = false.

(* ---- the instruction words of a fetchable instruction ---- *)
Lemma ram_dram_readable b a : in_ram a || in_dram a = true -> exists v, bus_read b a = Some v.
Proof.
  unfold in_ram, in_dram, within, bus_read, inr, VEC_START, VEC_END, IO1_START, IO1_END, DRAM_START, DRAM_END, RAM_START, RAM_END.
  intros H.
  assert (C : (0xffbf20 <= a <= 0xffff1f) \/ (0x400000 <= a <= 0x5fffff)) by lia. clear H.
  destruct C as [C | C].
  - replace ((0 <=? a) && (a <=? 255)) with false by lia. replace ((16703488 <=? a) && (a <=? 16703743)) with false by lia.
    replace ((4194304 <=? a) && (a <=? 6291455)) with false by lia. replace ((16760608 <=? a) && (a <=? 16776991)) with true by lia. eauto.
  - replace ((0 <=? a) && (a <=? 255)) with false by lia. replace ((16703488 <=? a) && (a <=? 16703743)) with false by lia.
    replace ((4194304 <=? a) && (a <=? 6291455)) with true by lia. eauto.
Qed.

Lemma code_byte_rd s len k : code_ok s len = true -> 0 <= k < len -> in_ram (pc s + k) || in_dram (pc s + k) = true.
Proof.
  intros Hc Hk. unfold code_ok in Hc. apply andb_true_iff in Hc. destruct Hc as [_ Hc].
  apply orb_true_iff in Hc. destruct Hc as [Hc|Hc]; rewrite (span_at _ _ _ _ Hc Hk); [reflexivity|apply orb_true_r].
Qed.

Lemma code_word s len k : code_ok s len = true -> 0 <= k -> k + 2 <= len ->
  exists w, mem_read SW s (pc s + k) = Some w /\ word_at s (pc s + k) = w.
Proof.
  intros Hc Hk Hl.
  destruct (ram_dram_readable (cbus s) (pc s + k) (code_byte_rd s len k Hc ltac:(lia))) as [b0 E0].
  destruct (ram_dram_readable (cbus s) (pc s + k + 1)) as [b1 E1].
  { replace (pc s + k + 1) with (pc s + (k + 1)) by lia. apply (code_byte_rd s len); [assumption|lia]. }
  exists (b0 * 256 + b1). unfold word_at. cbn [mem_read]. unfold mem8. rewrite E0, E1. split; reflexivity.
Qed.

Lemma code_pc s len : code_ok s len = true -> 2 <= len <= 10 -> pc s mod 2 = 0 /\ 0 <= pc s /\ pc s + len < 4294967296.
Proof.
  intros Hc Hl. pose proof (code_byte_rd s len 0 Hc ltac:(lia)) as A. rewrite Z.add_0_r in A.
  unfold code_ok in Hc. apply andb_true_iff in Hc. destruct Hc as [Hev _].
  unfold in_ram, in_dram, within in A. lia.
Qed.

(* ---- which encodings produce a memory MOV: size, operand kind and length determine the form ---- *)
Definition mov_form (w0 : Z) (z : sz) (e : ea) (len : Z) (load : bool) : Prop :=
  match z with
  | SL => w0 = 0x0100 /\
          match e with
          | EInd _ => len = 4
          | EDisp _ _ => len = 6 \/ len = 10
          | EPostInc _ => load = true /\ len = 4
          | EPreDec _ => load = false /\ len = 4
          | EAbs _ => len = 6 \/ len = 8
          end
  | _ => match e with
         | EInd _ => len = 2
         | EDisp _ _ => len = 4 \/ len = 8
         | EPostInc _ => load = true /\ len = 2
         | EPreDec _ => load = false /\ len = 2
         | EAbs _ => (len = 2 /\ z = SB) \/ len = 4 \/ len = 6
         end
  end.

Lemma mov_load_form w0 w1 w2 w3 w4 z e rd len :
  0 <= w0 < 65536 -> decode_ref w0 w1 w2 w3 w4 = Some (IMovLoad z e rd, len) -> mov_form w0 z e len true.
Proof.
  intros Hw. unfold decode_ref, dec_mov_mem, dec_unary, dec_imm_group, dec_bit_mem, req, ok. cbv zeta.
  split_ifs; intros H; try discriminate H; try (exfalso; clear -H; inversion H; fail).
  all: inversion H; subst; clear H; cbn [mov_form]; unfold hib, lob in *; repeat split; try lia; try (left; split; [lia|reflexivity]).
Qed.

Lemma mov_store_form w0 w1 w2 w3 w4 z rs e len :
  0 <= w0 < 65536 -> decode_ref w0 w1 w2 w3 w4 = Some (IMovStore z rs e, len) -> mov_form w0 z e len false.
Proof.
  intros Hw. unfold decode_ref, dec_mov_mem, dec_unary, dec_imm_group, dec_bit_mem, req, ok. cbv zeta.
  split_ifs; intros H; try discriminate H; try (exfalso; clear -H; inversion H; fail).
  all: inversion H; subst; clear H; cbn [mov_form]; unfold hib, lob in *; repeat split; try lia; try (left; split; [lia|reflexivity]).
Qed.

Lemma word_at_range s a : bus_bytes_ok s -> 0 <= word_at s a < 65536.
Proof.
  intros Hb. unfold word_at. destruct (mem_read SW s a) as [w|] eqn:E; [apply (word_range s a w Hb E)|lia].
Qed.

Lemma code_words s len : code_ok s len = true ->
  (2 <= len -> mem_read SW s (pc s) = Some (word_at s (pc s))) /\
  (4 <= len -> mem_read SW s (pc s + 2) = Some (word_at s (pc s + 2))) /\
  (6 <= len -> mem_read SW s (pc s + 4) = Some (word_at s (pc s + 4))) /\
  (8 <= len -> mem_read SW s (pc s + 6) = Some (word_at s (pc s + 6))) /\
  (10 <= len -> mem_read SW s (pc s + 8) = Some (word_at s (pc s + 8))).
Proof.
  intros Hc. repeat split; intros Hl.
  - destruct (code_word s len 0 Hc ltac:(lia) ltac:(lia)) as (w & Hw & Ew). rewrite Z.add_0_r in *. now rewrite Ew.
  - destruct (code_word s len 2 Hc ltac:(lia) ltac:(lia)) as (w & Hw & Ew). now rewrite Ew.
  - destruct (code_word s len 4 Hc ltac:(lia) ltac:(lia)) as (w & Hw & Ew). now rewrite Ew.
  - destruct (code_word s len 6 Hc ltac:(lia) ltac:(lia)) as (w & Hw & Ew). now rewrite Ew.
  - destruct (code_word s len 8 Hc ltac:(lia) ltac:(lia)) as (w & Hw & Ew). now rewrite Ew.
Qed.

Ltac prep :=
  match goal with Hform : ?len = _, Hcode : code_ok ?s ?len = true |- _ =>
    subst len; destruct (code_pc s _ Hcode ltac:(lia)) as (Hev & H0 & H1);
    match goal with |- context [set_opc (pc s + ?L - 2)] => let k := eval compute in (L - 2) in replace (pc s + L - 2) with (pc s + k) by lia end;
    rewrite ?Z.add_0_r;
    repeat match goal with W : (?a <= ?b -> _) |- _ => first [specialize (W ltac:(lia)) | clear W] end
  end.
Ltac fin thm := eapply thm; try eassumption; try lia; try discriminate.

(* ---- MOV with a memory operand: every form ---- *)
Theorem mov_mem_step_is_ref_step s i len s' :
  state_ok s -> ref_decode s = Some (i, len) ->
  (match i with IMovLoad _ _ _ | IMovStore _ _ _ => True | _ => False end) ->
  dom_c20 i len s = true -> sem_ref i len s = Some s' ->
  step s = Ok (charge_ref i len s) (set_opc (pc s + len - 2) s').
Proof.
  intros (Hok & Hb & Hbo & Hf) Hdec Hi Hdom Hsem.
  destruct (exec_dom_parts _ _ _ _ Hdom) as [Hcode _].
  unfold ref_decode in Hdec. cbv zeta in Hdec.
  pose proof (word_at_range s (pc s) Hb) as Rw0.
  destruct (code_words s len Hcode) as (W0 & W1 & W2 & W3 & W4).
  destruct i; try contradiction.
  - (* loads *)
    pose proof (mov_load_form _ _ _ _ _ _ _ _ _ Rw0 Hdec) as Hform.
    destruct s0; cbn [mov_form] in Hform.
    + destruct e as [r|r d|r|r|a].
      * prep. fin step_mov_load_ern_priced.
      * destruct Hform as [Hform|Hform]; prep; [fin step_mov_load_disp16_priced|fin step_mov_load_disp24_priced].
      * destruct Hform as [_ Hform]. prep. fin step_mov_postinc_priced.
      * destruct Hform as [Hform _]. discriminate Hform.
      * destruct Hform as [[Hform _]|[Hform|Hform]]; prep; [fin step_mov_load_abs8_priced|fin step_mov_load_abs16_priced|fin step_mov_load_abs24_priced].
    + destruct e as [r|r d|r|r|a].
      * prep. fin step_mov_load_ern_priced.
      * destruct Hform as [Hform|Hform]; prep; [fin step_mov_load_disp16_priced|fin step_mov_load_disp24_priced].
      * destruct Hform as [_ Hform]. prep. fin step_mov_postinc_priced.
      * destruct Hform as [Hform _]. discriminate Hform.
      * destruct Hform as [[_ Hform]|[Hform|Hform]]; [discriminate Hform| |]; prep; [fin step_mov_load_abs16_priced|fin step_mov_load_abs24_priced].
    + destruct Hform as [Ew0 Hform]. rewrite Ew0 in *.
      destruct e as [r|r d|r|r|a].
      * prep. fin step_movl_load_ern_priced.
      * destruct Hform as [Hform|Hform]; prep; [fin step_movl_load_disp16_priced|fin step_movl_load_disp24_priced].
      * destruct Hform as [_ Hform]. prep. fin step_pop_l_priced.
      * destruct Hform as [Hform _]. discriminate Hform.
      * destruct Hform as [Hform|Hform]; prep; [fin step_movl_load_abs16_priced|fin step_movl_load_abs24_priced].
  - (* stores *)
    pose proof (mov_store_form _ _ _ _ _ _ _ _ _ Rw0 Hdec) as Hform.
    destruct s0; cbn [mov_form] in Hform.
    + destruct e as [r|r d|r|r|a].
      * prep. fin step_mov_store_ern_priced.
      * destruct Hform as [Hform|Hform]; prep; [fin step_mov_store_disp16_priced|fin step_mov_store_disp24_priced].
      * destruct Hform as [Hform _]. discriminate Hform.
      * destruct Hform as [_ Hform]. prep. fin step_mov_predec_priced.
      * destruct Hform as [[Hform _]|[Hform|Hform]]; prep; [fin step_mov_store_abs8_priced|fin step_mov_store_abs16_priced|fin step_mov_store_abs24_priced].
    + destruct e as [r|r d|r|r|a].
      * prep. fin step_mov_store_ern_priced.
      * destruct Hform as [Hform|Hform]; prep; [fin step_mov_store_disp16_priced|fin step_mov_store_disp24_priced].
      * destruct Hform as [Hform _]. discriminate Hform.
      * destruct Hform as [_ Hform]. prep. fin step_mov_predec_priced.
      * destruct Hform as [[_ Hform]|[Hform|Hform]]; [discriminate Hform| |]; prep; [fin step_mov_store_abs16_priced|fin step_mov_store_abs24_priced].
    + destruct Hform as [Ew0 Hform]. rewrite Ew0 in *.
      destruct e as [r|r d|r|r|a].
      * prep. fin step_movl_store_ern_priced.
      * destruct Hform as [Hform|Hform]; prep; [fin step_movl_store_disp16_priced|fin step_movl_store_disp24_priced].
      * destruct Hform as [Hform _]. discriminate Hform.
      * destruct Hform as [_ Hform]. prep. fin step_push_l_priced.
      * destruct Hform as [Hform|Hform]; prep; [fin step_movl_store_abs16_priced|fin step_movl_store_abs24_priced].
Qed.

(* ---- lengths and prefixes of the other forms ---- *)
Definition form_len (w0 : Z) (i : insn) (len : Z) : Prop :=
  match i with
  | IMovRR _ _ _ | IAlu1 _ _ _ | IAdds _ _ | ISubs _ _ | IBit _ _ (BTReg _) | IStcB _ => len = 2
  | IMulxu z _ _ | IDivxu z _ _ => len = 2 /\ z <> SL
  | IAlu2R _ z _ _ => len = 2 \/ (len = 4 /\ w0 = 0x01f0 /\ z = SL)
  | IMovImm z _ _ | IAlu2I _ z _ _ => len = match z with SB => 2 | SW => 4 | SL => 6 end
  | IBit _ _ (BTMem e) => len = 4 /\ match e with EInd _ | EAbs _ => True | _ => False end
  | IBcc _ _ | IBsr _ => len = 2 \/ len = 4
  | IJmp (JAbs _) | IJsr (JAbs _) => len = 4
  | IJmp _ | IJsr _ | IRts | IRte | ITrapa _ => len = 2
  | IStcW e => w0 = 0x0140 /\ match e with EInd _ | EPreDec _ => len = 4 | EDisp _ _ => len = 6 \/ len = 10 | EAbs _ => len = 6 \/ len = 8 | EPostInc _ => False end
  | _ => True
  end.

Lemma decode_form_len w0 w1 w2 w3 w4 i len :
  0 <= w0 < 65536 -> decode_ref w0 w1 w2 w3 w4 = Some (i, len) -> form_len w0 i len.
Proof.
  intros Hw. unfold decode_ref, dec_mov_mem, dec_unary, dec_imm_group, dec_bit_mem, req, ok. cbv zeta.
  split_ifs; intros H; try discriminate H.
  all: inversion H; subst; clear H; cbn [form_len]; unfold hib, lob in *; try exact I; try reflexivity; try (repeat split; lia); try (left; reflexivity); try (right; reflexivity); try (right; repeat split; lia); try (split; [reflexivity|discriminate]).
Qed.

(* ---- register and immediate forms ---- *)
Lemma fetch_only_charge i len s s1 :
  charge_expr i len s = Some (cs KI (len / 2)) -> dom_c20 i len s = true -> len_matches i len = true -> bytes_ok (cbus s) ->
  charged_at s s1 len -> cs KI (len / 2) s1 = Ok (charge_ref i len s) s1.
Proof. intros Hm Hd Hl Hb Hat. exact (total_charge_proof i len s s1 _ Hm Hd Hl Hat Hb). Qed.

Lemma pick_state (i : insn) (len n P : Z) (s s'0 : cpu) :
  (exists s', sem_ref i len s = Some s' /\ step s = Ok n (set_opc P s')) -> sem_ref i len s = Some s'0 -> step s = Ok n (set_opc P s'0).
Proof. intros (s1 & E1 & E2) E. rewrite E in E1. injection E1 as <-. exact E2. Qed.

Definition is_reg_form (i : insn) : bool :=
  match i with
  | IMovRR _ _ _ | IMovImm _ _ _ | IAlu2R _ _ _ _ | IAlu2I _ _ _ _ | IAlu1 _ _ _ | IAdds _ _ | ISubs _ _ | IBit _ _ (BTReg _) | IStcB _ => true
  | _ => false
  end.

Ltac pick := match goal with Hs : sem_ref ?i ?l ?s = Some ?s1 |- step ?s = Ok ?n (set_opc ?P ?s1) => refine (pick_state i l n P s s1 _ Hs) end.
Ltac at_post k :=
  split; [reflexivity | unfold post_fetch, post_fetch2, post_fetch3; cbn [opc set_pc set_opc]; lia].

Theorem reg_step_is_ref_step s i len s' :
  state_ok s -> ref_decode s = Some (i, len) -> is_reg_form i = true ->
  (match i with IAlu1 UShal z rd => shal_known (bits_of z) (ISA.reg z s rd) = false | _ => True end) ->
  dom_c20 i len s = true -> sem_ref i len s = Some s' ->
  step s = Ok (charge_ref i len s) (set_opc (pc s + len - 2) s').
Proof.
  intros (Hok & Hb & Hbo & Hf) Hdec Hi Hshal Hdom Hsem.
  destruct (exec_dom_parts _ _ _ _ Hdom) as [Hcode _].
  unfold ref_decode in Hdec. cbv zeta in Hdec.
  pose proof (word_at_range s (pc s) Hb) as Rw0.
  destruct (code_words s len Hcode) as (W0 & W1 & W2 & W3 & W4).
  pose proof (decode_form_len _ _ _ _ _ _ _ Rw0 Hdec) as Hform.
  destruct i; try discriminate Hi; cbn [form_len] in Hform.
  - (* MOV Rs,Rd *)
    prep. pick.
    fin step_mov_rr_proof. apply (fetch_only_charge _ 2 s); try assumption; try reflexivity. at_post 0.
  - (* MOV #imm *)
    destruct s0; prep; pick.
    + fin step_mov_imm_b_proof. apply (fetch_only_charge _ 2 s); try assumption; try reflexivity. at_post 0.
    + fin step_mov_imm_w_proof. apply (fetch_only_charge _ 4 s); try assumption; try reflexivity. at_post 0.
    + fin step_mov_imm_l_proof. apply (fetch_only_charge _ 6 s); try assumption; try reflexivity. at_post 0.
  - (* ALU Rs,Rd *)
    destruct Hform as [Hform|(Hform & Ew0 & Ez)].
    + prep. pick. fin step_alu2_rr_proof. apply (fetch_only_charge _ 2 s); try assumption; try reflexivity. at_post 0.
    + subst s0. rewrite Ew0 in *. prep. pick. fin step_logic_l_proof. apply (fetch_only_charge _ 4 s); try assumption; try reflexivity. at_post 0.
  - (* ALU #imm *)
    destruct s0; prep; pick.
    + fin step_alu2_imm_b_proof. apply (fetch_only_charge _ 2 s); try assumption; try reflexivity. at_post 0.
    + fin step_alu2_imm_w_proof. apply (fetch_only_charge _ 4 s); try assumption; try reflexivity. at_post 0.
    + fin step_alu2_imm_l_proof. apply (fetch_only_charge _ 6 s); try assumption; try reflexivity. at_post 0.
  - (* unary *)
    prep. pick. fin step_alu1_proof.
    + intros ->. exact Hshal.
    + apply (fetch_only_charge _ 2 s); try assumption; try reflexivity. at_post 0.
  - (* ADDS *)
    prep. pick. refine (step_adds_subs_proof s _ _ _ _ _ false k rd _ Hb Hf Hev H0 H1 W0 Hdec _).
    apply (fetch_only_charge (IAdds k rd) 2 s); try assumption; try reflexivity. at_post 0.
  - (* SUBS *)
    prep. pick. refine (step_adds_subs_proof s _ _ _ _ _ true k rd _ Hb Hf Hev H0 H1 W0 Hdec _).
    apply (fetch_only_charge (ISubs k rd) 2 s); try assumption; try reflexivity. at_post 0.
  - (* bit, register operand *)
    destruct t as [rd|e]; [|discriminate Hi]. prep. pick. fin step_bit_reg_proof.
    apply (fetch_only_charge _ 2 s); try assumption; try reflexivity. at_post 0.
  - (* STC.B *)
    prep. pick. fin step_stc_b_proof. apply (fetch_only_charge _ 2 s); try assumption; try reflexivity. at_post 0.
Qed.

(* ---- multiply / divide, bit operations on memory, control transfers, exceptions, STC.W ---- *)
Lemma exec_dom_target f i len s : exec_dom f i len s = true -> target_ok i len s = true.
Proof. unfold exec_dom. intros H. repeat (apply andb_true_iff in H; destruct H as [H ?]). assumption. Qed.

Lemma bcc_target s len d cc : target_ok (IBcc cc d) len s = true ->
  cond_ref cc (ccr s) = true -> 0 <= pc s + len + d < 4294967296 /\ (pc s + len + d) mod 2 = 0.
Proof. cbn [target_ok]. unfold A24. intros H _. lia. Qed.

(* ---- stores into on-chip RAM, DRAM or the vector area: byte-sized cells stay byte-sized, other cells keep their value ---- *)
Lemma put8_read s a v s' x : put8 s a v = Some s' -> data_ok a = true ->
  mem8 s' x = if x =? a then Some v else mem8 s x.
Proof.
  unfold put8, mem8, bus_write, bus_read, data_ok, in_ram, in_dram, in_vec, within, inr,
    VEC_START, VEC_END, IO1_START, IO1_END, DRAM_START, DRAM_END, RAM_START, RAM_END, IO2_START, IO2_END.
  intros H Ha.
  assert (C : (0xffbf20 <= a <= 0xffff1f) \/ (0x400000 <= a <= 0x5fffff) \/ (0 <= a <= 0xff)) by lia. clear Ha.
  destruct C as [C | [C | C]].
  - replace ((0 <=? a) && (a <=? 255)) with false in H by lia. replace ((16703488 <=? a) && (a <=? 16703743)) with false in H by lia.
    replace ((4194304 <=? a) && (a <=? 6291455)) with false in H by lia. replace ((16760608 <=? a) && (a <=? 16776991)) with true in H by lia.
    inversion H; subst; clear H. cbn [cbus set_bus b_vec b_io1 b_dram b_ram b_io2 bset_ram].
    destruct (x =? a) eqn:E.
    + assert (x = a) by lia. subst x.
      replace ((0 <=? a) && (a <=? 255)) with false by lia. replace ((16703488 <=? a) && (a <=? 16703743)) with false by lia.
      replace ((4194304 <=? a) && (a <=? 6291455)) with false by lia. replace ((16760608 <=? a) && (a <=? 16776991)) with true by lia.
      rewrite sget_sset by lia. rewrite Z.eqb_refl. reflexivity.
    + repeat match goal with |- context [if ?c then _ else _] => destruct c eqn:? end; try reflexivity.
      rewrite sget_sset by lia. replace (a - 16760608 =? x - 16760608) with false by lia. reflexivity.
  - replace ((0 <=? a) && (a <=? 255)) with false in H by lia. replace ((16703488 <=? a) && (a <=? 16703743)) with false in H by lia.
    replace ((4194304 <=? a) && (a <=? 6291455)) with true in H by lia.
    inversion H; subst; clear H. cbn [cbus set_bus b_vec b_io1 b_dram b_ram b_io2 bset_dram].
    destruct (x =? a) eqn:E.
    + assert (x = a) by lia. subst x.
      replace ((0 <=? a) && (a <=? 255)) with false by lia. replace ((16703488 <=? a) && (a <=? 16703743)) with false by lia.
      replace ((4194304 <=? a) && (a <=? 6291455)) with true by lia.
      rewrite sget_sset by lia. rewrite Z.eqb_refl. reflexivity.
    + repeat match goal with |- context [if ?c then _ else _] => destruct c eqn:? end; try reflexivity.
      rewrite sget_sset by lia. replace (a - 4194304 =? x - 4194304) with false by lia. reflexivity.
  - replace ((0 <=? a) && (a <=? 255)) with true in H by lia.
    inversion H; subst; clear H. cbn [cbus set_bus b_vec b_io1 b_dram b_ram b_io2 bset_vec].
    destruct (x =? a) eqn:E.
    + assert (x = a) by lia. subst x. replace ((0 <=? a) && (a <=? 255)) with true by lia.
      rewrite sget_sset by lia. rewrite Z.eqb_refl. reflexivity.
    + repeat match goal with |- context [if ?c then _ else _] => destruct c eqn:? end; try reflexivity.
      rewrite sget_sset by lia. replace (a =? x) with false by lia. reflexivity.
Qed.

Lemma put8_bytes_ok s a v s' : put8 s a v = Some s' -> data_ok a = true -> 0 <= v < 256 -> bus_bytes_ok s -> bus_bytes_ok s'.
Proof.
  intros H Ha Hv Hb x w Hx. change (bus_read (cbus s') x) with (mem8 s' x) in Hx. rewrite (put8_read _ _ _ _ x H Ha) in Hx.
  destruct (x =? a); [inversion Hx; subst; lia|exact (Hb x w Hx)].
Qed.

Lemma mem_write_l_bytes_ok s a v s' : mem_write SL s a v = Some s' -> span_ok data_ok a 4 = true -> bus_bytes_ok s -> bus_bytes_ok s'.
Proof.
  intros H Hs Hb.
  assert (D : forall k, 0 <= k < 4 -> data_ok (a + k) = true) by (intros k Hk; now apply (span_at _ _ _ _ Hs)).
  cbn [mem_write] in H. unfold ISA.obind in H.
  destruct (put8 s a _) as [s1|] eqn:E1; [|discriminate].
  destruct (put8 s1 (a + 1) _) as [s2|] eqn:E2; [|discriminate].
  destruct (put8 s2 (a + 2) _) as [s3|] eqn:E3; [|discriminate].
  apply (put8_bytes_ok _ _ _ _ H); [apply D; lia|lia|].
  apply (put8_bytes_ok _ _ _ _ E3); [apply D; lia|lia|].
  apply (put8_bytes_ok _ _ _ _ E2); [apply D; lia|lia|].
  apply (put8_bytes_ok _ _ _ _ E1); [rewrite <- (Z.add_0_r a); apply D; lia|lia|exact Hb].
Qed.

Lemma mem_write_l_other s a v s' x : mem_write SL s a v = Some s' -> span_ok data_ok a 4 = true ->
  (x < a \/ a + 4 <= x) -> mem8 s' x = mem8 s x.
Proof.
  intros H Hs Hx.
  assert (D : forall k, 0 <= k < 4 -> data_ok (a + k) = true) by (intros k Hk; now apply (span_at _ _ _ _ Hs)).
  cbn [mem_write] in H. unfold ISA.obind in H.
  destruct (put8 s a _) as [s1|] eqn:E1; [|discriminate].
  destruct (put8 s1 (a + 1) _) as [s2|] eqn:E2; [|discriminate].
  destruct (put8 s2 (a + 2) _) as [s3|] eqn:E3; [|discriminate].
  rewrite (put8_read _ _ _ _ x H) by (apply D; lia). replace (x =? a + 3) with false by lia.
  rewrite (put8_read _ _ _ _ x E3) by (apply D; lia). replace (x =? a + 2) with false by lia.
  rewrite (put8_read _ _ _ _ x E2) by (apply D; lia). replace (x =? a + 1) with false by lia.
  rewrite (put8_read _ _ _ _ x E1) by (rewrite <- (Z.add_0_r a); apply D; lia). replace (x =? a) with false by lia. reflexivity.
Qed.

Lemma predec7_addr s : reg32 (ea_update SL s (EPreDec 7)) 7 mod A24 = (reg32 s 7 - 4) mod A24.
Proof.
  cbn [ea_update bytes_of]. unfold reg32, set_reg32. cbn [er set_regs]. rewrite get_set_er by lia. rewrite Z.eqb_refl.
  fold (reg32 s 7). apply StackProofs.sp_dec_addr.
Qed.

Lemma push32_frame s v s1 : push32 s v = Some s1 -> mem_write SL (ea_update SL s (EPreDec 7)) ((reg32 s 7 - 4) mod A24) v = Some s1.
Proof. unfold push32. cbv zeta. rewrite predec7_addr. intros H; exact H. Qed.

Lemma push32_bytes_ok s v s1 : push32 s v = Some s1 -> span_ok data_ok ((reg32 s 7 - 4) mod A24) 4 = true -> bus_bytes_ok s -> bus_bytes_ok s1.
Proof.
  intros H Hs Hb. apply push32_frame in H. apply (mem_write_l_bytes_ok _ _ _ _ H Hs).
  intros x w Hx. exact (Hb x w Hx).
Qed.

Lemma push32_read_l_other s v s1 aa : push32 s v = Some s1 -> span_ok data_ok ((reg32 s 7 - 4) mod A24) 4 = true ->
  ((reg32 s 7 - 4) mod A24 + 4 <= aa \/ aa + 4 <= (reg32 s 7 - 4) mod A24) -> mem_read SL s1 aa = mem_read SL s aa.
Proof.
  intros H Hs Hd. apply push32_frame in H. cbn [mem_read].
  rewrite !(mem_write_l_other _ _ _ _ _ H Hs) by lia. reflexivity.
Qed.

(* the two recorded known findings are outside the claim *)
Definition side_ok (i : insn) (s : cpu) : Prop :=
  match i with
  | IAlu1 UShal z rd => shal_known (bits_of z) (ISA.reg z s rd) = false
  | IStcW (EPreDec _) => False
  | _ => True
  end.

Lemma mul_charge i z s : (exists rs rd, i = IMulxu z rs rd \/ i = IDivxu z rs rd) -> dom_c20 i 2 s = true -> bytes_ok (cbus s) ->
  mul_suffix z (post_fetch s) = Ok (charge_ref i 2 s) (post_fetch s).
Proof.
  intros (rs & rd & [-> | ->]) Hd Hb.
  - apply (total_charge_proof (IMulxu z rs rd) 2 s (post_fetch s) _ eq_refl Hd eq_refl); [at_post 0|assumption].
  - apply (total_charge_proof (IDivxu z rs rd) 2 s (post_fetch s) _ eq_refl Hd eq_refl); [at_post 0|assumption].
Qed.

Theorem other_step_is_ref_step s i len s' :
  state_ok s -> ref_decode s = Some (i, len) ->
  is_reg_form i = false -> (match i with IMovLoad _ _ _ | IMovStore _ _ _ => False | _ => True end) ->
  side_ok i s ->
  dom_c20 i len s = true -> sem_ref i len s = Some s' ->
  step s = Ok (charge_ref i len s) (set_opc (pc s + len - 2) s').
Proof.
  intros (Hok & Hb & Hbo & Hf) Hdec Hi Hnm Hside Hdom Hsem.
  destruct (exec_dom_parts _ _ _ _ Hdom) as [Hcode Hacc].
  pose proof (exec_dom_target _ _ _ _ Hdom) as Htgt.
  unfold ref_decode in Hdec. cbv zeta in Hdec.
  pose proof (word_at_range s (pc s) Hb) as Rw0.
  destruct (code_words s len Hcode) as (W0 & W1 & W2 & W3 & W4).
  pose proof (decode_form_len _ _ _ _ _ _ _ Rw0 Hdec) as Hform.
  destruct i; try discriminate Hi; try contradiction; cbn [form_len] in Hform.
  - (* MULXU *)
    destruct Hform as [Hform Hz]. prep. pick. fin step_mulxu_proof. apply mul_charge; eauto.
  - (* DIVXU *)
    destruct Hform as [Hform Hz]. prep. destruct s0; [| |contradiction].
    + fin step_divxu_b_proof. apply mul_charge; eauto.
    + fin step_divxu_w_proof. apply mul_charge; eauto.
  - (* bit operations on memory *)
    destruct t as [rd|e]; [discriminate Hi|]. destruct Hform as [Hform He].
    destruct e as [r|r d|r|r|a]; try contradiction; prep.
    + fin step_bit_ern_priced.
    + fin step_bit_abs_priced.
  - (* Bcc *)
    destruct Hform as [Hform|Hform]; prep.
    + fin step_bcc8_priced. apply (bcc_target s 2 d cc Htgt).
    + fin step_bcc16_priced. apply (bcc_target s 4 d cc Htgt).
  - (* JMP *)
    destruct t as [r|a|aa]; prep.
    + fin step_jmp_ern_priced; try (cbn [target_ok] in Htgt; unfold A24 in Htgt; lia).
    + fin step_jmp_abs_priced; try (cbn [target_ok] in Htgt; unfold A24 in Htgt; lia).
    + fin step_jmp_ind_priced; try (cbn [target_ok] in Htgt; unfold A24 in Htgt; lia).
  - (* BSR *)
    destruct Hform as [Hform|Hform]; prep.
    + fin step_bsr8_priced; try (cbn [target_ok] in Htgt; unfold A24 in Htgt; lia).
    + fin step_bsr16_priced; try (cbn [target_ok] in Htgt; unfold A24 in Htgt; lia).
  - (* JSR *)
    destruct t as [r|a|aa]; prep.
    + fin step_jsr_ern_priced; try (cbn [target_ok] in Htgt; unfold A24 in Htgt; lia).
    + fin step_jsr_abs_priced; try (cbn [target_ok] in Htgt; unfold A24 in Htgt; lia).
    + first_access Hacc.
      cbn [target_ok] in Htgt. apply andb_true_iff in Htgt. destruct Htgt as [Hdisj Htgt].
      fin step_jsr_ind_priced; try (unfold jump_target in Htgt; destruct (mem_read SL s aa); cbn [ISA.obind] in Htgt; [unfold A24 in Htgt; lia|discriminate]).
      intros s1 Hp. split.
      * apply (push32_bytes_ok _ _ _ Hp); assumption.
      * apply (push32_read_l_other _ _ _ _ Hp); [assumption|lia].
  - (* RTS *) prep. fin step_rts_priced; try (cbn [target_ok] in Htgt; unfold A24 in Htgt; lia).
  - (* RTE *) prep. fin step_rte_priced; try (cbn [target_ok] in Htgt; unfold A24 in Htgt; lia).
  - (* TRAPA *)
    first_access Hacc. prep. fin step_trapa_priced.
    + pose proof (code_byte_rd s 2 0 Hcode ltac:(lia)) as A. rewrite Z.add_0_r in A. unfold in_ram, in_dram, within in A. lia.
    + intros s1 Hp. apply (push32_bytes_ok _ _ _ Hp).
      * change (reg32 (post_fetch s) 7) with (reg32 s 7). assumption.
      * apply bytes_ok_set_pc_opc. exact Hb.
  - (* STC.W *)
    destruct Hform as [Ew0 Hform]. rewrite Ew0 in *.
    destruct e as [r|r d|r|r|a]; try contradiction.
    + prep. fin step_stc_ern_priced.
    + destruct Hform as [Hform|Hform]; prep; [fin step_stc_disp16_priced|fin step_stc_disp24_priced].
    + destruct Hform as [Hform|Hform]; prep; [fin step_stc_abs16_priced|fin step_stc_abs24_priced].
  - (* unimplemented: the reference is undefined *)
    discriminate Hsem.
Qed.

(* ---- all forms ---- *)
Theorem step_is_ref_step_proof s i len s' :
  state_ok s -> ref_decode s = Some (i, len) -> side_ok i s -> dom_c20 i len s = true -> sem_ref i len s = Some s' ->
  step s = Ok (charge_ref i len s) (set_opc (pc s + len - 2) s').
Proof.
  intros Hst Hdec Hside Hdom Hsem.
  destruct (is_reg_form i) eqn:Er.
  - apply reg_step_is_ref_step; try assumption.
    destruct i; try exact I. destruct o; try exact I. exact Hside.
  - destruct i; try discriminate Er;
      first [ apply mov_mem_step_is_ref_step; try assumption; exact I
            | apply other_step_is_ref_step; try assumption; exact I ].
Qed.

(* the same through the reference step function of the correspondence check *)
Corollary step_is_ref_step_via_ref_step s i len s' :
  state_ok s -> ref_decode s = Some (i, len) -> side_ok i s -> dom_c20 i len s = true -> ref_step s = Some s' ->
  step s = Ok (charge_ref i len s) (set_opc (pc s + len - 2) s').
Proof.
  intros Hst Hdec Hside Hdom Href. unfold ref_step in Href. rewrite Hdec in Href. now apply step_is_ref_step_proof.
Qed.
