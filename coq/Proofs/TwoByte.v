(* Two-byte instructions: the operation-code map does not look at the following words. *)
From Coq Require Import Bool ZArith Lia List.
From K Require Import Lib.Types Spec.ISA.
Open Scope bool_scope. Open Scope Z_scope.

Ltac split_ifs :=
  repeat match goal with
  | |- context [if ?c then _ else _] => let E := fresh "E" in destruct c eqn:E
  | |- context [match ?o with Some _ => _ | None => _ end] => let E := fresh "E" in destruct o eqn:E
  end.

Lemma two_byte_independent w0 w1 w2 w3 w4 i :
  decode_ref w0 w1 w2 w3 w4 = Some (i, 2) -> decode_ref w0 0 0 0 0 = Some (i, 2).
Proof.
  unfold decode_ref, dec_mov_mem, dec_unary, dec_imm_group, dec_bit_mem, req, ok. cbv zeta.
  split_ifs; intros H; try discriminate H; try exact H; try (exfalso; clear -H; inversion H; fail).
Qed.
