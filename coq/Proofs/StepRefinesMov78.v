(* From the instruction words in memory to the reference semantics: MOV.B / MOV.W @(d:24,ERn) behind the 78 prefix
   (eight bytes: 78r0, the operation word 6A2x / 6AAx / 6B2x / 6BAx, and the 32-bit displacement field). *)
From Coq Require Import Bool ZArith Lia ZifyBool List.
From K Require Import Lib.Bits Lib.Types Model.Machine Model.Bus Model.Cost Model.Addressing Model.Alu Model.Exec Spec.ISA
  Proofs.RegProofs Proofs.MemProofs Proofs.FlagProofs Proofs.AluProofs Proofs.EaProofs Proofs.StepProofs Proofs.DecodeProofs
  Proofs.DecodeProofs78
  Proofs.CtlProofs Proofs.MovProofs Proofs.MovExtProofs Proofs.TwoByte Proofs.FourByte Proofs.StepRefines Proofs.StepRefinesCtl
  Proofs.StepRefines2 Proofs.StepRefines4 Proofs.StepRefines6 Proofs.StepRefinesL Proofs.StepRefinesMov4 Proofs.StepRefinesMov6 Proofs.StepRefinesMovL.
Import ListNotations.
Open Scope bool_scope. Open Scope Z_scope.
Ltac Zify.zify_post_hook ::= Z.div_mod_to_equations.

Lemma mov_disp24_load_shape w0 w1 w2 w3 w4 z r d rd :
  0 <= w0 < 65536 -> 0 <= w2 < 65536 -> z <> SL ->
  decode_ref w0 w1 w2 w3 w4 = Some (IMovLoad z (EDisp r d) rd, 8) ->
  decode_ref w0 w1 0 0 0 = Some (IMovLoad z (EDisp r (sx 24 (lob 0 * 65536 + 0))) rd, 8) /\
  d = sx 24 (w2 * 65536 + w3) /\ 0 <= w2 < 256 /\ w0 = 0x7800 + 16 * r /\ 0 <= r < 8.
Proof.
  intros Hw Hw2 Hz. unfold decode_ref, dec_mov_mem, dec_unary, dec_imm_group, dec_bit_mem, req, ok. cbv zeta.
  split_ifs; intros H; try discriminate H; try (exfalso; clear -H; inversion H; fail);
    try (exfalso; inversion H; subst; apply Hz; reflexivity).
  all: inversion H; subst; clear H.
  all: try (exfalso; unfold hib, lob, n3, n4 in *; lia).
  all: split; [reflexivity|]; unfold hib, lob, n3, n4 in *;
       (assert (Hl : w2 mod 256 = w2) by lia); rewrite Hl; split; [reflexivity|]; lia.
Qed.

Lemma mov_disp24_store_shape w0 w1 w2 w3 w4 z rs r d :
  0 <= w0 < 65536 -> 0 <= w2 < 65536 -> z <> SL ->
  decode_ref w0 w1 w2 w3 w4 = Some (IMovStore z rs (EDisp r d), 8) ->
  decode_ref w0 w1 0 0 0 = Some (IMovStore z rs (EDisp r (sx 24 (lob 0 * 65536 + 0))), 8) /\
  d = sx 24 (w2 * 65536 + w3) /\ 0 <= w2 < 256 /\ w0 = 0x7800 + 16 * r /\ 0 <= r < 8.
Proof.
  intros Hw Hw2 Hz. unfold decode_ref, dec_mov_mem, dec_unary, dec_imm_group, dec_bit_mem, req, ok. cbv zeta.
  split_ifs; intros H; try discriminate H; try (exfalso; clear -H; inversion H; fail);
    try (exfalso; inversion H; subst; apply Hz; reflexivity).
  all: inversion H; subst; clear H.
  all: try (exfalso; unfold hib, lob, n3, n4 in *; lia).
  all: split; [reflexivity|]; unfold hib, lob, n3, n4 in *;
       (assert (Hl : w2 mod 256 = w2) by lia); rewrite Hl; split; [reflexivity|]; lia.
Qed.

Lemma prefix_78_in r : 0 <= r < 16 -> In (0x7800 + 16 * r) prefix_78.
Proof. intros H. unfold prefix_78. apply in_map_iff. exists r. split; [reflexivity|]. apply in_zrange. lia. Qed.

Lemma mov78_agree w0 w1 r i len : 0 <= r < 8 -> w0 = 0x7800 + 16 * r -> 0 <= w1 < 65536 ->
  decode_ref w0 w1 0 0 0 = Some (i, len) ->
  agree (select_78 w1) w0 w1 i = true /\ select1 w0 = TMov78Prefix /\ nib w0 3 = r.
Proof.
  intros Hr -> Hw1 Hd.
  pose proof mov78_sweep as S. rewrite forallb_forall in S. specialize (S _ (prefix_78_in r ltac:(lia))).
  pose proof (forallb_zrange _ 65536 S w1 Hw1) as A. unfold agree2 in A. rewrite Hd in A.
  split; [exact A|].
  assert (Hc : r = 0 \/ r = 1 \/ r = 2 \/ r = 3 \/ r = 4 \/ r = 5 \/ r = 6 \/ r = 7) by lia.
  destruct Hc as [-> | [-> | [-> | [-> | [-> | [-> | [-> | ->]]]]]]]; split; reflexivity.
Qed.

Lemma select_78_cases w1 : select_78 w1 = TMovDisp24 SB \/ select_78 w1 = TMovDisp24 SW \/ select_78 w1 = TUnimpl.
Proof. unfold select_78. destruct (hi8 w1 =? 0x6a); [auto|]. destruct (hi8 w1 =? 0x6b); auto. Qed.

Lemma step_prefix_78 s w0 w1 :
  bus_bytes_ok s -> pc s mod 2 = 0 -> 0 <= pc s -> pc s + 4 < 4294967296 ->
  mem_read SW s (pc s) = Some w0 -> mem_read SW s (pc s + 2) = Some w1 -> select1 w0 = TMov78Prefix ->
  step s = finish (run_tag (select_78 w1) w0 w1 0 (post_fetch2 s)).
Proof.
  intros Hb Hev H0 H1 Hw Hw1 Hsel. unfold step. rewrite (fetch_word s w0) by (try assumption; lia). fold (post_fetch s).
  unfold exec. rewrite Hsel. unfold bind at 1.
  rewrite (fetch_word (post_fetch s) w1) by (try assumption; unfold post_fetch; cbn [pc set_pc set_opc]; try lia; exact Hw1).
  unfold post_fetch. cbn [pc set_pc set_opc]. replace (pc s + 2 + 2) with (pc s + 4) by lia. reflexivity.
Qed.

(* ---- MOV.B / MOV.W @(d:24,ERs),Rd ---- *)
Theorem step_mov_load_disp24_proof s w0 w1 h l w4 z r disp rd n s' :
  z <> SL ->
  cpu_ok s -> bus_bytes_ok s -> fault s = false -> pc s mod 2 = 0 -> 0 <= pc s -> pc s + 8 < 4294967296 ->
  mem_read SW s (pc s) = Some w0 -> mem_read SW s (pc s + 2) = Some w1 ->
  mem_read SW s (pc s + 4) = Some h -> mem_read SW s (pc s + 6) = Some l ->
  decode_ref w0 w1 h l w4 = Some (IMovLoad z (EDisp r disp) rd, 8) ->
  sem_ref (IMovLoad z (EDisp r disp) rd) 8 s = Some s' ->
  mov_charge z (ea_addr z s (EDisp r disp)) 4 0 (set_opc (pc s + 6) s') = Ok n (set_opc (pc s + 6) s') ->
  step s = Ok n (set_opc (pc s + 6) s').
Proof.
  intros Hz Hok Hb Hf Hev H0 H1 Hw Hw1 Hh Hl Hdec Hsem Hcs.
  pose proof (word_range s _ _ Hb Hw) as Rw0. pose proof (word_range s _ _ Hb Hw1) as Rw1.
  pose proof (word_range s _ _ Hb Hh) as Rh. pose proof (word_range s _ _ Hb Hl) as Rl.
  destruct (mov_disp24_load_shape _ _ _ _ _ _ _ _ _ Rw0 Rh Hz Hdec) as (Hd0 & Ei & Rh8 & Hform & Hr).
  destruct (mov78_agree w0 w1 r _ _ Hr Hform Rw1 Hd0) as (Hag & Hsel & Hn3).
  rewrite (step_prefix_78 s w0 w1) by (try assumption; lia).
  assert (Es : select_78 w1 = TMovDisp24 z).
  { destruct (select_78_cases w1) as [Es | [Es | Es]]; rewrite Es in Hag; destruct z; simpl in Hag; try discriminate Hag; try contradiction; exact Es. }
  rewrite Es in *.
  assert (Hfacts : Z.land w1 0xfff0 = (match z with SB => 0x6a20 | _ => 0x6b20 end) /\ rd = nib w1 4).
  { destruct z; [| |contradiction]; cbn [agree] in Hag; repeat (apply andb_true_iff in Hag; destruct Hag as [Hag ?]); repeat split; lia. }
  destruct Hfacts as (Hlw & Ed). pose proof (nib_range w1 4) as R4.
  pose proof (mov_disp24_load_proof z w0 w1 h l (post_fetch2 s) Hz) as Hx. cbv zeta in Hx. rewrite Hn3 in Hx.
  rewrite Hx; [|exact Hok|exact Hb| | | |exact Hh| |exact Rh8|exact Hlw|lia|destruct z; [| |contradiction]; cbn [field_ok]; lia];
    [|unfold post_fetch2; cbn [pc set_pc]; try lia..].
  2:{ replace (pc s + 4 + 2) with (pc s + 6) by lia. exact Hl. }
  clear Hx. rewrite post_fetch_2w_pf2.
  cbn [sem_ref ea_update] in Hsem. rewrite <- Ed, <- Ei.
  change (mem_read z (post_fetch2 s) (ea_addr z (post_fetch2 s) (EDisp r disp))) with (mem_read z s (ea_addr z s (EDisp r disp))).
  change (ea_addr z (post_fetch2 s) (EDisp r disp)) with (ea_addr z s (EDisp r disp)).
  destruct (mem_read z s (ea_addr z s (EDisp r disp))) as [v|]; cbn [ISA.obind] in Hsem; [|discriminate Hsem].
  (apply (f_equal (fun o => match o with Some x => x | None => s' end)) in Hsem; cbv beta iota in Hsem; subst s').
  cbn [option_map then_charge]. unfold post_fetch4. rewrite set_reg_set_pc_opc. change (ccr (post_fetch2 s)) with (ccr s). unfold mov_ccr.
  change (with_ccr (set_flag fV false (set_nz (bits_of z) v (ccr s))) (set_pc (pc s + 8) (set_opc (pc s + 6) (set_reg z s rd v))))
    with (set_opc (pc s + 6) (with_pc (pc s + 8) (with_ccr (set_flag fV false (set_nz (bits_of z) v (ccr s))) (set_reg z s rd v)))).
  rewrite Hcs. unfold finish, with_pc, with_ccr. cbn [fault set_opc set_pc set_ccr]. rewrite fault_set_reg, Hf. reflexivity.
Qed.

(* ---- MOV.B / MOV.W Rs,@(d:24,ERd) ---- *)
Theorem step_mov_store_disp24_proof s w0 w1 h l w4 z rs r disp n s' :
  z <> SL ->
  cpu_ok s -> bus_bytes_ok s -> fault s = false -> pc s mod 2 = 0 -> 0 <= pc s -> pc s + 8 < 4294967296 ->
  mem_read SW s (pc s) = Some w0 -> mem_read SW s (pc s + 2) = Some w1 ->
  mem_read SW s (pc s + 4) = Some h -> mem_read SW s (pc s + 6) = Some l ->
  decode_ref w0 w1 h l w4 = Some (IMovStore z rs (EDisp r disp), 8) ->
  sem_ref (IMovStore z rs (EDisp r disp)) 8 s = Some s' ->
  mov_charge z (ea_addr z s (EDisp r disp)) 4 0 (set_opc (pc s + 6) s') = Ok n (set_opc (pc s + 6) s') ->
  step s = Ok n (set_opc (pc s + 6) s').
Proof.
  intros Hz Hok Hb Hf Hev H0 H1 Hw Hw1 Hh Hl Hdec Hsem Hcs.
  pose proof (word_range s _ _ Hb Hw) as Rw0. pose proof (word_range s _ _ Hb Hw1) as Rw1.
  pose proof (word_range s _ _ Hb Hh) as Rh. pose proof (word_range s _ _ Hb Hl) as Rl.
  destruct (mov_disp24_store_shape _ _ _ _ _ _ _ _ _ Rw0 Rh Hz Hdec) as (Hd0 & Ei & Rh8 & Hform & Hr).
  destruct (mov78_agree w0 w1 r _ _ Hr Hform Rw1 Hd0) as (Hag & Hsel & Hn3).
  rewrite (step_prefix_78 s w0 w1) by (try assumption; lia).
  assert (Es : select_78 w1 = TMovDisp24 z).
  { destruct (select_78_cases w1) as [Es | [Es | Es]]; rewrite Es in Hag; destruct z; simpl in Hag; try discriminate Hag; try contradiction; exact Es. }
  rewrite Es in *.
  assert (Hfacts : Z.land w1 0xfff0 <> (match z with SB => 0x6a20 | _ => 0x6b20 end) /\ r = Z.land (nib w0 3) 7 /\ rs = nib w1 4).
  { destruct z; [| |contradiction]; cbn [agree] in Hag; repeat (apply andb_true_iff in Hag; destruct Hag as [Hag ?]); repeat split; lia. }
  destruct Hfacts as (Hlw & Er & Ed). pose proof (nib_range w1 4) as R4.
  pose proof (mov_disp24_store_proof z w0 w1 h l (post_fetch2 s) Hz) as Hx. cbv zeta in Hx.
  rewrite Hx; [|exact Hok|exact Hb| | | |exact Hh| |exact Rh8|exact Hlw|destruct z; [| |contradiction]; cbn [field_ok]; lia];
    [|unfold post_fetch2; cbn [pc set_pc]; try lia..].
  2:{ replace (pc s + 4 + 2) with (pc s + 6) by lia. exact Hl. }
  clear Hx. rewrite post_fetch_2w_pf2.
  cbn [sem_ref ea_update] in Hsem. rewrite <- Er, <- Ed, <- Ei.
  change (reg z (post_fetch2 s) rs) with (reg z s rs).
  change (ea_addr z (post_fetch2 s) (EDisp r disp)) with (ea_addr z s (EDisp r disp)).
  unfold post_fetch4. rewrite mem_write_pf.
  destruct (mem_write z s (ea_addr z s (EDisp r disp)) (reg z s rs)) as [s2|] eqn:E; cbn [ISA.obind] in Hsem; [|discriminate Hsem].
  (apply (f_equal (fun o => match o with Some x => x | None => s' end)) in Hsem; cbv beta iota in Hsem; subst s').
  cbn [option_map then_charge]. change (ccr (post_fetch2 s)) with (ccr s). unfold mov_ccr.
  change (with_ccr (set_flag fV false (set_nz (bits_of z) (reg z s rs) (ccr s))) (set_pc (pc s + 8) (set_opc (pc s + 6) s2)))
    with (set_opc (pc s + 6) (with_pc (pc s + 8) (with_ccr (set_flag fV false (set_nz (bits_of z) (reg z s rs) (ccr s))) s2))).
  rewrite Hcs. unfold finish, with_pc, with_ccr. cbn [fault set_opc set_pc set_ccr].
  rewrite (mem_write_fault _ _ _ _ _ E), Hf. reflexivity.
Qed.
