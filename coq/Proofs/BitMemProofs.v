(* Bit manipulation on a memory operand (C04): @ERd and @aa:8 targets, immediate or register bit number.
   The model's handler is the reference's state transformer followed by the handler's charge, for every state. *)
From Coq Require Import Bool ZArith Lia ZifyBool List.
From K Require Import Lib.Bits Lib.Types Model.Machine Model.Bus Model.Cost Model.Addressing Model.Alu Model.Exec Spec.ISA
  Proofs.RegProofs Proofs.MemProofs Proofs.FlagProofs Proofs.AluProofs Proofs.BitProofs Proofs.EaProofs Proofs.StepProofs
  Proofs.CtlProofs Proofs.MovProofs.
Import ListNotations.
Open Scope bool_scope. Open Scope Z_scope.
Ltac Zify.zify_post_hook ::= Z.div_mod_to_equations.

Lemma nib_range_m w k : 0 <= nib w k < 16.
Proof. unfold nib. change 0xf with (2^4 - 1). rewrite land_ones_mod by lia. change (2^4) with 16. lia. Qed.

Definition bit_charge (o : bop) (a : Z) : M Z :=
  i <- cs KI 2 ;; d <- csa KL (if bit_writes o then 2 else 1) a ;; ret (u8add i d).

(* what the reference does with the byte at address a and bit number k *)
Definition bit_mem_ref (o : bop) (a k : Z) (s : cpu) : option cpu :=
  ISA.obind (mem8 s a) (fun v0 =>
    let '(v, c) := bit_ref o v0 k (ccr s) in
    if bit_writes o then ISA.obind (put8 s a v) (fun s1 => Some (with_ccr c s1)) else Some (with_ccr c s)).

Lemma bit_mem_core o a k s :
  0 <= ccr s < 256 -> bus_bytes_ok s -> 0 <= k < 8 ->
  (v <- read_abs24_b a ;; c <- get_ccr ;;
   let '(v', c') := bop_fun o v k c in
   (if bop_writes o then write_abs24_b a v' else ret tt) ;;; put_ccr c' ;;;
   i <- cs KI 2 ;; d <- csa KL (if bop_writes o then 2 else 1) a ;; ret (u8add i d)) s =
  then_charge (bit_mem_ref o a k s) (bit_charge o a).
Proof.
  intros Hc Hb Hk. unfold bit_mem_ref, mem8. unfold bind at 1. unfold read_abs24_b, bread.
  destruct (bus_read (cbus s) a) as [v0|] eqn:E0; cbn [ISA.obind then_charge]; [|reflexivity].
  pose proof (Hb _ _ E0) as Rv.
  unfold bind at 1. unfold get_ccr.
  destruct (bop_fun_spec o v0 k (ccr s) Rv Hk Hc) as [Hf Hw]. rewrite Hf, Hw.
  destruct (bit_ref o v0 k (ccr s)) as [v c]. unfold bit_charge.
  destruct (bit_writes o).
  - unfold bind at 1. unfold write_abs24_b. rewrite bwrite_put8.
    destruct (put8 s a v) as [s1|]; cbn [ISA.obind then_charge]; [|reflexivity].
    unfold bind at 1. unfold put_ccr, modify. reflexivity.
  - unfold bind at 1. unfold ret. unfold bind at 1. unfold put_ccr, modify. reflexivity.
Qed.

(* @ERd target *)
Theorem bit_ern_refines_proof o op op2 (regsrc : bool) s :
  cpu_ok s -> bus_bytes_ok s -> 0 <= nib op 3 < 8 ->
  let a := ea_addr SB s (EInd (nib op 3)) in
  let k := if regsrc then reg8 s (nib op2 3) mod 8 else Z.land (nib op2 3) 7 in
  run_tag (if regsrc then TBitErnRn o else TBitErnImm o) op op2 0 s = then_charge (bit_mem_ref o a k s) (bit_charge o a).
Proof.
  intros [Hr Hc] Hb Hn a k. pose proof (nib_range_m op2 3) as R3.
  assert (Hk : 0 <= k < 8).
  { subst k. destruct regsrc; [lia|]. change 7 with (2^3 - 1). rewrite land_ones_mod by lia. change (2^3) with 8. lia. }
  destruct regsrc; cbn [run_tag].
  - unfold bind at 1. rewrite ea_ern by assumption. fold a.
    unfold bind at 1. rewrite read_rn_b_spec by lia.
    replace (Z.land (reg8 s (nib op2 3)) 7) with k by (subst k; change 7 with (2^3 - 1); rewrite land_ones_mod by lia; reflexivity).
    apply bit_mem_core; assumption.
  - unfold bind at 1. rewrite ea_ern by assumption. fold a.
    unfold bind at 1. unfold ret. fold k.
    apply bit_mem_core; assumption.
Qed.

(* @aa:8 target *)
Theorem bit_abs_refines_proof o op op2 (regsrc : bool) s :
  cpu_ok s -> bus_bytes_ok s -> 0 <= lo8 op < 256 ->
  let a := abs8 (lo8 op) in
  let k := if regsrc then reg8 s (nib op2 3) mod 8 else Z.land (nib op2 3) 7 in
  run_tag (if regsrc then TBitAbsRn o else TBitAbsImm o) op op2 0 s = then_charge (bit_mem_ref o a k s) (bit_charge o a).
Proof.
  intros [Hr Hc] Hb Hn a k. pose proof (nib_range_m op2 3) as R3.
  assert (Hk : 0 <= k < 8).
  { subst k. destruct regsrc; [lia|]. change 7 with (2^3 - 1). rewrite land_ones_mod by lia. change (2^3) with 8. lia. }
  destruct regsrc; cbn [run_tag].
  - unfold bind at 1. unfold ret. rewrite ea_abs8 by assumption. fold a.
    unfold bind at 1. rewrite read_rn_b_spec by lia.
    replace (Z.land (reg8 s (nib op2 3)) 7) with k by (subst k; change 7 with (2^3 - 1); rewrite land_ones_mod by lia; reflexivity).
    apply bit_mem_core; assumption.
  - unfold bind at 1. unfold ret. rewrite ea_abs8 by assumption. fold a.
    unfold bind at 1. fold k.
    apply bit_mem_core; assumption.
Qed.

(* the transformer used above is the reference semantics of the memory-operand bit instructions up to the PC update *)
Lemma bit_mem_ref_sem o b e len s :
  sem_ref (IBit o b (BTMem e)) len s =
  option_map (with_pc (pc s + len))
    (bit_mem_ref o (ea_addr SB s e) (match b with BImm k => k | BReg rn => reg8 s rn mod 8 end) s).
Proof.
  cbn [sem_ref]. unfold bit_mem_ref. cbv zeta.
  destruct (mem8 s (ea_addr SB s e)) as [v0|]; cbn [ISA.obind option_map]; [|reflexivity].
  destruct (bit_ref o v0 _ (ccr s)) as [v c].
  destruct (bit_writes o); [|reflexivity].
  destruct (put8 s (ea_addr SB s e) v) as [s1|]; reflexivity.
Qed.
