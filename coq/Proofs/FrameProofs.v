(* Frame facts about instruction execution: an instruction never touches the interrupt request queue, the
   control-socket flag or the build mode; used by C10 (requests are neither lost nor invented by instructions). *)
From Coq Require Import Bool ZArith Lia List.
From K Require Import Lib.Types Model.Machine Model.Bus Model.Cost Model.Addressing Model.Alu Model.Exec Model.Periph Model.Run.
Import ListNotations.
Open Scope bool_scope. Open Scope Z_scope.

(* the part of the state instructions never touch: pending requests, cumulative state count, exit address,
   socket flag, build mode *)
Lemma sync_count_app l1 l2 : sync_count (l1 ++ l2) = sync_count l1 + sync_count l2.
Proof. induction l1 as [|m t IH]; cbn [app sync_count]; [reflexivity|]. destruct m; rewrite IH; lia. Qed.

Definition untouched (s : cpu) := (irq s, ssum s, exit_addr s, sock s, ovf s, b_sum (cbus s), sync_count (b_msgs (cbus s))).
Definition keeps {A} (m : M A) : Prop := forall s a s', m s = Ok a s' -> untouched s' = untouched s.

Lemma keeps_ret {A} (a : A) : keeps (ret a).
Proof. intros s x s' H. inversion H. reflexivity. Qed.
Lemma keeps_fail {A} : keeps (@fail A).
Proof. intros s x s' H. discriminate H. Qed.
Lemma keeps_bind {A B} (m : M A) (f : A -> M B) : keeps m -> (forall a, keeps (f a)) -> keeps (bind m f).
Proof.
  intros Hm Hf s b s' H. unfold bind in H. destruct (m s) as [a s1| |] eqn:E; try discriminate.
  rewrite (Hf a s1 b s' H). exact (Hm s a s1 E).
Qed.
Lemma keeps_lift {A} (o : option A) : keeps (lift o).
Proof. intros s a s' H. unfold lift in H. destruct o; inversion H. reflexivity. Qed.
Lemma keeps_modify (f : cpu -> cpu) : (forall s, untouched (f s) = untouched s) -> keeps (modify f).
Proof. intros Hf s a s' H. inversion H. apply Hf. Qed.

Lemma keeps_bread a : keeps (bread a).
Proof. intros s x s' H. unfold bread in H. destruct (bus_read (cbus s) a); inversion H. reflexivity. Qed.
Lemma bus_write_sum_m b a v :
  match bus_write b a v with Some b' => b_sum b' = b_sum b /\ sync_count (b_msgs b') = sync_count (b_msgs b) | None => True end.
Proof.
  unfold bus_write.
  repeat match goal with |- context [if ?c then _ else _] => destruct c end; try exact I; try (split; reflexivity);
    try (unfold write_registers; match goal with |- context [if ?c then _ else _] => destruct c end; split; reflexivity);
    unfold on_write_ddr, on_write_dr, send_io_port_value; cbn [b_sum b_msgs bset_msgs]; rewrite sync_count_app; cbn [sync_count];
    (split; [reflexivity|unfold write_dr; cbn [b_msgs bset_io2 bset_io1 bset_latch]; lia]).
Qed.
Lemma bus_write_sum b a v b' : bus_write b a v = Some b' -> b_sum b' = b_sum b /\ sync_count (b_msgs b') = sync_count (b_msgs b).
Proof. intros H. pose proof (bus_write_sum_m b a v) as M. rewrite H in M. exact M. Qed.
Lemma keeps_bwrite a v : keeps (bwrite a v).
Proof.
  intros s x s' H. unfold bwrite in H. destruct (bus_write (cbus s) a v) as [b|] eqn:E; inversion H.
  unfold untouched. cbn [irq ssum exit_addr sock ovf cbus set_bus]. destruct (bus_write_sum _ _ _ _ E) as [-> ->]. reflexivity.
Qed.
Lemma keeps_read_rn_b r : keeps (read_rn_b r).
Proof. intros s x s' H. unfold read_rn_b in H. repeat match type of H with context [if ?c then _ else _] => destruct c end; inversion H; reflexivity. Qed.
Lemma keeps_read_rn_w r : keeps (read_rn_w r).
Proof. intros s x s' H. unfold read_rn_w in H. repeat match type of H with context [if ?c then _ else _] => destruct c end; inversion H; reflexivity. Qed.
Lemma keeps_read_rn_l r : keeps (read_rn_l r).
Proof. intros s x s' H. unfold read_rn_l in H. repeat match type of H with context [if ?c then _ else _] => destruct c end; inversion H; reflexivity. Qed.
Lemma keeps_write_rn_b r v : keeps (write_rn_b r v).
Proof. intros s x s' H. unfold write_rn_b in H. repeat match type of H with context [if ?c then _ else _] => destruct c end; inversion H; reflexivity. Qed.
Lemma keeps_write_rn_w r v : keeps (write_rn_w r v).
Proof. intros s x s' H. unfold write_rn_w in H. repeat match type of H with context [if ?c then _ else _] => destruct c end; inversion H; reflexivity. Qed.
Lemma keeps_write_rn_l r v : keeps (write_rn_l r v).
Proof. intros s x s' H. unfold write_rn_l in H. repeat match type of H with context [if ?c then _ else _] => destruct c end; inversion H; reflexivity. Qed.
Lemma keeps_fetch : keeps fetch.
Proof.
  intros s x s' H. unfold fetch in H.
  destruct (bus_read (cbus s) (Z.land (pc s) 4294967294)); [|inversion H; reflexivity].
  destruct (bus_read (cbus s) (wrap 32 (Z.land (pc s) 4294967294 + 1))); inversion H; reflexivity.
Qed.
Lemma keeps_cs k n : keeps (cs k n).
Proof. intros s x s' H. unfold cs, lift in H. destruct (calc_state _ _ _ _); inversion H. reflexivity. Qed.
Lemma keeps_csa k n a : keeps (csa k n a).
Proof. intros s x s' H. unfold csa, lift in H. destruct (calc_state_with_addr _ _ _ _); inversion H. reflexivity. Qed.
Lemma keeps_get_ccr : keeps get_ccr.
Proof. intros s x s' H. inversion H. reflexivity. Qed.
Lemma keeps_get_pc : keeps get_pc.
Proof. intros s x s' H. inversion H. reflexivity. Qed.
Lemma keeps_put_ccr v : keeps (put_ccr v).
Proof. apply keeps_modify. reflexivity. Qed.
Lemma keeps_put_pc v : keeps (put_pc v).
Proof. apply keeps_modify. reflexivity. Qed.
Lemma keeps_guard b : keeps (guard b).
Proof. destruct b; [apply keeps_ret|apply keeps_fail]. Qed.
Lemma keeps_send bs : keeps (send_cpu_message (MsgStdout bs)).
Proof.
  intros s x s' H. unfold send_cpu_message in H. destruct (sock s) eqn:E; inversion H; [|reflexivity].
  unfold untouched. cbn [irq ssum exit_addr sock ovf cbus set_bus b_sum b_msgs bset_msgs]. rewrite E, sync_count_app.
  cbn [sync_count]. rewrite Z.add_0_r. reflexivity.
Qed.

Ltac keeps_step :=
  match goal with
  | |- keeps (bind _ _) => apply keeps_bind; [|intros]
  | |- keeps (ret _) => apply keeps_ret
  | |- keeps fail => apply keeps_fail
  | |- keeps (lift _) => apply keeps_lift
  | |- keeps (bread _) => apply keeps_bread
  | |- keeps (bwrite _ _) => apply keeps_bwrite
  | |- keeps (read_rn_b _) => apply keeps_read_rn_b
  | |- keeps (read_rn_w _) => apply keeps_read_rn_w
  | |- keeps (read_rn_l _) => apply keeps_read_rn_l
  | |- keeps (write_rn_b _ _) => apply keeps_write_rn_b
  | |- keeps (write_rn_w _ _) => apply keeps_write_rn_w
  | |- keeps (write_rn_l _ _) => apply keeps_write_rn_l
  | |- keeps fetch => apply keeps_fetch
  | |- keeps (cs _ _) => apply keeps_cs
  | |- keeps (csa _ _ _) => apply keeps_csa
  | |- keeps get_ccr => apply keeps_get_ccr
  | |- keeps get_pc => apply keeps_get_pc
  | |- keeps (put_ccr _) => apply keeps_put_ccr
  | |- keeps (put_pc _) => apply keeps_put_pc
  | |- keeps (guard _) => apply keeps_guard
  | |- keeps (send_cpu_message (MsgStdout _)) => apply keeps_send
  | |- keeps (modify _) => apply keeps_modify; reflexivity
  | |- keeps (if ?c then _ else _) => destruct c
  | |- keeps (match ?x with _ => _ end) => destruct x
  | |- keeps (let '(_, _) := ?p in _) => destruct p
  end.

Lemma keeps_read_abs24 z a : keeps (read_abs24 z a).
Proof. unfold read_abs24, read_abs24_b, read_abs24_w, read_abs24_l, read_abs24_w. repeat keeps_step. Qed.
Lemma keeps_write_abs24 z a v : keeps (write_abs24 z a v).
Proof. unfold write_abs24, write_abs24_b, write_abs24_w, write_abs24_l, write_abs24_w. repeat keeps_step. Qed.
Lemma keeps_read_rn z r : keeps (read_rn z r).
Proof. unfold read_rn. repeat keeps_step. Qed.
Lemma keeps_write_rn z r v : keeps (write_rn z r v).
Proof. unfold write_rn. repeat keeps_step. Qed.
Lemma keeps_read_abs24_l a : keeps (read_abs24_l a).
Proof. unfold read_abs24_l, read_abs24_w. repeat keeps_step. Qed.
Lemma keeps_write_abs24_l a v : keeps (write_abs24_l a v).
Proof. unfold write_abs24_l, write_abs24_w. repeat keeps_step. Qed.
Lemma keeps_write_abs24_w a v : keeps (write_abs24_w a v).
Proof. unfold write_abs24_w. repeat keeps_step. Qed.
Lemma keeps_read_abs24_b a : keeps (read_abs24_b a).
Proof. unfold read_abs24_b. repeat keeps_step. Qed.
Lemma keeps_write_abs24_b a v : keeps (write_abs24_b a v).
Proof. unfold write_abs24_b. repeat keeps_step. Qed.

Lemma keeps_set_mov_flags z v : keeps (set_mov_flags z v).
Proof. unfold set_mov_flags. repeat keeps_step. Qed.
Lemma keeps_write_dec_ern z r v : keeps (write_dec_ern z r v).
Proof. unfold write_dec_ern. repeat first [keeps_step | apply keeps_write_abs24]. Qed.
Lemma keeps_write_inc_ern z r v : keeps (write_inc_ern z r v).
Proof. unfold write_inc_ern. repeat first [keeps_step | apply keeps_write_abs24]. Qed.
Lemma keeps_read_inc_ern z r : keeps (read_inc_ern z r).
Proof. unfold read_inc_ern. repeat first [keeps_step | apply keeps_read_abs24]. Qed.

Ltac keeps_more :=
  first [ keeps_step | apply keeps_set_mov_flags | apply keeps_write_dec_ern | apply keeps_write_inc_ern | apply keeps_read_inc_ern
        | apply keeps_read_abs24 | apply keeps_write_abs24 | apply keeps_read_rn | apply keeps_write_rn
        | apply keeps_read_abs24_l | apply keeps_write_abs24_l | apply keeps_write_abs24_w
        | apply keeps_read_abs24_b | apply keeps_write_abs24_b ].

Lemma keeps_read_bytes n : forall a, keeps (read_bytes n a).
Proof. induction n as [|k IH]; intros a; cbn [read_bytes]; repeat keeps_more. apply IH. Qed.

Lemma keeps_mes : keeps mes.
Proof. unfold mes. repeat keeps_more. apply keeps_read_bytes. Qed.

Theorem keeps_run_tag t op op2 op3 : keeps (run_tag t op op2 op3).
Proof.
  destruct t; cbn [run_tag];
    unfold fetch32, set_mov_flags, mov_mem, get_addr_ern, get_addr_disp16, get_addr_disp24,
      read_inc_ern, write_inc_ern, write_dec_ern, pc_disp, push_l, sp_minus4;
    repeat keeps_more; try apply keeps_mes.
Qed.

Theorem keeps_exec op : keeps (exec op).
Proof.
  unfold exec. destruct (select1 op); try apply keeps_run_tag;
    (apply keeps_bind; [apply keeps_fetch|intros; apply keeps_run_tag]).
Qed.

Theorem step_untouched : forall s n s', step s = Ok n s' -> untouched s' = untouched s.
Proof.
  intros s n s' H. unfold step in H.
  destruct (fetch s) as [op s1| |] eqn:Ef; try discriminate.
  destruct (exec op s1) as [m s2| |] eqn:Ee; try discriminate.
  destruct (fault s2); [discriminate|]. inversion H; subst.
  rewrite (keeps_exec op _ _ _ Ee). exact (keeps_fetch _ _ _ Ef).
Qed.

Theorem step_keeps_requests : forall s n s', step s = Ok n s' -> irq s' = irq s.
Proof. intros s n s' H. pose proof (step_untouched s n s' H) as U. unfold untouched in U. congruence. Qed.
