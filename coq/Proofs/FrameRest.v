(* Frame of one instruction inside the domain: nothing but registers, CCR, PC and the three plain memories changes -
   for the reference semantics and, with the one-instruction theorem of Proofs/RefStep.v, for the model's step. *)
From Coq Require Import Bool ZArith Lia ZifyBool List.
From K Require Import Lib.Bits Lib.Types Model.Machine Model.Bus Model.Cost Model.Addressing Model.Alu Model.Exec Model.Periph Model.Run
  Spec.MemMap Spec.Price Spec.ISA Spec.Domains
  Proofs.PriceProofs Proofs.RegProofs Proofs.MemProofs Proofs.StepProofs Proofs.CtlProofs Proofs.MovProofs Proofs.StackProofs
  Proofs.StepRefines Proofs.ChargeProofs Proofs.ChargeTotals Proofs.RefStep.
Import ListNotations.
Open Scope bool_scope. Open Scope Z_scope.
Ltac Zify.zify_post_hook ::= Z.div_mod_to_equations.

(* ---- inside the C20 domain an instruction changes nothing but registers, CCR, PC and the three plain memories ---- *)
Definition rest (s : cpu) :=
  (b_io1 (cbus s), b_io2 (cbus s), b_pin (cbus s), b_latch (cbus s), b_sum (cbus s), b_msgs (cbus s), b_tmr (cbus s),
   irq s, exit_addr s, ssum s, ovf s, sock s, console s, fault s).

Lemma put8_rest s a v s' : put8 s a v = Some s' -> data_ok a = true -> rest s' = rest s.
Proof.
  unfold put8, rest, bus_write, data_ok, in_ram, in_dram, in_vec, within, inr, VEC_START, VEC_END, IO1_START, IO1_END, DRAM_START, DRAM_END, RAM_START, RAM_END.
  intros H Ha.
  assert (C : (0xffbf20 <= a <= 0xffff1f) \/ (0x400000 <= a <= 0x5fffff) \/ (0 <= a <= 0xff)) by lia. clear Ha.
  destruct C as [C | [C | C]].
  - replace ((0 <=? a) && (a <=? 255)) with false in H by lia. replace ((16703488 <=? a) && (a <=? 16703743)) with false in H by lia.
    replace ((4194304 <=? a) && (a <=? 6291455)) with false in H by lia. replace ((16760608 <=? a) && (a <=? 16776991)) with true in H by lia.
    inversion H. reflexivity.
  - replace ((0 <=? a) && (a <=? 255)) with false in H by lia. replace ((16703488 <=? a) && (a <=? 16703743)) with false in H by lia.
    replace ((4194304 <=? a) && (a <=? 6291455)) with true in H by lia. inversion H. reflexivity.
  - replace ((0 <=? a) && (a <=? 255)) with true in H by lia. inversion H. reflexivity.
Qed.

Lemma mem_write_rest z s a v s' : mem_write z s a v = Some s' -> span_ok data_ok a (bytes_of z) = true -> rest s' = rest s.
Proof.
  intros H Hs.
  assert (D : forall k, 0 <= k < bytes_of z -> data_ok (a + k) = true) by (intros k Hk; now apply (span_at _ _ _ _ Hs)).
  destruct z; cbn [mem_write bytes_of] in *; unfold ISA.obind in H.
  - apply (put8_rest _ _ _ _ H). rewrite <- (Z.add_0_r a). apply D. lia.
  - destruct (put8 s a _) as [s1|] eqn:E1; [|discriminate].
    rewrite (put8_rest _ _ _ _ H) by (apply D; lia). apply (put8_rest _ _ _ _ E1). rewrite <- (Z.add_0_r a). apply D. lia.
  - destruct (put8 s a _) as [s1|] eqn:E1; [|discriminate].
    destruct (put8 s1 (a + 1) _) as [s2|] eqn:E2; [|discriminate].
    destruct (put8 s2 (a + 2) _) as [s3|] eqn:E3; [|discriminate].
    rewrite (put8_rest _ _ _ _ H) by (apply D; lia). rewrite (put8_rest _ _ _ _ E3) by (apply D; lia).
    rewrite (put8_rest _ _ _ _ E2) by (apply D; lia). apply (put8_rest _ _ _ _ E1). rewrite <- (Z.add_0_r a). apply D. lia.
Qed.

Lemma rest_set_reg z s r v : rest (set_reg z s r v) = rest s.
Proof. unfold set_reg; destruct z; unfold set_reg8, set_reg16, set_reg32; repeat match goal with |- context [if ?c then _ else _] => destruct c end; reflexivity. Qed.
Lemma rest_ea_update z s e : rest (ea_update z s e) = rest s.
Proof. destruct e; reflexivity. Qed.

Lemma push32_rest s v s' : push32 s v = Some s' -> span_ok data_ok ((reg32 s 7 - 4) mod A24) 4 = true -> rest s' = rest s.
Proof.
  unfold push32. intros H Hs. rewrite (mem_write_rest SL _ _ _ _ H).
  - apply rest_ea_update.
  - cbn [bytes_of]. cbn [ea_update]. unfold reg32, set_reg32. cbn [er set_regs]. rewrite get_set_er by lia. rewrite Z.eqb_refl.
    cbn [bytes_of]. fold (reg32 s 7). rewrite StackProofs.sp_dec_addr. exact Hs.
Qed.

Ltac inv_some H s' := apply (f_equal (fun o => match o with Some x => x | None => s' end)) in H; cbv beta iota in H; subst s'.
Lemma rest_set_pc v s : rest (set_pc v s) = rest s. Proof. reflexivity. Qed.
Lemma rest_set_ccr v s : rest (set_ccr v s) = rest s. Proof. reflexivity. Qed.
Ltac rest_norm := unfold with_pc, with_ccr; rewrite ?rest_set_pc, ?rest_set_ccr.

Theorem sem_ref_rest i len s s' : dom_c20 i len s = true -> sem_ref i len s = Some s' -> rest s' = rest s.
Proof.
  intros Hdom H. destruct (exec_dom_parts _ _ _ _ Hdom) as [_ Hacc].
  destruct i; cbn [sem_ref] in H.
  - inv_some H s'. rest_norm. apply rest_set_reg.
  - inv_some H s'. rest_norm. apply rest_set_reg.
  - destruct (mem_read s0 s (ea_addr s0 s e)); cbn [ISA.obind] in H; [|discriminate]. inv_some H s'. rest_norm.
    rewrite rest_set_reg. apply rest_ea_update.
  - first_access Hacc. destruct (mem_write s0 (ea_update s0 s e) (ea_addr s0 s e) _) as [s2|] eqn:E; cbn [ISA.obind] in H; [|discriminate].
    inv_some H s'. rest_norm. rewrite (mem_write_rest _ _ _ _ _ E) by assumption. apply rest_ea_update.
  - destruct (alu2_ref o (bits_of s0) _ _ (ccr s)) as [r c]. inv_some H s'. rest_norm.
    destruct o; try apply rest_set_reg; reflexivity.
  - destruct (alu2_ref o (bits_of s0) _ imm (ccr s)) as [r c]. inv_some H s'. rest_norm.
    destruct o; try apply rest_set_reg; reflexivity.
  - destruct (alu1_ref o (bits_of s0) _ (ccr s)) as [r c]. inv_some H s'. rest_norm. apply rest_set_reg.
  - inv_some H s'. reflexivity.
  - inv_some H s'. reflexivity.
  - destruct s0; inv_some H s'; rest_norm; first [apply (rest_set_reg SW) | apply (rest_set_reg SL)].
  - destruct s0; match type of H with (if ?c then _ else _) = _ => destruct c; [discriminate|] end; inv_some H s'; rest_norm;
      first [apply (rest_set_reg SW) | apply (rest_set_reg SL)].
  - destruct t as [rd|e].
    + destruct (bit_ref o (reg8 s rd) _ (ccr s)) as [v c]. inv_some H s'. rest_norm. destruct (bit_writes o); [apply (rest_set_reg SB)|reflexivity].
    + first_access Hacc. destruct (mem8 s (ea_addr SB s e)) as [v0|]; cbn [ISA.obind] in H; [|discriminate].
      destruct (bit_ref o v0 _ (ccr s)) as [v c]. destruct (bit_writes o).
      * destruct (put8 s (ea_addr SB s e) v) as [s1|] eqn:E; cbn [ISA.obind] in H; [|discriminate]. inv_some H s'. rest_norm.
        apply (put8_rest _ _ _ _ E). apply (span_first _ _ 1); [assumption|lia].
      * inv_some H s'. reflexivity.
  - inv_some H s'. reflexivity.
  - destruct (jump_target s t); cbn [ISA.obind] in H; [|discriminate]. inv_some H s'. reflexivity.
  - first_access Hacc. destruct (push32 s (pc s + len)) as [s1|] eqn:E; cbn [ISA.obind] in H; [|discriminate]. inv_some H s'. rest_norm.
    apply (push32_rest _ _ _ E). assumption.
  - (* JSR *)
    destruct t as [r|a|aa]; first_access Hacc.
    + destruct (push32 s (pc s + len)) as [s1|] eqn:E; cbn [ISA.obind] in H; [|discriminate]. inv_some H s'. rest_norm.
      apply (push32_rest _ _ _ E). assumption.
    + cbn [jump_target ISA.obind] in H. destruct (push32 s (pc s + len)) as [s1|] eqn:E; cbn [ISA.obind] in H; [|discriminate]. inv_some H s'. rest_norm.
      apply (push32_rest _ _ _ E). assumption.
    + destruct (jump_target s (JInd aa)); cbn [ISA.obind] in H; [|discriminate].
      destruct (push32 s (pc s + len)) as [s1|] eqn:E; cbn [ISA.obind] in H; [|discriminate]. inv_some H s'. rest_norm.
      apply (push32_rest _ _ _ E). assumption.
  - (* RTS *)
    unfold pop32 in H. destruct (mem_read SL s (reg32 s 7 mod A24)); cbn [ISA.obind] in H; [|discriminate]. inv_some H s'. rest_norm. apply rest_ea_update.
  - (* RTE *)
    unfold pop32 in H. destruct (mem_read SL s (reg32 s 7 mod A24)); cbn [ISA.obind] in H; [|discriminate]. inv_some H s'. rest_norm. apply rest_ea_update.
  - (* TRAPA *)
    first_access Hacc. unfold enter_ref in H.
    change (reg32 (with_pc (pc s + len) s) 7) with (reg32 s 7) in *.
    destruct (push32 (with_pc (pc s + len) s) _) as [s1|] eqn:E; cbn [ISA.obind] in H; [|discriminate].
    destruct (mem_read SL s1 (4 * (8 + n))); cbn [ISA.obind] in H; [|discriminate]. inv_some H s'. rest_norm.
    rewrite (push32_rest _ _ _ E) by assumption. reflexivity.
  - inv_some H s'. rest_norm. apply (rest_set_reg SB).
  - (* STC.W *)
    first_access Hacc. cbv zeta in H. destruct (mem_write SW (ea_update SW s e) (ea_addr SW s e) (ccr s)) as [s2|] eqn:E; cbn [ISA.obind] in H; [|discriminate].
    inv_some H s'. rest_norm. rewrite (mem_write_rest _ _ _ _ _ E) by assumption. apply rest_ea_update.
  - discriminate H.
Qed.


(* with the one-instruction theorem: the model's step leaves everything else alone *)
Theorem step_leaves_rest_proof s i len s' n s2 :
  state_ok s -> ref_decode s = Some (i, len) -> side_ok i s -> dom_c20 i len s = true -> sem_ref i len s = Some s' ->
  step s = Ok n s2 -> rest s2 = rest s.
Proof.
  intros Hst Hdec Hside Hdom Hsem Hstep.
  rewrite (step_is_ref_step_proof s i len s' Hst Hdec Hside Hdom Hsem) in Hstep.
  inversion Hstep; subst. change (rest (set_opc (pc s + len - 2) s')) with (rest s'). exact (sem_ref_rest i len s s' Hdom Hsem).
Qed.
