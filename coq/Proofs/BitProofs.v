(* Bit-manipulation kernels: for every operation, operand byte, bit number 0-7 and CCR value the model's
   shift/mask code equals the reference; plus the "exactly the addressed bit" frame facts of the reference.
   Finite domains, proved by exhaustive vm_compute sweeps (14 x 256 x 8 x 256 evaluations). *)
From Coq Require Import Bool ZArith Lia ZifyBool List.
From K Require Import Lib.Bits Lib.Types Model.Machine Model.Alu Model.Exec Spec.ISA Proofs.FlagProofs.
Import ListNotations.
Open Scope bool_scope. Open Scope Z_scope.

Definition all_bops : list bop := [BSet; BNot; BClr; BTst; BSt; BISt; BLd; BILd; BAnd; BIAnd; BOr; BIOr; BXor; BIXor].
Lemma in_all_bops o : In o all_bops.
Proof. destruct o; cbn; tauto. Qed.

Definition pair_eqb (p q : Z * Z) : bool := (fst p =? fst q) && (snd p =? snd q).

Definition bop_ok (o : bop) : bool :=
  forallb (fun v => forallb (fun k => forallb (fun c =>
    pair_eqb (bop_fun o v k c) (bit_ref o v k c) && Bool.eqb (bop_writes o) (bit_writes o))
    (zrange 256)) (zrange 8)) (zrange 256).

Lemma bop_sweep : forallb bop_ok all_bops = true.
Proof. vm_compute. reflexivity. Qed.

Lemma bop_fun_spec o v k c : 0 <= v < 256 -> 0 <= k < 8 -> 0 <= c < 256 ->
  bop_fun o v k c = bit_ref o v k c /\ bop_writes o = bit_writes o.
Proof.
  intros Hv Hk Hc. pose proof bop_sweep as H. rewrite forallb_forall in H.
  specialize (H o (in_all_bops o)). unfold bop_ok in H.
  pose proof (forallb_zrange _ 256 H v Hv) as H1.
  pose proof (forallb_zrange _ 8 H1 k Hk) as H2.
  pose proof (forallb_zrange _ 256 H2 c Hc) as H3.
  apply andb_true_iff in H3. destruct H3 as [H3 H4]. unfold pair_eqb in H3.
  apply andb_true_iff in H3. destruct H3 as [Ha Hb].
  split; [|now apply Bool.eqb_prop].
  destruct (bop_fun o v k c), (bit_ref o v k c). cbn [fst snd] in *. f_equal; lia.
Qed.

(* reference facts: a bit write changes exactly bit k of the byte; flags: only the named one *)
Definition with_bit_ok (v : Z) : bool :=
  forallb (fun k => forallb (fun b =>
    let r := with_bit v k b in
    (0 <=? r) && (r <? 256) && Bool.eqb (bitv r k) b &&
    forallb (fun j => (j =? k) || Bool.eqb (bitv r j) (bitv v j)) (zrange 8)) bools) (zrange 8).
Lemma with_bit_sweep : forallb with_bit_ok (zrange 256) = true.
Proof. vm_compute. reflexivity. Qed.
Lemma with_bit_exact v k b : 0 <= v < 256 -> 0 <= k < 8 ->
  0 <= with_bit v k b < 256 /\ bitv (with_bit v k b) k = b /\
  forall j, 0 <= j < 8 -> j <> k -> bitv (with_bit v k b) j = bitv v j.
Proof.
  intros Hv Hk. pose proof (forallb_zrange _ 256 with_bit_sweep v Hv) as H1.
  pose proof (forallb_zrange _ 8 H1 k Hk) as H2. rewrite forallb_forall in H2.
  specialize (H2 b (in_bools b)). cbv zeta in H2.
  repeat (apply andb_true_iff in H2; destruct H2 as [H2 ?]).
  split; [lia|]. split; [now apply Bool.eqb_prop|].
  intros j Hj Hne.
  match goal with H : forallb _ (zrange 8) = true |- _ => pose proof (forallb_zrange _ 8 H j Hj) as H5 end.
  apply orb_true_iff in H5. destruct H5 as [H5|H5]; [lia|now apply Bool.eqb_prop].
Qed.
