(* C15: no state makes instruction execution, interrupt acceptance or a run-loop iteration of the model panic;
   faults surface as Err. *)
From Coq Require Import Bool ZArith Lia List.
From K Require Import Lib.Types Model.Machine Model.Bus Model.Cost Model.Addressing Model.Alu Model.Exec Model.Periph Model.Run.
Import ListNotations.
Open Scope bool_scope. Open Scope Z_scope.

Definition safe {A} (m : M A) : Prop := forall s, m s <> Panic.

Lemma safe_ret {A} (a : A) : safe (ret a).
Proof. intros s H. discriminate H. Qed.
Lemma safe_fail {A} : safe (@fail A).
Proof. intros s H. discriminate H. Qed.
Lemma safe_bind {A B} (m : M A) (f : A -> M B) : safe m -> (forall a, safe (f a)) -> safe (bind m f).
Proof.
  intros Hm Hf s H. unfold bind in H. destruct (m s) as [a s1| |] eqn:E; try discriminate.
  - exact (Hf a s1 H).
  - exact (Hm s E).
Qed.
Lemma safe_lift {A} (o : option A) : safe (lift o).
Proof. intros s H. unfold lift in H. destruct o; discriminate H. Qed.
Lemma safe_modify f : safe (modify f).
Proof. intros s H. discriminate H. Qed.
Lemma safe_bread a : safe (bread a).
Proof. intros s H. unfold bread in H. destruct (bus_read (cbus s) a); discriminate H. Qed.
Lemma safe_bwrite a v : safe (bwrite a v).
Proof. intros s H. unfold bwrite in H. destruct (bus_write (cbus s) a v); discriminate H. Qed.
Ltac ifs_in H := repeat match type of H with context [if ?c then _ else _] => destruct c end.
Lemma safe_read_rn_b r : safe (read_rn_b r).
Proof. intros s H. unfold read_rn_b in H. ifs_in H; discriminate H. Qed.
Lemma safe_read_rn_w r : safe (read_rn_w r).
Proof. intros s H. unfold read_rn_w in H. ifs_in H; discriminate H. Qed.
Lemma safe_read_rn_l r : safe (read_rn_l r).
Proof. intros s H. unfold read_rn_l in H. ifs_in H; discriminate H. Qed.
Lemma safe_write_rn_b r v : safe (write_rn_b r v).
Proof. intros s H. unfold write_rn_b in H. ifs_in H; discriminate H. Qed.
Lemma safe_write_rn_w r v : safe (write_rn_w r v).
Proof. intros s H. unfold write_rn_w in H. ifs_in H; discriminate H. Qed.
Lemma safe_write_rn_l r v : safe (write_rn_l r v).
Proof. intros s H. unfold write_rn_l in H. ifs_in H; discriminate H. Qed.
Lemma safe_fetch : safe fetch.
Proof.
  intros s H. unfold fetch in H.
  destruct (bus_read (cbus s) (Z.land (pc s) 4294967294)); [|discriminate H].
  destruct (bus_read (cbus s) (wrap 32 (Z.land (pc s) 4294967294 + 1))); discriminate H.
Qed.
Lemma safe_cs k n : safe (cs k n).
Proof. intros s H. unfold cs, lift in H. destruct (calc_state _ _ _ _); discriminate H. Qed.
Lemma safe_csa k n a : safe (csa k n a).
Proof. intros s H. unfold csa, lift in H. destruct (calc_state_with_addr _ _ _ _); discriminate H. Qed.
Lemma safe_get_ccr : safe get_ccr. Proof. intros s H. discriminate H. Qed.
Lemma safe_get_pc : safe get_pc. Proof. intros s H. discriminate H. Qed.
Lemma safe_guard b : safe (guard b).
Proof. destruct b; [apply safe_ret|apply safe_fail]. Qed.
Lemma safe_send m : safe (send_cpu_message m).
Proof. intros s H. unfold send_cpu_message in H. destruct (sock s); discriminate H. Qed.

Ltac safe_step :=
  match goal with
  | |- safe (bind _ _) => apply safe_bind; [|intros]
  | |- safe (ret _) => apply safe_ret
  | |- safe fail => apply safe_fail
  | |- safe (lift _) => apply safe_lift
  | |- safe (bread _) => apply safe_bread
  | |- safe (bwrite _ _) => apply safe_bwrite
  | |- safe (read_rn_b _) => apply safe_read_rn_b
  | |- safe (read_rn_w _) => apply safe_read_rn_w
  | |- safe (read_rn_l _) => apply safe_read_rn_l
  | |- safe (write_rn_b _ _) => apply safe_write_rn_b
  | |- safe (write_rn_w _ _) => apply safe_write_rn_w
  | |- safe (write_rn_l _ _) => apply safe_write_rn_l
  | |- safe fetch => apply safe_fetch
  | |- safe (cs _ _) => apply safe_cs
  | |- safe (csa _ _ _) => apply safe_csa
  | |- safe get_ccr => apply safe_get_ccr
  | |- safe get_pc => apply safe_get_pc
  | |- safe (put_ccr _) => apply safe_modify
  | |- safe (put_pc _) => apply safe_modify
  | |- safe (modify _) => apply safe_modify
  | |- safe (guard _) => apply safe_guard
  | |- safe (send_cpu_message _) => apply safe_send
  | |- safe (if ?c then _ else _) => destruct c
  | |- safe (match ?x with _ => _ end) => destruct x
  | |- safe (let '(_, _) := ?p in _) => destruct p
  end.

Lemma safe_read_abs24 z a : safe (read_abs24 z a).
Proof. unfold read_abs24, read_abs24_b, read_abs24_w, read_abs24_l, read_abs24_w. repeat safe_step. Qed.
Lemma safe_write_abs24 z a v : safe (write_abs24 z a v).
Proof. unfold write_abs24, write_abs24_b, write_abs24_w, write_abs24_l, write_abs24_w. repeat safe_step. Qed.
Lemma safe_read_rn z r : safe (read_rn z r).
Proof. unfold read_rn. repeat safe_step. Qed.
Lemma safe_write_rn z r v : safe (write_rn z r v).
Proof. unfold write_rn. repeat safe_step. Qed.
Lemma safe_read_abs24_l a : safe (read_abs24_l a).
Proof. unfold read_abs24_l, read_abs24_w. repeat safe_step. Qed.
Lemma safe_write_abs24_l a v : safe (write_abs24_l a v).
Proof. unfold write_abs24_l, write_abs24_w. repeat safe_step. Qed.
Lemma safe_write_abs24_w a v : safe (write_abs24_w a v).
Proof. unfold write_abs24_w. repeat safe_step. Qed.
Lemma safe_read_abs24_b a : safe (read_abs24_b a).
Proof. unfold read_abs24_b. repeat safe_step. Qed.
Lemma safe_write_abs24_b a v : safe (write_abs24_b a v).
Proof. unfold write_abs24_b. repeat safe_step. Qed.
Lemma safe_set_mov_flags z v : safe (set_mov_flags z v).
Proof. unfold set_mov_flags. repeat safe_step. Qed.
Lemma safe_write_dec_ern z r v : safe (write_dec_ern z r v).
Proof. unfold write_dec_ern. repeat first [safe_step | apply safe_write_abs24]. Qed.
Lemma safe_write_inc_ern z r v : safe (write_inc_ern z r v).
Proof. unfold write_inc_ern. repeat first [safe_step | apply safe_write_abs24]. Qed.
Lemma safe_read_inc_ern z r : safe (read_inc_ern z r).
Proof. unfold read_inc_ern. repeat first [safe_step | apply safe_read_abs24]. Qed.

Ltac safe_more :=
  first [ safe_step | apply safe_set_mov_flags | apply safe_write_dec_ern | apply safe_write_inc_ern | apply safe_read_inc_ern
        | apply safe_read_abs24 | apply safe_write_abs24 | apply safe_read_rn | apply safe_write_rn
        | apply safe_read_abs24_l | apply safe_write_abs24_l | apply safe_write_abs24_w
        | apply safe_read_abs24_b | apply safe_write_abs24_b ].

Lemma safe_read_bytes n : forall a, safe (read_bytes n a).
Proof. induction n as [|k IH]; intros a; cbn [read_bytes]; repeat safe_more. apply IH. Qed.
Lemma safe_mes : safe mes.
Proof. unfold mes. repeat safe_more. apply safe_read_bytes. Qed.

Theorem safe_run_tag t op op2 op3 : safe (run_tag t op op2 op3).
Proof.
  destruct t; cbn [run_tag];
    unfold fetch32, mov_mem, get_addr_ern, get_addr_disp16, get_addr_disp24, pc_disp, push_l, sp_minus4;
    repeat safe_more; try apply safe_mes.
Qed.

Theorem safe_exec op : safe (exec op).
Proof.
  unfold exec. destruct (select1 op); try apply safe_run_tag;
    (apply safe_bind; [apply safe_fetch|intros; apply safe_run_tag]).
Qed.

Theorem no_panic_step_proof : forall s, step s <> Panic.
Proof.
  intros s H. unfold step in H.
  destruct (fetch s) as [op s1| |] eqn:Ef; try discriminate; [|exact (safe_fetch s Ef)].
  destruct (exec op s1) as [n s2| |] eqn:Ee; try discriminate; [|exact (safe_exec op s1 Ee)].
  destruct (fault s2); discriminate H.
Qed.

Lemma safe_interrupt v : safe (interrupt v).
Proof. unfold interrupt, push_l. repeat safe_more. Qed.

Theorem no_panic_boundary_proof : forall s, try_interrupt s <> Panic.
Proof.
  intros s H. unfold try_interrupt in H. destruct (ccr_get FI (ccr s) =? 0); [|discriminate H].
  destruct (irq s) as [|v r]; [discriminate H|]. exact (safe_interrupt v _ H).
Qed.

Theorem no_panic_iter_proof : forall batch r, iter batch r <> Crashed.
Proof.
  intros batch r H. unfold iter in H.
  destruct (c_stopped _); [discriminate H|]. destruct (c_paused _); [discriminate H|].
  unfold iter_insn in H.
  destruct (try_interrupt _) as [[] s1| |] eqn:E1; try discriminate H; [|exact (no_panic_boundary_proof _ E1)].
  destruct (step s1) as [st s2| |] eqn:E2; try discriminate H; [|exact (no_panic_step_proof _ E2)].
  destruct (sock _); destruct (SYNC_INTERVAL <=? _);
    match type of H with context [update_timer ?a ?b] => destruct (pc (update_timer a b) =? exit_addr (update_timer a b)) end; discriminate H.
Qed.

(* an instruction fetch outside mapped memory is an error of the step *)
Theorem unmapped_fetch_is_error_proof : forall s,
  bus_read (cbus s) (Z.land (pc s) 4294967294) = None -> step s = Err.
Proof.
  intros s Hn. unfold step, fetch. rewrite Hn.
  set (s1 := set_fault true _).
  destruct (exec 0 s1) as [n s2| |] eqn:E; [|reflexivity|exfalso; exact (safe_exec 0 s1 E)].
  (* opcode 0 is not an instruction: exec fails *)
  unfold exec in E. cbn in E. discriminate E.
Qed.
