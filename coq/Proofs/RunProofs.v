(* C13 / C18: the run loop's accounting and sync messages; control-line batching; message escaping. *)
From Coq Require Import Bool ZArith Lia ZifyBool List.
From K Require Import Lib.Bits Lib.Types Model.Machine Model.Bus Model.Cost Model.Addressing Model.Alu Model.Exec Model.Periph Model.Run
  Proofs.FrameProofs.
Import ListNotations.
Open Scope bool_scope. Open Scope Z_scope.
Ltac Zify.zify_post_hook ::= Z.div_mod_to_equations.

(* ================================================================== C18: control lines *)
Lemma apply_line_stopped l c : c_stopped c = true -> apply_line l c = c.
Proof. intros H. unfold apply_line. now rewrite H. Qed.

Lemma process_batch_app l1 l2 c : process_batch (l1 ++ l2) c = process_batch l2 (process_batch l1 c).
Proof. unfold process_batch. apply fold_left_app. Qed.

(* however the received lines are cut into polling batches, the effect is that of the whole sequence *)
Theorem batching_irrelevant_proof : forall parts c,
  fold_left (fun st b => process_batch b st) parts c = process_batch (concat parts) c.
Proof.
  induction parts as [|b t IH]; intros c; cbn [fold_left concat]; [reflexivity|].
  now rewrite IH, process_batch_app.
Qed.

Lemma process_batch_stopped ls c : c_stopped c = true -> process_batch ls c = c.
Proof.
  revert c. induction ls as [|l t IH]; intros c H; cbn; [reflexivity|].
  unfold process_batch in *. rewrite apply_line_stopped by assumption. now apply IH.
Qed.

(* a line whose first field is none of cmd / u8 / ioport changes nothing *)
Lemma unknown_line_ignored line c f0 rest :
  split_colon line = f0 :: rest -> bytes_eqb f0 w_cmd = false -> bytes_eqb f0 w_u8 = false -> bytes_eqb f0 w_ioport = false ->
  apply_line line c = c.
Proof. intros Hs H1 H2 H3. unfold apply_line. rewrite Hs, H1, H2, H3. destruct (c_stopped c); reflexivity. Qed.

(* the three commands *)
Lemma cmd_pause c : c_stopped c = false -> apply_line (w_cmd ++ [58] ++ w_pause) c = mkCtl (c_cpu c) true false.
Proof. intros H. unfold apply_line. rewrite H. reflexivity. Qed.
Lemma cmd_start c : c_stopped c = false -> apply_line (w_cmd ++ [58] ++ w_start) c = mkCtl (c_cpu c) false false.
Proof. intros H. unfold apply_line. rewrite H. reflexivity. Qed.
Lemma cmd_stop c : c_stopped c = false -> apply_line (w_cmd ++ [58] ++ w_stop) c = mkCtl (c_cpu c) (c_paused c) true.
Proof. intros H. unfold apply_line. rewrite H. reflexivity. Qed.

(* ---- escaping ---- *)
Fixpoint unescape (l : list Z) : list Z :=
  match l with
  | [] => []
  | c :: t => if c =? 92 then
                match t with
                | d :: t' => (if d =? 110 then 10 else d) :: unescape t'
                | [] => [c]
                end
              else c :: unescape t
  end.

Definition escape_body (m : list Z) : list Z := replace_byte 10 [92; 110] (replace_byte 92 [92; 92] m).

Lemma escape_is_body m : escape m = escape_body m ++ [10].
Proof. reflexivity. Qed.

Fixpoint esc1 (m : list Z) : list Z :=
  match m with
  | [] => []
  | c :: t => (if c =? 92 then [92; 92] else if c =? 10 then [92; 110] else [c]) ++ esc1 t
  end.

Lemma escape_body_single_pass m : escape_body m = esc1 m.
Proof.
  unfold escape_body. induction m as [|c t IH]; [reflexivity|]. cbn [replace_byte esc1].
  destruct (c =? 92) eqn:E92.
  - cbn [app replace_byte]. assert (92 =? 10 = false) as -> by reflexivity. cbn [app]. now rewrite IH.
  - cbn [app replace_byte]. destruct (c =? 10); cbn [app]; now rewrite IH.
Qed.

Theorem unescape_escape_proof m : unescape (escape_body m) = m.
Proof.
  rewrite escape_body_single_pass. induction m as [|c t IH]; [reflexivity|]. cbn [esc1].
  destruct (c =? 92) eqn:E92.
  - cbn [app unescape]. cbn [Z.eqb Pos.eqb]. rewrite IH. f_equal. lia.
  - destruct (c =? 10) eqn:E10.
    + cbn [app unescape]. cbn [Z.eqb Pos.eqb]. rewrite IH. f_equal. lia.
    + cbn [app unescape]. rewrite E92, IH. reflexivity.
Qed.

(* the transmitted line contains no raw newline except its terminator *)
Theorem escape_one_line_proof m : ~ In 10 (escape_body m).
Proof.
  rewrite escape_body_single_pass. induction m as [|c t IH]; [intros []|]. cbn [esc1]. intros H.
  apply in_app_or in H. destruct H as [H|H]; [|exact (IH H)].
  destruct (c =? 92); [cbn in H; intuition discriminate|]. destruct (c =? 10) eqn:E; cbn in H; intuition (try discriminate; lia).
Qed.

(* ================================================================== C13: accounting and sync messages *)
Definition charges (m : M Z) : Prop := forall s a s', m s = Ok a s' -> 0 <= a < 256.

Lemma charges_bind {A} (m : M A) (f : A -> M Z) : (forall a, charges (f a)) -> charges (bind m f).
Proof. intros Hf s b s' H. unfold bind in H. destruct (m s) as [a s1| |]; try discriminate. exact (Hf a s1 b s' H). Qed.
Lemma calc_range b k n a v : calc_state_with_addr b k n a = Some v -> 0 <= v < 256.
Proof.
  unfold calc_state_with_addr, obind.
  repeat first
    [ match goal with |- context [if ?c then _ else _] => destruct c end
    | match goal with |- context [match ?x with Some _ => _ | None => _ end] => destruct x end ];
  intros H; try discriminate; inversion H; unfold u8mul; lia.
Qed.
Lemma charges_cs k n : charges (cs k n).
Proof.
  intros s a s' H. unfold cs, lift, calc_state in H.
  destruct ((k =? KL) || (k =? KM)); [discriminate|].
  destruct (calc_state_with_addr (cbus s) k n (opc s)) as [v|] eqn:E; inversion H; subst. eapply calc_range; eauto.
Qed.
Lemma charges_csa k n a0 : charges (csa k n a0).
Proof.
  intros s a s' H. unfold csa, lift in H.
  destruct (calc_state_with_addr (cbus s) k n a0) as [v|] eqn:E; inversion H; subst. eapply calc_range; eauto.
Qed.
Lemma charges_ret_u8add a b : charges (ret (u8add a b)).
Proof. intros s x s' H. inversion H. unfold u8add. lia. Qed.
Lemma charges_fail : charges fail.
Proof. intros s a s' H. discriminate H. Qed.

Ltac charges_step :=
  match goal with
  | |- charges (bind _ _) => apply charges_bind; intros
  | |- charges (cs _ _) => apply charges_cs
  | |- charges (csa _ _ _) => apply charges_csa
  | |- charges (ret (u8add _ _)) => apply charges_ret_u8add
  | |- charges fail => apply charges_fail
  | |- charges (if ?c then _ else _) => destruct c
  | |- charges (match ?x with _ => _ end) => destruct x
  | |- charges (let '(_, _) := ?p in _) => destruct p
  end.

Theorem run_tag_charges t op op2 op3 : charges (run_tag t op op2 op3).
Proof. destruct t; cbn [run_tag]; unfold mov_mem; repeat charges_step. Qed.

Theorem step_charge_range : forall s st s', step s = Ok st s' -> 0 <= st < 256.
Proof.
  intros s st s' H. unfold step in H.
  destruct (fetch s) as [op s1| |]; try discriminate.
  destruct (exec op s1) as [n s2| |] eqn:E; try discriminate.
  destruct (fault s2); [discriminate|]. inversion H; subst.
  unfold exec in E. destruct (select1 op);
    try (exact (run_tag_charges _ _ _ _ _ _ _ E));
    (unfold bind in E; destruct (fetch s1) as [op2 s3| |]; try discriminate; exact (run_tag_charges _ _ _ _ _ _ _ E)).
Qed.

(* ---- one instruction of the run loop ---- *)
Lemma try_interrupt_untouched_but_irq s s' :
  try_interrupt s = Ok tt s' ->
  ssum s' = ssum s /\ exit_addr s' = exit_addr s /\ sock s' = sock s /\ b_sum (cbus s') = b_sum (cbus s) /\
  sync_count (b_msgs (cbus s')) = sync_count (b_msgs (cbus s)).
Proof.
  unfold try_interrupt. destruct (ccr_get FI (ccr s) =? 0); [|intros H; inversion H; auto].
  destruct (irq s) as [|v r]; [intros H; inversion H; auto|].
  intros H.
  assert (K : keeps (interrupt v)) by (unfold interrupt, push_l; repeat keeps_more).
  pose proof (K _ _ _ H) as U. unfold untouched in U. cbn [irq ssum exit_addr sock ovf cbus set_irq] in U.
  inversion U. auto.
Qed.

Lemma update_timer_acct n s :
  ssum (update_timer n s) = ssum s /\ exit_addr (update_timer n s) = exit_addr s /\ sock (update_timer n s) = sock s /\
  b_sum (cbus (update_timer n s)) = b_sum (cbus s) /\ b_msgs (cbus (update_timer n s)) = b_msgs (cbus s) /\
  pc (update_timer n s) = pc s.
Proof.
  unfold update_timer. destruct (t_presc (b_tmr (cbus s)) =? 0); [auto 10|].
  set (k := Z.to_nat _). set (t := b_tmr (cbus s)).
  assert (T : forall m b, b_sum (fst (timer_ticks m t b)) = b_sum b /\ b_msgs (fst (timer_ticks m t b)) = b_msgs b).
  { induction m as [|m IH]; intros b; cbn [timer_ticks fst]; [auto|].
    destruct (timer_tick t b) as [b1 r1] eqn:E. specialize (IH b1). destruct (timer_ticks m t b1) as [b2 r2]. cbn [fst] in *.
    assert (b_sum b1 = b_sum b /\ b_msgs b1 = b_msgs b) by (unfold timer_tick in E; inversion E; auto).
    destruct IH, H. split; congruence. }
  specialize (T k (cbus s)). destruct (timer_ticks k t (cbus s)) as [b1 rq]. cbn [fst] in T. destruct T.
  cbn [ssum exit_addr sock cbus set_irq set_bus b_sum b_msgs bset_tmr pc]. auto 10.
Qed.

(* accounting invariant of the loop: sync_count counts the sync messages sent so far *)
Definition acct (s : cpu) (sync : Z) : Prop :=
  0 <= sync < SYNC_INTERVAL /\ ssum s = SYNC_INTERVAL * sync_count (b_msgs (cbus s)) + sync /\
  b_sum (cbus s) = ssum s /\ sock s = true.

Definition result_cpu (r : iter_result) : option (cpu * Z) :=
  match r with Continue r' => Some (c_cpu (r_ctl r'), r_sync r') | _ => None end.

(* After one instruction: the cumulative count advanced by the charge (3 x the states of the instruction), the bus
   sees the same total, the timer was fed the same amount, and one sync message was sent iff the total passed a
   multiple of 2,000,000 - carrying the new total. *)
Theorem iter_insn_accounting_proof s sync p r' :
  acct s sync -> iter_insn s sync p = Continue r' ->
  let s' := c_cpu (r_ctl r') in
  acct s' (r_sync r') /\
  exists st, 0 <= st < 256 /\ ssum s' = ssum s + 3 * st /\
    (sync_count (b_msgs (cbus s')) = sync_count (b_msgs (cbus s)) + (if SYNC_INTERVAL <=? sync + 3 * st then 1 else 0)).
Proof.
  intros (Hs & Ht & Hb & Hk) H. unfold iter_insn in H.
  destruct (try_interrupt s) as [[] s1| |] eqn:E1; try discriminate.
  destruct (step s1) as [st s2| |] eqn:E2; try discriminate.
  destruct (try_interrupt_untouched_but_irq _ _ E1) as (A1 & A2 & A3 & A4 & A5).
  pose proof (step_untouched _ _ _ E2) as U. unfold untouched in U. inversion U as [[U1 U2 U3 U4 U5 U6 U7]].
  pose proof (step_charge_range _ _ _ E2) as Rst.
  set (state := st * 3) in *. set (total := ssum s2 + state) in *.
  set (s3 := set_bus (bset_sum total (cbus s2)) (set_ssum total s2)) in *.
  assert (Hsock3 : sock s3 = true) by (subst s3; cbn; congruence).
  rewrite Hsock3 in H.
  unfold SYNC_INTERVAL in *.
  destruct (2000000 <=? sync + state) eqn:Ecmp.
  - set (s4 := set_bus (bset_msgs (b_msgs (cbus s3) ++ [MsgSync total]) (cbus s3)) s3) in *.
    destruct (update_timer_acct state s4) as (T1 & T2 & T3 & T4 & T5 & T6).
    destruct (pc (update_timer state s4) =? exit_addr (update_timer state s4)); [discriminate|].
    inversion H; subst r'. cbn [c_cpu r_ctl r_sync].
    assert (Hcnt : sync_count (b_msgs (cbus (update_timer state s4))) = sync_count (b_msgs (cbus s)) + 1).
    { rewrite T5. subst s4 s3. cbn [cbus set_bus b_msgs bset_msgs bset_sum set_ssum]. rewrite sync_count_app. cbn [sync_count]. lia. }
    assert (Hsum : ssum (update_timer state s4) = ssum s + state).
    { rewrite T1. subst s4 s3 total. cbn [ssum set_bus set_ssum]. lia. }
    split.
    + unfold acct. rewrite Hcnt, Hsum, T3, T4. subst s4 s3 total. cbn [cbus set_bus b_sum bset_msgs bset_sum ssum set_ssum sock].
      repeat split; unfold SYNC_INTERVAL in *; subst state; try lia; try congruence.
    + exists st. replace (3 * st) with state by (subst state; lia). rewrite Ecmp. repeat split; try lia; assumption.
  - destruct (update_timer_acct state s3) as (T1 & T2 & T3 & T4 & T5 & T6).
    destruct (pc (update_timer state s3) =? exit_addr (update_timer state s3)); [discriminate|].
    inversion H; subst r'. cbn [c_cpu r_ctl r_sync].
    assert (Hcnt : sync_count (b_msgs (cbus (update_timer state s3))) = sync_count (b_msgs (cbus s))).
    { rewrite T5. subst s3. cbn [cbus set_bus b_msgs bset_sum set_ssum]. lia. }
    assert (Hsum : ssum (update_timer state s3) = ssum s + state).
    { rewrite T1. subst s3 total. cbn [ssum set_bus set_ssum]. lia. }
    split.
    + unfold acct. rewrite Hcnt, Hsum, T3, T4. subst s3 total. cbn [cbus set_bus b_sum bset_sum ssum set_ssum sock].
      repeat split; unfold SYNC_INTERVAL in *; subst state; try lia; try congruence.
    + exists st. replace (3 * st) with state by (subst state; lia). rewrite Ecmp. repeat split; try lia.
Qed.

(* the loop ends exactly when PC reaches the exit address after an instruction, or on the first failing instruction *)
Theorem iter_insn_finished_proof s sync p s' : iter_insn s sync p = Finished s' -> pc s' = exit_addr s'.
Proof.
  unfold iter_insn. destruct (try_interrupt s) as [[] s1| |]; try discriminate.
  destruct (step s1) as [st s2| |]; try discriminate.
  destruct (sock _); destruct (SYNC_INTERVAL <=? _);
    match goal with |- context [update_timer ?a ?b] => destruct (Z.eqb_spec (pc (update_timer a b)) (exit_addr (update_timer a b))) as [E|E] end;
    intros H; inversion H; subst; exact E.
Qed.
Theorem iter_insn_failed_proof s sync p s' :
  iter_insn s sync p = Failed s' -> try_interrupt s = Err \/ exists s1, try_interrupt s = Ok tt s1 /\ step s1 = Err.
Proof.
  unfold iter_insn. destruct (try_interrupt s) as [[] s1| |]; try discriminate; [|auto].
  destruct (step s1) as [st s2| |] eqn:E; try discriminate.
  - destruct (sock _); destruct (SYNC_INTERVAL <=? _);
      match goal with |- context [update_timer ?a ?b] => destruct (pc (update_timer a b) =? exit_addr (update_timer a b)) end;
      intros H; discriminate H.
  - intros _. right. exists s1. auto.
Qed.

Theorem sync_once_per_multiple_proof :
  forall s sync, acct s sync -> sync_count (b_msgs (cbus s)) = ssum s / SYNC_INTERVAL /\ sync = ssum s mod SYNC_INTERVAL.
Proof.
  intros s sync (H1 & H2 & _). unfold SYNC_INTERVAL in *. split.
  - rewrite H2. rewrite Z.mul_comm, Z.div_add_l by discriminate. rewrite Z.div_small; lia.
  - rewrite H2. rewrite Z.mul_comm, Z.add_comm, Z.mod_add by discriminate. rewrite Z.mod_small; lia.
Qed.
