(* MOV.L @(d:24,ERn) behind 0100 78r0 (ten bytes): handler theorems including the fetch of the third word and of the
   displacement field, and their composition into statements about [step]. *)
From Coq Require Import Bool ZArith Lia ZifyBool List.
From K Require Import Lib.Bits Lib.Types Model.Machine Model.Bus Model.Cost Model.Addressing Model.Alu Model.Exec Spec.ISA
  Proofs.RegProofs Proofs.MemProofs Proofs.FlagProofs Proofs.AluProofs Proofs.EaProofs Proofs.StepProofs Proofs.DecodeProofs
  Proofs.CtlProofs Proofs.MovProofs Proofs.MovExtProofs Proofs.TwoByte Proofs.FourByte Proofs.StepRefines Proofs.StepRefinesCtl
  Proofs.StepRefines2 Proofs.StepRefines4 Proofs.StepRefines6 Proofs.StepRefinesL Proofs.StepRefinesMov4 Proofs.StepRefinesMov6 Proofs.StepRefinesMovL.
Import ListNotations.
Open Scope bool_scope. Open Scope Z_scope.
Ltac Zify.zify_post_hook ::= Z.div_mod_to_equations.

(* s: the state in which the third word w3 is the next word to be fetched *)
Theorem movl_disp24_load_proof op op2 w3 h l s :
  let s1 := post_fetch3 s in
  cpu_ok s -> bus_bytes_ok s -> pc s mod 2 = 0 -> 0 <= pc s -> pc s + 6 < 4294967296 ->
  mem_read SW s (pc s) = Some w3 -> mem_read SW s (pc s + 2) = Some h -> mem_read SW s (pc s + 4) = Some l -> 0 <= h < 256 ->
  Z.land op2 0x80 = 0 -> 0 <= nib op2 3 < 8 -> 0 <= nib w3 4 < 8 ->
  let a := ea_addr SL s (EDisp (nib op2 3) (sx 24 (h * 65536 + l))) in
  run_tag (TMovDisp24 SL) op op2 0 s =
  then_charge (option_map (fun v => with_ccr (mov_ccr SL v (ccr s)) (set_reg SL s1 (nib w3 4) v)) (mem_read SL s a)) (mov_charge SL a 5 0).
Proof.
  intros s1 Hok Hb Hev H0 H1 Hw3 Hh Hl Rh Hld Hr Hf a.
  pose proof (word_range s _ _ Hb Hl) as Rl.
  cbn [run_tag]. unfold bind at 1. rewrite (fetch_word s w3) by (try assumption; lia). fold (post_fetch s).
  unfold bind at 1. rewrite (fetch_imm32 s h l) by assumption. fold s1.
  rewrite Hld. cbn [Z.eqb]. unfold bind at 1. rewrite ea_disp24 by lia.
  rewrite mov_mem_load_proof by (first [exact Hok | exact Hb | cbn [field_ok]; lia]).
  reflexivity.
Qed.

Theorem movl_disp24_store_proof op op2 w3 h l s :
  let s1 := post_fetch3 s in
  cpu_ok s -> bus_bytes_ok s -> pc s mod 2 = 0 -> 0 <= pc s -> pc s + 6 < 4294967296 ->
  mem_read SW s (pc s) = Some w3 -> mem_read SW s (pc s + 2) = Some h -> mem_read SW s (pc s + 4) = Some l -> 0 <= h < 256 ->
  Z.land op2 0x80 <> 0 -> 0 <= nib w3 4 < 8 ->
  let a := ea_addr SL s (EDisp (Z.land (nib op2 3) 7) (sx 24 (h * 65536 + l))) in
  run_tag (TMovDisp24 SL) op op2 0 s =
  then_charge (option_map (fun s2 => with_ccr (mov_ccr SL (reg SL s (nib w3 4)) (ccr s)) s2) (mem_write SL s1 a (reg SL s (nib w3 4)))) (mov_charge SL a 5 0).
Proof.
  intros s1 Hok Hb Hev H0 H1 Hw3 Hh Hl Rh Hld Hf a.
  pose proof (word_range s _ _ Hb Hl) as Rl.
  assert (R7 : 0 <= Z.land (nib op2 3) 7 < 8) by (change 7 with (2^3 - 1); rewrite land_ones_mod by lia; change (2^3) with 8; lia).
  cbn [run_tag]. unfold bind at 1. rewrite (fetch_word s w3) by (try assumption; lia). fold (post_fetch s).
  unfold bind at 1. rewrite (fetch_imm32 s h l) by assumption. fold s1.
  replace (Z.land op2 0x80 =? 0) with false by lia. unfold bind at 1. rewrite ea_disp24 by lia.
  rewrite mov_mem_store_proof by (first [exact Hok | cbn [field_ok]; lia]).
  reflexivity.
Qed.

(* ---- the operation-code map for the ten-byte forms ---- *)
Lemma movl10_load_shape w1 w2 w3 w4 r d rd :
  0 <= w3 < 65536 ->
  decode_ref 0x0100 w1 w2 w3 w4 = Some (IMovLoad SL (EDisp r d) rd, 10) ->
  decode_ref 0x0100 w1 0x6b20 0 0 = Some (IMovLoad SL (EDisp r (sx 24 (lob 0 * 65536 + 0))) (n4 0x6b20), 10) /\
  d = sx 24 (w3 * 65536 + w4) /\ 0 <= w3 < 256 /\ rd = n4 w2 /\ 0 <= rd < 8.
Proof.
  intros Hw3. unfold decode_ref, dec_mov_mem, dec_unary, dec_imm_group, dec_bit_mem, req, ok; cbv zeta;
    change (hib 0x0100) with 1; change (lob 0x0100) with 0; cbn [Z.eqb Pos.eqb].
  split_ifs; intros H; try discriminate H; try (exfalso; clear -H; inversion H; fail).
  all: inversion H; subst; clear H.
  all: try (exfalso; unfold hib, lob, n3, n4, er_lo in *; lia).
  all: split; [reflexivity|]; unfold hib, lob, n3, n4, er_lo in *;
       (assert (Hl : w3 mod 256 = w3) by lia); rewrite Hl; split; [reflexivity|]; lia.
Qed.

Lemma movl10_store_shape w1 w2 w3 w4 rs r d :
  0 <= w3 < 65536 ->
  decode_ref 0x0100 w1 w2 w3 w4 = Some (IMovStore SL rs (EDisp r d), 10) ->
  decode_ref 0x0100 w1 0x6ba0 0 0 = Some (IMovStore SL (n4 0x6ba0) (EDisp r (sx 24 (lob 0 * 65536 + 0))), 10) /\
  d = sx 24 (w3 * 65536 + w4) /\ 0 <= w3 < 256 /\ rs = n4 w2 /\ 0 <= rs < 8.
Proof.
  intros Hw3. unfold decode_ref, dec_mov_mem, dec_unary, dec_imm_group, dec_bit_mem, req, ok; cbv zeta;
    change (hib 0x0100) with 1; change (lob 0x0100) with 0; cbn [Z.eqb Pos.eqb].
  split_ifs; intros H; try discriminate H; try (exfalso; clear -H; inversion H; fail).
  all: inversion H; subst; clear H.
  all: try (exfalso; unfold hib, lob, n3, n4, er_lo in *; lia).
  all: split; [reflexivity|]; unfold hib, lob, n3, n4, er_lo in *;
       (assert (Hl : w3 mod 256 = w3) by lia); rewrite Hl; split; [reflexivity|]; lia.
Qed.

Definition is_movl10 (t : tag) : bool := match t with TMovDisp24 SL => true | _ => false end.
Definition movl10_tag_ok (w1 : Z) : bool :=
  match decode_ref 0x0100 w1 0x6b20 0 0 with Some (_, len) => if len =? 10 then is_movl10 (select_movl w1) else true | None => true end
  && match decode_ref 0x0100 w1 0x6ba0 0 0 with Some (_, len) => if len =? 10 then is_movl10 (select_movl w1) else true | None => true end.
Lemma movl10_tag_sweep : forallb movl10_tag_ok (zrange 65536) = true.
Proof. vm_compute. reflexivity. Qed.

Lemma movl10_load_agree w1 i : 0 <= w1 < 65536 -> decode_ref 0x0100 w1 0x6b20 0 0 = Some (i, 10) ->
  select_movl w1 = TMovDisp24 SL /\ agree (TMovDisp24 SL) 0x0100 w1 i = true.
Proof.
  intros Hw Hd. pose proof (forallb_zrange _ 65536 movl10_tag_sweep w1 Hw) as H. unfold movl10_tag_ok in H. rewrite Hd in H.
  apply andb_true_iff in H. destruct H as [H _]. cbn [Z.eqb Pos.eqb] in H.
  destruct movl_sweep as (_ & S & _). pose proof (forallb_zrange _ 65536 S w1 Hw) as A. unfold agree2 in A. rewrite Hd in A.
  destruct (select_movl w1); try discriminate H. destruct s; try discriminate H. split; [reflexivity|exact A].
Qed.
Lemma movl10_store_agree w1 i : 0 <= w1 < 65536 -> decode_ref 0x0100 w1 0x6ba0 0 0 = Some (i, 10) ->
  select_movl w1 = TMovDisp24 SL /\ agree (TMovDisp24 SL) 0x0100 w1 i = true.
Proof.
  intros Hw Hd. pose proof (forallb_zrange _ 65536 movl10_tag_sweep w1 Hw) as H. unfold movl10_tag_ok in H. rewrite Hd in H.
  apply andb_true_iff in H. destruct H as [_ H]. cbn [Z.eqb Pos.eqb] in H.
  destruct movl_sweep as (S & _ & _). pose proof (forallb_zrange _ 65536 S w1 Hw) as A. unfold agree2 in A. rewrite Hd in A.
  destruct (select_movl w1); try discriminate H. destruct s; try discriminate H. split; [reflexivity|exact A].
Qed.

Lemma nib4_n4 w : 0 <= w -> nib w 4 = n4 w.
Proof.
  intros H. unfold nib, n4. change (4 * (4 - 4)) with 0. rewrite Z.shiftr_0_r.
  change 0xf with (2^4 - 1). rewrite land_ones_mod by lia. reflexivity.
Qed.

Definition post_fetch5 (s : cpu) : cpu := set_pc (pc s + 10) (set_opc (pc s + 8) s).
Lemma post_fetch3_pf2 s : post_fetch3 (post_fetch2 s) = post_fetch5 s.
Proof.
  unfold post_fetch3, post_fetch2, post_fetch5. cbn [pc set_pc set_opc].
  replace (pc s + 4 + 6) with (pc s + 10) by lia. replace (pc s + 4 + 4) with (pc s + 8) by lia. reflexivity.
Qed.

(* ---- MOV.L @(d:24,ERs),ERd ---- *)
Theorem step_movl_load_disp24_proof s w1 w2 h l r disp rd n s' :
  cpu_ok s -> bus_bytes_ok s -> fault s = false -> pc s mod 2 = 0 -> 0 <= pc s -> pc s + 10 < 4294967296 ->
  mem_read SW s (pc s) = Some 0x0100 -> mem_read SW s (pc s + 2) = Some w1 -> mem_read SW s (pc s + 4) = Some w2 ->
  mem_read SW s (pc s + 6) = Some h -> mem_read SW s (pc s + 8) = Some l ->
  decode_ref 0x0100 w1 w2 h l = Some (IMovLoad SL (EDisp r disp) rd, 10) ->
  sem_ref (IMovLoad SL (EDisp r disp) rd) 10 s = Some s' ->
  mov_charge SL (ea_addr SL s (EDisp r disp)) 5 0 (set_opc (pc s + 8) s') = Ok n (set_opc (pc s + 8) s') ->
  step s = Ok n (set_opc (pc s + 8) s').
Proof.
  intros Hok Hb Hf Hev H0 H1 Hw Hw1 Hw2 Hh Hl Hdec Hsem Hcs.
  pose proof (word_range s _ _ Hb Hw1) as Rw1. pose proof (word_range s _ _ Hb Hw2) as Rw2.
  pose proof (word_range s _ _ Hb Hh) as Rh. pose proof (word_range s _ _ Hb Hl) as Rl.
  destruct (movl10_load_shape _ _ _ _ _ _ _ Rh Hdec) as (Hd0 & Ei & Rh8 & Ed & Rrd).
  destruct (movl10_load_agree w1 _ Rw1 Hd0) as (Es & Hag).
  rewrite (step_prefix_movl s w1) by (try assumption; lia). rewrite Es.
  cbn [agree] in Hag. repeat (apply andb_true_iff in Hag; destruct Hag as [Hag ?]).
  assert (Hld : Z.land w1 0x80 = 0) by lia. assert (Er : r = nib w1 3) by lia. pose proof (nib_range w1 3) as R3.
  pose proof (movl_disp24_load_proof 0x0100 w1 w2 h l (post_fetch2 s)) as Hx. cbv zeta in Hx.
  rewrite (nib4_n4 w2) in Hx by lia. rewrite <- Ed, <- Er in Hx.
  rewrite Hx; [|exact Hok|exact Hb| | | |exact Hw2| | |exact Rh8|exact Hld|lia|lia];
    [|unfold post_fetch2; cbn [pc set_pc]; try lia..].
  2:{ replace (pc s + 4 + 2) with (pc s + 6) by lia. exact Hh. }
  2:{ replace (pc s + 4 + 4) with (pc s + 8) by lia. exact Hl. }
  clear Hx. rewrite post_fetch3_pf2.
  cbn [sem_ref ea_update] in Hsem. rewrite <- Ei.
  change (mem_read SL (post_fetch2 s) (ea_addr SL (post_fetch2 s) (EDisp r disp))) with (mem_read SL s (ea_addr SL s (EDisp r disp))).
  change (ea_addr SL (post_fetch2 s) (EDisp r disp)) with (ea_addr SL s (EDisp r disp)).
  destruct (mem_read SL s (ea_addr SL s (EDisp r disp))) as [v|]; cbn [ISA.obind] in Hsem; [|discriminate Hsem].
  (apply (f_equal (fun o => match o with Some x => x | None => s' end)) in Hsem; cbv beta iota in Hsem; subst s').
  cbn [option_map then_charge]. unfold post_fetch5. rewrite set_reg_set_pc_opc. change (ccr (post_fetch2 s)) with (ccr s). unfold mov_ccr.
  change (with_ccr (set_flag fV false (set_nz (bits_of SL) v (ccr s))) (set_pc (pc s + 10) (set_opc (pc s + 8) (set_reg SL s rd v))))
    with (set_opc (pc s + 8) (with_pc (pc s + 10) (with_ccr (set_flag fV false (set_nz (bits_of SL) v (ccr s))) (set_reg SL s rd v)))).
  rewrite Hcs. unfold finish, with_pc, with_ccr. cbn [fault set_opc set_pc set_ccr]. rewrite fault_set_reg, Hf. reflexivity.
Qed.

(* ---- MOV.L ERs,@(d:24,ERd) ---- *)
Theorem step_movl_store_disp24_proof s w1 w2 h l rs r disp n s' :
  cpu_ok s -> bus_bytes_ok s -> fault s = false -> pc s mod 2 = 0 -> 0 <= pc s -> pc s + 10 < 4294967296 ->
  mem_read SW s (pc s) = Some 0x0100 -> mem_read SW s (pc s + 2) = Some w1 -> mem_read SW s (pc s + 4) = Some w2 ->
  mem_read SW s (pc s + 6) = Some h -> mem_read SW s (pc s + 8) = Some l ->
  decode_ref 0x0100 w1 w2 h l = Some (IMovStore SL rs (EDisp r disp), 10) ->
  sem_ref (IMovStore SL rs (EDisp r disp)) 10 s = Some s' ->
  mov_charge SL (ea_addr SL s (EDisp r disp)) 5 0 (set_opc (pc s + 8) s') = Ok n (set_opc (pc s + 8) s') ->
  step s = Ok n (set_opc (pc s + 8) s').
Proof.
  intros Hok Hb Hf Hev H0 H1 Hw Hw1 Hw2 Hh Hl Hdec Hsem Hcs.
  pose proof (word_range s _ _ Hb Hw1) as Rw1. pose proof (word_range s _ _ Hb Hw2) as Rw2.
  pose proof (word_range s _ _ Hb Hh) as Rh. pose proof (word_range s _ _ Hb Hl) as Rl.
  destruct (movl10_store_shape _ _ _ _ _ _ _ Rh Hdec) as (Hd0 & Ei & Rh8 & Ed & Rrd).
  destruct (movl10_store_agree w1 _ Rw1 Hd0) as (Es & Hag).
  rewrite (step_prefix_movl s w1) by (try assumption; lia). rewrite Es.
  cbn [agree] in Hag. repeat (apply andb_true_iff in Hag; destruct Hag as [Hag ?]).
  assert (Hld : Z.land w1 0x80 <> 0) by lia. assert (Er : r = Z.land (nib w1 3) 7) by lia.
  pose proof (movl_disp24_store_proof 0x0100 w1 w2 h l (post_fetch2 s)) as Hx. cbv zeta in Hx.
  rewrite (nib4_n4 w2) in Hx by lia. rewrite <- Ed, <- Er in Hx.
  rewrite Hx; [|exact Hok|exact Hb| | | |exact Hw2| | |exact Rh8|exact Hld|lia];
    [|unfold post_fetch2; cbn [pc set_pc]; try lia..].
  2:{ replace (pc s + 4 + 2) with (pc s + 6) by lia. exact Hh. }
  2:{ replace (pc s + 4 + 4) with (pc s + 8) by lia. exact Hl. }
  clear Hx. rewrite post_fetch3_pf2.
  cbn [sem_ref ea_update] in Hsem. rewrite <- Ei.
  change (reg SL (post_fetch2 s) rs) with (reg SL s rs).
  change (ea_addr SL (post_fetch2 s) (EDisp r disp)) with (ea_addr SL s (EDisp r disp)).
  unfold post_fetch5. rewrite mem_write_pf.
  destruct (mem_write SL s (ea_addr SL s (EDisp r disp)) (reg SL s rs)) as [s2|] eqn:E; cbn [ISA.obind] in Hsem; [|discriminate Hsem].
  (apply (f_equal (fun o => match o with Some x => x | None => s' end)) in Hsem; cbv beta iota in Hsem; subst s').
  cbn [option_map then_charge]. change (ccr (post_fetch2 s)) with (ccr s). unfold mov_ccr.
  change (with_ccr (set_flag fV false (set_nz (bits_of SL) (reg SL s rs) (ccr s))) (set_pc (pc s + 10) (set_opc (pc s + 8) s2)))
    with (set_opc (pc s + 8) (with_pc (pc s + 10) (with_ccr (set_flag fV false (set_nz (bits_of SL) (reg SL s rs) (ccr s))) s2))).
  rewrite Hcs. unfold finish, with_pc, with_ccr. cbn [fault set_opc set_pc set_ccr].
  rewrite (mem_write_fault _ _ _ _ _ E), Hf. reflexivity.
Qed.
