(* From the instruction words in memory to the reference semantics: the long-word forms behind the 0100 prefix
   (MOV.L @ERs,ERd / ERs,@ERd, POP.L = MOV.L @ERs+,ERd, PUSH.L = MOV.L ERs,@-ERd) and the 01F0 prefix (AND/OR/XOR.L). *)
From Coq Require Import Bool ZArith Lia ZifyBool List.
From K Require Import Lib.Bits Lib.Types Model.Machine Model.Bus Model.Cost Model.Addressing Model.Alu Model.Exec Spec.ISA
  Proofs.RegProofs Proofs.MemProofs Proofs.FlagProofs Proofs.AluProofs Proofs.EaProofs Proofs.StepProofs Proofs.DecodeProofs
  Proofs.CtlProofs Proofs.MovProofs Proofs.TwoByte Proofs.StepRefines Proofs.StepRefinesCtl Proofs.StepRefines2 Proofs.StepRefines4.
Import ListNotations.
Open Scope bool_scope. Open Scope Z_scope.
Ltac Zify.zify_post_hook ::= Z.div_mod_to_equations.

(* the four-byte forms behind 0100 / 01F0 take nothing from the third and later words *)
Lemma prefix_four_byte_independent w0 w1 w2 w3 w4 i :
  w0 = 0x0100 \/ w0 = 0x01f0 ->
  decode_ref w0 w1 w2 w3 w4 = Some (i, 4) -> decode_ref w0 w1 0 0 0 = Some (i, 4).
Proof.
  intros [-> | ->]; unfold decode_ref, dec_mov_mem, dec_unary, dec_imm_group, dec_bit_mem, req, ok; cbv zeta;
    change (hib 0x0100) with 1; change (lob 0x0100) with 0; change (hib 0x01f0) with 1; change (lob 0x01f0) with 0xf0;
    cbn [Z.eqb Pos.eqb];
    split_ifs; intros H; try discriminate H; try exact H; try (exfalso; clear -H; inversion H; fail).
Qed.

Lemma movl_agree w1 i len : 0 <= w1 < 65536 -> decode_ref 0x0100 w1 0 0 0 = Some (i, len) -> agree (select_movl w1) 0x0100 w1 i = true.
Proof.
  intros Hw Hd. destruct movl_sweep as (_ & _ & H). pose proof (forallb_zrange _ 65536 H w1 Hw) as H1.
  unfold agree2 in H1. rewrite Hd in H1. exact H1.
Qed.
Lemma logicl_agree w1 i len : 0 <= w1 < 65536 -> decode_ref 0x01f0 w1 0 0 0 = Some (i, len) -> agree (select_logicl w1) 0x01f0 w1 i = true.
Proof.
  intros Hw Hd. pose proof (forallb_zrange _ 65536 logicl_sweep w1 Hw) as H1.
  unfold agree2 in H1. rewrite Hd in H1. exact H1.
Qed.

(* fetch of the prefix word and of the operation word *)
Lemma step_prefix_movl s w1 :
  bus_bytes_ok s -> pc s mod 2 = 0 -> 0 <= pc s -> pc s + 4 < 4294967296 ->
  mem_read SW s (pc s) = Some 0x0100 -> mem_read SW s (pc s + 2) = Some w1 ->
  step s = finish (run_tag (select_movl w1) 0x0100 w1 0 (post_fetch2 s)).
Proof.
  intros Hb Hev H0 H1 Hw Hw1. unfold step. rewrite (fetch_word s 0x0100) by (try assumption; lia). fold (post_fetch s).
  unfold exec. change (select1 0x0100) with TMovLPrefix. cbv iota.
  unfold bind at 1. rewrite (fetch_word (post_fetch s) w1) by (try assumption; unfold post_fetch; cbn [pc set_pc set_opc]; try lia; exact Hw1).
  unfold post_fetch. cbn [pc set_pc set_opc]. replace (pc s + 2 + 2) with (pc s + 4) by lia. reflexivity.
Qed.
Lemma step_prefix_logicl s w1 :
  bus_bytes_ok s -> pc s mod 2 = 0 -> 0 <= pc s -> pc s + 4 < 4294967296 ->
  mem_read SW s (pc s) = Some 0x01f0 -> mem_read SW s (pc s + 2) = Some w1 ->
  step s = finish (run_tag (select_logicl w1) 0x01f0 w1 0 (post_fetch2 s)).
Proof.
  intros Hb Hev H0 H1 Hw Hw1. unfold step. rewrite (fetch_word s 0x01f0) by (try assumption; lia). fold (post_fetch s).
  unfold exec. change (select1 0x01f0) with TLogicLPrefix. cbv iota.
  unfold bind at 1. rewrite (fetch_word (post_fetch s) w1) by (try assumption; unfold post_fetch; cbn [pc set_pc set_opc]; try lia; exact Hw1).
  unfold post_fetch. cbn [pc set_pc set_opc]. replace (pc s + 2 + 2) with (pc s + 4) by lia. reflexivity.
Qed.

Lemma set_reg_pf2' z s rd r : set_reg z (post_fetch2 s) rd r = set_pc (pc s + 4) (set_opc (pc s + 2) (set_reg z s rd r)).
Proof. unfold post_fetch2. apply set_reg_set_pc_opc. Qed.

(* ---- MOV.L @ERs,ERd ---- *)
Theorem step_movl_load_ern_proof s w1 w2 w3 w4 r rd n s' :
  cpu_ok s -> bus_bytes_ok s -> fault s = false -> pc s mod 2 = 0 -> 0 <= pc s -> pc s + 4 < 4294967296 ->
  mem_read SW s (pc s) = Some 0x0100 -> mem_read SW s (pc s + 2) = Some w1 ->
  decode_ref 0x0100 w1 w2 w3 w4 = Some (IMovLoad SL (EInd r) rd, 4) ->
  sem_ref (IMovLoad SL (EInd r) rd) 4 s = Some s' ->
  mov_charge SL (ea_addr SL s (EInd r)) 2 0 (set_opc (pc s + 2) s') = Ok n (set_opc (pc s + 2) s') ->
  step s = Ok n (set_opc (pc s + 2) s').
Proof.
  intros Hok Hb Hf Hev H0 H1 Hw Hw1 Hd Hsem Hcs.
  pose proof (word_range s _ _ Hb Hw1) as Rw1.
  apply prefix_four_byte_independent in Hd; [|left; reflexivity].
  pose proof (movl_agree w1 _ _ Rw1 Hd) as Hag.
  rewrite (step_prefix_movl s w1) by assumption.
  destruct (select_movl w1) eqn:Es; try (simpl in Hag; discriminate Hag); try (destruct s0; simpl in Hag; discriminate Hag).
  destruct s0; try (simpl in Hag; discriminate Hag).
  cbn [agree] in Hag. repeat (apply andb_true_iff in Hag; destruct Hag as [Hag ?]).
  assert (Hl : Z.land w1 0x80 = 0) by lia. assert (Er : r = nib w1 3) by lia. assert (Ed : rd = nib w1 4) by lia.
  pose proof (nib_range w1 3) as R3. pose proof (nib_range w1 4) as R4.
  pose proof (mov_ern_load_proof SL 0x0100 w1 (post_fetch2 s)) as Hh. cbv zeta in Hh. cbn [opw icnt1] in Hh.
  rewrite Hh; [|exact Hok|exact Hb|exact Hl|lia|cbn [field_ok]; lia]. clear Hh.
  cbn [sem_ref ea_update] in Hsem. rewrite <- Er, <- Ed.
  change (mem_read SL (post_fetch2 s) (ea_addr SL (post_fetch2 s) (EInd r))) with (mem_read SL s (ea_addr SL s (EInd r))).
  change (ea_addr SL (post_fetch2 s) (EInd r)) with (ea_addr SL s (EInd r)).
  destruct (mem_read SL s (ea_addr SL s (EInd r))) as [v|]; cbn [ISA.obind] in Hsem; [|discriminate Hsem].
  (apply (f_equal (fun o => match o with Some x => x | None => s' end)) in Hsem; cbv beta iota in Hsem; subst s').
  cbn [option_map then_charge ea_update]. rewrite set_reg_pf2'. change (ccr (post_fetch2 s)) with (ccr s). unfold mov_ccr.
  change (with_ccr (set_flag fV false (set_nz (bits_of SL) v (ccr s))) (set_pc (pc s + 4) (set_opc (pc s + 2) (set_reg SL s rd v))))
    with (set_opc (pc s + 2) (with_pc (pc s + 4) (with_ccr (set_flag fV false (set_nz (bits_of SL) v (ccr s))) (set_reg SL s rd v)))).
  rewrite Hcs. unfold finish, with_pc, with_ccr. cbn [fault set_opc set_pc set_ccr]. rewrite fault_set_reg, Hf. reflexivity.
Qed.

Lemma mem_write_pf2 z s x v :
  mem_write z (post_fetch2 s) x v = option_map (fun s' => set_pc (pc s + 4) (set_opc (pc s + 2) s')) (mem_write z s x v).
Proof. unfold post_fetch2. apply mem_write_pf. Qed.

(* ---- MOV.L ERs,@ERd ---- *)
Theorem step_movl_store_ern_proof s w1 w2 w3 w4 rs r n s' :
  cpu_ok s -> bus_bytes_ok s -> fault s = false -> pc s mod 2 = 0 -> 0 <= pc s -> pc s + 4 < 4294967296 ->
  mem_read SW s (pc s) = Some 0x0100 -> mem_read SW s (pc s + 2) = Some w1 ->
  decode_ref 0x0100 w1 w2 w3 w4 = Some (IMovStore SL rs (EInd r), 4) ->
  sem_ref (IMovStore SL rs (EInd r)) 4 s = Some s' ->
  mov_charge SL (ea_addr SL s (EInd r)) 2 0 (set_opc (pc s + 2) s') = Ok n (set_opc (pc s + 2) s') ->
  step s = Ok n (set_opc (pc s + 2) s').
Proof.
  intros Hok Hb Hf Hev H0 H1 Hw Hw1 Hd Hsem Hcs.
  pose proof (word_range s _ _ Hb Hw1) as Rw1.
  apply prefix_four_byte_independent in Hd; [|left; reflexivity].
  pose proof (movl_agree w1 _ _ Rw1 Hd) as Hag.
  rewrite (step_prefix_movl s w1) by assumption.
  destruct (select_movl w1) eqn:Es; try (simpl in Hag; discriminate Hag); try (destruct s0; simpl in Hag; discriminate Hag).
  destruct s0; try (simpl in Hag; discriminate Hag).
  cbn [agree] in Hag. repeat (apply andb_true_iff in Hag; destruct Hag as [Hag ?]).
  assert (Hl : Z.land w1 0x80 <> 0) by lia. assert (Er : r = Z.land (nib w1 3) 7) by lia. assert (Ed : rs = nib w1 4) by lia.
  pose proof (nib_range w1 4) as R4.
  pose proof (mov_ern_store_proof SL 0x0100 w1 (post_fetch2 s)) as Hh. cbv zeta in Hh. cbn [opw icnt1] in Hh.
  rewrite Hh; [|exact Hok|exact Hl|cbn [field_ok]; lia]. clear Hh.
  cbn [sem_ref ea_update] in Hsem. rewrite <- Er, <- Ed.
  change (reg SL (post_fetch2 s) rs) with (reg SL s rs).
  change (ea_addr SL (post_fetch2 s) (EInd r)) with (ea_addr SL s (EInd r)).
  rewrite mem_write_pf2.
  destruct (mem_write SL s (ea_addr SL s (EInd r)) (reg SL s rs)) as [s2|] eqn:E; cbn [ISA.obind] in Hsem; [|discriminate Hsem].
  (apply (f_equal (fun o => match o with Some x => x | None => s' end)) in Hsem; cbv beta iota in Hsem; subst s').
  cbn [option_map then_charge]. change (ccr (post_fetch2 s)) with (ccr s). unfold mov_ccr.
  change (with_ccr (set_flag fV false (set_nz (bits_of SL) (reg SL s rs) (ccr s))) (set_pc (pc s + 4) (set_opc (pc s + 2) s2)))
    with (set_opc (pc s + 2) (with_pc (pc s + 4) (with_ccr (set_flag fV false (set_nz (bits_of SL) (reg SL s rs) (ccr s))) s2))).
  rewrite Hcs. unfold finish, with_pc, with_ccr. cbn [fault set_opc set_pc set_ccr].
  rewrite (mem_write_fault _ _ _ _ _ E), Hf. reflexivity.
Qed.

(* ---- POP.L ERd = MOV.L @ERs+,ERd ---- *)
Theorem step_pop_l_proof s w1 w2 w3 w4 r rd n s' :
  cpu_ok s -> bus_bytes_ok s -> fault s = false -> pc s mod 2 = 0 -> 0 <= pc s -> pc s + 4 < 4294967296 ->
  mem_read SW s (pc s) = Some 0x0100 -> mem_read SW s (pc s + 2) = Some w1 ->
  decode_ref 0x0100 w1 w2 w3 w4 = Some (IMovLoad SL (EPostInc r) rd, 4) ->
  sem_ref (IMovLoad SL (EPostInc r) rd) 4 s = Some s' ->
  incdec_charge SL (ea_addr SL s (EPostInc r)) (set_opc (pc s + 2) s') = Ok n (set_opc (pc s + 2) s') ->
  step s = Ok n (set_opc (pc s + 2) s').
Proof.
  intros Hok Hb Hf Hev H0 H1 Hw Hw1 Hd Hsem Hcs.
  pose proof (word_range s _ _ Hb Hw1) as Rw1.
  apply prefix_four_byte_independent in Hd; [|left; reflexivity].
  pose proof (movl_agree w1 _ _ Rw1 Hd) as Hag.
  rewrite (step_prefix_movl s w1) by assumption.
  destruct (select_movl w1) eqn:Es; try (simpl in Hag; discriminate Hag); try (destruct s0; simpl in Hag; discriminate Hag).
  destruct s0; try (simpl in Hag; discriminate Hag).
  cbn [agree] in Hag. repeat (apply andb_true_iff in Hag; destruct Hag as [Hag ?]).
  assert (Hl : Z.land w1 0x80 = 0) by lia. assert (Er : r = nib w1 3) by lia. assert (Ed : rd = nib w1 4) by lia.
  pose proof (nib_range w1 3) as R3. pose proof (nib_range w1 4) as R4.
  pose proof (mov_postinc_proof SL 0x0100 w1 (post_fetch2 s)) as Hh. cbv zeta in Hh. cbn [opw] in Hh.
  rewrite Hh; [|exact Hok|exact Hb|exact Hl|lia|cbn [field_ok]; lia]. clear Hh.
  cbn [sem_ref] in Hsem. rewrite <- Er, <- Ed.
  change (mem_read SL (post_fetch2 s) (ea_addr SL (post_fetch2 s) (EPostInc r))) with (mem_read SL s (ea_addr SL s (EPostInc r))).
  change (ea_addr SL (post_fetch2 s) (EPostInc r)) with (ea_addr SL s (EPostInc r)).
  destruct (mem_read SL s (ea_addr SL s (EPostInc r))) as [v|]; cbn [ISA.obind] in Hsem; [|discriminate Hsem].
  (apply (f_equal (fun o => match o with Some x => x | None => s' end)) in Hsem; cbv beta iota in Hsem; subst s').
  cbn [option_map then_charge].
  change (ea_update SL (post_fetch2 s) (EPostInc r)) with (post_fetch2 (ea_update SL s (EPostInc r))).
  rewrite set_reg_pf2'. change (ccr (post_fetch2 s)) with (ccr s). unfold mov_ccr.
  change (pc (ea_update SL s (EPostInc r))) with (pc s).
  change (with_ccr (set_flag fV false (set_nz (bits_of SL) v (ccr s))) (set_pc (pc s + 4) (set_opc (pc s + 2) (set_reg SL (ea_update SL s (EPostInc r)) rd v))))
    with (set_opc (pc s + 2) (with_pc (pc s + 4) (with_ccr (set_flag fV false (set_nz (bits_of SL) v (ccr s))) (set_reg SL (ea_update SL s (EPostInc r)) rd v)))).
  rewrite Hcs. unfold finish, with_pc, with_ccr. cbn [fault set_opc set_pc set_ccr]. rewrite fault_set_reg.
  unfold ea_update, set_reg32. cbn [fault set_regs]. rewrite Hf. reflexivity.
Qed.

(* ---- PUSH.L ERs = MOV.L ERs,@-ERd ---- *)
Theorem step_push_l_proof s w1 w2 w3 w4 rs r n s' :
  cpu_ok s -> bus_bytes_ok s -> fault s = false -> pc s mod 2 = 0 -> 0 <= pc s -> pc s + 4 < 4294967296 ->
  mem_read SW s (pc s) = Some 0x0100 -> mem_read SW s (pc s + 2) = Some w1 ->
  decode_ref 0x0100 w1 w2 w3 w4 = Some (IMovStore SL rs (EPreDec r), 4) ->
  sem_ref (IMovStore SL rs (EPreDec r)) 4 s = Some s' ->
  incdec_charge SL (ea_addr SL s (EPreDec r)) (set_opc (pc s + 2) s') = Ok n (set_opc (pc s + 2) s') ->
  step s = Ok n (set_opc (pc s + 2) s').
Proof.
  intros Hok Hb Hf Hev H0 H1 Hw Hw1 Hd Hsem Hcs.
  pose proof (word_range s _ _ Hb Hw1) as Rw1.
  apply prefix_four_byte_independent in Hd; [|left; reflexivity].
  pose proof (movl_agree w1 _ _ Rw1 Hd) as Hag.
  rewrite (step_prefix_movl s w1) by assumption.
  destruct (select_movl w1) eqn:Es; try (simpl in Hag; discriminate Hag); try (destruct s0; simpl in Hag; discriminate Hag).
  destruct s0; try (simpl in Hag; discriminate Hag).
  cbn [agree] in Hag. repeat (apply andb_true_iff in Hag; destruct Hag as [Hag ?]).
  assert (Hl : Z.land w1 0x80 <> 0) by lia. assert (Er : r = Z.land (nib w1 3) 7) by lia. assert (Ed : rs = nib w1 4) by lia.
  pose proof (nib_range w1 4) as R4.
  pose proof (mov_predec_proof SL 0x0100 w1 (post_fetch2 s)) as Hh. cbv zeta in Hh. cbn [opw] in Hh.
  rewrite Hh; [|exact Hok|exact Hl|cbn [field_ok]; lia]. clear Hh.
  cbn [sem_ref] in Hsem. rewrite <- Er, <- Ed.
  change (reg SL (post_fetch2 s) rs) with (reg SL s rs).
  change (ea_addr SL (post_fetch2 s) (EPreDec r)) with (ea_addr SL s (EPreDec r)).
  change (ea_update SL (post_fetch2 s) (EPreDec r)) with (post_fetch2 (ea_update SL s (EPreDec r))).
  rewrite mem_write_pf2. change (pc (ea_update SL s (EPreDec r))) with (pc s).
  destruct (mem_write SL (ea_update SL s (EPreDec r)) (ea_addr SL s (EPreDec r)) (reg SL s rs)) as [s2|] eqn:E; cbn [ISA.obind] in Hsem; [|discriminate Hsem].
  (apply (f_equal (fun o => match o with Some x => x | None => s' end)) in Hsem; cbv beta iota in Hsem; subst s').
  cbn [option_map then_charge]. change (ccr (post_fetch2 s)) with (ccr s). unfold mov_ccr.
  change (with_ccr (set_flag fV false (set_nz (bits_of SL) (reg SL s rs) (ccr s))) (set_pc (pc s + 4) (set_opc (pc s + 2) s2)))
    with (set_opc (pc s + 2) (with_pc (pc s + 4) (with_ccr (set_flag fV false (set_nz (bits_of SL) (reg SL s rs) (ccr s))) s2))).
  rewrite Hcs. unfold finish, with_pc, with_ccr. cbn [fault set_opc set_pc set_ccr].
  rewrite (mem_write_fault _ _ _ _ _ E). unfold ea_update, set_reg32. cbn [fault set_regs]. rewrite Hf. reflexivity.
Qed.

(* ---- AND.L / OR.L / XOR.L ERs,ERd ---- *)
Theorem step_logic_l_proof s w1 w2 w3 w4 o rs rd n :
  cpu_ok s -> bus_bytes_ok s -> fault s = false -> pc s mod 2 = 0 -> 0 <= pc s -> pc s + 4 < 4294967296 ->
  mem_read SW s (pc s) = Some 0x01f0 -> mem_read SW s (pc s + 2) = Some w1 ->
  decode_ref 0x01f0 w1 w2 w3 w4 = Some (IAlu2R o SL rs rd, 4) ->
  cs KI 2 (post_fetch2 s) = Ok n (post_fetch2 s) ->
  exists s', sem_ref (IAlu2R o SL rs rd) 4 s = Some s' /\ step s = Ok n (set_opc (pc s + 2) s').
Proof.
  intros [Hr Hc] Hb Hf Hev H0 H1 Hw Hw1 Hd Hcs.
  pose proof (word_range s _ _ Hb Hw1) as Rw1.
  apply prefix_four_byte_independent in Hd; [|right; reflexivity].
  pose proof (logicl_agree w1 _ _ Rw1 Hd) as Hag.
  rewrite (step_prefix_logicl s w1) by assumption.
  assert (Hsel : select_logicl w1 = TUnimpl \/ exists o', select_logicl w1 = TLogicL o' /\ (o' = AOr \/ o' = AXor \/ o' = AAnd)).
  { unfold select_logicl. repeat match goal with |- context [if ?c then _ else _] => destruct c end;
      try (left; reflexivity); right; eexists; (split; [reflexivity|auto]). }
  destruct Hsel as [Es | [o' [Es Ho']]]; rewrite Es in *; [simpl in Hag; discriminate Hag|].
  cbn [agree] in Hag. repeat (apply andb_true_iff in Hag; destruct Hag as [Hag ?]).
  apply alu2_eqb_eq in Hag. subst o'.
  assert (Es1 : rs = nib w1 3) by lia. assert (Ed : rd = nib w1 4) by lia.
  assert (Ho : o <> AAddx) by (destruct Ho' as [-> | [-> | ->]]; discriminate). pose proof (nib_range w1 3) as R3. pose proof (nib_range w1 4) as R4.
  cbn [run_tag]. rewrite <- Es1, <- Ed.
  unfold bind at 1. rewrite read_rn_l_spec by lia. unfold bind at 1. rewrite read_rn_l_spec by lia. unfold bind at 1. unfold get_ccr.
  change (reg32 (post_fetch2 s) rd) with (reg32 s rd). change (reg32 (post_fetch2 s) rs) with (reg32 s rs). change (ccr (post_fetch2 s)) with (ccr s).
  pose proof (Hr rd) as Ra. pose proof (Hr rs) as Rb. unfold word32 in Ra, Rb. fold (reg32 s rd) in Ra. fold (reg32 s rs) in Rb.
  rewrite alu2_fun_spec; try assumption; try (right; right; reflexivity); try (change (2^32) with 4294967296; lia).
  2:{ intros E. contradiction. }
  cbn [sem_ref bits_of reg set_reg].
  destruct (alu2_ref o 32 (reg32 s rd) (reg32 s rs) (ccr s)) as [r c].
  eexists. split; [reflexivity|].
  unfold bind at 1. rewrite write_rn_l_spec by lia. unfold bind at 1. unfold put_ccr, modify.
  assert (Hfin : set_ccr c (set_reg32 (post_fetch2 s) rd r) = set_opc (pc s + 2) (with_pc (pc s + 4) (with_ccr c (set_reg32 s rd r)))) by reflexivity.
  rewrite Hfin.
  set (fin := set_opc (pc s + 2) (with_pc (pc s + 4) (with_ccr c (set_reg32 s rd r)))) in *.
  assert (Hcs' : cs KI 2 fin = Ok n fin).
  { rewrite <- Hfin. unfold set_reg32. apply cs_frame2. exact Hcs. }
  destruct Ho' as [-> | [-> | ->]]; rewrite Hcs'; subst fin; unfold finish, with_pc, with_ccr, set_reg32; cbn [fault set_opc set_pc set_ccr set_regs]; rewrite Hf; reflexivity.
Qed.
