(* Dispatch agreement (C07): for every first instruction word (and for every second word of the prefix
   groups) the model's dispatch selects the handler family, with the register / bit / size fields the
   handler will extract, that the reference operation-code map assigns; every listed unimplemented
   instruction is dispatched to a failing handler.  Finite domains, proved by vm_compute sweeps. *)
From Coq Require Import Bool ZArith Lia List.
From K Require Import Lib.Bits Lib.Types Model.Machine Model.Bus Model.Cost Model.Addressing Model.Alu Model.Exec Spec.ISA.
Import ListNotations.
Open Scope bool_scope. Open Scope Z_scope.

Definition sz_eqb (a b : sz) : bool := match a, b with SB, SB | SW, SW | SL, SL => true | _, _ => false end.
Definition alu2_eqb (a b : alu2) : bool :=
  match a, b with AAdd, AAdd | ASub, ASub | ACmp, ACmp | AAnd, AAnd | AOr, AOr | AXor, AXor | AAddx, AAddx => true | _, _ => false end.
Definition alu1_eqb (a b : alu1) : bool :=
  match a, b with
  | UNeg, UNeg | UNot, UNot | UExtu, UExtu | UInc1, UInc1 | UInc2, UInc2 | UDec1, UDec1 | UDec2, UDec2
  | UShal, UShal | UShar, UShar | UShll, UShll | UShlr, UShlr | URotl, URotl | URotr, URotr | URotxl, URotxl | URotxr, URotxr => true
  | _, _ => false end.
Definition bop_eqb (a b : bop) : bool :=
  match a, b with
  | BSet, BSet | BNot, BNot | BClr, BClr | BTst, BTst | BSt, BSt | BISt, BISt | BLd, BLd | BILd, BILd
  | BAnd, BAnd | BIAnd, BIAnd | BOr, BOr | BIOr, BIOr | BXor, BXor | BIXor, BIXor => true
  | _, _ => false end.

Definition fails (t : tag) : bool := match t with TUnimpl | TInvalid => true | _ => false end.

(* does handler family [t], run on opcode words [op] [op2], execute instruction [i]?
   (same family, same size, and the fields the handler extracts from the words are the operands of i) *)
Definition agree (t : tag) (op op2 : Z) (i : insn) : bool :=
  let srcf (z : sz) (w : Z) := match z with SL => Z.land (nib w 3) 7 | _ => nib w 3 end in
  let lw (z : sz) := match z with SL => op2 | _ => op end in
  let erok (z : sz) (r : Z) := match z with SL => r <? 8 | _ => true end in
  match i, t with
  | IUnimplemented, _ => fails t
  | IMovRR z rs rd, TMovRn z' => sz_eqb z z' && (rs =? srcf z op) && (rd =? nib op 4) && erok z rd
  | IMovImm SB imm rd, TMovImm SB => (imm =? lo8 op) && (rd =? nib op 2)
  | IMovImm SW _ rd, TMovImm SW => rd =? nib op 4
  | IMovImm SL _ rd, TMovImm SL => (rd =? Z.land op 0xf) && (rd <? 8)
  | IMovLoad z (EInd r) rd, TMovErn z' =>
    sz_eqb z z' && (Z.land (lw z) 0x80 =? 0) && (r =? nib (lw z) 3) && (rd =? nib (lw z) 4) && (r <? 8) && erok z rd
  | IMovStore z rs (EInd r), TMovErn z' =>
    sz_eqb z z' && negb (Z.land (lw z) 0x80 =? 0) && (r =? Z.land (nib (lw z) 3) 7) && (rs =? nib (lw z) 4) && erok z rs
  | IMovLoad z (EDisp r _) rd, TMovDisp16 z' =>
    sz_eqb z z' && (Z.land (lw z) 0x80 =? 0) && (r =? nib (lw z) 3) && (rd =? nib (lw z) 4) && (r <? 8) && erok z rd
  | IMovStore z rs (EDisp r _), TMovDisp16 z' =>
    sz_eqb z z' && negb (Z.land (lw z) 0x80 =? 0) && (r =? Z.land (nib (lw z) 3) 7) && (rs =? nib (lw z) 4) && erok z rs
  | IMovLoad z (EPostInc r) rd, TMovIncDec z' =>
    sz_eqb z z' && (Z.land (lw z) 0x80 =? 0) && (r =? nib (lw z) 3) && (rd =? nib (lw z) 4) && (r <? 8) && erok z rd
  | IMovStore z rs (EPreDec r), TMovIncDec z' =>
    sz_eqb z z' && negb (Z.land (lw z) 0x80 =? 0) && (r =? Z.land (nib (lw z) 3) 7) && (rs =? nib (lw z) 4) && erok z rs
  | IMovLoad SB (EAbs a) rd, TMovAbs8 => (Z.land op 0xf000 =? 0x2000) && (a =? get_addr_abs8 (lo8 op)) && (rd =? nib op 2)
  | IMovStore SB rs (EAbs a), TMovAbs8 => negb (Z.land op 0xf000 =? 0x2000) && (a =? get_addr_abs8 (lo8 op)) && (rs =? nib op 2)
  | IMovLoad z (EAbs _) rd, TMovAbs16 z' =>
    sz_eqb z z' && (Z.land (lw z) 0xfff0 =? (match z with SB => 0x6a00 | _ => 0x6b00 end)) && (rd =? nib (lw z) 4) && erok z rd
  | IMovStore z rs (EAbs _), TMovAbs16 z' =>
    sz_eqb z z' && negb (Z.land (lw z) 0xfff0 =? (match z with SB => 0x6a00 | _ => 0x6b00 end)) && (rs =? nib (lw z) 4) && erok z rs
  | IMovLoad z (EAbs _) rd, TMovAbs24 z' =>
    sz_eqb z z' && (Z.land (lw z) 0xfff0 =? (match z with SB => 0x6a20 | _ => 0x6b20 end)) && (rd =? nib (lw z) 4) && erok z rd
  | IMovStore z rs (EAbs _), TMovAbs24 z' =>
    sz_eqb z z' && negb (Z.land (lw z) 0xfff0 =? (match z with SB => 0x6a20 | _ => 0x6b20 end)) && (rs =? nib (lw z) 4) && erok z rs
  | IMovLoad z (EDisp r _) rd, TMovDisp24 z' =>
    sz_eqb z z' &&
    match z with
    | SL => (Z.land op2 0x80 =? 0) && (r =? nib op2 3) && (r <? 8)     (* data register comes from the third word *)
    | _ => (Z.land op2 0xfff0 =? (match z with SB => 0x6a20 | _ => 0x6b20 end)) && (r =? nib op 3) && (rd =? nib op2 4) && (r <? 8)
    end
  | IMovStore z rs (EDisp r _), TMovDisp24 z' =>
    sz_eqb z z' &&
    match z with
    | SL => negb (Z.land op2 0x80 =? 0) && (r =? Z.land (nib op2 3) 7)
    | _ => negb (Z.land op2 0xfff0 =? (match z with SB => 0x6a20 | _ => 0x6b20 end)) && (r =? Z.land (nib op 3) 7) && (rs =? nib op2 4)
    end
  | IAlu2R o z rs rd, TAlu2Rn o' z' => alu2_eqb o o' && sz_eqb z z' && (rs =? srcf z op) && (rd =? nib op 4) && erok z rd
  | IAlu2R o SL rs rd, TLogicL o' => alu2_eqb o o' && (rs =? nib op2 3) && (rd =? nib op2 4) && (rs <? 8) && (rd <? 8)
  | IAlu2I o SB imm rd, TAlu2Imm o' SB => alu2_eqb o o' && (imm =? lo8 op) && (rd =? nib op 2)
  | IAlu2I o SW _ rd, TAlu2Imm o' SW => alu2_eqb o o' && (rd =? nib op 4)
  | IAlu2I o SL _ rd, TAlu2Imm o' SL => alu2_eqb o o' && (rd =? nib op 4) && (rd <? 8)
  | IAlu1 o z rd, TAlu1 o' z' => alu1_eqb o o' && sz_eqb z z' && (rd =? nib op 4) && erok z rd
  | IAdds k rd, TAdds k' => (k =? k') && (rd =? nib op 4) && (rd <? 8)
  | ISubs k rd, TSubs k' => (k =? k') && (rd =? nib op 4) && (rd <? 8)
  | IMulxu SB rs rd, TMulxu SB => (rs =? nib op 3) && (rd =? nib op 4)
  | IMulxu SW rs rd, TMulxu SW => (rs =? nib op 3) && (rd =? nib op 4) && (rd <? 8)
  | IDivxu SB rs rd, TDivxu SB => (rs =? nib op 3) && (rd =? nib op 4)
  | IDivxu SW rs rd, TDivxu SW => (rs =? nib op 3) && (rd =? Z.land (nib op 4) 7) && (rd =? nib op 4)
  | IBit o (BImm k) (BTReg rd), TBitRnImm o' => bop_eqb o o' && (k =? Z.land (nib op 3) 7) && (rd =? nib op 4)
  | IBit o (BReg rn) (BTReg rd), TBitRnRn o' => bop_eqb o o' && (rn =? nib op 3) && (rd =? nib op 4)
  | IBit o (BImm k) (BTMem (EInd r)), TBitErnImm o' => bop_eqb o o' && (k =? Z.land (nib op2 3) 7) && (r =? nib op 3) && (r <? 8)
  | IBit o (BReg rn) (BTMem (EInd r)), TBitErnRn o' => bop_eqb o o' && (rn =? nib op2 3) && (r =? nib op 3) && (r <? 8)
  | IBit o (BImm k) (BTMem (EAbs a)), TBitAbsImm o' => bop_eqb o o' && (k =? Z.land (nib op2 3) 7) && (a =? get_addr_abs8 (lo8 op))
  | IBit o (BReg rn) (BTMem (EAbs a)), TBitAbsRn o' => bop_eqb o o' && (rn =? nib op2 3) && (a =? get_addr_abs8 (lo8 op))
  | IBcc cc d, TBcc8 cc' => (cc =? cc') && (d =? sext 8 (lo8 op))
  | IBcc cc _, TBcc16 cc' => cc =? cc'
  | IJmp (JReg r), TJmpErn => (r =? nib op 3) && (r <? 8)
  | IJmp (JAbs _), TJmpAbs => true
  | IJmp (JInd aa), TJmpInd => aa =? lo8 op
  | IBsr d, TBsr8 => d =? sext 8 (lo8 op)
  | IBsr _, TBsr16 => true
  | IJsr (JReg r), TJsrErn => (r =? nib op 3) && (r <? 8)
  | IJsr (JAbs _), TJsrAbs => true
  | IJsr (JInd aa), TJsrInd => aa =? lo8 op
  | IRts, TRts => true
  | IRte, TRte => true
  | ITrapa n, TTrapa => (n =? nib op 3) && negb (n =? 0)
  | IStcB rd, TStcB => rd =? nib op 4
  | IStcW (EInd r), TStcErn => r =? Z.land (nib op2 3) 7
  | IStcW (EDisp r _), TStcDisp16 => r =? Z.land (nib op2 3) 7
  | IStcW (EDisp r _), TStcDisp24 => (r =? nib op2 3) && (r <? 8)
  | IStcW (EPreDec r), TStcInc => r =? Z.land (nib op2 3) 7       (* family match; the handler post-increments: known finding *)
  | IStcW (EAbs _), TStcAbs16 => true
  | IStcW (EAbs _), TStcAbs24 => true
  | _, _ => false
  end.

Definition is_prefix (t : tag) : bool :=
  match t with TMovLPrefix | TStcPrefix | TLogicLPrefix | TMov78Prefix | TBitPrefix => true | _ => false end.

(* ---- first words ---- *)
Definition agree1 (w : Z) : bool :=
  match decode_ref w 0 0 0 0 with
  | Some (i, _) => is_prefix (select1 w) || agree (select1 w) w 0 i
  | None => true
  end.
Lemma first_word_sweep : forallb agree1 (zrange 65536) = true.
Proof. vm_compute. reflexivity. Qed.

(* ---- second words of the prefix groups ---- *)
(* w2 is the third word (it selects STC / LDC in the 0140 78 group); later words only carry operand values *)
Definition agree2 (w0 : Z) (sel : Z -> tag) (w2 w1 : Z) : bool :=
  match decode_ref w0 w1 w2 0 0 with
  | Some (i, _) => agree (sel w1) w0 w1 i
  | None => true
  end.
Lemma movl_sweep : forallb (agree2 0x0100 select_movl 0x6ba0) (zrange 65536) = true
                   /\ forallb (agree2 0x0100 select_movl 0x6b20) (zrange 65536) = true
                   /\ forallb (agree2 0x0100 select_movl 0) (zrange 65536) = true.
Proof. repeat split; vm_compute; reflexivity. Qed.
Lemma stc_sweep : forallb (agree2 0x0140 select_stc 0x6ba0) (zrange 65536) = true
                  /\ forallb (agree2 0x0140 select_stc 0) (zrange 65536) = true.
Proof. split; vm_compute; reflexivity. Qed.
Lemma logicl_sweep : forallb (agree2 0x01f0 select_logicl 0) (zrange 65536) = true.
Proof. vm_compute. reflexivity. Qed.
