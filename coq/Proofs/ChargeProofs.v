(* C20: the total charged for the two-byte register forms is the reference's per-form cycle table priced by the
   C19 price list. *)
From Coq Require Import Bool ZArith Lia List.
From K Require Import Lib.Types Model.Machine Model.Bus Model.Cost Model.Addressing Model.Exec Spec.Price Spec.ISA Spec.Domains
  Proofs.PriceProofs Proofs.StepProofs Proofs.StepRefines.
Import ListNotations.
Open Scope bool_scope. Open Scope Z_scope.

Definition one_fetch_form (i : insn) : bool :=
  match i with
  | IAlu2R _ _ _ _ | IAlu1 _ _ _ | IMovRR _ _ _ | IBit _ _ (BTReg _) | IAlu2I _ SB _ _ | IMovImm SB _ _ | IAdds _ _ | ISubs _ _ | IStcB _ => true
  | _ => false
  end.

(* the reference table prices these forms at one instruction-fetch cycle at the instruction's address *)
Lemma one_fetch_charge i s : one_fetch_form i = true -> charge_ref i 2 s = 1 * price_at s 0 (pc s) + 0.
Proof.
  intros H. unfold charge_ref.
  destruct i; cbn [one_fetch_form] in H; try discriminate H;
    repeat match type of H with context [match ?x with _ => _ end] => destruct x; try discriminate H end;
    try reflexivity.
Qed.

Theorem register_form_total_charge_proof i s :
  one_fetch_form i = true -> bytes_ok (cbus s) -> dom_c19 (reg (cbus s) DRCRA) 0 1 (pc s) = true ->
  cs KI 1 (post_fetch s) = Ok (charge_ref i 2 s) (post_fetch s).
Proof.
  intros Hi Hb Hd. rewrite (one_fetch_charge i s Hi).
  unfold post_fetch. unfold cs, lift, calc_state. cbn [opc cbus set_pc set_opc KI KL KM Z.eqb orb].
  rewrite price_table_proof by assumption. unfold price_at, io1b, reg. f_equal. 
  change (ABWCR - IO1_START) with 0x20. change (ASTCR - IO1_START) with 0x21. change (WCRH - IO1_START) with 0x22.
  change (WCRL - IO1_START) with 0x23. change (DRCRA - IO1_START) with 0x26. change KI with 0. lia.
Qed.

(* ---- several charge terms: no wrap-around of the byte-sized sum, and the sum is the reference total ---- *)
Lemma price_at_range s k a : 0 <= k <= 5 -> 1 <= price_at s k a <= 14.
Proof.
  intros Hk. unfold price_at, price_ref, per_access, settings_of_area. cbn [c_8bit c_3state c_wait c_dram].
  set (w := if area_of a <? 4 then (io1b s 35 / 2 ^ (2 * area_of a)) mod 4 else (io1b s 34 / 2 ^ (2 * (area_of a - 4))) mod 4).
  assert (Hw : 0 <= w < 4) by (subst w; destruct (area_of a <? 4); apply Z.mod_pos_bound; lia).
  destruct (k =? 5); [lia|]. destruct (on_chip_ram a); [lia|].
  destruct (bit (io1b s 32) (area_of a) && word_sized k); destruct ((area_of a =? 2) && (1 <=? io1b s 38 / 32));
    destruct (bit (io1b s 33) (area_of a)); lia.
Qed.

Lemma csa_priced s' s k n a :
  b_io1 (cbus s') = b_io1 (cbus s) -> bytes_ok (cbus s) -> dom_c19 (reg (cbus s) DRCRA) k n a = true ->
  csa k n a s' = Ok (n * price_at s k a) s'.
Proof.
  intros Hio Hb Hd. unfold csa, lift.
  assert (Hb' : bytes_ok (cbus s')) by (intros x Hx; unfold reg; rewrite Hio; apply (Hb x Hx)).
  assert (Hr : forall x, reg (cbus s') x = reg (cbus s) x) by (intros x; unfold reg; now rewrite Hio).
  rewrite price_table_proof by (try assumption; rewrite Hr; assumption).
  rewrite !Hr. unfold price_at, io1b, reg.
  change (ABWCR - IO1_START) with 0x20. change (ASTCR - IO1_START) with 0x21. change (WCRH - IO1_START) with 0x22.
  change (WCRL - IO1_START) with 0x23. change (DRCRA - IO1_START) with 0x26. reflexivity.
Qed.

Lemma cs_priced s' s k n :
  (k = KI \/ k = KN) -> b_io1 (cbus s') = b_io1 (cbus s) -> bytes_ok (cbus s) -> dom_c19 (reg (cbus s) DRCRA) k n (opc s') = true ->
  cs k n s' = Ok (n * price_at s k (opc s')) s'.
Proof.
  intros Hk Hio Hb Hd. pose proof (csa_priced s' s k n (opc s') Hio Hb Hd) as H.
  unfold cs, csa, lift, calc_state in *. destruct Hk as [-> | ->]; cbn [KI KN KL KM Z.eqb orb]; exact H.
Qed.

(* the charge expression of each two-byte control-transfer handler *)
Definition ctl_suffix (i : insn) (s : cpu) : option (M Z) :=
  let sp4 := (reg32 s 7 - 4) mod A24 in
  match i with
  | IBcc _ _ | IJmp (JReg _) => Some (cs KI 2)
  | IJmp (JInd aa) => Some (i <- cs KI 2 ;; j <- csa KJ 2 aa ;; n <- cs KN 2 ;; ret (u8add (u8add i j) n))
  | IBsr _ | IJsr (JReg _) => Some (i <- cs KI 2 ;; k <- csa KK 2 sp4 ;; ret (u8add i k))
  | IRts | IRte => Some (i <- cs KI 2 ;; k <- csa KK 2 (reg32 s 7 mod A24) ;; n <- cs KN 2 ;; ret (u8add (u8add i k) n))
  | ITrapa k => Some (i <- cs KI 2 ;; j <- csa KJ 2 (0x20 + 4 * k) ;; kk <- csa KK 2 sp4 ;; n <- cs KN 4 ;; ret (u8add (u8add (u8add i j) kk) n))
  | _ => None
  end.

(* the addresses the cycle table prices must be inside the price list's domain *)
Definition ctl_dom (i : insn) (s : cpu) : Prop :=
  let d k n a := dom_c19 (reg (cbus s) DRCRA) k n a = true in
  let sp4 := (reg32 s 7 - 4) mod A24 in
  d 0 2 (pc s) /\
  match i with
  | IJmp (JInd aa) => d 1 2 aa
  | IBsr _ | IJsr (JReg _) => d 2 2 sp4
  | IRts | IRte => d 2 2 (reg32 s 7 mod A24)
  | ITrapa k => d 1 2 (0x20 + 4 * k) /\ d 2 2 sp4
  | _ => True
  end.

Lemma dom_kind_n s k n a k' n' : dom_c19 (reg (cbus s) DRCRA) k n a = true -> 0 <= k' <= 5 -> 1 <= n' <= 5 ->
  dom_c19 (reg (cbus s) DRCRA) k' n' a = true.
Proof.
  unfold dom_c19. intros H Hk Hn.
  repeat (apply andb_true_iff in H; destruct H as [H ?]).
  repeat (apply andb_true_iff; split); try assumption; lia.
Qed.

Theorem control_form_total_charge_proof i s s' m :
  ctl_suffix i s = Some m -> ctl_dom i s ->
  b_io1 (cbus s') = b_io1 (cbus s) -> opc s' = pc s -> bytes_ok (cbus s) ->
  m s' = Ok (charge_ref i 2 s) s'.
Proof.
  intros Hm Hdom Hio Hopc Hb.
  assert (P : forall k a, 0 <= k <= 5 -> 1 <= price_at s k a <= 14) by (intros; now apply price_at_range).
  unfold ctl_dom in Hdom. cbv zeta in Hdom. destruct Hdom as [Dpc Drest].
  assert (Hci : forall n', 1 <= n' <= 5 -> cs KI n' s' = Ok (n' * price_at s 0 (pc s)) s').
  { intros n' Hn'. rewrite (cs_priced s' s KI n') by (try (left; reflexivity); try assumption; rewrite Hopc; apply (dom_kind_n s 0 2); try assumption; unfold KI; lia).
    rewrite Hopc. reflexivity. }
  assert (Hcn : forall n', 1 <= n' <= 5 -> cs KN n' s' = Ok (n' * price_at s 5 (pc s)) s').
  { intros n' Hn'. rewrite (cs_priced s' s KN n') by (try (right; reflexivity); try assumption; rewrite Hopc; apply (dom_kind_n s 0 2); try assumption; unfold KN; lia).
    rewrite Hopc. reflexivity. }
  pose proof (P 0 (pc s) ltac:(lia)) as P0. pose proof (P 5 (pc s) ltac:(lia)) as P5.
  destruct i; unfold ctl_suffix in Hm; cbv zeta in Hm; try discriminate Hm;
    try (match type of Hm with context [match ?t with _ => _ end] => destruct t; try discriminate Hm end);
    (apply (f_equal (fun o => match o with Some x => x | None => m end)) in Hm; cbv beta iota in Hm; subst m); unfold charge_ref; cbn [cycles_ref]; change (2 =? 2) with true; cbn [fold_right app]; unfold bind, ret, u8add.
  - (* Bcc *) rewrite Hci by lia. f_equal. lia.
  - (* JMP @ERn *) rewrite Hci by lia. f_equal. lia.
  - (* JMP @@aa *) rewrite Hci by lia. rewrite (csa_priced s' s KJ 2 aa Hio Hb Drest). rewrite Hcn by lia.
    pose proof (P 1 aa ltac:(lia)). f_equal. change KJ with 1 in *. rewrite !Z.mod_small by lia. lia.
  - (* BSR *) rewrite Hci by lia. rewrite (csa_priced s' s KK 2 _ Hio Hb Drest).
    pose proof (P 2 ((reg32 s 7 - 4) mod A24) ltac:(lia)). f_equal. change KK with 2 in *. rewrite !Z.mod_small by lia. lia.
  - (* JSR @ERn *) rewrite Hci by lia. rewrite (csa_priced s' s KK 2 _ Hio Hb Drest).
    pose proof (P 2 ((reg32 s 7 - 4) mod A24) ltac:(lia)). f_equal. change KK with 2 in *. rewrite !Z.mod_small by lia. lia.
  - (* RTS *) rewrite Hci by lia. rewrite (csa_priced s' s KK 2 _ Hio Hb Drest). rewrite Hcn by lia.
    pose proof (P 2 (reg32 s 7 mod A24) ltac:(lia)). f_equal. change KK with 2 in *. rewrite !Z.mod_small by lia. lia.
  - (* RTE *) rewrite Hci by lia. rewrite (csa_priced s' s KK 2 _ Hio Hb Drest). rewrite Hcn by lia.
    pose proof (P 2 (reg32 s 7 mod A24) ltac:(lia)). f_equal. change KK with 2 in *. rewrite !Z.mod_small by lia. lia.
  - (* TRAPA *) destruct Drest as [Dj Dk]. rewrite Hci by lia. rewrite (csa_priced s' s KJ 2 _ Hio Hb Dj).
    rewrite (csa_priced s' s KK 2 _ Hio Hb Dk). rewrite Hcn by lia.
    pose proof (P 1 (32 + 4 * n) ltac:(lia)). pose proof (P 2 ((reg32 s 7 - 4) mod A24) ltac:(lia)).
    f_equal. change KJ with 1 in *. change KK with 2 in *. rewrite !Z.mod_small by lia.
    replace (4 * (8 + n)) with (32 + 4 * n) by lia. lia.
Qed.
