(* C16: the bus's port registers refine the abstract port (latch, ddr, pin) over every history of CPU
   writes to DDR / DR and external input changes; ports are independent; the last announced value is the
   current output. *)
From Coq Require Import Bool ZArith Lia ZifyBool List Btauto.
From K Require Import Lib.Bits Model.Machine Model.Bus Spec.PortSpec.
Import ListNotations.
Open Scope bool_scope. Open Scope Z_scope.

(* ---- byte-level boolean algebra by bit blasting ---- *)
Definition byte (x : Z) : Prop := 0 <= x < 256.

Lemma inv8_lxor_sweep : forallb (fun x => 255 - x =? Z.lxor x 255) (zrange 256) = true.
Proof. vm_compute. reflexivity. Qed.
Lemma inv8_lxor x : byte x -> 255 - x = Z.lxor x 255.
Proof. intros H. pose proof (forallb_zrange _ 256 inv8_lxor_sweep x H). lia. Qed.

Lemma byte_high_bits x i : byte x -> 8 <= i -> Z.testbit x i = false.
Proof.
  intros Hx Hi. destruct (Z.eq_dec x 0) as [->|]; [apply Z.bits_0|].
  apply Z.bits_above_log2; [unfold byte in Hx; lia|].
  assert (Z.log2 x < 8) by (apply Z.log2_lt_pow2; unfold byte in Hx; lia). lia.
Qed.

Lemma inv8_bits x i : byte x -> 0 <= i -> Z.testbit (255 - x) i = (i <? 8) && negb (Z.testbit x i).
Proof.
  intros Hx Hi. rewrite inv8_lxor by assumption. rewrite Z.lxor_spec.
  change 255 with (Z.ones 8). rewrite Z.testbit_ones_nonneg by lia.
  destruct (i <? 8) eqn:E.
  - cbn. now rewrite xorb_true_r.
  - assert (Z.testbit x i = false) as -> by (apply byte_high_bits; [assumption|lia]). reflexivity.
Qed.

Lemma byte_inv8 x : byte x -> byte (255 - x).
Proof. unfold byte. lia. Qed.
Lemma byte_land x y : byte x -> byte y -> byte (Z.land x y).
Proof. intros. apply (land_range x y 8); unfold byte in *; lia. Qed.
Lemma byte_lor x y : byte x -> byte y -> byte (Z.lor x y).
Proof. intros. apply (lor_range x y 8); unfold byte in *; lia. Qed.

(* prove an equation between byte-valued and/or/inv8 expressions bit by bit *)
Ltac blast :=
  apply Z.bits_inj'; let i := fresh "i" in let Hi := fresh "Hi" in intros i Hi;
  repeat (rewrite ?Z.land_spec, ?Z.lor_spec, ?inv8_bits by (try assumption; try lia; repeat first [apply byte_land|apply byte_lor|apply byte_inv8|assumption]));
  destruct (Z.lt_ge_cases i 8) as [Hlt|Hge];
  [ assert ((i <? 8) = true) as -> by lia; btauto
  | assert ((i <? 8) = false) as -> by lia;
    repeat match goal with H : byte ?x |- context [Z.testbit ?x i] => rewrite (byte_high_bits x i H Hge) end; btauto ].

(* ---- concrete port state inside the bus ---- *)
Definition is_port (k : Z) : Prop := 1 <= k <= 11.
Definition ddr_of (b : bus) (k : Z) : Z := read_ddr b k.
Definition dr_of (b : bus) (k : Z) : Z := read_dr b k.
Definition pin_of (b : bus) (k : Z) : Z := sget (b_pin b) (k - 1).
Definition shadow_of (b : bus) (k : Z) : Z := sget (b_latch b) (k - 1).

(* abstraction function: the latch is DR for output bits and the shadow latch for input bits *)
Definition abs_port (b : bus) (k : Z) : port :=
  mkPort (Z.lor (Z.land (dr_of b k) (ddr_of b k)) (Z.land (shadow_of b k) (inv8 (ddr_of b k)))) (ddr_of b k) (pin_of b k).

(* representation invariant: bytes, and DR shows the pins on input bits *)
Definition port_inv (b : bus) (k : Z) : Prop :=
  byte (ddr_of b k) /\ byte (dr_of b k) /\ byte (pin_of b k) /\ byte (shadow_of b k) /\
  Z.land (dr_of b k) (inv8 (ddr_of b k)) = Z.land (pin_of b k) (inv8 (ddr_of b k)).

(* the three concrete operations on port k *)
Definition DDR_ADDR (k : Z) : Z := 0xfee000 + k - 1.
Definition DR_ADDR (k : Z) : Z := 0xffffd0 + k - 1.

Definition cport_step (b : bus) (k : Z) (e : pevent) : option bus :=
  match e with
  | PWriteDdr v => bus_write b (DDR_ADDR k) v
  | PWriteDr v => bus_write b (DR_ADDR k) v
  | PInput v => Some (write_port b k v)
  end.
Definition ev_byte (e : pevent) : Prop := match e with PWriteDdr v | PWriteDr v | PInput v => byte v end.

Ltac unfold_port :=
  unfold abs_port, port_inv, ddr_of, dr_of, pin_of, shadow_of in *;
  unfold cport_step, bus_write, DDR_ADDR, DR_ADDR, on_write_ddr, on_write_dr, write_port, send_io_port_value,
    write_dr, read_dr, read_ddr, inr,
    VEC_START, VEC_END, IO1_START, IO1_END, DRAM_START, DRAM_END, RAM_START, RAM_END, IO2_START, IO2_END, DDR1, DR1, lnot8 in *.

Ltac ifs := repeat match goal with |- context [if ?c then _ else _] => destruct c eqn:? end.
Ltac sgets := cbn [b_vec b_dram b_io1 b_ram b_io2 b_pin b_latch b_sum b_msgs b_tmr
                   bset_vec bset_dram bset_io1 bset_ram bset_io2 bset_pin bset_latch bset_sum bset_msgs bset_tmr];
              repeat (rewrite sget_sset by lia);
              repeat match goal with |- context [?a =? ?b] => destruct (Z.eqb_spec a b); try lia end.

(* the read value of DR is the abstract read value *)
Lemma dr_is_read b k : port_inv b k -> dr_of b k = p_read (abs_port b k).
Proof.
  intros (Hd & Hr & Hp & Hs & Hi). unfold p_read, abs_port. cbn [p_latch p_ddr p_pin]. unfold inv8 in *.
  set (d := ddr_of b k) in *. set (r := dr_of b k) in *. set (p := pin_of b k) in *. set (s := shadow_of b k) in *.
  assert (E : r = Z.lor (Z.land r d) (Z.land r (255 - d))) by blast.
  rewrite E at 1. rewrite Hi. blast.
Qed.

(* ---- one event on port k ---- *)
Lemma port_step_refines b k e :
  is_port k -> ev_byte e -> port_inv b k ->
  exists b', cport_step b k e = Some b' /\ abs_port b' k = pstep (abs_port b k) e /\ port_inv b' k.
Proof.
  intros Hk He (Hd & Hr & Hp & Hs & Hi). unfold is_port in Hk.
  destruct e as [v|v|v]; cbn [ev_byte] in He.
  - (* DDR write *)
    unfold cport_step, bus_write, DDR_ADDR, inr, VEC_START, VEC_END, IO1_START, IO1_END.
    assert ((0 <=? 16703488 + k - 1) && (16703488 + k - 1 <=? 255) = false) as -> by lia.
    assert ((16703488 <=? 16703488 + k - 1) && (16703488 + k - 1 <=? 16703743) = true) as -> by lia.
    assert ((16703488 <=? 16703488 + k - 1) && (16703488 + k - 1 <=? 16703498) = true) as -> by lia.
    destruct (v =? sget (b_io1 b) (16703488 + k - 1 - 16703488)) eqn:Eq.
    + (* unchanged *)
      exists b. split; [reflexivity|]. split.
      * unfold abs_port, pstep. cbn [p_latch p_ddr p_pin]. f_equal. unfold ddr_of, read_ddr, DDR1, IO1_START. lia.
      * exact (conj Hd (conj Hr (conj Hp (conj Hs Hi)))).
    + eexists. split; [reflexivity|].
      unfold_port. sgets.
      replace (16703488 + k - 1 - 16703488 + 1 - 1) with (k - 1) in * by lia.
      replace (16703488 + (16703488 + k - 1 - 16703488 + 1) - 1 - 16703488) with (k - 1) in * by lia.
      replace (16777168 + (16703488 + k - 1 - 16703488 + 1) - 1 - 16776992) with (16777168 + k - 1 - 16776992) in * by lia.
      replace (16703488 + k - 1 - 16703488) with (k - 1) in * by lia.
      set (d := sget (b_io1 b) (k - 1)) in *. set (r := sget (b_io2 b) (16777168 + k - 1 - 16776992)) in *.
      set (p := sget (b_pin b) (k - 1)) in *. set (s := sget (b_latch b) (k - 1)) in *.
      unfold inv8 in *.
      split; [cbn [pstep p_latch p_ddr p_pin]; f_equal; blast|].
      split; [|split; [|split; [|split]]]; try assumption; try (repeat first [apply byte_lor|apply byte_land|apply byte_inv8|assumption]).
      blast.
  - (* DR write *)
    unfold cport_step, bus_write, DR_ADDR, inr, VEC_START, VEC_END, IO1_START, IO1_END, DRAM_START, DRAM_END, RAM_START, RAM_END, IO2_START, IO2_END.
    assert ((0 <=? 16777168 + k - 1) && (16777168 + k - 1 <=? 255) = false) as -> by lia.
    assert ((16703488 <=? 16777168 + k - 1) && (16777168 + k - 1 <=? 16703743) = false) as -> by lia.
    assert ((4194304 <=? 16777168 + k - 1) && (16777168 + k - 1 <=? 6291455) = false) as -> by lia.
    assert ((16760608 <=? 16777168 + k - 1) && (16777168 + k - 1 <=? 16776991) = false) as -> by lia.
    assert ((16776992 <=? 16777168 + k - 1) && (16777168 + k - 1 <=? 16777193) = true) as -> by lia.
    assert ((16777168 <=? 16777168 + k - 1) && (16777168 + k - 1 <=? 16777178) = true) as -> by lia.
    eexists. split; [reflexivity|].
    unfold_port. sgets.
    replace (16777168 + k - 1 - 16777168 + 1 - 1) with (k - 1) in * by lia.
    replace (16703488 + (16777168 + k - 1 - 16777168 + 1) - 1 - 16703488) with (k - 1) in * by lia.
    replace (16777168 + (16777168 + k - 1 - 16777168 + 1) - 1 - 16776992) with (16777168 + k - 1 - 16776992) in * by lia.
    replace (16703488 + k - 1 - 16703488) with (k - 1) in * by lia.
    set (d := sget (b_io1 b) (k - 1)) in *. set (r := sget (b_io2 b) (16777168 + k - 1 - 16776992)) in *.
    set (p := sget (b_pin b) (k - 1)) in *. set (s := sget (b_latch b) (k - 1)) in *.
    unfold inv8 in *.
    split; [cbn [pstep p_latch p_ddr p_pin]; f_equal; blast|].
    split; [|split; [|split; [|split]]]; try assumption; try (repeat first [apply byte_lor|apply byte_land|apply byte_inv8|assumption]).
    blast.
  - (* external input *)
    unfold cport_step. eexists. split; [reflexivity|].
    unfold write_port. assert ((1 <=? k) && (k <=? 11) = true) as -> by lia.
    unfold_port. sgets.
    replace (16703488 + k - 1 - 16703488) with (k - 1) in * by lia.
    set (d := sget (b_io1 b) (k - 1)) in *. set (r := sget (b_io2 b) (16777168 + k - 1 - 16776992)) in *.
    set (p := sget (b_pin b) (k - 1)) in *. set (s := sget (b_latch b) (k - 1)) in *.
    unfold inv8 in *.
    split; [cbn [pstep p_latch p_ddr p_pin]; f_equal; blast|].
    split; [|split; [|split; [|split]]]; try assumption; try (repeat first [apply byte_lor|apply byte_land|apply byte_inv8|assumption]).
    blast.
Qed.

(* ---- histories on one port ---- *)
Fixpoint crun_port (b : bus) (k : Z) (h : list pevent) : option bus :=
  match h with
  | [] => Some b
  | e :: t => match cport_step b k e with Some b1 => crun_port b1 k t | None => None end
  end.

Theorem port_history_refines :
  forall h b k, is_port k -> Forall ev_byte h -> port_inv b k ->
    exists b', crun_port b k h = Some b' /\ abs_port b' k = fold_left pstep h (abs_port b k) /\ port_inv b' k /\
               dr_of b' k = p_read (fold_left pstep h (abs_port b k)).
Proof.
  induction h as [|e t IH]; intros b k Hk Hall Hinv.
  - exists b. cbn [crun_port fold_left]. split; [reflexivity|]. split; [reflexivity|]. split; [assumption|]. now apply dr_is_read.
  - inversion Hall as [|e' t' He Ht]; subst.
    destruct (port_step_refines b k e Hk He Hinv) as (b1 & H1 & A1 & I1).
    destruct (IH b1 k Hk Ht I1) as (b2 & H2 & A2 & I2 & R2).
    exists b2. cbn [crun_port fold_left]. rewrite H1, <- A1. split; [assumption|]. split; [assumption|]. split; assumption.
Qed.

(* the result of one event as a total function *)
Definition cres (b : bus) (k : Z) (e : pevent) : bus :=
  match e with
  | PWriteDdr v => if v =? sget (b_io1 b) (DDR_ADDR k - IO1_START) then b else on_write_ddr b (DDR_ADDR k) v
  | PWriteDr v => on_write_dr b (DR_ADDR k) v
  | PInput v => write_port b k v
  end.

Lemma cport_step_eq b k e : is_port k -> cport_step b k e = Some (cres b k e).
Proof.
  intros Hk. unfold is_port in Hk. destruct e as [v|v|v]; cbn [cport_step cres]; [| |reflexivity].
  - unfold bus_write, DDR_ADDR, inr, VEC_START, VEC_END, IO1_START, IO1_END.
    assert ((0 <=? 16703488 + k - 1) && (16703488 + k - 1 <=? 255) = false) as -> by lia.
    assert ((16703488 <=? 16703488 + k - 1) && (16703488 + k - 1 <=? 16703743) = true) as -> by lia.
    assert ((16703488 <=? 16703488 + k - 1) && (16703488 + k - 1 <=? 16703498) = true) as -> by lia.
    destruct (v =? sget (b_io1 b) (16703488 + k - 1 - 16703488)); reflexivity.
  - unfold bus_write, DR_ADDR, inr, VEC_START, VEC_END, IO1_START, IO1_END, DRAM_START, DRAM_END, RAM_START, RAM_END, IO2_START, IO2_END.
    assert ((0 <=? 16777168 + k - 1) && (16777168 + k - 1 <=? 255) = false) as -> by lia.
    assert ((16703488 <=? 16777168 + k - 1) && (16777168 + k - 1 <=? 16703743) = false) as -> by lia.
    assert ((4194304 <=? 16777168 + k - 1) && (16777168 + k - 1 <=? 6291455) = false) as -> by lia.
    assert ((16760608 <=? 16777168 + k - 1) && (16777168 + k - 1 <=? 16776991) = false) as -> by lia.
    assert ((16776992 <=? 16777168 + k - 1) && (16777168 + k - 1 <=? 16777193) = true) as -> by lia.
    assert ((16777168 <=? 16777168 + k - 1) && (16777168 + k - 1 <=? 16777178) = true) as -> by lia.
    reflexivity.
Qed.

(* ---- independence: an operation on port k leaves every other port's registers, pins and latch untouched ---- *)
Lemma cres_other b k e j :
  is_port k -> is_port j -> j <> k ->
  ddr_of (cres b k e) j = ddr_of b j /\ dr_of (cres b k e) j = dr_of b j /\
  pin_of (cres b k e) j = pin_of b j /\ shadow_of (cres b k e) j = shadow_of b j.
Proof.
  intros Hk Hj Hne. unfold is_port in *.
  destruct e as [v|v|v]; cbn [cres].
  - destruct (v =? sget (b_io1 b) (DDR_ADDR k - IO1_START)); [auto|].
    unfold ddr_of, dr_of, pin_of, shadow_of, on_write_ddr, send_io_port_value, write_dr, read_dr, read_ddr, DDR_ADDR, DDR1, DR1, IO1_START, IO2_START.
    cbn [b_io1 b_io2 b_pin b_latch bset_io1 bset_io2 bset_pin bset_latch bset_msgs].
    rewrite !sget_sset by lia.
    repeat match goal with |- context [if ?a =? ?b then _ else _] => destruct (Z.eqb_spec a b); [lia|] end. auto.
  - unfold ddr_of, dr_of, pin_of, shadow_of, on_write_dr, send_io_port_value, write_dr, read_dr, read_ddr, DR_ADDR, DDR1, DR1, IO1_START, IO2_START.
    cbn [b_io1 b_io2 b_pin b_latch bset_io1 bset_io2 bset_pin bset_latch bset_msgs].
    rewrite !sget_sset by lia.
    repeat match goal with |- context [if ?a =? ?b then _ else _] => destruct (Z.eqb_spec a b); [lia|] end. auto.
  - unfold write_port. assert ((1 <=? k) && (k <=? 11) = true) as -> by lia.
    unfold ddr_of, dr_of, pin_of, shadow_of, write_dr, read_dr, read_ddr, DDR1, DR1, IO1_START, IO2_START.
    cbn [b_io1 b_io2 b_pin b_latch bset_io1 bset_io2 bset_pin bset_latch bset_msgs].
    rewrite !sget_sset by lia.
    repeat match goal with |- context [if ?a =? ?b then _ else _] => destruct (Z.eqb_spec a b); [lia|] end. auto.
Qed.

Lemma port_step_other b k e b' j :
  is_port k -> is_port j -> j <> k -> cport_step b k e = Some b' ->
  ddr_of b' j = ddr_of b j /\ dr_of b' j = dr_of b j /\ pin_of b' j = pin_of b j /\ shadow_of b' j = shadow_of b j.
Proof.
  intros Hk Hj Hne H. rewrite cport_step_eq in H by assumption.
  assert (b' = cres b k e) as -> by congruence. now apply cres_other.
Qed.

Theorem ports_independent_proof :
  forall b k e b' j, is_port k -> is_port j -> j <> k -> cport_step b k e = Some b' ->
    abs_port b' j = abs_port b j /\ dr_of b' j = dr_of b j /\ ddr_of b' j = ddr_of b j.
Proof.
  intros b k e b' j Hk Hj Hne H.
  destruct (port_step_other b k e b' j Hk Hj Hne H) as (A & B & C & D).
  unfold abs_port. rewrite A, B, C, D. auto.
Qed.

(* ---- announcements ---- *)
Fixpoint last_announced (ms : list msg) (k : Z) (acc : option Z) : option Z :=
  match ms with
  | [] => acc
  | MsgIoPort p v _ :: t => last_announced t k (if p =? k then Some v else acc)
  | _ :: t => last_announced t k acc
  end.

Lemma last_announced_app ms ms' k acc :
  last_announced (ms ++ ms') k acc = last_announced ms' k (last_announced ms k acc).
Proof. revert acc. induction ms as [|m t IH]; intros acc; [reflexivity|]. destruct m; cbn; apply IH. Qed.

Definition ann_inv (b : bus) (k : Z) : Prop :=
  match last_announced (b_msgs b) k None with
  | Some v => v = p_out (abs_port b k)
  | None => p_out (abs_port b k) = 0
  end.

(* messages appended by one step on port k: none, or one ioport message for port k with the new output *)
Lemma cres_msgs b k e :
  is_port k -> ev_byte e -> port_inv b k ->
  b_msgs (cres b k e) = b_msgs b /\ p_out (abs_port (cres b k e) k) = p_out (abs_port b k)
  \/ b_msgs (cres b k e) = b_msgs b ++ [MsgIoPort k (p_out (abs_port (cres b k e) k)) (b_sum b)].
Proof.
  intros Hk He (Hd & Hr & Hp & Hs & Hi). unfold is_port in Hk.
  unfold ddr_of, dr_of, pin_of, shadow_of, read_dr, read_ddr, DDR1, DR1, IO1_START, IO2_START in *.
  replace (16703488 + k - 1 - 16703488) with (k - 1) in * by lia.
  destruct e as [v|v|v]; cbn [ev_byte cres] in *.
  - unfold DDR_ADDR, IO1_START. replace (16703488 + k - 1 - 16703488) with (k - 1) by lia.
    destruct (v =? sget (b_io1 b) (k - 1)); [left; auto|].
    right. unfold p_out, abs_port, ddr_of, dr_of, pin_of, shadow_of, on_write_ddr, send_io_port_value, write_dr, read_dr, read_ddr, DDR1, DR1, IO1_START, IO2_START.
    cbn [b_io1 b_io2 b_pin b_latch b_msgs b_sum bset_io1 bset_io2 bset_pin bset_latch bset_msgs p_latch p_ddr].
    replace (16703488 + k - 1 - 16703488 + 1) with k by lia.
    replace (16703488 + k - 1 - 16703488) with (k - 1) by lia.
    rewrite !sget_sset by lia. rewrite !Z.eqb_refl.
    set (d := sget (b_io1 b) (k - 1)) in *. set (r := sget (b_io2 b) (16777168 + k - 1 - 16776992)) in *.
    set (p := sget (b_pin b) (k - 1)) in *. set (s := sget (b_latch b) (k - 1)) in *.
    do 3 f_equal. unfold inv8, lnot8. blast.
  - right. unfold p_out, abs_port, ddr_of, dr_of, pin_of, shadow_of, on_write_dr, send_io_port_value, write_dr, read_dr, read_ddr, DR_ADDR, DDR1, DR1, IO1_START, IO2_START.
    cbn [b_io1 b_io2 b_pin b_latch b_msgs b_sum bset_io1 bset_io2 bset_pin bset_latch bset_msgs p_latch p_ddr].
    replace (16777168 + k - 1 - 16777168 + 1) with k by lia.
    replace (16703488 + k - 1 - 16703488) with (k - 1) by lia.
    rewrite !sget_sset by lia. rewrite !Z.eqb_refl.
    set (d := sget (b_io1 b) (k - 1)) in *.
    set (p := sget (b_pin b) (k - 1)) in *.
    do 3 f_equal. unfold inv8, lnot8. blast.
  - left. unfold write_port. assert ((1 <=? k) && (k <=? 11) = true) as -> by lia.
    unfold p_out, abs_port, ddr_of, dr_of, pin_of, shadow_of, write_dr, read_dr, read_ddr, DDR1, DR1, IO1_START, IO2_START.
    cbn [b_io1 b_io2 b_pin b_latch b_msgs b_sum bset_io1 bset_io2 bset_pin bset_latch bset_msgs p_latch p_ddr].
    split; [reflexivity|].
    replace (16703488 + k - 1 - 16703488) with (k - 1) by lia.
    rewrite !sget_sset by lia. rewrite !Z.eqb_refl.
    set (d := sget (b_io1 b) (k - 1)) in *. set (r := sget (b_io2 b) (16777168 + k - 1 - 16776992)) in *.
    set (p := sget (b_pin b) (k - 1)) in *. set (s := sget (b_latch b) (k - 1)) in *.
    unfold inv8, lnot8. blast.
Qed.

Lemma port_step_msgs b k e b' :
  is_port k -> ev_byte e -> port_inv b k -> cport_step b k e = Some b' ->
  b_msgs b' = b_msgs b /\ p_out (abs_port b' k) = p_out (abs_port b k)
  \/ b_msgs b' = b_msgs b ++ [MsgIoPort k (p_out (abs_port b' k)) (b_sum b)].
Proof.
  intros Hk He Hinv H. rewrite cport_step_eq in H by assumption.
  assert (b' = cres b k e) as -> by congruence. now apply cres_msgs.
Qed.

Theorem announced_is_current_step :
  forall b k e b', is_port k -> ev_byte e -> port_inv b k -> ann_inv b k ->
    cport_step b k e = Some b' -> ann_inv b' k.
Proof.
  intros b k e b' Hk He Hinv Hann H.
  destruct (port_step_msgs b k e b' Hk He Hinv H) as [[Hm Ho]|Hm]; unfold ann_inv in *.
  - rewrite Hm, Ho. exact Hann.
  - rewrite Hm, last_announced_app. cbn [last_announced]. now rewrite Z.eqb_refl.
Qed.

(* an operation on another port does not disturb port k's announcements *)
Theorem announced_is_current_other :
  forall b j e b' k, is_port j -> is_port k -> k <> j -> ev_byte e -> port_inv b j -> ann_inv b k ->
    cport_step b j e = Some b' -> ann_inv b' k.
Proof.
  intros b j e b' k Hj Hk Hne He Hinv Hann H.
  destruct (ports_independent_proof b j e b' k Hj Hk Hne H) as (Habs & _).
  unfold ann_inv in *. rewrite Habs.
  destruct (port_step_msgs b j e b' Hj He Hinv H) as [[Hm _]|Hm].
  - now rewrite Hm.
  - rewrite Hm, last_announced_app. cbn [last_announced].
    assert ((j =? k) = false) as -> by lia. exact Hann.
Qed.
