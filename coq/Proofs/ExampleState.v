(* A concrete well-formed machine state used by the non-vacuity examples: MOV.B R0H,R1H (0C 01) at H'FFC000 in on-chip RAM,
   all registers 0, exit address [ex]. *)
From Coq Require Import Bool ZArith Lia ZifyBool List.
From K Require Import Lib.Types Model.Machine Model.Bus Model.Exec Spec.MemMap Spec.Price Spec.ISA Spec.Domains
  Proofs.PriceProofs Proofs.RegProofs Proofs.MemProofs Proofs.StepProofs Proofs.RefStep.
Open Scope Z_scope.

Definition ex_state (ex : Z) : cpu :=
  mkCpu 0xffc000 0 0 regs0
        (mkBus (snew (fun _ => 0)) (snew (fun _ => 0)) (snew (fun _ => 0))
               (sset (sset (snew (fun _ => 0)) (0xffc000 - RAM_START) 0x0c) (0xffc001 - RAM_START) 0x01)
               (snew (fun _ => 0)) (snew (fun _ => 0)) (snew (fun _ => 0)) 0 nil timer0)
        nil ex 0 false false nil false.

Lemma sget_snew0 i : sget (snew (fun _ => 0)) i = 0.
Proof. Transparent sget. unfold sget, snew. cbn [sov sdflt]. rewrite FMapPositive.PositiveMap.gempty. reflexivity. Opaque sget. Qed.

Lemma ex_state_ok ex : state_ok (ex_state ex).
Proof.
  unfold state_ok, cpu_ok. split; [split|split; [|split]].
  - intros k. unfold word32, ex_state, regs0, get_er. cbn [er r0 r1 r2 r3 r4 r5 r6 r7].
    repeat match goal with |- context [if ?c then _ else _] => destruct c end; lia.
  - cbn. lia.
  - intros a v. unfold bus_read, ex_state. cbn [cbus b_vec b_io1 b_dram b_ram b_io2].
    unfold inr, VEC_START, VEC_END, IO1_START, IO1_END, DRAM_START, DRAM_END, RAM_START, RAM_END, IO2_START, IO2_END.
    repeat match goal with |- context [if ?c then _ else _] => destruct c eqn:? end; intros H; inversion H; subst; clear H;
      rewrite ?sget_sset by lia; rewrite ?sget_snew0;
      repeat match goal with |- context [if ?c then _ else _] => destruct c end; lia.
  - intros a Ha. unfold reg, ex_state. cbn [cbus b_io1]. rewrite sget_snew0. lia.
  - reflexivity.
Qed.

(* the same with interrupt request 36 pending, I clear, the stack pointer in on-chip RAM and vector 36 -> H'FFC000 *)
Definition ex_state_irq (ex : Z) : cpu :=
  mkCpu 0xffc000 0 0 (mkRegs 0 0 0 0 0 0 0 0xffff00)
        (mkBus (sset (sset (sset (snew (fun _ => 0)) 0x91 0xff) 0x92 0xc0) 0x93 0x00) (snew (fun _ => 0)) (snew (fun _ => 0))
               (sset (sset (snew (fun _ => 0)) (0xffc000 - RAM_START) 0x0c) (0xffc001 - RAM_START) 0x01)
               (snew (fun _ => 0)) (snew (fun _ => 0)) (snew (fun _ => 0)) 0 nil timer0)
        (36 :: nil) ex 0 false false nil false.

Lemma ex_state_irq_ok ex : state_ok (ex_state_irq ex).
Proof.
  unfold state_ok, cpu_ok. split; [split|split; [|split]].
  - intros k. unfold word32, ex_state_irq, get_er. cbn [er r0 r1 r2 r3 r4 r5 r6 r7].
    repeat match goal with |- context [if ?c then _ else _] => destruct c end; lia.
  - cbn. lia.
  - intros a v. unfold bus_read, ex_state_irq. cbn [cbus b_vec b_io1 b_dram b_ram b_io2].
    unfold inr, VEC_START, VEC_END, IO1_START, IO1_END, DRAM_START, DRAM_END, RAM_START, RAM_END, IO2_START, IO2_END.
    repeat match goal with |- context [if ?c then _ else _] => destruct c eqn:? end; intros H; inversion H; subst; clear H;
      rewrite ?sget_sset by lia; rewrite ?sget_snew0;
      repeat match goal with |- context [if ?c then _ else _] => destruct c end; lia.
  - intros a Ha. unfold reg, ex_state_irq. cbn [cbus b_io1]. rewrite sget_snew0. lia.
  - reflexivity.
Qed.
