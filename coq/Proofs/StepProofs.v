(* Instruction-level refinement for the register-operand families: running the handler family selected by
   the dispatch on a well-formed state yields exactly the reference semantics (result register, CCR, frame)
   and the charge of one instruction-fetch cycle. *)
From Coq Require Import Bool ZArith Lia ZifyBool List.
From K Require Import Lib.Bits Lib.Types Model.Machine Model.Bus Model.Cost Model.Addressing Model.Alu Model.Exec
  Spec.ISA Proofs.FlagProofs Proofs.AluProofs Proofs.BitProofs Proofs.RegProofs.
Open Scope bool_scope. Open Scope Z_scope.
Ltac Zify.zify_post_hook ::= Z.div_mod_to_equations.

Definition cpu_ok (s : cpu) : Prop := regs_ok s /\ 0 <= ccr s < 256.

(* ---- ranges of the register views ---- *)
Lemma reg8_range s f : 0 <= reg8 s f < 256.
Proof. unfold reg8. destruct (f <? 8); lia. Qed.
Lemma reg16_range s f : 0 <= reg16 s f < 65536.
Proof. unfold reg16. destruct (f <? 8); lia. Qed.
Lemma reg32_range s f : regs_ok s -> 0 <= reg32 s f < 4294967296.
Proof. intros H. apply H. Qed.
Lemma reg_range z s f : regs_ok s -> 0 <= reg z s f < 2^(bits_of z).
Proof.
  intros H. destruct z; cbn [reg bits_of].
  - change (2^8) with 256. apply reg8_range.
  - change (2^16) with 65536. apply reg16_range.
  - change (2^32) with 4294967296. now apply reg32_range.
Qed.

Lemma width_bits z : width (bits_of z).
Proof. destruct z; unfold width; cbn; auto. Qed.

(* generic register read / write in terms of the reference views *)
Definition field_ok (z : sz) (f : Z) : Prop := match z with SL => 0 <= f < 8 | _ => 0 <= f < 16 end.

Lemma read_rn_spec z f s : field_ok z f -> read_rn (bytes_of z) f s = Ok (reg z s f) s.
Proof.
  intros H. destruct z; cbn [bytes_of reg field_ok] in *; unfold read_rn; cbn [Z.eqb Pos.eqb].
  - now apply read_rn_b_spec.
  - now apply read_rn_w_spec.
  - now apply read_rn_l_spec.
Qed.
Lemma write_rn_spec z f v s : field_ok z f -> 0 <= v < 2^(bits_of z) -> regs_ok s ->
  write_rn (bytes_of z) f v s = Ok tt (set_reg z s f v).
Proof.
  intros H Hv Hs. destruct z; cbn [bytes_of set_reg field_ok bits_of] in *; unfold write_rn; cbn [Z.eqb Pos.eqb].
  - apply write_rn_b_spec; assumption.
  - apply write_rn_w_spec; assumption.
  - now apply write_rn_l_spec.
Qed.

(* results of the reference ALU stay in range *)
Lemma alu2_ref_range o n a b c : width n -> 0 <= a < 2^n -> 0 <= b < 2^n -> 0 <= fst (alu2_ref o n a b c) < 2^n.
Proof.
  intros Hn Ha Hb.
  assert (0 < 2^n) by (destruct Hn as [ -> | [ -> | -> ] ]; cbn; lia).
  assert (0 <= n) by (destruct Hn as [ -> | [ -> | -> ] ]; lia).
  destruct o; cbn [alu2_ref fst]; try (apply Z.mod_pos_bound; lia).
  - now apply land_range.
  - now apply lor_range.
  - now apply lxor_range.
Qed.

(* charge of n instruction-fetch cycles, independent of registers and CCR *)
Lemma cs_frame kind n s c rg v : cs kind n s = Ok v s -> cs kind n (set_regs rg (set_ccr c s)) = Ok v (set_regs rg (set_ccr c s)).
Proof.
  unfold cs, lift. cbn [cbus opc set_regs set_ccr].
  destruct (calc_state (cbus s) (opc s) kind n); intros H; inversion H; reflexivity.
Qed.
Lemma cs_frame_ccr kind n s c v : cs kind n s = Ok v s -> cs kind n (set_ccr c s) = Ok v (set_ccr c s).
Proof.
  unfold cs, lift. cbn [cbus opc set_ccr].
  destruct (calc_state (cbus s) (opc s) kind n); intros H; inversion H; reflexivity.
Qed.

(* ---- two-operand ALU, register source: ADD SUB CMP AND OR XOR ADDX  Rs,Rd ---- *)
Theorem alu2_rn_refines :
  forall o z op s n,
    cpu_ok s ->
    let rs := match z with SL => Z.land (nib op 3) 7 | _ => nib op 3 end in
    let rd := nib op 4 in
    field_ok z rs -> field_ok z rd -> (o = AAddx -> z = SB) ->
    cs KI 1 s = Ok n s ->
    run_tag (TAlu2Rn o z) op 0 0 s =
    Ok n (let '(r, c) := alu2_ref o (bits_of z) (reg z s rd) (reg z s rs) (ccr s) in
          with_ccr c (match o with ACmp => s | _ => set_reg z s rd r end)).
Proof.
  intros o z op s n [Hregs Hccr] rs rd Hrs Hrd Hx Hcs.
  cbn [run_tag]. fold rs rd.
  unfold bind at 1. rewrite read_rn_spec by assumption.
  unfold bind at 1. rewrite read_rn_spec by assumption.
  unfold bind at 1. unfold get_ccr.
  pose proof (reg_range z s rd Hregs) as Ra. pose proof (reg_range z s rs Hregs) as Rb.
  rewrite alu2_fun_spec; try assumption; try apply width_bits.
  2:{ intros E. rewrite (Hx E). reflexivity. }
  pose proof (alu2_ref_range o (bits_of z) (reg z s rd) (reg z s rs) (ccr s) (width_bits z) Ra Rb) as Rr.
  destruct (alu2_ref o (bits_of z) (reg z s rd) (reg z s rs) (ccr s)) as [r c] eqn:E. cbn [fst] in Rr.
  unfold bind, put_ccr, modify.
  destruct o; cbn [alu2_writes];
    try (rewrite write_rn_spec by (try assumption; exact Hregs));
    unfold with_ccr; cbn [ret].
  all: try (unfold set_reg; destruct z; unfold set_reg8, set_reg16, set_reg32, reg32; cbn [er set_ccr];
            repeat match goal with |- context [if ?c then _ else _] => destruct c end;
            apply cs_frame; exact Hcs).
Qed.

Lemma alu1_ref_range o n v c : width n -> 0 <= v < 2^n -> 0 <= c < 256 -> alu1_defined o n ->
  0 <= fst (alu1_ref o n v c) < 2^n.
Proof.
  intros Hn Hv Hc Hd.
  destruct Hn as [ -> | [ -> | -> ] ]; destruct o; cbn [alu1_ref fst alu1_defined] in *;
    unfold sx in *; pows; try (destruct (flag c fC)); try lia;
    try (destruct Hd as [Hd|Hd]; discriminate Hd);
    repeat match goal with |- context [if ?c then _ else _] => destruct c eqn:? end; lia.
Qed.

(* ---- one-operand ALU: NEG NOT EXTU INC DEC and the shifts / rotates (SHAL outside its known class) ---- *)
Theorem alu1_refines :
  forall o z op s n,
    cpu_ok s -> let rd := nib op 4 in
    field_ok z rd -> alu1_defined o (bits_of z) ->
    (o = UShal -> shal_known (bits_of z) (reg z s rd) = false) ->
    cs KI 1 s = Ok n s ->
    run_tag (TAlu1 o z) op 0 0 s =
    Ok n (let '(r, c) := alu1_ref o (bits_of z) (reg z s rd) (ccr s) in with_ccr c (set_reg z s rd r)).
Proof.
  intros o z op s n [Hregs Hccr] rd Hrd Hd Hk Hcs.
  cbn [run_tag]. fold rd.
  unfold bind at 1. rewrite read_rn_spec by assumption.
  unfold bind at 1. unfold get_ccr.
  pose proof (reg_range z s rd Hregs) as Ra.
  rewrite alu1_fun_spec; try assumption; try apply width_bits.
  pose proof (alu1_ref_range o (bits_of z) (reg z s rd) (ccr s) (width_bits z) Ra Hccr Hd) as Rr.
  destruct (alu1_ref o (bits_of z) (reg z s rd) (ccr s)) as [r c] eqn:E. cbn [fst] in Rr.
  unfold bind. rewrite write_rn_spec by assumption.
  unfold put_ccr, modify, with_ccr.
  unfold set_reg; destruct z; unfold set_reg8, set_reg16, set_reg32, reg32; cbn [er set_ccr];
    repeat match goal with |- context [if ?c then _ else _] => destruct c end;
    apply (cs_frame KI 1 s c _ n Hcs).
Qed.

(* ---- bit manipulation on a byte register, immediate or register bit number ---- *)
Lemma bit_ref_range o v k c : 0 <= v < 256 -> 0 <= k < 8 -> 0 <= fst (bit_ref o v k c) < 256.
Proof.
  intros Hv Hk. destruct o; cbn [bit_ref fst]; try lia; apply with_bit_exact; assumption.
Qed.

Theorem bit_rn_refines :
  forall o op s n (regsrc : bool),
    cpu_ok s ->
    let rd := nib op 4 in
    let k := if regsrc then reg8 s (nib op 3) mod 8 else Z.land (nib op 3) 7 in
    0 <= rd < 16 -> 0 <= nib op 3 < 16 ->
    cs KI 1 s = Ok n s ->
    run_tag (if regsrc then TBitRnRn o else TBitRnImm o) op 0 0 s =
    Ok n (let '(v, c) := bit_ref o (reg8 s rd) k (ccr s) in
          with_ccr c (if bit_writes o then set_reg8 s rd v else s)).
Proof.
  intros o op s n regsrc [Hregs Hccr] rd k Hrd Hn3 Hcs.
  assert (Hk : 0 <= k < 8).
  { subst k. destruct regsrc; [lia|]. change 7 with (2^3 - 1). rewrite land_ones_mod by lia. change (2^3) with 8. lia. }
  assert (Hkm : (if regsrc then Z.land (reg8 s (nib op 3)) 7 else Z.land (nib op 3) 7) = k).
  { subst k. destruct regsrc; [|reflexivity]. change 7 with (2^3 - 1). rewrite land_ones_mod by lia. reflexivity. }
  pose proof (reg8_range s rd) as Rv.
  destruct (bop_fun_spec o (reg8 s rd) k (ccr s) Rv Hk Hccr) as [Hf Hw].
  pose proof (bit_ref_range o (reg8 s rd) k (ccr s) Rv Hk) as Rr.
  destruct regsrc; cbn [run_tag]; fold rd.
  - unfold bind at 1. rewrite read_rn_b_spec by assumption.
    unfold bind at 1. rewrite read_rn_b_spec by assumption.
    unfold bind at 1. unfold get_ccr. rewrite Hkm, Hf, Hw.
    destruct (bit_ref o (reg8 s rd) k (ccr s)) as [v c] eqn:E. cbn [fst] in Rr.
    unfold bind. destruct (bit_writes o).
    + rewrite write_rn_b_spec by assumption. unfold put_ccr, modify, with_ccr, set_reg8, set_reg32, reg32. cbn [er set_ccr].
      destruct (rd <? 8); apply (cs_frame KI 1 s c _ n Hcs).
    + unfold ret, put_ccr, modify, with_ccr. apply cs_frame_ccr. exact Hcs.
  - unfold bind at 1. rewrite read_rn_b_spec by assumption.
    unfold bind at 1. unfold get_ccr. rewrite Hkm, Hf, Hw.
    destruct (bit_ref o (reg8 s rd) k (ccr s)) as [v c] eqn:E. cbn [fst] in Rr.
    unfold bind. destruct (bit_writes o).
    + rewrite write_rn_b_spec by assumption. unfold put_ccr, modify, with_ccr, set_reg8, set_reg32, reg32. cbn [er set_ccr].
      destruct (rd <? 8); apply (cs_frame KI 1 s c _ n Hcs).
    + unfold ret, put_ccr, modify, with_ccr. apply cs_frame_ccr. exact Hcs.
Qed.

(* ---- MOV Rs,Rd ---- *)
Theorem mov_rr_refines :
  forall z op s n,
    cpu_ok s ->
    let rs := match z with SL => Z.land (nib op 3) 7 | _ => nib op 3 end in
    let rd := nib op 4 in
    field_ok z rs -> field_ok z rd ->
    cs KI 1 s = Ok n s ->
    run_tag (TMovRn z) op 0 0 s =
    Ok n (let v := reg z s rs in
          with_ccr (set_flag fV false (set_nz (bits_of z) v (ccr s))) (set_reg z s rd v)).
Proof.
  intros z op s n [Hregs Hccr] rs rd Hrs Hrd Hcs.
  cbn [run_tag]. fold rs rd.
  unfold bind at 1. rewrite read_rn_spec by assumption.
  pose proof (reg_range z s rs Hregs) as Rv.
  unfold bind at 1. rewrite write_rn_spec by assumption.
  unfold bind at 1. unfold set_mov_flags, bind, get_ccr, put_ccr, modify, mov_flags.
  assert (Hc' : ccr (set_reg z s rd (reg z s rs)) = ccr s)
    by (unfold set_reg; destruct z; unfold set_reg8, set_reg16, set_reg32; repeat match goal with |- context [if ?c then _ else _] => destruct c end; reflexivity).
  rewrite Hc'. rewrite logic_flags_spec by (try apply width_bits; assumption).
  unfold with_ccr.
  unfold set_reg; destruct z; unfold set_reg8, set_reg16, set_reg32, reg32; cbn [er set_ccr];
    repeat match goal with |- context [if ?c then _ else _] => destruct c end;
    apply (cs_frame KI 1 s _ _ n Hcs).
Qed.
