(* From the instruction words in memory to the reference semantics: four-byte instructions whose second word is an
   operand (Bcc d:16, JMP @aa:24, BSR d:16, JSR @aa:24, MOV.W #xx:16, ADD/CMP/SUB/OR/XOR/AND.W #xx:16). *)
From Coq Require Import Bool ZArith Lia ZifyBool List.
From K Require Import Lib.Bits Lib.Types Model.Machine Model.Bus Model.Cost Model.Addressing Model.Alu Model.Exec Spec.ISA
  Proofs.RegProofs Proofs.MemProofs Proofs.FlagProofs Proofs.AluProofs Proofs.EaProofs Proofs.StepProofs Proofs.DecodeProofs
  Proofs.CtlProofs Proofs.MovProofs Proofs.TwoByte Proofs.FourByte Proofs.StepRefines Proofs.StepRefinesCtl Proofs.StepRefines2.
Import ListNotations.
Open Scope bool_scope. Open Scope Z_scope.
Ltac Zify.zify_post_hook ::= Z.div_mod_to_equations.

Definition is_long (t : tag) : bool :=
  match t with TBcc16 _ | TJmpAbs | TBsr16 | TJsrAbs | TMovImm SW | TAlu2Imm _ SW => true | _ => false end.
Definition operand4 (i : insn) : bool :=
  match i with IBcc _ _ | IBsr _ | IJmp (JAbs _) | IJsr (JAbs _) | IMovImm SW _ _ | IAlu2I _ SW _ _ => true | _ => false end.
Definition four_byte_tag_ok (w : Z) : bool :=
  match decode_ref w 0 0 0 0 with
  | Some (i, len) => if (len =? 4) && operand4 i then is_long (select1 w) else true
  | None => true
  end
  && match select1 w with TBcc16 cc => (0 <=? cc) && (cc <? 16) | TAlu2Imm AAddx SW => false | _ => true end.
Lemma four_byte_tag_sweep : forallb four_byte_tag_ok (zrange 65536) = true.
Proof. vm_compute. reflexivity. Qed.

Lemma is_long_not_prefix t : is_long t = true -> is_prefix t = false.
Proof. destruct t; cbn; try discriminate; try reflexivity; destruct s; cbn; try discriminate; reflexivity. Qed.

Lemma four_byte_dispatch w i0 : 0 <= w < 65536 -> decode_ref w 0 0 0 0 = Some (i0, 4) -> operand4 i0 = true ->
  is_long (select1 w) = true /\ agree (select1 w) w 0 i0 = true /\
  match select1 w with TBcc16 cc => 0 <= cc < 16 | TAlu2Imm o SW => o <> AAddx | _ => True end.
Proof.
  intros Hw Hd Ho.
  pose proof (forallb_zrange _ 65536 four_byte_tag_sweep w Hw) as H2. unfold four_byte_tag_ok in H2. rewrite Hd, Ho in H2.
  cbn [Z.eqb Pos.eqb andb] in H2. apply andb_true_iff in H2. destruct H2 as [Hl H3].
  pose proof (forallb_zrange _ 65536 first_word_sweep w Hw) as H1. unfold agree1 in H1. rewrite Hd in H1.
  rewrite (is_long_not_prefix _ Hl) in H1. cbn [orb] in H1.
  split; [assumption|]. split; [assumption|].
  destruct (select1 w); try exact I.
  - destruct s; try exact I. destruct o; try discriminate H3; discriminate.
  - lia.
Qed.

(* the two instruction words *)
Definition post_fetch2 (s : cpu) : cpu := set_pc (pc s + 4) (set_opc (pc s + 2) s).

Lemma step_long s w :
  bus_bytes_ok s -> pc s mod 2 = 0 -> 0 <= pc s -> pc s + 2 < 4294967296 -> mem_read SW s (pc s) = Some w ->
  is_long (select1 w) = true ->
  step s = finish (run_tag (select1 w) w 0 0 (post_fetch s)).
Proof. intros Hb Hev H0 H1 Hw Hl. apply step_via_handler; try assumption. now apply is_long_not_prefix. Qed.

(* ---- Bcc d:16 ---- *)
Theorem step_bcc16_proof s w d w2 w3 w4 cc disp n s' :
  cpu_ok s -> bus_bytes_ok s -> fault s = false -> pc s mod 2 = 0 -> 0 <= pc s -> pc s + 4 < 4294967296 ->
  mem_read SW s (pc s) = Some w -> mem_read SW s (pc s + 2) = Some d ->
  decode_ref w d w2 w3 w4 = Some (IBcc cc disp, 4) ->
  (cond_ref cc (ccr s) = true -> 0 <= pc s + 4 + disp < 4294967296 /\ (pc s + 4 + disp) mod 2 = 0) ->
  sem_ref (IBcc cc disp) 4 s = Some s' ->
  (i <- cs KI 2 ;; n <- cs KN 2 ;; ret (u8add i n)) (set_opc (pc s + 2) s') = Ok n (set_opc (pc s + 2) s') ->
  step s = Ok n (set_opc (pc s + 2) s').
Proof.
  intros [Hr Hc] Hb Hf Hev H0 H1 Hw Hd2 Hdec Ht Hsem Hcs.
  pose proof (word_range s _ _ Hb Hw) as Rw.
  destruct (four_byte_operand _ _ _ _ _ _ Hdec) as [Hd0 Edisp].
  destruct (four_byte_dispatch w _ Rw Hd0 eq_refl) as (Hl & Hag & Hx).
  rewrite (step_long s w) by (try assumption; lia).
  destruct (select1 w) eqn:Es; cbn [is_long] in Hl; try discriminate Hl; try (simpl in Hag; discriminate Hag);
    try (destruct s0; discriminate Hl).
  cbn [agree] in Hag. assert (cc0 = cc) by lia. subst cc0.
  rewrite (bcc16_refines_proof cc w d (post_fetch s)); try assumption; unfold post_fetch; cbn [pc ccr set_pc set_opc]; try lia.
  cbn [sem_ref] in Hsem. (apply (f_equal (fun o => match o with Some x => x | None => s' end)) in Hsem; cbv beta iota in Hsem; subst s').
  rewrite <- Edisp.
  replace (pc s + 2 + 2 + disp) with (pc s + 4 + disp) by lia. replace (pc s + 2 + 2) with (pc s + 4) by lia.
  change (with_pc (if cond_ref cc (ccr s) then pc s + 4 + disp else pc s + 4) (set_opc (pc s + 2) (set_pc (pc s + 2) (set_opc (pc s) s))))
    with (set_opc (pc s + 2) (with_pc (if cond_ref cc (ccr s) then pc s + 4 + disp else pc s + 4) s)).
  rewrite Hcs. unfold finish. cbn [fault set_opc with_pc set_pc]. rewrite Hf. reflexivity.
Qed.

Lemma lob_lo8 w : 0 <= w -> lob w = lo8 w.
Proof. intros H. unfold lob, lo8. change 0xff with (2^8 - 1). rewrite land_ones_mod by lia. reflexivity. Qed.

(* ---- JMP @aa:24 ---- *)
Theorem step_jmp_abs_proof s w d w2 w3 w4 a n s' :
  bus_bytes_ok s -> fault s = false -> pc s mod 2 = 0 -> 0 <= pc s -> pc s + 4 < 4294967296 ->
  mem_read SW s (pc s) = Some w -> mem_read SW s (pc s + 2) = Some d ->
  decode_ref w d w2 w3 w4 = Some (IJmp (JAbs a), 4) ->
  sem_ref (IJmp (JAbs a)) 4 s = Some s' ->
  (i <- cs KI 2 ;; n <- cs KN 2 ;; ret (u8add i n)) (set_opc (pc s + 2) s') = Ok n (set_opc (pc s + 2) s') ->
  step s = Ok n (set_opc (pc s + 2) s').
Proof.
  intros Hb Hf Hev H0 H1 Hw Hd2 Hdec Hsem Hcs.
  pose proof (word_range s _ _ Hb Hw) as Rw.
  destruct (four_byte_operand _ _ _ _ _ _ Hdec) as [Hd0 Ea].
  destruct (four_byte_dispatch w _ Rw Hd0 eq_refl) as (Hl & Hag & Hx).
  rewrite (step_long s w) by (try assumption; lia).
  destruct (select1 w) eqn:Es; cbn [is_long] in Hl; try discriminate Hl; try (simpl in Hag; discriminate Hag);
    try (destruct s0; discriminate Hl).
  pose proof (lo8_range w) as Rl.
  rewrite (jmp_abs_refines_proof w d (post_fetch s)); try assumption; unfold post_fetch; cbn [pc ccr set_pc set_opc]; try lia.
  cbn [sem_ref jump_target ISA.obind] in Hsem. (apply (f_equal (fun o => match o with Some x => x | None => s' end)) in Hsem; cbv beta iota in Hsem; subst s').
  subst a. rewrite lob_lo8 in * by lia.
  change (with_pc (lo8 w * 65536 + d) (set_opc (pc s + 2) (set_pc (pc s + 2) (set_opc (pc s) s))))
    with (set_opc (pc s + 2) (with_pc (lo8 w * 65536 + d) s)).
  rewrite Hcs. unfold finish. cbn [fault set_opc with_pc set_pc]. rewrite Hf. reflexivity.
Qed.

(* ---- BSR d:16 ---- *)
Theorem step_bsr16_proof s w d w2 w3 w4 disp n s' :
  cpu_ok s -> bus_bytes_ok s -> fault s = false -> pc s mod 2 = 0 -> 0 <= pc s -> pc s + 4 < 4294967296 ->
  mem_read SW s (pc s) = Some w -> mem_read SW s (pc s + 2) = Some d ->
  decode_ref w d w2 w3 w4 = Some (IBsr disp, 4) ->
  0 <= pc s + 4 + disp < 4294967296 ->
  sem_ref (IBsr disp) 4 s = Some s' ->
  (i <- cs KI 2 ;; k <- csa KK 2 ((reg32 s 7 - 4) mod A24) ;; n <- cs KN 2 ;; ret (u8add (u8add i k) n)) (set_opc (pc s + 2) s') = Ok n (set_opc (pc s + 2) s') ->
  step s = Ok n (set_opc (pc s + 2) s').
Proof.
  intros [Hr Hc] Hb Hf Hev H0 H1 Hw Hd2 Hdec Ht Hsem Hcs.
  pose proof (word_range s _ _ Hb Hw) as Rw.
  destruct (four_byte_operand _ _ _ _ _ _ Hdec) as [Hd0 Edisp].
  destruct (four_byte_dispatch w _ Rw Hd0 eq_refl) as (Hl & Hag & Hx).
  rewrite (step_long s w) by (try assumption; lia).
  destruct (select1 w) eqn:Es; cbn [is_long] in Hl; try discriminate Hl; try (simpl in Hag; discriminate Hag);
    try (destruct s0; discriminate Hl).
  rewrite (bsr16_refines_proof w d (post_fetch s)); try assumption; unfold post_fetch; cbn [pc ccr set_pc set_opc]; try lia.
  cbn [sem_ref] in Hsem.
  change (reg32 (set_pc (pc s + 2) (set_opc (pc s) s)) 7) with (reg32 s 7).
  replace (pc s + 2 + 2) with (pc s + 4) by lia.
  change (set_pc (pc s + 4) (set_opc (pc s + 2) (set_pc (pc s + 2) (set_opc (pc s) s)))) with (set_pc (pc s + 4) (set_opc (pc s + 2) s)).
  rewrite push32_pf.
  destruct (push32 s (pc s + 4)) as [s1|] eqn:E; cbn [ISA.obind] in Hsem; [|discriminate Hsem].
  (apply (f_equal (fun o => match o with Some x => x | None => s' end)) in Hsem; cbv beta iota in Hsem; subst s').
  cbn [option_map then_charge]. rewrite <- Edisp. rewrite (Z.mod_small (pc s + 4 + disp) 4294967296) by lia.
  rewrite with_pc_pf. rewrite Hcs. unfold finish.
  pose proof (push32_fault _ _ _ E) as Hf1. cbn [fault set_opc with_pc set_pc]. rewrite Hf1, Hf. reflexivity.
Qed.

(* ---- JSR @aa:24 ---- *)
Theorem step_jsr_abs_proof s w d w2 w3 w4 a n s' :
  cpu_ok s -> bus_bytes_ok s -> fault s = false -> pc s mod 2 = 0 -> 0 <= pc s -> pc s + 4 < 4294967296 ->
  mem_read SW s (pc s) = Some w -> mem_read SW s (pc s + 2) = Some d ->
  decode_ref w d w2 w3 w4 = Some (IJsr (JAbs a), 4) ->
  sem_ref (IJsr (JAbs a)) 4 s = Some s' ->
  (i <- cs KI 2 ;; k <- csa KK 2 ((reg32 s 7 - 4) mod A24) ;; n <- cs KN 2 ;; ret (u8add (u8add i k) n)) (set_opc (pc s + 2) s') = Ok n (set_opc (pc s + 2) s') ->
  step s = Ok n (set_opc (pc s + 2) s').
Proof.
  intros [Hr Hc] Hb Hf Hev H0 H1 Hw Hd2 Hdec Hsem Hcs.
  pose proof (word_range s _ _ Hb Hw) as Rw.
  destruct (four_byte_operand _ _ _ _ _ _ Hdec) as [Hd0 Ea].
  destruct (four_byte_dispatch w _ Rw Hd0 eq_refl) as (Hl & Hag & Hx).
  rewrite (step_long s w) by (try assumption; lia).
  destruct (select1 w) eqn:Es; cbn [is_long] in Hl; try discriminate Hl; try (simpl in Hag; discriminate Hag);
    try (destruct s0; discriminate Hl).
  pose proof (lo8_range w) as Rl.
  rewrite (jsr_abs_refines_proof w d (post_fetch s)); try assumption; unfold post_fetch; cbn [pc ccr set_pc set_opc]; try lia.
  cbn [sem_ref jump_target ISA.obind] in Hsem.
  change (reg32 (set_pc (pc s + 2) (set_opc (pc s) s)) 7) with (reg32 s 7).
  replace (pc s + 2 + 2) with (pc s + 4) by lia.
  change (set_pc (pc s + 4) (set_opc (pc s + 2) (set_pc (pc s + 2) (set_opc (pc s) s)))) with (set_pc (pc s + 4) (set_opc (pc s + 2) s)).
  rewrite push32_pf.
  destruct (push32 s (pc s + 4)) as [s1|] eqn:E; cbn [ISA.obind] in Hsem; [|discriminate Hsem].
  (apply (f_equal (fun o => match o with Some x => x | None => s' end)) in Hsem; cbv beta iota in Hsem; subst s').
  cbn [option_map then_charge]. subst a. rewrite lob_lo8 in * by lia.
  rewrite with_pc_pf. rewrite Hcs. unfold finish.
  pose proof (push32_fault _ _ _ E) as Hf1. cbn [fault set_opc with_pc set_pc]. rewrite Hf1, Hf. reflexivity.
Qed.

Lemma cs_frame2 kind n s c rg v : cs kind n s = Ok v s -> cs kind n (set_ccr c (set_regs rg s)) = Ok v (set_ccr c (set_regs rg s)).
Proof.
  unfold cs, lift. cbn [cbus opc set_regs set_ccr].
  destruct (calc_state (cbus s) (opc s) kind n); intros H; inversion H; reflexivity.
Qed.

(* ---- MOV.W #xx:16,Rd ---- *)
Theorem step_mov_imm_w_proof s w d w2 w3 w4 imm rd n :
  cpu_ok s -> bus_bytes_ok s -> fault s = false -> pc s mod 2 = 0 -> 0 <= pc s -> pc s + 4 < 4294967296 ->
  mem_read SW s (pc s) = Some w -> mem_read SW s (pc s + 2) = Some d ->
  decode_ref w d w2 w3 w4 = Some (IMovImm SW imm rd, 4) ->
  cs KI 2 (post_fetch2 s) = Ok n (post_fetch2 s) ->
  exists s', sem_ref (IMovImm SW imm rd) 4 s = Some s' /\ step s = Ok n (set_opc (pc s + 2) s').
Proof.
  intros [Hr Hc] Hb Hf Hev H0 H1 Hw Hd2 Hdec Hcs.
  pose proof (word_range s _ _ Hb Hw) as Rw. pose proof (word_range s _ _ Hb Hd2) as Rd.
  destruct (four_byte_operand _ _ _ _ _ _ Hdec) as [Hd0 Ei].
  destruct (four_byte_dispatch w _ Rw Hd0 eq_refl) as (Hl & Hag & Hx).
  rewrite (step_long s w) by (try assumption; lia).
  destruct (select1 w) eqn:Es; cbn [is_long] in Hl; try discriminate Hl; try (simpl in Hag; discriminate Hag);
    try (destruct s0; try discriminate Hl; simpl in Hag; discriminate Hag).
  destruct s0; try discriminate Hl.
  cbn [agree] in Hag. assert (Er : rd = nib w 4) by lia. pose proof (nib_range w 4) as R4.
  cbn [run_tag]. unfold bind at 1.
  rewrite (fetch_word (post_fetch s) d) by (try assumption; unfold post_fetch; cbn [pc set_pc set_opc]; try lia; exact Hd2).
  unfold post_fetch. cbn [pc set_pc set_opc]. replace (pc s + 2 + 2) with (pc s + 4) by lia.
  change (set_pc (pc s + 4) (set_opc (pc s + 2) (set_pc (pc s + 2) (set_opc (pc s) s)))) with (post_fetch2 s).
  unfold bind at 1. rewrite write_rn_w_spec by (try assumption; lia).
  unfold bind at 1.
  change (set_reg16 (post_fetch2 s) (nib w 4) d) with (set_reg SW (post_fetch2 s) (nib w 4) d).
  rewrite (set_mov_flags_spec SW) by (try (rewrite ccr_set_reg; exact Hc); cbn [bits_of]; change (2^16) with 65536; lia).
  rewrite ccr_set_reg. unfold post_fetch2 at 1 2. rewrite set_reg_set_pc_opc.
  cbn [sem_ref]. subst imm. rewrite <- Er. cbn [ccr set_pc set_opc].
  eexists. split; [reflexivity|].
  assert (Hfin : with_ccr (mov_ccr SW d (ccr s)) (set_pc (pc s + 4) (set_opc (pc s + 2) (set_reg SW s rd d))) =
                 set_opc (pc s + 2) (with_pc (pc s + 4) (with_ccr (set_flag fV false (set_nz (bits_of SW) d (ccr s))) (set_reg SW s rd d)))) by reflexivity.
  rewrite Hfin.
  set (fin := set_opc (pc s + 2) (with_pc (pc s + 4) (with_ccr (set_flag fV false (set_nz (bits_of SW) d (ccr s))) (set_reg SW s rd d)))) in *.
  assert (Hcs' : cs KI 2 fin = Ok n fin).
  { rewrite <- Hfin. unfold with_ccr. rewrite <- set_reg_set_pc_opc. fold (post_fetch2 s).
    unfold set_reg, set_reg16, set_reg32, reg32. cbn [er]. destruct (rd <? 8); apply cs_frame2; exact Hcs. }
  rewrite Hcs'. subst fin. unfold finish, with_pc, with_ccr. cbn [fault set_opc set_pc set_ccr]. rewrite fault_set_reg, Hf. reflexivity.
Qed.

Lemma set_reg_pf2 z s c rd r :
  set_reg z (set_ccr c (post_fetch2 s)) rd r = set_opc (pc s + 2) (with_pc (pc s + 4) (with_ccr c (set_reg z s rd r))).
Proof.
  destruct z; unfold set_reg, set_reg8, set_reg16, set_reg32, reg32, post_fetch2, with_pc, with_ccr; cbn [er set_pc set_opc set_ccr];
    repeat match goal with |- context [if ?c then _ else _] => destruct c end; reflexivity.
Qed.

(* ---- ADD CMP SUB OR XOR AND .W #xx:16,Rd ---- *)
Theorem step_alu2_imm_w_proof s w d w2 w3 w4 o imm rd n :
  cpu_ok s -> bus_bytes_ok s -> fault s = false -> pc s mod 2 = 0 -> 0 <= pc s -> pc s + 4 < 4294967296 ->
  mem_read SW s (pc s) = Some w -> mem_read SW s (pc s + 2) = Some d ->
  decode_ref w d w2 w3 w4 = Some (IAlu2I o SW imm rd, 4) ->
  cs KI 2 (post_fetch2 s) = Ok n (post_fetch2 s) ->
  exists s', sem_ref (IAlu2I o SW imm rd) 4 s = Some s' /\ step s = Ok n (set_opc (pc s + 2) s').
Proof.
  intros [Hr Hc] Hb Hf Hev H0 H1 Hw Hd2 Hdec Hcs.
  pose proof (word_range s _ _ Hb Hw) as Rw. pose proof (word_range s _ _ Hb Hd2) as Rd.
  destruct (four_byte_operand _ _ _ _ _ _ Hdec) as [Hd0 Ei].
  destruct (four_byte_dispatch w _ Rw Hd0 eq_refl) as (Hl & Hag & Hx).
  rewrite (step_long s w) by (try assumption; lia).
  destruct (select1 w) eqn:Es; cbn [is_long] in Hl; try discriminate Hl; try (simpl in Hag; discriminate Hag);
    try (destruct s0; try discriminate Hl; simpl in Hag; discriminate Hag).
  destruct s0; try discriminate Hl.
  cbn [agree] in Hag. apply andb_true_iff in Hag. destruct Hag as [Ho Hrd]. apply alu2_eqb_eq in Ho. subst o0.
  assert (Er : rd = nib w 4) by lia. pose proof (nib_range w 4) as R4.
  cbn [run_tag]. unfold bind at 1.
  rewrite (fetch_word (post_fetch s) d) by (try assumption; unfold post_fetch; cbn [pc set_pc set_opc]; try lia; exact Hd2).
  unfold post_fetch. cbn [pc set_pc set_opc]. replace (pc s + 2 + 2) with (pc s + 4) by lia.
  change (set_pc (pc s + 4) (set_opc (pc s + 2) (set_pc (pc s + 2) (set_opc (pc s) s)))) with (post_fetch2 s).
  unfold bind at 1. rewrite read_rn_w_spec by lia. unfold bind at 1. unfold get_ccr.
  change (reg16 (post_fetch2 s) (nib w 4)) with (reg16 s (nib w 4)). change (ccr (post_fetch2 s)) with (ccr s).
  pose proof (reg16_range s (nib w 4)) as Ra.
  rewrite alu2_fun_spec; try assumption; try (right; left; reflexivity); try (change (2^16) with 65536; lia).
  2:{ intros E. exfalso. exact (Hx E). }
  pose proof (alu2_ref_range o 16 (reg16 s (nib w 4)) d (ccr s) ltac:(right; left; reflexivity) ltac:(change (2^16) with 65536; lia) ltac:(change (2^16) with 65536; lia)) as Rr.
  cbn [sem_ref bits_of reg set_reg]. subst imm. rewrite <- Er in *.
  destruct (alu2_ref o 16 (reg16 s rd) d (ccr s)) as [r c]. cbn [fst] in Rr. change (2^16) with 65536 in Rr.
  eexists. split; [reflexivity|].
  unfold bind at 1. unfold put_ccr, modify. unfold bind at 1.
  destruct o; cbn [alu2_writes];
    try (rewrite write_rn_w_spec by (try exact Hr; lia);
         change (set_reg16 (set_ccr c (post_fetch2 s)) rd r) with (set_reg SW (set_ccr c (post_fetch2 s)) rd r);
         assert (Hcs' : cs KI 2 (set_reg SW (set_ccr c (post_fetch2 s)) rd r) = Ok n (set_reg SW (set_ccr c (post_fetch2 s)) rd r))
           by (unfold set_reg, set_reg16, set_reg32, reg32; cbn [er set_ccr]; destruct (rd <? 8); apply cs_frame; exact Hcs);
         unfold bind; rewrite Hcs'; rewrite set_reg_pf2; unfold finish, with_pc, with_ccr; cbn [fault set_opc set_pc set_ccr];
         rewrite fault_set_reg, Hf; reflexivity).
  (* CMP *)
  unfold bind, ret.
  change (set_ccr c (post_fetch2 s)) with (set_opc (pc s + 2) (with_pc (pc s + 4) (with_ccr c s))).
  assert (Hcs' : cs KI 2 (set_opc (pc s + 2) (with_pc (pc s + 4) (with_ccr c s))) = Ok n (set_opc (pc s + 2) (with_pc (pc s + 4) (with_ccr c s))))
    by (change (set_opc (pc s + 2) (with_pc (pc s + 4) (with_ccr c s))) with (set_ccr c (post_fetch2 s)); apply cs_frame_ccr; exact Hcs).
  rewrite Hcs'. unfold finish, with_pc, with_ccr. cbn [fault set_opc set_pc set_ccr]. rewrite Hf. reflexivity.
Qed.
