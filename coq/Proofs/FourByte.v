(* Four-byte instructions whose second word is an operand: the operation-code map takes everything but the operand
   from the first word. *)
From Coq Require Import Bool ZArith Lia List.
From K Require Import Lib.Types Spec.ISA Proofs.TwoByte.
Open Scope bool_scope. Open Scope Z_scope.

Definition operand_shape (w0 w1 : Z) (i : insn) : Prop :=
  match i with
  | IBcc cc d => decode_ref w0 0 0 0 0 = Some (IBcc cc (sx 16 0), 4) /\ d = sx 16 w1
  | IBsr d => decode_ref w0 0 0 0 0 = Some (IBsr (sx 16 0), 4) /\ d = sx 16 w1
  | IJmp (JAbs a) => decode_ref w0 0 0 0 0 = Some (IJmp (JAbs (lob w0 * 65536 + 0)), 4) /\ a = lob w0 * 65536 + w1
  | IJsr (JAbs a) => decode_ref w0 0 0 0 0 = Some (IJsr (JAbs (lob w0 * 65536 + 0)), 4) /\ a = lob w0 * 65536 + w1
  | IMovImm SW imm rd => decode_ref w0 0 0 0 0 = Some (IMovImm SW 0 rd, 4) /\ imm = w1
  | IAlu2I o SW imm rd => decode_ref w0 0 0 0 0 = Some (IAlu2I o SW 0 rd, 4) /\ imm = w1
  | _ => True
  end.

Lemma four_byte_operand w0 w1 w2 w3 w4 i :
  decode_ref w0 w1 w2 w3 w4 = Some (i, 4) -> operand_shape w0 w1 i.
Proof.
  unfold decode_ref, dec_mov_mem, dec_unary, dec_imm_group, dec_bit_mem, req, ok. cbv zeta.
  split_ifs; intros H; try discriminate H;
    try (injection H as <-; unfold operand_shape; try exact I; try (split; reflexivity); fail);
    try (exfalso; clear -H; inversion H; fail).
  all: (apply (f_equal (fun o => match o with Some (x, _) => x | None => i end)) in H; cbv beta iota in H; subst i; unfold operand_shape;
        try exact I; split; [|reflexivity];
        unfold decode_ref, dec_mov_mem, dec_unary, dec_imm_group, dec_bit_mem, req, ok; cbv zeta;
        repeat match goal with E : ?c = _ |- context [if ?c then _ else _] => rewrite E end; try reflexivity).
Qed.
