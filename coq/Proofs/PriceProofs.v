From Coq Require Import Bool ZArith Lia ZifyBool List.
From K Require Import Lib.Bits Model.Machine Model.Bus Model.Cost Spec.Price.
Open Scope bool_scope. Open Scope Z_scope.
Ltac Zify.zify_post_hook ::= Z.div_mod_to_equations.

Lemma land3_mod4 x : Z.land x 3 = x mod 4.
Proof. change 3 with (2^2 - 1). apply land_ones_mod. lia. Qed.

Lemma get_area_index_spec a : 0 <= a <= 0xffffff -> get_area_index a = Some (area_of a).
Proof.
  intros H. unfold get_area_index, area_of, inr.
  repeat match goal with |- context [if ?c then _ else _] => destruct c eqn:? end;
    try (f_equal; lia); lia.
Qed.

Lemma area_of_range a : 0 <= a <= 0xffffff -> 0 <= area_of a <= 7.
Proof. unfold area_of. lia. Qed.

(* reading a bus-controller register never fails *)
Definition reg (b : bus) (a : Z) : Z := sget (b_io1 b) (a - IO1_START).
Lemma read_reg b a : IO1_START <= a <= IO1_END -> bus_read b a = Some (reg b a).
Proof.
  intros H. unfold bus_read, reg, inr, VEC_START, VEC_END, IO1_START, IO1_END in *.
  destruct ((0 <=? a) && (a <=? 255)) eqn:E1; [lia|].
  destruct ((16703488 <=? a) && (a <=? 16703743)) eqn:E2; [reflexivity|lia].
Qed.

Definition bytes_ok (b : bus) : Prop :=
  forall a, IO1_START <= a <= IO1_END -> 0 <= reg b a < 256.

Lemma wait_spec b area : 0 <= area <= 7 ->
  get_wait_state b area =
  Some (if area <? 4 then (reg b WCRL / 2^(2*area)) mod 4 else (reg b WCRH / 2^(2*(area-4))) mod 4).
Proof.
  intros H. unfold get_wait_state.
  rewrite !read_reg by (unfold WCRL, WCRH, IO1_START, IO1_END; lia).
  destruct ((0 <=? area) && (area <=? 3)) eqn:E1.
  - assert (area <? 4 = true) as -> by lia.
    rewrite land3_mod4, shiftr_div by lia. now replace (area * 2) with (2 * area) by lia.
  - assert ((4 <=? area) && (area <=? 7) = true) as -> by lia.
    assert (area <? 4 = false) as -> by lia.
    rewrite land3_mod4, shiftr_div by lia. now replace ((area - 4) * 2) with (2 * (area - 4)) by lia.
Qed.

Lemma dram_spec b area : 0 <= area <= 7 -> 0 <= reg b DRCRA < 256 ->
  ((3 <=? area) && (area <=? 5) = true -> reg b DRCRA / 32 <= 1) ->
  check_dram_area b area = Some ((area =? 2) && (1 <=? reg b DRCRA / 32)).
Proof.
  intros H Hb Hd. unfold check_dram_area.
  rewrite read_reg by (unfold DRCRA, IO1_START, IO1_END; lia).
  f_equal.
  destruct (area =? 2) eqn:E2; [reflexivity|].
  destruct (area =? 3) eqn:E3; [lia|].
  destruct (area =? 4) eqn:E4; [lia|].
  destruct (area =? 5) eqn:E5; [lia|]. reflexivity.
Qed.

Lemma u8mul_small n k : 0 <= n <= 5 -> 0 <= k <= 14 -> u8mul n k = n * k.
Proof. intros. unfold u8mul. rewrite Z.mod_small; nia. Qed.

Theorem price_table_proof :
  forall b kind n addr,
    bytes_ok b ->
    dom_c19 (reg b DRCRA) kind n addr = true ->
    calc_state_with_addr b kind n addr =
    Some (n * price_ref (on_chip_ram addr)
                 (settings_of_area (reg b ABWCR) (reg b ASTCR) (reg b WCRH) (reg b WCRL) (reg b DRCRA)
                                   (area_of addr)) kind).
Proof.
  intros b kind n addr Hb Hdom.
  unfold dom_c19 in Hdom.
  assert (Hk : 0 <= kind <= 5) by lia.
  assert (Hn : 1 <= n <= 5) by lia.
  assert (Ha : 0 <= addr <= 0xffffff) by lia.
  pose proof (area_of_range addr Ha) as Har.
  assert (Hd : (3 <=? area_of addr) && (area_of addr <=? 5) = true -> reg b DRCRA / 32 <= 1).
  { intros E. rewrite E in Hdom. lia. }
  pose proof (Hb DRCRA ltac:(unfold DRCRA, IO1_START, IO1_END; lia)) as HbD.
  unfold calc_state_with_addr, price_ref, KN.
  destruct (kind =? 5) eqn:EN.
  { f_equal. unfold u8mul. rewrite Z.mod_small; lia. }
  unfold on_chip_ram, inr, RAM_START, RAM_END.
  destruct ((16760608 <=? addr) && (addr <=? 16776991)) eqn:ER.
  { f_equal. unfold u8mul. rewrite Z.mod_small; lia. }
  assert ((0 <=? addr) && (addr <=? 16777215) = true) as -> by lia.
  rewrite get_area_index_spec by exact Ha. cbn [obind].
  rewrite !read_reg by (unfold ABWCR, ASTCR, IO1_START, IO1_END; lia). cbn [obind].
  rewrite dram_spec by assumption. cbn [obind].
  rewrite wait_spec by exact Har.
  rewrite !land1_mod2, !shiftr_div by lia.
  unfold settings_of_area, per_access, bit; cbn [c_8bit c_3state c_wait c_dram].
  set (A := area_of addr) in *.
  set (w := if A <? 4 then _ else _).
  assert (Hw : 0 <= w <= 3).
  { subst w. destruct (A <? 4); lia. }
  clearbody w.
  set (dr := (A =? 2) && (1 <=? reg b DRCRA / 32)). clearbody dr.
  set (x8 := (reg b ABWCR / 2 ^ A) mod 2). set (x3 := (reg b ASTCR / 2 ^ A) mod 2).
  assert (0 <= x8 < 2) by (subst x8; lia). assert (0 <= x3 < 2) by (subst x3; lia).
  clearbody x8 x3.
  assert (Hwk : is_word_kind kind = word_sized kind).
  { unfold is_word_kind, word_sized, KI, KJ, KK, KM. reflexivity. }
  rewrite Hwk. cbn [obind].
  destruct (x8 =? 1) eqn:E8; destruct dr; cbn [obind andb];
    destruct (word_sized kind); cbn [obind andb];
    repeat match goal with |- context [if ?c then _ else _] => destruct c eqn:? end;
    cbn [obind]; try (f_equal; rewrite u8mul_small by lia; lia); try lia.
Qed.

Lemma dom_c19_one d k n a : dom_c19 d k n a = true -> dom_c19 d k 1 a = true.
Proof.
  unfold dom_c19. cbv zeta. intros H.
  repeat match goal with H : _ && _ = true |- _ => apply andb_true_iff in H; destruct H end.
  repeat (apply andb_true_iff; split); try assumption; reflexivity.
Qed.

(* n cycles cost n times one cycle *)
Theorem linear_in_n_proof :
  forall b kind n addr,
    bytes_ok b -> dom_c19 (reg b DRCRA) kind n addr = true ->
    exists p, calc_state_with_addr b kind 1 addr = Some p /\
              calc_state_with_addr b kind n addr = Some (n * p).
Proof.
  intros b kind n addr Hb Hd. eexists. split.
  - rewrite price_table_proof; [rewrite Z.mul_1_l; reflexivity|exact Hb|].
    eapply dom_c19_one; exact Hd.
  - now rewrite price_table_proof.
Qed.

(* settings of other areas never matter: two buses whose registers agree on the area's own
   width bit, state bit, wait pair and on DRAS charge the same *)
Theorem other_areas_irrelevant_proof :
  forall b b' kind n addr,
    bytes_ok b -> bytes_ok b' ->
    dom_c19 (reg b DRCRA) kind n addr = true ->
    reg b DRCRA / 32 = reg b' DRCRA / 32 ->
    settings_of_area (reg b ABWCR) (reg b ASTCR) (reg b WCRH) (reg b WCRL) (reg b DRCRA) (area_of addr) =
    settings_of_area (reg b' ABWCR) (reg b' ASTCR) (reg b' WCRH) (reg b' WCRL) (reg b' DRCRA) (area_of addr) ->
    calc_state_with_addr b kind n addr = calc_state_with_addr b' kind n addr.
Proof.
  intros b b' kind n addr Hb Hb' Hd Hdr Hs.
  rewrite !price_table_proof; try assumption.
  - now rewrite Hs.
  - unfold dom_c19 in *. now rewrite <- Hdr.
Qed.
