(* MOV with a 16-bit displacement or a 16-bit absolute address (C01, C08): the handler - fetch of the extension word,
   effective address, access - is the reference's state transformer followed by its charge, for every state. *)
From Coq Require Import Bool ZArith Lia ZifyBool List.
From K Require Import Lib.Bits Lib.Types Model.Machine Model.Bus Model.Cost Model.Addressing Model.Alu Model.Exec Spec.ISA
  Proofs.RegProofs Proofs.MemProofs Proofs.FlagProofs Proofs.AluProofs Proofs.EaProofs Proofs.StepProofs Proofs.IrqProofs Proofs.CtlProofs Proofs.MovProofs
  Proofs.StepRefines.
Import ListNotations.
Open Scope bool_scope. Open Scope Z_scope.
Ltac Zify.zify_post_hook ::= Z.div_mod_to_equations.

Definition icnt2 (z : sz) : Z := match z with SL => 3 | _ => 2 end.

(* s: the state in which the extension word d is the next word to be fetched *)
Theorem mov_disp16_load_proof z op op2 d s :
  let w := opw z op op2 in let s1 := post_fetch s in
  cpu_ok s -> bus_bytes_ok s -> pc s mod 2 = 0 -> 0 <= pc s -> pc s + 2 < 4294967296 -> mem_read SW s (pc s) = Some d ->
  Z.land w 0x80 = 0 -> 0 <= nib w 3 < 8 -> field_ok z (nib w 4) ->
  let a := ea_addr z s (EDisp (nib w 3) (sx 16 d)) in
  run_tag (TMovDisp16 z) op op2 0 s =
  then_charge (option_map (fun v => with_ccr (mov_ccr z v (ccr s)) (set_reg z s1 (nib w 4) v)) (mem_read z s a)) (mov_charge z a (icnt2 z) 0).
Proof.
  intros w s1 Hok Hb Hev H0 H1 Hd Hl Hr Hf a. cbn [run_tag]. fold (opw z op op2). fold w. fold (icnt2 z).
  pose proof (word_range s _ _ Hb Hd) as Rd.
  unfold bind at 1. rewrite (fetch_word s d) by assumption. fold (post_fetch s). fold s1.
  rewrite Hl. cbn [Z.eqb]. unfold bind at 1. rewrite ea_disp16 by assumption.
  change (ea_addr SB s1 (EDisp (nib w 3) (sx 16 d))) with a.
  rewrite mov_mem_load_proof by (first [exact Hok | exact Hb | assumption]).
  reflexivity.
Qed.

Theorem mov_disp16_store_proof z op op2 d s :
  let w := opw z op op2 in let s1 := post_fetch s in
  cpu_ok s -> bus_bytes_ok s -> pc s mod 2 = 0 -> 0 <= pc s -> pc s + 2 < 4294967296 -> mem_read SW s (pc s) = Some d ->
  Z.land w 0x80 <> 0 -> field_ok z (nib w 4) ->
  let a := ea_addr z s (EDisp (Z.land (nib w 3) 7) (sx 16 d)) in
  run_tag (TMovDisp16 z) op op2 0 s =
  then_charge (option_map (fun s2 => with_ccr (mov_ccr z (reg z s (nib w 4)) (ccr s)) s2) (mem_write z s1 a (reg z s (nib w 4)))) (mov_charge z a (icnt2 z) 0).
Proof.
  intros w s1 Hok Hb Hev H0 H1 Hd Hl Hf a. cbn [run_tag]. fold (opw z op op2). fold w. fold (icnt2 z).
  pose proof (word_range s _ _ Hb Hd) as Rd.
  assert (R7 : 0 <= Z.land (nib w 3) 7 < 8) by (change 7 with (2^3 - 1); rewrite land_ones_mod by lia; change (2^3) with 8; lia).
  unfold bind at 1. rewrite (fetch_word s d) by assumption. fold (post_fetch s). fold s1.
  replace (Z.land w 0x80 =? 0) with false by lia. unfold bind at 1. rewrite ea_disp16 by assumption.
  change (ea_addr SB s1 (EDisp (Z.land (nib w 3) 7) (sx 16 d))) with a.
  rewrite mov_mem_store_proof by (first [exact Hok | assumption]).
  reflexivity.
Qed.

(* MOV.B/W/L @aa:16 *)
Theorem mov_abs16_load_proof z op op2 d s :
  let w := opw z op op2 in let s1 := post_fetch s in
  cpu_ok s -> bus_bytes_ok s -> pc s mod 2 = 0 -> 0 <= pc s -> pc s + 2 < 4294967296 -> mem_read SW s (pc s) = Some d ->
  Z.land w 0xfff0 = (match z with SB => 0x6a00 | _ => 0x6b00 end) -> field_ok z (nib w 4) ->
  run_tag (TMovAbs16 z) op op2 0 s =
  then_charge (option_map (fun v => with_ccr (mov_ccr z v (ccr s)) (set_reg z s1 (nib w 4) v)) (mem_read z s (abs16 d))) (mov_charge z (abs16 d) (icnt2 z) 0).
Proof.
  intros w s1 Hok Hb Hev H0 H1 Hd Hl Hf. cbn [run_tag]. fold (opw z op op2). fold w. fold (icnt2 z).
  pose proof (word_range s _ _ Hb Hd) as Rd.
  unfold bind at 1. rewrite (fetch_word s d) by assumption. fold (post_fetch s). fold s1.
  rewrite Hl. rewrite Z.eqb_refl. rewrite ea_abs16 by assumption.
  rewrite mov_mem_load_proof by (first [exact Hok | exact Hb | assumption]).
  reflexivity.
Qed.

Theorem mov_abs16_store_proof z op op2 d s :
  let w := opw z op op2 in let s1 := post_fetch s in
  cpu_ok s -> bus_bytes_ok s -> pc s mod 2 = 0 -> 0 <= pc s -> pc s + 2 < 4294967296 -> mem_read SW s (pc s) = Some d ->
  Z.land w 0xfff0 <> (match z with SB => 0x6a00 | _ => 0x6b00 end) -> field_ok z (nib w 4) ->
  run_tag (TMovAbs16 z) op op2 0 s =
  then_charge (option_map (fun s2 => with_ccr (mov_ccr z (reg z s (nib w 4)) (ccr s)) s2) (mem_write z s1 (abs16 d) (reg z s (nib w 4)))) (mov_charge z (abs16 d) (icnt2 z) 0).
Proof.
  intros w s1 Hok Hb Hev H0 H1 Hd Hl Hf. cbn [run_tag]. fold (opw z op op2). fold w. fold (icnt2 z).
  pose proof (word_range s _ _ Hb Hd) as Rd.
  unfold bind at 1. rewrite (fetch_word s d) by assumption. fold (post_fetch s). fold s1.
  replace (Z.land w 0xfff0 =? match z with SB => 0x6a00 | _ => 0x6b00 end) with false by (destruct z; lia).
  rewrite ea_abs16 by assumption.
  rewrite mov_mem_store_proof by (first [exact Hok | assumption]).
  reflexivity.
Qed.

(* ---- two extension words ---- *)
Lemma fetch32_words s h l :
  bus_bytes_ok s -> pc s mod 2 = 0 -> 0 <= pc s -> pc s + 4 < 4294967296 ->
  mem_read SW s (pc s) = Some h -> mem_read SW s (pc s + 2) = Some l ->
  fetch32 s = Ok (h * 65536 + l) (set_pc (pc s + 4) (set_opc (pc s + 2) s)).
Proof.
  intros Hb Hev H0 H1 Hh Hl. unfold fetch32. unfold bind at 1. rewrite (fetch_word s h) by (try assumption; lia).
  unfold bind at 1. rewrite (fetch_word _ l) by (try assumption; cbn [pc set_pc set_opc]; try lia; exact Hl).
  cbn [pc set_pc set_opc]. unfold ret. pose proof (word_range s _ _ Hb Hh). pose proof (word_range s _ _ Hb Hl).
  rewrite shiftl_mul by lia. change (2^16) with 65536. change 65536 with (2^16) at 1.
  rewrite lor_high_low by (change (2^16) with 65536; lia). change (2^16) with 65536.
  replace (pc s + 2 + 2) with (pc s + 4) by lia. reflexivity.
Qed.

Definition post_fetch_2w (s : cpu) : cpu := set_pc (pc s + 4) (set_opc (pc s + 2) s).
Definition icnt3 (z : sz) : Z := match z with SL => 4 | _ => 3 end.

(* MOV.B/W/L @aa:24 *)
Theorem mov_abs24_load_proof z op op2 h l s :
  let w := opw z op op2 in let s1 := post_fetch_2w s in
  cpu_ok s -> bus_bytes_ok s -> pc s mod 2 = 0 -> 0 <= pc s -> pc s + 4 < 4294967296 ->
  mem_read SW s (pc s) = Some h -> mem_read SW s (pc s + 2) = Some l ->
  Z.land w 0xfff0 = (match z with SB => 0x6a20 | _ => 0x6b20 end) -> field_ok z (nib w 4) ->
  let a := h * 65536 + l in
  run_tag (TMovAbs24 z) op op2 0 s =
  then_charge (option_map (fun v => with_ccr (mov_ccr z v (ccr s)) (set_reg z s1 (nib w 4) v)) (mem_read z s a)) (mov_charge z a (icnt3 z) 0).
Proof.
  intros w s1 Hok Hb Hev H0 H1 Hh Hl Hm Hf a. cbn [run_tag]. fold (opw z op op2). fold w. fold (icnt3 z).
  unfold bind at 1. rewrite (fetch32_words s h l) by assumption. fold (post_fetch_2w s). fold s1. fold a.
  rewrite Hm. rewrite Z.eqb_refl.
  rewrite mov_mem_load_proof by (first [exact Hok | exact Hb | assumption]).
  reflexivity.
Qed.

Theorem mov_abs24_store_proof z op op2 h l s :
  let w := opw z op op2 in let s1 := post_fetch_2w s in
  cpu_ok s -> bus_bytes_ok s -> pc s mod 2 = 0 -> 0 <= pc s -> pc s + 4 < 4294967296 ->
  mem_read SW s (pc s) = Some h -> mem_read SW s (pc s + 2) = Some l ->
  Z.land w 0xfff0 <> (match z with SB => 0x6a20 | _ => 0x6b20 end) -> field_ok z (nib w 4) ->
  let a := h * 65536 + l in
  run_tag (TMovAbs24 z) op op2 0 s =
  then_charge (option_map (fun s2 => with_ccr (mov_ccr z (reg z s (nib w 4)) (ccr s)) s2) (mem_write z s1 a (reg z s (nib w 4)))) (mov_charge z a (icnt3 z) 0).
Proof.
  intros w s1 Hok Hb Hev H0 H1 Hh Hl Hm Hf a. cbn [run_tag]. fold (opw z op op2). fold w. fold (icnt3 z).
  unfold bind at 1. rewrite (fetch32_words s h l) by assumption. fold (post_fetch_2w s). fold s1. fold a.
  replace (Z.land w 0xfff0 =? match z with SB => 0x6a20 | _ => 0x6b20 end) with false by (destruct z; lia).
  rewrite mov_mem_store_proof by (first [exact Hok | assumption]).
  reflexivity.
Qed.

(* MOV.B/W @(d:24,ERn) behind the 78 prefix: op = 78r0, op2 = 6A2x / 6AAx (6B..), then the 32-bit displacement field *)
Theorem mov_disp24_load_proof z op op2 h l s :
  z <> SL -> let s1 := post_fetch_2w s in
  cpu_ok s -> bus_bytes_ok s -> pc s mod 2 = 0 -> 0 <= pc s -> pc s + 4 < 4294967296 ->
  mem_read SW s (pc s) = Some h -> mem_read SW s (pc s + 2) = Some l -> 0 <= h < 256 ->
  Z.land op2 0xfff0 = (match z with SB => 0x6a20 | _ => 0x6b20 end) -> 0 <= nib op 3 < 8 -> field_ok z (nib op2 4) ->
  let a := ea_addr z s (EDisp (nib op 3) (sx 24 (h * 65536 + l))) in
  run_tag (TMovDisp24 z) op op2 0 s =
  then_charge (option_map (fun v => with_ccr (mov_ccr z v (ccr s)) (set_reg z s1 (nib op2 4) v)) (mem_read z s a)) (mov_charge z a 4 0).
Proof.
  intros Hz s1 Hok Hb Hev H0 H1 Hh Hl Rh Hm Hr Hf a.
  pose proof (word_range s _ _ Hb Hl) as Rl.
  destruct z; [| |contradiction]; cbn [run_tag];
    (unfold bind at 1; rewrite (fetch32_words s h l) by assumption; fold (post_fetch_2w s); fold s1;
     rewrite Hm; rewrite Z.eqb_refl; unfold bind at 1; rewrite ea_disp24 by lia;
     rewrite mov_mem_load_proof by (first [exact Hok | exact Hb | assumption]); reflexivity).
Qed.

Theorem mov_disp24_store_proof z op op2 h l s :
  z <> SL -> let s1 := post_fetch_2w s in
  cpu_ok s -> bus_bytes_ok s -> pc s mod 2 = 0 -> 0 <= pc s -> pc s + 4 < 4294967296 ->
  mem_read SW s (pc s) = Some h -> mem_read SW s (pc s + 2) = Some l -> 0 <= h < 256 ->
  Z.land op2 0xfff0 <> (match z with SB => 0x6a20 | _ => 0x6b20 end) -> field_ok z (nib op2 4) ->
  let a := ea_addr z s (EDisp (Z.land (nib op 3) 7) (sx 24 (h * 65536 + l))) in
  run_tag (TMovDisp24 z) op op2 0 s =
  then_charge (option_map (fun s2 => with_ccr (mov_ccr z (reg z s (nib op2 4)) (ccr s)) s2) (mem_write z s1 a (reg z s (nib op2 4)))) (mov_charge z a 4 0).
Proof.
  intros Hz s1 Hok Hb Hev H0 H1 Hh Hl Rh Hm Hf a.
  pose proof (word_range s _ _ Hb Hl) as Rl.
  assert (R7 : 0 <= Z.land (nib op 3) 7 < 8) by (change 7 with (2^3 - 1); rewrite land_ones_mod by lia; change (2^3) with 8; lia).
  destruct z; [| |contradiction]; cbn [run_tag];
    (unfold bind at 1; rewrite (fetch32_words s h l) by assumption; fold (post_fetch_2w s); fold s1;
     match goal with |- context [Z.land op2 0xfff0 =? ?c] => replace (Z.land op2 0xfff0 =? c) with false by lia end;
     unfold bind at 1; rewrite ea_disp24 by lia;
     rewrite mov_mem_store_proof by (first [exact Hok | assumption]); reflexivity).
Qed.
