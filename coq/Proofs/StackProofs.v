(* Stack discipline on the reference: a long word written to plain memory reads back; a call followed by RTS
   and an exception entry followed by RTE restore PC, SP (and CCR) exactly. *)
From Coq Require Import Bool ZArith Lia ZifyBool List.
From K Require Import Lib.Bits Lib.Types Model.Machine Model.Bus Model.Addressing Spec.MemMap Spec.ISA
  Proofs.BusProofs Proofs.RegProofs Proofs.FlagProofs Proofs.EaProofs.
Open Scope bool_scope. Open Scope Z_scope.
Ltac Zify.zify_post_hook ::= Z.div_mod_to_equations.

Definition plain4 (a : Z) : Prop := plain a = true /\ plain (a + 1) = true /\ plain (a + 2) = true /\ plain (a + 3) = true.

Lemma put8_read s a v s1 x : plain a = true -> put8 s a v = Some s1 ->
  bus_read (cbus s1) x = if x =? a then Some v else bus_read (cbus s) x.
Proof.
  intros Hp H. unfold put8 in H. destruct (bus_write (cbus s) a v) as [b|] eqn:E; [|discriminate].
  inversion H; subst. cbn [cbus set_bus].
  destruct (Z.eqb_spec x a) as [->|Hne]; [eapply read_write_same; eauto|eapply read_write_other; eauto].
Qed.

Lemma put8_ok s a v : plain a = true -> exists s1, put8 s a v = Some s1.
Proof.
  intros Hp. unfold put8. assert (A : accessible a = true) by (unfold plain in Hp; apply andb_true_iff in Hp; tauto).
  destruct (proj2 (write_accessible (cbus s) a v) A) as [b Hb]. rewrite Hb. eauto.
Qed.

Lemma put8_frame s a v s1 : put8 s a v = Some s1 ->
  pc s1 = pc s /\ ccr s1 = ccr s /\ er s1 = er s /\ irq s1 = irq s.
Proof.
  unfold put8. destruct (bus_write (cbus s) a v); [|discriminate]. intros H. inversion H. cbn. auto.
Qed.

(* a long word written big-endian to four plain bytes reads back as the same value *)
Lemma mem_write_read_l s a v : plain4 a -> 0 <= v < 4294967296 ->
  exists s1, mem_write SL s a v = Some s1 /\ mem_read SL s1 a = Some v /\
             (forall x, x <> a -> x <> a + 1 -> x <> a + 2 -> x <> a + 3 -> bus_read (cbus s1) x = bus_read (cbus s) x) /\
             pc s1 = pc s /\ ccr s1 = ccr s /\ er s1 = er s /\ irq s1 = irq s.
Proof.
  intros (P0 & P1 & P2 & P3) Hv. cbn [mem_write].
  destruct (put8_ok s a ((v / 16777216) mod 256) P0) as [s1 H1]. rewrite H1. cbn [ISA.obind].
  destruct (put8_ok s1 (a + 1) ((v / 65536) mod 256) P1) as [s2 H2]. rewrite H2. cbn [ISA.obind].
  destruct (put8_ok s2 (a + 2) ((v / 256) mod 256) P2) as [s3 H3]. rewrite H3. cbn [ISA.obind].
  destruct (put8_ok s3 (a + 3) (v mod 256) P3) as [s4 H4]. rewrite H4.
  exists s4. split; [reflexivity|].
  pose proof (put8_read _ _ _ _ a P0 H1) as R1a.
  assert (RD : forall x, bus_read (cbus s4) x =
     if x =? a + 3 then Some (v mod 256) else if x =? a + 2 then Some ((v / 256) mod 256)
     else if x =? a + 1 then Some ((v / 65536) mod 256) else if x =? a then Some ((v / 16777216) mod 256)
     else bus_read (cbus s) x).
  { intros x. rewrite (put8_read _ _ _ _ x P3 H4). destruct (x =? a + 3); [reflexivity|].
    rewrite (put8_read _ _ _ _ x P2 H3). destruct (x =? a + 2); [reflexivity|].
    rewrite (put8_read _ _ _ _ x P1 H2). destruct (x =? a + 1); [reflexivity|].
    rewrite (put8_read _ _ _ _ x P0 H1). reflexivity. }
  split.
  - cbn [mem_read]. unfold mem8. rewrite !RD.
    repeat match goal with |- context [?x =? ?y] => destruct (Z.eqb_spec x y); try lia end.
    f_equal. lia.
  - split.
    + intros x N0 N1 N2 N3. rewrite RD.
      repeat match goal with |- context [?x =? ?y] => destruct (Z.eqb_spec x y); try lia end. reflexivity.
    + destruct (put8_frame _ _ _ _ H1) as (A1 & A2 & A3 & A4).
      destruct (put8_frame _ _ _ _ H2) as (B1 & B2 & B3 & B4).
      destruct (put8_frame _ _ _ _ H3) as (C1 & C2 & C3 & C4).
      destruct (put8_frame _ _ _ _ H4) as (D1 & D2 & D3 & D4).
      repeat split; congruence.
Qed.

(* ---- exception entry followed by RTE; call followed by RTS ---- *)
Lemma sp_dec_addr s : ((reg32 s 7 - 4) mod 4294967296) mod A24 = (reg32 s 7 - 4) mod A24.
Proof. unfold A24. lia. Qed.

Lemma set_er7_back rg x : set_er (set_er rg 7 x) 7 (get_er rg 7) = rg.
Proof. destruct rg. reflexivity. Qed.

Definition frame_of (s : cpu) : Z := (reg32 s 7 - 4) mod A24.

Theorem entry_rte_inverse_proof :
  forall s v ret d,
    plain4 (frame_of s) -> word32 (reg32 s 7) -> 0 <= ccr s < 256 -> 0 <= ret < A24 ->
    (forall s1, (forall x, x <> frame_of s -> x <> frame_of s + 1 -> x <> frame_of s + 2 -> x <> frame_of s + 3 ->
                    bus_read (cbus s1) x = bus_read (cbus s) x) -> mem_read SL s1 (4 * v) = Some d) ->
    exists s1 s2,
      enter_ref s v ret = Some s1 /\ sem_ref IRte 2 s1 = Some s2 /\
      (* entry: I set, PC from the vector's low 24 bits, SP decremented by 4 *)
      pc s1 = d mod A24 /\ flag (ccr s1) fI = true /\
      reg32 s1 7 = (reg32 s 7 - 4) mod 4294967296 /\
      (* RTE: everything back *)
      pc s2 = ret /\ ccr s2 = ccr s /\ er s2 = er s /\
      (forall x, x <> frame_of s -> x <> frame_of s + 1 -> x <> frame_of s + 2 -> x <> frame_of s + 3 ->
         bus_read (cbus s2) x = bus_read (cbus s) x).
Proof.
  intros s v ret d Hp Hsp Hc Hret Hvec.
  unfold enter_ref, push32.
  set (s0 := ea_update SL s (EPreDec 7)).
  assert (Hr7 : reg32 s0 7 = (reg32 s 7 - 4) mod 4294967296).
  { subst s0. unfold ea_update, set_reg32, reg32. cbn [er set_regs bytes_of]. rewrite get_set_er by lia. now rewrite Z.eqb_refl. }
  assert (Ha : reg32 s0 7 mod A24 = frame_of s) by (rewrite Hr7; apply sp_dec_addr).
  rewrite Ha.
  assert (Hbus0 : cbus s0 = cbus s) by reflexivity.
  assert (Hval : 0 <= ccr s * A24 + ret < 4294967296) by (unfold A24 in *; lia).
  destruct (mem_write_read_l s0 (frame_of s) (ccr s * A24 + ret) Hp Hval) as (s1 & Hw & Hrd & Hother & Hpc1 & Hccr1 & Her1 & _).
  rewrite Hw. cbn [ISA.obind].
  assert (Hv1 : mem_read SL s1 (4 * v) = Some d).
  { apply Hvec. intros x N0 N1 N2 N3. rewrite Hother by assumption. now rewrite Hbus0. }
  rewrite Hv1. cbn [ISA.obind].
  set (s1' := with_pc (d mod A24) (with_ccr (set_flag fI true (ccr s1)) s1)).
  exists s1'.
  (* RTE on s1' *)
  assert (Her1' : er s1' = er s0) by (subst s1'; cbn; exact Her1).
  assert (Hr7' : reg32 s1' 7 = (reg32 s 7 - 4) mod 4294967296) by (unfold reg32 in *; rewrite Her1'; exact Hr7).
  assert (Hrd' : mem_read SL s1' (reg32 s1' 7 mod A24) = Some (ccr s * A24 + ret)).
  { rewrite Hr7', sp_dec_addr. exact Hrd. }
  cbn [sem_ref]. unfold pop32. rewrite Hrd'. cbn [ISA.obind].
  eexists. split; [reflexivity|]. split; [reflexivity|].
  split; [reflexivity|].
  split.
  { subst s1'. cbn [ccr with_pc with_ccr set_pc set_ccr]. rewrite set_flag_frame; [reflexivity|unfold fI; lia| |unfold fI; lia].
    rewrite Hccr1. subst s0. cbn. exact Hc. }
  split; [exact Hr7'|].
  split.
  { cbn [pc with_pc with_ccr set_pc set_ccr]. unfold A24 in *. lia. }
  split.
  { cbn [ccr with_pc with_ccr set_pc set_ccr]. unfold A24 in *. lia. }
  split.
  { cbn [er with_pc with_ccr set_pc set_ccr ea_update set_reg32 set_regs bytes_of].
    unfold reg32. rewrite Her1'. subst s0. cbn [er ea_update set_reg32 set_regs bytes_of]. unfold reg32.
    rewrite get_set_er by lia. rewrite Z.eqb_refl.
    replace (((get_er (er s) 7 - 4) mod 4294967296 + 4) mod 4294967296) with (get_er (er s) 7)
      by (unfold word32, reg32 in Hsp; lia).
    apply set_er7_back. }
  intros x N0 N1 N2 N3. cbn [cbus with_pc with_ccr set_pc set_ccr ea_update set_reg32 set_regs].
  rewrite Hother by assumption. now rewrite Hbus0.
Qed.

(* a subroutine call (push of the return address) followed by RTS resumes right after the call *)
Theorem call_rts_inverse_proof :
  forall s ret target,
    plain4 (frame_of s) -> word32 (reg32 s 7) -> 0 <= ret < A24 ->
    exists s1 s2,
      obind (push32 s ret) (fun s1 => Some (with_pc target s1)) = Some s1 /\ sem_ref IRts 2 s1 = Some s2 /\
      pc s1 = target /\ ccr s1 = ccr s /\ reg32 s1 7 = (reg32 s 7 - 4) mod 4294967296 /\
      mem_read SL s1 (frame_of s) = Some ret /\
      pc s2 = ret /\ ccr s2 = ccr s /\ er s2 = er s /\
      (forall x, x <> frame_of s -> x <> frame_of s + 1 -> x <> frame_of s + 2 -> x <> frame_of s + 3 ->
         bus_read (cbus s2) x = bus_read (cbus s) x).
Proof.
  intros s ret target Hp Hsp Hret.
  unfold push32.
  set (s0 := ea_update SL s (EPreDec 7)).
  assert (Hr7 : reg32 s0 7 = (reg32 s 7 - 4) mod 4294967296).
  { subst s0. unfold ea_update, set_reg32, reg32. cbn [er set_regs bytes_of]. rewrite get_set_er by lia. now rewrite Z.eqb_refl. }
  assert (Ha : reg32 s0 7 mod A24 = frame_of s) by (rewrite Hr7; apply sp_dec_addr).
  rewrite Ha.
  assert (Hbus0 : cbus s0 = cbus s) by reflexivity.
  assert (Hval : 0 <= ret < 4294967296) by (unfold A24 in *; lia).
  destruct (mem_write_read_l s0 (frame_of s) ret Hp Hval) as (s1 & Hw & Hrd & Hother & Hpc1 & Hccr1 & Her1 & _).
  rewrite Hw. cbn [ISA.obind].
  set (s1' := with_pc target s1). exists s1'.
  assert (Her1' : er s1' = er s0) by (subst s1'; cbn; exact Her1).
  assert (Hr7' : reg32 s1' 7 = (reg32 s 7 - 4) mod 4294967296) by (unfold reg32 in *; rewrite Her1'; exact Hr7).
  assert (Hrd' : mem_read SL s1' (reg32 s1' 7 mod A24) = Some ret).
  { rewrite Hr7', sp_dec_addr. exact Hrd. }
  cbn [sem_ref]. unfold pop32. rewrite Hrd'. cbn [ISA.obind].
  eexists. split; [reflexivity|]. split; [reflexivity|].
  split; [reflexivity|].
  split; [subst s1' s0; cbn; exact Hccr1|].
  split; [exact Hr7'|].
  split; [exact Hrd|].
  split; [cbn [pc with_pc set_pc]; unfold A24 in *; lia|].
  split; [subst s1' s0; cbn; exact Hccr1|].
  split.
  { cbn [er with_pc set_pc ea_update set_reg32 set_regs bytes_of].
    unfold reg32. rewrite Her1'. subst s0. cbn [er ea_update set_reg32 set_regs bytes_of]. unfold reg32.
    rewrite get_set_er by lia. rewrite Z.eqb_refl.
    replace (((get_er (er s) 7 - 4) mod 4294967296 + 4) mod 4294967296) with (get_er (er s) 7)
      by (unfold word32, reg32 in Hsp; lia).
    apply set_er7_back. }
  intros x N0 N1 N2 N3. cbn [cbus with_pc set_pc ea_update set_reg32 set_regs].
  rewrite Hother by assumption. now rewrite Hbus0.
Qed.
