(* C20: for the memory-operand and multi-word forms, the charge expression of each handler - the one that appears as the
   charge hypothesis of the corresponding step theorem - evaluates to the reference's cycle table priced by the C19
   price list (no wrap-around of the byte-sized partial sums). *)
From Coq Require Import Bool ZArith Lia ZifyBool List.
From K Require Import Lib.Types Model.Machine Model.Bus Model.Cost Model.Addressing Model.Exec Spec.MemMap Spec.Price Spec.ISA Spec.Domains
  Proofs.PriceProofs Proofs.StepProofs Proofs.StepRefines Proofs.CtlProofs Proofs.MovProofs Proofs.BitMemProofs Proofs.StcExtProofs
  Proofs.StepRefines2 Proofs.ChargeProofs Proofs.RegProofs Proofs.StackProofs.
Import ListNotations.
Open Scope bool_scope. Open Scope Z_scope.
Ltac Zify.zify_post_hook ::= Z.div_mod_to_equations.

(* ---- every word of an instruction inside the C20 domain is priced like its first word ---- *)
Lemma all_bytes_at f a n k : all_bytes f a n = true -> (k < n)%nat -> f (a + Z.of_nat k) = true.
Proof.
  revert a k. induction n as [|n IH]; intros a k H Hk; [lia|].
  cbn [all_bytes] in H. apply andb_true_iff in H. destruct H as [H1 H2].
  destruct k as [|k]; [rewrite Z.add_0_r; exact H1|].
  replace (a + Z.of_nat (S k)) with (a + 1 + Z.of_nat k) by lia. apply IH; [exact H2|lia].
Qed.

Lemma span_at f a n k : span_ok f a n = true -> 0 <= k < n -> f (a + k) = true.
Proof.
  intros H Hk. unfold span_ok in H. replace k with (Z.of_nat (Z.to_nat k)) by lia. apply (all_bytes_at f a (Z.to_nat n)); [exact H|lia].
Qed.

Lemma code_same_price s len k kind : code_ok s len = true -> 0 <= k < len -> price_at s kind (pc s + k) = price_at s kind (pc s).
Proof.
  intros Hc Hk. unfold code_ok in Hc. apply andb_true_iff in Hc. destruct Hc as [_ Hc].
  assert (H0 : 0 <= 0 < len) by lia.
  apply orb_true_iff in Hc. destruct Hc as [Hc|Hc];
    pose proof (span_at _ _ _ _ Hc Hk) as A; pose proof (span_at _ _ _ _ Hc H0) as B; rewrite Z.add_0_r in B;
    unfold in_ram, in_dram, within in A, B; unfold price_at;
    (assert (E1 : on_chip_ram (pc s + k) = on_chip_ram (pc s)) by (unfold on_chip_ram; lia));
    (assert (E2 : area_of (pc s + k) = area_of (pc s)) by (unfold area_of; lia));
    rewrite E1, E2; reflexivity.
Qed.

(* ---- inside the C20 domain every priced address is inside the domain of the price list ---- *)
Lemma dom_of_data d kind n a : data_ok a = true -> 0 <= kind <= 5 -> 1 <= n <= 5 -> dom_c19 d kind n a = true.
Proof.
  unfold data_ok, in_ram, in_dram, in_vec, within, dom_c19, io_register_addr, area_of. intros H Hk Hn.
  assert (C : (0xffbf20 <= a <= 0xffff1f) \/ (0x400000 <= a <= 0x5fffff) \/ (0 <= a <= 0xff)) by lia. clear H.
  destruct C as [C | [C | C]];
    (replace ((3 <=? a / 2097152) && (a / 2097152 <=? 5)) with false by lia); lia.
Qed.

Lemma code_byte_ok s len k : code_ok s len = true -> 0 <= k < len -> data_ok (pc s + k) = true.
Proof.
  intros Hc Hk. unfold code_ok in Hc. apply andb_true_iff in Hc. destruct Hc as [_ Hc].
  apply orb_true_iff in Hc. unfold data_ok. destruct Hc as [Hc|Hc]; rewrite (span_at _ _ _ _ Hc Hk); [reflexivity|rewrite orb_true_r; reflexivity].
Qed.

(* the state in which a handler evaluates its charge: same bus-controller registers, operating PC at the last fetched word *)
Definition charged_at (s s' : cpu) (len : Z) : Prop := b_io1 (cbus s') = b_io1 (cbus s) /\ opc s' = pc s + len - 2.

Lemma cs_code s s' len kind n :
  charged_at s s' len -> code_ok s len = true -> 2 <= len -> bytes_ok (cbus s) -> (kind = KI \/ kind = KN) -> 1 <= n <= 5 ->
  cs kind n s' = Ok (n * price_at s kind (pc s)) s'.
Proof.
  intros [Hio Hopc] Hc Hl Hb Hk Hn.
  assert (Hkk : 0 <= kind <= 5) by (destruct Hk as [-> | ->]; unfold KI, KN; lia).
  rewrite (cs_priced s' s kind n Hk Hio Hb).
  - rewrite Hopc. replace (pc s + len - 2) with (pc s + (len - 2)) by lia. rewrite (code_same_price s len) by (try assumption; lia). reflexivity.
  - rewrite Hopc. replace (pc s + len - 2) with (pc s + (len - 2)) by lia. apply dom_of_data; try assumption. apply (code_byte_ok s len); [assumption|lia].
Qed.

Lemma csa_data s s' len kind n a :
  charged_at s s' len -> bytes_ok (cbus s) -> data_ok a = true -> 0 <= kind <= 5 -> 1 <= n <= 5 ->
  csa kind n a s' = Ok (n * price_at s kind a) s'.
Proof. intros [Hio _] Hb Ha Hk Hn. apply (csa_priced s' s kind n a Hio Hb). now apply dom_of_data. Qed.

Lemma cs_internal s' n : 0 <= n < 256 -> cs KN n s' = Ok n s'.
Proof.
  intros Hn. unfold cs, lift, calc_state, calc_state_with_addr. cbn [KN KL KM Z.eqb orb Pos.eqb]. unfold u8mul.
  rewrite Z.mul_1_r. rewrite Z.mod_small by lia. reflexivity.
Qed.

Lemma span_first f a n : span_ok f a n = true -> 1 <= n -> f a = true.
Proof. intros H Hn. pose proof (span_at f a n 0 H ltac:(lia)) as A. now rewrite Z.add_0_r in A. Qed.

Lemma exec_dom_parts f i len s : exec_dom f i len s = true ->
  code_ok s len = true /\ forallb (fun p => span_ok f (fst p) (snd p)) (accesses i s) = true.
Proof.
  unfold exec_dom. intros H. repeat (apply andb_true_iff in H; destruct H as [H ?]). split; [unfold code_ok; apply andb_true_iff; split; assumption|assumption].
Qed.

(* ---- the charge expression of every implemented form (the charge hypothesis of its step theorem) ---- *)
Definition is_incdec (e : ea) : bool := match e with EPostInc _ | EPreDec _ => true | _ => false end.

Definition charge_expr (i : insn) (len : Z) (s : cpu) : option (M Z) :=
  let sp4 := (reg32 s 7 - 4) mod A24 in
  match i with
  | IMovLoad z e _ | IMovStore z _ e =>
    if is_incdec e then Some (incdec_charge z (ea_addr z s e)) else Some (mov_charge z (ea_addr z s e) (len / 2) 0)
  | IStcW e => if is_incdec e then None else Some (stc_charge (len / 2) (ea_addr SW s e))
  | IBit o _ (BTMem e) => Some (bit_charge o (ea_addr SB s e))
  | IMulxu z _ _ | IDivxu z _ _ => Some (mul_suffix z)
  | IBcc _ _ => if len =? 2 then Some (cs KI 2) else Some (i <- cs KI 2 ;; n <- cs KN 2 ;; ret (u8add i n))
  | IJmp (JReg _) => Some (cs KI 2)
  | IJmp (JAbs _) => Some (i <- cs KI 2 ;; n <- cs KN 2 ;; ret (u8add i n))
  | IJmp (JInd aa) => Some (i <- cs KI 2 ;; j <- csa KJ 2 aa ;; n <- cs KN 2 ;; ret (u8add (u8add i j) n))
  | IBsr _ => if len =? 2 then Some (i <- cs KI 2 ;; k <- csa KK 2 sp4 ;; ret (u8add i k))
              else Some (i <- cs KI 2 ;; k <- csa KK 2 sp4 ;; n <- cs KN 2 ;; ret (u8add (u8add i k) n))
  | IJsr (JReg _) => Some (i <- cs KI 2 ;; k <- csa KK 2 sp4 ;; ret (u8add i k))
  | IJsr (JAbs _) => Some (i <- cs KI 2 ;; k <- csa KK 2 sp4 ;; n <- cs KN 2 ;; ret (u8add (u8add i k) n))
  | IJsr (JInd aa) => Some (i <- cs KI 2 ;; j <- csa KJ 2 aa ;; k <- csa KK 2 sp4 ;; ret (u8add (u8add i j) k))
  | IRts | IRte => Some (i <- cs KI 2 ;; k <- csa KK 2 (reg32 s 7 mod A24) ;; n <- cs KN 2 ;; ret (u8add (u8add i k) n))
  | ITrapa k => Some (i <- cs KI 2 ;; j <- csa KJ 2 (0x20 + 4 * k) ;; kk <- csa KK 2 sp4 ;; n <- cs KN 4 ;; ret (u8add (u8add (u8add i j) kk) n))
  | IUnimplemented => None
  | _ => Some (cs KI (len / 2))
  end.

(* the lengths the operation-code map assigns *)
Definition len_matches (i : insn) (len : Z) : bool :=
  match i with
  | IMovLoad z e _ | IMovStore z _ e =>
    if is_incdec e then len =? 2 * icnt1 z else (len =? 2) || (len =? 4) || (len =? 6) || (len =? 8) || (len =? 10)
  | IMulxu _ _ _ | IDivxu _ _ _ | IJmp (JReg _) | IJmp (JInd _) | IJsr (JReg _) | IJsr (JInd _) | IRts | IRte | ITrapa _ => len =? 2
  | IBcc _ _ | IBsr _ => (len =? 2) || (len =? 4)
  | IJmp (JAbs _) | IJsr (JAbs _) | IBit _ _ (BTMem _) => len =? 4
  | _ => (len =? 2) || (len =? 4) || (len =? 6) || (len =? 8) || (len =? 10)
  end.

Lemma price_pos s k a : 0 <= k <= 5 -> 1 <= price_at s k a <= 14.
Proof. apply price_at_range. Qed.

Ltac getm :=
  match goal with Hm : Some _ = Some ?m |- _ =>
    apply (f_equal (fun o => match o with Some x => x | None => m end)) in Hm; cbv beta iota in Hm; subst m end.
Ltac bound_fetch :=
  match goal with |- context [?q * price_at ?s 0 (pc ?s)] =>
    let F := fresh "F" in assert (F : 1 <= q * price_at s 0 (pc s) <= 70) by (assert (1 <= q <= 5) by lia; nia) end.
Ltac split_acc H :=
  match type of H with
  | (_ && _) = true => let H1 := fresh "Hs" in let H2 := fresh "Hs" in apply andb_true_iff in H; destruct H as [H1 H2]; split_acc H1; split_acc H2
  | _ => idtac
  end.
Ltac first_access Hacc :=
  cbn [accesses] in Hacc; cbv beta iota delta [forallb fst snd] in Hacc; rewrite ?andb_true_r in Hacc; split_acc Hacc.

Theorem total_charge_proof i len s s' m :
  charge_expr i len s = Some m -> dom_c20 i len s = true -> len_matches i len = true ->
  charged_at s s' len -> bytes_ok (cbus s) ->
  m s' = Ok (charge_ref i len s) s'.
Proof.
  intros Hm Hdom Hlen Hat Hb.
  destruct (exec_dom_parts _ _ _ _ Hdom) as [Hcode Hacc].
  assert (P : forall k a, 0 <= k <= 5 -> 1 <= price_at s k a <= 14) by (intros; now apply price_at_range).
  pose proof (P 0 (pc s) ltac:(lia)) as P0. pose proof (P 5 (pc s) ltac:(lia)) as P5.
  assert (Hci : forall n', 1 <= n' <= 5 -> 2 <= len -> cs KI n' s' = Ok (n' * price_at s 0 (pc s)) s')
    by (intros n' Hn' Hl; apply (cs_code s s' len KI n'); auto).
  assert (Hcn : forall n', 1 <= n' <= 5 -> 2 <= len -> cs KN n' s' = Ok (n' * price_at s 5 (pc s)) s')
    by (intros n' Hn' Hl; apply (cs_code s s' len KN n'); auto).
  assert (Hca : forall k n' a, data_ok a = true -> 0 <= k <= 5 -> 1 <= n' <= 5 -> csa k n' a s' = Ok (n' * price_at s k a) s')
    by (intros; now apply (csa_data s s' len)).
  destruct i; cbn [charge_expr] in Hm; cbn [len_matches] in Hlen.
  all: try (getm; unfold charge_ref; cbn [cycles_ref fold_right]; rewrite Hci by lia; f_equal; lia).
  - (* MOV <ea>,Rd *)
    first_access Hacc. assert (Ha : data_ok (ea_addr s0 s e) = true) by (apply (span_first _ _ (bytes_of s0)); [assumption|destruct s0; cbn [bytes_of]; lia]).
    destruct (is_incdec e) eqn:Ee; getm.
    + assert (El : len / 2 = icnt1 s0) by (destruct s0; cbn [icnt1] in *; lia).
      unfold incdec_charge, charge_ref. destruct e; try discriminate Ee; cbn [cycles_ref app fold_right]; rewrite El;
        unfold bind, ret, u8add;
        (rewrite Hci by (destruct s0; cbn [icnt1] in *; lia)); (rewrite Hca by (try assumption; destruct s0; cbn [data_kind data_cnt]; unfold KL, KM; lia));
        (rewrite Hcn by (destruct s0; cbn [icnt1] in *; lia));
        destruct s0; cbn [icnt1 data_kind data_cnt] in *; unfold KL, KM in *;
        match goal with |- context [price_at s ?k (ea_addr ?z s ?e)] => pose proof (P k (ea_addr z s e) ltac:(lia)) end;
        f_equal; rewrite !Z.mod_small by lia; lia.
    + unfold mov_charge, charge_ref. cbn [Z.eqb]. destruct e; try discriminate Ee; cbn [cycles_ref app fold_right];
        unfold bind, ret, u8add;
        (rewrite Hci by lia); (rewrite Hca by (try assumption; destruct s0; cbn [data_kind data_cnt]; unfold KL, KM; lia));
        destruct s0; cbn [data_kind data_cnt] in *; unfold KL, KM in *;
        match goal with |- context [price_at s ?k (ea_addr ?z s ?e)] => pose proof (P k (ea_addr z s e) ltac:(lia)) end;
        f_equal; bound_fetch; rewrite !Z.mod_small by lia; lia.
  - (* MOV Rs,<ea> *)
    first_access Hacc. assert (Ha : data_ok (ea_addr s0 s e) = true) by (apply (span_first _ _ (bytes_of s0)); [assumption|destruct s0; cbn [bytes_of]; lia]).
    destruct (is_incdec e) eqn:Ee; getm.
    + assert (El : len / 2 = icnt1 s0) by (destruct s0; cbn [icnt1] in *; lia).
      unfold incdec_charge, charge_ref. destruct e; try discriminate Ee; cbn [cycles_ref app fold_right]; rewrite El;
        unfold bind, ret, u8add;
        (rewrite Hci by (destruct s0; cbn [icnt1] in *; lia)); (rewrite Hca by (try assumption; destruct s0; cbn [data_kind data_cnt]; unfold KL, KM; lia));
        (rewrite Hcn by (destruct s0; cbn [icnt1] in *; lia));
        destruct s0; cbn [icnt1 data_kind data_cnt] in *; unfold KL, KM in *;
        match goal with |- context [price_at s ?k (ea_addr ?z s ?e)] => pose proof (P k (ea_addr z s e) ltac:(lia)) end;
        f_equal; rewrite !Z.mod_small by lia; lia.
    + unfold mov_charge, charge_ref. cbn [Z.eqb]. destruct e; try discriminate Ee; cbn [cycles_ref app fold_right];
        unfold bind, ret, u8add;
        (rewrite Hci by lia); (rewrite Hca by (try assumption; destruct s0; cbn [data_kind data_cnt]; unfold KL, KM; lia));
        destruct s0; cbn [data_kind data_cnt] in *; unfold KL, KM in *;
        match goal with |- context [price_at s ?k (ea_addr ?z s ?e)] => pose proof (P k (ea_addr z s e) ltac:(lia)) end;
        f_equal; bound_fetch; rewrite !Z.mod_small by lia; lia.
  - (* MULXU *)
    getm. assert (len = 2) by lia. subst len. unfold mul_suffix, charge_ref, bind, ret, u8add.
    rewrite Hci by lia. destruct s0; cbn [cycles_ref fold_right]; rewrite cs_internal by lia;
      (assert (price_at s 5 (pc s) = 1) by (unfold price_at, price_ref; reflexivity)); change (2 / 2) with 1; f_equal; rewrite !Z.mod_small by lia; lia.
  - (* DIVXU *)
    getm. assert (len = 2) by lia. subst len. unfold mul_suffix, charge_ref, bind, ret, u8add.
    rewrite Hci by lia. destruct s0; cbn [cycles_ref fold_right]; rewrite cs_internal by lia;
      (assert (price_at s 5 (pc s) = 1) by (unfold price_at, price_ref; reflexivity)); change (2 / 2) with 1; f_equal; rewrite !Z.mod_small by lia; lia.
  - (* bit operations *)
    destruct t as [rd|e].
    + getm. unfold charge_ref; cbn [cycles_ref fold_right]; rewrite Hci by lia; f_equal; lia.
    + getm. assert (len = 4) by lia. subst len. first_access Hacc.
      assert (Ha : data_ok (ea_addr SB s e) = true) by (apply (span_first _ _ 1); [assumption|lia]).
      unfold bit_charge, charge_ref, bind, ret, u8add. cbn [cycles_ref fold_right]. change (4 / 2) with 2.
      rewrite Hci by lia. rewrite Hca by (try assumption; unfold KL; destruct (bit_writes o); lia).
      pose proof (P 3 (ea_addr SB s e) ltac:(lia)). unfold KL. f_equal. destruct (bit_writes o); rewrite !Z.mod_small by lia; lia.
  - (* Bcc *)
    destruct (len =? 2) eqn:E2; getm; unfold charge_ref; cbn [cycles_ref]; rewrite E2; cbn [fold_right]; unfold bind, ret, u8add.
    + rewrite Hci by lia. f_equal. lia.
    + rewrite Hci by lia. rewrite Hcn by lia. f_equal. rewrite !Z.mod_small by lia. lia.
  - (* JMP *)
    destruct t as [r|a|aa]; getm; unfold charge_ref; cbn [cycles_ref fold_right]; unfold bind, ret, u8add.
    + rewrite Hci by lia. f_equal. lia.
    + rewrite Hci by lia. rewrite Hcn by lia. f_equal. rewrite !Z.mod_small by lia. lia.
    + first_access Hacc. assert (Ha : data_ok aa = true) by (apply (span_first _ _ 4); [assumption|lia]).
      rewrite Hci by lia. rewrite Hca by (try assumption; unfold KJ; lia). rewrite Hcn by lia.
      pose proof (P 1 aa ltac:(lia)). unfold KJ. f_equal. rewrite !Z.mod_small by lia. lia.
  - (* BSR *)
    first_access Hacc. assert (Ha : data_ok ((reg32 s 7 - 4) mod A24) = true) by (apply (span_first _ _ 4); [assumption|lia]).
    pose proof (P 2 ((reg32 s 7 - 4) mod A24) ltac:(lia)).
    destruct (len =? 2) eqn:E2; getm; unfold charge_ref; cbn [cycles_ref]; rewrite E2; cbn [fold_right]; unfold bind, ret, u8add.
    + rewrite Hci by lia. rewrite Hca by (try assumption; unfold KK; lia). unfold KK. f_equal. rewrite !Z.mod_small by lia. lia.
    + rewrite Hci by lia. rewrite Hca by (try assumption; unfold KK; lia). rewrite Hcn by lia. unfold KK. f_equal. rewrite !Z.mod_small by lia. lia.
  - (* JSR *)
    destruct t as [r|a|aa]; first_access Hacc;
      (assert (Ha : data_ok ((reg32 s 7 - 4) mod A24) = true) by (apply (span_first _ _ 4); [assumption|lia]));
      pose proof (P 2 ((reg32 s 7 - 4) mod A24) ltac:(lia));
      getm; unfold charge_ref; cbn [cycles_ref fold_right]; unfold bind, ret, u8add.
    + rewrite Hci by lia. rewrite Hca by (try assumption; unfold KK; lia). unfold KK. f_equal. rewrite !Z.mod_small by lia. lia.
    + rewrite Hci by lia. rewrite Hca by (try assumption; unfold KK; lia). rewrite Hcn by lia. unfold KK. f_equal. rewrite !Z.mod_small by lia. lia.
    + assert (Hb2 : data_ok aa = true) by (apply (span_first _ _ 4); [assumption|lia]).
      pose proof (P 1 aa ltac:(lia)).
      rewrite Hci by lia. rewrite (Hca KJ) by (try assumption; unfold KJ; lia). rewrite Hca by (try assumption; unfold KK; lia).
      unfold KJ, KK. f_equal. rewrite !Z.mod_small by lia. lia.
  - (* RTS *)
    first_access Hacc. assert (Ha : data_ok (reg32 s 7 mod A24) = true) by (apply (span_first _ _ 4); [assumption|lia]).
    pose proof (P 2 (reg32 s 7 mod A24) ltac:(lia)).
    getm; unfold charge_ref; cbn [cycles_ref fold_right]; unfold bind, ret, u8add.
    rewrite Hci by lia. rewrite Hca by (try assumption; unfold KK; lia). rewrite Hcn by lia. unfold KK. f_equal. rewrite !Z.mod_small by lia. lia.
  - (* RTE *)
    first_access Hacc. assert (Ha : data_ok (reg32 s 7 mod A24) = true) by (apply (span_first _ _ 4); [assumption|lia]).
    pose proof (P 2 (reg32 s 7 mod A24) ltac:(lia)).
    getm; unfold charge_ref; cbn [cycles_ref fold_right]; unfold bind, ret, u8add.
    rewrite Hci by lia. rewrite Hca by (try assumption; unfold KK; lia). rewrite Hcn by lia. unfold KK. f_equal. rewrite !Z.mod_small by lia. lia.
  - (* TRAPA *)
    first_access Hacc.
    assert (Ha : data_ok ((reg32 s 7 - 4) mod A24) = true) by (apply (span_first _ _ 4); [assumption|lia]).
    assert (Hv : data_ok (4 * (8 + n)) = true) by (apply (span_first _ _ 4); [assumption|lia]).
    pose proof (P 2 ((reg32 s 7 - 4) mod A24) ltac:(lia)). pose proof (P 1 (4 * (8 + n)) ltac:(lia)).
    getm; unfold charge_ref; cbn [cycles_ref fold_right]; unfold bind, ret, u8add.
    replace (0x20 + 4 * n) with (4 * (8 + n)) by lia.
    rewrite Hci by lia. rewrite (Hca KJ) by (try assumption; unfold KJ; lia). rewrite Hca by (try assumption; unfold KK; lia). rewrite Hcn by lia.
    unfold KJ, KK. f_equal. rewrite !Z.mod_small by lia. lia.
  - (* STC.W *)
    first_access Hacc. assert (Ha : data_ok (ea_addr SW s e) = true) by (apply (span_first _ _ 2); [assumption|lia]).
    destruct (is_incdec e) eqn:Ee; [discriminate Hm|]. getm.
    unfold stc_charge, charge_ref. destruct e; try discriminate Ee; cbn [cycles_ref app fold_right]; unfold bind, ret, u8add;
      (rewrite Hci by lia); (rewrite Hca by (try assumption; unfold KM; lia));
      match goal with |- context [price_at s ?k (ea_addr ?z s ?e)] => pose proof (P k (ea_addr z s e) ltac:(lia)) end;
      unfold KM; f_equal; bound_fetch; rewrite !Z.mod_small by lia; lia.
  - discriminate Hm.
Qed.

(* ---- inside the C20 domain no instruction changes the bus-controller registers ---- *)
Definition io1 (s : cpu) := b_io1 (cbus s).

Lemma put8_io1 s a v s' : put8 s a v = Some s' -> data_ok a = true -> io1 s' = io1 s.
Proof.
  unfold put8, io1, bus_write, data_ok, in_ram, in_dram, in_vec, within, inr, VEC_START, VEC_END, IO1_START, IO1_END, DRAM_START, DRAM_END, RAM_START, RAM_END.
  intros H Ha.
  assert (C : (0xffbf20 <= a <= 0xffff1f) \/ (0x400000 <= a <= 0x5fffff) \/ (0 <= a <= 0xff)) by lia. clear Ha.
  destruct C as [C | [C | C]].
  - replace ((0 <=? a) && (a <=? 255)) with false in H by lia. replace ((16703488 <=? a) && (a <=? 16703743)) with false in H by lia.
    replace ((4194304 <=? a) && (a <=? 6291455)) with false in H by lia. replace ((16760608 <=? a) && (a <=? 16776991)) with true in H by lia.
    inversion H. reflexivity.
  - replace ((0 <=? a) && (a <=? 255)) with false in H by lia. replace ((16703488 <=? a) && (a <=? 16703743)) with false in H by lia.
    replace ((4194304 <=? a) && (a <=? 6291455)) with true in H by lia. inversion H. reflexivity.
  - replace ((0 <=? a) && (a <=? 255)) with true in H by lia. inversion H. reflexivity.
Qed.

Lemma mem_write_io1 z s a v s' : mem_write z s a v = Some s' -> span_ok data_ok a (bytes_of z) = true -> io1 s' = io1 s.
Proof.
  intros H Hs.
  assert (D : forall k, 0 <= k < bytes_of z -> data_ok (a + k) = true) by (intros k Hk; now apply (span_at _ _ _ _ Hs)).
  destruct z; cbn [mem_write bytes_of] in *; unfold ISA.obind in H.
  - apply (put8_io1 _ _ _ _ H). rewrite <- (Z.add_0_r a). apply D. lia.
  - destruct (put8 s a _) as [s1|] eqn:E1; [|discriminate].
    rewrite (put8_io1 _ _ _ _ H) by (apply D; lia). apply (put8_io1 _ _ _ _ E1). rewrite <- (Z.add_0_r a). apply D. lia.
  - destruct (put8 s a _) as [s1|] eqn:E1; [|discriminate].
    destruct (put8 s1 (a + 1) _) as [s2|] eqn:E2; [|discriminate].
    destruct (put8 s2 (a + 2) _) as [s3|] eqn:E3; [|discriminate].
    rewrite (put8_io1 _ _ _ _ H) by (apply D; lia). rewrite (put8_io1 _ _ _ _ E3) by (apply D; lia).
    rewrite (put8_io1 _ _ _ _ E2) by (apply D; lia). apply (put8_io1 _ _ _ _ E1). rewrite <- (Z.add_0_r a). apply D. lia.
Qed.

Lemma io1_set_reg z s r v : io1 (set_reg z s r v) = io1 s.
Proof. unfold set_reg; destruct z; unfold set_reg8, set_reg16, set_reg32; repeat match goal with |- context [if ?c then _ else _] => destruct c end; reflexivity. Qed.
Lemma io1_ea_update z s e : io1 (ea_update z s e) = io1 s.
Proof. destruct e; reflexivity. Qed.

Lemma push32_io1 s v s' : push32 s v = Some s' -> span_ok data_ok ((reg32 s 7 - 4) mod A24) 4 = true -> io1 s' = io1 s.
Proof.
  unfold push32. intros H Hs. rewrite (mem_write_io1 SL _ _ _ _ H).
  - apply io1_ea_update.
  - cbn [bytes_of]. cbn [ea_update]. unfold reg32, set_reg32. cbn [er set_regs]. rewrite get_set_er by lia. rewrite Z.eqb_refl.
    cbn [bytes_of]. fold (reg32 s 7). rewrite StackProofs.sp_dec_addr. exact Hs.
Qed.

Ltac inv_some H s' := apply (f_equal (fun o => match o with Some x => x | None => s' end)) in H; cbv beta iota in H; subst s'.
Ltac io1_norm := unfold with_pc, with_ccr, io1; cbn [cbus set_pc set_ccr]; fold_io1
with fold_io1 := repeat match goal with |- context [b_io1 (cbus ?x)] => change (b_io1 (cbus x)) with (io1 x) end.

Theorem sem_ref_io1 i len s s' : dom_c20 i len s = true -> sem_ref i len s = Some s' -> io1 s' = io1 s.
Proof.
  intros Hdom H. destruct (exec_dom_parts _ _ _ _ Hdom) as [_ Hacc].
  destruct i; cbn [sem_ref] in H.
  - inv_some H s'. io1_norm. apply io1_set_reg.
  - inv_some H s'. io1_norm. apply io1_set_reg.
  - destruct (mem_read s0 s (ea_addr s0 s e)); cbn [ISA.obind] in H; [|discriminate]. inv_some H s'. io1_norm.
    rewrite io1_set_reg. apply io1_ea_update.
  - first_access Hacc. destruct (mem_write s0 (ea_update s0 s e) (ea_addr s0 s e) _) as [s2|] eqn:E; cbn [ISA.obind] in H; [|discriminate].
    inv_some H s'. io1_norm. rewrite (mem_write_io1 _ _ _ _ _ E) by assumption. apply io1_ea_update.
  - destruct (alu2_ref o (bits_of s0) _ _ (ccr s)) as [r c]. inv_some H s'. io1_norm.
    destruct o; try apply io1_set_reg; reflexivity.
  - destruct (alu2_ref o (bits_of s0) _ imm (ccr s)) as [r c]. inv_some H s'. io1_norm.
    destruct o; try apply io1_set_reg; reflexivity.
  - destruct (alu1_ref o (bits_of s0) _ (ccr s)) as [r c]. inv_some H s'. io1_norm. apply io1_set_reg.
  - inv_some H s'. reflexivity.
  - inv_some H s'. reflexivity.
  - destruct s0; inv_some H s'; io1_norm; first [apply (io1_set_reg SW) | apply (io1_set_reg SL)].
  - destruct s0; match type of H with (if ?c then _ else _) = _ => destruct c; [discriminate|] end; inv_some H s'; io1_norm;
      first [apply (io1_set_reg SW) | apply (io1_set_reg SL)].
  - destruct t as [rd|e].
    + destruct (bit_ref o (reg8 s rd) _ (ccr s)) as [v c]. inv_some H s'. io1_norm. destruct (bit_writes o); [apply (io1_set_reg SB)|reflexivity].
    + first_access Hacc. destruct (mem8 s (ea_addr SB s e)) as [v0|]; cbn [ISA.obind] in H; [|discriminate].
      destruct (bit_ref o v0 _ (ccr s)) as [v c]. destruct (bit_writes o).
      * destruct (put8 s (ea_addr SB s e) v) as [s1|] eqn:E; cbn [ISA.obind] in H; [|discriminate]. inv_some H s'. io1_norm.
        apply (put8_io1 _ _ _ _ E). apply (span_first _ _ 1); [assumption|lia].
      * inv_some H s'. reflexivity.
  - inv_some H s'. reflexivity.
  - destruct (jump_target s t); cbn [ISA.obind] in H; [|discriminate]. inv_some H s'. reflexivity.
  - first_access Hacc. destruct (push32 s (pc s + len)) as [s1|] eqn:E; cbn [ISA.obind] in H; [|discriminate]. inv_some H s'. io1_norm.
    apply (push32_io1 _ _ _ E). assumption.
  - (* JSR *)
    destruct t as [r|a|aa]; first_access Hacc.
    + destruct (push32 s (pc s + len)) as [s1|] eqn:E; cbn [ISA.obind] in H; [|discriminate]. inv_some H s'. io1_norm.
      apply (push32_io1 _ _ _ E). assumption.
    + cbn [jump_target ISA.obind] in H. destruct (push32 s (pc s + len)) as [s1|] eqn:E; cbn [ISA.obind] in H; [|discriminate]. inv_some H s'. io1_norm.
      apply (push32_io1 _ _ _ E). assumption.
    + destruct (jump_target s (JInd aa)); cbn [ISA.obind] in H; [|discriminate].
      destruct (push32 s (pc s + len)) as [s1|] eqn:E; cbn [ISA.obind] in H; [|discriminate]. inv_some H s'. io1_norm.
      apply (push32_io1 _ _ _ E). assumption.
  - (* RTS *)
    unfold pop32 in H. destruct (mem_read SL s (reg32 s 7 mod A24)); cbn [ISA.obind] in H; [|discriminate]. inv_some H s'. io1_norm. apply io1_ea_update.
  - (* RTE *)
    unfold pop32 in H. destruct (mem_read SL s (reg32 s 7 mod A24)); cbn [ISA.obind] in H; [|discriminate]. inv_some H s'. io1_norm. apply io1_ea_update.
  - (* TRAPA *)
    first_access Hacc. unfold enter_ref in H.
    change (reg32 (with_pc (pc s + len) s) 7) with (reg32 s 7) in *.
    destruct (push32 (with_pc (pc s + len) s) _) as [s1|] eqn:E; cbn [ISA.obind] in H; [|discriminate].
    destruct (mem_read SL s1 (4 * (8 + n))); cbn [ISA.obind] in H; [|discriminate]. inv_some H s'. io1_norm.
    rewrite (push32_io1 _ _ _ E) by assumption. reflexivity.
  - inv_some H s'. io1_norm. apply (io1_set_reg SB).
  - (* STC.W *)
    first_access Hacc. cbv zeta in H. destruct (mem_write SW (ea_update SW s e) (ea_addr SW s e) (ccr s)) as [s2|] eqn:E; cbn [ISA.obind] in H; [|discriminate].
    inv_some H s'. io1_norm. rewrite (mem_write_io1 _ _ _ _ _ E) by assumption. apply io1_ea_update.
  - discriminate H.
Qed.

(* ---- the charge hypothesis of every step theorem holds with the reference's priced total ---- *)
Theorem charge_after_exec_proof i len s s' m :
  charge_expr i len s = Some m -> dom_c20 i len s = true -> len_matches i len = true -> bytes_ok (cbus s) ->
  sem_ref i len s = Some s' ->
  m (set_opc (pc s + len - 2) s') = Ok (charge_ref i len s) (set_opc (pc s + len - 2) s').
Proof.
  intros Hm Hdom Hlen Hb Hsem. apply (total_charge_proof i len s _ m Hm Hdom Hlen); [|exact Hb].
  split; [|reflexivity]. change (b_io1 (cbus (set_opc (pc s + len - 2) s'))) with (io1 s'). apply (sem_ref_io1 i len s s' Hdom Hsem).
Qed.
