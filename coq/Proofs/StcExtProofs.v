(* STC.W CCR,<ea> with a displacement or an absolute address (C08): each handler - fetch of its extension words,
   effective address, store of the CCR word - is the reference's store followed by the handler's charge. *)
From Coq Require Import Bool ZArith Lia ZifyBool List.
From K Require Import Lib.Bits Lib.Types Model.Machine Model.Bus Model.Cost Model.Addressing Model.Alu Model.Exec Spec.ISA
  Proofs.RegProofs Proofs.MemProofs Proofs.EaProofs Proofs.StepProofs Proofs.IrqProofs Proofs.CtlProofs Proofs.MovProofs
  Proofs.StepRefines Proofs.MovExtProofs Proofs.StepRefines4 Proofs.StepRefines6.
Import ListNotations.
Open Scope bool_scope. Open Scope Z_scope.
Ltac Zify.zify_post_hook ::= Z.div_mod_to_equations.

Definition stc_charge (icnt a : Z) : M Z := i <- cs KI icnt ;; d <- csa KM 1 a ;; ret (u8add i d).

(* s: the state in which the extension word is the next word to be fetched *)
Theorem stc_disp16_refines_proof op op2 d s :
  0 <= ccr s < 256 -> bus_bytes_ok s -> pc s mod 2 = 0 -> 0 <= pc s -> pc s + 2 < 4294967296 -> mem_read SW s (pc s) = Some d ->
  let r := Z.land (nib op2 3) 7 in
  let a := ea_addr SW s (EDisp r (sx 16 d)) in
  run_tag TStcDisp16 op op2 0 s = then_charge (mem_write SW (post_fetch s) a (ccr s)) (stc_charge 3 a).
Proof.
  intros Hc Hb Hev H0 H1 Hd r a. cbn [run_tag]. fold r.
  pose proof (word_range s _ _ Hb Hd) as Rd.
  assert (R7 : 0 <= r < 8) by (subst r; change 7 with (2^3 - 1); rewrite land_ones_mod by lia; change (2^3) with 8; lia).
  unfold bind at 1. rewrite (fetch_word s d) by assumption. fold (post_fetch s).
  unfold bind at 1. rewrite ea_disp16 by assumption.
  change (ea_addr SB (post_fetch s) (EDisp r (sx 16 d))) with a.
  unfold bind at 1. unfold get_ccr. unfold bind at 1. change (ccr (post_fetch s)) with (ccr s). rewrite write_w_spec by lia.
  destruct (mem_write SW (post_fetch s) a (ccr s)) as [s1|]; reflexivity.
Qed.

Theorem stc_abs16_refines_proof op op2 d s :
  0 <= ccr s < 256 -> bus_bytes_ok s -> pc s mod 2 = 0 -> 0 <= pc s -> pc s + 2 < 4294967296 -> mem_read SW s (pc s) = Some d ->
  run_tag TStcAbs16 op op2 0 s = then_charge (mem_write SW (post_fetch s) (abs16 d) (ccr s)) (stc_charge 3 (abs16 d)).
Proof.
  intros Hc Hb Hev H0 H1 Hd. cbn [run_tag].
  pose proof (word_range s _ _ Hb Hd) as Rd.
  unfold bind at 1. rewrite (fetch_word s d) by assumption. fold (post_fetch s).
  rewrite ea_abs16 by assumption.
  unfold bind at 1. unfold get_ccr. unfold bind at 1. change (ccr (post_fetch s)) with (ccr s). rewrite write_w_spec by lia.
  destruct (mem_write SW (post_fetch s) (abs16 d) (ccr s)) as [s1|]; reflexivity.
Qed.

Theorem stc_abs24_refines_proof op op2 h l s :
  0 <= ccr s < 256 -> bus_bytes_ok s -> pc s mod 2 = 0 -> 0 <= pc s -> pc s + 4 < 4294967296 ->
  mem_read SW s (pc s) = Some h -> mem_read SW s (pc s + 2) = Some l ->
  let a := h * 65536 + l in
  run_tag TStcAbs24 op op2 0 s = then_charge (mem_write SW (post_fetch_2w s) a (ccr s)) (stc_charge 4 a).
Proof.
  intros Hc Hb Hev H0 H1 Hh Hl a. cbn [run_tag].
  unfold bind at 1. rewrite (fetch32_words s h l) by assumption. fold (post_fetch_2w s). fold a.
  unfold bind at 1. unfold get_ccr. unfold bind at 1. change (ccr (post_fetch_2w s)) with (ccr s). rewrite write_w_spec by lia.
  destruct (mem_write SW (post_fetch_2w s) a (ccr s)) as [s1|]; reflexivity.
Qed.

(* the 24-bit displacement form checks its third word (6BA0) itself *)
Theorem stc_disp24_refines_proof op op2 h l s :
  0 <= ccr s < 256 -> bus_bytes_ok s -> pc s mod 2 = 0 -> 0 <= pc s -> pc s + 6 < 4294967296 ->
  mem_read SW s (pc s) = Some 0x6ba0 -> mem_read SW s (pc s + 2) = Some h -> mem_read SW s (pc s + 4) = Some l -> 0 <= h < 256 ->
  0 <= nib op2 3 < 8 ->
  let a := ea_addr SW s (EDisp (nib op2 3) (sx 24 (h * 65536 + l))) in
  run_tag TStcDisp24 op op2 0 s = then_charge (mem_write SW (post_fetch3 s) a (ccr s)) (stc_charge 5 a).
Proof.
  intros Hc Hb Hev H0 H1 Hw3 Hh Hl Rh Hr a. cbn [run_tag].
  pose proof (word_range s _ _ Hb Hl) as Rl.
  unfold bind at 1. rewrite (fetch_word s 0x6ba0) by (try assumption; lia). fold (post_fetch s).
  cbn [Z.eqb Pos.eqb]. unfold guard. unfold bind at 1. unfold ret at 1. cbv beta iota.
  unfold bind at 1. rewrite (fetch_imm32 s h l) by assumption.
  unfold bind at 1. rewrite ea_disp24 by lia.
  change (ea_addr SB (post_fetch3 s) (EDisp (nib op2 3) (sx 24 (h * 65536 + l)))) with a.
  unfold bind at 1. unfold get_ccr. unfold bind at 1. change (ccr (post_fetch3 s)) with (ccr s). rewrite write_w_spec by lia.
  destruct (mem_write SW (post_fetch3 s) a (ccr s)) as [s1|]; reflexivity.
Qed.
