(* Branches, calls, returns and exception instructions (C05, C06): each handler of the model is the reference's
   state transformer followed by the handler's charge, for every state. *)
From Coq Require Import Bool ZArith Lia ZifyBool List.
From K Require Import Lib.Bits Lib.Types Model.Machine Model.Bus Model.Cost Model.Addressing Model.Alu Model.Exec Spec.ISA
  Proofs.RegProofs Proofs.MemProofs Proofs.FlagProofs Proofs.EaProofs Proofs.IrqProofs Proofs.StackProofs.
Import ListNotations.
Open Scope bool_scope. Open Scope Z_scope.
Ltac Zify.zify_post_hook ::= Z.div_mod_to_equations.

Definition then_charge {A} (o : option cpu) (m : M A) : outcome A := match o with Some s' => m s' | None => Err end.

(* ---- Bcc d:8 ---- *)
Theorem bcc8_refines_proof cc op s :
  0 <= cc < 16 -> 0 <= ccr s < 256 ->
  (cond_ref cc (ccr s) = true -> 0 <= pc s + sx 8 (lo8 op) < 4294967296 /\ (pc s + sx 8 (lo8 op)) mod 2 = 0) ->
  run_tag (TBcc8 cc) op 0 0 s = cs KI 2 (with_pc (if cond_ref cc (ccr s) then pc s + sx 8 (lo8 op) else pc s) s).
Proof.
  intros Hcc Hc Ht. cbn [run_tag]. unfold bind at 1. unfold get_ccr. rewrite cond_table_proof by assumption.
  destruct (cond_ref cc (ccr s)) eqn:E.
  - destruct (Ht eq_refl) as [Hr Hp]. unfold bind, pc_disp, get_pc, bind. unfold sext. change (sgn 8 (lo8 op)) with (sx 8 (lo8 op)).
    replace ((pc s + sx 8 (lo8 op) <? 0) || (2 ^ 32 <=? pc s + sx 8 (lo8 op))) with false by (change (2^32) with 4294967296; lia).
    unfold put_pc, modify, guard. replace ((pc s + sx 8 (lo8 op)) mod 2 =? 0) with true by lia. reflexivity.
  - unfold bind, ret. unfold with_pc. destruct s; reflexivity.
Qed.

(* ---- JMP @ERn ---- *)
Theorem jmp_ern_refines_proof op s : 0 <= nib op 3 < 8 ->
  run_tag TJmpErn op 0 0 s = cs KI 2 (with_pc (reg32 s (nib op 3) mod A24) s).
Proof.
  intros Hr. cbn [run_tag]. unfold bind at 1. rewrite read_rn_l_spec by assumption.
  unfold bind, put_pc, modify. rewrite mask24. reflexivity.
Qed.

(* ---- JMP @@aa:8 ---- *)
Theorem jmp_ind_refines_proof op s : bus_bytes_ok s ->
  run_tag TJmpInd op 0 0 s =
  then_charge (option_map (fun v => with_pc (v mod A24) s) (mem_read SL s (lo8 op)))
              (i <- cs KI 2 ;; j <- csa KJ 2 (lo8 op) ;; n <- cs KN 2 ;; ret (u8add (u8add i j) n)).
Proof.
  intros Hb. cbn [run_tag]. unfold bind at 1. rewrite read_l_spec by assumption.
  destruct (mem_read SL s (lo8 op)) as [v|]; cbn [option_map then_charge]; [|reflexivity].
  unfold bind at 1. unfold put_pc, modify. rewrite mask24. reflexivity.
Qed.

(* ---- BSR d:8 ---- *)
Theorem bsr8_refines_proof op s : regs_ok s -> 0 <= pc s < 4294967296 ->
  run_tag TBsr8 op 0 0 s =
  then_charge (option_map (fun s1 => with_pc ((pc s + sx 8 (lo8 op)) mod 4294967296) s1) (push32 s (pc s)))
              (i <- cs KI 2 ;; k <- csa KK 2 ((reg32 s 7 - 4) mod A24) ;; ret (u8add i k)).
Proof.
  intros Hr Hp. cbn [run_tag]. unfold bind at 1. unfold sp_minus4, bind. rewrite read_rn_l_spec by lia. unfold ret.
  unfold get_pc. rewrite push_l_spec by assumption.
  destruct (push32 s (pc s)) as [s1|] eqn:E; cbn [option_map then_charge]; [|reflexivity].
  unfold put_pc, modify. rewrite mask24. unfold wrap. change (2^32) with 4294967296. rewrite sp_dec_addr.
  unfold sext. change (sgn 8 (lo8 op)) with (sx 8 (lo8 op)). change (2^32) with 4294967296. reflexivity.
Qed.

(* ---- JSR @ERn ---- *)
Theorem jsr_ern_refines_proof op s : regs_ok s -> 0 <= pc s < 4294967296 -> 0 <= nib op 3 < 8 ->
  run_tag TJsrErn op 0 0 s =
  then_charge (option_map (fun s1 => with_pc (reg32 s1 (nib op 3) mod A24) s1) (push32 s (pc s)))
              (i <- cs KI 2 ;; k <- csa KK 2 ((reg32 s 7 - 4) mod A24) ;; ret (u8add i k)).
Proof.
  intros Hr Hp Hn. cbn [run_tag]. unfold bind at 1. unfold sp_minus4, bind. rewrite read_rn_l_spec by lia. unfold ret.
  unfold get_pc. rewrite push_l_spec by assumption.
  destruct (push32 s (pc s)) as [s1|] eqn:E; cbn [option_map then_charge]; [|reflexivity].
  rewrite read_rn_l_spec by assumption.
  unfold put_pc, modify. rewrite !mask24. unfold wrap. change (2^32) with 4294967296. rewrite sp_dec_addr. reflexivity.
Qed.

(* the reference computes the target before the push: the same register unless it is the stack pointer *)
Lemma push32_other_regs s v s1 r : push32 s v = Some s1 -> 0 <= r < 7 -> reg32 s1 r = reg32 s r.
Proof.
  unfold push32, ea_update. intros H Hr. destruct (mem_write_l_er _ _ _ _ H) as (He & _).
  unfold reg32, set_reg32 in *. rewrite He. cbn [er set_regs]. rewrite get_set_er by lia.
  replace (7 =? r) with false by lia. reflexivity.
Qed.

(* ---- RTS ---- *)
Lemma pop_l_spec s : bus_bytes_ok s ->
  read_inc_ern SL 7 s = match pop32 s with Some (v, s1) => Ok v s1 | None => Err end.
Proof.
  intros Hb. unfold read_inc_ern, bind. rewrite read_rn_l_spec by lia. cbn [bytes_of]. unfold read_abs24. cbn [Z.eqb Pos.eqb].
  rewrite read_l_spec by assumption. rewrite mask24. unfold pop32, A24.
  destruct (mem_read SL s (reg32 s 7 mod 16777216)) as [v|]; cbn [ISA.obind]; [|reflexivity].
  rewrite write_rn_l_spec by lia. unfold ret, ea_update, wrap. cbn [bytes_of]. change (2^32) with 4294967296. reflexivity.
Qed.

Theorem rts_refines_proof op s : bus_bytes_ok s ->
  run_tag TRts op 0 0 s =
  then_charge (option_map (fun '(v, s1) => with_pc (v mod A24) s1) (pop32 s))
              (i <- cs KI 2 ;; k <- csa KK 2 (reg32 s 7 mod A24) ;; n <- cs KN 2 ;; ret (u8add (u8add i k) n)).
Proof.
  intros Hb. cbn [run_tag]. unfold bind at 1. rewrite read_rn_l_spec by lia.
  unfold bind at 1. rewrite pop_l_spec by assumption.
  destruct (pop32 s) as [[v s1]|]; cbn [option_map then_charge]; [|reflexivity].
  unfold bind at 1. unfold put_pc, modify. rewrite !mask24. reflexivity.
Qed.

(* ---- RTE ---- *)
Lemma mem_read_l_range s a v : bus_bytes_ok s -> mem_read SL s a = Some v -> 0 <= v < 4294967296.
Proof.
  intros Hb. cbn [mem_read]. unfold mem8.
  destruct (bus_read (cbus s) a) as [b0|] eqn:E0; [|discriminate].
  destruct (bus_read (cbus s) (a + 1)) as [b1|] eqn:E1; [|discriminate].
  destruct (bus_read (cbus s) (a + 2)) as [b2|] eqn:E2; [|discriminate].
  destruct (bus_read (cbus s) (a + 3)) as [b3|] eqn:E3; [|discriminate].
  pose proof (Hb _ _ E0) as R0. pose proof (Hb _ _ E1) as R1. pose proof (Hb _ _ E2) as R2. pose proof (Hb _ _ E3) as R3.
  intros Heq. injection Heq as <-. lia.
Qed.

Theorem rte_refines_proof op s : bus_bytes_ok s ->
  run_tag TRte op 0 0 s =
  then_charge (option_map (fun '(v, s1) => with_pc (v mod A24) (with_ccr (v / A24) s1)) (pop32 s))
              (i <- cs KI 2 ;; k <- csa KK 2 (reg32 s 7 mod A24) ;; n <- cs KN 2 ;; ret (u8add (u8add i k) n)).
Proof.
  intros Hb. cbn [run_tag]. unfold bind at 1. rewrite read_rn_l_spec by lia.
  unfold bind at 1. rewrite pop_l_spec by assumption.
  destruct (pop32 s) as [[v s1]|] eqn:E; cbn [option_map then_charge]; [|reflexivity].
  assert (Hv : 0 <= v < 4294967296).
  { unfold pop32 in E. destruct (mem_read SL s (reg32 s 7 mod A24)) as [v'|] eqn:E'; cbn [ISA.obind] in E; [|discriminate].
    injection E as <- _. apply (mem_read_l_range s _ _ Hb E'). }
  unfold bind at 1. unfold put_ccr, modify. unfold bind at 1. unfold put_pc, modify. rewrite !mask24.
  rewrite shiftr_div by lia. unfold with_pc, with_ccr, A24. change (2^24) with 16777216.
  cbn [set_ccr pc ccr set_pc]. reflexivity.
Qed.

(* ---- TRAPA #1-3: the exception entry of C06 through vector 8 + n ---- *)
Theorem trapa_refines_proof op s :
  regs_ok s -> 0 <= ccr s < 256 -> 0 <= pc s < 16777216 -> 1 <= nib op 3 <= 3 ->
  (forall s1, push32 s (ccr s * A24 + pc s) = Some s1 -> bus_bytes_ok s1) ->
  run_tag TTrapa op 0 0 s =
  then_charge (enter_ref s (8 + nib op 3) (pc s))
              (i <- cs KI 2 ;; j <- csa KJ 2 (0x20 + 4 * nib op 3) ;; k <- csa KK 2 ((reg32 s 7 - 4) mod A24) ;; n <- cs KN 4 ;;
               ret (u8add (u8add (u8add i j) k) n)).
Proof.
  intros Hr Hc Hp Hn Hbytes. cbn [run_tag]. unfold bind at 1. rewrite read_rn_l_spec by lia.
  replace (nib op 3 =? 0) with false by lia.
  unfold bind at 1. unfold get_ccr. unfold bind at 1. unfold get_pc.
  assert (Eframe : Z.lor (Z.shiftl (ccr s) 24) (pc s) = ccr s * A24 + pc s).
  { rewrite shiftl_mul by lia. unfold A24. change 16777216 with (2^24).
    apply lor_high_low; [lia|change (2^24) with 16777216; lia]. }
  rewrite Eframe. unfold bind at 1.
  rewrite push_l_spec by (try assumption; unfold A24; lia).
  unfold enter_ref.
  destruct (push32 s (ccr s * A24 + pc s)) as [s1|] eqn:E1; cbn [ISA.obind then_charge]; [|reflexivity].
  unfold bind at 1. rewrite read_l_spec by (apply Hbytes; reflexivity).
  replace (4 * (8 + nib op 3)) with (0x20 + 4 * nib op 3) by lia.
  destruct (mem_read SL s1 (0x20 + 4 * nib op 3)) as [d|]; cbn [ISA.obind then_charge]; [|reflexivity].
  unfold bind at 1. unfold put_pc, modify. unfold bind at 1. unfold get_ccr. unfold bind at 1. unfold put_ccr, modify. cbn [ccr set_pc].
  assert (Hc1 : ccr s1 = ccr s).
  { unfold push32 in E1. destruct (mem_write_l_er _ _ _ _ E1) as (_ & C & _). rewrite C. reflexivity. }
  rewrite ccr_put_spec by (unfold FI; try lia; rewrite Hc1; lia).
  rewrite !mask24. unfold wrap. change (2^32) with 4294967296. rewrite sp_dec_addr.
  unfold with_pc, with_ccr, A24, fI, FI. reflexivity.
Qed.

(* ---- the second instruction word ---- *)
Lemma fetch_word s w : bus_bytes_ok s -> pc s mod 2 = 0 -> 0 <= pc s -> pc s + 2 < 4294967296 ->
  mem_read SW s (pc s) = Some w ->
  fetch s = Ok w (set_pc (pc s + 2) (set_opc (pc s) s)).
Proof.
  intros Hb Hev H0 H1. cbn [mem_read]. unfold mem8, fetch.
  assert (Ep : Z.land (pc s) 0xfffffffe = pc s).
  { change 0xfffffffe with ((2^31 - 1) * 2^1). rewrite land_shifted_mask by lia. rewrite land_ones_mod by lia.
    change (2^1) with 2. change (2^31) with 2147483648. lia. }
  rewrite Ep. unfold wrap. change (2^32) with 4294967296. rewrite (Z.mod_small (pc s + 1)) by lia. rewrite (Z.mod_small (pc s + 2)) by lia.
  destruct (bus_read (cbus s) (pc s)) as [h|] eqn:E0; [|discriminate].
  destruct (bus_read (cbus s) (pc s + 1)) as [l|] eqn:E1; [|discriminate].
  pose proof (Hb _ _ E0) as R0. pose proof (Hb _ _ E1) as R1. intros Heq. injection Heq as <-.
  f_equal. rewrite shiftl_mul by lia. change (2^8) with 256. change 256 with (2^8) at 1.
  rewrite lor_high_low by (change (2^8) with 256; lia). reflexivity.
Qed.

Lemma bytes_ok_set_pc_opc s a b : bus_bytes_ok s -> bus_bytes_ok (set_pc a (set_opc b s)).
Proof. intros H. exact H. Qed.

(* ---- Bcc d:16 ---- *)
Theorem bcc16_refines_proof cc op d s :
  0 <= cc < 16 -> 0 <= ccr s < 256 -> bus_bytes_ok s -> pc s mod 2 = 0 -> 0 <= pc s -> pc s + 2 < 4294967296 ->
  mem_read SW s (pc s) = Some d ->
  (cond_ref cc (ccr s) = true -> 0 <= pc s + 2 + sx 16 d < 4294967296 /\ (pc s + 2 + sx 16 d) mod 2 = 0) ->
  run_tag (TBcc16 cc) op 0 0 s =
  (i <- cs KI 2 ;; n <- cs KN 2 ;; ret (u8add i n))
    (with_pc (if cond_ref cc (ccr s) then pc s + 2 + sx 16 d else pc s + 2) (set_opc (pc s) s)).
Proof.
  intros Hcc Hc Hb Hev H0 H1 Hd Ht. cbn [run_tag]. unfold bind at 1. rewrite (fetch_word s d) by assumption.
  unfold bind at 1. unfold get_ccr. cbn [ccr set_pc set_opc]. rewrite cond_table_proof by assumption.
  destruct (cond_ref cc (ccr s)) eqn:E.
  - destruct (Ht eq_refl) as [Hr Hp]. unfold bind at 1. unfold pc_disp, get_pc, bind at 1. cbn [pc set_pc].
    unfold sext. change (sgn 16 d) with (sx 16 d).
    replace ((pc s + 2 + sx 16 d <? 0) || (2 ^ 32 <=? pc s + 2 + sx 16 d)) with false by (change (2^32) with 4294967296; lia).
    unfold bind at 1. unfold put_pc, modify, guard. replace ((pc s + 2 + sx 16 d) mod 2 =? 0) with true by lia. reflexivity.
  - unfold bind at 1. unfold ret. reflexivity.
Qed.

(* ---- JMP @aa:24 ---- *)
Theorem jmp_abs_refines_proof op d s :
  bus_bytes_ok s -> pc s mod 2 = 0 -> 0 <= pc s -> pc s + 2 < 4294967296 -> 0 <= lo8 op < 256 ->
  mem_read SW s (pc s) = Some d ->
  run_tag TJmpAbs op 0 0 s =
  (i <- cs KI 2 ;; n <- cs KN 2 ;; ret (u8add i n)) (with_pc (lo8 op * 65536 + d) (set_opc (pc s) s)).
Proof.
  intros Hb Hev H0 H1 Hl Hd. cbn [run_tag]. unfold bind at 1. rewrite (fetch_word s d) by assumption.
  assert (Rd : 0 <= d < 65536).
  { cbn [mem_read] in Hd. unfold mem8 in Hd.
    destruct (bus_read (cbus s) (pc s)) as [h|] eqn:E0; [|discriminate].
    destruct (bus_read (cbus s) (pc s + 1)) as [l|] eqn:E1; [|discriminate].
    pose proof (Hb _ _ E0). pose proof (Hb _ _ E1). injection Hd as <-. lia. }
  unfold bind at 1. unfold put_pc, modify.
  rewrite shiftl_mul by lia. change (2^16) with 65536. change 65536 with (2^16) at 1.
  rewrite lor_high_low by (change (2^16) with 65536; lia). change (2^16) with 65536. reflexivity.
Qed.

Lemma regs_ok_set_pc_opc s a b : regs_ok s -> regs_ok (set_pc a (set_opc b s)).
Proof. intros H. exact H. Qed.

(* ---- BSR d:16 ---- *)
Theorem bsr16_refines_proof op d s :
  regs_ok s -> bus_bytes_ok s -> pc s mod 2 = 0 -> 0 <= pc s -> pc s + 2 < 4294967296 ->
  mem_read SW s (pc s) = Some d ->
  run_tag TBsr16 op 0 0 s =
  then_charge (option_map (fun s1 => with_pc ((pc s + 2 + sx 16 d) mod 4294967296) s1)
                          (push32 (set_pc (pc s + 2) (set_opc (pc s) s)) (pc s + 2)))
              (i <- cs KI 2 ;; k <- csa KK 2 ((reg32 s 7 - 4) mod A24) ;; n <- cs KN 2 ;; ret (u8add (u8add i k) n)).
Proof.
  intros Hr Hb Hev H0 H1 Hd. cbn [run_tag]. unfold bind at 1. unfold sp_minus4, bind at 1. rewrite read_rn_l_spec by lia. unfold ret.
  unfold bind at 1. rewrite (fetch_word s d) by assumption.
  unfold bind at 1. unfold get_pc. cbn [pc set_pc]. unfold bind at 1.
  rewrite push_l_spec by (try apply regs_ok_set_pc_opc; try assumption; lia).
  destruct (push32 (set_pc (pc s + 2) (set_opc (pc s) s)) (pc s + 2)) as [s1|] eqn:E; cbn [option_map then_charge]; [|reflexivity].
  unfold bind at 1. unfold put_pc, modify. rewrite mask24. unfold wrap. change (2^32) with 4294967296. rewrite sp_dec_addr.
  unfold sext. change (sgn 16 d) with (sx 16 d). reflexivity.
Qed.

(* ---- JSR @aa:24 ---- *)
Theorem jsr_abs_refines_proof op d s :
  regs_ok s -> bus_bytes_ok s -> pc s mod 2 = 0 -> 0 <= pc s -> pc s + 2 < 4294967296 -> 0 <= lo8 op < 256 ->
  mem_read SW s (pc s) = Some d ->
  run_tag TJsrAbs op 0 0 s =
  then_charge (option_map (fun s1 => with_pc (lo8 op * 65536 + d) s1)
                          (push32 (set_pc (pc s + 2) (set_opc (pc s) s)) (pc s + 2)))
              (i <- cs KI 2 ;; k <- csa KK 2 ((reg32 s 7 - 4) mod A24) ;; n <- cs KN 2 ;; ret (u8add (u8add i k) n)).
Proof.
  intros Hr Hb Hev H0 H1 Hl Hd. cbn [run_tag]. unfold bind at 1. unfold sp_minus4, bind at 1. rewrite read_rn_l_spec by lia. unfold ret.
  unfold bind at 1. rewrite (fetch_word s d) by assumption.
  assert (Rd : 0 <= d < 65536).
  { cbn [mem_read] in Hd. unfold mem8 in Hd.
    destruct (bus_read (cbus s) (pc s)) as [h|] eqn:E0; [|discriminate].
    destruct (bus_read (cbus s) (pc s + 1)) as [l|] eqn:E1; [|discriminate].
    pose proof (Hb _ _ E0). pose proof (Hb _ _ E1). injection Hd as <-. lia. }
  unfold bind at 1. unfold get_pc. cbn [pc set_pc]. unfold bind at 1.
  rewrite push_l_spec by (try apply regs_ok_set_pc_opc; try assumption; lia).
  destruct (push32 (set_pc (pc s + 2) (set_opc (pc s) s)) (pc s + 2)) as [s1|] eqn:E; cbn [option_map then_charge]; [|reflexivity].
  unfold bind at 1. unfold put_pc, modify. rewrite mask24. unfold wrap. change (2^32) with 4294967296. rewrite sp_dec_addr.
  rewrite shiftl_mul by lia. change (2^16) with 65536. change 65536 with (2^16) at 1.
  rewrite lor_high_low by (change (2^16) with 65536; lia). change (2^16) with 65536. reflexivity.
Qed.

(* ---- JSR @@aa:8: the vector is read after the push (the same value unless the frame overlaps the vector) ---- *)
Theorem jsr_ind_refines_proof op s : regs_ok s -> 0 <= pc s < 4294967296 ->
  (forall s1, push32 s (pc s) = Some s1 -> bus_bytes_ok s1) ->
  run_tag TJsrInd op 0 0 s =
  then_charge (ISA.obind (push32 s (pc s)) (fun s1 => option_map (fun v => with_pc (v mod A24) s1) (mem_read SL s1 (lo8 op))))
              (i <- cs KI 2 ;; j <- csa KJ 2 (lo8 op) ;; k <- csa KK 2 ((reg32 s 7 - 4) mod A24) ;; ret (u8add (u8add i j) k)).
Proof.
  intros Hr Hp Hb. cbn [run_tag]. unfold bind at 1. unfold sp_minus4, bind at 1. rewrite read_rn_l_spec by lia. unfold ret.
  unfold bind at 1. unfold get_pc. unfold bind at 1. rewrite push_l_spec by assumption.
  destruct (push32 s (pc s)) as [s1|] eqn:E; cbn [ISA.obind then_charge]; [|reflexivity].
  unfold bind at 1. rewrite read_l_spec by (apply Hb; reflexivity).
  destruct (mem_read SL s1 (lo8 op)) as [v|]; cbn [option_map then_charge]; [|reflexivity].
  unfold bind at 1. unfold put_pc, modify. rewrite !mask24. unfold wrap. change (2^32) with 4294967296. rewrite sp_dec_addr. reflexivity.
Qed.
