(* The run loop on plain programs (C13): when no control line arrives, no interrupt request is pending and the timer is
   stopped, every iteration of the model's run() loop is one reference instruction plus the accounting, and the whole run
   is the iterated reference - by induction over the iterations, on top of the one-instruction theorem. *)
From Coq Require Import Bool ZArith Lia ZifyBool List.
From K Require Import Lib.Bits Lib.Types Model.Machine Model.Bus Model.Cost Model.Addressing Model.Alu Model.Exec Model.Periph Model.Run
  Spec.MemMap Spec.Price Spec.ISA Spec.Domains
  Proofs.PriceProofs Proofs.RegProofs Proofs.MemProofs Proofs.StepProofs Proofs.CtlProofs Proofs.MovProofs
  Proofs.StepRefines Proofs.ChargeProofs Proofs.ChargeTotals Proofs.RefStep Proofs.FrameRest Proofs.Preserve.
Import ListNotations.
Open Scope bool_scope. Open Scope Z_scope.
Ltac Zify.zify_post_hook ::= Z.div_mod_to_equations.

(* the accounting after an instruction charged c: time base, sync message on passing a multiple of 2,000,000 *)
Definition account (s1 : cpu) (c sync : Z) : cpu * Z :=
  let state := c * 3 in
  let total := ssum s1 + state in
  let s3 := set_bus (bset_sum total (cbus s1)) (set_ssum total s1) in
  let sync1 := sync + state in
  if SYNC_INTERVAL <=? sync1 then
    ((if sock s3 then set_bus (bset_msgs (b_msgs (cbus s3) ++ [MsgSync total]) (cbus s3)) s3 else s3), sync1 - SYNC_INTERVAL)
  else (s3, sync1).

(* one iteration of the reference: the instruction at PC (inside the domain), then the accounting *)
Definition plain_iter (s : cpu) (sync : Z) : option (cpu * Z) :=
  match ref_decode s with
  | Some (i, len) =>
    if dom_c20 i len s && side_okb i s then
      match sem_ref i len s with
      | Some s' => Some (account (set_opc (pc s + len - 2) s') (charge_ref i len s) sync)
      | None => None
      end
    else None
  | None => None
  end.

(* iterate until PC = exit address *)
Fixpoint plain_run (fuel : nat) (s : cpu) (sync : Z) : option cpu :=
  match fuel with
  | O => None
  | S k =>
    match plain_iter s sync with
    | Some (s4, sync2) => if pc s4 =? exit_addr s4 then Some s4 else plain_run k s4 sync2
    | None => None
    end
  end.

(* the situation in which the loop body is just "one instruction": nothing pending, timer stopped *)
Definition quiet (s : cpu) : Prop := irq s = [] /\ t_presc (b_tmr (cbus s)) = 0.

Lemma state_ok_same s s' : cbus s' = cbus s \/ (b_vec (cbus s') = b_vec (cbus s) /\ b_dram (cbus s') = b_dram (cbus s) /\ b_io1 (cbus s') = b_io1 (cbus s)
                                /\ b_ram (cbus s') = b_ram (cbus s) /\ b_io2 (cbus s') = b_io2 (cbus s)) ->
  er s' = er s -> ccr s' = ccr s -> fault s' = fault s -> state_ok s -> state_ok s'.
Proof.
  intros Hbus He Hc Hf (Hok & Hb & Hbo & Hff).
  assert (Hrd : forall a, bus_read (cbus s') a = bus_read (cbus s) a).
  { intros a. destruct Hbus as [-> | (E1 & E2 & E3 & E4 & E5)]; [reflexivity|]. unfold bus_read. rewrite E1, E2, E3, E4, E5. reflexivity. }
  assert (Hio : b_io1 (cbus s') = b_io1 (cbus s)) by (destruct Hbus as [-> | (_ & _ & E3 & _)]; [reflexivity|exact E3]).
  split; [|split; [|split]].
  - destruct Hok as [Hr Hcc]. split; [intros i; rewrite He; apply Hr|rewrite Hc; exact Hcc].
  - intros a v H. rewrite Hrd in H. exact (Hb a v H).
  - intros a Ha. unfold reg. rewrite Hio. exact (Hbo a Ha).
  - rewrite Hf. exact Hff.
Qed.

Lemma account_rest s1 c sync s4 sync2 : account s1 c sync = (s4, sync2) ->
  irq s4 = irq s1 /\ b_tmr (cbus s4) = b_tmr (cbus s1) /\ (state_ok s1 -> state_ok s4).
Proof.
  unfold account. cbv zeta. intros H.
  destruct (SYNC_INTERVAL <=? sync + c * 3).
  - destruct (sock (set_bus (bset_sum (ssum s1 + c * 3) (cbus s1)) (set_ssum (ssum s1 + c * 3) s1))); inversion H; subst; clear H;
      (split; [reflexivity|split; [reflexivity|]]); apply state_ok_same; try reflexivity; right; repeat split; reflexivity.
  - inversion H; subst; clear H. (split; [reflexivity|split; [reflexivity|]]); apply state_ok_same; try reflexivity; right; repeat split; reflexivity.
Qed.

Lemma try_interrupt_quiet s : irq s = [] -> try_interrupt s = Ok tt s.
Proof. intros H. unfold try_interrupt. rewrite H. destruct (ccr_get FI (ccr s) =? 0); reflexivity. Qed.

Lemma update_timer_stopped st s : t_presc (b_tmr (cbus s)) = 0 -> update_timer st s = s.
Proof. intros H. unfold update_timer. rewrite H. reflexivity. Qed.

Theorem iter_insn_plain s sync s4 sync2 :
  state_ok s -> quiet s -> plain_iter s sync = Some (s4, sync2) ->
  iter_insn s sync false = (if pc s4 =? exit_addr s4 then Finished s4 else Continue (mkR (mkCtl s4 false false) sync2))
  /\ state_ok s4 /\ quiet s4.
Proof.
  intros Hst [Hirq Htmr] H. unfold plain_iter in H.
  destruct (ref_decode s) as [[i len]|] eqn:Hdec; [|discriminate].
  destruct (dom_c20 i len s && side_okb i s) eqn:Hd; [|discriminate].
  apply andb_true_iff in Hd. destruct Hd as [Hdom Hside]. apply side_okb_ok in Hside.
  destruct (sem_ref i len s) as [s'|] eqn:Hsem; [|discriminate].
  pose proof (step_is_ref_step_proof s i len s' Hst Hdec Hside Hdom Hsem) as Hstep.
  pose proof (step_preserves_state_ok s i len s' _ _ Hst Hdec Hside Hdom Hsem Hstep) as Hst1.
  pose proof (sem_ref_rest i len s s' Hdom Hsem) as Hrest. unfold rest in Hrest.
  assert (Hirq1 : irq (set_opc (pc s + len - 2) s') = []) by (cbn [irq set_opc]; inversion Hrest; congruence).
  assert (Htmr1 : t_presc (b_tmr (cbus (set_opc (pc s + len - 2) s'))) = 0) by (cbn [cbus set_opc]; inversion Hrest; congruence).
  set (s1 := set_opc (pc s + len - 2) s') in *.
  inversion H as [Hacc_eq]. clear H.
  destruct (account_rest s1 (charge_ref i len s) sync s4 sync2 Hacc_eq) as (A1 & A2 & A5).
  split; [|split; [exact (A5 Hst1)|split; congruence]].
  unfold iter_insn. rewrite (try_interrupt_quiet s Hirq). rewrite Hstep. fold s1.
  unfold account in Hacc_eq. cbv zeta in Hacc_eq.
  destruct (SYNC_INTERVAL <=? sync + charge_ref i len s * 3) eqn:Esy.
  - inversion Hacc_eq; subst s4 sync2. rewrite update_timer_stopped by (rewrite <- Htmr1; destruct (sock _); reflexivity). reflexivity.
  - inversion Hacc_eq; subst s4 sync2. rewrite update_timer_stopped by exact Htmr1. reflexivity.
Qed.

Lemma iter_no_lines r : c_stopped (r_ctl r) = false -> c_paused (r_ctl r) = false ->
  iter [] r = iter_insn (c_cpu (r_ctl r)) (r_sync r) false.
Proof. intros H1 H2. unfold iter, process_batch. cbn [fold_left]. rewrite H1, H2. reflexivity. Qed.

Theorem run_iters_plain fuel : forall s sync sf,
  state_ok s -> quiet s -> plain_run fuel s sync = Some sf ->
  run_iters fuel [] (mkR (mkCtl s false false) sync) = Some (Finished sf) /\ state_ok sf.
Proof.
  induction fuel as [|k IH]; intros s sync sf Hst Hq H; cbn [plain_run] in H; [discriminate|].
  destruct (plain_iter s sync) as [[s4 sync2]|] eqn:Hit; [|discriminate].
  destruct (iter_insn_plain s sync s4 sync2 Hst Hq Hit) as (Hi & Hst4 & Hq4).
  cbn [run_iters]. rewrite iter_no_lines by reflexivity. cbn [r_ctl c_cpu r_sync]. rewrite Hi.
  destruct (pc s4 =? exit_addr s4).
  - inversion H; subst. split; [reflexivity|exact Hst4].
  - exact (IH s4 sync2 sf Hst4 Hq4 H).
Qed.
