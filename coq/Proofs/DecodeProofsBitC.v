(* second-word sweep of the bit-instruction prefixes (part C) *)
From Coq Require Import Bool ZArith List.
From K Require Import Lib.Bits Lib.Types Model.Exec Spec.ISA Proofs.DecodeProofs.
Import ListNotations.
Open Scope Z_scope.
Definition prefix_bit_C : list Z := map (fun r => 0x7c00 + 16 * r) (zrange 16).
Lemma bit_sweep_C : forallb (fun w0 => forallb (agree2 w0 (select_bit w0) 0) (zrange 65536)) prefix_bit_C = true.
Proof. vm_compute. reflexivity. Qed.
