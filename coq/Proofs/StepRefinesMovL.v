(* From the instruction words in memory to the reference semantics: MOV.L behind the 0100 prefix with a 16-bit
   displacement, a 16-bit absolute address (six bytes) or a 24-bit absolute address (eight bytes). *)
From Coq Require Import Bool ZArith Lia ZifyBool List.
From K Require Import Lib.Bits Lib.Types Model.Machine Model.Bus Model.Cost Model.Addressing Model.Alu Model.Exec Spec.ISA
  Proofs.RegProofs Proofs.MemProofs Proofs.FlagProofs Proofs.AluProofs Proofs.EaProofs Proofs.StepProofs Proofs.DecodeProofs
  Proofs.CtlProofs Proofs.MovProofs Proofs.MovExtProofs Proofs.TwoByte Proofs.FourByte Proofs.StepRefines Proofs.StepRefinesCtl
  Proofs.StepRefines2 Proofs.StepRefines4 Proofs.StepRefines6 Proofs.StepRefinesL Proofs.StepRefinesMov4 Proofs.StepRefinesMov6.
Import ListNotations.
Open Scope bool_scope. Open Scope Z_scope.
Ltac Zify.zify_post_hook ::= Z.div_mod_to_equations.

(* behind 0100: everything but the displacement / address comes from the second word *)
Definition movl6_shape (w1 w2 : Z) (i : insn) : Prop :=
  match i with
  | IMovLoad SL (EDisp r d) rd => decode_ref 0x0100 w1 0 0 0 = Some (IMovLoad SL (EDisp r (sx 16 0)) rd, 6) /\ d = sx 16 w2
  | IMovStore SL rs (EDisp r d) => decode_ref 0x0100 w1 0 0 0 = Some (IMovStore SL rs (EDisp r (sx 16 0)), 6) /\ d = sx 16 w2
  | IMovLoad SL (EAbs a) rd => decode_ref 0x0100 w1 0 0 0 = Some (IMovLoad SL (EAbs (abs16 0)) rd, 6) /\ a = abs16 w2
  | IMovStore SL rs (EAbs a) => decode_ref 0x0100 w1 0 0 0 = Some (IMovStore SL rs (EAbs (abs16 0)), 6) /\ a = abs16 w2
  | _ => True
  end.

Lemma movl_six_byte_operand w1 w2 w3 w4 i :
  decode_ref 0x0100 w1 w2 w3 w4 = Some (i, 6) -> movl6_shape w1 w2 i.
Proof.
  unfold decode_ref, dec_mov_mem, dec_unary, dec_imm_group, dec_bit_mem, req, ok; cbv zeta;
    change (hib 0x0100) with 1; change (lob 0x0100) with 0; cbn [Z.eqb Pos.eqb].
  split_ifs; intros H; try discriminate H;
    try (exfalso; clear -H; inversion H; fail).
  all: (apply (f_equal (fun o => match o with Some (x, _) => x | None => i end)) in H; cbv beta iota in H; subst i; unfold movl6_shape;
        first [ exact I
              | split; [|reflexivity];
                unfold decode_ref, dec_mov_mem, dec_unary, dec_imm_group, dec_bit_mem, req, ok; cbv zeta;
                change (hib 0x0100) with 1; change (lob 0x0100) with 0; cbn [Z.eqb Pos.eqb];
                repeat match goal with E : ?c = _ |- context [if ?c then _ else _] => rewrite E end; reflexivity ]).
Qed.

Definition movl8_shape (w1 w2 w3 : Z) (i : insn) : Prop :=
  match i with
  | IMovLoad SL (EAbs a) rd => decode_ref 0x0100 w1 0 0 0 = Some (IMovLoad SL (EAbs (lob 0 * 65536 + 0)) rd, 8) /\ a = lob w2 * 65536 + w3 /\ hib w2 = 0
  | IMovStore SL rs (EAbs a) => decode_ref 0x0100 w1 0 0 0 = Some (IMovStore SL rs (EAbs (lob 0 * 65536 + 0)), 8) /\ a = lob w2 * 65536 + w3 /\ hib w2 = 0
  | _ => True
  end.

Lemma movl_eight_byte_operand w1 w2 w3 w4 i :
  decode_ref 0x0100 w1 w2 w3 w4 = Some (i, 8) -> movl8_shape w1 w2 w3 i.
Proof.
  unfold decode_ref, dec_mov_mem, dec_unary, dec_imm_group, dec_bit_mem, req, ok; cbv zeta;
    change (hib 0x0100) with 1; change (lob 0x0100) with 0; cbn [Z.eqb Pos.eqb].
  split_ifs; intros H; try discriminate H;
    try (exfalso; clear -H; inversion H; fail).
  all: (apply (f_equal (fun o => match o with Some (x, _) => x | None => i end)) in H; cbv beta iota in H; subst i; unfold movl8_shape;
        try exact I).
  all: split; [|split; [reflexivity|]].
  all: try (repeat match goal with E : _ && _ = true |- _ => apply andb_true_iff in E; destruct E end; lia).
  all: unfold decode_ref, dec_mov_mem, dec_unary, dec_imm_group, dec_bit_mem, req, ok; cbv zeta;
                  change (hib 0x0100) with 1; change (lob 0x0100) with 0; cbn [Z.eqb Pos.eqb];
                  repeat match goal with E : ?c = _ |- context [if ?c then _ else _] => rewrite E end; try reflexivity.
  all: match goal with E : er_lo _ && _ = true |- _ => apply andb_true_iff in E; destruct E as [Ea Eb]; rewrite Ea; reflexivity end.
Qed.

Lemma post_fetch_pf2 s : post_fetch (post_fetch2 s) = post_fetch3 s.
Proof.
  unfold post_fetch, post_fetch2, post_fetch3. cbn [pc set_pc set_opc].
  replace (pc s + 4 + 2) with (pc s + 6) by lia. reflexivity.
Qed.

(* the length of the form determines the handler family *)
Definition is_movl6 (t : tag) : bool := match t with TMovDisp16 SL | TMovAbs16 SL => true | _ => false end.
Definition is_movl8 (t : tag) : bool := match t with TMovAbs24 SL => true | _ => false end.
Definition movl_len_tag_ok (w1 : Z) : bool :=
  match decode_ref 0x0100 w1 0 0 0 with
  | Some (_, len) => if len =? 6 then is_movl6 (select_movl w1) else if len =? 8 then is_movl8 (select_movl w1) else true
  | None => true
  end.
Lemma movl_len_tag_sweep : forallb movl_len_tag_ok (zrange 65536) = true.
Proof. vm_compute. reflexivity. Qed.
Lemma movl_len6_tag w1 i : 0 <= w1 < 65536 -> decode_ref 0x0100 w1 0 0 0 = Some (i, 6) -> is_movl6 (select_movl w1) = true.
Proof.
  intros Hw Hd. pose proof (forallb_zrange _ 65536 movl_len_tag_sweep w1 Hw) as H. unfold movl_len_tag_ok in H. rewrite Hd in H. exact H.
Qed.
Lemma movl_len8_tag w1 i : 0 <= w1 < 65536 -> decode_ref 0x0100 w1 0 0 0 = Some (i, 8) -> is_movl8 (select_movl w1) = true.
Proof.
  intros Hw Hd. pose proof (forallb_zrange _ 65536 movl_len_tag_sweep w1 Hw) as H. unfold movl_len_tag_ok in H. rewrite Hd in H. exact H.
Qed.

Ltac movl_start Hb Hw1 Hd0 Hag :=
  match type of Hw1 with mem_read SW ?s _ = Some ?w1 =>
    let Rw1 := fresh "Rw1" in pose proof (word_range s _ _ Hb Hw1) as Rw1;
    pose proof (movl_agree w1 _ _ Rw1 Hd0) as Hag;
    rewrite (step_prefix_movl s w1) by (try assumption; lia)
  end.

(* ---- MOV.L @(d:16,ERs),ERd ---- *)
Theorem step_movl_load_disp16_proof s w1 d w3 w4 r disp rd n s' :
  cpu_ok s -> bus_bytes_ok s -> fault s = false -> pc s mod 2 = 0 -> 0 <= pc s -> pc s + 6 < 4294967296 ->
  mem_read SW s (pc s) = Some 0x0100 -> mem_read SW s (pc s + 2) = Some w1 -> mem_read SW s (pc s + 4) = Some d ->
  decode_ref 0x0100 w1 d w3 w4 = Some (IMovLoad SL (EDisp r disp) rd, 6) ->
  sem_ref (IMovLoad SL (EDisp r disp) rd) 6 s = Some s' ->
  mov_charge SL (ea_addr SL s (EDisp r disp)) 3 0 (set_opc (pc s + 4) s') = Ok n (set_opc (pc s + 4) s') ->
  step s = Ok n (set_opc (pc s + 4) s').
Proof.
  intros Hok Hb Hf Hev H0 H1 Hw Hw1 Hd2 Hdec Hsem Hcs.
  destruct (movl_six_byte_operand _ _ _ _ _ Hdec) as [Hd0 Ei].
  movl_start Hb Hw1 Hd0 Hag.
  pose proof (movl_len6_tag w1 _ Rw1 Hd0) as Hm.
  destruct (select_movl w1) eqn:Es; try discriminate Hm; try (simpl in Hag; discriminate Hag); try (destruct s0; simpl in Hag; discriminate Hag).
  destruct s0; try discriminate Hm; try (simpl in Hag; discriminate Hag).
  cbn [agree] in Hag. repeat (apply andb_true_iff in Hag; destruct Hag as [Hag ?]).
  assert (Hl : Z.land w1 0x80 = 0) by lia. assert (Er : r = nib w1 3) by lia. assert (Ed : rd = nib w1 4) by lia.
  pose proof (nib_range w1 3) as R3. pose proof (nib_range w1 4) as R4.
  pose proof (mov_disp16_load_proof SL 0x0100 w1 d (post_fetch2 s)) as Hh. cbv zeta in Hh. cbn [opw icnt2] in Hh.
  rewrite Hh; [|exact Hok|exact Hb| | | |exact Hd2|exact Hl|lia|cbn [field_ok]; lia];
    [|unfold post_fetch2; cbn [pc set_pc]; lia..]. clear Hh.
  rewrite post_fetch_pf2.
  cbn [sem_ref ea_update] in Hsem. rewrite <- Er, <- Ed, <- Ei.
  change (mem_read SL (post_fetch2 s) (ea_addr SL (post_fetch2 s) (EDisp r disp))) with (mem_read SL s (ea_addr SL s (EDisp r disp))).
  change (ea_addr SL (post_fetch2 s) (EDisp r disp)) with (ea_addr SL s (EDisp r disp)).
  destruct (mem_read SL s (ea_addr SL s (EDisp r disp))) as [v|]; cbn [ISA.obind] in Hsem; [|discriminate Hsem].
  (apply (f_equal (fun o => match o with Some x => x | None => s' end)) in Hsem; cbv beta iota in Hsem; subst s').
  cbn [option_map then_charge]. unfold post_fetch3. rewrite set_reg_set_pc_opc. change (ccr (post_fetch2 s)) with (ccr s). unfold mov_ccr.
  change (with_ccr (set_flag fV false (set_nz (bits_of SL) v (ccr s))) (set_pc (pc s + 6) (set_opc (pc s + 4) (set_reg SL s rd v))))
    with (set_opc (pc s + 4) (with_pc (pc s + 6) (with_ccr (set_flag fV false (set_nz (bits_of SL) v (ccr s))) (set_reg SL s rd v)))).
  rewrite Hcs. unfold finish, with_pc, with_ccr. cbn [fault set_opc set_pc set_ccr]. rewrite fault_set_reg, Hf. reflexivity.
Qed.

(* ---- MOV.L ERs,@(d:16,ERd) ---- *)
Theorem step_movl_store_disp16_proof s w1 d w3 w4 rs r disp n s' :
  cpu_ok s -> bus_bytes_ok s -> fault s = false -> pc s mod 2 = 0 -> 0 <= pc s -> pc s + 6 < 4294967296 ->
  mem_read SW s (pc s) = Some 0x0100 -> mem_read SW s (pc s + 2) = Some w1 -> mem_read SW s (pc s + 4) = Some d ->
  decode_ref 0x0100 w1 d w3 w4 = Some (IMovStore SL rs (EDisp r disp), 6) ->
  sem_ref (IMovStore SL rs (EDisp r disp)) 6 s = Some s' ->
  mov_charge SL (ea_addr SL s (EDisp r disp)) 3 0 (set_opc (pc s + 4) s') = Ok n (set_opc (pc s + 4) s') ->
  step s = Ok n (set_opc (pc s + 4) s').
Proof.
  intros Hok Hb Hf Hev H0 H1 Hw Hw1 Hd2 Hdec Hsem Hcs.
  destruct (movl_six_byte_operand _ _ _ _ _ Hdec) as [Hd0 Ei].
  movl_start Hb Hw1 Hd0 Hag.
  pose proof (movl_len6_tag w1 _ Rw1 Hd0) as Hm.
  destruct (select_movl w1) eqn:Es; try discriminate Hm; try (simpl in Hag; discriminate Hag); try (destruct s0; simpl in Hag; discriminate Hag).
  destruct s0; try discriminate Hm; try (simpl in Hag; discriminate Hag).
  cbn [agree] in Hag. repeat (apply andb_true_iff in Hag; destruct Hag as [Hag ?]).
  assert (Hl : Z.land w1 0x80 <> 0) by lia. assert (Er : r = Z.land (nib w1 3) 7) by lia. assert (Ed : rs = nib w1 4) by lia.
  pose proof (nib_range w1 4) as R4.
  pose proof (mov_disp16_store_proof SL 0x0100 w1 d (post_fetch2 s)) as Hh. cbv zeta in Hh. cbn [opw icnt2] in Hh.
  rewrite Hh; [|exact Hok|exact Hb| | | |exact Hd2|exact Hl|cbn [field_ok]; lia];
    [|unfold post_fetch2; cbn [pc set_pc]; lia..]. clear Hh.
  rewrite post_fetch_pf2.
  cbn [sem_ref ea_update] in Hsem. rewrite <- Er, <- Ed, <- Ei.
  change (reg SL (post_fetch2 s) rs) with (reg SL s rs).
  change (ea_addr SL (post_fetch2 s) (EDisp r disp)) with (ea_addr SL s (EDisp r disp)).
  unfold post_fetch3. rewrite mem_write_pf.
  destruct (mem_write SL s (ea_addr SL s (EDisp r disp)) (reg SL s rs)) as [s2|] eqn:E; cbn [ISA.obind] in Hsem; [|discriminate Hsem].
  (apply (f_equal (fun o => match o with Some x => x | None => s' end)) in Hsem; cbv beta iota in Hsem; subst s').
  cbn [option_map then_charge]. change (ccr (post_fetch2 s)) with (ccr s). unfold mov_ccr.
  change (with_ccr (set_flag fV false (set_nz (bits_of SL) (reg SL s rs) (ccr s))) (set_pc (pc s + 6) (set_opc (pc s + 4) s2)))
    with (set_opc (pc s + 4) (with_pc (pc s + 6) (with_ccr (set_flag fV false (set_nz (bits_of SL) (reg SL s rs) (ccr s))) s2))).
  rewrite Hcs. unfold finish, with_pc, with_ccr. cbn [fault set_opc set_pc set_ccr].
  rewrite (mem_write_fault _ _ _ _ _ E), Hf. reflexivity.
Qed.

(* ---- MOV.L @aa:16,ERd ---- *)
Theorem step_movl_load_abs16_proof s w1 d w3 w4 a rd n s' :
  cpu_ok s -> bus_bytes_ok s -> fault s = false -> pc s mod 2 = 0 -> 0 <= pc s -> pc s + 6 < 4294967296 ->
  mem_read SW s (pc s) = Some 0x0100 -> mem_read SW s (pc s + 2) = Some w1 -> mem_read SW s (pc s + 4) = Some d ->
  decode_ref 0x0100 w1 d w3 w4 = Some (IMovLoad SL (EAbs a) rd, 6) ->
  sem_ref (IMovLoad SL (EAbs a) rd) 6 s = Some s' ->
  mov_charge SL a 3 0 (set_opc (pc s + 4) s') = Ok n (set_opc (pc s + 4) s') ->
  step s = Ok n (set_opc (pc s + 4) s').
Proof.
  intros Hok Hb Hf Hev H0 H1 Hw Hw1 Hd2 Hdec Hsem Hcs.
  destruct (movl_six_byte_operand _ _ _ _ _ Hdec) as [Hd0 Ei].
  movl_start Hb Hw1 Hd0 Hag.
  pose proof (movl_len6_tag w1 _ Rw1 Hd0) as Hm.
  destruct (select_movl w1) eqn:Es; try discriminate Hm; try (simpl in Hag; discriminate Hag); try (destruct s0; simpl in Hag; discriminate Hag).
  destruct s0; try discriminate Hm; try (simpl in Hag; discriminate Hag).
  cbn [agree] in Hag. repeat (apply andb_true_iff in Hag; destruct Hag as [Hag ?]).
  assert (Hl : Z.land w1 0xfff0 = 0x6b00) by lia. assert (Ed : rd = nib w1 4) by lia.
  pose proof (nib_range w1 4) as R4.
  pose proof (mov_abs16_load_proof SL 0x0100 w1 d (post_fetch2 s)) as Hh. cbv zeta in Hh. cbn [opw icnt2] in Hh.
  rewrite Hh; [|exact Hok|exact Hb| | | |exact Hd2|exact Hl|cbn [field_ok]; lia];
    [|unfold post_fetch2; cbn [pc set_pc]; lia..]. clear Hh.
  rewrite post_fetch_pf2.
  cbn [sem_ref ea_addr ea_update] in Hsem. rewrite <- Ed, <- Ei.
  change (mem_read SL (post_fetch2 s) a) with (mem_read SL s a).
  destruct (mem_read SL s a) as [v|]; cbn [ISA.obind] in Hsem; [|discriminate Hsem].
  (apply (f_equal (fun o => match o with Some x => x | None => s' end)) in Hsem; cbv beta iota in Hsem; subst s').
  cbn [option_map then_charge]. unfold post_fetch3. rewrite set_reg_set_pc_opc. change (ccr (post_fetch2 s)) with (ccr s). unfold mov_ccr.
  change (with_ccr (set_flag fV false (set_nz (bits_of SL) v (ccr s))) (set_pc (pc s + 6) (set_opc (pc s + 4) (set_reg SL s rd v))))
    with (set_opc (pc s + 4) (with_pc (pc s + 6) (with_ccr (set_flag fV false (set_nz (bits_of SL) v (ccr s))) (set_reg SL s rd v)))).
  rewrite Hcs. unfold finish, with_pc, with_ccr. cbn [fault set_opc set_pc set_ccr]. rewrite fault_set_reg, Hf. reflexivity.
Qed.

(* ---- MOV.L ERs,@aa:16 ---- *)
Theorem step_movl_store_abs16_proof s w1 d w3 w4 rs a n s' :
  cpu_ok s -> bus_bytes_ok s -> fault s = false -> pc s mod 2 = 0 -> 0 <= pc s -> pc s + 6 < 4294967296 ->
  mem_read SW s (pc s) = Some 0x0100 -> mem_read SW s (pc s + 2) = Some w1 -> mem_read SW s (pc s + 4) = Some d ->
  decode_ref 0x0100 w1 d w3 w4 = Some (IMovStore SL rs (EAbs a), 6) ->
  sem_ref (IMovStore SL rs (EAbs a)) 6 s = Some s' ->
  mov_charge SL a 3 0 (set_opc (pc s + 4) s') = Ok n (set_opc (pc s + 4) s') ->
  step s = Ok n (set_opc (pc s + 4) s').
Proof.
  intros Hok Hb Hf Hev H0 H1 Hw Hw1 Hd2 Hdec Hsem Hcs.
  destruct (movl_six_byte_operand _ _ _ _ _ Hdec) as [Hd0 Ei].
  movl_start Hb Hw1 Hd0 Hag.
  pose proof (movl_len6_tag w1 _ Rw1 Hd0) as Hm.
  destruct (select_movl w1) eqn:Es; try discriminate Hm; try (simpl in Hag; discriminate Hag); try (destruct s0; simpl in Hag; discriminate Hag).
  destruct s0; try discriminate Hm; try (simpl in Hag; discriminate Hag).
  cbn [agree] in Hag. repeat (apply andb_true_iff in Hag; destruct Hag as [Hag ?]).
  assert (Hl : Z.land w1 0xfff0 <> 0x6b00) by lia. assert (Ed : rs = nib w1 4) by lia.
  pose proof (nib_range w1 4) as R4.
  pose proof (mov_abs16_store_proof SL 0x0100 w1 d (post_fetch2 s)) as Hh. cbv zeta in Hh. cbn [opw icnt2] in Hh.
  rewrite Hh; [|exact Hok|exact Hb| | | |exact Hd2|exact Hl|cbn [field_ok]; lia];
    [|unfold post_fetch2; cbn [pc set_pc]; lia..]. clear Hh.
  rewrite post_fetch_pf2.
  cbn [sem_ref ea_addr ea_update] in Hsem. rewrite <- Ed, <- Ei.
  change (reg SL (post_fetch2 s) rs) with (reg SL s rs).
  unfold post_fetch3. rewrite mem_write_pf.
  destruct (mem_write SL s a (reg SL s rs)) as [s2|] eqn:E; cbn [ISA.obind] in Hsem; [|discriminate Hsem].
  (apply (f_equal (fun o => match o with Some x => x | None => s' end)) in Hsem; cbv beta iota in Hsem; subst s').
  cbn [option_map then_charge]. change (ccr (post_fetch2 s)) with (ccr s). unfold mov_ccr.
  change (with_ccr (set_flag fV false (set_nz (bits_of SL) (reg SL s rs) (ccr s))) (set_pc (pc s + 6) (set_opc (pc s + 4) s2)))
    with (set_opc (pc s + 4) (with_pc (pc s + 6) (with_ccr (set_flag fV false (set_nz (bits_of SL) (reg SL s rs) (ccr s))) s2))).
  rewrite Hcs. unfold finish, with_pc, with_ccr. cbn [fault set_opc set_pc set_ccr].
  rewrite (mem_write_fault _ _ _ _ _ E), Hf. reflexivity.
Qed.

Definition post_fetch4 (s : cpu) : cpu := set_pc (pc s + 8) (set_opc (pc s + 6) s).
Lemma post_fetch_2w_pf2 s : post_fetch_2w (post_fetch2 s) = post_fetch4 s.
Proof.
  unfold post_fetch_2w, post_fetch2, post_fetch4. cbn [pc set_pc set_opc].
  replace (pc s + 4 + 4) with (pc s + 8) by lia. replace (pc s + 4 + 2) with (pc s + 6) by lia. reflexivity.
Qed.

(* ---- MOV.L @aa:24,ERd ---- *)
Theorem step_movl_load_abs24_proof s w1 h l w4 a rd n s' :
  cpu_ok s -> bus_bytes_ok s -> fault s = false -> pc s mod 2 = 0 -> 0 <= pc s -> pc s + 8 < 4294967296 ->
  mem_read SW s (pc s) = Some 0x0100 -> mem_read SW s (pc s + 2) = Some w1 ->
  mem_read SW s (pc s + 4) = Some h -> mem_read SW s (pc s + 6) = Some l ->
  decode_ref 0x0100 w1 h l w4 = Some (IMovLoad SL (EAbs a) rd, 8) ->
  sem_ref (IMovLoad SL (EAbs a) rd) 8 s = Some s' ->
  mov_charge SL a 4 0 (set_opc (pc s + 6) s') = Ok n (set_opc (pc s + 6) s') ->
  step s = Ok n (set_opc (pc s + 6) s').
Proof.
  intros Hok Hb Hf Hev H0 H1 Hw Hw1 Hh Hl Hdec Hsem Hcs.
  pose proof (word_range s _ _ Hb Hh) as Rh. pose proof (word_range s _ _ Hb Hl) as Rl.
  destruct (movl_eight_byte_operand _ _ _ _ _ Hdec) as (Hd0 & Ea & Hh0). rewrite (hib_zero_lob h Rh Hh0) in Ea.
  movl_start Hb Hw1 Hd0 Hag.
  pose proof (movl_len8_tag w1 _ Rw1 Hd0) as Hm.
  destruct (select_movl w1) eqn:Es; try discriminate Hm; try (simpl in Hag; discriminate Hag); try (destruct s0; simpl in Hag; discriminate Hag).
  destruct s0; try discriminate Hm; try (simpl in Hag; discriminate Hag).
  cbn [agree] in Hag. repeat (apply andb_true_iff in Hag; destruct Hag as [Hag ?]).
  assert (Hlw : Z.land w1 0xfff0 = 0x6b20) by lia. assert (Ed : rd = nib w1 4) by lia.
  pose proof (nib_range w1 4) as R4.
  pose proof (mov_abs24_load_proof SL 0x0100 w1 h l (post_fetch2 s)) as Hx. cbv zeta in Hx. cbn [opw icnt3] in Hx.
  rewrite Hx; [|exact Hok|exact Hb| | | |exact Hh| |exact Hlw|cbn [field_ok]; lia];
    [|unfold post_fetch2; cbn [pc set_pc]; try lia..].
  2:{ replace (pc s + 4 + 2) with (pc s + 6) by lia. exact Hl. }
  clear Hx. rewrite post_fetch_2w_pf2.
  cbn [sem_ref ea_addr ea_update] in Hsem. rewrite <- Ed, <- Ea.
  change (mem_read SL (post_fetch2 s) a) with (mem_read SL s a).
  destruct (mem_read SL s a) as [v|]; cbn [ISA.obind] in Hsem; [|discriminate Hsem].
  (apply (f_equal (fun o => match o with Some x => x | None => s' end)) in Hsem; cbv beta iota in Hsem; subst s').
  cbn [option_map then_charge]. unfold post_fetch4. rewrite set_reg_set_pc_opc. change (ccr (post_fetch2 s)) with (ccr s). unfold mov_ccr.
  change (with_ccr (set_flag fV false (set_nz (bits_of SL) v (ccr s))) (set_pc (pc s + 8) (set_opc (pc s + 6) (set_reg SL s rd v))))
    with (set_opc (pc s + 6) (with_pc (pc s + 8) (with_ccr (set_flag fV false (set_nz (bits_of SL) v (ccr s))) (set_reg SL s rd v)))).
  rewrite Hcs. unfold finish, with_pc, with_ccr. cbn [fault set_opc set_pc set_ccr]. rewrite fault_set_reg, Hf. reflexivity.
Qed.

(* ---- MOV.L ERs,@aa:24 ---- *)
Theorem step_movl_store_abs24_proof s w1 h l w4 rs a n s' :
  cpu_ok s -> bus_bytes_ok s -> fault s = false -> pc s mod 2 = 0 -> 0 <= pc s -> pc s + 8 < 4294967296 ->
  mem_read SW s (pc s) = Some 0x0100 -> mem_read SW s (pc s + 2) = Some w1 ->
  mem_read SW s (pc s + 4) = Some h -> mem_read SW s (pc s + 6) = Some l ->
  decode_ref 0x0100 w1 h l w4 = Some (IMovStore SL rs (EAbs a), 8) ->
  sem_ref (IMovStore SL rs (EAbs a)) 8 s = Some s' ->
  mov_charge SL a 4 0 (set_opc (pc s + 6) s') = Ok n (set_opc (pc s + 6) s') ->
  step s = Ok n (set_opc (pc s + 6) s').
Proof.
  intros Hok Hb Hf Hev H0 H1 Hw Hw1 Hh Hl Hdec Hsem Hcs.
  pose proof (word_range s _ _ Hb Hh) as Rh. pose proof (word_range s _ _ Hb Hl) as Rl.
  destruct (movl_eight_byte_operand _ _ _ _ _ Hdec) as (Hd0 & Ea & Hh0). rewrite (hib_zero_lob h Rh Hh0) in Ea.
  movl_start Hb Hw1 Hd0 Hag.
  pose proof (movl_len8_tag w1 _ Rw1 Hd0) as Hm.
  destruct (select_movl w1) eqn:Es; try discriminate Hm; try (simpl in Hag; discriminate Hag); try (destruct s0; simpl in Hag; discriminate Hag).
  destruct s0; try discriminate Hm; try (simpl in Hag; discriminate Hag).
  cbn [agree] in Hag. repeat (apply andb_true_iff in Hag; destruct Hag as [Hag ?]).
  assert (Hlw : Z.land w1 0xfff0 <> 0x6b20) by lia. assert (Ed : rs = nib w1 4) by lia.
  pose proof (nib_range w1 4) as R4.
  pose proof (mov_abs24_store_proof SL 0x0100 w1 h l (post_fetch2 s)) as Hx. cbv zeta in Hx. cbn [opw icnt3] in Hx.
  rewrite Hx; [|exact Hok|exact Hb| | | |exact Hh| |exact Hlw|cbn [field_ok]; lia];
    [|unfold post_fetch2; cbn [pc set_pc]; try lia..].
  2:{ replace (pc s + 4 + 2) with (pc s + 6) by lia. exact Hl. }
  clear Hx. rewrite post_fetch_2w_pf2.
  cbn [sem_ref ea_addr ea_update] in Hsem. rewrite <- Ed, <- Ea.
  change (reg SL (post_fetch2 s) rs) with (reg SL s rs).
  unfold post_fetch4. rewrite mem_write_pf.
  destruct (mem_write SL s a (reg SL s rs)) as [s2|] eqn:E; cbn [ISA.obind] in Hsem; [|discriminate Hsem].
  (apply (f_equal (fun o => match o with Some x => x | None => s' end)) in Hsem; cbv beta iota in Hsem; subst s').
  cbn [option_map then_charge]. change (ccr (post_fetch2 s)) with (ccr s). unfold mov_ccr.
  change (with_ccr (set_flag fV false (set_nz (bits_of SL) (reg SL s rs) (ccr s))) (set_pc (pc s + 8) (set_opc (pc s + 6) s2)))
    with (set_opc (pc s + 6) (with_pc (pc s + 8) (with_ccr (set_flag fV false (set_nz (bits_of SL) (reg SL s rs) (ccr s))) s2))).
  rewrite Hcs. unfold finish, with_pc, with_ccr. cbn [fault set_opc set_pc set_ccr].
  rewrite (mem_write_fault _ _ _ _ _ E), Hf. reflexivity.
Qed.
