(* Effective addresses: the model's address helpers (mask after wrapping 32-bit arithmetic) equal the
   reference's arithmetic modulo 2^24, for every register value and displacement. *)
From Coq Require Import Bool ZArith Lia ZifyBool List.
From K Require Import Lib.Bits Lib.Types Model.Machine Model.Bus Model.Addressing Model.Exec Spec.ISA Proofs.RegProofs.
Open Scope bool_scope. Open Scope Z_scope.
Ltac Zify.zify_post_hook ::= Z.div_mod_to_equations.

Lemma mask24 x : Z.land x ADDRESS_MASK = x mod 16777216.
Proof. unfold ADDRESS_MASK. change 0xffffff with (2^24 - 1). now rewrite land_ones_mod by lia. Qed.

Lemma ea_ern r s : 0 <= r < 8 -> get_addr_ern r s = Ok (ea_addr SB s (EInd r)) s.
Proof. intros Hr. unfold get_addr_ern, bind, ret. rewrite read_rn_l_spec by assumption. now rewrite mask24. Qed.

Lemma ea_disp16 r d s : 0 <= r < 8 -> 0 <= d < 65536 ->
  get_addr_disp16 r d s = Ok (ea_addr SB s (EDisp r (sx 16 d))) s.
Proof.
  intros Hr Hd. unfold get_addr_disp16, bind, ret. rewrite read_rn_l_spec by assumption.
  rewrite mask24. unfold ea_addr, wrap, sext, sgn, sx, A24. change (2^32) with 4294967296.
  change (2^(16-1)) with 32768. change (2^16) with 65536. f_equal. destruct (d <? 32768); lia.
Qed.

Lemma ea_disp24 r d s : 0 <= r < 8 -> 0 <= d < 16777216 ->
  get_addr_disp24 r d s = Ok (ea_addr SB s (EDisp r (sx 24 d))) s.
Proof.
  intros Hr Hd. unfold get_addr_disp24, bind, ret. rewrite read_rn_l_spec by assumption.
  change 0x800000 with (2^23). rewrite land_bit by lia. change (2^23) with 8388608.
  unfold ea_addr, sx, A24. change (2^(24-1)) with 8388608. change (2^24) with 16777216.
  destruct (d <? 8388608) eqn:E.
  - assert ((d / 8388608) mod 2 * 8388608 =? 0 = true) as -> by lia.
    rewrite mask24. unfold wrap. change (2^32) with 4294967296. f_equal. lia.
  - assert ((d / 8388608) mod 2 * 8388608 =? 0 = false) as -> by lia.
    rewrite mask24. unfold wrap. change (2^32) with 4294967296. f_equal. lia.
Qed.

Lemma ea_abs8 a : 0 <= a < 256 -> get_addr_abs8 a = abs8 a.
Proof.
  intros Ha. unfold get_addr_abs8, abs8. change 0xffff00 with (0xffff * 2^8).
  rewrite lor_high_low by (change (2^8) with 256; lia). reflexivity.
Qed.

Lemma ea_abs16 a : 0 <= a < 65536 -> get_addr_abs16 a = abs16 a.
Proof.
  intros Ha. unfold get_addr_abs16, abs16, sx. change 0x8000 with (2^15). rewrite land_bit by lia.
  change (2^15) with 32768. change (2^(16-1)) with 32768. change (2^16) with 65536.
  destruct (a <? 32768) eqn:E.
  - assert ((a / 32768) mod 2 * 32768 =? 0 = true) as -> by lia. lia.
  - assert ((a / 32768) mod 2 * 32768 =? 0 = false) as -> by lia.
    change 0xff0000 with (0xff * 2^16). rewrite lor_high_low by (change (2^16) with 65536; lia).
    change (2^16) with 65536. lia.
Qed.

(* the upper 8 bits of an address register never change the location accessed *)
Lemma upper_byte_irrelevant_ea z s s' e :
  (forall r, reg32 s r mod A24 = reg32 s' r mod A24) -> ea_addr z s e = ea_addr z s' e.
Proof.
  intros H. destruct e as [r|r d|r|r|a]; cbn [ea_addr]; try apply H; try reflexivity.
  - specialize (H r). unfold A24 in *. rewrite <- Z.add_mod_idemp_l by lia. rewrite H. rewrite Z.add_mod_idemp_l by lia. reflexivity.
  - specialize (H r). unfold A24 in *. rewrite <- Zminus_mod_idemp_l. rewrite H. rewrite Zminus_mod_idemp_l. reflexivity.
Qed.

(* post-increment / pre-decrement update the full 32-bit register by the operand size *)
Lemma ea_update_inc z s r : 0 <= r < 8 ->
  reg32 (ea_update z s (EPostInc r)) r = (reg32 s r + bytes_of z) mod 4294967296.
Proof. intros Hr. unfold ea_update, set_reg32, reg32. cbn [er set_regs]. rewrite get_set_er by lia. now rewrite Z.eqb_refl. Qed.
Lemma ea_update_dec z s r : 0 <= r < 8 ->
  reg32 (ea_update z s (EPreDec r)) r = (reg32 s r - bytes_of z) mod 4294967296.
Proof. intros Hr. unfold ea_update, set_reg32, reg32. cbn [er set_regs]. rewrite get_set_er by lia. now rewrite Z.eqb_refl. Qed.
