(* From the instruction words in memory to the reference semantics: STC.W CCR,@ERd (prefix 0140). *)
From Coq Require Import Bool ZArith Lia ZifyBool List.
From K Require Import Lib.Bits Lib.Types Model.Machine Model.Bus Model.Cost Model.Addressing Model.Alu Model.Exec Spec.ISA
  Proofs.RegProofs Proofs.MemProofs Proofs.FlagProofs Proofs.AluProofs Proofs.EaProofs Proofs.StepProofs Proofs.DecodeProofs
  Proofs.CtlProofs Proofs.MovProofs Proofs.StcProofs Proofs.TwoByte Proofs.StepRefines Proofs.StepRefinesCtl Proofs.StepRefines2 Proofs.StepRefines4 Proofs.StepRefinesL.
Import ListNotations.
Open Scope bool_scope. Open Scope Z_scope.
Ltac Zify.zify_post_hook ::= Z.div_mod_to_equations.

Lemma stc_four_byte_independent_gen w0 w1 w2 w3 w4 i :
  hib w0 = 1 -> lob w0 = 0x40 ->
  decode_ref w0 w1 w2 w3 w4 = Some (i, 4) -> decode_ref w0 w1 0 0 0 = Some (i, 4).
Proof.
  intros Hh Hl. unfold decode_ref, dec_mov_mem, dec_unary, dec_imm_group, dec_bit_mem, req, ok. cbv zeta.
  rewrite Hh, Hl.
  split_ifs; intros H; try discriminate H; try exact H; try (exfalso; clear -H; inversion H; fail).
Qed.

Lemma stc_four_byte_independent w1 w2 w3 w4 i :
  decode_ref 0x0140 w1 w2 w3 w4 = Some (i, 4) -> decode_ref 0x0140 w1 0 0 0 = Some (i, 4).
Proof. apply stc_four_byte_independent_gen; reflexivity. Qed.

Lemma stc_agree w1 i len : 0 <= w1 < 65536 -> decode_ref 0x0140 w1 0 0 0 = Some (i, len) -> agree (select_stc w1) 0x0140 w1 i = true.
Proof.
  intros Hw Hd. destruct stc_sweep as (_ & H). pose proof (forallb_zrange _ 65536 H w1 Hw) as H1.
  unfold agree2 in H1. rewrite Hd in H1. exact H1.
Qed.

Lemma step_prefix_stc s w1 :
  bus_bytes_ok s -> pc s mod 2 = 0 -> 0 <= pc s -> pc s + 4 < 4294967296 ->
  mem_read SW s (pc s) = Some 0x0140 -> mem_read SW s (pc s + 2) = Some w1 ->
  step s = finish (run_tag (select_stc w1) 0x0140 w1 0 (post_fetch2 s)).
Proof.
  intros Hb Hev H0 H1 Hw Hw1. unfold step. rewrite (fetch_word s 0x0140) by (try assumption; lia). fold (post_fetch s).
  unfold exec. change (select1 0x0140) with TStcPrefix. cbv iota.
  unfold bind at 1. rewrite (fetch_word (post_fetch s) w1) by (try assumption; unfold post_fetch; cbn [pc set_pc set_opc]; try lia; exact Hw1).
  unfold post_fetch. cbn [pc set_pc set_opc]. replace (pc s + 2 + 2) with (pc s + 4) by lia. reflexivity.
Qed.

Theorem step_stc_ern_proof s w1 w2 w3 w4 r n s' :
  cpu_ok s -> bus_bytes_ok s -> fault s = false -> pc s mod 2 = 0 -> 0 <= pc s -> pc s + 4 < 4294967296 ->
  mem_read SW s (pc s) = Some 0x0140 -> mem_read SW s (pc s + 2) = Some w1 ->
  decode_ref 0x0140 w1 w2 w3 w4 = Some (IStcW (EInd r), 4) ->
  sem_ref (IStcW (EInd r)) 4 s = Some s' ->
  (i <- cs KI 2 ;; d <- csa KM 1 (ea_addr SW s (EInd r)) ;; ret (u8add i d)) (set_opc (pc s + 2) s') = Ok n (set_opc (pc s + 2) s') ->
  step s = Ok n (set_opc (pc s + 2) s').
Proof.
  intros [Hr Hc] Hb Hf Hev H0 H1 Hw Hw1 Hd Hsem Hcs.
  pose proof (word_range s _ _ Hb Hw1) as Rw1.
  apply stc_four_byte_independent in Hd.
  pose proof (stc_agree w1 _ _ Rw1 Hd) as Hag.
  rewrite (step_prefix_stc s w1) by assumption.
  destruct (select_stc w1) eqn:Es; try (simpl in Hag; discriminate Hag).
  cbn [agree] in Hag. assert (Er : r = Z.land (nib w1 3) 7) by lia.
  pose proof (stc_ern_refines_proof 0x0140 w1 (post_fetch2 s) Hc) as Hh. cbv zeta in Hh. rewrite Hh. clear Hh.
  rewrite <- Er. cbn [sem_ref ea_update] in Hsem.
  change (ea_addr SW (post_fetch2 s) (EInd r)) with (ea_addr SW s (EInd r)). change (ccr (post_fetch2 s)) with (ccr s).
  unfold post_fetch2. rewrite mem_write_pf.
  destruct (mem_write SW s (ea_addr SW s (EInd r)) (ccr s)) as [s2|] eqn:E; cbn [ISA.obind] in Hsem; [|discriminate Hsem].
  (apply (f_equal (fun o => match o with Some x => x | None => s' end)) in Hsem; cbv beta iota in Hsem; subst s').
  cbn [option_map then_charge].
  change (set_pc (pc s + 4) (set_opc (pc s + 2) s2)) with (set_opc (pc s + 2) (with_pc (pc s + 4) s2)).
  rewrite Hcs. unfold finish, with_pc. cbn [fault set_opc set_pc]. rewrite (mem_write_fault _ _ _ _ _ E), Hf. reflexivity.
Qed.
