(* From the instruction words in memory to the reference semantics: the six-byte long-immediate forms
   MOV.L #xx:32,ERd and ADD/CMP/SUB/OR/XOR/AND.L #xx:32,ERd (7A 0r / 7A kr, then the 32-bit immediate). *)
From Coq Require Import Bool ZArith Lia ZifyBool List.
From K Require Import Lib.Bits Lib.Types Model.Machine Model.Bus Model.Cost Model.Addressing Model.Alu Model.Exec Spec.ISA
  Proofs.RegProofs Proofs.MemProofs Proofs.FlagProofs Proofs.AluProofs Proofs.EaProofs Proofs.StepProofs Proofs.DecodeProofs
  Proofs.CtlProofs Proofs.MovProofs Proofs.MovExtProofs Proofs.TwoByte Proofs.StepRefines Proofs.StepRefinesCtl Proofs.StepRefines2 Proofs.StepRefines4.
Import ListNotations.
Open Scope bool_scope. Open Scope Z_scope.
Ltac Zify.zify_post_hook ::= Z.div_mod_to_equations.

Definition imm32_shape (w0 w1 w2 : Z) (i : insn) : Prop :=
  match i with
  | IMovImm SL imm rd => decode_ref w0 0 0 0 0 = Some (IMovImm SL (0 * 65536 + 0) rd, 6) /\ imm = w1 * 65536 + w2
  | IAlu2I o SL imm rd => decode_ref w0 0 0 0 0 = Some (IAlu2I o SL (0 * 65536 + 0) rd, 6) /\ imm = w1 * 65536 + w2
  | _ => True
  end.

Lemma six_byte_operand w0 w1 w2 w3 w4 i :
  decode_ref w0 w1 w2 w3 w4 = Some (i, 6) -> imm32_shape w0 w1 w2 i.
Proof.
  unfold decode_ref, dec_mov_mem, dec_unary, dec_imm_group, dec_bit_mem, req, ok. cbv zeta.
  split_ifs; intros H; try discriminate H;
    try (exfalso; clear -H; inversion H; fail).
  all: (apply (f_equal (fun o => match o with Some (x, _) => x | None => i end)) in H; cbv beta iota in H; subst i; unfold imm32_shape;
        first [ exact I
              | split; [|reflexivity];
                unfold decode_ref, dec_mov_mem, dec_unary, dec_imm_group, dec_bit_mem, req, ok; cbv zeta;
                repeat match goal with E : ?c = _ |- context [if ?c then _ else _] => rewrite E end; reflexivity ]).
Qed.

Definition is_long6 (t : tag) : bool := match t with TMovImm SL | TAlu2Imm _ SL => true | _ => false end.
Definition operand6 (i : insn) : bool := match i with IMovImm SL _ _ | IAlu2I _ SL _ _ => true | _ => false end.
Definition six_byte_tag_ok (w : Z) : bool :=
  match decode_ref w 0 0 0 0 with
  | Some (i, len) => if (len =? 6) && operand6 i then is_long6 (select1 w) else true
  | None => true
  end
  && match select1 w with TAlu2Imm AAddx SL => false | _ => true end.
Lemma six_byte_tag_sweep : forallb six_byte_tag_ok (zrange 65536) = true.
Proof. vm_compute. reflexivity. Qed.

Lemma is_long6_not_prefix t : is_long6 t = true -> is_prefix t = false.
Proof. destruct t; cbn; try discriminate; try reflexivity; destruct s; cbn; try discriminate; reflexivity. Qed.

Lemma six_byte_dispatch w i0 : 0 <= w < 65536 -> decode_ref w 0 0 0 0 = Some (i0, 6) -> operand6 i0 = true ->
  is_long6 (select1 w) = true /\ agree (select1 w) w 0 i0 = true /\
  match select1 w with TAlu2Imm o SL => o <> AAddx | _ => True end.
Proof.
  intros Hw Hd Ho.
  pose proof (forallb_zrange _ 65536 six_byte_tag_sweep w Hw) as H2. unfold six_byte_tag_ok in H2. rewrite Hd, Ho in H2.
  cbn [Z.eqb Pos.eqb andb] in H2. apply andb_true_iff in H2. destruct H2 as [Hl H3].
  pose proof (forallb_zrange _ 65536 first_word_sweep w Hw) as H1. unfold agree1 in H1. rewrite Hd in H1.
  rewrite (is_long6_not_prefix _ Hl) in H1. cbn [orb] in H1.
  split; [assumption|]. split; [assumption|].
  destruct (select1 w); try exact I. destruct s; try exact I. destruct o; try discriminate H3; discriminate.
Qed.

Definition post_fetch3 (s : cpu) : cpu := set_pc (pc s + 6) (set_opc (pc s + 4) s).

Lemma fetch_imm32 s h l :
  bus_bytes_ok s -> pc s mod 2 = 0 -> 0 <= pc s -> pc s + 6 < 4294967296 ->
  mem_read SW s (pc s + 2) = Some h -> mem_read SW s (pc s + 4) = Some l ->
  fetch32 (post_fetch s) = Ok (h * 65536 + l) (post_fetch3 s).
Proof.
  intros Hb Hev H0 H1 Hh Hl.
  rewrite (fetch32_words (post_fetch s) h l)
    by (first [ assumption
              | unfold post_fetch; cbn [pc set_pc set_opc];
                first [ lia | exact Hh | (replace (pc s + 2 + 2) with (pc s + 4) by lia; exact Hl) ] ]).
  unfold post_fetch, post_fetch3. cbn [pc set_pc set_opc].
  replace (pc s + 2 + 4) with (pc s + 6) by lia. replace (pc s + 2 + 2) with (pc s + 4) by lia. reflexivity.
Qed.

Lemma set_reg_pf3 z s c rd r :
  set_reg z (set_ccr c (post_fetch3 s)) rd r = set_opc (pc s + 4) (with_pc (pc s + 6) (with_ccr c (set_reg z s rd r))).
Proof.
  destruct z; unfold set_reg, set_reg8, set_reg16, set_reg32, reg32, post_fetch3, with_pc, with_ccr; cbn [er set_pc set_opc set_ccr];
    repeat match goal with |- context [if ?c then _ else _] => destruct c end; reflexivity.
Qed.

(* ---- MOV.L #xx:32,ERd ---- *)
Theorem step_mov_imm_l_proof s w h l w3 w4 imm rd n :
  cpu_ok s -> bus_bytes_ok s -> fault s = false -> pc s mod 2 = 0 -> 0 <= pc s -> pc s + 6 < 4294967296 ->
  mem_read SW s (pc s) = Some w -> mem_read SW s (pc s + 2) = Some h -> mem_read SW s (pc s + 4) = Some l ->
  decode_ref w h l w3 w4 = Some (IMovImm SL imm rd, 6) ->
  cs KI 3 (post_fetch3 s) = Ok n (post_fetch3 s) ->
  exists s', sem_ref (IMovImm SL imm rd) 6 s = Some s' /\ step s = Ok n (set_opc (pc s + 4) s').
Proof.
  intros [Hr Hc] Hb Hf Hev H0 H1 Hw Hh Hl Hdec Hcs.
  pose proof (word_range s _ _ Hb Hw) as Rw. pose proof (word_range s _ _ Hb Hh) as Rh. pose proof (word_range s _ _ Hb Hl) as Rl.
  destruct (six_byte_operand _ _ _ _ _ _ Hdec) as [Hd0 Ei].
  destruct (six_byte_dispatch w _ Rw Hd0 eq_refl) as (Hlong & Hag & Hx).
  rewrite (step_via_handler s w) by (try assumption; try lia; now apply is_long6_not_prefix).
  destruct (select1 w) eqn:Es; cbn [is_long6] in Hlong; try discriminate Hlong; try (simpl in Hag; discriminate Hag);
    try (destruct s0; try discriminate Hlong; simpl in Hag; discriminate Hag).
  destruct s0; try discriminate Hlong.
  cbn [agree] in Hag. apply andb_true_iff in Hag. destruct Hag as [Hrd Hrd8].
  assert (Er : rd = Z.land w 0xf) by lia.
  assert (Rrd : 0 <= rd < 8) by (split; [rewrite Er; change 0xf with (2^4 - 1); rewrite land_ones_mod by lia; lia|lia]).
  cbn [run_tag]. unfold bind at 1. rewrite (fetch_imm32 s h l) by assumption. rewrite <- Er.
  unfold bind at 1. rewrite write_rn_l_spec by lia.
  unfold bind at 1.
  change (set_reg32 (post_fetch3 s) rd (h * 65536 + l)) with (set_reg SL (post_fetch3 s) rd (h * 65536 + l)).
  rewrite (set_mov_flags_spec SL) by (try (rewrite ccr_set_reg; exact Hc); cbn [bits_of]; change (2^32) with 4294967296; lia).
  rewrite ccr_set_reg. change (ccr (post_fetch3 s)) with (ccr s).
  cbn [sem_ref]. subst imm.
  eexists. split; [reflexivity|].
  assert (Hfin : with_ccr (mov_ccr SL (h * 65536 + l) (ccr s)) (set_reg SL (post_fetch3 s) rd (h * 65536 + l)) =
                 set_opc (pc s + 4) (with_pc (pc s + 6) (with_ccr (set_flag fV false (set_nz (bits_of SL) (h * 65536 + l) (ccr s))) (set_reg SL s rd (h * 65536 + l))))) by reflexivity.
  rewrite Hfin.
  set (fin := set_opc (pc s + 4) (with_pc (pc s + 6) (with_ccr (set_flag fV false (set_nz (bits_of SL) (h * 65536 + l) (ccr s))) (set_reg SL s rd (h * 65536 + l))))) in *.
  assert (Hcs' : cs KI 3 fin = Ok n fin).
  { rewrite <- Hfin. unfold with_ccr, set_reg, set_reg32. apply cs_frame2. exact Hcs. }
  rewrite Hcs'. subst fin. unfold finish, with_pc, with_ccr. cbn [fault set_opc set_pc set_ccr]. rewrite fault_set_reg, Hf. reflexivity.
Qed.

(* ---- ADD CMP SUB OR XOR AND .L #xx:32,ERd ---- *)
Theorem step_alu2_imm_l_proof s w h l w3 w4 o imm rd n :
  cpu_ok s -> bus_bytes_ok s -> fault s = false -> pc s mod 2 = 0 -> 0 <= pc s -> pc s + 6 < 4294967296 ->
  mem_read SW s (pc s) = Some w -> mem_read SW s (pc s + 2) = Some h -> mem_read SW s (pc s + 4) = Some l ->
  decode_ref w h l w3 w4 = Some (IAlu2I o SL imm rd, 6) ->
  cs KI 3 (post_fetch3 s) = Ok n (post_fetch3 s) ->
  exists s', sem_ref (IAlu2I o SL imm rd) 6 s = Some s' /\ step s = Ok n (set_opc (pc s + 4) s').
Proof.
  intros [Hr Hc] Hb Hf Hev H0 H1 Hw Hh Hl Hdec Hcs.
  pose proof (word_range s _ _ Hb Hw) as Rw. pose proof (word_range s _ _ Hb Hh) as Rh. pose proof (word_range s _ _ Hb Hl) as Rl.
  destruct (six_byte_operand _ _ _ _ _ _ Hdec) as [Hd0 Ei].
  destruct (six_byte_dispatch w _ Rw Hd0 eq_refl) as (Hlong & Hag & Hx).
  rewrite (step_via_handler s w) by (try assumption; try lia; now apply is_long6_not_prefix).
  destruct (select1 w) eqn:Es; cbn [is_long6] in Hlong; try discriminate Hlong; try (simpl in Hag; discriminate Hag);
    try (destruct s0; try discriminate Hlong; simpl in Hag; discriminate Hag).
  destruct s0; try discriminate Hlong.
  cbn [agree] in Hag. repeat (apply andb_true_iff in Hag; destruct Hag as [Hag ?]). apply alu2_eqb_eq in Hag. subst o0.
  pose proof (nib_range w 4) as R4. assert (Er : rd = nib w 4) by lia. assert (Rrd : 0 <= rd < 8) by lia.
  cbn [run_tag]. unfold bind at 1. rewrite (fetch_imm32 s h l) by assumption. rewrite <- Er.
  unfold bind at 1. rewrite read_rn_l_spec by lia. unfold bind at 1. unfold get_ccr.
  change (reg32 (post_fetch3 s) rd) with (reg32 s rd). change (ccr (post_fetch3 s)) with (ccr s).
  pose proof (Hr rd) as Ra. unfold word32 in Ra. fold (reg32 s rd) in Ra.
  rewrite alu2_fun_spec; try assumption; try (right; right; reflexivity); try (change (2^32) with 4294967296; lia).
  2:{ intros E. exfalso. exact (Hx E). }
  cbn [sem_ref bits_of reg set_reg]. subst imm.
  destruct (alu2_ref o 32 (reg32 s rd) (h * 65536 + l) (ccr s)) as [r c].
  eexists. split; [reflexivity|].
  unfold bind at 1. unfold put_ccr, modify. unfold bind at 1.
  destruct o; cbn [alu2_writes];
    try (rewrite write_rn_l_spec by lia;
         change (set_reg32 (set_ccr c (post_fetch3 s)) rd r) with (set_reg SL (set_ccr c (post_fetch3 s)) rd r);
         assert (Hcs' : cs KI 3 (set_reg SL (set_ccr c (post_fetch3 s)) rd r) = Ok n (set_reg SL (set_ccr c (post_fetch3 s)) rd r))
           by (unfold set_reg, set_reg32, reg32; cbn [er set_ccr]; apply cs_frame; exact Hcs);
         unfold bind; rewrite Hcs'; rewrite set_reg_pf3; unfold finish, with_pc, with_ccr; cbn [fault set_opc set_pc set_ccr];
         rewrite fault_set_reg, Hf; reflexivity).
  (* CMP *)
  unfold bind, ret.
  change (set_ccr c (post_fetch3 s)) with (set_opc (pc s + 4) (with_pc (pc s + 6) (with_ccr c s))).
  assert (Hcs' : cs KI 3 (set_opc (pc s + 4) (with_pc (pc s + 6) (with_ccr c s))) = Ok n (set_opc (pc s + 4) (with_pc (pc s + 6) (with_ccr c s))))
    by (change (set_opc (pc s + 4) (with_pc (pc s + 6) (with_ccr c s))) with (set_ccr c (post_fetch3 s)); apply cs_frame_ccr; exact Hcs).
  rewrite Hcs'. unfold finish, with_pc, with_ccr. cbn [fault set_opc set_pc set_ccr]. rewrite Hf. reflexivity.
Qed.
