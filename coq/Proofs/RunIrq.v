(* The run loop with interrupt requests pending (C10 + C13): the boundary test of every iteration is the reference's
   acceptance rule (oldest request first, only while I is clear), the entry is the reference's exception entry, and the
   rest of the iteration is the reference instruction plus the accounting - for any number of iterations. *)
From Coq Require Import Bool ZArith Lia ZifyBool List.
From K Require Import Lib.Bits Lib.Types Model.Machine Model.Bus Model.Cost Model.Addressing Model.Alu Model.Exec Model.Periph Model.Run
  Spec.MemMap Spec.Price Spec.ISA Spec.Domains
  Proofs.PriceProofs Proofs.RegProofs Proofs.MemProofs Proofs.FlagProofs Proofs.StepProofs Proofs.CtlProofs Proofs.MovProofs Proofs.IrqProofs
  Proofs.StepRefines Proofs.StepRefinesCtl Proofs.ChargeProofs Proofs.ChargeTotals Proofs.RefStep Proofs.FrameRest Proofs.Preserve Proofs.RunPlain.
Import ListNotations.
Open Scope bool_scope. Open Scope Z_scope.
Ltac Zify.zify_post_hook ::= Z.div_mod_to_equations.

Lemma span_ok_weaken (f g : Z -> bool) a n : (forall x, f x = true -> g x = true) -> span_ok f a n = true -> span_ok g a n = true.
Proof.
  intros Hfg. unfold span_ok. generalize (Z.to_nat n). intros k. revert a. induction k as [|k IH]; intros a H; [reflexivity|].
  cbn [all_bytes] in *. apply andb_true_iff in H. destruct H as [H1 H2]. rewrite (Hfg _ H1). cbn [andb]. apply IH. exact H2.
Qed.

(* ---- the boundary ---- *)
(* the reference acceptance rule on the model's own queue; the PC must be a 24-bit value to be saved in the frame *)
Definition accept_boundary (s : cpu) : option cpu :=
  if (0 <=? pc s) && (pc s <? A24) then
    match boundary_ref s (irq s) with
    | Some (s1, q1) => Some (set_irq q1 s1)
    | None => None
    end
  else None.

Lemma flag_I_get s : 0 <= ccr s < 256 -> (ccr_get FI (ccr s) =? 0) = negb (flag (ccr s) fI).
Proof. intros Hc. rewrite (ccr_get_spec FI (ccr s)) by (unfold FI; lia). change FI with fI. destruct (flag (ccr s) fI); reflexivity. Qed.

Theorem try_interrupt_is_boundary s s1 :
  state_ok s -> accept_boundary s = Some s1 ->
  try_interrupt s = Ok tt s1 /\ state_ok s1 /\ b_tmr (cbus s1) = b_tmr (cbus s).
Proof.
  intros Hst H. pose proof Hst as ((Hr & Hc) & Hb & Hbo & Hf).
  unfold accept_boundary in H. destruct ((0 <=? pc s) && (pc s <? A24)) eqn:Hpc; [|discriminate].
  unfold boundary_ref in H. unfold try_interrupt. rewrite (flag_I_get s Hc).
  destruct (flag (ccr s) fI); cbn [negb].
  - inversion H; subst. replace (set_irq (irq s) s) with s by (destruct s; reflexivity). split; [reflexivity|split; [exact Hst|reflexivity]].
  - destruct (irq s) as [|v qr] eqn:Eq.
    + inversion H; subst. replace (set_irq [] s) with s by (destruct s; cbn in Eq; subst; reflexivity). split; [reflexivity|split; [exact Hst|reflexivity]].
    + destruct (dom_entry v s) eqn:Hd; [|discriminate].
      unfold ref_entry in H. destruct (enter_ref s v (pc s)) as [s2|] eqn:He; cbn [ISA.obind] in H; [|discriminate].
      inversion H; subst; clear H.
      unfold dom_entry in Hd. repeat (apply andb_true_iff in Hd; destruct Hd as [Hd ?]).
      match goal with Hs : span_ok _ _ 4 && _ = true |- _ => apply andb_true_iff in Hs; destruct Hs as [Hspan Heven] end.
      assert (Hspan' : span_ok data_ok ((reg32 s 7 - 4) mod A24) 4 = true).
      { apply (span_ok_weaken (fun x => in_ram x || in_dram x)); [|exact Hspan]. intros x Hx. unfold data_ok. rewrite Hx. reflexivity. }
      (* the model *)
      assert (Hint : interrupt v (set_irq qr s) = match enter_ref (set_irq qr s) v (pc s) with Some s' => Ok tt s' | None => Err end).
      { apply (interrupt_refines_proof (set_irq qr s) v); try assumption; try lia.
        - cbn [pc set_irq]. unfold A24 in Hpc. lia.
        - intros s3 Hp. apply (push32_bytes_ok (set_irq qr s) _ s3 Hp); [exact Hspan'|exact Hb]. }
      (* the entry on the state with the shortened queue is the entry on s with the queue shortened afterwards *)
      assert (Hcomm : enter_ref (set_irq qr s) v (pc s) = option_map (set_irq qr) (enter_ref s v (pc s))).
      { unfold enter_ref. change (ccr (set_irq qr s)) with (ccr s).
        assert (Hp : push32 (set_irq qr s) (ccr s * A24 + pc s) = option_map (set_irq qr) (push32 s (ccr s * A24 + pc s))).
        { unfold push32. cbv zeta. change (ea_update SL (set_irq qr s) (EPreDec 7)) with (set_irq qr (ea_update SL s (EPreDec 7))).
          change (reg32 (set_irq qr (ea_update SL s (EPreDec 7))) 7) with (reg32 (ea_update SL s (EPreDec 7)) 7).
          generalize (ea_update SL s (EPreDec 7)) (reg32 (ea_update SL s (EPreDec 7)) 7 mod A24) (ccr s * A24 + pc s). intros s0 a x.
          cbn [mem_write]. unfold ISA.obind, put8. cbn [cbus set_irq].
          destruct (bus_write (cbus s0) a _) as [b1|]; [|reflexivity]. cbn [cbus set_bus].
          destruct (bus_write b1 (a + 1) _) as [b2|]; [|reflexivity]. cbn [cbus set_bus].
          destruct (bus_write b2 (a + 2) _) as [b3|]; [|reflexivity]. cbn [cbus set_bus].
          destruct (bus_write b3 (a + 3) _) as [b4|]; reflexivity. }
        rewrite Hp. destruct (push32 s (ccr s * A24 + pc s)) as [s3|]; cbn [option_map ISA.obind]; [|reflexivity].
        change (mem_read SL (set_irq qr s3) (4 * v)) with (mem_read SL s3 (4 * v)).
        destruct (mem_read SL s3 (4 * v)); reflexivity. }
      rewrite Hint, Hcomm, He. cbn [option_map]. split; [reflexivity|].
      (* well-formedness and the timer *)
      unfold enter_ref in He.
      destruct (push32 s (ccr s * A24 + pc s)) as [s3|] eqn:Ep; cbn [ISA.obind] in He; [|discriminate].
      destruct (mem_read SL s3 (4 * v)) as [d|]; cbn [ISA.obind] in He; [|discriminate]. inversion He; subst s2; clear He.
      pose proof (push32_rest _ _ _ Ep Hspan') as Hrest. unfold FrameRest.rest in Hrest.
      pose proof (push32_cpu_ok _ _ _ Ep (conj Hr Hc)) as [Hr3 Hc3].
      split.
      * split; [split; [exact Hr3|unfold with_pc, with_ccr; cbn [ccr set_irq set_pc set_ccr]; apply set_flag_range; [unfold fI; lia|exact Hc3]]|].
        split; [intros x w Hx; exact (push32_bytes_ok _ _ _ Ep Hspan' Hb x w Hx)|].
        split.
        -- assert (E : b_io1 (cbus s3) = b_io1 (cbus s)) by (inversion Hrest; reflexivity).
           intros a Ha. unfold reg. cbn [cbus set_irq with_pc with_ccr set_pc set_ccr]. rewrite E. exact (Hbo a Ha).
        -- cbn [fault set_irq with_pc with_ccr set_pc set_ccr]. rewrite (push32_fault _ _ _ Ep). exact Hf.
      * cbn [cbus set_irq with_pc with_ccr set_pc set_ccr]. inversion Hrest; reflexivity.
Qed.

(* ---- one iteration: boundary, then the instruction and the accounting ---- *)
Definition irq_iter (s : cpu) (sync : Z) : option (cpu * Z) :=
  match accept_boundary s with Some s1 => plain_iter s1 sync | None => None end.

Fixpoint irq_run (fuel : nat) (s : cpu) (sync : Z) : option cpu :=
  match fuel with
  | O => None
  | S k =>
    match irq_iter s sync with
    | Some (s4, sync2) => if pc s4 =? exit_addr s4 then Some s4 else irq_run k s4 sync2
    | None => None
    end
  end.

Definition timer_stopped (s : cpu) : Prop := t_presc (b_tmr (cbus s)) = 0.

Theorem iter_insn_irq s sync s4 sync2 :
  state_ok s -> timer_stopped s -> irq_iter s sync = Some (s4, sync2) ->
  iter_insn s sync false = (if pc s4 =? exit_addr s4 then Finished s4 else Continue (mkR (mkCtl s4 false false) sync2))
  /\ state_ok s4 /\ timer_stopped s4.
Proof.
  intros Hst0 Htmr0 H. unfold irq_iter in H.
  destruct (accept_boundary s) as [s1|] eqn:Hbd; [|discriminate].
  destruct (try_interrupt_is_boundary s s1 Hst0 Hbd) as (Htry & Hst & Etmr).
  assert (Htmr : timer_stopped s1) by (unfold timer_stopped; rewrite Etmr; exact Htmr0). clear Etmr.
  unfold plain_iter in H.
  destruct (ref_decode s1) as [[i len]|] eqn:Hdec; [|discriminate].
  destruct (dom_c20 i len s1 && side_okb i s1) eqn:Hd; [|discriminate].
  apply andb_true_iff in Hd. destruct Hd as [Hdom Hside]. apply side_okb_ok in Hside.
  destruct (sem_ref i len s1) as [s'|] eqn:Hsem; [|discriminate].
  pose proof (step_is_ref_step_proof s1 i len s' Hst Hdec Hside Hdom Hsem) as Hstep.
  pose proof (step_preserves_state_ok s1 i len s' _ _ Hst Hdec Hside Hdom Hsem Hstep) as Hst1.
  pose proof (sem_ref_rest i len s1 s' Hdom Hsem) as Hrest. unfold FrameRest.rest in Hrest.
  assert (Htmr1 : t_presc (b_tmr (cbus (set_opc (pc s1 + len - 2) s'))) = 0) by (cbn [cbus set_opc]; unfold timer_stopped in Htmr; inversion Hrest; congruence).
  set (s2 := set_opc (pc s1 + len - 2) s') in *.
  inversion H as [Hacc_eq]. clear H.
  destruct (account_rest s2 (charge_ref i len s1) sync s4 sync2 Hacc_eq) as (A1 & A2 & A5).
  split; [|split; [exact (A5 Hst1)|unfold timer_stopped; congruence]].
  unfold iter_insn. rewrite Htry. rewrite Hstep. fold s2.
  unfold account in Hacc_eq. cbv zeta in Hacc_eq.
  destruct (SYNC_INTERVAL <=? sync + charge_ref i len s1 * 3) eqn:Esy.
  - inversion Hacc_eq; subst s4 sync2. rewrite update_timer_stopped by (rewrite <- Htmr1; destruct (sock _); reflexivity). reflexivity.
  - inversion Hacc_eq; subst s4 sync2. rewrite update_timer_stopped by exact Htmr1. reflexivity.
Qed.

Theorem run_iters_irq fuel : forall s sync sf,
  state_ok s -> timer_stopped s -> irq_run fuel s sync = Some sf ->
  run_iters fuel [] (mkR (mkCtl s false false) sync) = Some (Finished sf) /\ state_ok sf.
Proof.
  induction fuel as [|k IH]; intros s sync sf Hst Hq H; cbn [irq_run] in H; [discriminate|].
  destruct (irq_iter s sync) as [[s4 sync2]|] eqn:Hit; [|discriminate].
  destruct (iter_insn_irq s sync s4 sync2 Hst Hq Hit) as (Hi & Hst4 & Hq4).
  cbn [run_iters]. rewrite iter_no_lines by reflexivity. cbn [r_ctl c_cpu r_sync]. rewrite Hi.
  destruct (pc s4 =? exit_addr s4).
  - inversion H; subst. split; [reflexivity|exact Hst4].
  - exact (IH s4 sync2 sf Hst4 Hq4 H).
Qed.
