(* From the instruction words in memory to the reference semantics: MOV.B / MOV.W with a 16-bit displacement or a 16-bit
   absolute address (four bytes: the second word is the displacement / address). *)
From Coq Require Import Bool ZArith Lia ZifyBool List.
From K Require Import Lib.Bits Lib.Types Model.Machine Model.Bus Model.Cost Model.Addressing Model.Alu Model.Exec Spec.ISA
  Proofs.RegProofs Proofs.MemProofs Proofs.FlagProofs Proofs.AluProofs Proofs.EaProofs Proofs.StepProofs Proofs.DecodeProofs
  Proofs.CtlProofs Proofs.MovProofs Proofs.MovExtProofs Proofs.TwoByte Proofs.FourByte Proofs.StepRefines Proofs.StepRefinesCtl
  Proofs.StepRefines2 Proofs.StepRefines4.
Import ListNotations.
Open Scope bool_scope. Open Scope Z_scope.
Ltac Zify.zify_post_hook ::= Z.div_mod_to_equations.

(* the operation-code map takes everything but the displacement / address from the first word *)
Definition mov4_shape (w0 w1 : Z) (i : insn) : Prop :=
  match i with
  | IMovLoad z (EDisp r d) rd => decode_ref w0 0 0 0 0 = Some (IMovLoad z (EDisp r (sx 16 0)) rd, 4) /\ d = sx 16 w1
  | IMovStore z rs (EDisp r d) => decode_ref w0 0 0 0 0 = Some (IMovStore z rs (EDisp r (sx 16 0)), 4) /\ d = sx 16 w1
  | IMovLoad z (EAbs a) rd => decode_ref w0 0 0 0 0 = Some (IMovLoad z (EAbs (abs16 0)) rd, 4) /\ a = abs16 w1
  | IMovStore z rs (EAbs a) => decode_ref w0 0 0 0 0 = Some (IMovStore z rs (EAbs (abs16 0)), 4) /\ a = abs16 w1
  | _ => True
  end.

Lemma four_byte_mov_operand w0 w1 w2 w3 w4 i :
  decode_ref w0 w1 w2 w3 w4 = Some (i, 4) -> mov4_shape w0 w1 i.
Proof.
  unfold decode_ref, dec_mov_mem, dec_unary, dec_imm_group, dec_bit_mem, req, ok. cbv zeta.
  split_ifs; intros H; try discriminate H;
    try (injection H as <-; unfold mov4_shape; try exact I; try (split; reflexivity); fail);
    try (exfalso; clear -H; inversion H; fail).
  all: (apply (f_equal (fun o => match o with Some (x, _) => x | None => i end)) in H; cbv beta iota in H; subst i; unfold mov4_shape;
        try exact I; split; [|reflexivity];
        unfold decode_ref, dec_mov_mem, dec_unary, dec_imm_group, dec_bit_mem, req, ok; cbv zeta;
        repeat match goal with E : ?c = _ |- context [if ?c then _ else _] => rewrite E end; try reflexivity).
Qed.

Definition is_mov4 (t : tag) : bool :=
  match t with TMovDisp16 SB | TMovDisp16 SW | TMovAbs16 SB | TMovAbs16 SW => true | _ => false end.
Definition operand_mov4 (i : insn) : bool :=
  match i with
  | IMovLoad _ (EDisp _ _) _ | IMovStore _ _ (EDisp _ _) | IMovLoad _ (EAbs _) _ | IMovStore _ _ (EAbs _) => true
  | _ => false
  end.
Definition mov4_tag_ok (w : Z) : bool :=
  match decode_ref w 0 0 0 0 with
  | Some (i, len) => if (len =? 4) && operand_mov4 i then is_mov4 (select1 w) else true
  | None => true
  end.
Lemma mov4_tag_sweep : forallb mov4_tag_ok (zrange 65536) = true.
Proof. vm_compute. reflexivity. Qed.

Lemma is_mov4_not_prefix t : is_mov4 t = true -> is_prefix t = false.
Proof. destruct t; cbn; try discriminate; reflexivity. Qed.

Lemma mov4_dispatch w i0 : 0 <= w < 65536 -> decode_ref w 0 0 0 0 = Some (i0, 4) -> operand_mov4 i0 = true ->
  is_mov4 (select1 w) = true /\ agree (select1 w) w 0 i0 = true.
Proof.
  intros Hw Hd Ho.
  pose proof (forallb_zrange _ 65536 mov4_tag_sweep w Hw) as H2. unfold mov4_tag_ok in H2. rewrite Hd, Ho in H2.
  cbn [Z.eqb Pos.eqb andb] in H2.
  pose proof (forallb_zrange _ 65536 first_word_sweep w Hw) as H1. unfold agree1 in H1. rewrite Hd in H1.
  rewrite (is_mov4_not_prefix _ H2) in H1. cbn [orb] in H1. split; assumption.
Qed.

Lemma step_mov4 s w :
  bus_bytes_ok s -> pc s mod 2 = 0 -> 0 <= pc s -> pc s + 2 < 4294967296 -> mem_read SW s (pc s) = Some w ->
  is_mov4 (select1 w) = true ->
  step s = finish (run_tag (select1 w) w 0 0 (post_fetch s)).
Proof. intros Hb Hev H0 H1 Hw Hl. apply step_via_handler; try assumption. now apply is_mov4_not_prefix. Qed.

Lemma post_fetch_twice s : post_fetch (post_fetch s) = post_fetch2 s.
Proof. unfold post_fetch, post_fetch2. cbn [pc set_pc set_opc]. replace (pc s + 2 + 2) with (pc s + 4) by lia. reflexivity. Qed.

(* ---- MOV.B / MOV.W @(d:16,ERs),Rd ---- *)
Theorem step_mov_load_disp16_proof s w d w2 w3 w4 z r disp rd n s' :
  cpu_ok s -> bus_bytes_ok s -> fault s = false -> pc s mod 2 = 0 -> 0 <= pc s -> pc s + 4 < 4294967296 ->
  mem_read SW s (pc s) = Some w -> mem_read SW s (pc s + 2) = Some d ->
  decode_ref w d w2 w3 w4 = Some (IMovLoad z (EDisp r disp) rd, 4) ->
  sem_ref (IMovLoad z (EDisp r disp) rd) 4 s = Some s' ->
  mov_charge z (ea_addr z s (EDisp r disp)) 2 0 (set_opc (pc s + 2) s') = Ok n (set_opc (pc s + 2) s') ->
  step s = Ok n (set_opc (pc s + 2) s').
Proof.
  intros Hok Hb Hf Hev H0 H1 Hw Hd2 Hdec Hsem Hcs.
  pose proof (word_range s _ _ Hb Hw) as Rw. pose proof (word_range s _ _ Hb Hd2) as Rd.
  destruct (four_byte_mov_operand _ _ _ _ _ _ Hdec) as [Hd0 Ei].
  destruct (mov4_dispatch w _ Rw Hd0 eq_refl) as (Hl & Hag).
  rewrite (step_mov4 s w) by (try assumption; lia).
  destruct (select1 w) eqn:Es; cbn [is_mov4] in Hl; try discriminate Hl; try (destruct z; simpl in Hag; discriminate Hag).
  assert (Hz : s0 = z /\ z <> SL).
  { destruct z, s0; simpl in Hag; try discriminate Hag; try discriminate Hl; split; try reflexivity; discriminate. }
  destruct Hz as [-> Hz].
  assert (Hfacts : Z.land w 0x80 = 0 /\ r = nib w 3 /\ rd = nib w 4 /\ r < 8).
  { destruct z; [| |contradiction]; cbn [agree] in Hag; repeat (apply andb_true_iff in Hag; destruct Hag as [Hag ?]); repeat split; lia. }
  destruct Hfacts as (Hlw & Er & Ed & Hr8). pose proof (nib_range w 3) as R3. pose proof (nib_range w 4) as R4.
  pose proof (mov_disp16_load_proof z w 0 d (post_fetch s)) as Hh. cbv zeta in Hh.
  replace (opw z w 0) with w in Hh by (destruct z; [reflexivity|reflexivity|contradiction]).
  replace (icnt2 z) with 2 in Hh by (destruct z; [reflexivity|reflexivity|contradiction]).
  rewrite Hh; [|exact Hok|exact Hb| | | |exact Hd2|exact Hlw|lia|destruct z; cbn [field_ok]; lia];
    [|unfold post_fetch; cbn [pc set_pc]; lia..]. clear Hh.
  rewrite post_fetch_twice.
  cbn [sem_ref] in Hsem. rewrite <- Er, <- Ed, <- Ei.
  change (mem_read z (post_fetch s) (ea_addr z (post_fetch s) (EDisp r disp))) with (mem_read z s (ea_addr z s (EDisp r disp))).
  change (ea_addr z (post_fetch s) (EDisp r disp)) with (ea_addr z s (EDisp r disp)).
  destruct (mem_read z s (ea_addr z s (EDisp r disp))) as [v|]; cbn [ISA.obind] in Hsem; [|discriminate Hsem].
  injection Hsem as <-. cbn [option_map then_charge ea_update]. unfold post_fetch, post_fetch2. cbn [ccr set_pc set_opc].
  rewrite set_reg_set_pc_opc. unfold mov_ccr.
  change (with_ccr (set_flag fV false (set_nz (bits_of z) v (ccr s))) (set_pc (pc s + 4) (set_opc (pc s + 2) (set_reg z s rd v))))
    with (set_opc (pc s + 2) (with_pc (pc s + 4) (with_ccr (set_flag fV false (set_nz (bits_of z) v (ccr s))) (set_reg z s rd v)))).
  rewrite Hcs. unfold finish. unfold with_pc, with_ccr. cbn [fault set_opc set_pc set_ccr]. rewrite fault_set_reg, Hf. reflexivity.
Qed.

(* ---- MOV.B / MOV.W Rs,@(d:16,ERd) ---- *)
Theorem step_mov_store_disp16_proof s w d w2 w3 w4 z rs r disp n s' :
  cpu_ok s -> bus_bytes_ok s -> fault s = false -> pc s mod 2 = 0 -> 0 <= pc s -> pc s + 4 < 4294967296 ->
  mem_read SW s (pc s) = Some w -> mem_read SW s (pc s + 2) = Some d ->
  decode_ref w d w2 w3 w4 = Some (IMovStore z rs (EDisp r disp), 4) ->
  sem_ref (IMovStore z rs (EDisp r disp)) 4 s = Some s' ->
  mov_charge z (ea_addr z s (EDisp r disp)) 2 0 (set_opc (pc s + 2) s') = Ok n (set_opc (pc s + 2) s') ->
  step s = Ok n (set_opc (pc s + 2) s').
Proof.
  intros Hok Hb Hf Hev H0 H1 Hw Hd2 Hdec Hsem Hcs.
  pose proof (word_range s _ _ Hb Hw) as Rw. pose proof (word_range s _ _ Hb Hd2) as Rd.
  destruct (four_byte_mov_operand _ _ _ _ _ _ Hdec) as [Hd0 Ei].
  destruct (mov4_dispatch w _ Rw Hd0 eq_refl) as (Hl & Hag).
  rewrite (step_mov4 s w) by (try assumption; lia).
  destruct (select1 w) eqn:Es; cbn [is_mov4] in Hl; try discriminate Hl; try (destruct z; simpl in Hag; discriminate Hag).
  assert (Hz : s0 = z /\ z <> SL).
  { destruct z, s0; simpl in Hag; try discriminate Hag; try discriminate Hl; split; try reflexivity; discriminate. }
  destruct Hz as [-> Hz].
  assert (Hfacts : Z.land w 0x80 <> 0 /\ r = Z.land (nib w 3) 7 /\ rs = nib w 4).
  { destruct z; [| |contradiction]; cbn [agree] in Hag; repeat (apply andb_true_iff in Hag; destruct Hag as [Hag ?]); repeat split; lia. }
  destruct Hfacts as (Hlw & Er & Ed). pose proof (nib_range w 4) as R4.
  pose proof (mov_disp16_store_proof z w 0 d (post_fetch s)) as Hh. cbv zeta in Hh.
  replace (opw z w 0) with w in Hh by (destruct z; [reflexivity|reflexivity|contradiction]).
  replace (icnt2 z) with 2 in Hh by (destruct z; [reflexivity|reflexivity|contradiction]).
  rewrite Hh; [|exact Hok|exact Hb| | | |exact Hd2|exact Hlw|destruct z; cbn [field_ok]; lia];
    [|unfold post_fetch; cbn [pc set_pc]; lia..]. clear Hh.
  rewrite post_fetch_twice.
  cbn [sem_ref ea_update] in Hsem. rewrite <- Er, <- Ed, <- Ei.
  change (reg z (post_fetch s) rs) with (reg z s rs).
  change (ea_addr z (post_fetch s) (EDisp r disp)) with (ea_addr z s (EDisp r disp)).
  unfold post_fetch2. rewrite mem_write_pf.
  destruct (mem_write z s (ea_addr z s (EDisp r disp)) (reg z s rs)) as [s2|] eqn:E; cbn [ISA.obind] in Hsem; [|discriminate Hsem].
  injection Hsem as <-. cbn [option_map then_charge]. unfold post_fetch. cbn [ccr set_pc set_opc]. unfold mov_ccr.
  change (with_ccr (set_flag fV false (set_nz (bits_of z) (reg z s rs) (ccr s))) (set_pc (pc s + 4) (set_opc (pc s + 2) s2)))
    with (set_opc (pc s + 2) (with_pc (pc s + 4) (with_ccr (set_flag fV false (set_nz (bits_of z) (reg z s rs) (ccr s))) s2))).
  rewrite Hcs. unfold finish. unfold with_pc, with_ccr. cbn [fault set_opc set_pc set_ccr].
  rewrite (mem_write_fault _ _ _ _ _ E), Hf. reflexivity.
Qed.

(* ---- MOV.B / MOV.W @aa:16,Rd ---- *)
Theorem step_mov_load_abs16_proof s w d w2 w3 w4 z a rd n s' :
  cpu_ok s -> bus_bytes_ok s -> fault s = false -> pc s mod 2 = 0 -> 0 <= pc s -> pc s + 4 < 4294967296 ->
  mem_read SW s (pc s) = Some w -> mem_read SW s (pc s + 2) = Some d ->
  decode_ref w d w2 w3 w4 = Some (IMovLoad z (EAbs a) rd, 4) ->
  sem_ref (IMovLoad z (EAbs a) rd) 4 s = Some s' ->
  mov_charge z a 2 0 (set_opc (pc s + 2) s') = Ok n (set_opc (pc s + 2) s') ->
  step s = Ok n (set_opc (pc s + 2) s').
Proof.
  intros Hok Hb Hf Hev H0 H1 Hw Hd2 Hdec Hsem Hcs.
  pose proof (word_range s _ _ Hb Hw) as Rw. pose proof (word_range s _ _ Hb Hd2) as Rd.
  destruct (four_byte_mov_operand _ _ _ _ _ _ Hdec) as [Hd0 Ei].
  destruct (mov4_dispatch w _ Rw Hd0 eq_refl) as (Hl & Hag).
  rewrite (step_mov4 s w) by (try assumption; lia).
  destruct (select1 w) eqn:Es; cbn [is_mov4] in Hl; try discriminate Hl; try (destruct z; simpl in Hag; discriminate Hag).
  assert (Hz : s0 = z /\ z <> SL).
  { destruct z, s0; simpl in Hag; try discriminate Hag; try discriminate Hl; split; try reflexivity; discriminate. }
  destruct Hz as [-> Hz].
  assert (Hfacts : Z.land w 0xfff0 = (match z with SB => 0x6a00 | _ => 0x6b00 end) /\ rd = nib w 4).
  { destruct z; [| |contradiction]; cbn [agree] in Hag; repeat (apply andb_true_iff in Hag; destruct Hag as [Hag ?]); repeat split; lia. }
  destruct Hfacts as (Hlw & Ed). pose proof (nib_range w 4) as R4.
  pose proof (mov_abs16_load_proof z w 0 d (post_fetch s)) as Hh. cbv zeta in Hh.
  replace (opw z w 0) with w in Hh by (destruct z; [reflexivity|reflexivity|contradiction]).
  replace (icnt2 z) with 2 in Hh by (destruct z; [reflexivity|reflexivity|contradiction]).
  rewrite Hh; [|exact Hok|exact Hb| | | |exact Hd2|exact Hlw|destruct z; cbn [field_ok]; lia];
    [|unfold post_fetch; cbn [pc set_pc]; lia..]. clear Hh.
  rewrite post_fetch_twice.
  cbn [sem_ref ea_addr ea_update] in Hsem. rewrite <- Ed, <- Ei.
  change (mem_read z (post_fetch s) a) with (mem_read z s a).
  destruct (mem_read z s a) as [v|]; cbn [ISA.obind] in Hsem; [|discriminate Hsem].
  injection Hsem as <-. cbn [option_map then_charge]. unfold post_fetch, post_fetch2. cbn [ccr set_pc set_opc].
  rewrite set_reg_set_pc_opc. unfold mov_ccr.
  change (with_ccr (set_flag fV false (set_nz (bits_of z) v (ccr s))) (set_pc (pc s + 4) (set_opc (pc s + 2) (set_reg z s rd v))))
    with (set_opc (pc s + 2) (with_pc (pc s + 4) (with_ccr (set_flag fV false (set_nz (bits_of z) v (ccr s))) (set_reg z s rd v)))).
  rewrite Hcs. unfold finish. unfold with_pc, with_ccr. cbn [fault set_opc set_pc set_ccr]. rewrite fault_set_reg, Hf. reflexivity.
Qed.

(* ---- MOV.B / MOV.W Rs,@aa:16 ---- *)
Theorem step_mov_store_abs16_proof s w d w2 w3 w4 z rs a n s' :
  cpu_ok s -> bus_bytes_ok s -> fault s = false -> pc s mod 2 = 0 -> 0 <= pc s -> pc s + 4 < 4294967296 ->
  mem_read SW s (pc s) = Some w -> mem_read SW s (pc s + 2) = Some d ->
  decode_ref w d w2 w3 w4 = Some (IMovStore z rs (EAbs a), 4) ->
  sem_ref (IMovStore z rs (EAbs a)) 4 s = Some s' ->
  mov_charge z a 2 0 (set_opc (pc s + 2) s') = Ok n (set_opc (pc s + 2) s') ->
  step s = Ok n (set_opc (pc s + 2) s').
Proof.
  intros Hok Hb Hf Hev H0 H1 Hw Hd2 Hdec Hsem Hcs.
  pose proof (word_range s _ _ Hb Hw) as Rw. pose proof (word_range s _ _ Hb Hd2) as Rd.
  destruct (four_byte_mov_operand _ _ _ _ _ _ Hdec) as [Hd0 Ei].
  destruct (mov4_dispatch w _ Rw Hd0 eq_refl) as (Hl & Hag).
  rewrite (step_mov4 s w) by (try assumption; lia).
  destruct (select1 w) eqn:Es; cbn [is_mov4] in Hl; try discriminate Hl; try (destruct z; simpl in Hag; discriminate Hag).
  assert (Hz : s0 = z /\ z <> SL).
  { destruct z, s0; simpl in Hag; try discriminate Hag; try discriminate Hl; split; try reflexivity; discriminate. }
  destruct Hz as [-> Hz].
  assert (Hfacts : Z.land w 0xfff0 <> (match z with SB => 0x6a00 | _ => 0x6b00 end) /\ rs = nib w 4).
  { destruct z; [| |contradiction]; cbn [agree] in Hag; repeat (apply andb_true_iff in Hag; destruct Hag as [Hag ?]); repeat split; lia. }
  destruct Hfacts as (Hlw & Ed). pose proof (nib_range w 4) as R4.
  pose proof (mov_abs16_store_proof z w 0 d (post_fetch s)) as Hh. cbv zeta in Hh.
  replace (opw z w 0) with w in Hh by (destruct z; [reflexivity|reflexivity|contradiction]).
  replace (icnt2 z) with 2 in Hh by (destruct z; [reflexivity|reflexivity|contradiction]).
  rewrite Hh; [|exact Hok|exact Hb| | | |exact Hd2|exact Hlw|destruct z; cbn [field_ok]; lia];
    [|unfold post_fetch; cbn [pc set_pc]; lia..]. clear Hh.
  rewrite post_fetch_twice.
  cbn [sem_ref ea_addr ea_update] in Hsem. rewrite <- Ed, <- Ei.
  change (reg z (post_fetch s) rs) with (reg z s rs).
  unfold post_fetch2. rewrite mem_write_pf.
  destruct (mem_write z s a (reg z s rs)) as [s2|] eqn:E; cbn [ISA.obind] in Hsem; [|discriminate Hsem].
  injection Hsem as <-. cbn [option_map then_charge]. unfold post_fetch. cbn [ccr set_pc set_opc]. unfold mov_ccr.
  change (with_ccr (set_flag fV false (set_nz (bits_of z) (reg z s rs) (ccr s))) (set_pc (pc s + 4) (set_opc (pc s + 2) s2)))
    with (set_opc (pc s + 2) (with_pc (pc s + 4) (with_ccr (set_flag fV false (set_nz (bits_of z) (reg z s rs) (ccr s))) s2))).
  rewrite Hcs. unfold finish. unfold with_pc, with_ccr. cbn [fault set_opc set_pc set_ccr].
  rewrite (mem_write_fault _ _ _ _ _ E), Hf. reflexivity.
Qed.
