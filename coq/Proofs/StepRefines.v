(* From the instruction word in memory to the reference's instruction semantics, in one statement (C01-C04, C07):
   fetch + dispatch + handler of the model = decode_ref + sem_ref, for every state, for the two-byte register forms. *)
From Coq Require Import Bool ZArith Lia ZifyBool List.
From K Require Import Lib.Bits Lib.Types Model.Machine Model.Bus Model.Cost Model.Addressing Model.Alu Model.Exec Spec.ISA
  Proofs.RegProofs Proofs.MemProofs Proofs.FlagProofs Proofs.AluProofs Proofs.EaProofs Proofs.StepProofs Proofs.DecodeProofs Proofs.CtlProofs Proofs.TwoByte.
Import ListNotations.
Open Scope bool_scope. Open Scope Z_scope.
Ltac Zify.zify_post_hook ::= Z.div_mod_to_equations.

(* ---- facts about the dispatch that the handler theorems need, by sweeps over all first words ---- *)
(* tags that never belong to a two-byte instruction: second-level tags and the four-byte branch / jump forms *)
Definition is_second (t : tag) : bool :=
  match t with
  | TLogicL _ | TBcc16 _ | TJmpAbs | TBsr16 | TJsrAbs
  | TMovErn SL | TMovIncDec SL | TMovDisp16 _ | TMovAbs16 _ | TMovAbs24 _ | TMovDisp24 _ => true
  | _ => false end.
Definition two_byte_tag_ok (w : Z) : bool :=
  match decode_ref w 0 0 0 0 with
  | Some (_, len) => if len =? 2 then negb (is_prefix (select1 w)) && negb (is_second (select1 w)) else true
  | None => true
  end
  && match select1 w with
     | TAlu2Rn AAddx z => sz_eqb z SB
     | TAlu1 (UExtu | UInc2 | UDec2) z => negb (sz_eqb z SB)
     | TBcc8 cc => (0 <=? cc) && (cc <? 16)
     | _ => true end
  && match decode_ref w 0 0 0 0 with Some (ITrapa n, _) => (1 <=? n) && (n <=? 3) | _ => true end.
Lemma two_byte_tag_sweep : forallb two_byte_tag_ok (zrange 65536) = true.
Proof. vm_compute. reflexivity. Qed.

Lemma exec_plain w s : is_prefix (select1 w) = false -> exec w s = run_tag (select1 w) w 0 0 s.
Proof. unfold exec. destruct (select1 w); cbn [is_prefix]; intros H; try discriminate H; reflexivity. Qed.

Lemma alu2_eqb_eq a b : alu2_eqb a b = true -> a = b.
Proof. destruct a, b; cbn; intros H; try discriminate H; reflexivity. Qed.
Lemma sz_eqb_eq a b : sz_eqb a b = true -> a = b.
Proof. destruct a, b; cbn; intros H; try discriminate H; reflexivity. Qed.

Lemma word_range s a w : bus_bytes_ok s -> mem_read SW s a = Some w -> 0 <= w < 65536.
Proof.
  intros Hb. cbn [mem_read]. unfold mem8.
  destruct (bus_read (cbus s) a) as [h|] eqn:E0; [|discriminate].
  destruct (bus_read (cbus s) (a + 1)) as [l|] eqn:E1; [|discriminate].
  pose proof (Hb _ _ E0) as R0. pose proof (Hb _ _ E1) as R1. intros Heq. injection Heq as <-. lia.
Qed.

Lemma nib_range w k : 0 <= nib w k < 16.
Proof. unfold nib. change 0xf with (2^4 - 1). rewrite land_ones_mod by lia. change (2^4) with 16. lia. Qed.

(* the architectural views do not depend on PC / operating PC *)
Lemma reg_set_pc_opc z a b s f : reg z (set_pc a (set_opc b s)) f = reg z s f.
Proof. destruct z; reflexivity. Qed.
Lemma set_reg_set_pc_opc z a b s f v : set_reg z (set_pc a (set_opc b s)) f v = set_pc a (set_opc b (set_reg z s f v)).
Proof.
  destruct z; unfold set_reg, set_reg8, set_reg16, set_reg32, reg32; cbn [er set_pc set_opc];
    repeat match goal with |- context [if ?c then _ else _] => destruct c end; reflexivity.
Qed.

(* what the dispatch facts give for a two-byte instruction word *)
Lemma two_byte_dispatch w w1 w2 w3 w4 i : 0 <= w < 65536 ->
  decode_ref w w1 w2 w3 w4 = Some (i, 2) ->
  is_prefix (select1 w) = false /\ is_second (select1 w) = false /\ agree (select1 w) w 0 i = true /\
  match select1 w with
  | TAlu2Rn AAddx z => z = SB
  | TAlu1 o z => alu1_defined o (bits_of z)
  | TBcc8 cc => 0 <= cc < 16
  | _ => True end /\
  match i with ITrapa n => 1 <= n <= 3 | _ => True end.
Proof.
  intros Hw Hd. apply two_byte_independent in Hd.
  pose proof (forallb_zrange _ 65536 two_byte_tag_sweep w Hw) as H2. unfold two_byte_tag_ok in H2. rewrite Hd in H2.
  cbn [Z.eqb Pos.eqb] in H2. apply andb_true_iff in H2. destruct H2 as [H2 H4]. apply andb_true_iff in H2. destruct H2 as [H2 H3].
  apply andb_true_iff in H2. destruct H2 as [Hp Hs].
  apply negb_true_iff in Hp. apply negb_true_iff in Hs.
  pose proof (forallb_zrange _ 65536 first_word_sweep w Hw) as H1. unfold agree1 in H1. rewrite Hd, Hp in H1. cbn [orb] in H1.
  split; [assumption|]. split; [assumption|]. split; [assumption|]. split.
  - destruct (select1 w); try exact I.
    + destruct o; try exact I. apply sz_eqb_eq. exact H3.
    + destruct o; cbn [alu1_defined]; try exact I; destruct s; cbn in H3; try discriminate H3; cbn [bits_of]; auto.
    + lia.
  - destruct i; try exact I. lia.
Qed.

Definition post_fetch (s : cpu) : cpu := set_pc (pc s + 2) (set_opc (pc s) s).

(* ---- ADD SUB CMP AND OR XOR ADDX  Rs,Rd (B / W / L) ---- *)
Theorem step_alu2_rr_proof s w w1 w2 w3 w4 o z rs rd n :
  cpu_ok s -> bus_bytes_ok s -> fault s = false -> pc s mod 2 = 0 -> 0 <= pc s -> pc s + 2 < 4294967296 ->
  mem_read SW s (pc s) = Some w ->
  decode_ref w w1 w2 w3 w4 = Some (IAlu2R o z rs rd, 2) ->
  cs KI 1 (post_fetch s) = Ok n (post_fetch s) ->
  exists s', sem_ref (IAlu2R o z rs rd) 2 s = Some s' /\ step s = Ok n (set_opc (pc s) s').
Proof.
  intros Hok Hb Hf Hev H0 H1 Hw Hd Hcs.
  pose proof (word_range s _ _ Hb Hw) as Rw.
  destruct (two_byte_dispatch w w1 w2 w3 w4 _ Rw Hd) as (Hp & Hs & Hag & Hx & _).
  unfold step. rewrite (fetch_word s w) by assumption. fold (post_fetch s).
  rewrite exec_plain by assumption.
  destruct (select1 w) eqn:Es; cbn [is_second] in Hs; try discriminate Hs; try (destruct z; simpl in Hag; discriminate Hag).
  assert (Hfacts : o = o0 /\ z = s0 /\ rs = (match z with SL => Z.land (nib w 3) 7 | _ => nib w 3 end) /\ rd = nib w 4 /\ (z = SL -> rd < 8)).
  { destruct z; cbn [agree] in Hag; repeat (apply andb_true_iff in Hag; destruct Hag as [Hag ?]);
      apply alu2_eqb_eq in Hag;
      match goal with H : sz_eqb _ _ = true |- _ => apply sz_eqb_eq in H end;
      repeat split; try assumption; try lia; intros Hz; try discriminate Hz. }
  destruct Hfacts as (<- & <- & Hrs & Hrd & Hl).
  pose proof (nib_range w 3) as R3. pose proof (nib_range w 4) as R4.
  assert (R7 : 0 <= Z.land (nib w 3) 7 < 8) by (change 7 with (2^3 - 1); rewrite land_ones_mod by lia; change (2^3) with 8; lia).
  assert (Fs : field_ok z (match z with SL => Z.land (nib w 3) 7 | _ => nib w 3 end)) by (destruct z; cbn [field_ok]; lia).
  assert (Fd : field_ok z (nib w 4)) by (destruct z; cbn [field_ok]; try lia; specialize (Hl eq_refl); lia).
  assert (Hok1 : cpu_ok (post_fetch s)) by exact Hok.
  rewrite (alu2_rn_refines o z w (post_fetch s) n Hok1 Fs Fd); [|intros ->; exact Hx|exact Hcs].
  cbn [sem_ref]. rewrite <- Hrs, <- Hrd. unfold post_fetch. rewrite !reg_set_pc_opc.
  cbn [ccr set_pc set_opc].
  destruct (alu2_ref o (bits_of z) (reg z s rd) (reg z s rs) (ccr s)) as [r c].
  eexists. split; [reflexivity|].
  assert (Hfault : forall x, fault (with_ccr c (match o with ACmp => set_pc (pc s + 2) (set_opc (pc s) s) | _ => set_reg z (set_pc (pc s + 2) (set_opc (pc s) s)) rd x end)) = false).
  { intros x. destruct o; try rewrite set_reg_set_pc_opc; unfold with_ccr; cbn [fault set_ccr set_pc set_opc];
      try (unfold set_reg; destruct z; unfold set_reg8, set_reg16, set_reg32; repeat match goal with |- context [if ?c then _ else _] => destruct c end; cbn [fault set_regs]); exact Hf. }
  rewrite Hfault. f_equal.
  destruct o; try rewrite set_reg_set_pc_opc; unfold with_pc, with_ccr; reflexivity.
Qed.

(* ---- MOV Rs,Rd (B / W / L) ---- *)
Theorem step_mov_rr_proof s w w1 w2 w3 w4 z rs rd n :
  cpu_ok s -> bus_bytes_ok s -> fault s = false -> pc s mod 2 = 0 -> 0 <= pc s -> pc s + 2 < 4294967296 ->
  mem_read SW s (pc s) = Some w ->
  decode_ref w w1 w2 w3 w4 = Some (IMovRR z rs rd, 2) ->
  cs KI 1 (post_fetch s) = Ok n (post_fetch s) ->
  exists s', sem_ref (IMovRR z rs rd) 2 s = Some s' /\ step s = Ok n (set_opc (pc s) s').
Proof.
  intros Hok Hb Hf Hev H0 H1 Hw Hd Hcs.
  pose proof (word_range s _ _ Hb Hw) as Rw.
  destruct (two_byte_dispatch w w1 w2 w3 w4 _ Rw Hd) as (Hp & Hs & Hag & Hx & _).
  unfold step. rewrite (fetch_word s w) by assumption. fold (post_fetch s).
  rewrite exec_plain by assumption.
  destruct (select1 w) eqn:Es; cbn [is_second] in Hs; try discriminate Hs; try (destruct z; simpl in Hag; discriminate Hag).
  assert (Hfacts : z = s0 /\ rs = (match z with SL => Z.land (nib w 3) 7 | _ => nib w 3 end) /\ rd = nib w 4 /\ (z = SL -> rd < 8)).
  { destruct z; cbn [agree] in Hag; repeat (apply andb_true_iff in Hag; destruct Hag as [Hag ?]);
      apply sz_eqb_eq in Hag; repeat split; try assumption; try lia; intros Hz; try discriminate Hz. }
  destruct Hfacts as (<- & Hrs & Hrd & Hl).
  pose proof (nib_range w 3) as R3. pose proof (nib_range w 4) as R4.
  assert (R7 : 0 <= Z.land (nib w 3) 7 < 8) by (change 7 with (2^3 - 1); rewrite land_ones_mod by lia; change (2^3) with 8; lia).
  assert (Fs : field_ok z (match z with SL => Z.land (nib w 3) 7 | _ => nib w 3 end)) by (destruct z; cbn [field_ok]; lia).
  assert (Fd : field_ok z (nib w 4)) by (destruct z; cbn [field_ok]; try lia; specialize (Hl eq_refl); lia).
  assert (Hok1 : cpu_ok (post_fetch s)) by exact Hok.
  rewrite (mov_rr_refines z w (post_fetch s) n Hok1 Fs Fd Hcs).
  cbn [sem_ref]. rewrite <- Hrs, <- Hrd. unfold post_fetch. rewrite !reg_set_pc_opc. cbn [ccr set_pc set_opc].
  eexists. split; [reflexivity|].
  rewrite set_reg_set_pc_opc. unfold with_ccr, with_pc.
  assert (Hfault : fault (set_reg z s rd (reg z s rs)) = false).
  { unfold set_reg; destruct z; unfold set_reg8, set_reg16, set_reg32; repeat match goal with |- context [if ?c then _ else _] => destruct c end; cbn [fault set_regs]; exact Hf. }
  cbn [fault set_ccr set_pc set_opc]. rewrite Hfault. reflexivity.
Qed.

(* ---- NEG NOT EXTU INC DEC and the shifts / rotates (SHAL outside its known class) ---- *)
Theorem step_alu1_proof s w w1 w2 w3 w4 o z rd n :
  cpu_ok s -> bus_bytes_ok s -> fault s = false -> pc s mod 2 = 0 -> 0 <= pc s -> pc s + 2 < 4294967296 ->
  mem_read SW s (pc s) = Some w ->
  decode_ref w w1 w2 w3 w4 = Some (IAlu1 o z rd, 2) ->
  (o = UShal -> shal_known (bits_of z) (reg z s rd) = false) ->
  cs KI 1 (post_fetch s) = Ok n (post_fetch s) ->
  exists s', sem_ref (IAlu1 o z rd) 2 s = Some s' /\ step s = Ok n (set_opc (pc s) s').
Proof.
  intros Hok Hb Hf Hev H0 H1 Hw Hd Hshal Hcs.
  pose proof (word_range s _ _ Hb Hw) as Rw.
  destruct (two_byte_dispatch w w1 w2 w3 w4 _ Rw Hd) as (Hp & Hs & Hag & Hx & _).
  unfold step. rewrite (fetch_word s w) by assumption. fold (post_fetch s).
  rewrite exec_plain by assumption.
  destruct (select1 w) eqn:Es; cbn [is_second] in Hs; try discriminate Hs; try (destruct z; simpl in Hag; discriminate Hag).
  assert (Hfacts : o = o0 /\ z = s0 /\ rd = nib w 4 /\ (z = SL -> rd < 8)).
  { destruct z; cbn [agree] in Hag; repeat (apply andb_true_iff in Hag; destruct Hag as [Hag ?]);
      (assert (o = o0) by (destruct o, o0; cbn in Hag; try discriminate Hag; reflexivity));
      match goal with H : sz_eqb _ _ = true |- _ => apply sz_eqb_eq in H end;
      repeat split; try assumption; try lia; intros Hz; try discriminate Hz. }
  destruct Hfacts as (<- & <- & Hrd & Hl).
  pose proof (nib_range w 4) as R4.
  assert (Fd : field_ok z (nib w 4)) by (destruct z; cbn [field_ok]; try lia; specialize (Hl eq_refl); lia).
  assert (Hok1 : cpu_ok (post_fetch s)) by exact Hok.
  rewrite (alu1_refines o z w (post_fetch s) n Hok1 Fd Hx); [| |exact Hcs].
  2:{ intros E. unfold post_fetch. rewrite reg_set_pc_opc. rewrite <- Hrd. exact (Hshal E). }
  cbn [sem_ref]. rewrite <- Hrd. unfold post_fetch. rewrite !reg_set_pc_opc. cbn [ccr set_pc set_opc].
  destruct (alu1_ref o (bits_of z) (reg z s rd) (ccr s)) as [r c].
  eexists. split; [reflexivity|].
  rewrite set_reg_set_pc_opc. unfold with_ccr, with_pc.
  assert (Hfault : fault (set_reg z s rd r) = false).
  { unfold set_reg; destruct z; unfold set_reg8, set_reg16, set_reg32; repeat match goal with |- context [if ?c then _ else _] => destruct c end; cbn [fault set_regs]; exact Hf. }
  cbn [fault set_ccr set_pc set_opc]. rewrite Hfault. reflexivity.
Qed.

(* ---- the fourteen bit operations on a byte register, immediate or register bit number ---- *)
Lemma bop_eqb_eq a b : bop_eqb a b = true -> a = b.
Proof. destruct a, b; cbn; intros H; try discriminate H; reflexivity. Qed.

Theorem step_bit_reg_proof s w w1 w2 w3 w4 o b rd n :
  cpu_ok s -> bus_bytes_ok s -> fault s = false -> pc s mod 2 = 0 -> 0 <= pc s -> pc s + 2 < 4294967296 ->
  mem_read SW s (pc s) = Some w ->
  decode_ref w w1 w2 w3 w4 = Some (IBit o b (BTReg rd), 2) ->
  cs KI 1 (post_fetch s) = Ok n (post_fetch s) ->
  exists s', sem_ref (IBit o b (BTReg rd)) 2 s = Some s' /\ step s = Ok n (set_opc (pc s) s').
Proof.
  intros Hok Hb Hf Hev H0 H1 Hw Hd Hcs.
  pose proof (word_range s _ _ Hb Hw) as Rw.
  destruct (two_byte_dispatch w w1 w2 w3 w4 _ Rw Hd) as (Hp & Hs & Hag & Hx & _).
  unfold step. rewrite (fetch_word s w) by assumption. fold (post_fetch s).
  rewrite exec_plain by assumption.
  pose proof (nib_range w 3) as R3. pose proof (nib_range w 4) as R4.
  assert (Hok1 : cpu_ok (post_fetch s)) by exact Hok.
  destruct b as [k|rn];
    (destruct (select1 w) eqn:Es; cbn [is_second] in Hs; try discriminate Hs; try (simpl in Hag; discriminate Hag)).
  - (* immediate bit number *)
    cbn [agree] in Hag. repeat (apply andb_true_iff in Hag; destruct Hag as [Hag ?]).
    apply bop_eqb_eq in Hag. subst o0.
    assert (Hk : k = Z.land (nib w 3) 7) by lia. assert (Hrd : rd = nib w 4) by lia.
    pose proof (bit_rn_refines o w (post_fetch s) n false Hok1 ltac:(lia) ltac:(lia) Hcs) as Hr. cbv zeta in Hr. cbn [andb] in Hr.
    rewrite Hr. cbn [sem_ref]. rewrite <- Hk, <- Hrd. unfold post_fetch.
    change (reg8 (set_pc (pc s + 2) (set_opc (pc s) s)) rd) with (reg8 s rd). cbn [ccr set_pc set_opc].
    destruct (bit_ref o (reg8 s rd) k (ccr s)) as [v c].
    eexists. split; [reflexivity|].
    destruct (bit_writes o).
    + change (set_reg8 (set_pc (pc s + 2) (set_opc (pc s) s)) rd v) with (set_reg SB (set_pc (pc s + 2) (set_opc (pc s) s)) rd v).
      rewrite set_reg_set_pc_opc. unfold with_ccr, with_pc. cbn [set_reg].
      assert (Hfault : fault (set_reg8 s rd v) = false) by (unfold set_reg8, set_reg32; destruct (rd <? 8); cbn [fault set_regs]; exact Hf).
      cbn [fault set_ccr set_pc set_opc]. rewrite Hfault. reflexivity.
    + unfold with_ccr, with_pc. cbn [fault set_ccr set_pc set_opc]. rewrite Hf. reflexivity.
  - (* bit number in a register *)
    cbn [agree] in Hag. repeat (apply andb_true_iff in Hag; destruct Hag as [Hag ?]).
    apply bop_eqb_eq in Hag. subst o0.
    assert (Hrn : rn = nib w 3) by lia. assert (Hrd : rd = nib w 4) by lia.
    pose proof (bit_rn_refines o w (post_fetch s) n true Hok1 ltac:(lia) ltac:(lia) Hcs) as Hr. cbv zeta in Hr.
    rewrite Hr. cbn [sem_ref]. rewrite <- Hrn, <- Hrd. unfold post_fetch.
    change (reg8 (set_pc (pc s + 2) (set_opc (pc s) s)) rd) with (reg8 s rd).
    change (reg8 (set_pc (pc s + 2) (set_opc (pc s) s)) rn) with (reg8 s rn). cbn [ccr set_pc set_opc].
    destruct (bit_ref o (reg8 s rd) (reg8 s rn mod 8) (ccr s)) as [v c].
    eexists. split; [reflexivity|].
    destruct (bit_writes o).
    + change (set_reg8 (set_pc (pc s + 2) (set_opc (pc s) s)) rd v) with (set_reg SB (set_pc (pc s + 2) (set_opc (pc s) s)) rd v).
      rewrite set_reg_set_pc_opc. unfold with_ccr, with_pc. cbn [set_reg].
      assert (Hfault : fault (set_reg8 s rd v) = false) by (unfold set_reg8, set_reg32; destruct (rd <? 8); cbn [fault set_regs]; exact Hf).
      cbn [fault set_ccr set_pc set_opc]. rewrite Hfault. reflexivity.
    + unfold with_ccr, with_pc. cbn [fault set_ccr set_pc set_opc]. rewrite Hf. reflexivity.
Qed.
