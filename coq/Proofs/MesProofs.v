(* C14: the MES system-call emulation (TRAPA #0) of the model = the reference calls. *)
From Coq Require Import Bool ZArith Lia ZifyBool List.
From K Require Import Lib.Bits Lib.Types Lib.Utf8 Model.Machine Model.Bus Model.Addressing Model.Alu Model.Exec
  Spec.ISA Spec.Domains Proofs.RegProofs Proofs.MemProofs.
Import ListNotations.
Open Scope bool_scope. Open Scope Z_scope.
Ltac Zify.zify_post_hook ::= Z.div_mod_to_equations.

Lemma read_bytes_spec n : forall a s, 0 <= a -> a + Z.of_nat n <= 4294967296 ->
  read_bytes n a s = match bytes_at s a n with Some bs => Ok bs s | None => Err end.
Proof.
  induction n as [|k IH]; intros a s Ha Hn; cbn [read_bytes bytes_at]; [reflexivity|].
  unfold bind, read_abs24_b, bread, mem8.
  destruct (bus_read (cbus s) a) as [b|]; [|reflexivity].
  assert (wrap 32 (a + 1) = a + 1 \/ k = 0%nat) as [E|E].
  { destruct k; [right; reflexivity|left]. unfold wrap. change (2^32) with 4294967296. rewrite Z.mod_small; lia. }
  - rewrite E, IH by lia. destruct (bytes_at s (a + 1) k); reflexivity.
  - subst k. cbn [read_bytes bytes_at]. reflexivity.
Qed.

Definition mes_pre (s : cpu) : Prop :=
  regs_ok s /\ bus_bytes_ok s /\ reg32 s 1 + 12 <= 4294967296 /\
  (forall buf len, mem_read SL s (reg32 s 1 + 4) = Some buf -> mem_read SL s (reg32 s 1 + 8) = Some len ->
                   buf + len <= 4294967296 /\ len <= 0x200000).

Lemma mem_read_l_range s a v : bus_bytes_ok s -> mem_read SL s a = Some v -> 0 <= v < 4294967296.
Proof.
  intros Hb. cbn [mem_read]. unfold mem8.
  destruct (bus_read (cbus s) a) as [b0|] eqn:E0; [|discriminate].
  destruct (bus_read (cbus s) (a + 1)) as [b1|] eqn:E1; [|discriminate].
  destruct (bus_read (cbus s) (a + 2)) as [b2|] eqn:E2; [|discriminate].
  destruct (bus_read (cbus s) (a + 3)) as [b3|] eqn:E3; [|discriminate].
  intros H. inversion H. pose proof (Hb _ _ E0). pose proof (Hb _ _ E1). pose proof (Hb _ _ E2). pose proof (Hb _ _ E3). lia.
Qed.

Theorem mes_refines_proof : forall s, mes_pre s ->
  mes s = match mes_body s with Some s' => Ok tt s' | None => Err end.
Proof.
  intros s (Hr & Hb & Harg & Hbuf). unfold mes, mes_body.
  pose proof (Hr 1) as R1. unfold word32 in R1. fold (reg32 s 1) in R1.
  unfold bind at 1. rewrite read_rn_l_spec by lia.
  destruct (reg32 s 0 =? 113) eqn:E113.
  - assert (reg32 s 0 =? 104 = false) as -> by lia.
    unfold bind at 1. rewrite read_rn_l_spec by lia.
    unfold bind at 1. rewrite read_l_spec by assumption.
    destruct (mem_read SL s (reg32 s 1)) as [v|] eqn:Ev; cbn [ISA.obind]; [|reflexivity].
    unfold bind at 1. replace (wrap 32 (reg32 s 1 + 4)) with (reg32 s 1 + 4) by (unfold wrap; change (2^32) with 4294967296; rewrite Z.mod_small; lia).
    rewrite read_l_spec by assumption.
    destruct (mem_read SL s (reg32 s 1 + 4)) as [addr|] eqn:Ea; cbn [ISA.obind]; [|reflexivity].
    pose proof (mem_read_l_range _ _ _ Hb Ev) as Rv.
    destruct ((v <? 1) || (64 <=? v)) eqn:Eo.
    + assert ((1 <=? v) && (v <=? 63) = false) as -> by lia. reflexivity.
    + assert ((1 <=? v) && (v <=? 63) = true) as -> by lia.
      unfold bind at 1. unfold wrap. change (2^32) with 4294967296.
      rewrite write_l_spec by lia. replace (addr + 1509949440) with (1509949440 + addr) by lia.
      replace (v * 4) with (4 * v) by lia.
      destruct (mem_write SL s (4 * v) ((1509949440 + addr) mod 4294967296)) as [s1|] eqn:Ew; cbn [ISA.obind]; [|reflexivity].
      unfold bind. rewrite read_rn_l_spec by lia.
      assert (reg32 s1 5 = reg32 s 5).
      { unfold reg32. cbn [mem_write] in Ew. unfold ISA.obind, put8 in Ew.
        destruct (bus_write (cbus s) (4 * v) _) as [b1|]; [|discriminate]. cbn [cbus set_bus] in Ew.
        destruct (bus_write b1 (4 * v + 1) _) as [b2|]; [|discriminate]. cbn [cbus set_bus] in Ew.
        destruct (bus_write b2 (4 * v + 2) _) as [b3|]; [|discriminate]. cbn [cbus set_bus] in Ew.
        destruct (bus_write b3 (4 * v + 3) _) as [b4|]; [|discriminate]. inversion Ew. reflexivity. }
      rewrite H. rewrite write_l_spec by (apply Hr).
      replace (16776464 + v * 4) with (16776464 + 4 * v) by lia. reflexivity.
  - destruct (reg32 s 0 =? 104) eqn:E104; [|reflexivity].
    unfold bind at 1. rewrite read_rn_l_spec by lia.
    unfold bind at 1. rewrite read_l_spec by assumption.
    replace (wrap 32 (reg32 s 1 + 4)) with (reg32 s 1 + 4) by (unfold wrap; change (2^32) with 4294967296; rewrite Z.mod_small; lia).
    replace (wrap 32 (reg32 s 1 + 8)) with (reg32 s 1 + 8) by (unfold wrap; change (2^32) with 4294967296; rewrite Z.mod_small; lia).
    destruct (mem_read SL s (reg32 s 1)) as [a0|] eqn:E0; cbn [ISA.obind].
    2:{ destruct (mem_read SL s (reg32 s 1 + 4)); cbn [ISA.obind]; [|reflexivity].
        destruct (mem_read SL s (reg32 s 1 + 8)); reflexivity. }
    unfold bind at 1. rewrite read_l_spec by assumption.
    destruct (mem_read SL s (reg32 s 1 + 4)) as [buf|] eqn:E1; cbn [ISA.obind]; [|reflexivity].
    unfold bind at 1. rewrite read_l_spec by assumption.
    destruct (mem_read SL s (reg32 s 1 + 8)) as [len|] eqn:E2; cbn [ISA.obind]; [|reflexivity].
    pose proof (mem_read_l_range _ _ _ Hb E1) as Rb. pose proof (mem_read_l_range _ _ _ Hb E2) as Rl.
    destruct (Hbuf _ _ eq_refl eq_refl) as [Hbl Hlen]. rewrite Z.min_l by lia.
    unfold bind at 1. rewrite read_bytes_spec by (try lia; rewrite Z2Nat.id by lia; exact Hbl).
    destruct (bytes_at s buf (Z.to_nat len)) as [bs|]; cbn [ISA.obind]; [|reflexivity].
    unfold bind at 1. destruct (utf8_valid bs); cbn [guard negb]; [|reflexivity].
    unfold bind, ret, modify, send_cpu_message. cbn [sock set_console console cbus].
    destruct (sock s); reflexivity.
Qed.

(* the installed vector word leads the interrupt entry to the handler address *)
Lemma handler_word_low24 addr : ((0x5a000000 + addr) mod 4294967296) mod 16777216 = addr mod 16777216.
Proof. lia. Qed.
