(* Register lanes: the mask-and-shift code of read/write_rn_b/w/l (model) equals the arithmetic
   register views of the reference (RnH / RnL, Rn / En, ERn), for every register field. *)
From Coq Require Import Bool ZArith Lia ZifyBool List.
From K Require Import Lib.Bits Lib.Types Model.Machine Model.Bus Model.Addressing Spec.ISA.
Open Scope bool_scope. Open Scope Z_scope.
Ltac Zify.zify_post_hook ::= Z.div_mod_to_equations.

Definition word32 (x : Z) : Prop := 0 <= x < 4294967296.
Definition regs_ok (s : cpu) : Prop := forall i, word32 (get_er (er s) i).

(* ---- reads ---- *)
Lemma read_rn_b_spec r s : 0 <= r < 16 -> read_rn_b r s = Ok (reg8 s r) s.
Proof.
  intros Hr. unfold read_rn_b, reg8, reg32.
  destruct ((0 <=? r) && (r <=? 7)) eqn:E.
  - assert (r <? 8 = true) as -> by lia. rewrite shiftr_div by lia. reflexivity.
  - assert ((8 <=? r) && (r <=? 15) = true) as -> by lia. assert (r <? 8 = false) as -> by lia. reflexivity.
Qed.
Lemma read_rn_w_spec r s : 0 <= r < 16 -> read_rn_w r s = Ok (reg16 s r) s.
Proof.
  intros Hr. unfold read_rn_w, reg16, reg32.
  destruct ((0 <=? r) && (r <=? 7)) eqn:E.
  - assert (r <? 8 = true) as -> by lia. reflexivity.
  - assert ((8 <=? r) && (r <=? 15) = true) as -> by lia. assert (r <? 8 = false) as -> by lia.
    rewrite shiftr_div by lia. reflexivity.
Qed.
Lemma read_rn_l_spec r s : 0 <= r < 8 -> read_rn_l r s = Ok (reg32 s r) s.
Proof. intros Hr. unfold read_rn_l, reg32. assert ((0 <=? r) && (r <=? 7) = true) as -> by lia. reflexivity. Qed.
Lemma read_rn_l_bad r s : 8 <= r -> read_rn_l r s = Err.
Proof. intros Hr. unfold read_rn_l. assert ((0 <=? r) && (r <=? 7) = false) as -> by lia. reflexivity. Qed.

(* ---- lane masks ---- *)
Lemma mask_byte_high x v : word32 x -> 0 <= v < 256 ->
  Z.lor (Z.land x 0xffff00ff) (Z.shiftl v 8) = x - ((x / 256) mod 256) * 256 + v * 256.
Proof.
  intros Hx Hv. unfold word32 in Hx.
  pose proof (land_split x 0xffff00ff 0xff00 32 eq_refl eq_refl ltac:(lia) ltac:(change (2^32) with 4294967296; lia)) as Hs.
  assert (Hm : Z.land x 0xff00 = ((x / 256) mod 256) * 256).
  { change 0xff00 with (255 * 2^8). rewrite land_shifted_mask by lia. change (2^8) with 256.
    change 255 with (2^8 - 1). rewrite land_ones_mod by lia. reflexivity. }
  rewrite Hm in Hs.
  assert (Hl : Z.land x 0xffff00ff = x - ((x / 256) mod 256) * 256) by lia.
  rewrite Hl, shiftl_mul by lia. change (2^8) with 256.
  rewrite lor_disjoint_add; [reflexivity|].
  rewrite <- Hl. change (v * 256) with (v * 2^8).
  rewrite land_shifted_mask by lia. change (2^8) with 256.
  assert (E : Z.land (Z.land x 0xffff00ff / 256) v = 0).
  { rewrite <- (shiftr_div _ 8) by lia. rewrite Z.shiftr_land. change (Z.shiftr 0xffff00ff 8) with 0xffff00.
    rewrite <- Z.land_assoc. change 0xffff00 with (0xffff * 2^8).
    rewrite land_high_low by (change (2^8) with 256; lia). apply Z.land_0_r. }
  rewrite E. reflexivity.
Qed.

Lemma mask_byte_low x v : word32 x -> 0 <= v < 256 ->
  Z.lor (Z.land x 0xffffff00) v = x - x mod 256 + v.
Proof.
  intros Hx Hv. unfold word32 in Hx.
  pose proof (land_split x 0xffffff00 0xff 32 eq_refl eq_refl ltac:(lia) ltac:(change (2^32) with 4294967296; lia)) as Hs.
  change 0xff with (2^8 - 1) in Hs. rewrite land_ones_mod in Hs by lia. change (2^8) with 256 in Hs.
  assert (Hl : Z.land x 0xffffff00 = x - x mod 256) by lia.
  rewrite lor_disjoint_add; [lia|].
  change 0xffffff00 with (0xffffff * 2^8). rewrite <- Z.land_assoc. rewrite land_high_low by (change (2^8) with 256; lia).
  apply Z.land_0_r.
Qed.

Lemma mask_word_low x v : word32 x -> 0 <= v < 65536 ->
  Z.lor (Z.land x 0xffff0000) v = x - x mod 65536 + v.
Proof.
  intros Hx Hv. unfold word32 in Hx.
  pose proof (land_split x 0xffff0000 0xffff 32 eq_refl eq_refl ltac:(lia) ltac:(change (2^32) with 4294967296; lia)) as Hs.
  change 0xffff with (2^16 - 1) in Hs. rewrite land_ones_mod in Hs by lia. change (2^16) with 65536 in Hs.
  rewrite lor_disjoint_add; [lia|].
  change 0xffff0000 with (0xffff * 2^16). rewrite <- Z.land_assoc. rewrite land_high_low by (change (2^16) with 65536; lia).
  apply Z.land_0_r.
Qed.

Lemma mask_word_high x v : word32 x -> 0 <= v < 65536 ->
  Z.lor (Z.land x 0x0000ffff) (Z.shiftl v 16) = x mod 65536 + v * 65536.
Proof.
  intros Hx Hv. change 0x0000ffff with (2^16 - 1). rewrite land_ones_mod by lia. change (2^16) with 65536.
  rewrite shiftl_mul by lia. change (2^16) with 65536.
  rewrite Z.lor_comm. change 65536 with (2^16) at 1. rewrite lor_high_low by (change (2^16) with 65536; lia).
  change (2^16) with 65536. lia.
Qed.

(* ---- writes ---- *)
Lemma write_rn_b_spec r v s : 0 <= r < 16 -> 0 <= v < 256 -> regs_ok s ->
  write_rn_b r v s = Ok tt (set_reg8 s r v).
Proof.
  intros Hr Hv Hs. unfold write_rn_b, set_reg8, set_reg32, reg32.
  destruct ((0 <=? r) && (r <=? 7)) eqn:E.
  - assert (r <? 8 = true) as -> by lia. rewrite mask_byte_high by (auto; apply Hs). reflexivity.
  - assert ((8 <=? r) && (r <=? 15) = true) as -> by lia. assert (r <? 8 = false) as -> by lia.
    rewrite mask_byte_low by (auto; apply Hs). reflexivity.
Qed.
Lemma write_rn_w_spec r v s : 0 <= r < 16 -> 0 <= v < 65536 -> regs_ok s ->
  write_rn_w r v s = Ok tt (set_reg16 s r v).
Proof.
  intros Hr Hv Hs. unfold write_rn_w, set_reg16, set_reg32, reg32.
  destruct ((0 <=? r) && (r <=? 7)) eqn:E.
  - assert (r <? 8 = true) as -> by lia. rewrite mask_word_low by (auto; apply Hs). reflexivity.
  - assert ((8 <=? r) && (r <=? 15) = true) as -> by lia. assert (r <? 8 = false) as -> by lia.
    rewrite mask_word_high by (auto; apply Hs). reflexivity.
Qed.
Lemma write_rn_l_spec r v s : 0 <= r < 8 -> write_rn_l r v s = Ok tt (set_reg32 s r v).
Proof. intros Hr. unfold write_rn_l, set_reg32. assert ((0 <=? r) && (r <=? 7) = true) as -> by lia. reflexivity. Qed.

(* ---- the register views are what they should be: only the named lane changes ---- *)
Lemma get_set_er rg i j v : 0 <= i < 8 -> 0 <= j < 8 -> get_er (set_er rg i v) j = if i =? j then v else get_er rg j.
Proof.
  intros Hi Hj. unfold get_er, set_er.
  repeat match goal with |- context [?a =? ?b] => destruct (Z.eqb_spec a b) end; cbn; try reflexivity; lia.
Qed.
