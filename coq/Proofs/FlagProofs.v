(* CCR bit access, condition table and bit-manipulation kernels: model (shift/mask style) = reference
   (arithmetic style).  The domains are finite (8 flags x 256 CCR values, 16 conditions, 256 byte values x
   8 bit numbers); the lemmas are finite sweeps by vm_compute lifted with forallb_forall, the bounds
   being part of every statement. *)
From Coq Require Import Bool ZArith Lia ZifyBool List.
From K Require Import Lib.Bits Lib.Types Model.Machine Model.Alu Model.Exec Spec.ISA.
Import ListNotations.
Open Scope bool_scope. Open Scope Z_scope.

Definition bools := [true; false].

Lemma in_bools b : In b bools.
Proof. destruct b; cbn; auto. Qed.

(* ---- ccr_put / ccr_get ---- *)
Definition ccr_put_ok (t : Z) : bool :=
  forallb (fun b => forallb (fun c => ccr_put t b c =? set_flag t b c) (zrange 256)) bools.

Lemma ccr_put_sweep : forallb ccr_put_ok (zrange 8) = true.
Proof. vm_compute. reflexivity. Qed.

Lemma ccr_put_spec t b c : 0 <= t < 8 -> 0 <= c < 256 -> ccr_put t b c = set_flag t b c.
Proof.
  intros Ht Hc.
  pose proof (forallb_zrange _ 8 ccr_put_sweep t Ht) as H1. unfold ccr_put_ok in H1.
  rewrite forallb_forall in H1. specialize (H1 b (in_bools b)).
  pose proof (forallb_zrange _ 256 H1 c Hc) as H2. now apply Z.eqb_eq.
Qed.

Definition ccr_get_ok (t : Z) : bool :=
  forallb (fun c => ccr_get t c =? (if flag c t then 1 else 0)) (zrange 256).
Lemma ccr_get_sweep : forallb ccr_get_ok (zrange 8) = true.
Proof. vm_compute. reflexivity. Qed.
Lemma ccr_get_spec t c : 0 <= t < 8 -> 0 <= c < 256 -> ccr_get t c = if flag c t then 1 else 0.
Proof.
  intros Ht Hc. pose proof (forallb_zrange _ 8 ccr_get_sweep t Ht) as H1.
  pose proof (forallb_zrange _ 256 H1 c Hc) as H2. now apply Z.eqb_eq.
Qed.

(* set_flag keeps the CCR a byte *)
Definition set_flag_range_ok (t : Z) : bool :=
  forallb (fun b => forallb (fun c => (0 <=? set_flag t b c) && (set_flag t b c <? 256)) (zrange 256)) bools.
Lemma set_flag_range_sweep : forallb set_flag_range_ok (zrange 8) = true.
Proof. vm_compute. reflexivity. Qed.
Lemma set_flag_range t b c : 0 <= t < 8 -> 0 <= c < 256 -> 0 <= set_flag t b c < 256.
Proof.
  intros Ht Hc. pose proof (forallb_zrange _ 8 set_flag_range_sweep t Ht) as H1. unfold set_flag_range_ok in H1.
  rewrite forallb_forall in H1. specialize (H1 b (in_bools b)).
  pose proof (forallb_zrange _ 256 H1 c Hc) as H2. lia.
Qed.

(* a flag write changes exactly that flag *)
Definition set_flag_frame_ok (t : Z) : bool :=
  forallb (fun b => forallb (fun c =>
    forallb (fun u => Bool.eqb (flag (set_flag t b c) u) (if u =? t then b else flag c u)) (zrange 8))
    (zrange 256)) bools.
Lemma set_flag_frame_sweep : forallb set_flag_frame_ok (zrange 8) = true.
Proof. vm_compute. reflexivity. Qed.
Lemma set_flag_frame t b c u : 0 <= t < 8 -> 0 <= c < 256 -> 0 <= u < 8 ->
  flag (set_flag t b c) u = if u =? t then b else flag c u.
Proof.
  intros Ht Hc Hu. pose proof (forallb_zrange _ 8 set_flag_frame_sweep t Ht) as H1. unfold set_flag_frame_ok in H1.
  rewrite forallb_forall in H1. specialize (H1 b (in_bools b)).
  pose proof (forallb_zrange _ 256 H1 c Hc) as H2.
  pose proof (forallb_zrange _ 8 H2 u Hu) as H3. now apply Bool.eqb_prop.
Qed.

(* ---- Bcc condition table: 16 conditions x 256 CCR values ---- *)
Definition cond_ok (cc : Z) : bool := forallb (fun c => Bool.eqb (cond cc c) (cond_ref cc c)) (zrange 256).
Lemma cond_sweep : forallb cond_ok (zrange 16) = true.
Proof. vm_compute. reflexivity. Qed.
Lemma cond_table_proof cc c : 0 <= cc < 16 -> 0 <= c < 256 -> cond cc c = cond_ref cc c.
Proof.
  intros H1 H2. pose proof (forallb_zrange _ 16 cond_sweep cc H1) as A.
  pose proof (forallb_zrange _ 256 A c H2) as B. now apply Bool.eqb_prop.
Qed.
