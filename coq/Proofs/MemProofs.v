(* Memory access helpers of the model (shift/mask byte splitting, lor composition) = the reference's
   arithmetic big-endian memory access, for all addresses and all values. *)
From Coq Require Import Bool ZArith Lia ZifyBool List.
From K Require Import Lib.Bits Lib.Types Model.Machine Model.Bus Model.Addressing Spec.ISA.
Open Scope bool_scope. Open Scope Z_scope.
Ltac Zify.zify_post_hook ::= Z.div_mod_to_equations.

Definition of_opt {A} (o : option A) (s0 : cpu) : outcome A := match o with Some a => Ok a s0 | None => Err end.
Definition bus_bytes_ok (s : cpu) : Prop := forall a v, bus_read (cbus s) a = Some v -> 0 <= v < 256.

(* ---- writes ---- *)
Lemma bwrite_put8 a v s : bwrite a v s = match put8 s a v with Some s' => Ok tt s' | None => Err end.
Proof. unfold bwrite, put8. destruct (bus_write (cbus s) a v); reflexivity. Qed.

Lemma write_w_spec a v s : 0 <= v < 65536 ->
  write_abs24_w a v s = match mem_write SW s a v with Some s' => Ok tt s' | None => Err end.
Proof.
  intros Hv. unfold write_abs24_w, bind. cbn [mem_write]. rewrite bwrite_put8.
  rewrite shiftr_div by lia. change (2^8) with 256.
  unfold ISA.obind. destruct (put8 s a ((v / 256) mod 256)) as [s1|]; [|reflexivity].
  now rewrite bwrite_put8.
Qed.

Lemma write_l_spec a v s : 0 <= v < 4294967296 ->
  write_abs24_l a v s = match mem_write SL s a v with Some s' => Ok tt s' | None => Err end.
Proof.
  intros Hv. unfold write_abs24_l, bind. cbn [mem_write].
  rewrite !shiftr_div by lia. change (2^16) with 65536.
  rewrite write_w_spec by lia. cbn [mem_write]. unfold ISA.obind.
  replace (((v / 65536) mod 65536 / 256) mod 256) with ((v / 16777216) mod 256) by lia.
  replace (((v / 65536) mod 65536) mod 256) with ((v / 65536) mod 256) by lia.
  destruct (put8 s a ((v / 16777216) mod 256)) as [s1|]; [|reflexivity].
  destruct (put8 s1 (a + 1) ((v / 65536) mod 256)) as [s2|]; [|reflexivity].
  rewrite write_w_spec by lia. cbn [mem_write]. unfold ISA.obind.
  replace ((v mod 65536 / 256) mod 256) with ((v / 256) mod 256) by lia.
  replace ((v mod 65536) mod 256) with (v mod 256) by lia.
  replace (a + 2 + 1) with (a + 3) by lia. reflexivity.
Qed.

(* ---- reads ---- *)
Lemma read_w_spec a s : bus_bytes_ok s ->
  read_abs24_w a s = match mem_read SW s a with Some v => Ok v s | None => Err end.
Proof.
  intros Hb. unfold read_abs24_w, bind, bread, ret. cbn [mem_read]. unfold mem8.
  destruct (bus_read (cbus s) a) as [b0|] eqn:E0; [|reflexivity].
  destruct (bus_read (cbus s) (a + 1)) as [b1|] eqn:E1; [|reflexivity].
  pose proof (Hb _ _ E1). f_equal.
  rewrite shiftl_mul by lia. change (2^8) with 256. change 256 with (2^8) at 1.
  rewrite lor_high_low by (change (2^8) with 256; lia). reflexivity.
Qed.

Lemma read_l_spec a s : bus_bytes_ok s ->
  read_abs24_l a s = match mem_read SL s a with Some v => Ok v s | None => Err end.
Proof.
  intros Hb. unfold read_abs24_l, bind, ret. rewrite read_w_spec by assumption. cbn [mem_read]. unfold mem8.
  destruct (bus_read (cbus s) a) as [b0|] eqn:E0; [|reflexivity].
  destruct (bus_read (cbus s) (a + 1)) as [b1|] eqn:E1; [|reflexivity].
  rewrite read_w_spec by assumption. cbn [mem_read]. unfold mem8.
  replace (a + 2 + 1) with (a + 3) by lia.
  destruct (bus_read (cbus s) (a + 2)) as [b2|] eqn:E2; [|reflexivity].
  destruct (bus_read (cbus s) (a + 3)) as [b3|] eqn:E3; [|reflexivity].
  pose proof (Hb _ _ E1). pose proof (Hb _ _ E2). pose proof (Hb _ _ E3). f_equal.
  rewrite shiftl_mul by lia. change (2^16) with 65536. change 65536 with (2^16) at 1.
  rewrite lor_high_low by (change (2^16) with 65536; lia). change (2^16) with 65536. lia.
Qed.
