(* The run loop with the 8-bit timer RUNNING (C13 + C10 + C17): every iteration of the model's run() loop is
   the reference's boundary acceptance, one reference instruction, the accounting, and then the timer fed with
   exactly the states just charged - whose requests join the pending queue and are accepted at later boundaries.
   This removes the `timer_stopped` hypothesis of RunIrq: the invariant `state_ok` is preserved by the timer. *)
From Coq Require Import Bool ZArith Lia ZifyBool List.
From K Require Import Lib.Bits Lib.Types Model.Machine Model.Bus Model.Cost Model.Addressing Model.Alu Model.Exec Model.Periph Model.Run
  Spec.MemMap Spec.Price Spec.ISA Spec.Domains Spec.TimerSpec
  Proofs.PriceProofs Proofs.RegProofs Proofs.MemProofs Proofs.FlagProofs Proofs.StepProofs Proofs.CtlProofs Proofs.MovProofs Proofs.IrqProofs
  Proofs.StepRefines Proofs.StepRefinesCtl Proofs.ChargeProofs Proofs.ChargeTotals Proofs.RefStep Proofs.FrameRest Proofs.Preserve Proofs.RunPlain
  Proofs.RunIrq Proofs.TimerProofs Proofs.ExampleState.
Import ListNotations.
Open Scope bool_scope. Open Scope Z_scope.
Ltac Zify.zify_post_hook ::= Z.div_mod_to_equations.

(* ---- bytes stay bytes under the timer's register updates ---- *)
Definition bus_ok (b : bus) : Prop :=
  (forall a v, bus_read b a = Some v -> 0 <= v < 256) /\ PriceProofs.bytes_ok b.

Lemma lor_byte x m : 0 <= x < 256 -> 0 <= m < 256 -> 0 <= Z.lor x m < 256.
Proof.
  intros Hx Hm. split; [apply Z.lor_nonneg; lia|].
  destruct (Z.eq_dec (Z.lor x m) 0) as [E|E]; [lia|].
  assert (P : 0 < Z.lor x m) by (pose proof (proj2 (Z.lor_nonneg x m) (conj (proj1 Hx) (proj1 Hm))); lia).
  change 256 with (2 ^ 8). apply Z.log2_lt_pow2; [exact P|].
  rewrite Z.log2_lor by lia.
  assert (Lx : Z.log2 x < 8) by (destruct (Z.eq_dec x 0) as [->|N]; [cbn; lia|apply Z.log2_lt_pow2; [lia|change (2 ^ 8) with 256; lia]]).
  assert (Lm : Z.log2 m < 8) by (destruct (Z.eq_dec m 0) as [->|N]; [cbn; lia|apply Z.log2_lt_pow2; [lia|change (2 ^ 8) with 256; lia]]).
  lia.
Qed.

Lemma io2_get_byte b a : IO2_START <= a <= IO2_END -> bus_ok b -> 0 <= io2_get b a < 256.
Proof.
  intros Ha [H _]. apply (H a). unfold bus_read, io2_get, inr, VEC_START, VEC_END, IO1_START, IO1_END, DRAM_START, DRAM_END,
    RAM_START, RAM_END, IO2_START, IO2_END in *.
  replace ((0 <=? a) && (a <=? 255)) with false by lia. replace ((16703488 <=? a) && (a <=? 16703743)) with false by lia.
  replace ((4194304 <=? a) && (a <=? 6291455)) with false by lia. replace ((16760608 <=? a) && (a <=? 16776991)) with false by lia.
  replace ((16776992 <=? a) && (a <=? 16777193)) with true by lia. reflexivity.
Qed.

Lemma io2_set_ok b a v : IO2_START <= a <= IO2_END -> 0 <= v < 256 -> bus_ok b -> bus_ok (io2_set b a v).
Proof.
  intros Ha Hv [H Hb]. split.
  - intros x w. specialize (H x). unfold bus_read, io2_set in *. cbn [b_vec b_io1 b_dram b_ram b_io2 bset_io2].
    destruct (inr VEC_START VEC_END x); [exact (H w)|].
    destruct (inr IO1_START IO1_END x); [exact (H w)|].
    destruct (inr DRAM_START DRAM_END x); [exact (H w)|].
    destruct (inr RAM_START RAM_END x); [exact (H w)|].
    destruct (inr IO2_START IO2_END x) eqn:E; [|exact (H w)].
    unfold inr, IO2_START, IO2_END in *. rewrite sget_sset by lia.
    destruct (a - 16776992 =? x - 16776992); [intros Q; inversion Q; subst; exact Hv|exact (H w)].
  - intros x Hx. unfold reg, io2_set. cbn [b_io1 bset_io2]. exact (Hb x Hx).
Qed.

Lemma timer_tick_ok t b : bus_ok b -> bus_ok (fst (timer_tick t b)).
Proof.
  intros H. unfold timer_tick. cbv zeta. cbn [fst].
  pose proof (io2_get_byte b TCSR0 ltac:(unfold TCSR0, IO2_START, IO2_END; lia) H) as Hs.
  pose proof (io2_get_byte b TCNT0 ltac:(unfold TCNT0, IO2_START, IO2_END; lia) H) as Hc.
  apply io2_set_ok; [unfold TCSR0, IO2_START, IO2_END; lia| |apply io2_set_ok; [unfold TCNT0, IO2_START, IO2_END; lia| |exact H]].
  - assert (A : forall c x m, 0 <= x < 256 -> 0 <= m < 256 -> 0 <= (if c : bool then Z.lor x m else x) < 256)
      by (intros c x m Hx Hm; destruct c; [apply lor_byte; assumption|exact Hx]).
    apply A; [apply A; [apply A; [exact Hs|lia]|lia]|lia].
  - repeat match goal with |- context [if ?c then _ else _] => destruct c end; lia.
Qed.

Lemma timer_ticks_ok n t : forall b, bus_ok b -> bus_ok (fst (timer_ticks n t b)).
Proof.
  induction n as [|k IH]; intros b H; cbn [timer_ticks]; [exact H|].
  pose proof (timer_tick_ok t b H) as H1. destruct (timer_tick t b) as [b1 r1]. cbn [fst] in H1.
  specialize (IH b1 H1). destruct (timer_ticks k t b1) as [b2 r2]. exact IH.
Qed.

Lemma bset_tmr_ok x b : bus_ok b -> bus_ok (bset_tmr x b).
Proof. intros [H Hb]. split; [exact H|exact Hb]. Qed.

Theorem update_timer_state_ok n s : state_ok s -> state_ok (update_timer n s).
Proof.
  intros (Hok & Hb & Hbo & Hf). unfold update_timer.
  destruct (t_presc (b_tmr (cbus s)) =? 0); [exact (conj Hok (conj Hb (conj Hbo Hf)))|].
  pose proof (timer_ticks_ok (Z.to_nat ((t_state (b_tmr (cbus s)) + n) / t_presc (b_tmr (cbus s)))) (b_tmr (cbus s)) (cbus s) (conj Hb Hbo)) as H.
  destruct (timer_ticks _ _ _) as [b1 rq]. cbn [fst] in H.
  apply (bset_tmr_ok (mkTimer (t_state (b_tmr (cbus s)) + n - t_presc (b_tmr (cbus s)) * ((t_state (b_tmr (cbus s)) + n) / t_presc (b_tmr (cbus s))))
           (t_presc (b_tmr (cbus s))) (t_cmib (b_tmr (cbus s))) (t_cmia (b_tmr (cbus s))) (t_ovi (b_tmr (cbus s))) (t_clear (b_tmr (cbus s))))) in H.
  destruct H as [H1 H2].
  split; [exact Hok|split; [exact H1|split; [exact H2|exact Hf]]].
Qed.

(* ---- one iteration of the reference with the timer: boundary, instruction, accounting, elapsed states ---- *)
Definition tmr_iter (s : cpu) (sync : Z) : option (cpu * Z) :=
  match accept_boundary s with
  | Some s1 =>
    match ref_decode s1 with
    | Some (i, len) =>
      if dom_c20 i len s1 && side_okb i s1 then
        match sem_ref i len s1 with
        | Some s' =>
          let '(s4, sync2) := account (set_opc (pc s1 + len - 2) s') (charge_ref i len s1) sync in
          Some (update_timer (charge_ref i len s1 * 3) s4, sync2)
        | None => None
        end
      else None
    | None => None
    end
  | None => None
  end.

Fixpoint tmr_run (fuel : nat) (s : cpu) (sync : Z) : option cpu :=
  match fuel with
  | O => None
  | S k =>
    match tmr_iter s sync with
    | Some (s5, sync2) => if pc s5 =? exit_addr s5 then Some s5 else tmr_run k s5 sync2
    | None => None
    end
  end.

Theorem iter_insn_tmr s sync s5 sync2 :
  state_ok s -> tmr_iter s sync = Some (s5, sync2) ->
  iter_insn s sync false = (if pc s5 =? exit_addr s5 then Finished s5 else Continue (mkR (mkCtl s5 false false) sync2))
  /\ state_ok s5.
Proof.
  intros Hst0 H. unfold tmr_iter in H.
  destruct (accept_boundary s) as [s1|] eqn:Hbd; [|discriminate].
  destruct (try_interrupt_is_boundary s s1 Hst0 Hbd) as (Htry & Hst & _).
  destruct (ref_decode s1) as [[i len]|] eqn:Hdec; [|discriminate].
  destruct (dom_c20 i len s1 && side_okb i s1) eqn:Hd; [|discriminate].
  apply andb_true_iff in Hd. destruct Hd as [Hdom Hside]. apply side_okb_ok in Hside.
  destruct (sem_ref i len s1) as [s'|] eqn:Hsem; [|discriminate].
  pose proof (step_is_ref_step_proof s1 i len s' Hst Hdec Hside Hdom Hsem) as Hstep.
  pose proof (step_preserves_state_ok s1 i len s' _ _ Hst Hdec Hside Hdom Hsem Hstep) as Hst1.
  set (s2 := set_opc (pc s1 + len - 2) s') in *.
  destruct (account s2 (charge_ref i len s1) sync) as [s4 sy] eqn:Hacc.
  inversion H; subst s5 sync2; clear H.
  destruct (account_rest s2 (charge_ref i len s1) sync s4 sy Hacc) as (_ & _ & A5).
  split; [|apply update_timer_state_ok; exact (A5 Hst1)].
  unfold iter_insn. rewrite Htry. rewrite Hstep. fold s2.
  unfold account in Hacc. cbv zeta in Hacc.
  destruct (SYNC_INTERVAL <=? sync + charge_ref i len s1 * 3) eqn:Esy; inversion Hacc; subst s4 sy; reflexivity.
Qed.

Theorem run_iters_tmr fuel : forall s sync sf,
  state_ok s -> tmr_run fuel s sync = Some sf ->
  run_iters fuel [] (mkR (mkCtl s false false) sync) = Some (Finished sf) /\ state_ok sf.
Proof.
  induction fuel as [|k IH]; intros s sync sf Hst H; cbn [tmr_run] in H; [discriminate|].
  destruct (tmr_iter s sync) as [[s5 sync2]|] eqn:Hit; [|discriminate].
  destruct (iter_insn_tmr s sync s5 sync2 Hst Hit) as (Hi & Hst5).
  cbn [run_iters]. rewrite iter_no_lines by reflexivity. cbn [r_ctl c_cpu r_sync]. rewrite Hi.
  destruct (pc s5 =? exit_addr s5).
  - inversion H; subst. split; [reflexivity|exact Hst5].
  - exact (IH s5 sync2 sf Hst5 H).
Qed.

(* ---- a state with the timer running (non-vacuity): prescaler 8, phase 6, all three interrupt enables set ---- *)
Definition ex_state_tmr (ex : Z) : cpu :=
  set_bus (bset_tmr (mkTimer 6 8 true true true 1) (cbus (ex_state ex))) (ex_state ex).
Lemma ex_state_tmr_ok ex : state_ok (ex_state_tmr ex).
Proof.
  apply (state_ok_same (ex_state ex) (ex_state_tmr ex)); [right; repeat split; reflexivity|reflexivity|reflexivity|reflexivity|apply ex_state_ok].
Qed.
