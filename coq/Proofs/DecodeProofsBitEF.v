(* second-word sweep of the bit-instruction prefixes (part EF) *)
From Coq Require Import Bool ZArith List.
From K Require Import Lib.Bits Lib.Types Model.Exec Spec.ISA Proofs.DecodeProofs.
Import ListNotations.
Open Scope Z_scope.
Definition prefix_bit_EF : list Z := [0x7e00; 0x7e5a; 0x7eff; 0x7f00; 0x7f5a; 0x7fff].
Lemma bit_sweep_EF : forallb (fun w0 => forallb (agree2 w0 (select_bit w0) 0) (zrange 65536)) prefix_bit_EF = true.
Proof. vm_compute. reflexivity. Qed.
