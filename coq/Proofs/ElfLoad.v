(* The loader as a whole (C11, C12): from zeroed DRAM, load produces the expected image and environment. *)
From Coq Require Import Bool ZArith Lia List.
From K Require Import Lib.Types Lib.Bits Model.Machine Model.Bus Model.Elf Spec.ElfSpec Proofs.ElfProofs.
Import ListNotations.
Open Scope bool_scope. Open Scope Z_scope.
Ltac Zify.zify_post_hook ::= Z.div_mod_to_equations.

Lemma OFF_val : OFF = 0x16900. Proof. reflexivity. Qed.
Lemma BASE_DS : BASE - DRAM_START = OFF. Proof. reflexivity. Qed.
Lemma up4_ge a : a <= up4 a. Proof. unfold up4. lia. Qed.
Lemma up4_lt a : up4 a < a + 4. Proof. unfold up4. lia. Qed.
Lemma align4_up4 a : align4 (a + 3) = up4 a. Proof. reflexivity. Qed.

Ltac btrue := symmetry; apply andb_true_iff; split; lia.
Ltac bfalse := symmetry; apply andb_false_iff; lia.

(* the expected DRAM byte, spelled out *)
Definition xdram (f args : list Z) (got stk : option shdr) (j : Z) : Z :=
  x_dram (expected_with f args regs0 0 got stk None) j.
Lemma x_dram_xdram f args er0 exit0 got stk symt j :
  x_dram (expected_with f args er0 exit0 got stk symt) j = xdram f args got stk j.
Proof. reflexivity. Qed.

Lemma xdram_nostack f args got j : xdram f args got None j = if OFF <=? j then image_byte f (ref_phdrs f) got (j - OFF) else 0.
Proof.
  unfold xdram, expected_with. cbn [x_dram length]. change (BASE - DRAM_START) with OFF.
  replace ((0 <=? j) && (j <? 0 + Z.of_nat 0)) with false by bfalse. reflexivity.
Qed.

Lemma xdram_stack f args got s j : xdram f args got (Some s) j =
  let lo := argv_at (ref_phdrs f) s - DRAM_START in
  let blk := arg_block (argv_at (ref_phdrs f) s) (argv_words args) in
  if (lo <=? j) && (j <? lo + Z.of_nat (length blk)) then nth (Z.to_nat (j - lo)) blk 0
  else if OFF <=? j then image_byte f (ref_phdrs f) got (j - OFF) else 0.
Proof. reflexivity. Qed.

Lemma block_above_image f s : 0 <= sh_addr s ->
  OFF + img_end (ref_phdrs f) <= argv_at (ref_phdrs f) s - DRAM_START.
Proof.
  intros H. unfold argv_at, stack_end, TCB. pose proof (up4_ge (BASE + img_end (ref_phdrs f) + sh_addr s)).
  pose proof (up4_ge (up4 (BASE + img_end (ref_phdrs f) + sh_addr s) + 88)).
  change OFF with (BASE - DRAM_START). lia.
Qed.

(* ---- .got ---- *)
Lemma got_step f args stk g b1 d :
  Forall (load_ok f) (ref_phdrs f) ->
  0 <= sh_addr g -> 0 <= sh_size g -> got_hi g <= extent (ref_phdrs f) ->
  (forall s, stk = Some s -> 0 <= sh_addr s /\ extent (ref_phdrs f) <= img_end (ref_phdrs f)) ->
  (forall j, 0 <= j -> sget d j = xdram f args None stk j) ->
  exists d', relocate_got (bset_dram d b1) (OFF + sh_addr g) (Z.to_nat (sh_size g / 4)) = Some (bset_dram d' b1) /\
    forall j, 0 <= j -> sget d' j = xdram f args (Some g) stk j.
Proof.
  intros Hloads Ha Hs Hhi Hstk Hd.
  pose proof (extent_le_top f _ Hloads) as Htop.
  assert (Hgh : got_hi g = sh_addr g + 4 * Z.of_nat (Z.to_nat (sh_size g / 4))) by (unfold got_hi; lia).
  destruct (relocate_got_spec (Z.to_nat (sh_size g / 4)) (bset_dram d b1) (OFF + sh_addr g)) as [d' [Hr Hd']].
  { rewrite OFF_val. lia. } { lia. }
  exists d'. split; [rewrite Hr; reflexivity|].
  intros j Hj. rewrite Hd' by lia. rewrite b_dram_bset.
  assert (Hword : forall e, OFF + sh_addr g <= e -> e + 3 < OFF + got_hi g ->
            wordz (sget d) e = file_byte f (ref_phdrs f) (e - OFF) * 16777216 + file_byte f (ref_phdrs f) (e - OFF + 1) * 65536
                               + file_byte f (ref_phdrs f) (e - OFF + 2) * 256 + file_byte f (ref_phdrs f) (e - OFF + 3)).
  { intros e He1 He2. unfold wordz.
    assert (Hone : forall k, 0 <= k <= 3 -> sget d (e + k) = file_byte f (ref_phdrs f) (e - OFF + k)).
    { intros k Hk. rewrite Hd by (rewrite OFF_val in *; lia).
      destruct stk as [s|].
      - rewrite xdram_stack. cbv zeta. pose proof (block_above_image f s (proj1 (Hstk s eq_refl))). pose proof (proj2 (Hstk s eq_refl)).
        replace ((argv_at (ref_phdrs f) s - DRAM_START <=? e + k) && _) with false by bfalse.
        replace (OFF <=? e + k) with true by lia. unfold image_byte. f_equal. lia.
      - rewrite xdram_nostack. replace (OFF <=? e + k) with true by lia. unfold image_byte. f_equal. lia. }
    rewrite <- (Hone 1), <- (Hone 2), <- (Hone 3) by lia. pose proof (Hone 0 ltac:(lia)) as H0.
    replace (e + 0) with e in H0 by lia. replace (e - OFF + 0) with (e - OFF) in H0 by lia. rewrite H0. reflexivity. }
  destruct ((OFF + sh_addr g <=? j) && (j <? OFF + sh_addr g + 4 * Z.of_nat (Z.to_nat (sh_size g / 4)))) eqn:E.
  - apply andb_true_iff in E. destruct E as [E1 E2].
    set (e := OFF + sh_addr g + 4 * ((j - (OFF + sh_addr g)) / 4)).
    rewrite (Hword e) by (subst e; lia).
    assert (Himg : image_byte f (ref_phdrs f) (Some g) (j - OFF) =
                   byte_of ((file_byte f (ref_phdrs f) (e - OFF) * 16777216 + file_byte f (ref_phdrs f) (e - OFF + 1) * 65536
                               + file_byte f (ref_phdrs f) (e - OFF + 2) * 256 + file_byte f (ref_phdrs f) (e - OFF + 3) + BASE) mod 4294967296)
                           ((j - (OFF + sh_addr g)) mod 4)).
    { unfold image_byte. unfold got_lo. replace ((sh_addr g <=? j - OFF) && (j - OFF <? got_hi g)) with true by btrue.
      replace (sh_addr g + 4 * ((j - OFF - sh_addr g) / 4)) with (e - OFF) by (subst e; lia).
      replace ((j - OFF - sh_addr g) mod 4) with ((j - (OFF + sh_addr g)) mod 4) by (f_equal; lia). reflexivity. }
    destruct stk as [s|].
    + rewrite xdram_stack. cbv zeta. pose proof (block_above_image f s (proj1 (Hstk s eq_refl))). pose proof (proj2 (Hstk s eq_refl)).
      replace ((argv_at (ref_phdrs f) s - DRAM_START <=? j) && _) with false by bfalse.
      replace (OFF <=? j) with true by lia. now rewrite Himg.
    + rewrite xdram_nostack. replace (OFF <=? j) with true by lia. now rewrite Himg.
  - apply andb_false_iff in E. rewrite Hd by lia.
    assert (Himg : image_byte f (ref_phdrs f) (Some g) (j - OFF) = image_byte f (ref_phdrs f) None (j - OFF)).
    { unfold image_byte, got_lo. replace ((sh_addr g <=? j - OFF) && (j - OFF <? got_hi g)) with false by bfalse. reflexivity. }
    destruct stk as [s|].
    + rewrite !xdram_stack. cbv zeta. now rewrite Himg.
    + rewrite !xdram_nostack. now rewrite Himg.
Qed.

(* ---- .stack ---- *)
Lemma image_byte_above f got a :
  Forall (load_ok f) (ref_phdrs f) -> (forall g, got = Some g -> got_hi g <= extent (ref_phdrs f)) ->
  extent (ref_phdrs f) <= a -> image_byte f (ref_phdrs f) got a = 0.
Proof.
  intros Hl Hg Ha. unfold image_byte. destruct got as [g|]; [|now apply file_byte_above].
  specialize (Hg g eq_refl). replace ((got_lo g <=? a) && (a <? got_hi g)) with false by bfalse. now apply file_byte_above.
Qed.

Lemma stack_step f args got s b1 d :
  Forall (load_ok f) (ref_phdrs f) ->
  0 <= sh_addr s -> (forall g, got = Some g -> got_hi g <= extent (ref_phdrs f)) ->
  extent (ref_phdrs f) <= img_end (ref_phdrs f) ->
  argv_at (ref_phdrs f) s - DRAM_START + Z.of_nat (length (arg_block (argv_at (ref_phdrs f) s) (argv_words args))) <= DRAM_SIZE ->
  (forall j, 0 <= j -> sget d j = xdram f args got None j) ->
  exists d', put_args (bset_dram d b1) (argv_at (ref_phdrs f) s)
                      (argv_at (ref_phdrs f) s + 4 * (Z.of_nat (length (argv_words args)) + 1)) (argv_words args) = Some (bset_dram d' b1) /\
    forall j, 0 <= j -> sget d' j = xdram f args got (Some s) j.
Proof.
  intros Hl Ha Hg Hext Hfit Hd.
  pose proof (block_above_image f s Ha) as Hab. pose proof (img_end_nonneg (ref_phdrs f)) as Hin.
  rewrite length_arg_block in Hfit. pose proof (strs_len_nonneg (argv_words args)) as Hsn.
  destruct (arg_block_dram (argv_words args) (bset_dram d b1) (argv_at (ref_phdrs f) s)) as [d' [Hp Hd']].
  { rewrite OFF_val in Hab. lia. }
  { lia. }
  { intros j Hj. rewrite b_dram_bset. rewrite Hd by (rewrite OFF_val in Hab; lia). rewrite xdram_nostack.
    replace (OFF <=? j) with true by lia. apply image_byte_above; [assumption|assumption|lia]. }
  exists d'. split; [rewrite Hp; reflexivity|].
  intros j Hj. rewrite Hd' by lia. rewrite b_dram_bset. rewrite xdram_stack. cbv zeta.
  destruct ((argv_at (ref_phdrs f) s - DRAM_START <=? j) && _); [reflexivity|].
  rewrite Hd by lia. apply xdram_nostack.
Qed.

(* ---- .symtab ---- *)
Lemma find_map {A B} (p : B -> bool) (g : A -> B) l : find p (map g l) = option_map g (find (fun k => p (g k)) l).
Proof. induction l as [|x l IH]; [reflexivity|]. cbn [map find]. destruct (p (g x)); [reflexivity|exact IH]. Qed.

Lemma zrange_from_bounds : forall n s k, In k (zrange_from s n) -> s <= k < s + Z.of_nat n.
Proof.
  induction n as [|n IH]; intros s k H; [contradiction|]. cbn [zrange_from] in H.
  destruct H as [<-|H]; [lia|]. specialize (IH _ _ H). lia.
Qed.

Lemma exit_value_nonneg f sy v : bytes_ok f -> exit_value f sy = Some v -> 0 <= v.
Proof.
  intros Hb H. unfold exit_value in H. destruct (find _ _) as [k|]; [|discriminate]. injection H as <-.
  unfold ref_sym. cbn [st_value]. apply at32_range. assumption.
Qed.

Lemma symtab_step f sy st :
  bytes_ok f ->
  0 <= sh_offset sy -> 0 <= sh_size sy -> 0 <= sh_link sy ->
  sh_entsize sy = 16 -> sh_offset sy + sh_size sy <= flen f ->
  sh_link sy < e_shnum (ref_ehdr f) -> sh_offset (ref_shdr f (sh_link sy)) <= flen f ->
  forallb (fun k => st_name (ref_sym f (sh_offset sy) k) + sh_offset (ref_shdr f (sh_link sy)) <=? flen f)
          (zrange (Z.to_nat (sh_size sy / 16))) = true ->
  (if sh_entsize sy =? 0 then None else
   match slice_from f (sh_offset sy), nth_error (ref_shdrs f) (Z.to_nat (sh_link sy)) with
   | Some sl, Some strh =>
     match rd_count (Z.to_nat (sh_size sy / sh_entsize sy)) parse_symbol32 sl, slice_from f (sh_offset strh) with
     | Some (syms, _), Some strs => fold_left (sym_step strs) syms (Some st)
     | _, _ => None
     end
   | _, _ => None
   end) =
  Some (mkL (l_bus st) (l_er st)
            (match exit_value f sy with Some v => (v + PROGRAM_START_ADDR) mod 4294967296 | None => l_exit st end)).
Proof.
  intros Hb Hso Hsz0 Hl0 Hent Hsz Hlink Hstr Hnames.
  rewrite Hent. change (16 =? 0) with false. cbv iota.
  rewrite slice_from_ok by lia. rewrite nth_error_ref_shdrs by lia.
  set (stroff := sh_offset (ref_shdr f (sh_link sy))) in *.
  assert (Hst0 : 0 <= stroff) by (subst stroff; unfold ref_shdr; cbn [sh_offset]; apply at32_range; assumption).
  set (n := Z.to_nat (sh_size sy / 16)) in *.
  pose proof (rd_count_table parse_symbol32 (sym_at f) 16 f ltac:(lia) (parse_sym_at f) n (sh_offset sy) 0 Hso ltac:(lia)) as Hrd.
  replace (sh_offset sy + 16 * 0) with (sh_offset sy) in Hrd by lia.
  rewrite Hrd by (subst n; lia). clear Hrd.
  rewrite slice_from_ok by lia.
  rewrite sym_fold.
  - f_equal. f_equal. unfold exit_value. rewrite Hent. fold n. fold stroff.
    rewrite <- map_rev. rewrite find_map. unfold zrange.
    unfold is_exit_sym, sym_at, ref_sym. cbn [st_name st_value].
    destruct (find _ (rev (zrange_from 0 n))) as [k|]; reflexivity.
  - exact Hst0.
  - rewrite Forall_forall. intros sy0 Hin. apply in_map_iff in Hin. destruct Hin as [k [<- Hk]].
    rewrite forallb_forall in Hnames. specialize (Hnames k Hk).
    split; [unfold sym_at; cbn [st_name]; apply at32_range; assumption|].
    unfold ref_sym in Hnames. unfold sym_at. cbn [st_name] in *. lia.
Qed.

(* ------------------------------------------------------------------ the sections, in any order *)
Record WFacts (f args : list Z) : Prop := {
  wf_bytes : bytes_ok f;
  wf_loads : Forall (load_ok f) (ref_phdrs f);
  wf_u_got : (count_named f n_got <= 1)%nat;
  wf_u_stack : (count_named f n_stack <= 1)%nat;
  wf_u_sym : (count_named f n_symtab <= 1)%nat;
  wf_got : forall g, find_sec f n_got = Some g -> got_hi g <= extent (ref_phdrs f) /\ BASE + sh_addr g < 4294967296;
  wf_stack : forall s, find_sec f n_stack = Some s ->
      extent (ref_phdrs f) <= img_end (ref_phdrs f) /\
      8 <= stack_end (ref_phdrs f) s /\
      argv_at (ref_phdrs f) s - DRAM_START + Z.of_nat (length (arg_block (argv_at (ref_phdrs f) s) (argv_words args))) <= DRAM_SIZE;
  wf_sym : forall sy, find_sec f n_symtab = Some sy ->
      sh_entsize sy = 16 /\ sh_offset sy + sh_size sy <= flen f /\ sh_link sy < e_shnum (ref_ehdr f) /\
      sh_offset (ref_shdr f (sh_link sy)) <= flen f /\
      forallb (fun k => st_name (ref_sym f (sh_offset sy) k) + sh_offset (ref_shdr f (sh_link sy)) <=? flen f)
              (zrange (Z.to_nat (sh_size sy / 16))) = true /\
      match exit_value f sy with Some v => BASE + v < 4294967296 | None => True end
}.

Definition flagged (f : list Z) (nm : list Z) (P : list shdr) : option shdr :=
  if existsb (name_is f nm) P then find_sec f nm else None.

Definition Xp (f args : list Z) (er0 : regs) (exit0 : Z) (P : list shdr) : expected :=
  expected_with f args er0 exit0 (flagged f n_got P) (flagged f n_stack P) (flagged f n_symtab P).

Definition Inv (f args : list Z) (er0 : regs) (exit0 : Z) (b1 : bus) (P : list shdr) (st : lstate) : Prop :=
  (exists d, l_bus st = bset_dram d b1 /\ forall j, 0 <= j -> sget d j = x_dram (Xp f args er0 exit0 P) j) /\
  l_er st = x_er (Xp f args er0 exit0 P) /\ l_exit st = x_exit (Xp f args er0 exit0 P).

Lemma shdr_fields_nonneg f sh : bytes_ok f -> In sh (ref_shdrs f) ->
  0 <= sh_name sh /\ 0 <= sh_addr sh /\ 0 <= sh_offset sh /\ 0 <= sh_size sh /\ 0 <= sh_link sh.
Proof.
  intros Hb Hin. unfold ref_shdrs in Hin. apply in_map_iff in Hin. destruct Hin as [k [<- _]].
  unfold ref_shdr. cbn [sh_name sh_addr sh_offset sh_size sh_link].
  repeat split; apply at32_range; assumption.
Qed.

Lemma find_sec_in f nm sh : find_sec f nm = Some sh -> In sh (ref_shdrs f) /\ name_is f nm sh = true.
Proof. intros H. apply find_some in H. exact H. Qed.

Lemma set_er_comm_stack r a b c v :
  set_er (set_er (set_er (set_er r 7 a) 0 b) 1 c) 5 v = set_er (set_er (set_er (set_er r 5 v) 7 a) 0 b) 1 c.
Proof. destruct r; reflexivity. Qed.

Lemma name_is_sec f nm sh n : sec_name f sh = Some nm -> name_is f n sh = bytes_eq nm n.
Proof. intros H. unfold name_is. now rewrite H. Qed.

Lemma flagged_other f n P sh : name_is f n sh = false -> flagged f n (P ++ [sh]) = flagged f n P.
Proof. intros H. unfold flagged. rewrite existsb_app_one, H, orb_false_r. reflexivity. Qed.

Lemma flagged_new f n P sh rest : ref_shdrs f = P ++ sh :: rest -> (count_named f n <= 1)%nat -> name_is f n sh = true ->
  flagged f n P = None /\ flagged f n (P ++ [sh]) = Some sh /\ find_sec f n = Some sh.
Proof.
  intros Hsplit Hu Hn. unfold count_named in Hu. rewrite Hsplit in Hu.
  destruct (unique_named (name_is f n) P sh rest Hu Hn) as [He Hf].
  unfold flagged. rewrite He. rewrite existsb_app_one, Hn, orb_true_r. unfold find_sec. rewrite Hsplit. auto.
Qed.

Lemma flagged_in f n P s : flagged f n P = Some s -> find_sec f n = Some s.
Proof. unfold flagged. destruct (existsb _ P); [auto|discriminate]. Qed.

Lemma section_step f args er0 exit0 b1 P sh rest nm st :
  WFacts f args -> ref_shdrs f = P ++ sh :: rest -> sec_name f sh = Some nm ->
  Inv f args er0 exit0 b1 P st ->
  exists st', do_section f (ref_shdrs f) (ref_phdrs f) args nm sh st = Some st' /\ Inv f args er0 exit0 b1 (P ++ [sh]) st'.
Proof.
  intros W Hsplit Hnm [[d [Hbus Hd]] [Her Hex]].
  assert (Hin : In sh (ref_shdrs f)) by (rewrite Hsplit; apply in_or_app; right; left; reflexivity).
  destruct (shdr_fields_nonneg f sh (wf_bytes _ _ W) Hin) as (Hn0 & Ha0 & Ho0 & Hs0 & Hl0).
  assert (Hstk_nonneg : forall s, flagged f n_stack P = Some s -> 0 <= sh_addr s /\ extent (ref_phdrs f) <= img_end (ref_phdrs f)).
  { intros s Hs. apply flagged_in in Hs. split; [|apply (wf_stack _ _ W s Hs)]. apply find_sec_in in Hs. destruct Hs as [Hs _].
    apply (shdr_fields_nonneg f s (wf_bytes _ _ W) Hs). }
  assert (Hgot_hi : forall g, flagged f n_got P = Some g -> got_hi g <= extent (ref_phdrs f)).
  { intros g Hg. apply flagged_in in Hg. apply (wf_got _ _ W g Hg). }
  unfold do_section.
  destruct (bytes_eq nm n_got) eqn:Egot.
  { (* .got *)
    assert (Hname : name_is f n_got sh = true) by (rewrite (name_is_sec f nm sh n_got Hnm); exact Egot).
    destruct (flagged_new f n_got P sh rest Hsplit (wf_u_got _ _ W) Hname) as (Fold & Fnew & Ffind).
    apply bytes_eq_eq in Egot. subst nm.
    assert (Fs : flagged f n_stack (P ++ [sh]) = flagged f n_stack P) by (apply flagged_other; rewrite (name_is_sec f _ sh _ Hnm); reflexivity).
    assert (Fy : flagged f n_symtab (P ++ [sh]) = flagged f n_symtab P) by (apply flagged_other; rewrite (name_is_sec f _ sh _ Hnm); reflexivity).
    destruct (wf_got _ _ W sh Ffind) as [Hhi Hr5].
    rewrite Hbus.
    destruct (got_step f args (flagged f n_stack P) sh b1 d (wf_loads _ _ W) Ha0 Hs0 Hhi Hstk_nonneg) as [d' [Hr Hd']].
    { intros j Hj. rewrite Hd by lia. unfold Xp. rewrite Fold. apply x_dram_xdram. }
    rewrite Hr. eexists. split; [reflexivity|].
    unfold Inv, Xp. rewrite Fnew, Fs, Fy. cbn [l_bus l_er l_exit].
    split; [exists d'; split; [reflexivity|]; intros j Hj; rewrite Hd' by lia; symmetry; apply x_dram_xdram|].
    split.
    - rewrite Her. unfold Xp. rewrite Fold. unfold expected_with. cbn [x_er].
      replace ((sh_addr sh + PROGRAM_START_ADDR) mod 4294967296) with (BASE + sh_addr sh)
        by (change PROGRAM_START_ADDR with BASE; rewrite Z.mod_small; [lia|unfold BASE in *; lia]).
      destruct (flagged f n_stack P) as [s|]; [apply set_er_comm_stack|reflexivity].
    - rewrite Hex. unfold Xp. rewrite Fold. reflexivity. }
  destruct (bytes_eq nm n_stack) eqn:Estk.
  { (* .stack *)
    assert (Hname : name_is f n_stack sh = true) by (rewrite (name_is_sec f nm sh n_stack Hnm); exact Estk).
    destruct (flagged_new f n_stack P sh rest Hsplit (wf_u_stack _ _ W) Hname) as (Fold & Fnew & Ffind).
    apply bytes_eq_eq in Estk. subst nm.
    assert (Fg : flagged f n_got (P ++ [sh]) = flagged f n_got P) by (apply flagged_other; rewrite (name_is_sec f _ sh _ Hnm); reflexivity).
    assert (Fy : flagged f n_symtab (P ++ [sh]) = flagged f n_symtab P) by (apply flagged_other; rewrite (name_is_sec f _ sh _ Hnm); reflexivity).
    destruct (wf_stack _ _ W sh Ffind) as (Hext & H8 & Hfit).
    rewrite Hbus. cbv zeta.
    rewrite image_end_img_end. change SIZE_OF_TCB with TCB. rewrite argv_words_model.
    change (align4 (PROGRAM_START_ADDR + img_end (ref_phdrs f) + sh_addr sh + 3)) with (stack_end (ref_phdrs f) sh).
    change (align4 (stack_end (ref_phdrs f) sh + TCB + 3)) with (argv_at (ref_phdrs f) sh).
    destruct (stack_step f args (flagged f n_got P) sh b1 d (wf_loads _ _ W) Ha0 Hgot_hi Hext Hfit) as [d' [Hp Hd']].
    { intros j Hj. rewrite Hd by lia. unfold Xp. rewrite Fold. apply x_dram_xdram. }
    rewrite Hp. eexists. split; [reflexivity|].
    unfold Inv, Xp. rewrite Fnew, Fg, Fy. cbn [l_bus l_er l_exit].
    split; [exists d'; split; [reflexivity|]; intros j Hj; rewrite Hd' by lia; symmetry; apply x_dram_xdram|].
    split.
    - rewrite Her. unfold Xp. rewrite Fold. unfold expected_with. cbn [x_er].
      pose proof (block_above_image f sh Ha0) as Hab. rewrite length_arg_block in Hfit.
      pose proof (strs_len_nonneg (argv_words args)) as Hsn.
      assert (Hse : stack_end (ref_phdrs f) sh <= argv_at (ref_phdrs f) sh).
      { unfold argv_at, TCB. pose proof (up4_ge (stack_end (ref_phdrs f) sh + 88)). lia. }
      replace ((stack_end (ref_phdrs f) sh - 8) mod 4294967296) with (stack_end (ref_phdrs f) sh - 8)
        by (rewrite Z.mod_small; [reflexivity|unfold DRAM_SIZE, DRAM_START in *; lia]).
      replace (argv_at (ref_phdrs f) sh mod 4294967296) with (argv_at (ref_phdrs f) sh)
        by (rewrite Z.mod_small; [reflexivity|rewrite OFF_val in Hab; pose proof (img_end_nonneg (ref_phdrs f)); unfold DRAM_SIZE, DRAM_START in *; lia]).
      reflexivity.
    - rewrite Hex. unfold Xp. rewrite Fold. reflexivity. }
  destruct (bytes_eq nm n_symtab) eqn:Esym.
  { (* .symtab *)
    assert (Hname : name_is f n_symtab sh = true) by (rewrite (name_is_sec f nm sh n_symtab Hnm); exact Esym).
    destruct (flagged_new f n_symtab P sh rest Hsplit (wf_u_sym _ _ W) Hname) as (Fold & Fnew & Ffind).
    apply bytes_eq_eq in Esym. subst nm.
    assert (Fg : flagged f n_got (P ++ [sh]) = flagged f n_got P) by (apply flagged_other; rewrite (name_is_sec f _ sh _ Hnm); reflexivity).
    assert (Fs : flagged f n_stack (P ++ [sh]) = flagged f n_stack P) by (apply flagged_other; rewrite (name_is_sec f _ sh _ Hnm); reflexivity).
    destruct (wf_sym _ _ W sh Ffind) as (Hent & Hsz & Hlink & Hstr & Hnames & Hexit).
    rewrite (symtab_step f sh st (wf_bytes _ _ W) Ho0 Hs0 Hl0 Hent Hsz Hlink Hstr Hnames).
    eexists. split; [reflexivity|].
    unfold Inv, Xp. rewrite Fnew, Fg, Fs. cbn [l_bus l_er l_exit].
    split; [exists d; split; [exact Hbus|]; intros j Hj; rewrite Hd by lia; reflexivity|].
    split; [rewrite Her; reflexivity|].
    unfold expected_with. cbn [x_exit]. destruct (exit_value f sh) as [v|] eqn:Eev.
    - pose proof (exit_value_nonneg f sh v (wf_bytes _ _ W) Eev) as Hv0.
      change PROGRAM_START_ADDR with BASE. rewrite Z.mod_small; [lia|]. unfold BASE in *. lia.
    - rewrite Hex. unfold Xp. rewrite Fold. reflexivity. }
  (* any other section *)
  assert (Fg : flagged f n_got (P ++ [sh]) = flagged f n_got P) by (apply flagged_other; rewrite (name_is_sec f _ sh _ Hnm); exact Egot).
  assert (Fs : flagged f n_stack (P ++ [sh]) = flagged f n_stack P) by (apply flagged_other; rewrite (name_is_sec f _ sh _ Hnm); exact Estk).
  assert (Fy : flagged f n_symtab (P ++ [sh]) = flagged f n_symtab P) by (apply flagged_other; rewrite (name_is_sec f _ sh _ Hnm); exact Esym).
  exists st. split; [reflexivity|]. unfold Inv, Xp. rewrite Fg, Fs, Fy.
  split; [exists d; split; [exact Hbus|exact Hd]|]. split; assumption.
Qed.

Lemma do_sections_spec f args er0 exit0 b1 : WFacts f args ->
  forall rest P names st, ref_shdrs f = P ++ rest ->
    Forall2 (fun nm sh => sec_name f sh = Some nm) names rest ->
    Inv f args er0 exit0 b1 P st ->
    exists st', do_sections f (ref_shdrs f) (ref_phdrs f) args names rest st = Some st' /\ Inv f args er0 exit0 b1 (ref_shdrs f) st'.
Proof.
  intros W. induction rest as [|sh rest IH]; intros P names st Hsplit Hn HI.
  - inversion Hn; subst. exists st. split; [reflexivity|]. rewrite Hsplit, app_nil_r. exact HI.
  - inversion Hn as [|nm ? nt ? Hnm Hnt]; subst.
    destruct (section_step f args er0 exit0 b1 P sh rest nm st W Hsplit Hnm HI) as [st1 [H1 HI1]].
    cbn [do_sections]. rewrite H1.
    apply (IH (P ++ [sh]) nt st1); [rewrite <- app_assoc; exact Hsplit|exact Hnt|exact HI1].
Qed.

Lemma flagged_all f n : flagged f n (ref_shdrs f) = find_sec f n.
Proof.
  unfold flagged. destruct (find_sec f n) as [x|] eqn:E.
  - unfold find_sec in E. now rewrite (find_some_flag _ _ _ E).
  - destruct (existsb _ _); reflexivity.
Qed.

(* ------------------------------------------------------------------ the domain predicate, unpacked *)
Lemma wf_unpack f args : wf_elf f args = true ->
  52 <= flen f /\ bytes_eq (firstn 4 f) [0x7f; 69; 76; 70] = true /\ bytes_ok f /\
  e_phoff (ref_ehdr f) + 32 * e_phnum (ref_ehdr f) <= flen f /\
  e_shoff (ref_ehdr f) + 40 * e_shnum (ref_ehdr f) <= flen f /\
  e_shstrndx (ref_ehdr f) < e_shnum (ref_ehdr f) /\
  forallb (fun sh => match sec_name f sh with Some s => graphic_name s | None => false end) (ref_shdrs f) = true /\
  forallb (fun ph => negb (is_load ph) ||
        ((p_offset ph + p_filesz ph <=? flen f) && (p_filesz ph <=? p_memsz ph) && (p_vaddr ph + p_memsz ph <=? DRAM_SIZE - (BASE - DRAM_START)))) (ref_phdrs f) = true /\
  disjoint_loads (ref_phdrs f) = true /\
  WFacts f args.
Proof.
  intros H. unfold wf_elf in H. cbv zeta in H.
  repeat match type of H with (_ && _) = true => let Hl := fresh "Hc" in apply andb_true_iff in H; destruct H as [H Hl] end.
  assert (Hb : bytes_ok f) by assumption.
  assert (Hloads : Forall (load_ok f) (ref_phdrs f)).
  { rewrite Forall_forall. intros ph Hin Hl.
    match goal with Hx : forallb _ (ref_phdrs f) = true |- _ => rewrite forallb_forall in Hx; specialize (Hx ph Hin); rewrite Hl in Hx; cbn [negb orb] in Hx;
      repeat (apply andb_true_iff in Hx; destruct Hx as [Hx ?]) end.
    change (BASE - DRAM_START) with OFF in *. repeat split; lia. }
  split; [lia|]. split; [assumption|]. split; [assumption|]. split; [lia|]. split; [lia|]. split; [lia|].
  split; [assumption|]. split; [assumption|]. split; [assumption|].
  constructor; try assumption; try lia.
  - intros g Hg. match goal with Hx : match find_sec f n_got with _ => _ end = true |- _ => rewrite Hg in Hx; apply andb_true_iff in Hx; destruct Hx; lia end.
  - intros s Hs. match goal with Hx : match find_sec f n_stack with _ => _ end = true |- _ => rewrite Hs in Hx; cbv zeta in Hx; apply andb_true_iff in Hx; destruct Hx; lia end.
  - intros sy Hy. match goal with Hx : match find_sec f n_symtab with _ => _ end = true |- _ => rewrite Hy in Hx;
      repeat (apply andb_true_iff in Hx; destruct Hx as [Hx ?]) end.
    repeat split; try lia; try assumption.
    destruct (exit_value f sy); [lia|exact I].
Qed.

(* ------------------------------------------------------------------ load as a whole *)
Theorem load_refines_proof f args s :
  wf_elf f args = true -> (forall j, 0 <= j -> sget (b_dram (cbus s)) j = 0) ->
  exists s' d,
    load f args s = Some s' /\
    s' = set_exit (x_exit (expected_of f args (er s) (exit_addr s)))
           (set_regs (x_er (expected_of f args (er s) (exit_addr s))) (set_bus (bset_dram d (cbus s)) s)) /\
    forall j, 0 <= j -> sget d j = x_dram (expected_of f args (er s) (exit_addr s)) j.
Proof.
  intros Hwf Hzero.
  destruct (wf_unpack f args Hwf) as (Hlen & Hmagic & Hb & Hph & Hsh & Hstrndx & Hnames & Hsegs & _ & W).
  pose proof (at32_range f 28 Hb) as Hpo. pose proof (at32_range f 32 Hb) as Hso.
  pose proof (at16_range f 44 Hb) as Hpn. pose proof (at16_range f 48 Hb) as Hsn. pose proof (at16_range f 50 Hb) as Hsx.
  assert (Eph : e_phoff (ref_ehdr f) = at32 f 28) by reflexivity. assert (Esh : e_shoff (ref_ehdr f) = at32 f 32) by reflexivity.
  assert (Epn : e_phnum (ref_ehdr f) = at16 f 44) by reflexivity. assert (Esn : e_shnum (ref_ehdr f) = at16 f 48) by reflexivity.
  assert (Esx : e_shstrndx (ref_ehdr f) = at16 f 50) by reflexivity.
  unfold load. rewrite (parse_header_at f Hlen Hmagic).
  rewrite slice_from_ok by lia.
  destruct (shdrs_at f) as [rest1 Hsht]; [lia|lia|lia|]. rewrite Hsht.
  rewrite nth_error_ref_shdrs by lia.
  set (stroff := sh_offset (ref_shdr f (e_shstrndx (ref_ehdr f)))).
  assert (Hst0 : 0 <= stroff) by (subst stroff; unfold ref_shdr; cbn [sh_offset]; apply at32_range; assumption).
  rewrite forallb_forall in Hnames.
  assert (Hnok : Forall (name_ok f stroff) (ref_shdrs f)).
  { rewrite Forall_forall. intros sh Hin. specialize (Hnames sh Hin).
    destruct (shdr_fields_nonneg f sh Hb Hin) as (Hn0 & _).
    split; [exact Hn0|]. unfold sec_name in Hnames. fold stroff in Hnames.
    destruct (cstr_at f (stroff + sh_name sh)) as [nm|]; [|discriminate]. exists nm. split; [reflexivity|exact Hnames]. }
  assert (Hstrle : stroff <= flen f).
  { assert (Hin : In (ref_shdr f (e_shstrndx (ref_ehdr f))) (ref_shdrs f)).
    { apply (nth_error_In _ (Z.to_nat (e_shstrndx (ref_ehdr f)))). apply nth_error_ref_shdrs. lia. }
    rewrite Forall_forall in Hnok. destruct (Hnok _ Hin) as [Hn0 [nm [Hc _]]].
    apply cstr_at_some in Hc. lia. }
  rewrite slice_from_ok by lia.
  destruct (section_names_spec f stroff Hst0 (ref_shdrs f) Hnok) as [names [Hns Hf2]]. rewrite Hns.
  rewrite slice_from_ok by lia.
  destruct (phdrs_at f) as [rest2 Hpht]; [lia|lia|lia|]. rewrite Hpht.
  assert (Hsegok : Forall (seg_ok f) (ref_phdrs f)).
  { pose proof (wf_loads _ _ W) as Hl. rewrite Forall_forall in *. intros ph Hin Hld. destruct (Hl ph Hin Hld) as (H1 & H2 & H3).
    assert (Hr : 0 <= p_offset ph /\ 0 <= p_vaddr ph /\ 0 <= p_filesz ph).
    { unfold ref_phdrs in Hin. apply in_map_iff in Hin. destruct Hin as [k [<- _]]. unfold ref_phdr. cbn [p_offset p_vaddr p_filesz].
      repeat split; apply at32_range; assumption. }
    repeat split; lia. }
  destruct (load_segments_spec f (ref_phdrs f) (cbus s) Hsegok) as [d1 [Hls Hd1]]. rewrite Hls.
  assert (Hvnn : Forall (fun ph => 0 <= p_vaddr ph) (ref_phdrs f)).
  { rewrite Forall_forall. intros ph Hin. unfold ref_phdrs in Hin. apply in_map_iff in Hin. destruct Hin as [k [<- _]].
    unfold ref_phdr. cbn [p_vaddr]. apply at32_range. assumption. }
  assert (HI0 : Inv f args (er s) (exit_addr s) (cbus s) [] (mkL (bset_dram d1 (cbus s)) (set_er (er s) 2 PROGRAM_START_ADDR) (exit_addr s))).
  { unfold Inv, Xp, flagged. cbn [existsb l_bus l_er l_exit].
    split; [|split; reflexivity].
    exists d1. split; [reflexivity|]. intros j Hj. rewrite Hd1 by lia. rewrite x_dram_xdram, xdram_nostack.
    unfold seg_val, image_byte, file_byte.
    destruct (find (fun ph => covers ph (j - OFF)) (rev (ref_phdrs f))) as [ph|] eqn:E.
    - apply find_some in E. destruct E as [Hin Hc]. apply in_rev in Hin. rewrite Forall_forall in Hvnn. specialize (Hvnn _ Hin).
      unfold covers in Hc. apply andb_true_iff in Hc. destruct Hc as [Hc Hc3]. apply andb_true_iff in Hc. destruct Hc as [Hc1 Hc2].
      replace (OFF <=? j) with true by lia. reflexivity.
    - rewrite Hzero by lia. destruct (OFF <=? j); reflexivity. }
  destruct (do_sections_spec f args (er s) (exit_addr s) (cbus s) W (ref_shdrs f) [] names _ eq_refl Hf2 HI0) as [st' [Hds [[d [Hbus Hd]] [Her Hex]]]].
  rewrite Hds.
  exists (set_exit (l_exit st') (set_regs (l_er st') (set_bus (l_bus st') s))), d.
  split; [reflexivity|].
  unfold Xp in *. rewrite !flagged_all in *. fold (expected_of f args (er s) (exit_addr s)) in *.
  split; [rewrite Hbus, Her, Hex; reflexivity|exact Hd].
Qed.
