(* second-word sweep of the 78r0 prefix (MOV.B/W @(d:24,ERn)) *)
From Coq Require Import Bool ZArith List.
From K Require Import Lib.Bits Lib.Types Model.Exec Spec.ISA Proofs.DecodeProofs.
Import ListNotations.
Open Scope Z_scope.
Definition prefix_78 : list Z := map (fun r => 0x7800 + 16 * r) (zrange 16).
Lemma mov78_sweep : forallb (fun w0 => forallb (agree2 w0 select_78 0) (zrange 65536)) prefix_78 = true.
Proof. vm_compute. reflexivity. Qed.
