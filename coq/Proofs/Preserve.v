(* Well-formedness of the machine state is preserved by every instruction of the domain (reference semantics), hence - with
   the one-instruction theorem - by the model's step; consequence: the model executes ANY number of instructions exactly as
   the reference does, as long as the execution stays inside the domain. *)
From Coq Require Import Bool ZArith Lia ZifyBool List.
From K Require Import Lib.Bits Lib.Types Model.Machine Model.Bus Model.Cost Model.Addressing Model.Alu Model.Exec Model.Ops
  Spec.MemMap Spec.Price Spec.ISA Spec.Domains
  Proofs.PriceProofs Proofs.RegProofs Proofs.MemProofs Proofs.FlagProofs Proofs.AluProofs Proofs.StepProofs Proofs.CtlProofs Proofs.MovProofs Proofs.StackProofs
  Proofs.TwoByte Proofs.StepRefines Proofs.ChargeProofs Proofs.ChargeTotals Proofs.RefStep Proofs.FrameRest.
Import ListNotations.
Open Scope bool_scope. Open Scope Z_scope.
Ltac Zify.zify_post_hook ::= Z.div_mod_to_equations.

(* ---- CCR results are bytes ---- *)
Ltac flag_range := repeat (apply set_flag_range; [unfold fC, fV, fZ, fN, fH, fI; lia|]); try assumption.

Lemma set_nz_range n r c : 0 <= c < 256 -> 0 <= set_nz n r c < 256.
Proof. intros Hc. unfold set_nz. flag_range. Qed.
Lemma alu2_ccr_range o n a b c : 0 <= c < 256 -> 0 <= snd (alu2_ref o n a b c) < 256.
Proof. intros Hc. destruct o; cbn [alu2_ref snd]; unfold set_hnzvc, set_nz; cbv zeta; flag_range. Qed.
Lemma alu1_ccr_range o n a c : 0 <= c < 256 -> 0 <= snd (alu1_ref o n a c) < 256.
Proof. intros Hc. destruct o; cbn [alu1_ref snd]; unfold set_hnzvc, set_nz; cbv zeta; cbn [snd]; flag_range. Qed.
Lemma bit_ccr_range o v k c : 0 <= c < 256 -> 0 <= snd (bit_ref o v k c) < 256.
Proof. intros Hc. destruct o; cbn [bit_ref snd]; cbv zeta; cbn [snd]; flag_range. Qed.

(* ---- register writes keep the registers 32-bit ---- *)
Lemma regs_ok_set_er s n v : regs_ok s -> 0 <= v < 4294967296 -> regs_ok (set_reg32 s n v).
Proof.
  intros Hr Hv i. unfold set_reg32. cbn [er set_regs].
  destruct (get_set_er_cases (er s) n v i) as [-> | (j & ->)]; [exact Hv|apply Hr].
Qed.

Lemma regs_ok_set_reg z s f v : regs_ok s -> 0 <= v < 2^(bits_of z) -> regs_ok (set_reg z s f v).
Proof.
  intros Hr Hv. destruct z; cbn [set_reg bits_of] in *.
  - unfold set_reg8. destruct (f <? 8); apply regs_ok_set_er; try assumption.
    + pose proof (reg32_range s f Hr). change (2^8) with 256 in Hv. lia.
    + pose proof (reg32_range s (f - 8) Hr). change (2^8) with 256 in Hv. lia.
  - unfold set_reg16. destruct (f <? 8); apply regs_ok_set_er; try assumption.
    + pose proof (reg32_range s f Hr). change (2^16) with 65536 in Hv. lia.
    + pose proof (reg32_range s (f - 8) Hr). change (2^16) with 65536 in Hv. lia.
  - apply regs_ok_set_er; [assumption|]. change (2^32) with 4294967296 in Hv. lia.
Qed.

Lemma regs_ok_ea_update z s e : regs_ok s -> regs_ok (ea_update z s e).
Proof. intros Hr. destruct e; cbn [ea_update]; try exact Hr; apply regs_ok_set_er; try assumption; lia. Qed.

(* ---- operand fields of the operation-code map ---- *)
Definition operands_ok (i : insn) : Prop :=
  match i with
  | IMovImm z imm _ | IAlu2I _ z imm _ => 0 <= imm < 2^(bits_of z)
  | IAlu1 o z _ => alu1_defined o (bits_of z)
  | IBit _ (BImm k) _ => 0 <= k < 8
  | _ => True
  end.

Lemma decode_operands_ok w0 w1 w2 w3 w4 i len :
  0 <= w0 < 65536 -> 0 <= w1 < 65536 -> 0 <= w2 < 65536 ->
  decode_ref w0 w1 w2 w3 w4 = Some (i, len) -> operands_ok i.
Proof.
  intros H0 H1 H2. unfold decode_ref, dec_mov_mem, dec_unary, dec_imm_group, dec_bit_mem, req, ok. cbv zeta.
  split_ifs; intros H; try discriminate H.
  all: inversion H; subst; clear H; cbn [operands_ok bits_of alu1_defined]; try exact I;
       unfold hib, lob, n3, n4 in *; change (2^8) with 256; change (2^16) with 65536; change (2^32) with 4294967296; try lia;
       try (left; reflexivity); try (right; reflexivity).
Qed.

(* ---- stores keep memory cells byte-sized ---- *)
Lemma mem_write_bytes_ok z s a v s' : mem_write z s a v = Some s' -> span_ok data_ok a (bytes_of z) = true -> bus_bytes_ok s -> bus_bytes_ok s'.
Proof.
  intros H Hs Hb.
  assert (D : forall k, 0 <= k < bytes_of z -> data_ok (a + k) = true) by (intros k Hk; now apply (span_at _ _ _ _ Hs)).
  destruct z; cbn [mem_write bytes_of] in *; unfold ISA.obind in H.
  - apply (put8_bytes_ok _ _ _ _ H); [rewrite <- (Z.add_0_r a); apply D; lia|lia|exact Hb].
  - destruct (put8 s a _) as [s1|] eqn:E1; [|discriminate].
    apply (put8_bytes_ok _ _ _ _ H); [apply D; lia|lia|].
    apply (put8_bytes_ok _ _ _ _ E1); [rewrite <- (Z.add_0_r a); apply D; lia|lia|exact Hb].
  - apply (mem_write_l_bytes_ok s a v s'); assumption.
Qed.

Lemma bus_bytes_ok_same_bus s s' : cbus s' = cbus s -> bus_bytes_ok s -> bus_bytes_ok s'.
Proof. intros E Hb a v H. rewrite E in H. exact (Hb a v H). Qed.

Lemma cbus_set_reg z s f v : cbus (set_reg z s f v) = cbus s.
Proof. unfold set_reg; destruct z; unfold set_reg8, set_reg16, set_reg32; repeat match goal with |- context [if ?c then _ else _] => destruct c end; reflexivity. Qed.
Lemma cbus_ea_update z s e : cbus (ea_update z s e) = cbus s.
Proof. destruct e; reflexivity. Qed.
Lemma ccr_ea_update z s e : ccr (ea_update z s e) = ccr s.
Proof. destruct e; reflexivity. Qed.

Lemma cpu_ok_build s z rd v c x : regs_ok s -> 0 <= v < 2^(bits_of z) -> 0 <= c < 256 -> cpu_ok (with_pc x (with_ccr c (set_reg z s rd v))).
Proof. intros Hr Hv Hc. split; [exact (regs_ok_set_reg z s rd v Hr Hv)|exact Hc]. Qed.
Lemma cpu_ok_pc_ccr s c x : regs_ok s -> 0 <= c < 256 -> cpu_ok (with_pc x (with_ccr c s)).
Proof. intros Hr Hc. split; assumption. Qed.
Lemma cpu_ok_pc s x : cpu_ok s -> cpu_ok (with_pc x s).
Proof. intros H; exact H. Qed.

Lemma mem_write_cpu s z a v s' : mem_write z s a v = Some s' -> er s' = er s /\ ccr s' = ccr s.
Proof. intros H. destruct (mem_write_fields _ _ _ _ _ H) as (A & B & _). split; assumption. Qed.
Lemma put8_cpu s a v s' : put8 s a v = Some s' -> er s' = er s /\ ccr s' = ccr s.
Proof. intros H. destruct (put8_fields _ _ _ _ H) as (A & B & _). split; assumption. Qed.
Lemma regs_ok_er s s' : er s' = er s -> regs_ok s -> regs_ok s'.
Proof. intros E H i. rewrite E. apply H. Qed.

Lemma push32_cpu_ok s v s1 : push32 s v = Some s1 -> cpu_ok s -> cpu_ok s1.
Proof.
  unfold push32. intros H [Hr Hc]. destruct (mem_write_cpu _ _ _ _ _ H) as [E1 E2]. split.
  - apply (regs_ok_er _ _ E1). apply regs_ok_ea_update. exact Hr.
  - rewrite E2. cbn [ea_update]. exact Hc.
Qed.

Lemma ccr_set_reg8 s f v : ccr (set_reg8 s f v) = ccr s. Proof. exact (ccr_set_reg SB s f v). Qed.
Lemma ccr_set_reg16 s f v : ccr (set_reg16 s f v) = ccr s. Proof. exact (ccr_set_reg SW s f v). Qed.
Lemma ccr_set_reg32 s f v : ccr (set_reg32 s f v) = ccr s. Proof. reflexivity. Qed.

Theorem sem_ref_cpu_ok i len s s' :
  cpu_ok s -> bus_bytes_ok s -> operands_ok i -> sem_ref i len s = Some s' -> cpu_ok s'.
Proof.
  intros [Hr Hc] Hb Hop H.
  destruct i; cbn [sem_ref] in H; cbn [operands_ok] in Hop.
  - inv_some H s'. apply cpu_ok_build; [assumption|apply reg_range; assumption|].
    apply set_flag_range; [unfold fV; lia|]. apply set_nz_range. exact Hc.
  - inv_some H s'. apply cpu_ok_build; [assumption|assumption|].
    apply set_flag_range; [unfold fV; lia|]. apply set_nz_range. exact Hc.
  - destruct (mem_read s0 s (ea_addr s0 s e)) as [v|] eqn:E; cbn [ISA.obind] in H; [|discriminate]. inv_some H s'.
    apply cpu_ok_build; [apply regs_ok_ea_update; assumption|apply (mem_read_range s0 s _ v Hb E)|].
    apply set_flag_range; [unfold fV; lia|]. apply set_nz_range. exact Hc.
  - destruct (mem_write s0 (ea_update s0 s e) (ea_addr s0 s e) _) as [s2|] eqn:E; cbn [ISA.obind] in H; [|discriminate]. inv_some H s'.
    destruct (mem_write_cpu _ _ _ _ _ E) as [E1 E2].
    apply cpu_ok_pc_ccr; [apply (regs_ok_er _ _ E1); apply regs_ok_ea_update; assumption|].
    apply set_flag_range; [unfold fV; lia|]. apply set_nz_range. exact Hc.
  - (* ALU Rs,Rd *)
    pose proof (alu2_ref_range o (bits_of s0) (ISA.reg s0 s rd) (ISA.reg s0 s rs) (ccr s) (width_bits s0) (reg_range s0 s rd Hr) (reg_range s0 s rs Hr)) as R1.
    pose proof (alu2_ccr_range o (bits_of s0) (ISA.reg s0 s rd) (ISA.reg s0 s rs) (ccr s) Hc) as R2.
    destruct (alu2_ref o (bits_of s0) _ _ (ccr s)) as [r c]. cbn [fst snd] in *. inv_some H s'.
    destruct o; try (apply cpu_ok_build; assumption); apply cpu_ok_pc_ccr; assumption.
  - (* ALU #imm *)
    pose proof (alu2_ref_range o (bits_of s0) (ISA.reg s0 s rd) imm (ccr s) (width_bits s0) (reg_range s0 s rd Hr) Hop) as R1.
    pose proof (alu2_ccr_range o (bits_of s0) (ISA.reg s0 s rd) imm (ccr s) Hc) as R2.
    destruct (alu2_ref o (bits_of s0) _ imm (ccr s)) as [r c]. cbn [fst snd] in *. inv_some H s'.
    destruct o; try (apply cpu_ok_build; assumption); apply cpu_ok_pc_ccr; assumption.
  - (* unary *)
    pose proof (alu1_ref_range o (bits_of s0) (ISA.reg s0 s rd) (ccr s) (width_bits s0) (reg_range s0 s rd Hr) Hc Hop) as R1.
    pose proof (alu1_ccr_range o (bits_of s0) (ISA.reg s0 s rd) (ccr s) Hc) as R2.
    destruct (alu1_ref o (bits_of s0) _ (ccr s)) as [r c]. cbn [fst snd] in *. inv_some H s'. apply cpu_ok_build; assumption.
  - (* ADDS *) inv_some H s'. apply cpu_ok_pc. split; [apply regs_ok_set_er; [assumption|lia]|exact Hc].
  - (* SUBS *) inv_some H s'. apply cpu_ok_pc. split; [apply regs_ok_set_er; [assumption|lia]|exact Hc].
  - (* MULXU *)
    destruct s0; inv_some H s'; apply cpu_ok_pc; (split; [|rewrite ?ccr_set_reg16, ?ccr_set_reg32; exact Hc]).
    + apply (regs_ok_set_reg SW); [assumption|]. pose proof (reg16_range s rd). pose proof (reg8_range s rs). change (2^bits_of SW) with 65536. nia.
    + apply regs_ok_set_er; [assumption|]. pose proof (reg32_range s rd Hr). pose proof (reg16_range s rs). nia.
    + apply regs_ok_set_er; [assumption|]. pose proof (reg32_range s rd Hr). pose proof (reg16_range s rs). nia.
  - (* DIVXU *)
    destruct s0; match type of H with (if ?c then _ else _) = _ => destruct c eqn:Ec; [discriminate|] end; inv_some H s'.
    + apply cpu_ok_pc_ccr; [|flag_range].
      apply (regs_ok_set_reg SW); [assumption|]. pose proof (reg16_range s rd). pose proof (reg8_range s rs). change (2^bits_of SW) with 65536.
      assert (reg8 s rs <> 0) by lia. assert (reg16 s rd / reg8 s rs < 256) by lia.
      pose proof (Z.mod_pos_bound (reg16 s rd) (reg8 s rs) ltac:(lia)). pose proof (Z.div_pos (reg16 s rd) (reg8 s rs) ltac:(lia) ltac:(lia)). nia.
    + apply cpu_ok_pc_ccr; [|flag_range].
      apply regs_ok_set_er; [assumption|]. pose proof (reg32_range s rd Hr). pose proof (reg16_range s rs).
      assert (reg16 s rs <> 0) by lia. assert (reg32 s rd / reg16 s rs < 65536) by lia.
      pose proof (Z.mod_pos_bound (reg32 s rd) (reg16 s rs) ltac:(lia)). pose proof (Z.div_pos (reg32 s rd) (reg16 s rs) ltac:(lia) ltac:(lia)). nia.
    + apply cpu_ok_pc_ccr; [|flag_range].
      apply regs_ok_set_er; [assumption|]. pose proof (reg32_range s rd Hr). pose proof (reg16_range s rs).
      assert (reg16 s rs <> 0) by lia. assert (reg32 s rd / reg16 s rs < 65536) by lia.
      pose proof (Z.mod_pos_bound (reg32 s rd) (reg16 s rs) ltac:(lia)). pose proof (Z.div_pos (reg32 s rd) (reg16 s rs) ltac:(lia) ltac:(lia)). nia.
  - (* bit operations *)
    set (k := match b with BImm k => k | BReg rn => reg8 s rn mod 8 end) in *.
    assert (Hk : 0 <= k < 8) by (subst k; destruct b; [exact Hop|pose proof (reg8_range s rn); lia]).
    destruct t as [rd|e].
    + pose proof (bit_ref_range o (reg8 s rd) k (ccr s) (reg8_range s rd) Hk) as R1.
      pose proof (bit_ccr_range o (reg8 s rd) k (ccr s) Hc) as R2.
      destruct (bit_ref o (reg8 s rd) k (ccr s)) as [v c]. cbn [fst snd] in *. inv_some H s'.
      destruct (bit_writes o); [apply (cpu_ok_build s SB); assumption|apply cpu_ok_pc_ccr; assumption].
    + destruct (mem8 s (ea_addr SB s e)) as [v0|] eqn:E0; cbn [ISA.obind] in H; [|discriminate].
      pose proof (bit_ccr_range o v0 k (ccr s) Hc) as R2.
      destruct (bit_ref o v0 k (ccr s)) as [v c]. cbn [snd] in R2. destruct (bit_writes o).
      * destruct (put8 s (ea_addr SB s e) v) as [s1|] eqn:E; cbn [ISA.obind] in H; [|discriminate]. inv_some H s'.
        destruct (put8_cpu _ _ _ _ E) as [E1 E2]. apply cpu_ok_pc_ccr; [apply (regs_ok_er _ _ E1); assumption|assumption].
      * inv_some H s'. apply cpu_ok_pc_ccr; assumption.
  - (* Bcc *) inv_some H s'. split; assumption.
  - (* JMP *) destruct (jump_target s t); cbn [ISA.obind] in H; [|discriminate]. inv_some H s'. split; assumption.
  - (* BSR *)
    destruct (push32 s (pc s + len)) as [s1|] eqn:E; cbn [ISA.obind] in H; [|discriminate]. inv_some H s'.
    apply cpu_ok_pc. apply (push32_cpu_ok _ _ _ E). split; assumption.
  - (* JSR *)
    destruct t as [r|a|aa].
    + destruct (push32 s (pc s + len)) as [s1|] eqn:E; cbn [ISA.obind] in H; [|discriminate]. inv_some H s'.
      apply cpu_ok_pc. apply (push32_cpu_ok _ _ _ E). split; assumption.
    + cbn [jump_target ISA.obind] in H. destruct (push32 s (pc s + len)) as [s1|] eqn:E; cbn [ISA.obind] in H; [|discriminate]. inv_some H s'.
      apply cpu_ok_pc. apply (push32_cpu_ok _ _ _ E). split; assumption.
    + destruct (jump_target s (JInd aa)); cbn [ISA.obind] in H; [|discriminate].
      destruct (push32 s (pc s + len)) as [s1|] eqn:E; cbn [ISA.obind] in H; [|discriminate]. inv_some H s'.
      apply cpu_ok_pc. apply (push32_cpu_ok _ _ _ E). split; assumption.
  - (* RTS *)
    unfold pop32 in H. destruct (mem_read SL s (reg32 s 7 mod A24)); cbn [ISA.obind] in H; [|discriminate]. inv_some H s'.
    apply cpu_ok_pc. split; [apply regs_ok_ea_update; assumption|rewrite ccr_ea_update; exact Hc].
  - (* RTE *)
    unfold pop32 in H. destruct (mem_read SL s (reg32 s 7 mod A24)) as [v|] eqn:E; cbn [ISA.obind] in H; [|discriminate]. inv_some H s'.
    apply cpu_ok_pc_ccr; [apply regs_ok_ea_update; assumption|].
    pose proof (mem_read_l_range s _ v Hb E). unfold A24. lia.
  - (* TRAPA *)
    unfold enter_ref in H.
    destruct (push32 (with_pc (pc s + len) s) _) as [s1|] eqn:E; cbn [ISA.obind] in H; [|discriminate].
    destruct (mem_read SL s1 (4 * (8 + n))); cbn [ISA.obind] in H; [|discriminate]. inv_some H s'.
    assert (Hs1 : cpu_ok s1) by (apply (push32_cpu_ok _ _ _ E); split; assumption).
    destruct Hs1 as [Hr1 Hc1]. apply cpu_ok_pc_ccr; [assumption|flag_range].
  - (* STC.B *)
    inv_some H s'. apply cpu_ok_pc. split; [apply (regs_ok_set_reg SB); [assumption|exact Hc]|rewrite ccr_set_reg8; exact Hc].
  - (* STC.W *)
    cbv zeta in H. destruct (mem_write SW (ea_update SW s e) (ea_addr SW s e) (ccr s)) as [s2|] eqn:E; cbn [ISA.obind] in H; [|discriminate]. inv_some H s'.
    destruct (mem_write_cpu _ _ _ _ _ E) as [E1 E2]. apply cpu_ok_pc. split.
    + apply (regs_ok_er _ _ E1). apply regs_ok_ea_update. assumption.
    + rewrite E2. rewrite ccr_ea_update. exact Hc.
  - discriminate H.
Qed.

Ltac same_bus := eapply bus_bytes_ok_same_bus; [|eassumption]; unfold with_pc, with_ccr; cbn [cbus set_pc set_ccr];
                 rewrite ?cbus_set_reg, ?cbus_ea_update; reflexivity.

Theorem sem_ref_bus_bytes_ok i len s s' :
  cpu_ok s -> bus_bytes_ok s -> operands_ok i -> dom_c20 i len s = true -> sem_ref i len s = Some s' -> bus_bytes_ok s'.
Proof.
  intros [Hr Hc] Hb Hop Hdom H. destruct (exec_dom_parts _ _ _ _ Hdom) as [_ Hacc].
  destruct i; cbn [sem_ref] in H; cbn [operands_ok] in Hop.
  - inv_some H s'. same_bus.
  - inv_some H s'. same_bus.
  - destruct (mem_read s0 s (ea_addr s0 s e)); cbn [ISA.obind] in H; [|discriminate]. inv_some H s'. same_bus.
  - first_access Hacc. destruct (mem_write s0 (ea_update s0 s e) (ea_addr s0 s e) _) as [s2|] eqn:E; cbn [ISA.obind] in H; [|discriminate]. inv_some H s'.
    eapply bus_bytes_ok_same_bus with (s := s2); [reflexivity|].
    apply (mem_write_bytes_ok _ _ _ _ _ E); [assumption|]. eapply bus_bytes_ok_same_bus; [apply cbus_ea_update|exact Hb].
  - destruct (alu2_ref o (bits_of s0) _ _ (ccr s)) as [r c]. inv_some H s'. destruct o; same_bus.
  - destruct (alu2_ref o (bits_of s0) _ imm (ccr s)) as [r c]. inv_some H s'. destruct o; same_bus.
  - destruct (alu1_ref o (bits_of s0) _ (ccr s)) as [r c]. inv_some H s'. same_bus.
  - inv_some H s'. exact Hb.
  - inv_some H s'. exact Hb.
  - destruct s0; inv_some H s'; eapply bus_bytes_ok_same_bus; try exact Hb; unfold with_pc; cbn [cbus set_pc];
      first [apply (cbus_set_reg SW) | apply (cbus_set_reg SL)].
  - destruct s0; match type of H with (if ?c then _ else _) = _ => destruct c; [discriminate|] end; inv_some H s';
      eapply bus_bytes_ok_same_bus; try exact Hb; unfold with_pc, with_ccr; cbn [cbus set_pc set_ccr];
      first [apply (cbus_set_reg SW) | apply (cbus_set_reg SL)].
  - set (k := match b with BImm k => k | BReg rn => reg8 s rn mod 8 end) in *.
    assert (Hk : 0 <= k < 8) by (subst k; destruct b; [exact Hop|pose proof (reg8_range s rn); lia]).
    destruct t as [rd|e].
    + destruct (bit_ref o (reg8 s rd) k (ccr s)) as [v c]. inv_some H s'.
      destruct (bit_writes o); [eapply bus_bytes_ok_same_bus; try exact Hb; unfold with_pc, with_ccr; cbn [cbus set_pc set_ccr]; apply (cbus_set_reg SB)|exact Hb].
    + first_access Hacc. destruct (mem8 s (ea_addr SB s e)) as [v0|] eqn:E0; cbn [ISA.obind] in H; [|discriminate].
      pose proof (bit_ref_range o v0 k (ccr s) (Hb _ _ E0) Hk) as R1.
      destruct (bit_ref o v0 k (ccr s)) as [v c]. cbn [fst] in R1. destruct (bit_writes o).
      * destruct (put8 s (ea_addr SB s e) v) as [s1|] eqn:E; cbn [ISA.obind] in H; [|discriminate]. inv_some H s'.
        eapply bus_bytes_ok_same_bus with (s := s1); [reflexivity|].
        apply (put8_bytes_ok _ _ _ _ E); [apply (span_first _ _ 1); [assumption|lia]|exact R1|exact Hb].
      * inv_some H s'. exact Hb.
  - inv_some H s'. exact Hb.
  - destruct (jump_target s t); cbn [ISA.obind] in H; [|discriminate]. inv_some H s'. exact Hb.
  - first_access Hacc. destruct (push32 s (pc s + len)) as [s1|] eqn:E; cbn [ISA.obind] in H; [|discriminate]. inv_some H s'.
    eapply bus_bytes_ok_same_bus with (s := s1); [reflexivity|]. apply (push32_bytes_ok _ _ _ E); assumption.
  - destruct t as [r|a|aa]; first_access Hacc.
    + destruct (push32 s (pc s + len)) as [s1|] eqn:E; cbn [ISA.obind] in H; [|discriminate]. inv_some H s'.
      eapply bus_bytes_ok_same_bus with (s := s1); [reflexivity|]. apply (push32_bytes_ok _ _ _ E); assumption.
    + cbn [jump_target ISA.obind] in H. destruct (push32 s (pc s + len)) as [s1|] eqn:E; cbn [ISA.obind] in H; [|discriminate]. inv_some H s'.
      eapply bus_bytes_ok_same_bus with (s := s1); [reflexivity|]. apply (push32_bytes_ok _ _ _ E); assumption.
    + destruct (jump_target s (JInd aa)); cbn [ISA.obind] in H; [|discriminate].
      destruct (push32 s (pc s + len)) as [s1|] eqn:E; cbn [ISA.obind] in H; [|discriminate]. inv_some H s'.
      eapply bus_bytes_ok_same_bus with (s := s1); [reflexivity|]. apply (push32_bytes_ok _ _ _ E); assumption.
  - unfold pop32 in H. destruct (mem_read SL s (reg32 s 7 mod A24)); cbn [ISA.obind] in H; [|discriminate]. inv_some H s'. same_bus.
  - unfold pop32 in H. destruct (mem_read SL s (reg32 s 7 mod A24)); cbn [ISA.obind] in H; [|discriminate]. inv_some H s'. same_bus.
  - first_access Hacc. unfold enter_ref in H.
    destruct (push32 (with_pc (pc s + len) s) _) as [s1|] eqn:E; cbn [ISA.obind] in H; [|discriminate].
    destruct (mem_read SL s1 (4 * (8 + n))); cbn [ISA.obind] in H; [|discriminate]. inv_some H s'.
    eapply bus_bytes_ok_same_bus with (s := s1); [reflexivity|]. apply (push32_bytes_ok _ _ _ E); [assumption|].
    intros x w Hx. exact (Hb x w Hx).
  - inv_some H s'. eapply bus_bytes_ok_same_bus; try exact Hb. unfold with_pc; cbn [cbus set_pc]. apply (cbus_set_reg SB).
  - first_access Hacc. cbv zeta in H. destruct (mem_write SW (ea_update SW s e) (ea_addr SW s e) (ccr s)) as [s2|] eqn:E; cbn [ISA.obind] in H; [|discriminate]. inv_some H s'.
    eapply bus_bytes_ok_same_bus with (s := s2); [reflexivity|].
    apply (mem_write_bytes_ok _ _ _ _ _ E); [assumption|]. eapply bus_bytes_ok_same_bus; [apply cbus_ea_update|exact Hb].
  - discriminate H.
Qed.

(* ---- the whole state predicate ---- *)
Theorem sem_ref_state_ok i len s s' :
  state_ok s -> operands_ok i -> dom_c20 i len s = true -> sem_ref i len s = Some s' -> state_ok s'.
Proof.
  intros (Hok & Hb & Hbo & Hf) Hop Hdom H.
  pose proof (sem_ref_rest i len s s' Hdom H) as Hrest. unfold rest in Hrest.
  split; [exact (sem_ref_cpu_ok i len s s' Hok Hb Hop H)|].
  split; [exact (sem_ref_bus_bytes_ok i len s s' Hok Hb Hop Hdom H)|].
  split.
  - assert (E : b_io1 (cbus s') = b_io1 (cbus s)) by (inversion Hrest; reflexivity).
    intros a Ha. unfold reg. rewrite E. exact (Hbo a Ha).
  - assert (E : fault s' = fault s) by (inversion Hrest; reflexivity). rewrite E. exact Hf.
Qed.

Lemma state_ok_set_opc x s : state_ok s -> state_ok (set_opc x s).
Proof. intros H; exact H. Qed.

Lemma ref_decode_operands s i len : bus_bytes_ok s -> ref_decode s = Some (i, len) -> operands_ok i.
Proof.
  intros Hb H. unfold ref_decode in H. cbv zeta in H.
  exact (decode_operands_ok _ _ _ _ _ _ _ (word_at_range s _ Hb) (word_at_range s _ Hb) (word_at_range s _ Hb) H).
Qed.

(* the model's step preserves well-formedness inside the domain *)
Theorem step_preserves_state_ok s i len s' n s2 :
  state_ok s -> ref_decode s = Some (i, len) -> side_ok i s -> dom_c20 i len s = true -> sem_ref i len s = Some s' ->
  step s = Ok n s2 -> state_ok s2.
Proof.
  intros Hst Hdec Hside Hdom Hsem Hstep.
  rewrite (step_is_ref_step_proof s i len s' Hst Hdec Hside Hdom Hsem) in Hstep. inversion Hstep; subst.
  apply state_ok_set_opc. pose proof Hst as (Hok & Hb & Hbo & Hf).
  apply (sem_ref_state_ok i len s s'); try assumption. exact (ref_decode_operands s i len Hb Hdec).
Qed.

(* ---- any number of instructions ---- *)
Definition side_okb (i : insn) (s : cpu) : bool :=
  match i with
  | IAlu1 UShal z rd => negb (shal_known (bits_of z) (ISA.reg z s rd))
  | IStcW (EPreDec _) => false
  | _ => true
  end.
Lemma side_okb_ok i s : side_okb i s = true -> side_ok i s.
Proof.
  destruct i; cbn [side_okb side_ok]; try (intros; exact I).
  - destruct o; try (intros; exact I). intros H. apply negb_true_iff in H. exact H.
  - destruct e; try (intros; exact I). discriminate.
Qed.

(* n instructions of the reference, inside the domain: total charge and final state (with the operating-PC bookkeeping) *)
Fixpoint ref_exec (n : nat) (s : cpu) : option (Z * cpu) :=
  match n with
  | O => Some (0, s)
  | S k =>
    match ref_decode s with
    | Some (i, len) =>
      if dom_c20 i len s && side_okb i s then
        match sem_ref i len s with
        | Some s' => match ref_exec k (set_opc (pc s + len - 2) s') with Some (c, s2) => Some (charge_ref i len s + c, s2) | None => None end
        | None => None
        end
      else None
    | None => None
    end
  end.

Lemma stepn_acc n a s : stepn n a s = match stepn n 0 s with Ok c s' => Ok (a + c) s' | Err => Err | Panic => Panic end.
Proof.
  revert a s. induction n as [|n IH]; intros a s; cbn [stepn].
  - unfold ret. f_equal. lia.
  - unfold bind. destruct (step s) as [st s1| |]; try reflexivity.
    rewrite (IH (a + st) s1). rewrite (IH (0 + st) s1). destruct (stepn n 0 s1); try reflexivity. f_equal. lia.
Qed.

Theorem steps_are_ref_steps n : forall s c s2,
  state_ok s -> ref_exec n s = Some (c, s2) -> stepn n 0 s = Ok c s2 /\ state_ok s2.
Proof.
  induction n as [|n IH]; intros s c s2 Hst H; cbn [ref_exec] in H.
  - inversion H; subst. split; [reflexivity|exact Hst].
  - destruct (ref_decode s) as [[i len]|] eqn:Hdec; [|discriminate].
    destruct (dom_c20 i len s && side_okb i s) eqn:Hd; [|discriminate].
    apply andb_true_iff in Hd. destruct Hd as [Hdom Hside]. apply side_okb_ok in Hside.
    destruct (sem_ref i len s) as [s'|] eqn:Hsem; [|discriminate].
    destruct (ref_exec n (set_opc (pc s + len - 2) s')) as [[c1 s3]|] eqn:Hrec; [|discriminate].
    inversion H; subst; clear H.
    pose proof (step_is_ref_step_proof s i len s' Hst Hdec Hside Hdom Hsem) as Hstep.
    assert (Hst1 : state_ok (set_opc (pc s + len - 2) s')) by (apply (step_preserves_state_ok s i len s' _ _ Hst Hdec Hside Hdom Hsem Hstep)).
    destruct (IH _ _ _ Hst1 Hrec) as [Hn Hst2]. split; [|exact Hst2].
    cbn [stepn]. unfold bind. rewrite Hstep. rewrite stepn_acc. rewrite Hn. f_equal; try lia.
Qed.
