(* C10: interrupt requests form a FIFO that instructions never touch; a request is accepted only at a boundary,
   only while I is clear, exactly once, through the vector of its own number (entry = the reference's enter_ref). *)
From Coq Require Import Bool ZArith Lia ZifyBool List.
From K Require Import Lib.Bits Lib.Types Model.Machine Model.Bus Model.Cost Model.Addressing Model.Alu Model.Exec Model.Periph
  Spec.ISA Proofs.FlagProofs Proofs.RegProofs Proofs.MemProofs Proofs.FrameProofs.
Import ListNotations.
Open Scope bool_scope. Open Scope Z_scope.
Ltac Zify.zify_post_hook ::= Z.div_mod_to_equations.

(* ---- entry through the interrupt controller = the reference's exception entry ---- *)
Lemma put8_set_regs r s a v : put8 (set_regs r s) a v = option_map (set_regs r) (put8 s a v).
Proof. unfold put8. cbn [cbus set_regs]. destruct (bus_write (cbus s) a v); reflexivity. Qed.

Lemma mem_write_l_set_regs r s a v :
  mem_write SL (set_regs r s) a v = option_map (set_regs r) (mem_write SL s a v).
Proof.
  cbn [mem_write]. unfold ISA.obind. rewrite put8_set_regs.
  destruct (put8 s a ((v / 16777216) mod 256)) as [s1|]; [|reflexivity]. cbn [option_map].
  rewrite put8_set_regs. destruct (put8 s1 (a + 1) ((v / 65536) mod 256)) as [s2|]; [|reflexivity]. cbn [option_map].
  rewrite put8_set_regs. destruct (put8 s2 (a + 2) ((v / 256) mod 256)) as [s3|]; [|reflexivity]. cbn [option_map].
  apply put8_set_regs.
Qed.

Lemma mem_write_l_er s a v s' : mem_write SL s a v = Some s' -> er s' = er s /\ ccr s' = ccr s /\ pc s' = pc s /\ irq s' = irq s.
Proof.
  cbn [mem_write]. unfold ISA.obind, put8.
  destruct (bus_write (cbus s) a _) as [b1|]; [|discriminate]. cbn [cbus set_bus].
  destruct (bus_write b1 (a + 1) _) as [b2|]; [|discriminate]. cbn [cbus set_bus].
  destruct (bus_write b2 (a + 2) _) as [b3|]; [|discriminate]. cbn [cbus set_bus].
  destruct (bus_write b3 (a + 3) _) as [b4|]; [|discriminate]. intros H. inversion H. cbn. auto.
Qed.

(* push of a long word: model (write, then register) = reference (register, then write) *)
Lemma push_l_spec s v : regs_ok s -> 0 <= v < 4294967296 ->
  push_l v s = match push32 s v with Some s' => Ok tt s' | None => Err end.
Proof.
  intros Hr Hv. unfold push_l, write_dec_ern, bind. rewrite read_rn_l_spec by lia.
  cbn [bytes_of]. unfold write_abs24. cbn [Z.eqb Pos.eqb].
  rewrite write_l_spec by assumption.
  unfold push32, ea_update, set_reg32. cbn [bytes_of].
  rewrite mem_write_l_set_regs.
  assert (Ea : Z.land (wrap 32 (reg32 s 7 - 4)) ADDRESS_MASK = reg32 (set_regs (set_er (er s) 7 ((reg32 s 7 - 4) mod 4294967296)) s) 7 mod A24).
  { unfold reg32. cbn [er set_regs]. rewrite get_set_er by lia. rewrite Z.eqb_refl.
    unfold ADDRESS_MASK, wrap, A24. change 0xffffff with (2^24 - 1). rewrite land_ones_mod by lia.
    change (2^32) with 4294967296. change (2^24) with 16777216. reflexivity. }
  rewrite <- Ea.
  destruct (mem_write SL s (Z.land (wrap 32 (reg32 s 7 - 4)) ADDRESS_MASK) v) as [s1|] eqn:E; cbn [option_map]; [|reflexivity].
  destruct (mem_write_l_er _ _ _ _ E) as (Her & _).
  rewrite write_rn_l_spec by lia. unfold set_reg32, wrap. rewrite Her. change (2^32) with 4294967296. reflexivity.
Qed.

Theorem interrupt_refines_proof :
  forall s v, regs_ok s -> 0 <= ccr s < 256 -> 0 <= pc s < 16777216 -> 0 <= v < 64 ->
    (forall s1, push32 s (ccr s * A24 + pc s) = Some s1 -> bus_bytes_ok s1) ->
    interrupt v s = match enter_ref s v (pc s) with Some s' => Ok tt s' | None => Err end.
Proof.
  intros s v Hr Hc Hp Hv Hbytes. unfold interrupt, enter_ref.
  unfold bind at 1. unfold get_ccr. unfold bind at 1. unfold get_pc.
  assert (Eframe : Z.lor (Z.shiftl (ccr s) 24) (pc s) = ccr s * A24 + pc s).
  { rewrite shiftl_mul by lia. unfold A24. change 16777216 with (2^24).
    apply lor_high_low; [lia|change (2^24) with 16777216; lia]. }
  rewrite Eframe. unfold bind at 1.
  rewrite push_l_spec by (try assumption; unfold A24; lia).
  destruct (push32 s (ccr s * A24 + pc s)) as [s1|] eqn:E1; cbn [ISA.obind]; [|reflexivity].
  unfold bind at 1. rewrite read_l_spec by (apply Hbytes; reflexivity).
  replace ((4 * v) mod 256) with (4 * v) by lia.
  destruct (mem_read SL s1 (4 * v)) as [d|]; cbn [ISA.obind]; [|reflexivity].
  unfold bind, put_pc, modify, get_ccr, put_ccr. cbn [ccr set_pc].
  assert (Hc1 : ccr s1 = ccr s).
  { unfold push32 in E1. destruct (mem_write_l_er _ _ _ _ E1) as (_ & C & _). rewrite C. reflexivity. }
  rewrite ccr_put_spec by (unfold FI; try lia; rewrite Hc1; lia).
  unfold ADDRESS_MASK. change 0xffffff with (2^24 - 1). rewrite land_ones_mod by lia.
  unfold with_pc, with_ccr, A24, fI, FI. change (2^24) with 16777216. reflexivity.
Qed.

(* ---- the request queue ---- *)
Lemma keeps_interrupt_all v : keeps (interrupt v).
Proof.
  unfold interrupt, push_l. repeat keeps_more.
Qed.
Lemma keeps_interrupt v s a s' : interrupt v s = Ok a s' -> irq s' = irq s.
Proof. intros H. pose proof (keeps_interrupt_all v s a s' H) as U. unfold untouched in U. congruence. Qed.

(* boundary with a ghost result: which vector was entered *)
Definition boundary (s : cpu) : outcome (option Z) :=
  if ccr_get FI (ccr s) =? 0 then
    match irq s with
    | [] => Ok None s
    | v :: r => match interrupt v (set_irq r s) with Ok _ s' => Ok (Some v) s' | Err => Err | Panic => Panic end
    end
  else Ok None s.

Lemma boundary_is_try_interrupt s :
  try_interrupt s = match boundary s with Ok _ s' => Ok tt s' | Err => Err | Panic => Panic end.
Proof.
  unfold try_interrupt, boundary. destruct (ccr_get FI (ccr s) =? 0); [|reflexivity].
  destruct (irq s) as [|v r]; [reflexivity|]. destruct (interrupt v (set_irq r s)) as [[] s'| |]; reflexivity.
Qed.

(* accepted only while I is clear, and then it is the oldest pending request *)
Theorem accept_only_unmasked_proof s v s' :
  boundary s = Ok (Some v) s' -> ccr_get FI (ccr s) = 0 /\ exists r, irq s = v :: r /\ irq s' = r.
Proof.
  unfold boundary. destruct (ccr_get FI (ccr s) =? 0) eqn:E; [|discriminate].
  destruct (irq s) as [|w r] eqn:Eq; [discriminate|].
  destruct (interrupt w (set_irq r s)) as [[] s1| |] eqn:Ei; try discriminate.
  intros H. inversion H; subst. split; [lia|]. exists r. split; [reflexivity|].
  rewrite (keeps_interrupt v _ _ _ Ei). reflexivity.
Qed.

(* while I is set nothing is accepted and nothing is lost *)
Theorem pending_while_masked_proof s : ccr_get FI (ccr s) = 1 -> boundary s = Ok None s.
Proof. intros H. unfold boundary. rewrite H. reflexivity. Qed.

(* interleavings of requests, boundaries and instructions *)
Inductive iev := EReq (v : Z) | EBnd | EStep.

Fixpoint irun (evs : list iev) (s : cpu) (entered : list Z) : option (cpu * list Z) :=
  match evs with
  | [] => Some (s, entered)
  | EReq v :: t => irun t (request_interrupt v s) entered
  | EBnd :: t => match boundary s with
                 | Ok (Some v) s' => irun t s' (entered ++ [v])
                 | Ok None s' => irun t s' entered
                 | _ => None
                 end
  | EStep :: t => match step s with Ok _ s' => irun t s' entered | _ => None end
  end.

Fixpoint requests_of (evs : list iev) : list Z :=
  match evs with [] => [] | EReq v :: t => v :: requests_of t | _ :: t => requests_of t end.

(* every request is entered exactly once, in order, or is still pending: entered ++ pending = requested *)
Theorem fifo_exactly_once_proof : forall evs s entered s' entered',
  irun evs s entered = Some (s', entered') ->
  entered' ++ irq s' = entered ++ irq s ++ requests_of evs.
Proof.
  induction evs as [|e t IH]; intros s entered s' entered' H; cbn [irun requests_of] in *.
  - inversion H; subst. now rewrite app_nil_r.
  - destruct e as [v| |].
    + rewrite (IH _ _ _ _ H). unfold request_interrupt. cbn [irq set_irq]. now rewrite <- !app_assoc.
    + destruct (boundary s) as [[v|] s1| |] eqn:Eb; try discriminate.
      * rewrite (IH _ _ _ _ H). destruct (accept_only_unmasked_proof _ _ _ Eb) as (_ & r & E1 & E2).
        rewrite E1, E2. rewrite <- !app_assoc. reflexivity.
      * rewrite (IH _ _ _ _ H).
        assert (Hq : s1 = s).
        { unfold boundary in Eb. destruct (ccr_get FI (ccr s) =? 0).
          - destruct (irq s) as [|w r]; [inversion Eb; reflexivity|].
            destruct (interrupt w (set_irq r s)) as [[] ?| |]; discriminate.
          - inversion Eb; reflexivity. }
        now rewrite Hq.
    + destruct (step s) as [n s1| |] eqn:Es; try discriminate.
      rewrite (IH _ _ _ _ H). now rewrite (step_keeps_requests _ _ _ Es).
Qed.
