(* C17: update_timer8_0 fed with n elapsed states equals n single-state steps of the tick-by-tick reference,
   hence any two partitions of the same elapsed time agree; flags / clears / requests per count. *)
From Coq Require Import Bool ZArith Lia ZifyBool List.
From K Require Import Lib.Bits Model.Machine Model.Bus Model.Periph Spec.TimerSpec.
Import ListNotations.
Open Scope bool_scope. Open Scope Z_scope.
Ltac Zify.zify_post_hook ::= Z.div_mod_to_equations.

(* ---- composition of ticks ---- *)
Lemma timer_ticks_add n m t b :
  timer_ticks (n + m) t b =
  let '(b1, r1) := timer_ticks n t b in let '(b2, r2) := timer_ticks m t b1 in (b2, r1 ++ r2).
Proof.
  revert b. induction n as [|k IH]; intros b; cbn [timer_ticks Nat.add].
  - destruct (timer_ticks m t b). reflexivity.
  - destruct (timer_tick t b) as [b1 r1]. rewrite IH.
    destruct (timer_ticks k t b1) as [b2 r2]. destruct (timer_ticks m t b2) as [b3 r3].
    now rewrite app_assoc.
Qed.

(* ticking does not touch the timer configuration, the messages or anything but io2 *)
Lemma timer_tick_tmr t b : b_tmr (fst (timer_tick t b)) = b_tmr b.
Proof. reflexivity. Qed.
Lemma timer_ticks_tmr n t b : b_tmr (fst (timer_ticks n t b)) = b_tmr b.
Proof.
  revert b. induction n as [|k IH]; intros b; cbn [timer_ticks]; [reflexivity|].
  destruct (timer_tick t b) as [b1 r1] eqn:E. specialize (IH b1). destruct (timer_ticks k t b1) as [b2 r2].
  cbn [fst] in *. rewrite IH. change b1 with (fst (b1, r1)). rewrite <- E. apply timer_tick_tmr.
Qed.

Definition t_cfg_eq (t t' : timer) : Prop :=
  t_presc t = t_presc t' /\ t_cmib t = t_cmib t' /\ t_cmia t = t_cmia t' /\ t_ovi t = t_ovi t' /\ t_clear t = t_clear t'.

(* the tick function only looks at the configuration part of the timer record *)
Lemma timer_tick_cfg t t' b : t_cfg_eq t t' -> timer_tick t b = timer_tick t' b.
Proof. intros (A & B & C & D & E). unfold timer_tick. now rewrite B, C, D, E. Qed.
Lemma timer_ticks_cfg n t t' b : t_cfg_eq t t' -> timer_ticks n t b = timer_ticks n t' b.
Proof.
  intros H. revert b. induction n as [|k IH]; intros b; cbn [timer_ticks]; [reflexivity|].
  rewrite (timer_tick_cfg t t' b H). destruct (timer_tick t' b). now rewrite IH.
Qed.

Lemma div_add_split x b p : 0 < p -> (x + b) / p = x / p + (x mod p + b) / p.
Proof.
  intros Hp. rewrite (Z.div_mod x p) at 1 by lia.
  replace (p * (x / p) + x mod p + b) with ((x / p) * p + (x mod p + b)) by ring.
  rewrite Z.div_add_l by lia. reflexivity.
Qed.
Lemma mod_add_split x b p : 0 < p -> (x + b) mod p = (x mod p + b) mod p.
Proof. intros Hp. now rewrite Z.add_mod_idemp_l by lia. Qed.

Definition timer_wf (s : cpu) : Prop :=
  let t := b_tmr (cbus s) in 0 <= t_state t /\ (t_presc t = 0 \/ (0 < t_presc t /\ t_state t < t_presc t)).

(* counting commutes with replacing the timer record held beside the bus *)
Lemma timer_tick_bset_tmr t x b :
  timer_tick t (bset_tmr x b) = let '(b', r) := timer_tick t b in (bset_tmr x b', r).
Proof. reflexivity. Qed.
Lemma timer_ticks_bset_tmr n t x b :
  timer_ticks n t (bset_tmr x b) = let '(b', r) := timer_ticks n t b in (bset_tmr x b', r).
Proof.
  revert b. induction n as [|k IH]; intros b; cbn [timer_ticks]; [reflexivity|].
  rewrite timer_tick_bset_tmr. destruct (timer_tick t b) as [b1 r1]. rewrite IH.
  destruct (timer_ticks k t b1) as [b2 r2]. reflexivity.
Qed.

(* feeding a then b states = feeding a + b states *)
Theorem update_timer_add a b s : 0 <= a -> 0 <= b -> timer_wf s ->
  update_timer b (update_timer a s) = update_timer (a + b) s.
Proof.
  intros Ha Hb (Hs0 & Hp). unfold update_timer.
  destruct (t_presc (b_tmr (cbus s)) =? 0) eqn:E0.
  - rewrite E0. reflexivity.
  - destruct Hp as [Hp|[Hp Hlt]]; [lia|].
    set (t := b_tmr (cbus s)) in *. set (p := t_presc t) in *. set (r := t_state t) in *.
    set (n1 := (r + a) / p). set (r1 := r + a - p * n1).
    set (t1 := mkTimer r1 p (t_cmib t) (t_cmia t) (t_ovi t) (t_clear t)).
    destruct (timer_ticks (Z.to_nat n1) t (cbus s)) as [b1 rq1] eqn:E1.
    assert (Hp1 : t_presc t1 = p) by reflexivity. assert (Hs1 : t_state t1 = r1) by reflexivity.
    assert (Hc1 : t_cmib t1 = t_cmib t /\ t_cmia t1 = t_cmia t /\ t_ovi t1 = t_ovi t /\ t_clear t1 = t_clear t) by (repeat split).
    destruct Hc1 as (Hc1 & Hc2 & Hc3 & Hc4).
    cbn [cbus set_bus set_irq irq b_tmr bset_tmr]. rewrite Hp1, Hs1, Hc1, Hc2, Hc3, Hc4. fold p. rewrite E0.
    set (n2 := (r1 + b) / p).
    assert (Er : r1 = (r + a) mod p) by (subst r1 n1; lia).
    assert (Ecnt : (r + (a + b)) / p = n1 + n2).
    { unfold n2. rewrite Er. unfold n1. replace (r + (a + b)) with ((r + a) + b) by ring. now apply div_add_split. }
    assert (Eres : r1 + b - p * n2 = r + (a + b) - p * ((r + (a + b)) / p)).
    { pose proof (Z.div_mod (r1 + b) p ltac:(lia)) as D1. pose proof (Z.div_mod (r + (a + b)) p ltac:(lia)) as D2.
      assert (M : (r1 + b) mod p = (r + (a + b)) mod p).
      { rewrite Er. replace (r + (a + b)) with ((r + a) + b) by ring. symmetry. now apply mod_add_split. }
      unfold n2. lia. }
    assert (Hn1 : 0 <= n1) by (subst n1; apply Z.div_pos; lia).
    assert (Hn2 : 0 <= n2) by (subst n2; apply Z.div_pos; lia).
    rewrite Ecnt, Z2Nat.inj_add by assumption. rewrite timer_ticks_add, E1.
    assert (C : t_cfg_eq t1 t) by (subst t1; repeat split).
    rewrite (timer_ticks_cfg _ t1 t _ C), timer_ticks_bset_tmr.
    destruct (timer_ticks (Z.to_nat n2) t b1) as [b2 rq2].
    rewrite Eres, ?Ecnt. rewrite <- app_assoc. reflexivity.
Qed.

(* any partition of the same elapsed time gives the same result *)
Lemma update_timer_wf n s : 0 <= n -> timer_wf s -> timer_wf (update_timer n s).
Proof.
  intros Hn (Hs0 & Hp). unfold update_timer, timer_wf in *.
  destruct (t_presc (b_tmr (cbus s)) =? 0) eqn:E0; [split; assumption|].
  destruct Hp as [Hp|[Hp Hlt]]; [lia|].
  destruct (timer_ticks _ _ _) as [b1 rq]. cbn [cbus set_bus set_irq b_tmr bset_tmr t_state t_presc].
  split; [lia|]. right. split; [lia|]. lia.
Qed.

Theorem partition_independent_proof : forall l s, Forall (fun x => 0 <= x) l -> timer_wf s ->
  fold_left (fun st n => update_timer n st) l s = update_timer (fold_right Z.add 0 l) s.
Proof.
  induction l as [|x t IH]; intros s Hall Hwf; cbn [fold_left fold_right].
  - unfold update_timer. destruct Hwf as (H0 & Hp).
    destruct (t_presc (b_tmr (cbus s)) =? 0) eqn:E0; [reflexivity|].
    destruct Hp as [Hp|[Hp Hlt]]; [lia|].
    rewrite Z.add_0_r. rewrite Z.div_small by lia. cbn [Z.to_nat timer_ticks].
    rewrite Z.mul_0_r, Z.sub_0_r.
    destruct s as [pc0 opc0 ccr0 er0 b0 irq0 ex0 ss0 ov0 so0 co0]. cbn. rewrite app_nil_r.
    destruct b0 as [v d i1 rm i2 pn la su ms tm]. cbn. destruct tm. reflexivity.
  - inversion Hall as [|x' t' Hx Ht]; subst.
    rewrite IH by (try assumption; now apply update_timer_wf).
    apply update_timer_add; try assumption.
    clear -Ht. induction t as [|y u IHu]; cbn; [lia|]. inversion Ht; subst. specialize (IHu H2). lia.
Qed.

(* ---- refinement to the tick-by-tick reference ---- *)
Definition tmr_of (b : bus) : tmr :=
  let t := b_tmr b in
  mkTmr (io2_get b TCNT0) (io2_get b TCSR0) (io2_get b TCORA0) (io2_get b TCORB0)
        (t_cmib t) (t_cmia t) (t_ovi t) (t_clear t) (t_presc t) (t_state t).

Ltac io2s := unfold io2_get, io2_set, TCNT0, TCSR0, TCORA0, TCORB0, IO2_START;
  cbn [b_io2 bset_io2 b_tmr]; repeat (rewrite sget_sset by lia); cbn [Z.eqb Pos.eqb].

(* one count of the model = one count of the reference, under the property's side condition *)
Lemma tick_refines b :
  side_ok (tmr_of b) = true ->
  let '(b', rq) := timer_tick (b_tmr b) b in
  tmr_of b' = fst (tick_ref (tmr_of b)) /\ rq = snd (tick_ref (tmr_of b)).
Proof.
  intros Hside. unfold timer_tick, tick_ref, tmr_of, side_ok in *.
  cbn [tcnt tcsr tcora tcorb cmieb cmiea ovie cclr divisor phase fst snd] in *.
  set (c0 := io2_get b TCNT0) in *. set (sr := io2_get b TCSR0) in *.
  set (ca := io2_get b TCORA0) in *. set (cb := io2_get b TCORB0) in *.
  set (t := b_tmr b) in *.
  set (n := (c0 + 1) mod 256).
  assert (Hmb : ((if (n =? ca) && (t_clear t =? 1) then 0 else n) =? cb) = (n =? cb)).
  { destruct ((n =? ca) && (t_clear t =? 1)) eqn:E; [|reflexivity].
    assert ((t_clear t =? 1) || (t_clear t =? 2) = true) as E2 by lia. rewrite E2 in Hside. lia. }
  rewrite Hmb.
  assert (Hclr : (if (n =? cb) && (t_clear t =? 2) then 0 else if (n =? ca) && (t_clear t =? 1) then 0 else n)
               = (if (n =? ca) && (t_clear t =? 1) || (n =? cb) && (t_clear t =? 2) then 0 else n)).
  { destruct ((n =? ca) && (t_clear t =? 1)); destruct ((n =? cb) && (t_clear t =? 2)); reflexivity. }
  split.
  - io2s. fold c0 sr ca cb. f_equal.
    + fold n. rewrite <- Hclr. reflexivity.
    + destruct (n =? ca); destruct (n =? cb); destruct (c0 =? 255); rewrite ?Z.lor_0_r; reflexivity.
  - reflexivity.
Qed.

Lemma side_ok_tick b : side_ok (tmr_of (fst (timer_tick (b_tmr b) b))) = side_ok (tmr_of b).
Proof. unfold side_ok, tmr_of, timer_tick. cbn [tcora tcorb cclr fst]. io2s. reflexivity. Qed.

(* one elapsed state *)
Lemma update1_refines s :
  timer_wf s -> side_ok (tmr_of (cbus s)) = true ->
  tmr_of (cbus (update_timer 1 s)) = fst (state_ref (tmr_of (cbus s))) /\
  irq (update_timer 1 s) = irq s ++ snd (state_ref (tmr_of (cbus s))) /\
  side_ok (tmr_of (cbus (update_timer 1 s))) = true.
Proof.
  intros (H0 & Hp) Hside. unfold update_timer, state_ref.
  set (b := cbus s) in *. set (t := b_tmr b) in *.
  assert (Ediv : divisor (tmr_of b) = t_presc t) by reflexivity.
  assert (Eph : phase (tmr_of b) = t_state t) by reflexivity.
  rewrite Ediv, Eph.
  destruct (t_presc t =? 0) eqn:E0.
  - cbn [fst snd]. rewrite app_nil_r. auto.
  - destruct Hp as [Hp|[Hp Hlt]]; [lia|].
    destruct (t_state t + 1 =? t_presc t) eqn:E1.
    + assert ((t_state t + 1) / t_presc t = 1) as -> by (apply Z.eqb_eq in E1; rewrite E1; apply Z.div_same; lia).
      change (Z.to_nat 1) with 1%nat. cbn [timer_ticks].
      pose proof (tick_refines b Hside) as R. pose proof (side_ok_tick b) as S. pose proof (timer_tick_tmr t b) as Tm.
      fold t in R, S.
      destruct (timer_tick t b) as [b1 rq]. destruct R as [R1 R2]. cbn [fst] in S, Tm. fold t in Tm.
      destruct (tick_ref (tmr_of b)) as [t1 rq'] eqn:ET. cbn [fst snd] in *. subst rq' t1.
      cbn [cbus set_bus set_irq irq]. rewrite app_nil_r.
      split; [|split; [reflexivity|]].
      * unfold tmr_of. cbn [b_tmr bset_tmr t_state t_presc t_cmib t_cmia t_ovi t_clear tcnt tcsr tcora tcorb cmieb cmiea ovie cclr divisor phase].
        unfold io2_get. cbn [b_io2 bset_tmr]. rewrite Tm.
        apply Z.eqb_eq in E1. f_equal. lia.
      * unfold side_ok, tmr_of in *. cbn [tcora tcorb cclr b_tmr bset_tmr t_clear] in *.
        unfold io2_get in *. cbn [b_io2 bset_tmr]. rewrite Tm in S. exact (eq_trans S Hside).
    + assert ((t_state t + 1) / t_presc t = 0) as -> by (apply Z.div_small; lia).
      cbn [Z.to_nat timer_ticks cbus set_bus set_irq irq fst snd]. rewrite app_nil_r.
      split; [|split; [reflexivity|]].
      * unfold tmr_of. cbn [b_tmr bset_tmr t_state t_presc t_cmib t_cmia t_ovi t_clear].
        unfold io2_get. cbn [b_io2 bset_tmr]. f_equal. lia.
      * unfold side_ok, tmr_of in *. cbn [tcora tcorb cclr b_tmr bset_tmr t_clear] in *.
        unfold io2_get in *. cbn [b_io2 bset_tmr]. exact Hside.
Qed.

(* n elapsed states fed at once = n single-state steps of the reference: every partition of the elapsed
   time is the tick-by-tick behaviour *)
Theorem elapse_refines_proof : forall n s,
  timer_wf s -> side_ok (tmr_of (cbus s)) = true ->
  tmr_of (cbus (update_timer (Z.of_nat n) s)) = fst (states_ref n (tmr_of (cbus s))) /\
  irq (update_timer (Z.of_nat n) s) = irq s ++ snd (states_ref n (tmr_of (cbus s))).
Proof.
  induction n as [|k IH]; intros s Hwf Hside.
  - cbn [states_ref fst snd Z.of_nat]. rewrite app_nil_r.
    pose proof (partition_independent_proof [] s (Forall_nil _) Hwf) as P. cbn in P. rewrite <- P. auto.
  - replace (Z.of_nat (S k)) with (1 + Z.of_nat k) by lia.
    rewrite <- update_timer_add by (try lia; assumption).
    destruct (update1_refines s Hwf Hside) as (A1 & A2 & A3).
    assert (Hwf1 : timer_wf (update_timer 1 s)) by (apply update_timer_wf; [lia|assumption]).
    destruct (IH (update_timer 1 s) Hwf1 A3) as (B1 & B2).
    cbn [states_ref]. destruct (state_ref (tmr_of (cbus s))) as [t1 r1] eqn:E1. cbn [fst snd] in *.
    rewrite A1 in B1, B2. destruct (states_ref k t1) as [t2 r2]. cbn [fst snd] in *.
    split; [exact B1|]. rewrite B2, A2. now rewrite app_assoc.
Qed.

(* no clock selected: nothing counts *)
Lemma no_clock_no_count_proof n s : t_presc (b_tmr (cbus s)) = 0 -> update_timer n s = s.
Proof. intros H. unfold update_timer. now rewrite H. Qed.

(* a TCR write leaves the prescaler phase inside one period: 0 <= p < divisor *)
Lemma update_tcr_wf t v : 0 <= t_state t -> (t_presc t = 0 \/ t_state t < t_presc t) ->
  let t' := update_tcr t v in 0 <= t_state t' /\ (t_presc t' = 0 \/ (0 < t_presc t' /\ t_state t' < t_presc t')).
Proof.
  intros H0 Hp. unfold update_tcr. cbn [t_state t_presc].
  set (cks := Z.land v 7).
  set (pr := if cks =? 0 then 0 else if cks =? 1 then 8 else if cks =? 2 then 64 else if cks =? 3 then 8192 else 0).
  assert (Hpr : pr = 0 \/ pr = 8 \/ pr = 64 \/ pr = 8192).
  { subst pr. destruct (cks =? 0); [auto|]. destruct (cks =? 1); [auto|]. destruct (cks =? 2); [auto|]. destruct (cks =? 3); auto. }
  clearbody pr.
  destruct (pr =? t_presc t) eqn:E.
  - apply Z.eqb_eq in E. split; [assumption|]. destruct Hpr as [->|Hpr]; [left; reflexivity|]. right. lia.
  - split; [lia|]. destruct Hpr as [->|Hpr]; [left; reflexivity|]. right. lia.
Qed.

(* the flags are only ever set by a count, never cleared *)
Lemma tick_ref_flags_monotone t i : 0 <= i -> Z.testbit (tcsr t) i = true -> Z.testbit (tcsr (fst (tick_ref t))) i = true.
Proof.
  intros Hi H. unfold tick_ref. cbn [fst tcsr]. rewrite !Z.lor_spec, H. reflexivity.
Qed.
