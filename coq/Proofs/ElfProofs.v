(* Proofs about the ELF loader model (C11, C12): the sequential nom-style readers read the fields at the
   ELF32 offsets; the copy / relocation / argument loops produce the point-wise expected image. *)
From Coq Require Import Bool ZArith Lia List.
From K Require Import Lib.Types Lib.Bits Model.Machine Model.Bus Model.Elf Spec.ElfSpec.
Import ListNotations.
Open Scope bool_scope. Open Scope Z_scope.
Ltac Zify.zify_post_hook ::= Z.div_mod_to_equations.

(* ------------------------------------------------------------------ readers at offsets *)
Definition skz (f : list Z) (i : Z) : list Z := skipn (Z.to_nat i) f.

Lemma skz_cons f i : 0 <= i -> i < flen f -> skz f i = at8 f i :: skz f (i + 1).
Proof.
  unfold skz, at8, flen. intros H0 H1.
  replace (Z.to_nat (i + 1)) with (S (Z.to_nat i)) by lia.
  assert (Hn : (Z.to_nat i < length f)%nat) by lia. revert Hn. generalize (Z.to_nat i) as n.
  clear. induction f as [|x f IH]; intros n Hn; cbn [length] in Hn; [lia|].
  destruct n as [|n]; [reflexivity|]. cbn [skipn nth]. apply IH. lia.
Qed.

Lemma rd_u8_at f i : 0 <= i -> i + 1 <= flen f -> rd_u8 (skz f i) = Some (at8 f i, skz f (i + 1)).
Proof. intros H0 H1. rewrite skz_cons by lia. reflexivity. Qed.

Lemma rd_be16_at f i : 0 <= i -> i + 2 <= flen f -> rd_be16 (skz f i) = Some (at16 f i, skz f (i + 2)).
Proof.
  intros H0 H1. unfold rd_be16, rbind, rret. rewrite rd_u8_at by lia. rewrite rd_u8_at by lia.
  f_equal. f_equal; try reflexivity. apply (f_equal (skz f)); lia.
Qed.

Lemma rd_be32_at f i : 0 <= i -> i + 4 <= flen f -> rd_be32 (skz f i) = Some (at32 f i, skz f (i + 4)).
Proof.
  intros H0 H1. unfold rd_be32, rbind, rret. rewrite rd_be16_at by lia. rewrite rd_be16_at by lia.
  f_equal. f_equal; try reflexivity. apply (f_equal (skz f)); lia.
Qed.

Lemma rd_count_u8 f : forall n i, 0 <= i -> i + Z.of_nat n <= flen f ->
  exists l, rd_count n rd_u8 (skz f i) = Some (l, skz f (i + Z.of_nat n)).
Proof.
  induction n as [|n IH]; intros i H0 H1.
  - exists []. cbn [rd_count]. unfold rret. do 2 f_equal. apply (f_equal (skz f)); lia.
  - cbn [rd_count]. unfold rbind. rewrite rd_u8_at by lia.
    destruct (IH (i + 1)) as [l Hl]; [lia|lia|]. rewrite Hl. eexists. unfold rret. do 2 f_equal. apply (f_equal (skz f)); lia.
Qed.

(* a table of n fixed-size entries *)
Lemma rd_count_table {A} (r : reader A) (g : Z -> A) (sz : Z) f :
  0 < sz ->
  (forall i, 0 <= i -> i + sz <= flen f -> r (skz f i) = Some (g i, skz f (i + sz))) ->
  forall n o k, 0 <= o -> 0 <= k -> o + sz * (k + Z.of_nat n) <= flen f ->
  rd_count n r (skz f (o + sz * k)) = Some (map (fun j => g (o + sz * j)) (zrange_from k n), skz f (o + sz * (k + Z.of_nat n))).
Proof.
  intros Hsz Hr. induction n as [|n IH]; intros o k Ho Hk Hlen.
  - cbn [rd_count zrange_from map]. unfold rret. do 2 f_equal. apply (f_equal (skz f)); lia.
  - cbn [rd_count zrange_from map]. unfold rbind. rewrite Hr by nia.
    replace (o + sz * k + sz) with (o + sz * (k + 1)) by lia.
    rewrite IH by lia. unfold rret. do 2 f_equal. apply (f_equal (skz f)); lia.
Qed.

Lemma skz_0 f : skz f 0 = f. Proof. reflexivity. Qed.

(* ------------------------------------------------------------------ C11: the header fields are read at their ELF32 offsets *)
Definition phdr_at (f : list Z) (o : Z) : phdr :=
  mkPhdr (at32 f o) (at32 f (o + 4)) (at32 f (o + 8)) (at32 f (o + 12)) (at32 f (o + 16)) (at32 f (o + 20)).
Definition shdr_at (f : list Z) (o : Z) : shdr :=
  mkShdr (at32 f o) (at32 f (o + 12)) (at32 f (o + 16)) (at32 f (o + 20)) (at32 f (o + 24)) (at32 f (o + 36)).
Definition sym_at (f : list Z) (o : Z) : sym := mkSym (at32 f o) (at32 f (o + 4)).

Ltac fin :=
  repeat match goal with
  | |- skz ?f _ = skz ?f _ => apply (f_equal (skz f)); lia
  | |- at32 ?f _ = at32 ?f _ => apply (f_equal (at32 f)); lia
  | |- at16 ?f _ = at16 ?f _ => apply (f_equal (at16 f)); lia
  | |- at8 ?f _ = at8 ?f _ => apply (f_equal (at8 f)); lia
  | |- ?x = ?x => reflexivity
  | |- _ = _ => progress f_equal
  end.
Ltac reads :=
  unfold rbind, rret;
  repeat (first [ rewrite rd_be32_at by lia | rewrite rd_be16_at by lia | rewrite rd_u8_at by lia ]).

Lemma parse_phdr_at f o : 0 <= o -> o + 32 <= flen f ->
  parse_program_header32 (skz f o) = Some (phdr_at f o, skz f (o + 32)).
Proof.
  intros H0 H1. unfold parse_program_header32. reads. unfold phdr_at.
  fin.
Qed.

Lemma parse_shdr_at f o : 0 <= o -> o + 40 <= flen f ->
  parse_section_header32 (skz f o) = Some (shdr_at f o, skz f (o + 40)).
Proof.
  intros H0 H1. unfold parse_section_header32. reads. unfold shdr_at.
  fin.
Qed.

Lemma parse_sym_at f o : 0 <= o -> o + 16 <= flen f ->
  parse_symbol32 (skz f o) = Some (sym_at f o, skz f (o + 16)).
Proof.
  intros H0 H1. unfold parse_symbol32. reads. unfold sym_at.
  fin.
Qed.

Lemma parse_header_at f :
  52 <= flen f -> bytes_eq (firstn 4 f) [0x7f; 69; 76; 70] = true ->
  parse_elf_header32 f = Some (ref_ehdr f, skz f 52).
Proof.
  intros Hlen Hmagic. unfold parse_elf_header32.
  unfold rbind at 1. unfold rd_tag. cbn [length]. rewrite Hmagic.
  change (skipn 4 f) with (skz f 4).
  unfold rbind at 1. rewrite rd_u8_at by lia. unfold rbind at 1. rewrite rd_u8_at by lia.
  unfold rbind at 1. rewrite rd_u8_at by lia. unfold rbind at 1. rewrite rd_u8_at by lia.
  unfold rbind at 1. rewrite rd_u8_at by lia.
  unfold rbind at 1. destruct (rd_count_u8 f 7 (4 + 1 + 1 + 1 + 1 + 1)) as [l Hl]; [lia|cbn; lia|]. rewrite Hl.
  reads. unfold ref_ehdr. fin.
Qed.

Lemma phdrs_at f : 0 <= e_phoff (ref_ehdr f) -> 0 <= e_phnum (ref_ehdr f) ->
  e_phoff (ref_ehdr f) + 32 * e_phnum (ref_ehdr f) <= flen f ->
  exists rest, rd_count (Z.to_nat (e_phnum (ref_ehdr f))) parse_program_header32 (skz f (e_phoff (ref_ehdr f))) = Some (ref_phdrs f, rest).
Proof.
  intros H0 Hn H1.
  pose proof (rd_count_table parse_program_header32 (phdr_at f) 32 f ltac:(lia) (parse_phdr_at f)
                (Z.to_nat (e_phnum (ref_ehdr f))) (e_phoff (ref_ehdr f)) 0 H0 ltac:(lia) ltac:(lia)) as H.
  replace (e_phoff (ref_ehdr f) + 32 * 0) with (e_phoff (ref_ehdr f)) in H by lia.
  eexists. rewrite H. f_equal.
Qed.

Lemma shdrs_at f : 0 <= e_shoff (ref_ehdr f) -> 0 <= e_shnum (ref_ehdr f) ->
  e_shoff (ref_ehdr f) + 40 * e_shnum (ref_ehdr f) <= flen f ->
  exists rest, rd_count (Z.to_nat (e_shnum (ref_ehdr f))) parse_section_header32 (skz f (e_shoff (ref_ehdr f))) = Some (ref_shdrs f, rest).
Proof.
  intros H0 Hn H1.
  pose proof (rd_count_table parse_section_header32 (shdr_at f) 40 f ltac:(lia) (parse_shdr_at f)
                (Z.to_nat (e_shnum (ref_ehdr f))) (e_shoff (ref_ehdr f)) 0 H0 ltac:(lia) ltac:(lia)) as H.
  replace (e_shoff (ref_ehdr f) + 40 * 0) with (e_shoff (ref_ehdr f)) in H by lia.
  eexists. rewrite H. f_equal.
Qed.

(* ------------------------------------------------------------------ DRAM writes of the loader *)
Lemma bset_dram_twice d1 d2 b : bset_dram d2 (bset_dram d1 b) = bset_dram d2 b.
Proof. reflexivity. Qed.
Lemma b_dram_bset d b : b_dram (bset_dram d b) = d.
Proof. reflexivity. Qed.

Lemma dram_copy_spec : forall bs b i, 0 <= i -> i + Z.of_nat (length bs) <= DRAM_SIZE ->
  exists d', dram_copy b i bs = Some (bset_dram d' b) /\
    forall j, 0 <= j -> sget d' j = if (i <=? j) && (j <? i + Z.of_nat (length bs)) then nth (Z.to_nat (j - i)) bs 0 else sget (b_dram b) j.
Proof.
  induction bs as [|v t IH]; intros b i H0 H1.
  - exists (b_dram b). split; [destruct b; reflexivity|]. intros j Hj. cbn [length].
    destruct (i <=? j) eqn:E1; destruct (j <? i + Z.of_nat 0) eqn:E2; try reflexivity. lia.
  - cbn [length] in H1. cbn [dram_copy]. unfold dram_put.
    replace ((0 <=? i) && (i <? DRAM_SIZE)) with true by (symmetry; apply andb_true_iff; split; lia).
    destruct (IH (bset_dram (sset (b_dram b) i v) b) (i + 1)) as [d' [Hc Hd]]; [lia|lia|].
    exists d'. split; [rewrite Hc; reflexivity|].
    intros j Hj. rewrite Hd by lia. rewrite b_dram_bset. cbn [length].
    destruct (Z.eq_dec j i) as [->|Hne].
    + replace ((i + 1 <=? i) && (i <? i + 1 + Z.of_nat (length t))) with false by (symmetry; apply andb_false_iff; left; lia).
      rewrite sget_sset by lia. rewrite Z.eqb_refl.
      replace ((i <=? i) && (i <? i + Z.of_nat (S (length t)))) with true by (symmetry; apply andb_true_iff; split; lia).
      replace (i - i) with 0 by lia. reflexivity.
    + rewrite sget_sset by lia. replace (i =? j) with false by lia.
      destruct (i + 1 <=? j) eqn:E1; destruct (j <? i + 1 + Z.of_nat (length t)) eqn:E2; cbn [andb];
        destruct (i <=? j) eqn:E3; destruct (j <? i + Z.of_nat (S (length t))) eqn:E4; cbn [andb]; try lia; try reflexivity.
      replace (Z.to_nat (j - i)) with (S (Z.to_nat (j - (i + 1)))) by lia. reflexivity.
Qed.

Lemma dram_copy_none_effect bs b i b' : dram_copy b i bs = Some b' -> exists d', b' = bset_dram d' b.
Proof.
  revert b i. induction bs as [|v t IH]; intros b i H.
  - cbn in H. injection H as <-. exists (b_dram b). destruct b; reflexivity.
  - cbn [dram_copy] in H. unfold dram_put in H. destruct ((0 <=? i) && (i <? DRAM_SIZE)); [|discriminate].
    destruct (IH _ _ H) as [d' ->]. exists d'. reflexivity.
Qed.

(* bytes of the file *)
Lemma nth_firstn_lt {A} (d : A) : forall (l : list A) n k, (k < n)%nat -> nth k (firstn n l) d = nth k l d.
Proof.
  induction l as [|x l IH]; intros n k H; [now rewrite firstn_nil|].
  destruct n as [|n]; [lia|]. destruct k as [|k]; [reflexivity|]. cbn [firstn nth]. apply IH. lia.
Qed.
Lemma nth_skipn_add {A} (d : A) : forall (l : list A) m k, nth k (skipn m l) d = nth (m + k) l d.
Proof.
  induction l as [|x l IH]; intros m k; [rewrite skipn_nil; now destruct k, m|].
  destruct m as [|m]; [reflexivity|]. cbn [skipn plus nth]. apply IH.
Qed.
Lemma nth_firstn_skz f off n k : 0 <= off -> 0 <= k < n -> off + n <= flen f ->
  nth (Z.to_nat k) (firstn (Z.to_nat n) (skz f off)) 0 = at8 f (off + k).
Proof.
  intros H0 Hk Hn. unfold skz, at8.
  rewrite nth_firstn_lt by lia. rewrite nth_skipn_add. f_equal. lia.
Qed.

Lemma length_firstn_skz f off n : 0 <= off -> 0 <= n -> off + n <= flen f ->
  Z.of_nat (length (firstn (Z.to_nat n) (skz f off))) = n.
Proof.
  intros H0 H1 H2. unfold skz, flen in *. rewrite firstn_length, skipn_length. lia.
Qed.

Lemma slice_from_ok f off : 0 <= off -> off <= flen f -> slice_from f off = Some (skz f off).
Proof.
  intros H0 H1. unfold slice_from. fold (flen f).
  replace ((0 <=? off) && (off <=? flen f)) with true by (symmetry; apply andb_true_iff; split; lia). reflexivity.
Qed.

(* ------------------------------------------------------------------ C11: segments *)
Definition seg_val (f : list Z) (l : list phdr) (d : Z -> Z) (i : Z) : Z :=
  match find (fun ph => covers ph (i - OFF)) l with
  | Some ph => at8 f (p_offset ph + ((i - OFF) - p_vaddr ph))
  | None => d i
  end.

Definition seg_ok (f : list Z) (ph : phdr) : Prop :=
  is_load ph = true ->
  0 <= p_offset ph /\ 0 <= p_filesz ph /\ p_offset ph + p_filesz ph <= flen f /\ 0 <= p_vaddr ph /\ OFF + p_vaddr ph + p_filesz ph <= DRAM_SIZE.

Lemma load_segment_spec f b ph : seg_ok f ph ->
  exists d', load_segment f b ph = Some (bset_dram d' b) /\
    forall j, 0 <= j -> sget d' j = if covers ph (j - OFF) then at8 f (p_offset ph + ((j - OFF) - p_vaddr ph)) else sget (b_dram b) j.
Proof.
  intros Hok. unfold load_segment, covers. unfold seg_ok, is_load in *.
  destruct (p_type ph =? 1) eqn:Ety.
  - destruct (Hok eq_refl) as (Ho & Hf & Hlen & Hv & Htop).
    rewrite slice_from_ok by lia.
    assert (Hl : Z.of_nat (length (skz f (p_offset ph))) = flen f - p_offset ph).
    { unfold skz, flen. rewrite skipn_length. unfold flen in Hlen. lia. }
    replace (p_filesz ph <=? Z.of_nat (length (skz f (p_offset ph)))) with true by lia.
    assert (Hfl := length_firstn_skz f (p_offset ph) (p_filesz ph) Ho Hf Hlen).
    destruct (dram_copy_spec (firstn (Z.to_nat (p_filesz ph)) (skz f (p_offset ph))) b (OFF + p_vaddr ph)) as [d' [Hc Hd]].
    { unfold OFF, PROGRAM_START_ADDR, DRAM_START. lia. }
    { rewrite Hfl. lia. }
    exists d'. split; [exact Hc|]. intros j Hj. rewrite Hd by lia. rewrite Hfl. cbn [andb].
    destruct (p_vaddr ph <=? j - OFF) eqn:E1; destruct (j - OFF <? p_vaddr ph + p_filesz ph) eqn:E2;
      destruct (OFF + p_vaddr ph <=? j) eqn:E3; destruct (j <? OFF + p_vaddr ph + p_filesz ph) eqn:E4; cbn [andb]; try lia; try reflexivity.
    replace (j - (OFF + p_vaddr ph)) with (j - OFF - p_vaddr ph) by lia.
    apply nth_firstn_skz; lia.
  - exists (b_dram b). split; [destruct b; reflexivity|]. intros j Hj. reflexivity.
Qed.

Lemma find_app {A} (p : A -> bool) l1 l2 : find p (l1 ++ l2) = match find p l1 with Some x => Some x | None => find p l2 end.
Proof. induction l1 as [|x l1 IH]; [reflexivity|]. cbn [app find]. destruct (p x); [reflexivity|exact IH]. Qed.

Lemma load_segments_spec f : forall phs b, Forall (seg_ok f) phs ->
  exists d', load_segments f b phs = Some (bset_dram d' b) /\
    forall j, 0 <= j -> sget d' j = seg_val f (rev phs) (sget (b_dram b)) j.
Proof.
  induction phs as [|ph t IH]; intros b Hall.
  - exists (b_dram b). split; [destruct b; reflexivity|]. intros j Hj. reflexivity.
  - inversion Hall as [|? ? Hph Ht]; subst.
    destruct (load_segment_spec f b ph Hph) as [d1 [H1 Hd1]].
    cbn [load_segments]. rewrite H1.
    destruct (IH (bset_dram d1 b) Ht) as [d' [H2 Hd']].
    exists d'. split; [rewrite H2; reflexivity|].
    intros j Hj. rewrite Hd' by lia. unfold seg_val. cbn [rev]. rewrite find_app. rewrite b_dram_bset.
    destruct (find (fun ph0 => covers ph0 (j - OFF)) (rev t)); [reflexivity|].
    cbn [find]. rewrite Hd1 by lia. destruct (covers ph (j - OFF)); reflexivity.
Qed.

(* ------------------------------------------------------------------ C11: GOT relocation *)
Definition wordz (d : Z -> Z) (e : Z) : Z := d e * 16777216 + d (e + 1) * 65536 + d (e + 2) * 256 + d (e + 3).

Lemma put_be32_spec b i v : 0 <= i -> i + 4 <= DRAM_SIZE ->
  exists d', put_be32 b i v = Some (bset_dram d' b) /\
    forall j, 0 <= j -> sget d' j = if (i <=? j) && (j <? i + 4) then byte_of v (j - i) else sget (b_dram b) j.
Proof.
  intros H0 H1. unfold put_be32.
  destruct (dram_copy_spec [(v / 16777216) mod 256; (v / 65536) mod 256; (v / 256) mod 256; v mod 256] b i H0) as [d' [Hc Hd]].
  { cbn [length]. lia. }
  exists d'. split; [exact Hc|]. intros j Hj. rewrite Hd by lia. cbn [length].
  change (Z.of_nat 4) with 4.
  destruct ((i <=? j) && (j <? i + 4)) eqn:E; [|reflexivity].
  apply andb_true_iff in E. destruct E as [E1 E2].
  assert (Hc4 : j - i = 0 \/ j - i = 1 \/ j - i = 2 \/ j - i = 3) by lia.
  destruct Hc4 as [-> | [-> | [-> | ->]]]; try reflexivity.
  cbn [Z.to_nat Pos.to_nat Pos.iter_op Init.Nat.add nth]. unfold byte_of. cbn [Z.sub Z.pow Z.opp Z.pos_sub Z.add Z.pow_pos Pos.iter Z.mul Pos.mul].
  rewrite Z.div_1_r. reflexivity.
Qed.

Lemma relocate_got_spec : forall n b i, 0 <= i -> i + 4 * Z.of_nat n <= DRAM_SIZE ->
  exists d', relocate_got b i n = Some (bset_dram d' b) /\
    forall j, 0 <= j -> sget d' j =
      if (i <=? j) && (j <? i + 4 * Z.of_nat n)
      then byte_of ((wordz (sget (b_dram b)) (i + 4 * ((j - i) / 4)) + BASE) mod 4294967296) ((j - i) mod 4)
      else sget (b_dram b) j.
Proof.
  induction n as [|n IH]; intros b i H0 H1.
  - exists (b_dram b). split; [destruct b; reflexivity|]. intros j Hj.
    replace ((i <=? j) && (j <? i + 4 * Z.of_nat 0)) with false by (symmetry; apply andb_false_iff; lia). reflexivity.
  - cbn [relocate_got]. unfold dram_get.
    replace ((0 <=? i) && (i <? DRAM_SIZE)) with true by (symmetry; apply andb_true_iff; split; lia).
    replace ((0 <=? i + 1) && (i + 1 <? DRAM_SIZE)) with true by (symmetry; apply andb_true_iff; split; lia).
    replace ((0 <=? i + 2) && (i + 2 <? DRAM_SIZE)) with true by (symmetry; apply andb_true_iff; split; lia).
    replace ((0 <=? i + 3) && (i + 3 <? DRAM_SIZE)) with true by (symmetry; apply andb_true_iff; split; lia).
    fold (wordz (sget (b_dram b)) i).
    destruct (put_be32_spec b i ((wordz (sget (b_dram b)) i + PROGRAM_START_ADDR) mod 4294967296)) as [d1 [Hp Hd1]]; [lia|lia|].
    rewrite Hp.
    destruct (IH (bset_dram d1 b) (i + 4)) as [d' [Hr Hd']]; [lia|lia|].
    exists d'. split; [rewrite Hr; reflexivity|].
    intros j Hj. rewrite Hd' by lia. rewrite b_dram_bset.
    destruct ((i + 4 <=? j) && (j <? i + 4 + 4 * Z.of_nat n)) eqn:E.
    + apply andb_true_iff in E. destruct E as [E1 E2].
      replace ((i <=? j) && (j <? i + 4 * Z.of_nat (S n))) with true by (symmetry; apply andb_true_iff; split; lia).
      replace (i + 4 + 4 * ((j - (i + 4)) / 4)) with (i + 4 * ((j - i) / 4)) by lia.
      replace ((j - (i + 4)) mod 4) with ((j - i) mod 4) by lia.
      assert (He : i + 4 <= i + 4 * ((j - i) / 4)) by lia.
      unfold wordz. rewrite !Hd1 by lia.
      set (e := i + 4 * ((j - i) / 4)) in *.
      replace ((i <=? e) && (e <? i + 4)) with false by (symmetry; apply andb_false_iff; lia).
      replace ((i <=? e + 1) && (e + 1 <? i + 4)) with false by (symmetry; apply andb_false_iff; lia).
      replace ((i <=? e + 2) && (e + 2 <? i + 4)) with false by (symmetry; apply andb_false_iff; lia).
      replace ((i <=? e + 3) && (e + 3 <? i + 4)) with false by (symmetry; apply andb_false_iff; lia).
      reflexivity.
    + rewrite Hd1 by lia.
      destruct ((i <=? j) && (j <? i + 4)) eqn:E2.
      * apply andb_true_iff in E2. destruct E2 as [E3 E4].
        replace ((i <=? j) && (j <? i + 4 * Z.of_nat (S n))) with true by (symmetry; apply andb_true_iff; split; lia).
        replace ((j - i) / 4) with 0 by lia. replace ((j - i) mod 4) with (j - i) by lia.
        replace (i + 4 * 0) with i by lia. reflexivity.
      * replace ((i <=? j) && (j <? i + 4 * Z.of_nat (S n))) with false; [reflexivity|].
        symmetry. apply andb_false_iff. apply andb_false_iff in E. apply andb_false_iff in E2. lia.
Qed.

(* ------------------------------------------------------------------ C12: the argument block *)
Fixpoint strs_len (ws : list (list Z)) : Z :=
  match ws with [] => 0 | w :: t => Z.of_nat (length w) + 1 + strs_len t end.
Definition strs (ws : list (list Z)) : list Z := flat_map (fun w => w ++ [0]) ws.
Definition ptrs (a : Z) (ws : list (list Z)) : list Z := flat_map be32_bytes (str_addrs a ws).

Lemma strs_len_nonneg ws : 0 <= strs_len ws.
Proof. induction ws as [|w t IH]; cbn [strs_len]; lia. Qed.
Lemma length_strs ws : Z.of_nat (length (strs ws)) = strs_len ws.
Proof.
  induction ws as [|w t IH]; [reflexivity|]. unfold strs in *. cbn [flat_map strs_len].
  rewrite !app_length. cbn [length]. lia.
Qed.
Lemma length_ptrs ws : forall a, Z.of_nat (length (ptrs a ws)) = 4 * Z.of_nat (length ws).
Proof.
  induction ws as [|w t IH]; intros a; [reflexivity|]. unfold ptrs in *. cbn [str_addrs flat_map].
  rewrite app_length. cbn [length be32_bytes]. rewrite Nat2Z.inj_add. rewrite IH. lia.
Qed.

Lemma nth_app_l {A} (d : A) l1 l2 k : 0 <= k < Z.of_nat (length l1) -> nth (Z.to_nat k) (l1 ++ l2) d = nth (Z.to_nat k) l1 d.
Proof. intros H. apply app_nth1. lia. Qed.
Lemma nth_app_r {A} (d : A) l1 l2 k : Z.of_nat (length l1) <= k -> nth (Z.to_nat k) (l1 ++ l2) d = nth (Z.to_nat (k - Z.of_nat (length l1))) l2 d.
Proof. intros H. rewrite app_nth2 by lia. f_equal. lia. Qed.

Lemma nth_be32_bytes v k : 0 <= k < 4 -> nth (Z.to_nat k) (be32_bytes v) 0 = byte_of v k.
Proof.
  intros H. assert (Hc : k = 0 \/ k = 1 \/ k = 2 \/ k = 3) by lia. destruct Hc as [-> | [-> | [-> | ->]]]; reflexivity.
Qed.

Lemma put_args_spec : forall ws b argp a,
  DRAM_START <= argp -> argp + 4 * Z.of_nat (length ws) <= a -> a + strs_len ws <= DRAM_START + DRAM_SIZE ->
  exists d', put_args b argp a ws = Some (bset_dram d' b) /\
    forall j, 0 <= j -> sget d' j =
      if (argp - DRAM_START <=? j) && (j <? argp - DRAM_START + 4 * Z.of_nat (length ws))
      then nth (Z.to_nat (j - (argp - DRAM_START))) (ptrs a ws) 0
      else if (a - DRAM_START <=? j) && (j <? a - DRAM_START + strs_len ws)
      then nth (Z.to_nat (j - (a - DRAM_START))) (strs ws) 0
      else sget (b_dram b) j.
Proof.
  induction ws as [|w t IH]; intros b argp a Hp Hpa Htop.
  - exists (b_dram b). split; [destruct b; reflexivity|]. intros j Hj. cbn [length strs_len].
    replace ((argp - DRAM_START <=? j) && (j <? argp - DRAM_START + 4 * Z.of_nat 0)) with false by (symmetry; apply andb_false_iff; lia).
    replace ((a - DRAM_START <=? j) && (j <? a - DRAM_START + 0)) with false by (symmetry; apply andb_false_iff; lia).
    reflexivity.
  - cbn [length strs_len] in *. pose proof (strs_len_nonneg t) as Hsn.
    cbn [put_args].
    destruct (put_be32_spec b (argp - DRAM_START) a) as [d1 [H1 Hd1]]; [lia|lia|]. rewrite H1.
    destruct (dram_copy_spec (w ++ [0]) (bset_dram d1 b) (a - DRAM_START)) as [d2 [H2 Hd2]]; [lia|rewrite app_length; cbn [length]; lia|].
    rewrite H2. rewrite bset_dram_twice.
    destruct (IH (bset_dram d2 b) (argp + 4) (a + Z.of_nat (length w) + 1)) as [d' [H3 Hd']]; [lia|lia|lia|].
    exists d'. split; [rewrite H3; reflexivity|].
    intros j Hj. rewrite Hd' by lia. rewrite b_dram_bset. rewrite Hd2 by lia. rewrite b_dram_bset. rewrite Hd1 by lia.
    rewrite app_length. cbn [length].
    set (p := argp - DRAM_START) in *. set (q := a - DRAM_START) in *.
    replace (argp + 4 - DRAM_START) with (p + 4) by (subst p; lia).
    replace (a + Z.of_nat (length w) + 1 - DRAM_START) with (q + Z.of_nat (length w) + 1) by (subst q; lia).
    unfold ptrs, strs. cbn [str_addrs flat_map]. fold (ptrs (a + Z.of_nat (length w) + 1) t). fold (strs t).
    assert (Hpq : p + 4 * Z.of_nat (S (length t)) <= q) by (subst p q; lia).
    destruct ((p + 4 <=? j) && (j <? p + 4 + 4 * Z.of_nat (length t))) eqn:E1.
    + apply andb_true_iff in E1. destruct E1 as [Ea Eb].
      replace ((p <=? j) && (j <? p + 4 * Z.of_nat (S (length t)))) with true by (symmetry; apply andb_true_iff; split; lia).
      rewrite nth_app_r by (cbn [length be32_bytes]; lia). cbn [length be32_bytes]. f_equal. lia.
    + destruct ((q + Z.of_nat (length w) + 1 <=? j) && (j <? q + Z.of_nat (length w) + 1 + strs_len t)) eqn:E2.
      * apply andb_true_iff in E2. destruct E2 as [Ea Eb].
        replace ((p <=? j) && (j <? p + 4 * Z.of_nat (S (length t)))) with false by (symmetry; apply andb_false_iff; lia).
        replace ((q <=? j) && (j <? q + (Z.of_nat (length w) + 1 + strs_len t))) with true by (symmetry; apply andb_true_iff; split; lia).
        rewrite (nth_app_r 0 (w ++ [0]) (strs t) (j - q)). 2:{ rewrite app_length; cbn [length]; lia. } rewrite app_length. cbn [length]. f_equal. lia.
      * destruct ((q <=? j) && (j <? q + Z.of_nat (length w + 1))) eqn:E3.
        -- apply andb_true_iff in E3. destruct E3 as [Ea Eb].
           replace ((p <=? j) && (j <? p + 4 * Z.of_nat (S (length t)))) with false by (symmetry; apply andb_false_iff; lia).
           replace ((q <=? j) && (j <? q + (Z.of_nat (length w) + 1 + strs_len t))) with true by (symmetry; apply andb_true_iff; split; lia).
           rewrite (nth_app_l 0 (w ++ [0]) (strs t) (j - q)). 2:{ rewrite app_length; cbn [length]; lia. } reflexivity.
        -- apply andb_false_iff in E1. apply andb_false_iff in E2. apply andb_false_iff in E3.
           destruct ((p <=? j) && (j <? p + 4)) eqn:E4.
           ++ apply andb_true_iff in E4. destruct E4 as [Ea Eb].
              replace ((p <=? j) && (j <? p + 4 * Z.of_nat (S (length t)))) with true by (symmetry; apply andb_true_iff; split; lia).
              rewrite nth_app_l by (cbn [length be32_bytes]; lia). symmetry. apply nth_be32_bytes. lia.
           ++ apply andb_false_iff in E4.
              replace ((p <=? j) && (j <? p + 4 * Z.of_nat (S (length t)))) with false by (symmetry; apply andb_false_iff; lia).
              replace ((q <=? j) && (j <? q + (Z.of_nat (length w) + 1 + strs_len t))) with false by (symmetry; apply andb_false_iff; lia).
              reflexivity.
Qed.

Lemma arg_block_eq at_ ws : arg_block at_ ws = ptrs (at_ + 4 * (Z.of_nat (length ws) + 1)) ws ++ [0; 0; 0; 0] ++ strs ws.
Proof. reflexivity. Qed.

Lemma length_arg_block at_ ws : Z.of_nat (length (arg_block at_ ws)) = 4 * Z.of_nat (length ws) + 4 + strs_len ws.
Proof. rewrite arg_block_eq. rewrite !app_length. cbn [length]. pose proof (length_ptrs ws (at_ + 4 * (Z.of_nat (length ws) + 1))). pose proof (length_strs ws). lia. Qed.

Lemma arg_block_dram ws b at_ :
  DRAM_START <= at_ -> at_ + 4 * (Z.of_nat (length ws) + 1) + strs_len ws <= DRAM_START + DRAM_SIZE ->
  (forall j, at_ - DRAM_START + 4 * Z.of_nat (length ws) <= j < at_ - DRAM_START + 4 * Z.of_nat (length ws) + 4 -> sget (b_dram b) j = 0) ->
  exists d', put_args b at_ (at_ + 4 * (Z.of_nat (length ws) + 1)) ws = Some (bset_dram d' b) /\
    forall j, 0 <= j -> sget d' j =
      if (at_ - DRAM_START <=? j) && (j <? at_ - DRAM_START + Z.of_nat (length (arg_block at_ ws)))
      then nth (Z.to_nat (j - (at_ - DRAM_START))) (arg_block at_ ws) 0 else sget (b_dram b) j.
Proof.
  intros H0 Htop Hz. pose proof (strs_len_nonneg ws) as Hsn.
  destruct (put_args_spec ws b at_ (at_ + 4 * (Z.of_nat (length ws) + 1))) as [d' [Hp Hd]]; [lia|lia|lia|].
  exists d'. split; [exact Hp|]. intros j Hj. rewrite Hd by lia. rewrite length_arg_block. rewrite arg_block_eq.
  set (p := at_ - DRAM_START) in *. set (n := Z.of_nat (length ws)) in *.
  replace (at_ + 4 * (n + 1) - DRAM_START) with (p + 4 * n + 4) by (subst p; lia).
  pose proof (length_ptrs ws (at_ + 4 * (n + 1))) as Hlp. fold n in Hlp.
  destruct ((p <=? j) && (j <? p + 4 * n)) eqn:E1.
  - apply andb_true_iff in E1. destruct E1 as [Ea Eb].
    replace ((p <=? j) && (j <? p + (4 * n + 4 + strs_len ws))) with true by (symmetry; apply andb_true_iff; split; lia).
    rewrite nth_app_l by lia. reflexivity.
  - apply andb_false_iff in E1.
    destruct ((p + 4 * n + 4 <=? j) && (j <? p + 4 * n + 4 + strs_len ws)) eqn:E2.
    + apply andb_true_iff in E2. destruct E2 as [Ea Eb].
      replace ((p <=? j) && (j <? p + (4 * n + 4 + strs_len ws))) with true by (symmetry; apply andb_true_iff; split; lia).
      rewrite nth_app_r by lia. rewrite Hlp.
      rewrite (nth_app_r 0 [0; 0; 0; 0] (strs ws)) by (cbn [length]; lia). cbn [length]. f_equal. lia.
    + apply andb_false_iff in E2.
      destruct ((p <=? j) && (j <? p + (4 * n + 4 + strs_len ws))) eqn:E3; [|reflexivity].
      apply andb_true_iff in E3. destruct E3 as [Ea Eb].
      rewrite Hz by lia.
      rewrite nth_app_r by lia. rewrite Hlp.
      rewrite (nth_app_l 0 [0; 0; 0; 0] (strs ws)) by (cbn [length]; lia).
      assert (Hc : j - p - 4 * n = 0 \/ j - p - 4 * n = 1 \/ j - p - 4 * n = 2 \/ j - p - 4 * n = 3) by lia.
      destruct Hc as [-> | [-> | [-> | ->]]]; reflexivity.
Qed.

(* ------------------------------------------------------------------ words, names *)
Lemma is_ws_blank c : is_ws c = blank c.
Proof.
  unfold is_ws, blank.
  destruct (c =? 32) eqn:E32; [reflexivity|]. cbn [orb].
  destruct (c =? 9) eqn:E9; [replace (9 <=? c) with true by lia; replace (c <=? 13) with true by lia; reflexivity|].
  destruct (c =? 10) eqn:E10; [replace (9 <=? c) with true by lia; replace (c <=? 13) with true by lia; reflexivity|].
  destruct (c =? 11) eqn:E11; [replace (9 <=? c) with true by lia; replace (c <=? 13) with true by lia; reflexivity|].
  destruct (c =? 12) eqn:E12; [replace (9 <=? c) with true by lia; replace (c <=? 13) with true by lia; reflexivity|].
  destruct (c =? 13) eqn:E13; [replace (9 <=? c) with true by lia; replace (c <=? 13) with true by lia; reflexivity|].
  cbn [orb]. destruct (9 <=? c) eqn:Ea; destruct (c <=? 13) eqn:Eb; try reflexivity. lia.
Qed.

Lemma split_ws_words : forall l cur, split_ws l cur = words_of l (rev cur).
Proof.
  induction l as [|c t IH]; intros cur.
  - cbn [split_ws words_of]. destruct cur as [|x cur]; [reflexivity|].
    cbn [rev]. rewrite app_length. cbn [length]. replace (length (rev cur) + 1 =? 0)%nat with false by (symmetry; apply Nat.eqb_neq; lia). reflexivity.
  - cbn [split_ws words_of]. rewrite is_ws_blank. destruct (blank c).
    + destruct cur as [|x cur]; [apply (IH [])|].
      cbn [rev]. rewrite app_length. cbn [length]. replace (length (rev cur) + 1 =? 0)%nat with false by (symmetry; apply Nat.eqb_neq; lia).
      f_equal. apply (IH []).
    + rewrite IH. reflexivity.
Qed.

Lemma argv_words_model args : prog_name :: split_ws args [] = argv_words args.
Proof. unfold argv_words. now rewrite split_ws_words. Qed.

Lemma bytes_eq_eq : forall a b, bytes_eq a b = true -> a = b.
Proof.
  induction a as [|x a IH]; intros [|y b] H; cbn [bytes_eq] in H; try discriminate; [reflexivity|].
  apply andb_true_iff in H. destruct H as [H1 H2]. f_equal; [lia|auto].
Qed.
Lemma bytes_eq_refl : forall a, bytes_eq a a = true.
Proof. induction a as [|x a IH]; [reflexivity|]. cbn [bytes_eq]. now rewrite Z.eqb_refl, IH. Qed.

Lemma parse_str_cstr : forall l s, parse_str l = Some s -> cstr l = Some s.
Proof.
  induction l as [|c t IH]; intros s H; cbn [parse_str cstr] in *; [discriminate|].
  destruct (c =? 0); [exact H|]. destruct (is_graphic c); [|discriminate].
  destruct (parse_str t) as [s'|]; [|discriminate]. injection H as <-. now rewrite (IH s' eq_refl).
Qed.
Lemma cstr_parse_str : forall l s, cstr l = Some s -> forallb is_graphic s = true -> parse_str l = Some s.
Proof.
  induction l as [|c t IH]; intros s H G; cbn [parse_str cstr] in *; [discriminate|].
  destruct (c =? 0); [exact H|].
  destruct (cstr t) as [s'|]; [|discriminate]. cbn [option_map] in H. injection H as <-.
  cbn [forallb] in G. apply andb_true_iff in G. destruct G as [G1 G2]. rewrite G1. now rewrite (IH s' eq_refl G2).
Qed.
Lemma parse_str_graphic : forall l s, parse_str l = Some s -> forallb is_graphic s = true.
Proof.
  induction l as [|c t IH]; intros s H; cbn [parse_str] in *; [discriminate|].
  destruct (c =? 0); [injection H as <-; reflexivity|]. destruct (is_graphic c) eqn:G; [|discriminate].
  destruct (parse_str t) as [s'|]; [|discriminate]. injection H as <-. cbn [forallb]. now rewrite G, (IH s' eq_refl).
Qed.

(* the test "is this the name nm" gives the same answer through either string reader when nm is graphic *)
Lemma name_test_agrees l nm : forallb is_graphic nm = true ->
  match parse_str l with Some s => bytes_eq s nm | None => false end =
  match cstr l with Some s => bytes_eq s nm | None => false end.
Proof.
  intros G. destruct (parse_str l) as [s|] eqn:E.
  - now rewrite (parse_str_cstr l s E).
  - destruct (cstr l) as [s|] eqn:E2; [|reflexivity].
    destruct (bytes_eq s nm) eqn:E3; [|reflexivity].
    apply bytes_eq_eq in E3. subst s. rewrite (cstr_parse_str l nm E2 G) in E. discriminate.
Qed.

(* ------------------------------------------------------------------ bytes are non-negative *)
Definition bytes_ok (f : list Z) : Prop := forallb (fun b => (0 <=? b) && (b <=? 255)) f = true.
Lemma at8_range f i : bytes_ok f -> 0 <= at8 f i <= 255.
Proof.
  intros H. unfold at8. destruct (nth_in_or_default (Z.to_nat i) f 0) as [Hin | ->]; [|lia].
  unfold bytes_ok in H. rewrite forallb_forall in H. specialize (H _ Hin). lia.
Qed.
Lemma at16_range f i : bytes_ok f -> 0 <= at16 f i <= 65535.
Proof. intros H. unfold at16. pose proof (at8_range f i H). pose proof (at8_range f (i + 1) H). lia. Qed.
Lemma at32_range f i : bytes_ok f -> 0 <= at32 f i <= 4294967295.
Proof. intros H. unfold at32. pose proof (at16_range f i H). pose proof (at16_range f (i + 2) H). lia. Qed.

Lemma nth_error_map_zrange_from {A} (g : Z -> A) : forall n s k, (k < n)%nat ->
  nth_error (map g (zrange_from s n)) k = Some (g (s + Z.of_nat k)).
Proof.
  induction n as [|n IH]; intros s k H; [lia|]. cbn [zrange_from map].
  destruct k as [|k]; [cbn [nth_error]; do 2 f_equal; lia|].
  cbn [nth_error]. rewrite IH by lia. do 2 f_equal. lia.
Qed.
Lemma nth_error_ref_shdrs f k : 0 <= k < e_shnum (ref_ehdr f) ->
  nth_error (ref_shdrs f) (Z.to_nat k) = Some (ref_shdr f k).
Proof.
  intros H. unfold ref_shdrs, zrange. rewrite nth_error_map_zrange_from by lia. do 2 f_equal. lia.
Qed.

Lemma skipn_add {A} : forall (l : list A) a b, skipn a (skipn b l) = skipn (b + a) l.
Proof.
  induction l as [|x l IH]; intros a b; [now rewrite !skipn_nil|].
  destruct b as [|b]; [reflexivity|]. cbn [skipn plus]. apply IH.
Qed.
Lemma skz_skz f a b : 0 <= a -> 0 <= b -> skipn (Z.to_nat a) (skz f b) = skz f (b + a).
Proof. intros Ha Hb. unfold skz. rewrite skipn_add. f_equal. lia. Qed.
Lemma length_skz f b : 0 <= b <= flen f -> Z.of_nat (length (skz f b)) = flen f - b.
Proof. intros H. unfold skz, flen in *. rewrite skipn_length. lia. Qed.

Lemma slice_skz f b a : 0 <= b -> 0 <= a -> b + a <= flen f -> slice_from (skz f b) a = Some (skz f (b + a)).
Proof.
  intros Hb Ha Hl. unfold slice_from. rewrite length_skz by lia.
  replace ((0 <=? a) && (a <=? flen f - b)) with true by (symmetry; apply andb_true_iff; split; lia).
  now rewrite skz_skz.
Qed.

Lemma cstr_at_some f off s : cstr_at f off = Some s -> 0 <= off <= flen f /\ cstr (skz f off) = Some s.
Proof.
  unfold cstr_at. destruct ((0 <=? off) && (off <=? flen f)) eqn:E; [|discriminate].
  apply andb_true_iff in E. intros H. split; [lia|exact H].
Qed.

Definition name_ok (f : list Z) (stroff : Z) (sh : shdr) : Prop :=
  0 <= sh_name sh /\ exists s, cstr_at f (stroff + sh_name sh) = Some s /\ forallb is_graphic s = true.

Lemma section_names_spec f stroff : 0 <= stroff -> forall shs, Forall (name_ok f stroff) shs ->
  exists names, section_names (skz f stroff) shs = Some names /\
    Forall2 (fun nm sh => cstr_at f (stroff + sh_name sh) = Some nm) names shs.
Proof.
  intros H0. induction shs as [|sh t IH]; intros Hall.
  - exists []. split; [reflexivity|constructor].
  - inversion Hall as [|? ? [Hn [s [Hs Hg]]] Ht]; subst.
    destruct (IH Ht) as [names [Hns Hf2]].
    destruct (cstr_at_some _ _ _ Hs) as [Hb Hc].
    cbn [section_names]. rewrite slice_skz by lia. rewrite (cstr_parse_str _ _ Hc Hg). rewrite Hns.
    exists (s :: names). split; [reflexivity|]. constructor; assumption.
Qed.

(* ------------------------------------------------------------------ C12: ___exit through the symbol table *)
Definition is_exit_sym (f : list Z) (stroff : Z) (sy : sym) : bool :=
  match cstr_at f (stroff + st_name sy) with Some s => bytes_eq s n_exit | None => false end.

Lemma sym_fold f stroff : 0 <= stroff -> forall syms st,
  Forall (fun sy => 0 <= st_name sy /\ stroff + st_name sy <= flen f) syms ->
  fold_left (sym_step (skz f stroff)) syms (Some st) =
    Some (mkL (l_bus st) (l_er st)
              (match find (is_exit_sym f stroff) (rev syms) with
               | Some sy => (st_value sy + PROGRAM_START_ADDR) mod 4294967296
               | None => l_exit st end)).
Proof.
  intros H0. induction syms as [|sy t IH]; intros st Hall.
  - destruct st; reflexivity.
  - inversion Hall as [|? ? [Hn Hb] Ht]; subst. cbn [fold_left rev]. rewrite find_app.
    unfold sym_step at 2. rewrite slice_skz by lia.
    assert (Ht' : is_exit_sym f stroff sy = match parse_str (skz f (stroff + st_name sy)) with Some s => bytes_eq s n_exit | None => false end).
    { unfold is_exit_sym, cstr_at.
      replace ((0 <=? stroff + st_name sy) && (stroff + st_name sy <=? flen f)) with true by (symmetry; apply andb_true_iff; split; lia).
      symmetry. apply name_test_agrees. reflexivity. }
    destruct (parse_str (skz f (stroff + st_name sy))) as [s|] eqn:Ep.
    + destruct (bytes_eq s n_exit) eqn:Eb.
      * rewrite IH by assumption. cbn [l_bus l_er l_exit find]. rewrite Ht'.
        destruct (find (is_exit_sym f stroff) (rev t)); reflexivity.
      * rewrite IH by assumption. cbn [find]. rewrite Ht'.
        destruct (find (is_exit_sym f stroff) (rev t)); reflexivity.
    + rewrite IH by assumption. cbn [find]. rewrite Ht'.
      destruct (find (is_exit_sym f stroff) (rev t)); reflexivity.
Qed.

(* ------------------------------------------------------------------ the end of the image *)
Lemma image_end_fold phs : forall a, 0 <= a ->
  fold_left (fun acc ph => if p_type ph =? 1 then Z.max acc (p_memsz ph + p_paddr ph) else acc) phs a = Z.max a (img_end phs).
Proof.
  induction phs as [|ph t IH]; intros a Ha; cbn [fold_left img_end fold_right].
  - lia.
  - fold (img_end t). unfold is_load. destruct (p_type ph =? 1); rewrite IH by lia; lia.
Qed.
Lemma img_end_nonneg phs : 0 <= img_end phs.
Proof. induction phs as [|ph t IH]; cbn [img_end fold_right]; [lia|]. fold (img_end t). destruct (is_load ph); lia. Qed.
Lemma image_end_img_end phs : image_end phs = img_end phs.
Proof. unfold image_end. rewrite image_end_fold by lia. pose proof (img_end_nonneg phs). lia. Qed.

Definition load_ok (f : list Z) (ph : phdr) : Prop :=
  is_load ph = true ->
  p_offset ph + p_filesz ph <= flen f /\ p_filesz ph <= p_memsz ph /\ p_vaddr ph + p_memsz ph <= DRAM_SIZE - OFF.

Lemma img_end_ge phs ph : In ph phs -> is_load ph = true -> p_paddr ph + p_memsz ph <= img_end phs.
Proof.
  induction phs as [|q t IH]; intros Hin Hl; [contradiction|]. cbn [img_end fold_right]. fold (img_end t).
  destruct Hin as [->|Hin]; [rewrite Hl; lia|]. specialize (IH Hin Hl). destruct (is_load q); lia.
Qed.
Lemma extent_nonneg phs : 0 <= extent phs.
Proof. induction phs as [|ph t IH]; cbn [extent fold_right]; [lia|]. fold (extent t). destruct (is_load ph); lia. Qed.
Lemma extent_ge phs ph : In ph phs -> is_load ph = true -> p_vaddr ph + p_memsz ph <= extent phs.
Proof.
  induction phs as [|q t IH]; intros Hin Hl; [contradiction|]. cbn [extent fold_right]. fold (extent t).
  destruct Hin as [->|Hin]; [rewrite Hl; lia|]. specialize (IH Hin Hl). destruct (is_load q); lia.
Qed.
Lemma extent_le_top f phs : Forall (load_ok f) phs -> extent phs <= DRAM_SIZE - OFF.
Proof.
  induction phs as [|q t IH]; intros Hall; cbn [extent fold_right]; [unfold DRAM_SIZE, OFF, PROGRAM_START_ADDR, DRAM_START; lia|].
  fold (extent t). inversion Hall as [|? ? Hq Ht]; subst. specialize (IH Ht).
  destruct (is_load q) eqn:E; [|exact IH]. destruct (Hq E) as (_ & _ & H3). lia.
Qed.

Lemma file_byte_above f phs a : Forall (load_ok f) phs -> extent phs <= a -> file_byte f phs a = 0.
Proof.
  intros Hall Ha. unfold file_byte. destruct (find (fun ph => covers ph a) (rev phs)) as [ph|] eqn:E; [|reflexivity].
  apply find_some in E. destruct E as [Hin Hc]. apply in_rev in Hin.
  unfold covers in Hc. apply andb_true_iff in Hc. destruct Hc as [Hc Hc3]. apply andb_true_iff in Hc. destruct Hc as [Hc1 Hc2].
  rewrite Forall_forall in Hall. destruct (Hall _ Hin Hc1) as (_ & H2 & _).
  pose proof (extent_ge phs ph Hin Hc1). lia.
Qed.

Lemma file_byte_below f phs a : Forall (fun ph => 0 <= p_vaddr ph) phs -> a < 0 -> file_byte f phs a = 0.
Proof.
  intros Hall Ha. unfold file_byte. destruct (find (fun ph => covers ph a) (rev phs)) as [ph|] eqn:E; [|reflexivity].
  apply find_some in E. destruct E as [Hin Hc]. apply in_rev in Hin. rewrite Forall_forall in Hall. specialize (Hall _ Hin).
  unfold covers in Hc. apply andb_true_iff in Hc. destruct Hc as [Hc Hc3]. apply andb_true_iff in Hc. destruct Hc as [Hc1 Hc2]. lia.
Qed.

(* ------------------------------------------------------------------ uniqueness of the special sections *)
Lemma filter_nil_existsb {A} (p : A -> bool) l : filter p l = [] -> existsb p l = false.
Proof.
  induction l as [|x l IH]; [reflexivity|]. cbn [filter existsb]. destruct (p x); [discriminate|]. exact IH.
Qed.
Lemma existsb_false_find {A} (p : A -> bool) l : existsb p l = false -> find p l = None.
Proof.
  induction l as [|x l IH]; [reflexivity|]. cbn [find existsb]. destruct (p x); [discriminate|]. exact IH.
Qed.
Lemma unique_named {A} (p : A -> bool) P x rest :
  (length (filter p (P ++ x :: rest)) <= 1)%nat -> p x = true ->
  existsb p P = false /\ find p (P ++ x :: rest) = Some x.
Proof.
  intros Hlen Hx. rewrite filter_app in Hlen. cbn [filter] in Hlen. rewrite Hx in Hlen.
  rewrite app_length in Hlen. cbn [length] in Hlen.
  assert (Hn : filter p P = []) by (destruct (filter p P); [reflexivity|cbn [length] in Hlen; lia]).
  pose proof (filter_nil_existsb p P Hn) as He. split; [exact He|].
  rewrite find_app. rewrite (existsb_false_find p P He). cbn [find]. now rewrite Hx.
Qed.
Lemma existsb_app_one {A} (p : A -> bool) P x : existsb p (P ++ [x]) = existsb p P || p x.
Proof. rewrite existsb_app. cbn [existsb]. now rewrite orb_false_r. Qed.
Lemma find_none_flag {A} (p : A -> bool) l : find p l = None -> existsb p l = false.
Proof.
  induction l as [|x l IH]; [reflexivity|]. cbn [find existsb]. destruct (p x); [discriminate|]. exact IH.
Qed.
Lemma find_some_flag {A} (p : A -> bool) l x : find p l = Some x -> existsb p l = true.
Proof.
  induction l as [|y l IH]; [discriminate|]. cbn [find existsb]. destruct (p y); [reflexivity|]. exact IH.
Qed.
