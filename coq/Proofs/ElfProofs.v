(* Proofs about the ELF loader model (C11, C12): the sequential nom-style readers read the fields at the
   ELF32 offsets; the copy / relocation / argument loops produce the point-wise expected image. *)
From Coq Require Import Bool ZArith Lia List.
From K Require Import Lib.Types Lib.Bits Model.Machine Model.Bus Model.Elf Spec.ElfSpec.
Import ListNotations.
Open Scope bool_scope. Open Scope Z_scope.
Ltac Zify.zify_post_hook ::= Z.div_mod_to_equations.

(* ------------------------------------------------------------------ readers at offsets *)
Definition skz (f : list Z) (i : Z) : list Z := skipn (Z.to_nat i) f.

Lemma skz_cons f i : 0 <= i -> i < flen f -> skz f i = at8 f i :: skz f (i + 1).
Proof.
  unfold skz, at8, flen. intros H0 H1.
  replace (Z.to_nat (i + 1)) with (S (Z.to_nat i)) by lia.
  assert (Hn : (Z.to_nat i < length f)%nat) by lia. revert Hn. generalize (Z.to_nat i) as n.
  clear. induction f as [|x f IH]; intros n Hn; cbn [length] in Hn; [lia|].
  destruct n as [|n]; [reflexivity|]. cbn [skipn nth]. apply IH. lia.
Qed.

Lemma rd_u8_at f i : 0 <= i -> i + 1 <= flen f -> rd_u8 (skz f i) = Some (at8 f i, skz f (i + 1)).
Proof. intros H0 H1. rewrite skz_cons by lia. reflexivity. Qed.

Lemma rd_be16_at f i : 0 <= i -> i + 2 <= flen f -> rd_be16 (skz f i) = Some (at16 f i, skz f (i + 2)).
Proof.
  intros H0 H1. unfold rd_be16, rbind, rret. rewrite rd_u8_at by lia. rewrite rd_u8_at by lia.
  f_equal. f_equal; try reflexivity. apply (f_equal (skz f)); lia.
Qed.

Lemma rd_be32_at f i : 0 <= i -> i + 4 <= flen f -> rd_be32 (skz f i) = Some (at32 f i, skz f (i + 4)).
Proof.
  intros H0 H1. unfold rd_be32, rbind, rret. rewrite rd_be16_at by lia. rewrite rd_be16_at by lia.
  f_equal. f_equal; try reflexivity. apply (f_equal (skz f)); lia.
Qed.

Lemma rd_count_u8 f : forall n i, 0 <= i -> i + Z.of_nat n <= flen f ->
  exists l, rd_count n rd_u8 (skz f i) = Some (l, skz f (i + Z.of_nat n)).
Proof.
  induction n as [|n IH]; intros i H0 H1.
  - exists []. cbn [rd_count]. unfold rret. do 2 f_equal. apply (f_equal (skz f)); lia.
  - cbn [rd_count]. unfold rbind. rewrite rd_u8_at by lia.
    destruct (IH (i + 1)) as [l Hl]; [lia|lia|]. rewrite Hl. eexists. unfold rret. do 2 f_equal. apply (f_equal (skz f)); lia.
Qed.

(* a table of n fixed-size entries *)
Lemma rd_count_table {A} (r : reader A) (g : Z -> A) (sz : Z) f :
  0 < sz ->
  (forall i, 0 <= i -> i + sz <= flen f -> r (skz f i) = Some (g i, skz f (i + sz))) ->
  forall n o k, 0 <= o -> 0 <= k -> o + sz * (k + Z.of_nat n) <= flen f ->
  rd_count n r (skz f (o + sz * k)) = Some (map (fun j => g (o + sz * j)) (zrange_from k n), skz f (o + sz * (k + Z.of_nat n))).
Proof.
  intros Hsz Hr. induction n as [|n IH]; intros o k Ho Hk Hlen.
  - cbn [rd_count zrange_from map]. unfold rret. do 2 f_equal. apply (f_equal (skz f)); lia.
  - cbn [rd_count zrange_from map]. unfold rbind. rewrite Hr by nia.
    replace (o + sz * k + sz) with (o + sz * (k + 1)) by lia.
    rewrite IH by lia. unfold rret. do 2 f_equal. apply (f_equal (skz f)); lia.
Qed.

Lemma skz_0 f : skz f 0 = f. Proof. reflexivity. Qed.

(* ------------------------------------------------------------------ C11: the header fields are read at their ELF32 offsets *)
Definition phdr_at (f : list Z) (o : Z) : phdr :=
  mkPhdr (at32 f o) (at32 f (o + 4)) (at32 f (o + 8)) (at32 f (o + 12)) (at32 f (o + 16)) (at32 f (o + 20)).
Definition shdr_at (f : list Z) (o : Z) : shdr :=
  mkShdr (at32 f o) (at32 f (o + 12)) (at32 f (o + 16)) (at32 f (o + 20)) (at32 f (o + 24)) (at32 f (o + 36)).
Definition sym_at (f : list Z) (o : Z) : sym := mkSym (at32 f o) (at32 f (o + 4)).

Ltac fin :=
  repeat match goal with
  | |- skz ?f _ = skz ?f _ => apply (f_equal (skz f)); lia
  | |- at32 ?f _ = at32 ?f _ => apply (f_equal (at32 f)); lia
  | |- at16 ?f _ = at16 ?f _ => apply (f_equal (at16 f)); lia
  | |- at8 ?f _ = at8 ?f _ => apply (f_equal (at8 f)); lia
  | |- ?x = ?x => reflexivity
  | |- _ = _ => progress f_equal
  end.
Ltac reads :=
  unfold rbind, rret;
  repeat (first [ rewrite rd_be32_at by lia | rewrite rd_be16_at by lia | rewrite rd_u8_at by lia ]).

Lemma parse_phdr_at f o : 0 <= o -> o + 32 <= flen f ->
  parse_program_header32 (skz f o) = Some (phdr_at f o, skz f (o + 32)).
Proof.
  intros H0 H1. unfold parse_program_header32. reads. unfold phdr_at.
  fin.
Qed.

Lemma parse_shdr_at f o : 0 <= o -> o + 40 <= flen f ->
  parse_section_header32 (skz f o) = Some (shdr_at f o, skz f (o + 40)).
Proof.
  intros H0 H1. unfold parse_section_header32. reads. unfold shdr_at.
  fin.
Qed.

Lemma parse_sym_at f o : 0 <= o -> o + 16 <= flen f ->
  parse_symbol32 (skz f o) = Some (sym_at f o, skz f (o + 16)).
Proof.
  intros H0 H1. unfold parse_symbol32. reads. unfold sym_at.
  fin.
Qed.

Lemma parse_header_at f :
  52 <= flen f -> bytes_eq (firstn 4 f) [0x7f; 69; 76; 70] = true ->
  parse_elf_header32 f = Some (ref_ehdr f, skz f 52).
Proof.
  intros Hlen Hmagic. unfold parse_elf_header32.
  unfold rbind at 1. unfold rd_tag. cbn [length]. rewrite Hmagic.
  change (skipn 4 f) with (skz f 4).
  unfold rbind at 1. rewrite rd_u8_at by lia. unfold rbind at 1. rewrite rd_u8_at by lia.
  unfold rbind at 1. rewrite rd_u8_at by lia. unfold rbind at 1. rewrite rd_u8_at by lia.
  unfold rbind at 1. rewrite rd_u8_at by lia.
  unfold rbind at 1. destruct (rd_count_u8 f 7 (4 + 1 + 1 + 1 + 1 + 1)) as [l Hl]; [lia|cbn; lia|]. rewrite Hl.
  reads. unfold ref_ehdr. fin.
Qed.

Lemma phdrs_at f : 0 <= e_phoff (ref_ehdr f) -> 0 <= e_phnum (ref_ehdr f) ->
  e_phoff (ref_ehdr f) + 32 * e_phnum (ref_ehdr f) <= flen f ->
  exists rest, rd_count (Z.to_nat (e_phnum (ref_ehdr f))) parse_program_header32 (skz f (e_phoff (ref_ehdr f))) = Some (ref_phdrs f, rest).
Proof.
  intros H0 Hn H1.
  pose proof (rd_count_table parse_program_header32 (phdr_at f) 32 f ltac:(lia) (parse_phdr_at f)
                (Z.to_nat (e_phnum (ref_ehdr f))) (e_phoff (ref_ehdr f)) 0 H0 ltac:(lia) ltac:(lia)) as H.
  replace (e_phoff (ref_ehdr f) + 32 * 0) with (e_phoff (ref_ehdr f)) in H by lia.
  eexists. rewrite H. f_equal.
Qed.

Lemma shdrs_at f : 0 <= e_shoff (ref_ehdr f) -> 0 <= e_shnum (ref_ehdr f) ->
  e_shoff (ref_ehdr f) + 40 * e_shnum (ref_ehdr f) <= flen f ->
  exists rest, rd_count (Z.to_nat (e_shnum (ref_ehdr f))) parse_section_header32 (skz f (e_shoff (ref_ehdr f))) = Some (ref_shdrs f, rest).
Proof.
  intros H0 Hn H1.
  pose proof (rd_count_table parse_section_header32 (shdr_at f) 40 f ltac:(lia) (parse_shdr_at f)
                (Z.to_nat (e_shnum (ref_ehdr f))) (e_shoff (ref_ehdr f)) 0 H0 ltac:(lia) ltac:(lia)) as H.
  replace (e_shoff (ref_ehdr f) + 40 * 0) with (e_shoff (ref_ehdr f)) in H by lia.
  eexists. rewrite H. f_equal.
Qed.
