From Coq Require Import Bool ZArith Lia ZifyBool List.
From K Require Import Lib.Bits Model.Machine Model.Bus Model.Addressing Spec.MemMap.
Import ListNotations.
Open Scope bool_scope. Open Scope Z_scope.

Ltac unf := unfold bus_read, bus_write, accessible, plain, port_register, within, inr,
  VEC_START, VEC_END, IO1_START, IO1_END, DRAM_START, DRAM_END, RAM_START, RAM_END, IO2_START, IO2_END in *.
Ltac ifs := repeat match goal with |- context [if ?c then _ else _] => destruct c eqn:? end.

(* ---- accessibility ---- *)
Lemma read_accessible b a : (exists v, bus_read b a = Some v) <-> accessible a = true.
Proof. unf. split; [intros [v H]; revert H|intros H]; ifs; try discriminate; try lia; eauto. Qed.

Lemma read_inaccessible b a : accessible a = false -> bus_read b a = None.
Proof. unf. intros H. ifs; try reflexivity; lia. Qed.

Lemma write_accessible b a v : (exists b', bus_write b a v = Some b') <-> accessible a = true.
Proof. unf. split; [intros [b' H]; revert H|intros H]; ifs; try discriminate; try lia; eauto. Qed.

Lemma write_inaccessible b a v : accessible a = false -> bus_write b a v = None.
Proof. unf. intros H. ifs; try reflexivity; lia. Qed.

Lemma above_24_bits_inaccessible a : 0x1000000 <= a -> accessible a = false.
Proof. unf. lia. Qed.
Lemma negative_inaccessible a : a < 0 -> accessible a = false.
Proof. unf. lia. Qed.

(* ---- plain storage: read after write ---- *)
Lemma write_registers_read b a v x : bus_read (write_registers b a v) x = bus_read b x.
Proof. unfold write_registers. destruct (a =? TCR0); reflexivity. Qed.

Ltac unfw := unfold bus_write, accessible, plain, port_register, within, inr,
  VEC_START, VEC_END, IO1_START, IO1_END, DRAM_START, DRAM_END, RAM_START, RAM_END, IO2_START, IO2_END in *.
Ltac unfr := unfold bus_read, inr;
  cbn [b_vec b_dram b_io1 b_ram b_io2 bset_vec bset_dram bset_io1 bset_ram bset_io2];
  unfold VEC_START, VEC_END, IO1_START, IO1_END, DRAM_START, DRAM_END, RAM_START, RAM_END, IO2_START, IO2_END.

Lemma read_write_same b a v b' : plain a = true -> bus_write b a v = Some b' -> bus_read b' a = Some v.
Proof.
  unfw. intros Hp. ifs; intros H; inversion H; subst; clear H; try lia;
    rewrite ?write_registers_read; unfr; ifs; try lia;
    rewrite sget_sset by lia; rewrite Z.eqb_refl; reflexivity.
Qed.

Lemma read_write_other b a v b' x :
  plain a = true -> x <> a -> bus_write b a v = Some b' -> bus_read b' x = bus_read b x.
Proof.
  unfw. intros Hp Hne. ifs; intros H; inversion H; subst; clear H; try lia;
    rewrite ?write_registers_read; unfr; ifs; try lia; try reflexivity;
    rewrite sget_sset by lia;
    match goal with |- context [if ?c then _ else _] => destruct c eqn:? end; try lia; reflexivity.
Qed.

(* ---- histories: the bus refines the abstract map  address -> byte ---- *)
Definition abs_of (b : bus) : amem := bus_read b.

(* one step of the concrete bus; a failing access leaves the bus unchanged *)
Definition cstep (b : bus) (x : access) : bus * option Z :=
  match x with
  | AWrite a v => match bus_write b a v with Some b' => (b', Some v) | None => (b, None) end
  | ARead a => (b, bus_read b a)
  end.
Definition plain_access (x : access) : Prop :=
  match x with AWrite a _ => accessible a = true -> plain a = true | ARead _ => True end.

Lemma step_refines b x :
  plain_access x ->
  snd (cstep b x) = snd (astep (abs_of b) x) /\
  forall y, abs_of (fst (cstep b x)) y = fst (astep (abs_of b) x) y.
Proof.
  destruct x as [a v|a]; cbn [cstep astep plain_access]; intros Hp.
  - destruct (accessible a) eqn:Ha.
    + destruct (proj2 (write_accessible b a v) Ha) as [b' Hw]. rewrite Hw. cbn [fst snd]. split; [reflexivity|].
      intros y. unfold abs_of, aupd. destruct (Z.eqb_spec y a) as [->|Hne].
      * eapply read_write_same; eauto.
      * eapply read_write_other; eauto.
    + rewrite write_inaccessible by exact Ha. cbn [fst snd]. split; reflexivity.
  - cbn [fst snd]. split; [|reflexivity]. unfold abs_of.
    destruct (accessible a) eqn:Ha; [reflexivity|]. now apply read_inaccessible.
Qed.

Fixpoint crun (b : bus) (h : list access) : bus * list (option Z) :=
  match h with [] => (b, []) | x :: t => let '(b1, r) := cstep b x in let '(b2, rs) := crun b1 t in (b2, r :: rs) end.
Lemma astep_ext m m' x : (forall y, m y = m' y) ->
  snd (astep m x) = snd (astep m' x) /\ forall y, fst (astep m x) y = fst (astep m' x) y.
Proof.
  intros E. destruct x as [a v|a]; cbn [astep].
  - destruct (accessible a); cbn [fst snd]; split; try reflexivity; try exact E.
    intros y. unfold aupd. destruct (y =? a); [reflexivity|apply E].
  - cbn [fst snd]. split; [|exact E]. destruct (accessible a); [apply E|reflexivity].
Qed.

Lemma history_spec_gen h : forall b m, Forall plain_access h -> (forall y, abs_of b y = m y) ->
  snd (crun b h) = snd (arun m h) /\ forall y, abs_of (fst (crun b h)) y = fst (arun m h) y.
Proof.
  induction h as [|x t IH]; intros b m Hall E; cbn [crun arun].
  - cbn [fst snd]. split; [reflexivity|exact E].
  - inversion Hall as [|x' t' Hx Ht]; subst.
    destruct (step_refines b x Hx) as [R1 R2].
    destruct (astep_ext (abs_of b) m x E) as [R3 R4].
    destruct (cstep b x) as [b1 r] eqn:Ec. destruct (astep m x) as [m1 r'] eqn:Ea.
    cbn [fst snd] in *.
    assert (E1 : forall y, abs_of b1 y = m1 y) by (intros y; rewrite R2; apply R4).
    destruct (IH b1 m1 Ht E1) as [I1 I2].
    destruct (crun b1 t) as [b2 rs]. destruct (arun m1 t) as [m2 rs'].
    cbn [fst snd] in *. split; [|exact I2]. rewrite I1. f_equal. rewrite R1. exact R3.
Qed.

(* ---- word and long accesses are the big-endian composition of consecutive bytes ---- *)
Lemma read_w_big_endian s a b0 b1 :
  bus_read (cbus s) a = Some b0 -> bus_read (cbus s) (a + 1) = Some b1 -> 0 <= b1 < 256 ->
  read_abs24_w a s = Ok (256 * b0 + b1) s.
Proof.
  intros H0 H1 Hb. unfold read_abs24_w, bind, bread, ret. rewrite H0, H1.
  f_equal. rewrite shiftl_mul by lia. change (2^8) with 256.
  rewrite lor_high_low with (k := 8) by (change (2^8) with 256; lia). change (2^8) with 256. lia.
Qed.

Lemma read_l_big_endian s a b0 b1 b2 b3 :
  bus_read (cbus s) a = Some b0 -> bus_read (cbus s) (a + 1) = Some b1 ->
  bus_read (cbus s) (a + 2) = Some b2 -> bus_read (cbus s) (a + 3) = Some b3 ->
  0 <= b1 < 256 -> 0 <= b2 < 256 -> 0 <= b3 < 256 ->
  read_abs24_l a s = Ok (16777216 * b0 + 65536 * b1 + 256 * b2 + b3) s.
Proof.
  intros H0 H1 H2 H3 R1 R2 R3. unfold read_abs24_l, bind.
  rewrite (read_w_big_endian s a b0 b1) by assumption.
  replace (a + 2 + 1) with (a + 3) in * by lia.
  rewrite (read_w_big_endian s (a + 2) b2 b3); [|assumption|now replace (a + 2 + 1) with (a + 3) by lia|assumption].
  unfold ret. f_equal. rewrite shiftl_mul by lia. change (2^16) with 65536.
  rewrite lor_high_low with (k := 16) by (change (2^16) with 65536; lia). change (2^16) with 65536. lia.
Qed.

(* a word access that straddles the end of a region accesses the first byte, then fails *)
Lemma read_w_straddle s a b0 :
  bus_read (cbus s) a = Some b0 -> accessible (a + 1) = false -> read_abs24_w a s = Err.
Proof.
  intros H0 H1. unfold read_abs24_w, bind, bread. rewrite H0, (read_inaccessible _ _ H1). reflexivity.
Qed.

Lemma write_w_bytes s a v b1 b2 :
  bus_write (cbus s) a (Z.shiftr v 8 mod 256) = Some b1 ->
  bus_write b1 (a + 1) (v mod 256) = Some b2 ->
  write_abs24_w a v s = Ok tt (set_bus b2 s).
Proof.
  intros H1 H2. unfold write_abs24_w, bind, bwrite. rewrite H1. cbn [cbus set_bus]. rewrite H2. reflexivity.
Qed.

Lemma word_split v : 0 <= v < 65536 -> 256 * (Z.shiftr v 8 mod 256) + v mod 256 = v.
Proof. intros. rewrite shiftr_div by lia. change (2^8) with 256. lia. Qed.

(* ---- sized accesses of the CPU refine the abstract sized accesses ---- *)
Definition bytes_ok_bus (b : bus) : Prop := forall a v, bus_read b a = Some v -> 0 <= v < 256.

Lemma aread_w m a b0 b1 : accessible a = true -> accessible (a + 1) = true ->
  m a = Some b0 -> m (a + 1) = Some b1 -> aread m 2 a = Some (256 * b0 + b1).
Proof.
  intros A0 A1 M0 M1. unfold aread. change (Z.to_nat 2) with 2%nat. cbn [aread_bytes].
  rewrite A0, A1, M0, M1. unfold be_value. cbn [fold_left]. f_equal. lia.
Qed.

Theorem read_w_refines s a :
  bytes_ok_bus (cbus s) ->
  accessible a = true -> accessible (a + 1) = true ->
  exists v, read_abs24_w a s = Ok v s /\ aread (abs_of (cbus s)) 2 a = Some v.
Proof.
  intros Hb A0 A1.
  destruct (proj2 (read_accessible (cbus s) a) A0) as [b0 H0].
  destruct (proj2 (read_accessible (cbus s) (a + 1)) A1) as [b1 H1].
  exists (256 * b0 + b1). split.
  - apply read_w_big_endian; try assumption. eapply Hb; eauto.
  - apply aread_w; assumption.
Qed.

Theorem write_w_refines s a v :
  0 <= v < 65536 -> plain a = true -> plain (a + 1) = true ->
  exists b2, write_abs24_w a v s = Ok tt (set_bus b2 s) /\
             forall y, abs_of b2 y = fst (awrite (abs_of (cbus s)) 2 a v) y.
Proof.
  intros Hv P0 P1.
  assert (A0 : accessible a = true) by (unfold plain in P0; apply andb_true_iff in P0; tauto).
  assert (A1 : accessible (a + 1) = true) by (unfold plain in P1; apply andb_true_iff in P1; tauto).
  destruct (proj2 (write_accessible (cbus s) a (Z.shiftr v 8 mod 256)) A0) as [b1 H1].
  destruct (proj2 (write_accessible b1 (a + 1) (v mod 256)) A1) as [b2 H2].
  exists b2. split; [eapply write_w_bytes; eauto|].
  intros y. unfold awrite, be_bytes. cbn [Z.eqb Pos.eqb]. cbn [awrite_bytes]. rewrite A0, A1. cbn [fst].
  unfold abs_of, aupd. rewrite shiftr_div in H1 by lia. change (2^8) with 256 in H1.
  destruct (Z.eqb_spec y (a + 1)) as [->|N1].
  - eapply read_write_same; eauto.
  - rewrite (read_write_other b1 (a + 1) (v mod 256) b2 y P1 N1 H2).
    destruct (Z.eqb_spec y a) as [->|N0].
    + exact (read_write_same (cbus s) a _ b1 P0 H1).
    + exact (read_write_other (cbus s) a _ b1 y P0 N0 H1).
Qed.
