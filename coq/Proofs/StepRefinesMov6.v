(* From the instruction words in memory to the reference semantics: MOV.B / MOV.W with a 24-bit absolute address
   (six bytes: the second and third words are the address). *)
From Coq Require Import Bool ZArith Lia ZifyBool List.
From K Require Import Lib.Bits Lib.Types Model.Machine Model.Bus Model.Cost Model.Addressing Model.Alu Model.Exec Spec.ISA
  Proofs.RegProofs Proofs.MemProofs Proofs.FlagProofs Proofs.AluProofs Proofs.EaProofs Proofs.StepProofs Proofs.DecodeProofs
  Proofs.CtlProofs Proofs.MovProofs Proofs.MovExtProofs Proofs.TwoByte Proofs.FourByte Proofs.StepRefines Proofs.StepRefinesCtl
  Proofs.StepRefines2 Proofs.StepRefines4 Proofs.StepRefines6 Proofs.StepRefinesMov4.
Import ListNotations.
Open Scope bool_scope. Open Scope Z_scope.
Ltac Zify.zify_post_hook ::= Z.div_mod_to_equations.

(* everything but the address comes from the first word; the upper byte of the address field must be 0 *)
Definition mov6_shape (w0 w1 w2 : Z) (i : insn) : Prop :=
  match i with
  | IMovLoad z (EAbs a) rd =>
    match z with SL => True | _ => decode_ref w0 0 0 0 0 = Some (IMovLoad z (EAbs (lob 0 * 65536 + 0)) rd, 6) /\ a = lob w1 * 65536 + w2 /\ hib w1 = 0 end
  | IMovStore z rs (EAbs a) =>
    match z with SL => True | _ => decode_ref w0 0 0 0 0 = Some (IMovStore z rs (EAbs (lob 0 * 65536 + 0)), 6) /\ a = lob w1 * 65536 + w2 /\ hib w1 = 0 end
  | _ => True
  end.

Lemma six_byte_mov_operand w0 w1 w2 w3 w4 i :
  decode_ref w0 w1 w2 w3 w4 = Some (i, 6) -> mov6_shape w0 w1 w2 i.
Proof.
  unfold decode_ref, dec_mov_mem, dec_unary, dec_imm_group, dec_bit_mem, req, ok. cbv zeta.
  split_ifs; intros H; try discriminate H;
    try (exfalso; clear -H; inversion H; fail).
  all: (apply (f_equal (fun o => match o with Some (x, _) => x | None => i end)) in H; cbv beta iota in H; subst i; unfold mov6_shape;
        first [ exact I
              | split; [|split; [reflexivity|]];
                [ unfold decode_ref, dec_mov_mem, dec_unary, dec_imm_group, dec_bit_mem, req, ok; cbv zeta;
                  repeat match goal with E : ?c = _ |- context [if ?c then _ else _] => rewrite E end; reflexivity
                | repeat match goal with E : _ && _ = true |- _ => apply andb_true_iff in E; destruct E end; lia ] ]).
Qed.

Definition is_mov6 (t : tag) : bool := match t with TMovAbs24 SB | TMovAbs24 SW => true | _ => false end.
Definition operand_mov6 (i : insn) : bool :=
  match i with IMovLoad (SB | SW) (EAbs _) _ | IMovStore (SB | SW) _ (EAbs _) => true | _ => false end.
Definition mov6_tag_ok (w : Z) : bool :=
  match decode_ref w 0 0 0 0 with
  | Some (i, len) => if (len =? 6) && operand_mov6 i then is_mov6 (select1 w) else true
  | None => true
  end.
Lemma mov6_tag_sweep : forallb mov6_tag_ok (zrange 65536) = true.
Proof. vm_compute. reflexivity. Qed.

Lemma is_mov6_not_prefix t : is_mov6 t = true -> is_prefix t = false.
Proof. destruct t; cbn; try discriminate; reflexivity. Qed.

Lemma mov6_dispatch w i0 : 0 <= w < 65536 -> decode_ref w 0 0 0 0 = Some (i0, 6) -> operand_mov6 i0 = true ->
  is_mov6 (select1 w) = true /\ agree (select1 w) w 0 i0 = true.
Proof.
  intros Hw Hd Ho.
  pose proof (forallb_zrange _ 65536 mov6_tag_sweep w Hw) as H2. unfold mov6_tag_ok in H2. rewrite Hd, Ho in H2.
  cbn [Z.eqb Pos.eqb andb] in H2.
  pose proof (forallb_zrange _ 65536 first_word_sweep w Hw) as H1. unfold agree1 in H1. rewrite Hd in H1.
  rewrite (is_mov6_not_prefix _ H2) in H1. cbn [orb] in H1. split; assumption.
Qed.

Lemma post_fetch_2w_pf s : post_fetch_2w (post_fetch s) = post_fetch3 s.
Proof.
  unfold post_fetch_2w, post_fetch, post_fetch3. cbn [pc set_pc set_opc].
  replace (pc s + 2 + 4) with (pc s + 6) by lia. replace (pc s + 2 + 2) with (pc s + 4) by lia. reflexivity.
Qed.

Lemma hib_zero_lob w : 0 <= w < 65536 -> hib w = 0 -> lob w = w.
Proof. unfold hib, lob. intros. lia. Qed.

(* ---- MOV.B / MOV.W @aa:24,Rd ---- *)
Theorem step_mov_load_abs24_proof s w h l w3 w4 z a rd n s' :
  z <> SL ->
  cpu_ok s -> bus_bytes_ok s -> fault s = false -> pc s mod 2 = 0 -> 0 <= pc s -> pc s + 6 < 4294967296 ->
  mem_read SW s (pc s) = Some w -> mem_read SW s (pc s + 2) = Some h -> mem_read SW s (pc s + 4) = Some l ->
  decode_ref w h l w3 w4 = Some (IMovLoad z (EAbs a) rd, 6) ->
  sem_ref (IMovLoad z (EAbs a) rd) 6 s = Some s' ->
  mov_charge z a 3 0 (set_opc (pc s + 4) s') = Ok n (set_opc (pc s + 4) s') ->
  step s = Ok n (set_opc (pc s + 4) s').
Proof.
  intros Hz Hok Hb Hf Hev H0 H1 Hw Hh Hl Hdec Hsem Hcs.
  pose proof (word_range s _ _ Hb Hw) as Rw. pose proof (word_range s _ _ Hb Hh) as Rh. pose proof (word_range s _ _ Hb Hl) as Rl.
  pose proof (six_byte_mov_operand _ _ _ _ _ _ Hdec) as Hsh. cbn [mov6_shape] in Hsh.
  assert (Hsh' : decode_ref w 0 0 0 0 = Some (IMovLoad z (EAbs (lob 0 * 65536 + 0)) rd, 6) /\ a = lob h * 65536 + l /\ hib h = 0)
    by (destruct z; [exact Hsh|exact Hsh|contradiction]).
  clear Hsh. destruct Hsh' as (Hd0 & Ea & Hh0). rewrite (hib_zero_lob h Rh Hh0) in Ea.
  assert (Hop : operand_mov6 (IMovLoad z (EAbs (lob 0 * 65536 + 0)) rd) = true) by (destruct z; [reflexivity|reflexivity|contradiction]).
  destruct (mov6_dispatch w _ Rw Hd0 Hop) as (Hl6 & Hag).
  rewrite (step_via_handler s w) by (try assumption; try lia; now apply is_mov6_not_prefix).
  destruct (select1 w) eqn:Es; cbn [is_mov6] in Hl6; try discriminate Hl6; try (destruct z; simpl in Hag; discriminate Hag).
  assert (Hzz : s0 = z).
  { destruct z, s0; simpl in Hag; try discriminate Hag; try discriminate Hl6; try reflexivity; contradiction. }
  subst s0.
  assert (Hfacts : Z.land w 0xfff0 = (match z with SB => 0x6a20 | _ => 0x6b20 end) /\ rd = nib w 4).
  { destruct z; [| |contradiction]; cbn [agree] in Hag; repeat (apply andb_true_iff in Hag; destruct Hag as [Hag ?]); repeat split; lia. }
  destruct Hfacts as (Hlw & Ed). pose proof (nib_range w 4) as R4.
  pose proof (mov_abs24_load_proof z w 0 h l (post_fetch s)) as Hx. cbv zeta in Hx.
  replace (opw z w 0) with w in Hx by (destruct z; [reflexivity|reflexivity|contradiction]).
  replace (icnt3 z) with 3 in Hx by (destruct z; [reflexivity|reflexivity|contradiction]).
  rewrite Hx; [|exact Hok|exact Hb| | | |exact Hh| |exact Hlw|destruct z; cbn [field_ok]; lia];
    [|unfold post_fetch; cbn [pc set_pc]; try lia..].
  2:{ replace (pc s + 2 + 2) with (pc s + 4) by lia. exact Hl. }
  clear Hx. rewrite post_fetch_2w_pf.
  cbn [sem_ref ea_addr ea_update] in Hsem. rewrite <- Ed, <- Ea.
  change (mem_read z (post_fetch s) a) with (mem_read z s a).
  destruct (mem_read z s a) as [v|]; cbn [ISA.obind] in Hsem; [|discriminate Hsem].
  injection Hsem as <-. cbn [option_map then_charge]. unfold post_fetch, post_fetch3. cbn [ccr set_pc set_opc].
  rewrite set_reg_set_pc_opc. unfold mov_ccr.
  change (with_ccr (set_flag fV false (set_nz (bits_of z) v (ccr s))) (set_pc (pc s + 6) (set_opc (pc s + 4) (set_reg z s rd v))))
    with (set_opc (pc s + 4) (with_pc (pc s + 6) (with_ccr (set_flag fV false (set_nz (bits_of z) v (ccr s))) (set_reg z s rd v)))).
  rewrite Hcs. unfold finish. unfold with_pc, with_ccr. cbn [fault set_opc set_pc set_ccr]. rewrite fault_set_reg, Hf. reflexivity.
Qed.

(* ---- MOV.B / MOV.W Rs,@aa:24 ---- *)
Theorem step_mov_store_abs24_proof s w h l w3 w4 z rs a n s' :
  z <> SL ->
  cpu_ok s -> bus_bytes_ok s -> fault s = false -> pc s mod 2 = 0 -> 0 <= pc s -> pc s + 6 < 4294967296 ->
  mem_read SW s (pc s) = Some w -> mem_read SW s (pc s + 2) = Some h -> mem_read SW s (pc s + 4) = Some l ->
  decode_ref w h l w3 w4 = Some (IMovStore z rs (EAbs a), 6) ->
  sem_ref (IMovStore z rs (EAbs a)) 6 s = Some s' ->
  mov_charge z a 3 0 (set_opc (pc s + 4) s') = Ok n (set_opc (pc s + 4) s') ->
  step s = Ok n (set_opc (pc s + 4) s').
Proof.
  intros Hz Hok Hb Hf Hev H0 H1 Hw Hh Hl Hdec Hsem Hcs.
  pose proof (word_range s _ _ Hb Hw) as Rw. pose proof (word_range s _ _ Hb Hh) as Rh. pose proof (word_range s _ _ Hb Hl) as Rl.
  pose proof (six_byte_mov_operand _ _ _ _ _ _ Hdec) as Hsh. cbn [mov6_shape] in Hsh.
  assert (Hsh' : decode_ref w 0 0 0 0 = Some (IMovStore z rs (EAbs (lob 0 * 65536 + 0)), 6) /\ a = lob h * 65536 + l /\ hib h = 0)
    by (destruct z; [exact Hsh|exact Hsh|contradiction]).
  clear Hsh. destruct Hsh' as (Hd0 & Ea & Hh0). rewrite (hib_zero_lob h Rh Hh0) in Ea.
  assert (Hop : operand_mov6 (IMovStore z rs (EAbs (lob 0 * 65536 + 0))) = true) by (destruct z; [reflexivity|reflexivity|contradiction]).
  destruct (mov6_dispatch w _ Rw Hd0 Hop) as (Hl6 & Hag).
  rewrite (step_via_handler s w) by (try assumption; try lia; now apply is_mov6_not_prefix).
  destruct (select1 w) eqn:Es; cbn [is_mov6] in Hl6; try discriminate Hl6; try (destruct z; simpl in Hag; discriminate Hag).
  assert (Hzz : s0 = z).
  { destruct z, s0; simpl in Hag; try discriminate Hag; try discriminate Hl6; try reflexivity; contradiction. }
  subst s0.
  assert (Hfacts : Z.land w 0xfff0 <> (match z with SB => 0x6a20 | _ => 0x6b20 end) /\ rs = nib w 4).
  { destruct z; [| |contradiction]; cbn [agree] in Hag; repeat (apply andb_true_iff in Hag; destruct Hag as [Hag ?]); repeat split; lia. }
  destruct Hfacts as (Hlw & Ed). pose proof (nib_range w 4) as R4.
  pose proof (mov_abs24_store_proof z w 0 h l (post_fetch s)) as Hx. cbv zeta in Hx.
  replace (opw z w 0) with w in Hx by (destruct z; [reflexivity|reflexivity|contradiction]).
  replace (icnt3 z) with 3 in Hx by (destruct z; [reflexivity|reflexivity|contradiction]).
  rewrite Hx; [|exact Hok|exact Hb| | | |exact Hh| |exact Hlw|destruct z; cbn [field_ok]; lia];
    [|unfold post_fetch; cbn [pc set_pc]; try lia..].
  2:{ replace (pc s + 2 + 2) with (pc s + 4) by lia. exact Hl. }
  clear Hx. rewrite post_fetch_2w_pf.
  cbn [sem_ref ea_addr ea_update] in Hsem. rewrite <- Ed, <- Ea.
  change (reg z (post_fetch s) rs) with (reg z s rs).
  unfold post_fetch3. rewrite mem_write_pf.
  destruct (mem_write z s a (reg z s rs)) as [s2|] eqn:E; cbn [ISA.obind] in Hsem; [|discriminate Hsem].
  injection Hsem as <-. cbn [option_map then_charge]. unfold post_fetch. cbn [ccr set_pc set_opc]. unfold mov_ccr.
  change (with_ccr (set_flag fV false (set_nz (bits_of z) (reg z s rs) (ccr s))) (set_pc (pc s + 6) (set_opc (pc s + 4) s2)))
    with (set_opc (pc s + 4) (with_pc (pc s + 6) (with_ccr (set_flag fV false (set_nz (bits_of z) (reg z s rs) (ccr s))) s2))).
  rewrite Hcs. unfold finish. unfold with_pc, with_ccr. cbn [fault set_opc set_pc set_ccr].
  rewrite (mem_write_fault _ _ _ _ _ E), Hf. reflexivity.
Qed.
