(* MOV with a memory operand (C01): the model's handlers are the reference's state transformers followed by the
   handler's charge, for every state, address and register. *)
From Coq Require Import Bool ZArith Lia ZifyBool List.
From K Require Import Lib.Bits Lib.Types Model.Machine Model.Bus Model.Cost Model.Addressing Model.Alu Model.Exec Spec.ISA
  Proofs.RegProofs Proofs.MemProofs Proofs.FlagProofs Proofs.AluProofs Proofs.EaProofs Proofs.StepProofs Proofs.IrqProofs Proofs.CtlProofs.
Import ListNotations.
Open Scope bool_scope. Open Scope Z_scope.
Ltac Zify.zify_post_hook ::= Z.div_mod_to_equations.

(* ---- sized memory access of the model = the reference's big-endian access ---- *)
Lemma read_spec z a s : bus_bytes_ok s ->
  read_abs24 (bytes_of z) a s = match mem_read z s a with Some v => Ok v s | None => Err end.
Proof.
  intros Hb. destruct z; unfold read_abs24; cbn [bytes_of Z.eqb Pos.eqb].
  - unfold read_abs24_b, bread. cbn [mem_read]. unfold mem8. reflexivity.
  - apply read_w_spec; assumption.
  - apply read_l_spec; assumption.
Qed.

Lemma write_spec z a v s : 0 <= v < 2^(bits_of z) ->
  write_abs24 (bytes_of z) a v s = match mem_write z s a v with Some s' => Ok tt s' | None => Err end.
Proof.
  intros Hv. destruct z; unfold write_abs24; cbn [bytes_of bits_of Z.eqb Pos.eqb] in *.
  - unfold write_abs24_b. rewrite bwrite_put8. cbn [mem_write]. rewrite Z.mod_small by (change (2^8) with 256 in Hv; lia). reflexivity.
  - apply write_w_spec. change (2^16) with 65536 in Hv. lia.
  - apply write_l_spec. change (2^32) with 4294967296 in Hv. lia.
Qed.

Lemma mem_read_range z s a v : bus_bytes_ok s -> mem_read z s a = Some v -> 0 <= v < 2^(bits_of z).
Proof.
  intros Hb. destruct z; cbn [mem_read bits_of]; unfold mem8.
  - intros H. apply (Hb _ _ H).
  - destruct (bus_read (cbus s) a) as [b0|] eqn:E0; [|discriminate].
    destruct (bus_read (cbus s) (a + 1)) as [b1|] eqn:E1; [|discriminate].
    pose proof (Hb _ _ E0). pose proof (Hb _ _ E1). intros Heq. injection Heq as <-. change (2^16) with 65536. lia.
  - intros H. change (2^32) with 4294967296. apply (mem_read_l_range s a v Hb H).
Qed.

(* a store changes the bus only *)
Lemma put8_fields s a v s' : put8 s a v = Some s' -> er s' = er s /\ ccr s' = ccr s /\ pc s' = pc s /\ opc s' = opc s.
Proof. unfold put8. destruct (bus_write (cbus s) a v); [|discriminate]. intros H. injection H as <-. auto. Qed.
Lemma mem_write_fields z s a v s' : mem_write z s a v = Some s' -> er s' = er s /\ ccr s' = ccr s /\ pc s' = pc s /\ opc s' = opc s.
Proof.
  destruct z; cbn [mem_write]; unfold ISA.obind.
  - apply put8_fields.
  - destruct (put8 s a _) as [s1|] eqn:E1; [|discriminate]. intros H2.
    destruct (put8_fields _ _ _ _ E1) as (A1 & B1 & C1 & D1). destruct (put8_fields _ _ _ _ H2) as (A2 & B2 & C2 & D2).
    repeat split; congruence.
  - destruct (put8 s a _) as [s1|] eqn:E1; [|discriminate].
    destruct (put8 s1 (a + 1) _) as [s2|] eqn:E2; [|discriminate].
    destruct (put8 s2 (a + 2) _) as [s3|] eqn:E3; [|discriminate]. intros H4.
    destruct (put8_fields _ _ _ _ E1) as (A1 & B1 & C1 & D1). destruct (put8_fields _ _ _ _ E2) as (A2 & B2 & C2 & D2).
    destruct (put8_fields _ _ _ _ E3) as (A3 & B3 & C3 & D3). destruct (put8_fields _ _ _ _ H4) as (A4 & B4 & C4 & D4).
    repeat split; congruence.
Qed.

Definition mov_ccr (z : sz) (v c : Z) : Z := set_flag fV false (set_nz (bits_of z) v c).

Lemma set_mov_flags_spec z v s : 0 <= v < 2^(bits_of z) -> 0 <= ccr s < 256 ->
  set_mov_flags z v s = Ok tt (with_ccr (mov_ccr z v (ccr s)) s).
Proof.
  intros Hv Hc. unfold set_mov_flags, bind, get_ccr, put_ccr, modify, mov_flags.
  rewrite logic_flags_spec by (try apply width_bits; assumption). reflexivity.
Qed.

Lemma ccr_set_reg z s f v : ccr (set_reg z s f v) = ccr s.
Proof. unfold set_reg; destruct z; unfold set_reg8, set_reg16, set_reg32; repeat match goal with |- context [if ?c then _ else _] => destruct c end; reflexivity. Qed.

(* the charge suffix of mov_mem *)
Definition mov_charge (z : sz) (addr icnt extra_n : Z) : M Z :=
  i <- cs KI icnt ;; d <- csa (data_kind z) (data_cnt z) addr ;;
  if extra_n =? 0 then ret (u8add i d) else (n <- cs KN extra_n ;; ret (u8add (u8add i d) n)).

(* ---- MOV <mem>,Rd at a computed address ---- *)
Theorem mov_mem_load_proof z addr f icnt extra s :
  cpu_ok s -> bus_bytes_ok s -> field_ok z f ->
  mov_mem z true addr f icnt extra s =
  then_charge (option_map (fun v => with_ccr (mov_ccr z v (ccr s)) (set_reg z s f v)) (mem_read z s addr))
              (mov_charge z addr icnt extra).
Proof.
  intros [Hr Hc] Hb Hf. unfold mov_mem. unfold bind at 1. unfold bind at 1. rewrite read_spec by assumption.
  destruct (mem_read z s addr) as [v|] eqn:E; cbn [option_map then_charge]; [|reflexivity].
  pose proof (mem_read_range z s addr v Hb E) as Rv.
  unfold bind at 1. rewrite write_rn_spec by assumption.
  rewrite set_mov_flags_spec by (try assumption; rewrite ccr_set_reg; assumption).
  rewrite ccr_set_reg. reflexivity.
Qed.

(* ---- MOV Rs,<mem> at a computed address ---- *)
Theorem mov_mem_store_proof z addr f icnt extra s :
  cpu_ok s -> field_ok z f ->
  mov_mem z false addr f icnt extra s =
  then_charge (option_map (fun s2 => with_ccr (mov_ccr z (reg z s f) (ccr s)) s2) (mem_write z s addr (reg z s f)))
              (mov_charge z addr icnt extra).
Proof.
  intros [Hr Hc] Hf. unfold mov_mem. unfold bind at 1. unfold bind at 1. rewrite read_rn_spec by assumption.
  pose proof (reg_range z s f Hr) as Rv.
  unfold bind at 1. rewrite write_spec by assumption.
  destruct (mem_write z s addr (reg z s f)) as [s2|] eqn:E; cbn [option_map then_charge]; [|reflexivity].
  destruct (mem_write_fields _ _ _ _ _ E) as (_ & Hc2 & _).
  rewrite set_mov_flags_spec by (try assumption; rewrite Hc2; assumption). rewrite Hc2. reflexivity.
Qed.

(* ---- MOV @ERs,Rd / MOV Rs,@ERd (byte and word forms: one instruction word) ---- *)
Definition opw (z : sz) (op op2 : Z) : Z := match z with SL => op2 | _ => op end.   (* the operand word: after the 0100 prefix for L *)
Definition icnt1 (z : sz) : Z := match z with SL => 2 | _ => 1 end.

Theorem mov_ern_load_proof z op op2 s :
  let w := opw z op op2 in
  cpu_ok s -> bus_bytes_ok s -> Z.land w 0x80 = 0 -> 0 <= nib w 3 < 8 -> field_ok z (nib w 4) ->
  run_tag (TMovErn z) op op2 0 s =
  then_charge (option_map (fun v => with_ccr (mov_ccr z v (ccr s)) (set_reg z s (nib w 4) v)) (mem_read z s (ea_addr z s (EInd (nib w 3)))))
              (mov_charge z (ea_addr z s (EInd (nib w 3))) (icnt1 z) 0).
Proof.
  intros w Hok Hb Hl Hr Hf. cbn [run_tag]. fold (opw z op op2). fold w.
  rewrite Hl. cbn [Z.eqb]. unfold bind at 1. rewrite ea_ern by assumption.
  replace (ea_addr SB s (EInd (nib w 3))) with (ea_addr z s (EInd (nib w 3))) by reflexivity.
  apply mov_mem_load_proof; assumption.
Qed.

Theorem mov_ern_store_proof z op op2 s :
  let w := opw z op op2 in
  cpu_ok s -> Z.land w 0x80 <> 0 -> field_ok z (nib w 4) ->
  run_tag (TMovErn z) op op2 0 s =
  then_charge (option_map (fun s2 => with_ccr (mov_ccr z (reg z s (nib w 4)) (ccr s)) s2)
                          (mem_write z s (ea_addr z s (EInd (Z.land (nib w 3) 7))) (reg z s (nib w 4))))
              (mov_charge z (ea_addr z s (EInd (Z.land (nib w 3) 7))) (icnt1 z) 0).
Proof.
  intros w Hok Hl Hf. cbn [run_tag]. fold (opw z op op2). fold w.
  replace (Z.land w 0x80 =? 0) with false by lia. unfold bind at 1.
  assert (R7 : 0 <= Z.land (nib w 3) 7 < 8).
  { change 7 with (2^3 - 1). rewrite land_ones_mod by lia. change (2^3) with 8. lia. }
  rewrite ea_ern by assumption.
  replace (ea_addr SB s (EInd (Z.land (nib w 3) 7))) with (ea_addr z s (EInd (Z.land (nib w 3) 7))) by reflexivity.
  apply mov_mem_store_proof; assumption.
Qed.

(* ---- MOV.B @aa:8,Rd / MOV.B Rs,@aa:8 ---- *)
Theorem mov_abs8_load_proof op s :
  cpu_ok s -> bus_bytes_ok s -> Z.land op 0xf000 = 0x2000 -> 0 <= lo8 op < 256 -> 0 <= nib op 2 < 16 ->
  run_tag TMovAbs8 op 0 0 s =
  then_charge (option_map (fun v => with_ccr (mov_ccr SB v (ccr s)) (set_reg SB s (nib op 2) v)) (mem_read SB s (abs8 (lo8 op))))
              (mov_charge SB (abs8 (lo8 op)) 1 0).
Proof.
  intros Hok Hb Hl Ha Hf. cbn [run_tag]. rewrite Hl. cbn [Z.eqb Pos.eqb]. rewrite ea_abs8 by assumption.
  apply mov_mem_load_proof; assumption.
Qed.

Theorem mov_abs8_store_proof op s :
  cpu_ok s -> Z.land op 0xf000 <> 0x2000 -> 0 <= lo8 op < 256 -> 0 <= nib op 2 < 16 ->
  run_tag TMovAbs8 op 0 0 s =
  then_charge (option_map (fun s2 => with_ccr (mov_ccr SB (reg SB s (nib op 2)) (ccr s)) s2) (mem_write SB s (abs8 (lo8 op)) (reg SB s (nib op 2))))
              (mov_charge SB (abs8 (lo8 op)) 1 0).
Proof.
  intros Hok Hl Ha Hf. cbn [run_tag]. replace (Z.land op 0xf000 =? 0x2000) with false by lia. rewrite ea_abs8 by assumption.
  apply mov_mem_store_proof; assumption.
Qed.

(* ---- MOV @ERs+,Rd and MOV Rs,@-ERd (byte and word forms) ---- *)
Lemma get_set_er_cases rg r x i : get_er (set_er rg r x) i = x \/ exists j, get_er (set_er rg r x) i = get_er rg j.
Proof.
  unfold set_er.
  repeat match goal with |- context [if r =? ?k then _ else _] => destruct (r =? k) end;
  unfold get_er at 1 2; cbn [r0 r1 r2 r3 r4 r5 r6 r7];
  repeat match goal with |- context [if i =? ?k then _ else _] => destruct (i =? k) end;
  first [ left; reflexivity
        | right; exists 0; reflexivity | right; exists 1; reflexivity | right; exists 2; reflexivity | right; exists 3; reflexivity
        | right; exists 4; reflexivity | right; exists 5; reflexivity | right; exists 6; reflexivity | right; exists 7; reflexivity ].
Qed.

Lemma regs_ok_set_reg32 s r x : regs_ok s -> 0 <= r < 8 -> 0 <= x < 4294967296 -> regs_ok (set_reg32 s r x).
Proof.
  intros H Hr Hx i. unfold set_reg32. cbn [er set_regs]. unfold word32.
  destruct (get_set_er_cases (er s) r x i) as [-> | [j ->]]; [lia|apply H].
Qed.

Lemma mem_write_set_regs z r s a v : mem_write z (set_regs r s) a v = option_map (set_regs r) (mem_write z s a v).
Proof.
  destruct z; cbn [mem_write]; unfold ISA.obind.
  - apply put8_set_regs.
  - rewrite put8_set_regs. destruct (put8 s a _) as [s1|]; [|reflexivity]. cbn [option_map]. apply put8_set_regs.
  - apply mem_write_l_set_regs.
Qed.

Definition incdec_charge (z : sz) (addr : Z) : M Z :=
  i <- cs KI (icnt1 z) ;; d <- csa (data_kind z) (data_cnt z) addr ;; n <- cs KN 2 ;; ret (u8add (u8add i d) n).

Theorem mov_postinc_proof z op0 op2 s :
  let op := opw z op0 op2 in
  cpu_ok s -> bus_bytes_ok s -> Z.land op 0x80 = 0 -> 0 <= nib op 3 < 8 -> field_ok z (nib op 4) ->
  run_tag (TMovIncDec z) op0 op2 0 s =
  then_charge (option_map (fun v => with_ccr (mov_ccr z v (ccr s)) (set_reg z (ea_update z s (EPostInc (nib op 3))) (nib op 4) v))
                          (mem_read z s (ea_addr z s (EPostInc (nib op 3)))))
              (incdec_charge z (ea_addr z s (EPostInc (nib op 3)))).
Proof.
  intros op [Hr Hc] Hb Hl Hn Hf. cbn [run_tag]. fold (opw z op0 op2). fold op. fold (icnt1 z).
  rewrite Hl. cbn [Z.eqb].
  unfold bind at 1. rewrite read_rn_l_spec by assumption.
  unfold bind at 1. unfold read_inc_ern. unfold bind at 1. rewrite read_rn_l_spec by assumption.
  unfold bind at 1. rewrite read_spec by assumption. rewrite mask24. cbn [ea_addr]. unfold A24.
  destruct (mem_read z s (reg32 s (nib op 3) mod 16777216)) as [v|] eqn:E; cbn [option_map then_charge]; [|reflexivity].
  pose proof (mem_read_range z s _ v Hb E) as Rv.
  unfold bind at 1. rewrite write_rn_l_spec by assumption. unfold ret.
  assert (Hs1 : regs_ok (set_reg32 s (nib op 3) (wrap 32 (reg32 s (nib op 3) + bytes_of z)))).
  { apply regs_ok_set_reg32; [assumption|assumption|]. unfold wrap. change (2^32) with 4294967296. apply Z.mod_pos_bound. lia. }
  unfold bind at 1. rewrite write_rn_spec by assumption.
  unfold bind at 1. rewrite set_mov_flags_spec by (try assumption; rewrite ccr_set_reg; exact Hc).
  rewrite ccr_set_reg. unfold ea_update, wrap. change (2^32) with 4294967296. reflexivity.
Qed.

Theorem mov_predec_proof z op0 op2 s :
  let op := opw z op0 op2 in
  cpu_ok s -> Z.land op 0x80 <> 0 -> field_ok z (nib op 4) ->
  let r := Z.land (nib op 3) 7 in
  run_tag (TMovIncDec z) op0 op2 0 s =
  then_charge (option_map (fun s2 => with_ccr (mov_ccr z (reg z s (nib op 4)) (ccr s)) s2)
                          (mem_write z (ea_update z s (EPreDec r)) (ea_addr z s (EPreDec r)) (reg z s (nib op 4))))
              (incdec_charge z (ea_addr z s (EPreDec r))).
Proof.
  intros op [Hr Hc] Hl Hf r. cbn [run_tag]. fold (opw z op0 op2). fold op. fold (icnt1 z).
  replace (Z.land op 0x80 =? 0) with false by lia. fold r.
  assert (R7 : 0 <= r < 8).
  { subst r. change 7 with (2^3 - 1). rewrite land_ones_mod by lia. change (2^3) with 8. lia. }
  unfold bind at 1. rewrite read_rn_l_spec by assumption.
  unfold bind at 1. rewrite read_rn_spec by assumption.
  pose proof (reg_range z s (nib op 4) Hr) as Rv.
  unfold bind at 1. unfold write_dec_ern. unfold bind at 1. rewrite read_rn_l_spec by assumption.
  unfold bind at 1. rewrite write_spec by assumption.
  rewrite mask24. unfold wrap. change (2^32) with 4294967296.
  assert (Ea : ((reg32 s r - bytes_of z) mod 4294967296) mod 16777216 = ea_addr z s (EPreDec r)) by (cbn [ea_addr]; unfold A24; lia).
  rewrite Ea. unfold ea_update. unfold set_reg32. rewrite mem_write_set_regs.
  destruct (mem_write z s (ea_addr z s (EPreDec r)) (reg z s (nib op 4))) as [s2|] eqn:E; cbn [option_map then_charge]; [|reflexivity].
  destruct (mem_write_fields _ _ _ _ _ E) as (He2 & Hc2 & _).
  rewrite write_rn_l_spec by assumption.
  unfold bind at 1. rewrite set_mov_flags_spec by (try assumption; cbn [ccr set_reg32 set_regs]; rewrite Hc2; exact Hc).
  unfold set_reg32. cbn [ccr set_regs]. rewrite Hc2, He2. reflexivity.
Qed.
